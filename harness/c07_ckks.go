package main

// C07 (approximate half) — ckks.Encoder: Encode/Decode/DecodePublic, slot and coefficient domains,
// float64 and arbitrary-precision paths, sparse packing, both ring types.
//
// Tie lines (first token `ckks`; exact integers only; the Lean model Lattigo.EncoderC must reproduce):
//   ckks encslot <N> <ci> <qs> <P> <scale> <slots> <re> <im>  -> centred coefficients of the plaintext
//        constant vectors (and single slots): the special IFFT is exact on them, so the coefficient
//        vector is exactly determined: fixedPoint(re) at 0, fixedPoint(im) at N/2, zero elsewhere
//   ckks enccoef <N> <qs> <P> <scale> <v0;v1;..>              -> centred coefficients (coefficient domain)
//   ckks encpoly <N> <ci> <qs> <slots> <re ints> <im ints>      -> centred coefficients: the inputs are the slot vector
//        (obtained with the real Decode) of a plaintext with these integer coefficients, so Encode must return
//        exactly that plaintext (rounding margin >> FFT error); non-constant vectors, all slot counts, both rings,
//        float64 and arbitrary-precision encoder (the latter after a low-precision Encode on the same encoder);
//        conjugate-invariant ring: the inputs additionally carry non-zero imaginary parts, which must be discarded
//   ckks fixedpoint <P> <scale> <x> <qs>  -> residues written by the exported conversion functions themselves
//        (SingleFloat64ToFixedPointCRT: P = 53; BigFloatToFixedPointCRT / ComplexArbitraryToFixedPointCRT: P = precision),
//        reduced mod q_i, at the BOUNDARY magnitudes |x|*scale in {2^52, 2^53-1, 2^53+1, 2^62, 2^63-1, 2^63, 2^63+1, 2^64-1,
//        2^64, 2^64+1, 2^65, 2^100} (float64 path: the representable neighbours), both signs, levels 0 and max, scales
//        2^20 2^30 2^45; the same magnitudes also go through Encode (enccoef / encslot lines, real and imaginary parts)
//   ckks decodecoef <P> <scale> <c>       -> mantissa,exponent of the arbitrary-precision Decode of a plaintext coefficient c at
//        NON-power-of-two scales (q_i, q_i*q_j, 3*2^k, 2^90/q_i as left by a rescale), coefficient domain ([]*big.Float /
//        []*bignum.Complex receivers, pre-allocated at 200 bits or nil) and slot domain (one slot), levels 0 and max:
//        the correctly rounded quotient by the scale itself
//   ckks bitrev <bits> <i>                                    -> utils.BitReverse64
//   ckks roundprec <num> <den> <logprec>                      -> DecodePublic(one slot) * 2^logprec
// Probes:
//   decode_encode_precision  |Decode(Encode(v)) - v| <= 2^-(logScale-logN-3) + |v| 2^-(prec-logN-8)
//   decodePublic_multiple    every published value is a multiple of 2^-logprec
//   encode_mul_slotwise      plaintext product decodes to the slot-wise product
//   slot_root_orbit          Decode(X^k) = (zeta^(5^j k))_j : the index tables realise the 5^j orbit
//   encode_overwrites        encoding a short vector on a used plaintext leaves no stale coefficients
//   encoder_precision_history  on an arbitrary-precision encoder: Encode/Decode of []*big.Float of LOWER (24, 53)
//                            and HIGHER precision than the encoder's, then of full-precision values on the SAME
//                            encoder: error <= 2^-(min(logScale,prec)-logN-6) + |v| 2^-(prec-logN-10) (no 2^-53 floor)
//   decodePublic_nearest     both precision paths x all four output types x logprec values: every published value is
//                            a multiple of 2^-logprec AND within half a step of the Decode value, negative and positive
//   encode_length_check      all four input types x both precision paths x sparse slot counts: len = slots accepted,
//                            len < slots zero-padded, len = slots+1 / MaxSlots / MaxSlots+1 refused with an error
//   encode_boundary_roundtrip  Decode(Encode(v)) for the boundary magnitudes that fit Q_level (key ckks-encode-boundary-magnitude)
//   decode_scale_division    arbitrary-precision Decode at non-power-of-two scales: relative error <= 2^-(P-3) against c/scale
//   errors_not_panics

import (
	"fmt"
	"math"
	"math/big"
	"math/cmplx"
	"strings"

	"github.com/tuneinsight/lattigo/v6/core/rlwe"
	"github.com/tuneinsight/lattigo/v6/ring"
	"github.com/tuneinsight/lattigo/v6/schemes/ckks"
	"github.com/tuneinsight/lattigo/v6/utils"
	"github.com/tuneinsight/lattigo/v6/utils/bignum"
)

type c07cEnv struct {
	tag    string
	params ckks.Parameters
	ci     bool
	N      int
	logMax int
	ecd64  *ckks.Encoder
	ecdBig *ckks.Encoder
	precB  uint
}

func c07cNewEnv(tag string, logN int, logQ []int, logScale int, rt ring.Type, precB uint) *c07cEnv {
	params, err := ckks.NewParametersFromLiteral(ckks.ParametersLiteral{LogN: logN, LogQ: logQ, LogP: []int{55}, LogDefaultScale: logScale, RingType: rt})
	if err != nil {
		panic(fmt.Sprintf("c07c params %s: %v", tag, err))
	}
	return &c07cEnv{tag: tag, params: params, ci: rt == ring.ConjugateInvariant, N: params.N(), logMax: params.LogMaxSlots(),
		ecd64: ckks.NewEncoder(params), ecdBig: ckks.NewEncoder(params, precB), precB: precB}
}

// coeffs returns the centred integer coefficients of the plaintext polynomial.
func (e *c07cEnv) coeffs(pt *rlwe.Plaintext) string {
	r := e.params.RingQ().AtLevel(pt.Level())
	tmp := r.NewPoly()
	if pt.IsNTT {
		r.INTT(pt.Value, tmp)
	} else {
		tmp.CopyLvl(pt.Level(), pt.Value)
	}
	bi := make([]*big.Int, e.N)
	r.PolyToBigint(tmp, 1, bi)
	Q := r.ModulusAtLevel[pt.Level()]
	h := new(big.Int).Rsh(Q, 1)
	parts := make([]string, e.N)
	for i, v := range bi {
		if v.Cmp(h) >= 0 {
			v.Sub(v, Q)
		}
		parts[i] = v.String()
	}
	return strings.Join(parts, ",")
}

func (e *c07cEnv) ciTok() string {
	if e.ci {
		return "1"
	}
	return "0"
}

// dyadic returns sign * k * 2^exp with k < 2^bits.
func c07cDyadic(c *Ctx, bits int, exp int) *big.Float {
	k := int64(c.rng.U64()>>(64-uint(bits))) + 1
	if c.rng.Intn(2) == 0 {
		k = -k
	}
	return new(big.Float).SetPrec(64).SetMantExp(new(big.Float).SetInt64(k), exp)
}

func c07cF64(x *big.Float) float64 { f, _ := x.Float64(); return f }

// ---------- ties ----------

func (e *c07cEnv) tieSlots(c *Ctx) {
	maxLevel := e.params.MaxLevel()
	for ls := 0; ls <= e.logMax; ls++ {
		slots := 1 << ls
		for rep := 0; rep < c.Scale(30, 90); rep++ {
			level := c.rng.Intn(maxLevel + 1)
			// scale: power of two, or an odd number (non trivial mantissa)
			logS := 20 + c.rng.Intn(26)
			var scale rlwe.Scale
			if c.rng.Intn(3) == 0 {
				scale = rlwe.NewScale(e.params.Q()[c.rng.Intn(maxLevel+1)])
				logS = int(math.Log2(scale.Float64()))
			} else {
				scale = rlwe.NewScale(math.Exp2(float64(logS)))
			}
			// magnitude from 2^-logScale to Q/(4*scale)
			logQ := e.params.LogQLvl(level)
			hi := logQ - logS - 3
			exp := -logS - 2 + c.rng.Intn(hi+logS+2)
			kind := c.rng.Intn(4)
			useBig := c.rng.Intn(2) == 0
			bits := 12
			if useBig && (kind == 1 || kind == 3) {
				bits = 60 // more than a float64 mantissa: the encoder must really work at its own precision
			}
			re := c07cDyadic(c, bits, exp-bits+1)
			im := c07cDyadic(c, bits, exp-bits+1)
			if (!e.ci && c.rng.Intn(4) == 0) || kind >= 2 {
				im = new(big.Float)
			}
			imTok := c06Dy(im)
			if e.ci {
				imTok = "0,0" // conjugate-invariant ring: the imaginary part of the input is discarded
			}
			var vals interface{}
			switch kind {
			case 0:
				v := make([]complex128, slots)
				for i := range v {
					v[i] = complex(c07cF64(re), c07cF64(im))
				}
				vals = v
			case 1:
				v := make([]*bignum.Complex, slots)
				for i := range v {
					v[i] = &bignum.Complex{new(big.Float).Copy(re), new(big.Float).Copy(im)}
				}
				vals = v
			case 2:
				v := make([]float64, slots)
				for i := range v {
					v[i] = c07cF64(re)
				}
				vals = v
			case 3:
				v := make([]*big.Float, slots)
				for i := range v {
					v[i] = new(big.Float).Copy(re)
				}
				vals = v
			}
			pt := ckks.NewPlaintext(e.params, level)
			pt.Scale = scale
			pt.LogDimensions.Cols = ls
			ecd, P, sc := e.ecd64, uint(53), new(big.Float).SetFloat64(scale.Float64())
			if useBig {
				// ComplexArbitraryToFixedPointCRT: xFlo has precision max(scale 128, buffer precB)
				ecd, P, sc = e.ecdBig, e.precB, &scale.Value
				if P < 128 {
					P = 128
				}
			}
			out := Try(func() string {
				if useBig {
					e.lowPrecCall(c)
				}
				if err := ecd.Encode(vals, pt); err != nil {
					return "err"
				}
				return e.coeffs(pt)
			})
			c.Emit(fmt.Sprintf("ckks encslot %d %s %s %d %s %d %s %s", e.N, e.ciTok(), Vec(e.params.Q()[:level+1]), P, c06Dy(sc), slots, c06Dy(re), imTok), out)
			c.Count(fmt.Sprintf("tie:encslot:%s:big=%v:kind=%d", e.tag, useBig, kind))
		}
	}
}

// lowPrecCall encodes ordinary low-precision *big.Float values on the arbitrary-precision encoder: the
// encoder's scratch buffers must keep their own precision afterwards.
func (e *c07cEnv) lowPrecCall(c *Ctx) {
	prec := []uint{53, 24}[c.rng.Intn(2)]
	n := 1 << e.logMax
	v := make([]*big.Float, n)
	for i := range v {
		v[i] = new(big.Float).SetPrec(prec).SetFloat64(float64(c.rng.Intn(1<<20))/float64(1<<20) - 0.5)
	}
	pt := ckks.NewPlaintext(e.params, e.params.MaxLevel())
	if err := e.ecdBig.Encode(v, pt); err != nil {
		panic(err)
	}
}

// tiePoly: Encode(Decode(plaintext with integer coefficients)) must be that plaintext, exactly.
func (e *c07cEnv) tiePoly(c *Ctx) {
	maxLevel := e.params.MaxLevel()
	for ls := 0; ls <= e.logMax; ls++ {
		slots := 1 << ls
		for rep := 0; rep < c.Scale(6, 30); rep++ {
			level := c.rng.Intn(maxLevel + 1)
			logQ := e.params.LogQLvl(level)
			useBig := c.rng.Intn(2) == 0
			kind := c.rng.Intn(4) // 0 []complex128, 1 []*bignum.Complex, 2 []float64, 3 []*big.Float
			if !e.ci && kind >= 2 {
				kind -= 2 // the slot values of a general polynomial are complex
			}
			bits := 20
			if useBig && (kind == 1 || kind == 3) {
				bits = 70
			}
			if bits > logQ-8 {
				bits = logQ - 8
			}
			logS := 20 + c.rng.Intn(26)
			scale := rlwe.NewScale(math.Exp2(float64(logS)))
			if c.rng.Intn(3) == 0 {
				scale = rlwe.NewScale(e.params.Q()[c.rng.Intn(maxLevel+1)])
			}
			// integer coefficients
			rnd := func() *big.Int {
				k := new(big.Int).SetUint64(c.rng.U64())
				k.Lsh(k, 64).Add(k, new(big.Int).SetUint64(c.rng.U64()))
				k.Rsh(k, uint(128-bits))
				if c.rng.Intn(2) == 0 {
					k.Neg(k)
				}
				return k
			}
			re, im := make([]*big.Int, slots), make([]*big.Int, slots)
			reTok, imTok := make([]string, slots), make([]string, slots)
			for i := range re {
				re[i], im[i] = rnd(), rnd()
				if e.ci {
					im[i] = new(big.Int)
				}
				reTok[i], imTok[i] = re[i].String(), im[i].String()
			}
			gap := e.N / (2 * slots)
			if e.ci {
				gap = e.N / slots
			}
			r := e.params.RingQ().AtLevel(level)
			pt0 := ckks.NewPlaintext(e.params, level)
			pt0.Scale = scale
			pt0.LogDimensions.Cols = ls
			tmp := new(big.Int)
			for j, qj := range e.params.Q()[:level+1] {
				bq := new(big.Int).SetUint64(qj)
				for i := 0; i < slots; i++ {
					pt0.Value.Coeffs[j][i*gap] = tmp.Mod(re[i], bq).Uint64()
					if !e.ci {
						pt0.Value.Coeffs[j][e.N/2+i*gap] = tmp.Mod(im[i], bq).Uint64()
					}
				}
			}
			r.NTT(pt0.Value, pt0.Value)
			ecd := e.ecd64
			if useBig {
				ecd = e.ecdBig
			}
			junk := func() float64 { return float64(c.rng.Intn(1<<20))/float64(1<<18) - 2 }
			out := Try(func() string {
				if useBig {
					e.lowPrecCall(c)
				}
				var vals interface{}
				if kind == 0 || kind == 2 {
					v := make([]complex128, slots)
					if err := ecd.Decode(pt0, v); err != nil {
						return "err"
					}
					if kind == 2 {
						f := make([]float64, slots)
						for i := range f {
							f[i] = real(v[i])
						}
						vals = f
					} else {
						if e.ci {
							for i := range v {
								v[i] = complex(real(v[i]), junk())
							}
						}
						vals = v
					}
				} else {
					v := make([]*bignum.Complex, slots)
					if err := ecd.Decode(pt0, v); err != nil {
						return "err"
					}
					if kind == 3 {
						f := make([]*big.Float, slots)
						for i := range f {
							f[i] = v[i][0]
						}
						vals = f
					} else {
						if e.ci {
							for i := range v {
								v[i][1] = new(big.Float).SetPrec(v[i][0].Prec()).SetFloat64(junk())
							}
						}
						vals = v
					}
				}
				pt1 := ckks.NewPlaintext(e.params, level)
				pt1.Scale = scale
				pt1.LogDimensions.Cols = ls
				if err := ecd.Encode(vals, pt1); err != nil {
					return "err"
				}
				return e.coeffs(pt1)
			})
			c.Emit(fmt.Sprintf("ckks encpoly %d %s %s %d %s %s", e.N, e.ciTok(), Vec(e.params.Q()[:level+1]), slots, strings.Join(reTok, ","), strings.Join(imTok, ",")), out)
			c.Count(fmt.Sprintf("tie:encpoly:%s:big=%v:kind=%d", e.tag, useBig, kind))
		}
	}
}

// probeHistory: the arbitrary-precision encoder keeps its precision whatever the precision of the inputs.
func (e *c07cEnv) probeHistory(c *Ctx) {
	logN := e.params.LogN()
	level := e.params.MaxLevel()
	logS := 90
	if m := e.params.LogQLvl(level) - 30; m < logS {
		logS = m
	}
	prec := int(e.precB)
	eff := logS
	if prec < eff {
		eff = prec
	}
	for _, ls := range []int{e.logMax, 1 + c.rng.Intn(e.logMax)} {
		slots := 1 << ls
		for _, lowPrec := range []uint{53, 24, 300} {
			args := fmt.Sprintf("%s slots=%d logScale=%d encoderPrec=%d inputPrec=%d", e.tag, slots, logS, prec, lowPrec)
			d := Try(func() string {
				roundTrip := func(name string, v []*big.Float) string {
					pt := ckks.NewPlaintext(e.params, level)
					pt.Scale = rlwe.NewScale(math.Exp2(float64(logS)))
					pt.LogDimensions.Cols = ls
					if err := e.ecdBig.Encode(v, pt); err != nil {
						return name + ": encode error"
					}
					have := make([]*big.Float, slots)
					if err := e.ecdBig.Decode(pt, have); err != nil {
						return name + ": decode error"
					}
					tol := math.Exp2(float64(-(eff - logN - 6))) + math.Exp2(float64(-(prec - logN - 10)))
					for i := range v {
						diff := new(big.Float).SetPrec(400).Sub(have[i], v[i])
						f, _ := diff.Float64()
						if !(math.Abs(f) <= tol) {
							return fmt.Sprintf("%s: slot=%d log2err=%d log2tol=%d", name, i, int(math.Ceil(math.Log2(math.Abs(f)))), int(math.Ceil(math.Log2(tol))))
						}
					}
					return ""
				}
				low := make([]*big.Float, slots)
				for i := range low {
					low[i] = new(big.Float).SetPrec(lowPrec).SetFloat64(float64(c.rng.Intn(1<<22))/float64(1<<22) - 0.5)
					if lowPrec > 53 {
						low[i].Add(low[i], new(big.Float).SetMantExp(big.NewFloat(1), -200))
					}
				}
				if s := roundTrip("input-precision-call", low); s != "" {
					return s
				}
				hi := make([]*big.Float, slots)
				for i := range hi {
					k := new(big.Int).SetUint64(c.rng.U64())
					k.Lsh(k, 64).Add(k, new(big.Int).SetUint64(c.rng.U64()))
					hi[i] = new(big.Float).SetPrec(uint(prec)).SetMantExp(new(big.Float).SetInt(k), -129) // in [0, 0.5), full mantissa
				}
				return roundTrip("full-precision-call-afterwards", hi)
			})
			c.Probe("encoder_precision_history", args, "C07/ckks-encoder-precision-history", d)
		}
	}
}

func (e *c07cEnv) tieCoeffs(c *Ctx) {
	maxLevel := e.params.MaxLevel()
	for rep := 0; rep < c.Scale(260, 700); rep++ {
		level := c.rng.Intn(maxLevel + 1)
		logS := 20 + c.rng.Intn(26)
		scale := rlwe.NewScale(math.Exp2(float64(logS)))
		if c.rng.Intn(3) == 0 {
			scale = rlwe.NewScale(e.params.Q()[c.rng.Intn(maxLevel+1)])
			logS = int(math.Log2(scale.Float64()))
		}
		n := 1 + c.rng.Intn(e.N)
		if c.rng.Intn(4) == 0 {
			n = e.N
		}
		logQ := e.params.LogQLvl(level)
		useBig := c.rng.Intn(2) == 0
		prec := uint(53)
		if useBig {
			prec = []uint{53, 64, 100, 200}[c.rng.Intn(4)]
		}
		toks := make([]string, n)
		bf := make([]*big.Float, n)
		f64 := make([]float64, n)
		for i := 0; i < n; i++ {
			exp := -logS - 2 + c.rng.Intn(logQ-3+2)
			v := c07cDyadic(c, 16, exp-15)
			if c.rng.Intn(10) == 0 {
				v = new(big.Float).SetPrec(64)
			}
			toks[i] = c06Dy(v)
			bf[i] = new(big.Float).SetPrec(prec).Set(v)
			f64[i] = c07cF64(v)
		}
		pt := ckks.NewPlaintext(e.params, level)
		pt.Scale = scale
		pt.IsBatched = false
		sc := &scale.Value
		var vals interface{} = bf
		if !useBig {
			vals = f64
			sc = new(big.Float).SetFloat64(scale.Float64())
		}
		out := Try(func() string {
			if err := e.ecd64.Encode(vals, pt); err != nil {
				return "err"
			}
			return e.coeffs(pt)
		})
		c.Emit(fmt.Sprintf("ckks enccoef %d %s %d %s %s", e.N, Vec(e.params.Q()[:level+1]), prec, c06Dy(sc), strings.Join(toks, ";")), out)
		c.Count(fmt.Sprintf("tie:enccoef:%s:big=%v", e.tag, useBig))
	}
}

// tieRoundPrec: DecodePublic on a one-slot plaintext whose value is an exactly known dyadic.
func (e *c07cEnv) tieRoundPrec(c *Ctx) {
	if e.ci {
		return
	}
	for rep := 0; rep < c.Scale(80, 400); rep++ {
		logS := 30 + c.rng.Intn(10)
		lp := 1 + c.rng.Intn(20)
		coef := int64(c.rng.Intn(1<<30)) - (1 << 29)
		if c.rng.Intn(4) == 0 {
			coef = (int64(c.rng.Intn(1<<8))*2 + 1) << uint(logS-lp-1) // exactly half way: ties away from zero
			if c.rng.Intn(2) == 0 {
				coef = -coef
			}
		}
		pt := ckks.NewPlaintext(e.params, 0)
		pt.Scale = rlwe.NewScale(math.Exp2(float64(logS)))
		pt.LogDimensions.Cols = 0
		pt.IsNTT = false
		q := e.params.Q()[0]
		if coef >= 0 {
			pt.Value.Coeffs[0][0] = uint64(coef)
		} else {
			pt.Value.Coeffs[0][0] = q - uint64(-coef)
		}
		vals := make([]complex128, 1)
		out := Try(func() string {
			if err := e.ecd64.DecodePublic(pt, vals, float64(lp)); err != nil {
				return "err"
			}
			k := real(vals[0]) * math.Exp2(float64(lp))
			if k != math.Trunc(k) {
				return "notint"
			}
			if k == 0 {
				return "0" // canonical: IEEE negative zero is the integer 0
			}
			return new(big.Float).SetFloat64(k).Text('f', 0)
		})
		c.Emit(fmt.Sprintf("ckks roundprec %d %s %d", coef, new(big.Int).Lsh(big.NewInt(1), uint(logS)).String(), lp), out)
		c.Count("tie:roundprec")
	}
}

// tieRoundPrecBig: the same tie on the arbitrary-precision path ([]*big.Float and []*bignum.Complex receivers):
// one slot holding an exactly known dyadic re + i*im (negative and positive), published value * 2^logprec.
func (e *c07cEnv) tieRoundPrecBig(c *Ctx) {
	if e.ci {
		return
	}
	for rep := 0; rep < c.Scale(60, 300); rep++ {
		logS := 30 + c.rng.Intn(10)
		lp := 1 + c.rng.Intn(20)
		pick := func() int64 {
			for {
				v := int64(c.rng.Intn(1<<30)) - (1 << 29)
				// not exactly half way (the big path divides by exp(logprec*ln2), an approximation of 2^logprec)
				if lp >= logS || (v<<uint(lp))&((int64(1)<<uint(logS))-1) != int64(1)<<uint(logS-1) {
					return v
				}
			}
		}
		cre, cim := pick(), pick()
		pt := ckks.NewPlaintext(e.params, 0)
		pt.Scale = rlwe.NewScale(math.Exp2(float64(logS)))
		pt.LogDimensions.Cols = 0
		pt.IsNTT = false
		q := e.params.Q()[0]
		set := func(idx int, v int64) {
			if v >= 0 {
				pt.Value.Coeffs[0][idx] = uint64(v)
			} else {
				pt.Value.Coeffs[0][idx] = q - uint64(-v)
			}
		}
		set(0, cre)
		set(e.N/2, cim)
		complexOut := c.rng.Intn(2) == 0
		toK := func(x *big.Float) string {
			k := new(big.Float).SetPrec(x.Prec()+64).SetMantExp(x, lp)
			r := new(big.Float).SetPrec(x.Prec() + 64)
			if k.Sign() >= 0 {
				r.Add(k, big.NewFloat(0.5))
			} else {
				r.Sub(k, big.NewFloat(0.5))
			}
			ki, _ := r.Int(nil)
			diff, _ := new(big.Float).Sub(k, new(big.Float).SetInt(ki)).Float64()
			if math.Abs(diff) > math.Exp2(-40) {
				return "notint"
			}
			return ki.String()
		}
		var outs []string
		res := Try(func() string {
			if complexOut {
				v := make([]*bignum.Complex, 1)
				if err := e.ecdBig.DecodePublic(pt, v, float64(lp)); err != nil {
					return "err"
				}
				outs = []string{toK(v[0][0]), toK(v[0][1])}
			} else {
				v := make([]*big.Float, 1)
				if err := e.ecdBig.DecodePublic(pt, v, float64(lp)); err != nil {
					return "err"
				}
				outs = []string{toK(v[0])}
			}
			return ""
		})
		den := new(big.Int).Lsh(big.NewInt(1), uint(logS)).String()
		for i, coef := range []int64{cre, cim} {
			if i == 1 && !complexOut {
				break
			}
			o := res
			if res == "" {
				o = outs[i]
			}
			c.Emit(fmt.Sprintf("ckks roundprec %d %s %d", coef, den, lp), o)
			c.Count("tie:roundprec-big")
		}
	}
}

// c07cBoundaries: the integers K = |v|*scale at which the float -> RNS conversions change regime.
func c07cBoundaries() (exact, f64 []*big.Int) {
	p := func(k uint) *big.Int { return new(big.Int).Lsh(big.NewInt(1), k) }
	add := func(a *big.Int, d int64) *big.Int { return new(big.Int).Add(a, big.NewInt(d)) }
	exact = []*big.Int{p(52), add(p(53), -1), add(p(53), 1), p(62), add(p(63), -1), p(63), add(p(63), 1), add(p(64), -1),
		p(64), add(p(64), 1), p(65), p(100)}
	// float64-representable neighbours (53-bit mantissa)
	f64 = []*big.Int{p(52), add(p(53), -1), p(53), add(p(53), 2), p(62), add(p(63), -1024), p(63), add(p(63), 2048),
		add(p(64), -2048), p(64), add(p(64), 4096), p(65), p(100)}
	return
}

// tieBoundary: boundary magnitudes through every float -> RNS conversion path.
func (e *c07cEnv) tieBoundary(c *Ctx) {
	exact, f64 := c07cBoundaries()
	red := func(coeffs [][]uint64, idx int, qs []uint64) string {
		out := make([]uint64, len(qs))
		for j, q := range qs {
			out[j] = coeffs[j][idx] % q
		}
		return Vec(out)
	}
	for _, logS := range []int{20, 30, 45} {
		scale := rlwe.NewScale(math.Exp2(float64(logS)))
		for _, level := range []int{0, e.params.MaxLevel()} {
			r := e.params.RingQ().AtLevel(level)
			qs := e.params.Q()[:level+1]
			mkCoeffs := func() [][]uint64 {
				m := make([][]uint64, level+1)
				for j := range m {
					m[j] = make([]uint64, e.N)
				}
				return m
			}
			val := func(K *big.Int, neg bool) *big.Float {
				v := new(big.Float).SetPrec(128).SetInt(K)
				v.SetMantExp(v, -logS)
				if neg {
					v.Neg(v)
				}
				return v
			}
			for _, neg := range []bool{false, true} {
				// float64 path: the exported single-value conversion, then Encode in both domains
				for _, K := range f64 {
					v := val(K, neg)
					vf := c07cF64(v)
					coeffs := mkCoeffs()
					out := Try(func() string {
						ckks.SingleFloat64ToFixedPointCRT(r, 3, vf, scale.Float64(), coeffs)
						return red(coeffs, 3, qs)
					})
					c.Emit(fmt.Sprintf("ckks fixedpoint 53 %s %s %s", c06Dy(&scale.Value), c06Dy(v), Vec(qs)), out)
					c.Count("tie:fixedpoint-f64")
					// coefficient domain through Encode ([]float64): v, -v
					nv := new(big.Float).Neg(v)
					pt := ckks.NewPlaintext(e.params, level)
					pt.Scale, pt.IsBatched = scale, false
					out = Try(func() string {
						if err := e.ecd64.Encode([]float64{vf, -vf}, pt); err != nil {
							return "err"
						}
						return e.coeffs(pt)
					})
					c.Emit(fmt.Sprintf("ckks enccoef %d %s 53 %s %s;%s", e.N, Vec(qs), c06Dy(&scale.Value), c06Dy(v), c06Dy(nv)), out)
					// slot domain: constant vector, real part v, imaginary part -v (standard ring)
					ls := 1 + c.rng.Intn(e.logMax)
					vals := make([]complex128, 1<<ls)
					im := nv
					if e.ci {
						im = new(big.Float)
					}
					for i := range vals {
						vals[i] = complex(vf, c07cF64(im))
					}
					pt2 := ckks.NewPlaintext(e.params, level)
					pt2.Scale = scale
					pt2.LogDimensions.Cols = ls
					out = Try(func() string {
						if err := e.ecd64.Encode(vals, pt2); err != nil {
							return "err"
						}
						return e.coeffs(pt2)
					})
					c.Emit(fmt.Sprintf("ckks encslot %d %s %s 53 %s %d %s %s", e.N, e.ciTok(), Vec(qs), c06Dy(&scale.Value), 1<<ls, c06Dy(v), c06Dy(im)), out)
					c.Count("tie:boundary-encode-f64")
				}
				// arbitrary-precision paths
				for _, K := range exact {
					v := val(K, neg)
					nv := new(big.Float).Neg(v)
					coeffs := mkCoeffs()
					out := Try(func() string {
						ckks.BigFloatToFixedPointCRT(r, []*big.Float{nil, v}, &scale.Value, coeffs)
						return red(coeffs, 1, qs)
					})
					c.Emit(fmt.Sprintf("ckks fixedpoint 128 %s %s %s", c06Dy(&scale.Value), c06Dy(v), Vec(qs)), out)
					coeffs = mkCoeffs()
					var outRe, outIm string
					res := Try(func() string {
						ckks.ComplexArbitraryToFixedPointCRT(r, []*bignum.Complex{{v, nv}}, &scale.Value, coeffs)
						outRe, outIm = red(coeffs, 0, qs), red(coeffs, 1, qs)
						return ""
					})
					if res != "" {
						outRe, outIm = res, res
					}
					c.Emit(fmt.Sprintf("ckks fixedpoint 128 %s %s %s", c06Dy(&scale.Value), c06Dy(v), Vec(qs)), outRe)
					if !e.ci {
						c.Emit(fmt.Sprintf("ckks fixedpoint 128 %s %s %s", c06Dy(&scale.Value), c06Dy(nv), Vec(qs)), outIm)
					}
					c.Count("tie:fixedpoint-big")
					// through Encode: coefficient domain ([]*big.Float) and slot domain (big encoder, constant vector)
					pt := ckks.NewPlaintext(e.params, level)
					pt.Scale, pt.IsBatched = scale, false
					out = Try(func() string {
						if err := e.ecd64.Encode([]*big.Float{v, nv}, pt); err != nil {
							return "err"
						}
						return e.coeffs(pt)
					})
					c.Emit(fmt.Sprintf("ckks enccoef %d %s 128 %s %s;%s", e.N, Vec(qs), c06Dy(&scale.Value), c06Dy(v), c06Dy(nv)), out)
					ls := 1 + c.rng.Intn(e.logMax)
					vals := make([]*bignum.Complex, 1<<ls)
					im := nv
					if e.ci {
						im = new(big.Float).SetPrec(128)
					}
					for i := range vals {
						vals[i] = &bignum.Complex{new(big.Float).Copy(v), new(big.Float).Copy(im)}
					}
					pt2 := ckks.NewPlaintext(e.params, level)
					pt2.Scale = scale
					pt2.LogDimensions.Cols = ls
					P := e.precB
					if P < 128 {
						P = 128
					}
					out = Try(func() string {
						if err := e.ecdBig.Encode(vals, pt2); err != nil {
							return "err"
						}
						return e.coeffs(pt2)
					})
					c.Emit(fmt.Sprintf("ckks encslot %d %s %s %d %s %d %s %s", e.N, e.ciTok(), Vec(qs), P, c06Dy(&scale.Value), 1<<ls, c06Dy(v), c06Dy(im)), out)
					c.Count("tie:boundary-encode-big")
				}
			}
			// round trip of the magnitudes that fit Q_level
			logQ := e.params.LogQLvl(level)
			for _, useBig := range []bool{false, true} {
				list, ecd := f64, e.ecd64
				if useBig {
					list, ecd = exact, e.ecdBig
				}
				for _, K := range list {
					if K.BitLen()+3 > logQ {
						continue
					}
					for _, slotDomain := range []bool{false, true} {
						v := c07cF64(val(K, false))
						args := fmt.Sprintf("%s K=%s logScale=%d level=%d big=%v slots=%v", e.tag, K.String(), logS, level, useBig, slotDomain)
						d := Try(func() string {
							pt := ckks.NewPlaintext(e.params, level)
							pt.Scale = scale
							tol := math.Abs(v)*math.Exp2(-40) + math.Exp2(float64(-(logS - e.params.LogN() - 3)))
							if slotDomain {
								ls := 1 + c.rng.Intn(e.logMax)
								pt.LogDimensions.Cols = ls
								in := make([]complex128, 1<<ls)
								for i := range in {
									in[i] = complex(v, -v)
									if e.ci {
										in[i] = complex(-v, 0)
									}
								}
								if err := ecd.Encode(in, pt); err != nil {
									return "encode error"
								}
								have := make([]complex128, 1<<ls)
								if err := ecd.Decode(pt, have); err != nil {
									return "decode error"
								}
								for i := range have {
									if x := cmplx.Abs(have[i] - in[i]); !(x <= tol) {
										return fmt.Sprintf("slot %d: got %g want %g", i, have[i], in[i])
									}
								}
								return ""
							}
							pt.IsBatched = false
							var in interface{} = []float64{v, -v}
							if useBig {
								in = []*big.Float{new(big.Float).SetPrec(128).SetFloat64(v), new(big.Float).SetPrec(128).SetFloat64(-v)}
							}
							if err := ecd.Encode(in, pt); err != nil {
								return "encode error"
							}
							have := make([]float64, 2)
							if err := ecd.Decode(pt, have); err != nil {
								return "decode error"
							}
							if !(math.Abs(have[0]-v) <= tol) || !(math.Abs(have[1]+v) <= tol) {
								return fmt.Sprintf("got %g,%g want %g,%g", have[0], have[1], v, -v)
							}
							return ""
						})
						c.Probe("encode_boundary_roundtrip", args, "C07/ckks-encode-boundary-magnitude", d)
					}
				}
			}
		}
	}
}

// tieDecodeScale: arbitrary-precision Decode divides by the scale itself (correctly rounded at the receiver's precision).
func (e *c07cEnv) tieDecodeScale(c *Ctx) {
	q := e.params.Q()
	q0 := rlwe.NewScale(q[0])
	q1 := rlwe.NewScale(q[len(q)-1])
	scales := []rlwe.Scale{
		q1, q0.Mul(q1), rlwe.NewScale(new(big.Float).SetPrec(128).SetMantExp(big.NewFloat(3), 60)),
		rlwe.NewScale(math.Exp2(90)).Div(q1),                // as left by a rescale
		rlwe.NewScale(math.Exp2(45)).Mul(q1).Div(q0),        // after a rescale by another prime
		rlwe.NewScale(math.Exp2(40)),                        // control: power of two
	}
	for _, scale := range scales {
		for _, level := range []int{0, e.params.MaxLevel()} {
			r := e.params.RingQ().AtLevel(level)
			qs := e.params.Q()[:level+1]
			for rep := 0; rep < c.Scale(2, 8); rep++ {
				n := 6
				cs := make([]int64, n)
				pt := ckks.NewPlaintext(e.params, level)
				pt.Scale = scale
				pt.IsBatched = false
				pt.IsNTT = false
				for i := range cs {
					cs[i] = int64(c.rng.U64()>>(64-uint(20+c.rng.Intn(25)))) + 1
					if c.rng.Intn(2) == 0 {
						cs[i] = -cs[i]
					}
					for j, qj := range qs {
						if cs[i] >= 0 {
							pt.Value.Coeffs[j][i] = uint64(cs[i]) % qj
						} else {
							pt.Value.Coeffs[j][i] = qj - uint64(-cs[i])%qj
						}
					}
				}
				_ = r
				emit := func(P uint, i int, v *big.Float, res string) {
					out := res
					if res == "" {
						out = c06Dy(v)
					}
					c.Emit(fmt.Sprintf("ckks decodecoef %d %s %d", P, c06Dy(&scale.Value), cs[i]), out)
					c.Count("tie:decodecoef")
					// relative error against the exact rational c/scale: at most 2^-(P-3)
					d := res
					if res == "" {
						prod := new(big.Float).SetPrec(600).Mul(v, &scale.Value)
						diff := prod.Sub(prod, new(big.Float).SetInt64(cs[i]))
						rel, _ := new(big.Float).Quo(diff.Abs(diff), new(big.Float).SetInt64(cs[i]).Abs(new(big.Float).SetInt64(cs[i]))).Float64()
						d = ""
						if !(rel <= math.Exp2(-float64(P)+3)) {
							d = fmt.Sprintf("relative error 2^%d, receiver precision %d", int(math.Ceil(math.Log2(rel))), P)
						}
					}
					c.Probe("decode_scale_division", fmt.Sprintf("%s P=%d scale=%s c=%d level=%d", e.tag, P, c06Dy(&scale.Value), cs[i], level), "C07/ckks-decode-scale-division", d)
				}
				// coefficient domain, pre-allocated 200-bit receivers / nil receivers ; []*big.Float / []*bignum.Complex
				for _, pre := range []bool{true, false} {
					P := uint(64)
					if pre {
						P = 200
					}
					bf := make([]*big.Float, n)
					bc := make([]*bignum.Complex, n)
					if pre {
						for i := range bf {
							bf[i] = new(big.Float).SetPrec(200)
							bc[i] = &bignum.Complex{new(big.Float).SetPrec(200), new(big.Float).SetPrec(200)}
						}
					}
					res := Try(func() string {
						if err := e.ecdBig.Decode(pt, bf); err != nil {
							return "err"
						}
						return ""
					})
					for i := range bf {
						emit(P, i, bf[i], res)
					}
					res = Try(func() string {
						if err := e.ecdBig.Decode(pt, bc); err != nil {
							return "err"
						}
						return ""
					})
					for i := range bc {
						var v *big.Float
						if res == "" {
							v = bc[i][0]
						}
						emit(P, i, v, res)
					}
				}
				// slot domain, one slot (standard ring): value = c_0/scale + i c_{N/2}/scale at the encoder's precision
				if !e.ci {
					pt2 := ckks.NewPlaintext(e.params, level)
					pt2.Scale = scale
					pt2.LogDimensions.Cols = 0
					pt2.IsNTT = false
					for j := range qs {
						pt2.Value.Coeffs[j][0] = pt.Value.Coeffs[j][0]
						pt2.Value.Coeffs[j][e.N/2] = pt.Value.Coeffs[j][1]
					}
					v := make([]*bignum.Complex, 1)
					res := Try(func() string {
						if err := e.ecdBig.Decode(pt2, v); err != nil {
							return "err"
						}
						return ""
					})
					var re, im *big.Float
					if res == "" {
						re, im = v[0][0], v[0][1]
					}
					emit(e.precB, 0, re, res)
					emit(e.precB, 1, im, res)
				}
			}
		}
	}
}

// ---------- probes ----------

func (e *c07cEnv) randComplex(c *Ctx, n int, logMag int) []complex128 {
	v := make([]complex128, n)
	for i := range v {
		re := (float64(c.rng.Intn(1<<21))/float64(1<<20) - 1) * math.Exp2(float64(logMag))
		im := (float64(c.rng.Intn(1<<21))/float64(1<<20) - 1) * math.Exp2(float64(logMag))
		if e.ci {
			im = 0
		}
		v[i] = complex(re, im)
	}
	return v
}

func (e *c07cEnv) probeRoundTrip(c *Ctx) {
	maxLevel := e.params.MaxLevel()
	logN := e.params.LogN()
	for ls := 0; ls <= e.logMax; ls++ {
		slots := 1 << ls
		for rep := 0; rep < c.Scale(20, 80); rep++ {
			level := c.rng.Intn(maxLevel + 1)
			logS := 20 + c.rng.Intn(26)
			logQ := e.params.LogQLvl(level)
			if logS > logQ-6 {
				logS = logQ - 6
			}
			logMag := -logS + c.rng.Intn(logQ-2-logN) // |v| from 2^-logScale up to Q/(4 N scale) (the IFFT output is bounded by N|v|... sum of slots / n <= |v|)
			if logMag > logQ-logS-3 {
				logMag = logQ - logS - 3
			}
			useBig := c.rng.Intn(2) == 0
			ecd, prec := e.ecd64, 53
			if useBig {
				ecd, prec = e.ecdBig, int(e.precB)
			}
			n := slots
			if c.rng.Intn(4) == 0 {
				n = 1 + c.rng.Intn(slots)
			}
			want := e.randComplex(c, n, logMag)
			var input interface{} = want
			cplx := false
			if e.ci && c.rng.Intn(2) == 0 {
				// conjugate-invariant ring: complex inputs, the imaginary parts must be discarded
				cplx = true
				in := make([]complex128, n)
				for i := range in {
					in[i] = complex(real(want[i]), (float64(c.rng.Intn(1<<21))/float64(1<<20)-1)*math.Exp2(float64(logMag)))
				}
				input = in
				if c.rng.Intn(2) == 0 {
					bc := make([]*bignum.Complex, n)
					for i := range bc {
						bc[i] = &bignum.Complex{new(big.Float).SetPrec(100).SetFloat64(real(in[i])), new(big.Float).SetPrec(100).SetFloat64(imag(in[i]))}
					}
					input = bc
				}
			}
			pt := ckks.NewPlaintext(e.params, level)
			pt.Scale = rlwe.NewScale(math.Exp2(float64(logS)))
			pt.LogDimensions.Cols = ls
			args := fmt.Sprintf("%s slots=%d n=%d level=%d logScale=%d logMag=%d big=%v complexInput=%v", e.tag, slots, n, level, logS, logMag, useBig, cplx)
			key := "C07/ckks-roundtrip"
			if e.ci && useBig {
				key = "C07/ckks-ci-bigdecode-stale-imag" // polyToComplex*: values[i][1] not cleared (isreal, []*bignum.Complex)
			}
			if e.ci && ls == 0 {
				key = "C07/ckks-ci-one-slot"
			}
			d := Try(func() string {
				if err := ecd.Encode(input, pt); err != nil {
					return "encode error"
				}
				have := make([]complex128, slots)
				if err := ecd.Decode(pt, have); err != nil {
					return "decode error"
				}
				p := prec
				if p > 53 {
					p = 53 // the comparison itself is in complex128
				}
				worst, wi := 0.0, 0
				for i := 0; i < slots; i++ {
					w := complex(0, 0)
					if i < n {
						w = want[i]
					}
					if x := cmplx.Abs(have[i] - w); x > worst || math.IsNaN(x) {
						worst, wi = x, i
					}
				}
				tol := math.Exp2(float64(-(logS - logN - 3))) + math.Exp2(float64(logMag-(p-logN-8)))
				if !(worst <= tol) {
					return fmt.Sprintf("slot=%d log2err=%d log2tol=%d", wi, int(math.Ceil(math.Log2(worst))), int(math.Ceil(math.Log2(tol))))
				}
				return ""
			})
			c.Probe("decode_encode_precision", args, key, d)
		}
	}
	// coefficient domain
	for rep := 0; rep < c.Scale(10, 60); rep++ {
		level := c.rng.Intn(maxLevel + 1)
		logS := 20 + c.rng.Intn(26)
		logQ := e.params.LogQLvl(level)
		if logS > logQ-6 {
			logS = logQ - 6
		}
		logMag := -logS + c.rng.Intn(logQ-2)
		if logMag > logQ-logS-3 {
			logMag = logQ - logS - 3
		}
		n := 1 + c.rng.Intn(e.N)
		useBig := c.rng.Intn(2) == 0
		want := make([]float64, n)
		bf := make([]*big.Float, n)
		for i := range want {
			want[i] = (float64(c.rng.Intn(1<<21))/float64(1<<20) - 1) * math.Exp2(float64(logMag))
			bf[i] = new(big.Float).SetPrec(100).SetFloat64(want[i])
		}
		pt := ckks.NewPlaintext(e.params, level)
		pt.Scale = rlwe.NewScale(math.Exp2(float64(logS)))
		pt.IsBatched = false
		args := fmt.Sprintf("%s coeffs n=%d level=%d logScale=%d logMag=%d big=%v", e.tag, n, level, logS, logMag, useBig)
		d := Try(func() string {
			var vals interface{} = want
			if useBig {
				vals = bf
			}
			if err := e.ecd64.Encode(vals, pt); err != nil {
				return "encode error"
			}
			have := make([]float64, e.N)
			if err := e.ecd64.Decode(pt, have); err != nil {
				return "decode error"
			}
			tol := math.Exp2(float64(-logS-1)) + math.Exp2(float64(logMag-50))
			for i := range have {
				w := 0.0
				if i < n {
					w = want[i]
				}
				if x := math.Abs(have[i] - w); !(x <= tol) {
					return fmt.Sprintf("coeff=%d log2err=%d log2tol=%d", i, int(math.Ceil(math.Log2(x))), int(math.Ceil(math.Log2(tol))))
				}
			}
			return ""
		})
		c.Probe("decode_encode_precision", args, "C07/ckks-roundtrip-coeffs", d)
	}
}

func (e *c07cEnv) probeDecodePublic(c *Ctx) {
	for rep := 0; rep < c.Scale(12, 60); rep++ {
		ls := c.rng.Intn(e.logMax + 1)
		if e.ci && ls == 0 {
			ls = 1
		}
		slots := 1 << ls
		lp := 1 + c.rng.Intn(24)
		useBig := c.rng.Intn(2) == 0
		batched := c.rng.Intn(4) != 0
		pt := ckks.NewPlaintext(e.params, e.params.MaxLevel())
		pt.LogDimensions.Cols = ls
		pt.IsBatched = batched
		ecd := e.ecd64
		if useBig {
			ecd = e.ecdBig
		}
		kind := c.rng.Intn(4)
		args := fmt.Sprintf("%s slots=%d logprec=%d big=%v batched=%v kind=%d", e.tag, slots, lp, useBig, batched, kind)
		key := "C07/ckks-decodepublic-not-multiple"
		if !batched {
			key = "C07/ckks-decodepublic-coeff-domain-ignores-logprec"
		}
		d := Try(func() string {
			var err error
			if batched {
				err = ecd.Encode(e.randComplex(c, slots, 0), pt)
			} else {
				f := make([]float64, e.N)
				for i := range f {
					f[i] = float64(c.rng.Intn(1<<21))/float64(1<<20) - 1
				}
				err = ecd.Encode(f, pt)
			}
			if err != nil {
				return "encode error"
			}
			sc := math.Exp2(float64(lp))
			isMult := func(x float64) bool { k := x * sc; return k == math.Trunc(k) }
			isMultBig := func(x *big.Float) bool {
				// the big path divides by exp(logprec*ln 2), only approximately 2^logprec
				k := new(big.Float).SetPrec(x.Prec()).Mul(x, new(big.Float).SetFloat64(sc))
				r, _ := k.Int(nil)
				diff := new(big.Float).Sub(k, new(big.Float).SetInt(r))
				f, _ := diff.Float64()
				return math.Abs(f) < math.Exp2(-40) || math.Abs(math.Abs(f)-1) < math.Exp2(-40)
			}
			n := slots
			if !batched {
				n = e.N
			}
			switch kind {
			case 0:
				v := make([]complex128, n)
				if err := ecd.DecodePublic(pt, v, float64(lp)); err != nil {
					return "decode error"
				}
				for i, x := range v {
					if !isMult(real(x)) || !isMult(imag(x)) {
						return fmt.Sprintf("slot %d", i)
					}
				}
			case 1:
				v := make([]float64, n)
				if err := ecd.DecodePublic(pt, v, float64(lp)); err != nil {
					return "decode error"
				}
				for i, x := range v {
					if !isMult(x) {
						return fmt.Sprintf("slot %d", i)
					}
				}
			case 2:
				v := make([]*big.Float, n)
				if err := ecd.DecodePublic(pt, v, float64(lp)); err != nil {
					return "decode error"
				}
				for i, x := range v {
					if !isMultBig(x) {
						return fmt.Sprintf("slot %d", i)
					}
				}
			case 3:
				v := make([]*bignum.Complex, n)
				if err := ecd.DecodePublic(pt, v, float64(lp)); err != nil {
					return "decode error"
				}
				for i, x := range v {
					if !isMultBig(x[0]) || (x[1] != nil && !isMultBig(x[1])) {
						return fmt.Sprintf("slot %d", i)
					}
				}
			}
			return ""
		})
		c.Probe("decodePublic_multiple", args, key, d)
	}
	// receiver longer than the slot count (arbitrary precision path, logprec != 0)
	for _, kind := range []int{2, 3} {
		pt := ckks.NewPlaintext(e.params, 1)
		pt.LogDimensions.Cols = 1
		d := Try(func() string {
			if err := e.ecdBig.Encode([]float64{0.5, 0.25}, pt); err != nil {
				return "encode error"
			}
			var err error
			if kind == 2 {
				err = e.ecdBig.DecodePublic(pt, make([]*big.Float, 4), 8)
			} else {
				err = e.ecdBig.DecodePublic(pt, make([]*bignum.Complex, 4), 8)
			}
			if err != nil {
				return ""
			}
			return ""
		})
		if d == "panic" {
			d = "panic: receiver longer than slots"
		}
		c.Probe("errors_not_panics", fmt.Sprintf("%s DecodePublic big receiver-len=4 slots=2 kind=%d", e.tag, kind), "C07/ckks-decodepublic-long-receiver-panic", d)
	}
}

// probeDecodePublicNearest: multiple of 2^-logprec and within half a step of Decode, for every path / type / sign.
func (e *c07cEnv) probeDecodePublicNearest(c *Ctx) {
	for _, useBig := range []bool{false, true} {
		ecd := e.ecd64
		if useBig {
			ecd = e.ecdBig
		}
		for kind := 0; kind < 4; kind++ {
			for _, lp := range []float64{1, 3, 8, 17, 24, 0.5, 12.5, 22.5} {
				ls := 1 + c.rng.Intn(e.logMax)
				slots := 1 << ls
				vals := e.randComplex(c, slots, 0)
				vals[0], vals[1] = complex(-0.3, -0.7), complex(0.6, 0.2)
				if e.ci {
					vals[0], vals[1] = complex(-0.3, 0), complex(0.6, 0)
				}
				pt := ckks.NewPlaintext(e.params, e.params.MaxLevel())
				pt.LogDimensions.Cols = ls
				args := fmt.Sprintf("%s slots=%d logprec=%g big=%v kind=%d", e.tag, slots, lp, useBig, kind)
				// 2^logprec to 300 bits (integral part exactly, a fractional half through sqrt 2)
				twoLp := new(big.Float).SetPrec(300).SetMantExp(big.NewFloat(1), int(math.Floor(lp)))
				if lp != math.Floor(lp) {
					twoLp.Mul(twoLp, new(big.Float).SetPrec(300).Sqrt(new(big.Float).SetPrec(300).SetInt64(2)))
				}
				d := Try(func() string {
					if err := ecd.Encode(vals, pt); err != nil {
						return "encode error"
					}
					step := math.Exp2(-lp)
					// returns (published, decoded) parts as big.Float pairs
					var pub, dec []*big.Float
					bf := func(x float64) *big.Float { return new(big.Float).SetFloat64(x) }
					switch kind {
					case 0:
						p, q := make([]complex128, slots), make([]complex128, slots)
						if ecd.DecodePublic(pt, p, lp) != nil || ecd.Decode(pt, q) != nil {
							return "decode error"
						}
						for i := range p {
							pub = append(pub, bf(real(p[i])), bf(imag(p[i])))
							dec = append(dec, bf(real(q[i])), bf(imag(q[i])))
						}
					case 1:
						p, q := make([]float64, slots), make([]float64, slots)
						if ecd.DecodePublic(pt, p, lp) != nil || ecd.Decode(pt, q) != nil {
							return "decode error"
						}
						for i := range p {
							pub, dec = append(pub, bf(p[i])), append(dec, bf(q[i]))
						}
					case 2:
						p, q := make([]*big.Float, slots), make([]*big.Float, slots)
						if ecd.DecodePublic(pt, p, lp) != nil || ecd.Decode(pt, q) != nil {
							return "decode error"
						}
						pub, dec = p, q
					case 3:
						p, q := make([]*bignum.Complex, slots), make([]*bignum.Complex, slots)
						if ecd.DecodePublic(pt, p, lp) != nil || ecd.Decode(pt, q) != nil {
							return "decode error"
						}
						for i := range p {
							pub = append(pub, p[i][0], p[i][1])
							dec = append(dec, q[i][0], q[i][1])
						}
					}
					for i := range pub {
						k := new(big.Float).SetPrec(300).Mul(pub[i], twoLp)
						ki, _ := new(big.Float).SetPrec(300).Add(k, big.NewFloat(0.5)).Int(nil)
						if k.Sign() < 0 {
							ki, _ = new(big.Float).SetPrec(300).Sub(k, big.NewFloat(0.5)).Int(nil)
						}
						off, _ := new(big.Float).Sub(k, new(big.Float).SetInt(ki)).Float64()
						kf, _ := k.Float64()
						if math.Abs(off) > math.Exp2(-30)+math.Abs(kf)*math.Exp2(-48) {
							return fmt.Sprintf("entry %d is not a multiple of 2^-%g (off by %.3g steps)", i, lp, off)
						}
						diff, _ := new(big.Float).SetPrec(300).Sub(pub[i], dec[i]).Float64()
						if math.Abs(diff) > step/2*(1+math.Exp2(-30)) {
							sign := "positive"
							if dec[i].Sign() < 0 {
								sign = "negative"
							}
							return fmt.Sprintf("entry %d (%s value): |published - decoded| = %.3f steps", i, sign, math.Abs(diff)/step)
						}
					}
					return ""
				})
				c.Probe("decodePublic_nearest", args, "C07/ckks-decodepublic-not-nearest", d)
			}
		}
	}
}

// probeLength: Encode must refuse vectors longer than the plaintext's slot count (not only longer than MaxSlots).
func (e *c07cEnv) probeLength(c *Ctx) {
	maxSlots := e.params.MaxSlots()
	mk := func(kind, n int) interface{} {
		switch kind {
		case 0:
			v := make([]complex128, n)
			for i := range v {
				v[i] = complex(0.25+float64(i%7)/16, 0)
			}
			return v
		case 1:
			v := make([]float64, n)
			for i := range v {
				v[i] = 0.25 + float64(i%7)/16
			}
			return v
		case 2:
			v := make([]*big.Float, n)
			for i := range v {
				v[i] = big.NewFloat(0.25 + float64(i%7)/16)
			}
			return v
		}
		v := make([]*bignum.Complex, n)
		for i := range v {
			v[i] = &bignum.Complex{big.NewFloat(0.25 + float64(i%7)/16), new(big.Float)}
		}
		return v
	}
	for _, useBig := range []bool{false, true} {
		ecd := e.ecd64
		if useBig {
			ecd = e.ecdBig
		}
		for kind := 0; kind < 4; kind++ {
			for ls := 1; ls < e.logMax; ls++ { // sparse slot counts
				slots := 1 << ls
				short := 1 + c.rng.Intn(slots-1)
				for _, n := range []int{slots, short, slots + 1, maxSlots, maxSlots + 1} {
					pt := ckks.NewPlaintext(e.params, 1)
					pt.LogDimensions.Cols = ls
					args := fmt.Sprintf("%s big=%v kind=%d slots=%d len=%d", e.tag, useBig, kind, slots, n)
					d := Try(func() string {
						err := ecd.Encode(mk(kind, n), pt)
						if n > slots {
							if err == nil {
								return "vector longer than the slot count accepted (silently truncated)"
							}
							return ""
						}
						if err != nil {
							return "valid length refused"
						}
						have := make([]complex128, slots)
						if err := ecd.Decode(pt, have); err != nil {
							return "decode error"
						}
						for i := range have {
							w := complex(0, 0)
							if i < n {
								w = complex(0.25+float64(i%7)/16, 0)
							}
							if cmplx.Abs(have[i]-w) > 1e-6 {
								return fmt.Sprintf("slot %d", i)
							}
						}
						return ""
					})
					c.Probe("encode_length_check", args, "C07/ckks-encode-length-not-checked-against-slots", d)
				}
			}
		}
	}
}

func (e *c07cEnv) probeMul(c *Ctx) {
	logN := e.params.LogN()
	r := e.params.RingQ().AtLevel(e.params.MaxLevel())
	for rep := 0; rep < c.Scale(8, 40); rep++ {
		ls := c.rng.Intn(e.logMax + 1)
		if e.ci && ls == 0 {
			ls = 1
		}
		slots := 1 << ls
		logS := 20 + c.rng.Intn(8)
		a, b := e.randComplex(c, slots, 0), e.randComplex(c, slots, 0)
		pa, pb := ckks.NewPlaintext(e.params, e.params.MaxLevel()), ckks.NewPlaintext(e.params, e.params.MaxLevel())
		pa.LogDimensions.Cols, pb.LogDimensions.Cols = ls, ls
		pa.Scale, pb.Scale = rlwe.NewScale(math.Exp2(float64(logS))), rlwe.NewScale(math.Exp2(float64(logS)))
		useBig := c.rng.Intn(2) == 0
		ecd := e.ecd64
		if useBig {
			ecd = e.ecdBig
		}
		d := Try(func() string {
			if ecd.Encode(a, pa) != nil || ecd.Encode(b, pb) != nil {
				return "encode error"
			}
			pc := ckks.NewPlaintext(e.params, e.params.MaxLevel())
			pc.LogDimensions.Cols = ls
			pc.Scale = pa.Scale.Mul(pb.Scale)
			r.MulCoeffsBarrett(pa.Value, pb.Value, pc.Value)
			have := make([]complex128, slots)
			if err := ecd.Decode(pc, have); err != nil {
				return "decode error"
			}
			tol := math.Exp2(float64(-(logS - logN - 5)))
			for i := range have {
				if x := cmplx.Abs(have[i] - a[i]*b[i]); !(x <= tol) {
					return fmt.Sprintf("slot=%d log2err=%d log2tol=%d", i, int(math.Ceil(math.Log2(x))), int(math.Ceil(math.Log2(tol))))
				}
			}
			return ""
		})
		c.Probe("encode_mul_slotwise", fmt.Sprintf("%s slots=%d logScale=%d big=%v", e.tag, slots, logS, useBig), "C07/ckks-mul-slotwise", d)
	}
}

// probeOrbit: the plaintext X^k decodes to (zeta^(5^j k))_j, zeta = exp(2 pi i / NthRoot); in the
// conjugate-invariant ring (coefficients of X^k + X^-k folded) the real part 2cos.. /.. is compared.
func (e *c07cEnv) probeOrbit(c *Ctx) {
	if e.ci {
		return
	}
	m := int(e.params.RingQ().NthRoot())
	for rep := 0; rep < c.Scale(6, 30); rep++ {
		k := c.rng.Intn(e.N)
		logS := 30
		pt := ckks.NewPlaintext(e.params, 0)
		pt.Scale = rlwe.NewScale(math.Exp2(float64(logS)))
		pt.IsNTT = false
		pt.Value.Coeffs[0][k] = 1 << uint(logS)
		useBig := c.rng.Intn(2) == 0
		ecd := e.ecd64
		if useBig {
			ecd = e.ecdBig
		}
		d := Try(func() string {
			have := make([]complex128, e.N/2)
			if err := ecd.Decode(pt, have); err != nil {
				return "decode error"
			}
			pow := 1
			for j := range have {
				ang := 2 * math.Pi * float64((pow*k)%m) / float64(m)
				w := cmplx.Rect(1, ang)
				if cmplx.Abs(have[j]-w) > math.Exp2(-40) {
					return fmt.Sprintf("slot=%d k=%d", j, k)
				}
				pow = pow * 5 % m
			}
			return ""
		})
		c.Probe("slot_root_orbit", fmt.Sprintf("%s k=%d big=%v", e.tag, k, useBig), "C07/ckks-slot-orbit", d)
	}
}

func (e *c07cEnv) probeOverwrite(c *Ctx) {
	for _, kind := range []string{"float64", "bigfloat"} {
		pt := ckks.NewPlaintext(e.params, 1)
		pt.IsBatched = false
		d := Try(func() string {
			long := make([]float64, e.N)
			for i := range long {
				long[i] = 0.5
			}
			if err := e.ecd64.Encode(long, pt); err != nil {
				return "encode error"
			}
			var err error
			if kind == "float64" {
				err = e.ecd64.Encode([]float64{0.25, 0.25}, pt)
			} else {
				err = e.ecd64.Encode([]*big.Float{big.NewFloat(0.25), big.NewFloat(0.25)}, pt)
			}
			if err != nil {
				return "encode error"
			}
			have := make([]float64, e.N)
			if err := e.ecd64.Decode(pt, have); err != nil {
				return "decode error"
			}
			for i := 2; i < e.N; i++ {
				if math.Abs(have[i]) > 1e-6 {
					return fmt.Sprintf("stale coefficient %d", i)
				}
			}
			return ""
		})
		c.Probe("encode_overwrites", fmt.Sprintf("%s coeffs %s", e.tag, kind), "C07/ckks-coeff-encode-stale:"+kind, d)
	}
	// empty / nil-first []*big.Float in the coefficient domain
	for _, name := range []string{"empty", "nilfirst"} {
		pt := ckks.NewPlaintext(e.params, 1)
		pt.IsBatched = false
		d := Try(func() string {
			v := []*big.Float{}
			if name == "nilfirst" {
				v = []*big.Float{nil, big.NewFloat(1)}
			}
			_ = e.ecd64.Encode(v, pt)
			return ""
		})
		if d == "panic" {
			d = "panic in BigFloatToFixedPointCRT"
		}
		c.Probe("errors_not_panics", fmt.Sprintf("%s Encode coeffs []*big.Float %s", e.tag, name), "C07/ckks-bigfloat-coeff-"+name+"-panic", d)
	}
}

// ---------- precision sweep and bignum accuracy ----------

// c07cTaylor: independent references at `prec` bits (plain Taylor series evaluated with 128 guard bits).
func c07cTaylorCos(x *big.Float, prec uint) *big.Float {
	p := prec + 128
	xx := new(big.Float).SetPrec(p).Mul(x, x)
	term := new(big.Float).SetPrec(p).SetInt64(1)
	sum := new(big.Float).SetPrec(p).SetInt64(1)
	for k := int64(1); k < 400; k++ {
		term.Mul(term, xx)
		term.Quo(term, new(big.Float).SetPrec(p).SetInt64((2*k-1)*(2*k)))
		term.Neg(term)
		sum.Add(sum, term)
		if term.Sign() == 0 || term.MantExp(nil) < -int(p) {
			break
		}
	}
	return sum
}

func c07cTaylorExp(x *big.Float, prec uint) *big.Float {
	p := prec + 128
	term := new(big.Float).SetPrec(p).SetInt64(1)
	sum := new(big.Float).SetPrec(p).SetInt64(1)
	for k := int64(1); k < 2000; k++ {
		term.Mul(term, x)
		term.Quo(term, new(big.Float).SetPrec(p).SetInt64(k))
		sum.Add(sum, term)
		if term.Sign() == 0 || term.MantExp(nil) < -int(p) {
			break
		}
	}
	return sum
}

func c07cLog2Abs(x *big.Float) int {
	if x.Sign() == 0 {
		return -1 << 20
	}
	return x.MantExp(nil)
}

// probeBignum: bignum.Cos / Sin / Exp / Log against the Taylor references at several precisions.
func probeBignum(c *Ctx) {
	for _, prec := range []uint{53, 64, 90, 128, 192, 256, 400} {
		for i := 0; i < 6; i++ {
			// arguments: roots-of-unity angles 2*pi*j/m and generic values in (-4, 4)
			x := new(big.Float).SetPrec(prec)
			if i < 3 {
				m := int64([]int{64, 256, 8192}[i])
				x.Mul(bignum.Pi(prec), new(big.Float).SetPrec(prec).SetInt64(2*int64(1+c.rng.Intn(int(m)-1))))
				x.Quo(x, new(big.Float).SetPrec(prec).SetInt64(m))
			} else {
				x.SetFloat64(float64(c.rng.Intn(1<<20))/float64(1<<17) - 4)
				x.Add(x, new(big.Float).SetPrec(prec).SetMantExp(big.NewFloat(1), -int(prec)+5))
			}
			slack := 12
			check := func(name string, have, want *big.Float) {
				d := ""
				diff := new(big.Float).SetPrec(prec+128).Sub(have, want)
				if l := c07cLog2Abs(diff); l > -int(prec)+slack+max(0, c07cLog2Abs(want)) {
					d = fmt.Sprintf("error 2^%d at precision %d", l, prec)
				}
				c.Probe("bignum_accuracy", fmt.Sprintf("%s prec=%d x=%s", name, prec, x.Text('g', 20)), "C07/bignum-"+name+"-accuracy", d)
			}
			halfPi := new(big.Float).SetPrec(prec + 128).Quo(bignum.Pi(prec+128), big.NewFloat(2))
			r := Try(func() string {
				check("cos", bignum.Cos(x), c07cTaylorCos(x, prec))
				check("sin", bignum.Sin(x), c07cTaylorCos(new(big.Float).SetPrec(prec+128).Sub(x, halfPi), prec))
				check("exp", bignum.Exp(x), c07cTaylorExp(x, prec))
				ax := new(big.Float).SetPrec(prec).Abs(x)
				ax.Add(ax, new(big.Float).SetPrec(prec).SetFloat64(0.125))
				// log: exp(log y) = y
				check("log", c07cTaylorExp(bignum.Log(ax), prec), new(big.Float).SetPrec(prec+128).Set(ax))
				return ""
			})
			if r == "panic" {
				c.Probe("bignum_accuracy", fmt.Sprintf("panic prec=%d", prec), "C07/bignum-panic", "panic")
			}
		}
	}
}

// probePrecisionSweep: encoders of precision 53 … 256 bits at scales up to 2^(prec-56): Encode -> Decode and
// IFFT -> FFT are accurate to the encoder's precision (bound derived from prec and the scale, no fixed floor);
// also through Encoder.ShallowCopy().
func probePrecisionSweep(c *Ctx) {
	for _, rt := range []ring.Type{ring.Standard, ring.ConjugateInvariant} {
		params, err := ckks.NewParametersFromLiteral(ckks.ParametersLiteral{LogN: 5, LogQ: []int{60, 60, 60, 60}, LogP: []int{61}, LogDefaultScale: 45, RingType: rt})
		if err != nil {
			panic(err)
		}
		logN := params.LogN()
		for _, prec := range []uint{53, 64, 90, 128, 192, 256} {
			base := ckks.NewEncoder(params, prec)
			for _, shallow := range []bool{false, true} {
				ecd := base
				if shallow {
					ecd = base.ShallowCopy()
				}
				logS := int(prec) - 56
				if prec <= 56 {
					logS = 40
				}
				if logS > 200 {
					logS = 200
				}
				if logS < 30 {
					logS = 30
				}
				for _, ls := range []int{params.LogMaxSlots(), 1 + c.rng.Intn(params.LogMaxSlots()-1)} {
					slots := 1 << ls
					n := slots
					if c.rng.Intn(2) == 0 {
						n = 1 + c.rng.Intn(slots) // shorter than the slot count
					}
					args := fmt.Sprintf("ring=%v prec=%d logScale=%d slots=%d n=%d shallowCopy=%v", rt, prec, logS, slots, n, shallow)
					vals := make([]*bignum.Complex, n)
					for i := range vals {
						mk := func() *big.Float {
							k := new(big.Int).SetUint64(c.rng.U64())
							for w := 0; w < 4; w++ {
								k.Lsh(k, 64).Add(k, new(big.Int).SetUint64(c.rng.U64()))
							}
							f := new(big.Float).SetPrec(prec).SetInt(k)
							f.SetMantExp(f, -321) // in [0, 0.5)
							if c.rng.Intn(2) == 0 {
								f.Neg(f)
							}
							return f
						}
						vals[i] = &bignum.Complex{mk(), mk()}
						if rt == ring.ConjugateInvariant {
							vals[i][1] = new(big.Float).SetPrec(prec)
						}
					}
					eff := logS
					if int(prec) < eff {
						eff = int(prec)
					}
					tolLog := -(eff - logN - 8)
					if -(int(prec) - logN - 12) > tolLog {
						tolLog = -(int(prec) - logN - 12)
					}
					d := Try(func() string {
						pt := ckks.NewPlaintext(params, params.MaxLevel())
						pt.Scale = rlwe.NewScale(new(big.Float).SetPrec(128).SetMantExp(big.NewFloat(1), logS))
						pt.LogDimensions.Cols = ls
						if err := ecd.Encode(vals, pt); err != nil {
							return "encode error"
						}
						have := make([]*bignum.Complex, slots)
						if err := ecd.Decode(pt, have); err != nil {
							return "decode error"
						}
						for i := 0; i < slots; i++ {
							wr, wi := new(big.Float), new(big.Float)
							if i < n {
								wr, wi = vals[i][0], vals[i][1]
							}
							for part, pr := range [][2]*big.Float{{have[i][0], wr}, {have[i][1], wi}} {
								if pr[0] == nil {
									continue
								}
								diff := new(big.Float).SetPrec(prec+64).Sub(pr[0], pr[1])
								if l := c07cLog2Abs(diff); l > tolLog {
									return fmt.Sprintf("Encode/Decode slot %d part %d: error 2^%d, bound 2^%d", i, part, l, tolLog)
								}
							}
						}
						if prec > 53 {
							// IFFT then FFT on the values themselves
							buf := make([]*bignum.Complex, slots)
							for i := range buf {
								buf[i] = &bignum.Complex{new(big.Float).SetPrec(prec), new(big.Float).SetPrec(prec)}
								if i < n {
									buf[i][0].Set(vals[i][0])
									buf[i][1].Set(vals[i][1])
								}
							}
							if err := ecd.IFFT(buf, ls); err != nil {
								return "IFFT error"
							}
							if err := ecd.FFT(buf, ls); err != nil {
								return "FFT error"
							}
							for i := 0; i < n; i++ {
								for part := 0; part < 2; part++ {
									diff := new(big.Float).SetPrec(prec+64).Sub(buf[i][part], vals[i][part])
									if l := c07cLog2Abs(diff); l > -(int(prec) - logN - 12) {
										return fmt.Sprintf("FFT(IFFT) slot %d part %d: error 2^%d at precision %d", i, part, l, prec)
									}
								}
							}
						}
						return ""
					})
					key := "C07/ckks-encoder-precision-sweep"
					if shallow {
						key = "C07/ckks-encoder-shallowcopy-precision"
					}
					c.Probe("encoder_precision_sweep", args, key, d)
				}
			}
		}
	}
}

func genC07CKKS(c *Ctx) {
	envs := []*c07cEnv{
		c07cNewEnv("S5", 5, []int{55, 45, 45}, 45, ring.Standard, 128),
		c07cNewEnv("C5", 5, []int{55, 45, 45}, 45, ring.ConjugateInvariant, 128),
		c07cNewEnv("S6", 6, []int{50, 30}, 30, ring.Standard, 200),
	}
	if c.Thorough() {
		envs = append(envs, c07cNewEnv("C6", 6, []int{50, 30, 30}, 30, ring.ConjugateInvariant, 90),
			c07cNewEnv("S7", 7, []int{60, 45, 45, 45}, 45, ring.Standard, 256))
	}
	for bits := 1; bits <= 8; bits++ {
		for i := 0; i < 1<<bits && i < 40; i++ {
			c.Emit(fmt.Sprintf("ckks bitrev %d %d", bits, i), U(utils.BitReverse64(uint64(i), bits)))
		}
	}
	probeBignum(c)
	probePrecisionSweep(c)
	for _, e := range envs {
		e.tieSlots(c)
		e.tiePoly(c)
		e.tieCoeffs(c)
		e.tieBoundary(c)
		e.tieDecodeScale(c)
		e.probeHistory(c)
		e.tieRoundPrec(c)
		e.tieRoundPrecBig(c)
		e.probeRoundTrip(c)
		e.probeDecodePublic(c)
		e.probeDecodePublicNearest(c)
		e.probeLength(c)
		e.probeMul(c)
		e.probeOrbit(c)
		e.probeOverwrite(c)
	}
}
