package main

// C17 — samplers respect their distribution contract and are reproducible from a seed.
// Tie lines: the real samplers are fed a replay PRNG over harness-chosen bytes; the Lean model
// must reproduce every output limb and the number of bytes consumed.  Probe lines: property
// predicates on the real code (supports, Hamming weight, RNS consistency, determinism, …).

import (
	"fmt"
	"strings"

	"github.com/tuneinsight/lattigo/v6/ring"
	"github.com/tuneinsight/lattigo/v6/utils/sampling"
)

func init() { register("C17", genC17) }

// primes = 1 mod 128 (NTT friendly for N <= 64), assorted sizes; "above" = just above a power of
// two (mask accepts ~50%), "below" = just below (accepts ~100%).
var c17Primes = []uint64{
	257,                 // 2^8+1
	769,                 // < 2^10
	7937,                // 2^13-255
	65537,               // 2^16+1
	1048193,             // 2^20-383
	1049089,             // 2^20+513
	1073741441,          // 2^30-383
	1073741953,          // 2^30+129
	4294966657,          // 2^32-639
	4294967681,          // 2^32+385
	35184372088321,      // 2^45-511
	1125899906843009,    // 2^50+385
	1152921504606844417, // 2^60-2559
	1152921504606851201, // 2^60+4225
	2305843009213689601, // 2^61-4351
}

var c17RingCache = map[string]*ring.Ring{}

func c17Ring(N int, chain []uint64) *ring.Ring {
	key := fmt.Sprint(N, chain)
	if r, ok := c17RingCache[key]; ok {
		return r
	}
	r, err := ring.NewRing(N, chain)
	if err != nil {
		panic(err)
	}
	c17RingCache[key] = r
	return r
}

type c17Kind struct {
	tag          string // u, tp, th, g
	P            float64
	H            int
	sigma, bound float64
	mont         bool
}

func (k c17Kind) String() string {
	switch k.tag {
	case "u":
		return "u"
	case "tp":
		return "tp:" + c17F64(k.P) + ":" + c17B(k.mont)
	case "th":
		return "th:" + I(k.H) + ":" + c17B(k.mont)
	default:
		return "g:" + c17F64(k.sigma) + ":" + c17F64(k.bound) + ":" + c17B(k.mont)
	}
}

type c17Call struct {
	s, level int
	op       byte // r n a
	reg      int
}

func (cl c17Call) String() string { return fmt.Sprintf("%d.%d.%c.%d", cl.s, cl.level, cl.op, cl.reg) }

func c17NewSampler(prng sampling.PRNG, r *ring.Ring, k c17Kind) (ring.Sampler, error) {
	switch k.tag {
	case "u":
		return ring.NewSampler(prng, r, ring.Uniform{}, false)
	case "tp":
		return ring.NewSampler(prng, r, ring.Ternary{P: k.P}, k.mont)
	case "th":
		return ring.NewSampler(prng, r, ring.Ternary{H: k.H}, k.mont)
	default:
		return ring.NewSampler(prng, r, ring.DiscreteGaussian{Sigma: k.sigma, Bound: k.bound}, k.mont)
	}
}

func c17CopyRows(m [][]uint64) [][]uint64 {
	out := make([][]uint64, len(m))
	for i := range m {
		out[i] = append([]uint64(nil), m[i]...)
	}
	return out
}

// c17Sess runs one session on the real code and emits the tie line. Returns the label of the
// outcome (ok, exhausted, panic, inconclusive, skipped).
func c17Sess(c *Ctx, N int, chain []uint64, kinds []c17Kind, st *c17Stream, regs [][][]uint64, calls []c17Call) string {
	r := c17Ring(N, chain)
	prng := &c17Replay{data: st.data}
	samplers := make([]ring.Sampler, len(kinds))
	shadows := make([]*c17Shadow, len(kinds))
	for i, k := range kinds {
		s, err := c17NewSampler(prng, r, k)
		if err != nil {
			panic(err)
		}
		samplers[i] = s
		shadows[i] = &c17Shadow{}
	}
	polys := make([]ring.Poly, len(regs))
	for i := range regs {
		polys[i] = ring.Poly{Coeffs: c17CopyRows(regs[i])}
	}
	var parts []string
	slow := false
	status := "ok"
	for _, cl := range calls {
		k := kinds[cl.s]
		if k.tag == "g" && !slow && cl.level < len(chain) {
			sl, _, _ := shadows[cl.s].call(st.data, prng.pos, N, k.sigma, k.bound)
			if sl {
				slow = true
			}
		}
		res := Try(func() string {
			v := samplers[cl.s].AtLevel(cl.level)
			switch cl.op {
			case 'r':
				v.Read(polys[cl.reg])
			case 'n':
				polys[cl.reg] = v.ReadNew()
			case 'a':
				v.ReadAndAdd(polys[cl.reg])
			}
			return Mat(polys[cl.reg].Coeffs) + "@" + I(prng.pos)
		})
		if res == "panic" {
			if prng.exhausted {
				status = "exhausted"
			} else {
				status = "panic"
			}
			parts = append(parts, status)
			break
		}
		parts = append(parts, res)
	}
	out := strings.Join(parts, "|")
	if slow {
		if status != "ok" {
			c.Count("sess:skipped(slow+" + status + ")")
			return "skipped"
		}
		out = "inconclusive"
		status = "inconclusive"
	}
	ks := make([]string, len(kinds))
	for i, k := range kinds {
		ks[i] = k.String()
	}
	cs := make([]string, len(calls))
	for i, cl := range calls {
		cs[i] = cl.String()
	}
	rs := make([]string, len(regs))
	for i := range regs {
		rs[i] = Mat(regs[i])
	}
	regStr := "-"
	if len(rs) > 0 {
		regStr = strings.Join(rs, "/")
	}
	c.Emit(fmt.Sprintf("sess N=%d Q=%s S=%s stream=%s regs=%s calls=%s", N, Vec(chain), strings.Join(ks, ";"), st.Desc(), regStr, strings.Join(cs, ";")), out)
	c.Count("sess:" + status)
	return status
}

// c17Regs: n registers at full level; style 0 random residues, 1 boundary (0, q-1), 2 raw words.
func c17Regs(c *Ctx, n, N int, chain []uint64, style int) [][][]uint64 {
	out := make([][][]uint64, n)
	for k := range out {
		m := make([][]uint64, len(chain))
		for i, q := range chain {
			m[i] = make([]uint64, N)
			for j := range m[i] {
				switch style {
				case 0:
					m[i][j] = c.rng.Below(q)
				case 1:
					if c.rng.Intn(2) == 0 {
						m[i][j] = q - 1
					}
				default:
					m[i][j] = c.rng.U64()
				}
			}
		}
		out[k] = m
	}
	return out
}

func c17PickChain(c *Ctx, n int) []uint64 {
	out := []uint64{}
	for len(out) < n {
		q := c17Primes[c.rng.Intn(len(c17Primes))]
		dup := false
		for _, x := range out {
			if x == q {
				dup = true
			}
		}
		if !dup {
			out = append(out, q)
		}
	}
	return out
}

func c17PickN(c *Ctx) int { return []int{16, 32, 64}[c.rng.Intn(3)] }

// c17Safe: a Go panic inside the real code must not abort the run: it becomes a failing probe
func c17Safe(c *Ctx, name string, f func(*Ctx)) {
	defer func() {
		if r := recover(); r != nil {
			c.Probe("no-panic", "in="+name, "C17/"+name+"/panic", strings.ReplaceAll(fmt.Sprint(r), "\n", " "))
		}
	}()
	f(c)
}

func genC17(c *Ctx) {
	if err := c17LoadZig(); err != nil {
		panic(err)
	}
	c17Tables(c)
	c17FloatTies(c)
	c17CtorTies(c)
	c17MatrixTies(c)
	c17RandTies(c)
	c17UniformInterleavings(c)
	c17UniformAdversarial(c)
	c17TernarySessions(c)
	c17SparseBig(c)
	c17GaussSessions(c)
	c17MixedSessions(c)
	c17QP(c)
	c17Safe(c, "prng", c17PRNG)
	c17Probes(c)
}
