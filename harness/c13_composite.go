package main

// C13 (composite circuits) — inverse, sign/step, max/min on their STATED input domains, endpoints included, for
// several domain parameters; the Chebyshev change of basis of polynomial VECTORS with per-polynomial intervals;
// bignum.Polynomial.Evaluate in the Chebyshev basis; polynomial evaluation with two levels per rescaling.
//
// Ties:   normiters <num> <den>   the number of compression steps of inverse.IntervalNormalization for
//                                 log2max = num/den (observed through a counting bootstrapper: the loop asks
//                                 MinimumInputLevel() 3n-1 times)
//         cob slots= map= iv=     PolynomialVector.ChangeOfBasis: per-slot scalar and constant (times 8)
//         chebeval a b x coeffs   bignum.Polynomial.Evaluate, Chebyshev basis on [a, b], integer data
// Probes: inverse_*, sign/step/max/min, vector_chebyshev_value, bignum_chebyshev_evaluate, too_few_levels (2 levels
//         per rescaling): refused with an error, never a panic.

import (
	"fmt"
	"math"
	"math/big"
	"strings"

	"github.com/tuneinsight/lattigo/v6/circuits/ckks/bootstrapping"
	"github.com/tuneinsight/lattigo/v6/circuits/ckks/comparison"
	"github.com/tuneinsight/lattigo/v6/circuits/ckks/inverse"
	"github.com/tuneinsight/lattigo/v6/circuits/ckks/minimax"
	ckkspoly "github.com/tuneinsight/lattigo/v6/circuits/ckks/polynomial"
	"github.com/tuneinsight/lattigo/v6/core/rlwe"
	"github.com/tuneinsight/lattigo/v6/schemes/ckks"
	"github.com/tuneinsight/lattigo/v6/utils/bignum"
)

// c13CountBtp counts what the circuits ask the bootstrapper.
type c13CountBtp struct {
	bootstrapping.Bootstrapper
	minCalls int
}

func (b *c13CountBtp) MinimumInputLevel() int {
	b.minCalls++
	return b.Bootstrapper.MinimumInputLevel()
}

type c13Comp struct {
	params ckks.Parameters
	ecd    *ckks.Encoder
	enc    *rlwe.Encryptor
	dec    *rlwe.Decryptor
	eval   *ckks.Evaluator
	btp    *c13CountBtp
}

func newC13Comp(logN int) *c13Comp {
	// the parameters of the tests of circuits/ckks/{inverse,comparison} (two levels per rescaling), small ring
	params, err := ckks.NewParametersFromLiteral(ckks.ParametersLiteral{LogN: logN,
		LogQ: []int{55, 55, 45, 45, 45, 45, 45, 45, 45, 45, 45, 45}, LogP: []int{60, 60}, LogDefaultScale: 90})
	if err != nil {
		panic(err)
	}
	kgen := rlwe.NewKeyGenerator(params)
	sk := kgen.GenSecretKeyNew()
	gk := kgen.GenGaloisKeyNew(params.GaloisElementForComplexConjugation(), sk)
	evk := rlwe.NewMemEvaluationKeySet(kgen.GenRelinearizationKeyNew(sk), gk)
	return &c13Comp{params: params, ecd: ckks.NewEncoder(params), enc: rlwe.NewEncryptor(params, sk), dec: rlwe.NewDecryptor(params, sk),
		eval: ckks.NewEvaluator(params, evk), btp: &c13CountBtp{Bootstrapper: bootstrapping.NewSecretKeyBootstrapper(params, sk)}}
}

func (x *c13Comp) encrypt(v []float64) *rlwe.Ciphertext {
	pt := ckks.NewPlaintext(x.params, x.params.MaxLevel())
	if err := x.ecd.Encode(v, pt); err != nil {
		panic(err)
	}
	ct, err := x.enc.EncryptNew(pt)
	if err != nil {
		panic(err)
	}
	return ct
}

func (x *c13Comp) decrypt(ct *rlwe.Ciphertext) []float64 {
	v := make([]float64, x.params.MaxSlots())
	if err := x.ecd.Decode(x.dec.DecryptNew(ct), v); err != nil {
		panic(err)
	}
	return v
}

// domain sweep of [lo, hi]: both endpoints, the top and the bottom percent, a geometric and a uniform part
func c13Sweep(c *Ctx, n int, lo, hi float64) []float64 {
	v := make([]float64, n)
	for i := range v {
		u := c13U01(c)
		switch i % 8 {
		case 0:
			v[i] = hi
		case 1:
			v[i] = lo
		case 2:
			v[i] = hi * (1 - 0.01*u) // the top percent
		case 3:
			v[i] = hi * (1 - 0.05*u)
		case 4:
			v[i] = lo * (1 + 0.01*u)
		case 5, 6:
			v[i] = lo * math.Pow(hi/lo, u) // geometric
		default:
			v[i] = lo + (hi-lo)*u
		}
		if v[i] > hi {
			v[i] = hi
		}
		if v[i] < lo {
			v[i] = lo
		}
	}
	return v
}

func c13Composite(c *Ctx) {
	x := newC13Comp(c.Scale(7, 8))
	slots := x.params.MaxSlots()
	minEvl := minimax.NewEvaluator(x.params, x.eval, x.btp)
	invEval := inverse.NewEvaluator(x.params, minEvl)

	// ---- IntervalNormalization: iteration count (tie), |x*fac| <= 1, fac in (0, 1]
	log2maxs := []float64{1, 2, 3, 4, 7, 8, 10}
	if c.Thorough() {
		log2maxs = []float64{0.5, 1, 1.5, 2, 3, 4, 5, 6, 7, 8, 9, 10, 12.5}
	}
	for _, l2 := range log2maxs {
		max := math.Exp2(l2)
		vals := c13Sweep(c, slots, -max, -1)
		for i := 0; i < slots; i += 2 {
			vals[i] = -vals[i]
		}
		for i := 4; i < slots; i += 16 {
			vals[i] = (2*c13U01(c) - 1) * math.Min(1, max) // also values that need no compression
		}
		ct := x.encrypt(vals)
		x.btp.minCalls = 0
		var norm, fac *rlwe.Ciphertext
		st := Try(func() string {
			var err error
			if norm, fac, err = invEval.IntervalNormalization(ct, l2, x.btp); err != nil {
				return "err"
			}
			return "ok"
		})
		num, den := int(math.Round(l2*2)), 2
		out := st
		if st == "ok" {
			out = I((x.btp.minCalls + 1) / 3)
		}
		c.Emit(fmt.Sprintf("normiters %d %d", num, den), out)
		tag := fmt.Sprintf("log2max=%g", l2)
		d := ""
		if st != "ok" {
			d = "status=" + st
		} else {
			nv, fv := x.decrypt(norm), x.decrypt(fac)
			for i := range nv {
				switch {
				case !(math.Abs(nv[i]) <= 1+1e-6):
					d = fmt.Sprintf("x=%g is normalised to %g, outside [-1, 1]", vals[i], nv[i])
				case !(fv[i] > 0 && fv[i] <= 1+1e-6):
					d = fmt.Sprintf("x=%g: factor %g outside (0, 1]", vals[i], fv[i])
				case !(math.Abs(nv[i]-vals[i]*fv[i]) <= 1e-6*math.Max(1, math.Abs(vals[i]))):
					d = fmt.Sprintf("x=%g: normalised %g != x*factor %g", vals[i], nv[i], vals[i]*fv[i])
				}
				if d != "" {
					break
				}
			}
		}
		c.Probe("inverse_interval_normalization", tag, "C13-inverse-normalization", d)
	}

	// ---- GoldschmidtDivisionNew on [2^log2min, 2 - 2^log2min], endpoints included: the result is the value the
	// iteration computes, (1 - (1-x)^(2^iters)) / x (Lean: goldschmidt_spec), iters observed through the bootstrapper
	// (the loop asks MinimumInputLevel() 3 times per step)
	// (log2min >= -20: 1/x <= 2^20 at scale 2^90 still fits the modulus of the output level; with the package's
	// own test parameters and log2min = -30 the bottom endpoint 2^-30 overflows the plaintext space of every slot)
	for _, l2 := range []float64{-1, -4, -12, -20} {
		lo := math.Exp2(l2)
		vals := c13Sweep(c, slots, lo, 2-lo)
		ct := x.encrypt(vals)
		x.btp.minCalls = 0
		var res *rlwe.Ciphertext
		st := Try(func() string {
			var err error
			if res, err = invEval.GoldschmidtDivisionNew(ct, l2); err != nil {
				return "err"
			}
			return "ok"
		})
		d := ""
		if st != "ok" {
			d = "status=" + st
		} else {
			iters := x.btp.minCalls/3 + 1
			got := x.decrypt(res)
			for i := range got {
				w := (1 - math.Pow(1-vals[i], math.Exp2(float64(iters)))) / vals[i]
				if !(math.Abs(got[i]-w) <= math.Exp2(-25)*math.Abs(w)) {
					d = fmt.Sprintf("x=%g iters=%d: got %g, the iteration gives %g", vals[i], iters, got[i], w)
					break
				}
			}
		}
		c.Probe("inverse_goldschmidt", fmt.Sprintf("log2min=%g", l2), "C13-inverse-value", d)
	}

	// ---- 1/x on [2^log2min, 2^log2max] (positive), its mirror (negative), both (full): endpoints included
	type dom struct{ l2min, l2max float64 }
	doms := []dom{{-10, 3}, {-8, 4}, {-6, 8}, {-4, 1}}
	if c.Thorough() {
		doms = []dom{{-10, 1}, {-10, 2}, {-10, 3}, {-8, 4}, {-8, 5}, {-6, 6}, {-6, 7}, {-6, 8}, {-4, 9}, {-12, 10}, {-20, 0}, {-4, 0.5}}
	}
	// log2max <= 0: no interval normalization (nothing to multiply back at the end) — the full domain still needs
	// the multiplication by the encrypted sign: negative inputs must come out negative
	nFirst := len(doms)
	doms = append(doms, dom{-8, 0}, dom{-6, -1}, dom{-5, -2})
	if c.Thorough() {
		doms = append(doms, dom{-10, -0.5}, dom{-7, -3}, dom{-12, 0})
	}
	for di, dm := range doms {
		lo, hi := math.Exp2(dm.l2min), math.Exp2(dm.l2max)
		modes := []string{"positive", "negative", "full"}
		if !c.Thorough() {
			modes = []string{modes[di%3], "full"}[:1+di%2]
			if di >= nFirst {
				modes = []string{"full", "negative"}[:1+di%2]
			}
		}
		for _, mode := range modes {
			vals := c13Sweep(c, slots, lo, hi)
			switch mode {
			case "negative":
				for i := range vals {
					vals[i] = -vals[i]
				}
			case "full":
				for i := 0; i < slots; i += 2 {
					vals[i] = -vals[i]
				}
				vals[0], vals[1], vals[2], vals[3] = hi, -hi, lo, -lo
			}
			ct := x.encrypt(vals)
			var res *rlwe.Ciphertext
			st := Try(func() string {
				var err error
				switch mode {
				case "positive":
					res, err = invEval.EvaluatePositiveDomainNew(ct, dm.l2min, dm.l2max)
				case "negative":
					res, err = invEval.EvaluateNegativeDomainNew(ct, dm.l2min, dm.l2max)
				default:
					res, err = invEval.EvaluateFullDomainNew(ct, dm.l2min, dm.l2max, minimax.NewPolynomial(comparison.DefaultCompositePolynomialForSign))
				}
				if err != nil {
					return "err"
				}
				return "ok"
			})
			c.Count("inverse:" + mode + ":" + st)
			d := ""
			if st != "ok" {
				d = "status=" + st
			} else {
				got := x.decrypt(res)
				for i := range got {
					// relative error of 1/x: 2^-25 of the value (the circuit achieves much more; garbage is far off)
					if w := 1 / vals[i]; !(math.Abs(got[i]-w) <= math.Exp2(-25)*math.Abs(w)) {
						d = fmt.Sprintf("1/%g: got %g want %g", vals[i], got[i], w)
						break
					}
				}
			}
			c.Probe("inverse_"+mode, fmt.Sprintf("log2min=%g log2max=%g", dm.l2min, dm.l2max), "C13-inverse-value", d)
		}
	}

	// ---- sign / step on [-1, -2^-a] U [2^-a, 1] (the default composite polynomial: a = 30), max / min on [-0.5, 0.5]
	cmp := comparison.NewEvaluator(x.params, minEvl, minimax.NewPolynomial(comparison.DefaultCompositePolynomialForSign))
	c13Stages(c, x, minEvl, slots)
	for _, a := range []float64{30, 20, 5} {
		vals := c13Sweep(c, slots, math.Exp2(-a), 1)
		for i := 0; i < slots; i += 2 {
			vals[i] = -vals[i]
		}
		vals[0], vals[1], vals[2], vals[3] = 1, -1, math.Exp2(-a), -math.Exp2(-a)
		for _, op := range []string{"sign", "step"} {
			if !c.Thorough() && a != 30 && op == "step" {
				continue
			}
			ct := x.encrypt(vals)
			var res *rlwe.Ciphertext
			st := Try(func() string {
				var err error
				if op == "sign" {
					res, err = cmp.Sign(ct)
				} else {
					res, err = cmp.Step(ct)
				}
				if err != nil {
					return "err"
				}
				return "ok"
			})
			d := ""
			if st != "ok" {
				d = "status=" + st
			} else {
				got := x.decrypt(res)
				for i := range got {
					w := 1.0
					if vals[i] < 0 {
						w = -1
					}
					if op == "step" {
						w = (w + 1) / 2
					}
					if !(math.Abs(got[i]-w) <= math.Exp2(-20)) {
						d = fmt.Sprintf("%s(%g): got %g want %g", op, vals[i], got[i], w)
						break
					}
				}
			}
			c.Probe("comparison_"+op, fmt.Sprintf("alpha=%g", a), "C13-comparison-value", d)
		}
	}
	for _, op := range []string{"max", "min"} {
		v0, v1 := c13Sweep(c, slots, 1e-9, 0.5), c13Sweep(c, slots, 1e-9, 0.5)
		for i := range v0 {
			if i%3 == 0 {
				v0[i] = -v0[i]
			}
			if i%5 < 2 {
				v1[i] = -v1[i]
			}
		}
		v0[0], v1[0], v0[1], v1[1], v0[2], v1[2] = 0.5, -0.5, -0.5, 0.5, 0.5, 0.5-math.Exp2(-25)
		c0, c1 := x.encrypt(v0), x.encrypt(v1)
		var res *rlwe.Ciphertext
		st := Try(func() string {
			var err error
			if op == "max" {
				res, err = cmp.Max(c0, c1)
			} else {
				res, err = cmp.Min(c0, c1)
			}
			if err != nil {
				return "err"
			}
			return "ok"
		})
		d := ""
		if st != "ok" {
			d = "status=" + st
		} else {
			got := x.decrypt(res)
			for i := range got {
				w := math.Max(v0[i], v1[i])
				if op == "min" {
					w = math.Min(v0[i], v1[i])
				}
				if !(math.Abs(got[i]-w) <= math.Exp2(-20)) {
					d = fmt.Sprintf("%s(%g, %g): got %g want %g", op, v0[i], v1[i], got[i], w)
					break
				}
			}
		}
		c.Probe("comparison_"+op, "domain=[-0.5,0.5]", "C13-comparison-value", d)
	}

	c13Levels2(c, x)
}

// c13Levels2: polynomial evaluation with TWO levels per rescaling (LogDefaultScale 90): the evaluation consumes
// 2*ceil(log2(deg+1)) levels; below that the input is refused with an error (never a panic), degrees 2^k included.
func c13Levels2(c *Ctx, x *c13Comp) {
	pe := ckkspoly.NewEvaluator(x.params, x.eval)
	L := x.params.MaxLevel()
	for _, deg := range []int{1, 2, 3, 4, 5, 7, 8, 15, 16, 31, 32} {
		need := 2 * int(math.Ceil(math.Log2(float64(deg+1))))
		for _, lvl := range []int{need - 2, need - 1, need, need + 1, L} {
			if lvl < 0 || lvl > L || (need > L && lvl == L && lvl >= need) {
				continue
			}
			co := make([]float64, deg+1)
			for i := range co {
				co[i] = float64(c.rng.Intn(5)-2) / 4
			}
			vals := make([]float64, x.params.MaxSlots())
			for i := range vals {
				vals[i] = 2*c13U01(c) - 1
			}
			pt := ckks.NewPlaintext(x.params, lvl)
			if err := x.ecd.Encode(vals, pt); err != nil {
				panic(err)
			}
			ct, err := x.enc.EncryptNew(pt)
			if err != nil {
				panic(err)
			}
			var out *rlwe.Ciphertext
			st := Try(func() string {
				var e error
				if out, e = pe.Evaluate(ct, bignum.NewPolynomial(bignum.Monomial, co, nil), x.params.DefaultScale()); e != nil {
					return "err"
				}
				return "ok"
			})
			tag := fmt.Sprintf("ckks90 deg=%d lvl=%d need=%d", deg, lvl, need)
			if lvl < need {
				d := ""
				if st != "err" {
					d = "status=" + st
				}
				c.Probe("too_few_levels_err", tag, "C13/depth-guard-pow2-degree", d)
				continue
			}
			d := ""
			if st != "ok" {
				d = "status=" + st
			} else if out.Level() != lvl-need {
				d = fmt.Sprintf("out level %d", out.Level())
			} else if out.Level() >= 1 { // a scale of 2^90 needs the two 55-bit primes: no value at level 0
				got := x.decrypt(out)
				for i := range got {
					w := 0.0
					for k := deg; k >= 0; k-- {
						w = w*vals[i] + co[k]
					}
					if !(math.Abs(got[i]-w) < math.Exp2(-20)) {
						d = fmt.Sprintf("p(%g): got %g want %g", vals[i], got[i], w)
						break
					}
				}
			}
			c.Probe("levels2_value_level", tag, "C13-levels2", d)
		}
	}
}

// c13Chebyshev: (1) bignum.Polynomial.Evaluate in the Chebyshev basis on asymmetric intervals (tie on integer
// data, probe on floats); (2) PolynomialVector.ChangeOfBasis with a different interval per polynomial (tie) and the
// documented workflow ChangeOfBasis -> Mul -> Add -> Rescale -> Evaluate, every slot against ITS polynomial.
func c13Chebyshev(c *Ctx, x *c13Ctx) {
	// (1) integer data: b-a in {1, 2} and (b-a) | (a+b): the change of basis is integral
	for it := 0; it < c.Scale(40, 400); it++ {
		w := 1 + c.rng.Intn(2)
		a := c.rng.Intn(13) - 6
		b := a + w
		deg := c.rng.Intn(9)
		co := make([]int64, deg+1)
		f := make([]float64, deg+1)
		for i := range co {
			co[i] = int64(c.rng.Intn(21)) - 10
			f[i] = float64(co[i])
		}
		xi := a - 3 + c.rng.Intn(w+7)
		p := bignum.NewPolynomial(bignum.Chebyshev, f, [2]float64{float64(a), float64(b)})
		out := Try(func() string {
			y := p.Evaluate(new(big.Float).SetPrec(256).SetInt64(int64(xi)))
			re, im := new(big.Float).Copy(y[0]), y[1]
			if im.Sign() != 0 {
				return "complex"
			}
			r, acc := re.Int(nil)
			if acc != big.Exact {
				return "inexact"
			}
			return r.String()
		})
		c.Emit(fmt.Sprintf("chebeval %d %d %d %s", a, b, xi, c12I64(co)), out)
	}
	for it := 0; it < c.Scale(20, 200); it++ {
		a := float64(c.rng.Intn(17)-8) / 2
		b := a + float64(1+c.rng.Intn(12))/2
		deg := 1 + c.rng.Intn(12)
		f := make([]float64, deg+1)
		ci := make([]int64, deg+1)
		for i := range f {
			ci[i] = int64(c.rng.Intn(9)) - 4
			f[i] = float64(ci[i])
		}
		xv := a + (b-a)*c13U01(c)
		p := bignum.NewPolynomial(bignum.Chebyshev, f, [2]float64{a, b})
		y := p.Evaluate(xv)
		re, _ := y[0].Float64()
		im, _ := y[1].Float64()
		w := c13RefFloat(true, ci, (2*xv-a-b)/(b-a))
		d := ""
		if !(math.Abs(re-w) <= 1e-9*math.Max(1, math.Abs(w)) && im == 0) {
			d = fmt.Sprintf("interval [%g, %g] x=%g coeffs=%s: Evaluate = (%g, %g), p(x) = %g", a, b, xv, c12I64(ci), re, im, w)
		}
		c.Probe("bignum_chebyshev_evaluate", fmt.Sprintf("a=%g b=%g deg=%d", a, b, deg), "C13/bignum-chebyshev-constant-on-imaginary-part", d)
	}

	// (2) vectors: per-polynomial intervals; widths in {1, 2, 4, 8} keep scalar and constant dyadic
	L := x.rp.MaxLevel()
	for it := 0; it < c.Scale(6, 40); it++ {
		np := 2 + c.rng.Intn(2)
		deg := 1 + c.rng.Intn(c.Scale(7, 15))
		need := int(math.Ceil(math.Log2(float64(deg+1)))) + 1 // one level for the change of basis
		if need > L {
			continue
		}
		type iv struct{ a, b int }
		ivs := make([]iv, np)
		polys := make([]bignum.Polynomial, np)
		coeffs := make([][]int64, np)
		for i := range ivs {
			a := c.rng.Intn(9) - 4
			ivs[i] = iv{a, a + 1<<c.rng.Intn(4)}
			if it%3 == 0 && i == 0 {
				ivs[i] = iv{-1, 1}
			}
			coeffs[i] = make([]int64, deg+1)
			f := make([]float64, deg+1)
			for k := range f {
				coeffs[i][k] = int64(c.rng.Intn(5)) - 2
				f[k] = float64(coeffs[i][k])
			}
			polys[i] = bignum.NewPolynomial(bignum.Chebyshev, f, [2]float64{float64(ivs[i].a), float64(ivs[i].b)})
		}
		mapping := map[int][]int{}
		owner := make([]int, x.slots)
		for j := range owner {
			owner[j] = c.rng.Intn(np+1) - 1
			if owner[j] >= 0 {
				mapping[owner[j]] = append(mapping[owner[j]], j)
			}
		}
		pv, err := ckkspoly.NewPolynomialVector(polys, mapping)
		if err != nil {
			panic(err)
		}
		scalar, constant := pv.ChangeOfBasis(x.slots)
		// tie: times 8 both are integers
		s8, c8 := make([]int64, x.slots), make([]int64, x.slots)
		exact := true
		for j := range scalar {
			v, acc := new(big.Float).Mul(scalar[j], big.NewFloat(8)).Int64()
			s8[j] = v
			exact = exact && acc == big.Exact
			v, acc = new(big.Float).Mul(constant[j], big.NewFloat(8)).Int64()
			c8[j] = v
			exact = exact && acc == big.Exact
		}
		mp := make([]string, np)
		ivp := make([]string, np)
		for i := range mp {
			mp[i] = IVec(mapping[i])
			ivp[i] = fmt.Sprintf("%d:%d", ivs[i].a, ivs[i].b)
		}
		out := c12I64(s8) + ";" + c12I64(c8)
		if !exact {
			out = "inexact"
		}
		c.Emit(fmt.Sprintf("cob slots=%d map=%s iv=%s", x.slots, strings.Join(mp, "|"), strings.Join(ivp, "|")), out)

		// the documented workflow on values inside each slot's own interval
		vals := make([]float64, x.slots)
		for j := range vals {
			if owner[j] >= 0 {
				a, b := float64(ivs[owner[j]].a), float64(ivs[owner[j]].b)
				vals[j] = a + (b-a)*c13U01(c)
				if j%7 == 0 {
					vals[j] = b
				}
				if j%7 == 1 {
					vals[j] = a
				}
			} else {
				vals[j] = 2*c13U01(c) - 1
			}
		}
		lvl := need + c.rng.Intn(L-need+1)
		pt := ckks.NewPlaintext(x.cp, lvl)
		if err := x.cecd.Encode(vals, pt); err != nil {
			panic(err)
		}
		ct, err := x.enc.EncryptNew(pt)
		if err != nil {
			panic(err)
		}
		eval := ckks.NewEvaluator(x.cp, x.evk)
		var res *rlwe.Ciphertext
		st := Try(func() string {
			if err := eval.Mul(ct, scalar, ct); err != nil {
				return "err"
			}
			if err := eval.Add(ct, constant, ct); err != nil {
				return "err"
			}
			if err := eval.Rescale(ct, ct); err != nil {
				return "err"
			}
			var e error
			if res, e = ckkspoly.NewEvaluator(x.cp, eval).Evaluate(ct, pv, x.cp.DefaultScale()); e != nil {
				return "err"
			}
			return "ok"
		})
		d := ""
		if st != "ok" {
			d = "status=" + st
		} else {
			got := make([]float64, x.slots)
			if err := x.cecd.Decode(x.dec.DecryptNew(res), got); err != nil {
				panic(err)
			}
			for j := range got {
				w := 0.0
				if o := owner[j]; o >= 0 {
					a, b := float64(ivs[o].a), float64(ivs[o].b)
					w = c13RefFloat(true, coeffs[o], (2*vals[j]-a-b)/(b-a))
				}
				if !(math.Abs(got[j]-w) < 1.0/1024) {
					d = fmt.Sprintf("slot %d (polynomial %d, x=%g): got %g want %g; intervals %v", j, owner[j], vals[j], got[j], w, ivs)
					break
				}
			}
		}
		c.Probe("vector_chebyshev_value", fmt.Sprintf("logN=%d np=%d deg=%d lvl=%d", x.logN, np, deg, lvl), "C13-vector-change-of-basis", d)
	}
	// a vector must have one basis and one degree: anything else is refused with an error (not a panic)
	for it := 0; it < 4; it++ {
		p0 := bignum.NewPolynomial(bignum.Chebyshev, []float64{1, 2, 3}, [2]float64{-1, 1})
		p1 := bignum.NewPolynomial(bignum.Monomial, []float64{1, 2, 3}, nil)
		if it%2 == 1 {
			p1 = bignum.NewPolynomial(bignum.Chebyshev, []float64{1, 2, 3, 4}, [2]float64{2, 6})
		}
		ps := []bignum.Polynomial{p0, p1}
		if it >= 2 {
			ps = []bignum.Polynomial{p1, p0}
		}
		st := Try(func() string {
			if _, err := ckkspoly.NewPolynomialVector(ps, map[int][]int{0: {0}, 1: {1}}); err != nil {
				return "err"
			}
			return "ok"
		})
		d := ""
		if st != "err" {
			d = "status=" + st
		}
		c.Probe("vector_mixed_refused", fmt.Sprintf("case=%d", it), "C13-vector-mixed", d)
	}
}
