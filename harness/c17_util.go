package main

// C17 helpers: the replay PRNG handed to the real samplers, stream descriptors, the ziggurat
// tables read from the repository SOURCE TEXT (they are unexported), and the shadow that tells
// whether a Gaussian call left the ziggurat fast path (math.Log / math.Exp: platform dependent,
// such lines are reported `inconclusive` by both sides).

import (
	"encoding/binary"
	"fmt"
	"go/ast"
	"go/parser"
	"go/token"
	"io"
	"math"
	"math/big"
	"strconv"
	"strings"
)

// ---- replay PRNG (implements sampling.PRNG = io.Reader) ----

type c17Replay struct {
	data      []byte
	pos       int
	exhausted bool
	reads     int
}

func (r *c17Replay) Read(p []byte) (int, error) {
	r.reads++
	if len(r.data)-r.pos < len(p) {
		r.exhausted = true
		return 0, io.ErrUnexpectedEOF
	}
	copy(p, r.data[r.pos:r.pos+len(p)])
	r.pos += len(p)
	return len(p), nil
}

// ---- stream descriptors: segments joined by '+' ----

type c17Stream struct {
	desc []string
	data []byte
}

func (s *c17Stream) Hex(b []byte) *c17Stream {
	if len(b) == 0 {
		return s
	}
	s.desc = append(s.desc, "x"+Hex(b))
	s.data = append(s.data, b...)
	return s
}

func (s *c17Stream) Rep(v byte, n int) *c17Stream {
	if n == 0 {
		return s
	}
	s.desc = append(s.desc, fmt.Sprintf("r%02x*%d", v, n))
	for i := 0; i < n; i++ {
		s.data = append(s.data, v)
	}
	return s
}

// SM appends n bytes of a SplitMix64 stream (little-endian words) started at seed.
func (s *c17Stream) SM(seed uint64, n int) *c17Stream {
	if n == 0 {
		return s
	}
	s.desc = append(s.desc, fmt.Sprintf("s%d*%d", seed, n))
	st := seed
	out := make([]byte, 0, n+8)
	for len(out) < n {
		st += 0x9E3779B97F4A7C15
		z := st
		z = (z ^ (z >> 30)) * 0xBF58476D1CE4E5B9
		z = (z ^ (z >> 27)) * 0x94D049BB133111EB
		z ^= z >> 31
		var t [8]byte
		binary.LittleEndian.PutUint64(t[:], z)
		out = append(out, t[:]...)
	}
	s.data = append(s.data, out[:n]...)
	return s
}

func (s *c17Stream) Desc() string {
	if len(s.desc) == 0 {
		return "-"
	}
	return strings.Join(s.desc, "+")
}

// ---- ziggurat tables from the source text ----

type c17Zig struct {
	kn     [128]uint32
	wn, fn [128]float32
	rn     float64
	ok     bool
}

var c17zig c17Zig

func c17RepoDir() string { return repoPath() }

func c17LoadZig() error {
	fset := token.NewFileSet()
	f, err := parser.ParseFile(fset, c17RepoDir()+"/ring/sampler_gaussian.go", nil, 0)
	if err != nil {
		return err
	}
	cnt := map[string]int{}
	for _, d := range f.Decls {
		gd, ok := d.(*ast.GenDecl)
		if !ok {
			continue
		}
		for _, s := range gd.Specs {
			vs, ok := s.(*ast.ValueSpec)
			if !ok {
				continue
			}
			for i, nm := range vs.Names {
				if i >= len(vs.Values) {
					continue
				}
				switch nm.Name {
				case "rn":
					if bl, ok := vs.Values[i].(*ast.BasicLit); ok {
						c17zig.rn, err = strconv.ParseFloat(bl.Value, 64)
						if err != nil {
							return err
						}
						cnt["rn"]++
					}
				case "kn", "wn", "fn":
					cl, ok := vs.Values[i].(*ast.CompositeLit)
					if !ok || len(cl.Elts) != 128 {
						return fmt.Errorf("table %s: unexpected shape", nm.Name)
					}
					for k, e := range cl.Elts {
						bl, ok := e.(*ast.BasicLit)
						if !ok {
							return fmt.Errorf("table %s[%d]: not a literal", nm.Name, k)
						}
						if nm.Name == "kn" {
							v, err := strconv.ParseUint(bl.Value, 0, 32)
							if err != nil {
								return err
							}
							c17zig.kn[k] = uint32(v)
						} else {
							v, err := strconv.ParseFloat(bl.Value, 32)
							if err != nil {
								return err
							}
							if nm.Name == "wn" {
								c17zig.wn[k] = float32(v)
							} else {
								c17zig.fn[k] = float32(v)
							}
						}
					}
					cnt[nm.Name]++
				}
			}
		}
	}
	if cnt["rn"] != 1 || cnt["kn"] != 1 || cnt["wn"] != 1 || cnt["fn"] != 1 {
		return fmt.Errorf("ziggurat tables not found in source: %v", cnt)
	}
	c17zig.ok = true
	return nil
}

// ---- Gaussian shadow: which words does a call consume, and does it leave the fast path ----

type c17Shadow struct {
	ptr int // g.ptr of the real sampler family (all AtLevel views share it)
}

// call mirrors GaussianSampler.read on data[pos:]; returns slow (fast path left; nothing after
// that point is simulated), the new PRNG position and whether the PRNG ran dry.
func (g *c17Shadow) call(data []byte, pos int, N int, sigma, bound float64) (slow bool, newPos int, dry bool) {
	z := &c17zig
	buf := make([]byte, 1024)
	rd := func(p []byte) bool {
		if len(data)-pos < len(p) {
			return false
		}
		copy(p, data[pos:pos+len(p)])
		pos += len(p)
		return true
	}
	if !rd(buf) {
		return false, pos, true
	}
	ptr := g.ptr
	// returns (norm, sign, status) status: 0 ok, 1 slow, 2 dry
	norm := func() (float64, uint64, int) {
		if ptr == 1024 {
			if !rd(buf) {
				return 0, 0, 2
			}
			ptr = 0
		}
		ju := binary.LittleEndian.Uint32(buf[ptr : ptr+4])
		ptr += 8
		j := int32(ju & 0x7fffffff)
		sign := uint64(ju >> 31)
		i := j & 0x7f
		x := float64(j) * float64(z.wn[i])
		if uint32(j) < z.kn[i] {
			return x, sign, 0
		}
		return 0, 0, 1
	}
	big_ := sigma > 0x20000000000000 && bound > 0xffffffffffffffff
	if big_ {
		boundInt := new(big.Int)
		new(big.Float).SetFloat64(bound).Int(boundInt)
		normInt := new(big.Int)
		normFlo := new(big.Float)
		low := new(big.Int)
		for i := 0; i < N; i++ {
			for {
				n, sign, st := norm()
				if st == 1 {
					return true, pos, false
				}
				if st == 2 {
					return false, pos, true
				}
				normFlo.SetFloat64(n*sigma + 0.5)
				normFlo.Int(normInt)
				low.Rsh(normInt, 53)
				if low.Sign() > 0 {
					// crypto/rand.Int
					m := new(big.Int).Sub(low, big.NewInt(1))
					bl := m.BitLen()
					if bl != 0 {
						k := (bl + 7) / 8
						b := uint(bl % 8)
						if b == 0 {
							b = 8
						}
						bytes := make([]byte, k)
						r := new(big.Int)
						for {
							if !rd(bytes) {
								return false, pos, true
							}
							bytes[0] &= uint8(int(1<<b) - 1)
							r.SetBytes(bytes)
							if r.Cmp(low) < 0 {
								break
							}
						}
						normInt.Add(normInt, r)
					}
				}
				normInt.Mul(normInt, big.NewInt(2*int64(sign)-1))
				if normInt.CmpAbs(boundInt) < 1 {
					break
				}
			}
		}
	} else {
		for i := 0; i < N; i++ {
			for {
				n, _, st := norm()
				if st == 1 {
					return true, pos, false
				}
				if st == 2 {
					return false, pos, true
				}
				if v := n * sigma; v <= bound {
					break
				}
			}
		}
	}
	g.ptr = ptr
	return false, pos, false
}

// c17FastWord returns 8 bytes whose little-endian uint32 passes the ziggurat fast test.
func c17FastWord(rng *SplitMix) [8]byte {
	for {
		var t [8]byte
		binary.LittleEndian.PutUint64(t[:], rng.U64())
		ju := binary.LittleEndian.Uint32(t[:4])
		j := ju & 0x7fffffff
		if j < c17zig.kn[j&0x7f] {
			return t
		}
	}
}

func c17FastBytes(rng *SplitMix, n int) []byte {
	out := make([]byte, 0, n)
	for len(out) < n {
		w := c17FastWord(rng)
		out = append(out, w[:]...)
	}
	return out[:n]
}

func c17F64(x float64) string { return strconv.FormatUint(math.Float64bits(x), 10) }

func c17B(b bool) string {
	if b {
		return "1"
	}
	return "0"
}
