package main

// C13 — homomorphic polynomial evaluation.
//
// Tie lines: split / optsplit / depth / factorize (pure functions) and `eval`: the polynomial evaluator of
// circuits/{bgv,ckks}/polynomial driven on a real ciphertext with the scheme evaluator replaced by a logging
// decorator (the polynomial evaluator consumes it through the schemes.Evaluator interface).  The ordered op
// trace (op, operand levels, bgv: operand scales mod t), the final level, and for bgv the final scale and the
// decrypted slot values must equal what the Lean machine produces; `ps=` repeats the decrypted values and is
// compared with the Lean Paterson–Stockmeyer recursion on values.
// Probes: value (bgv exact / ckks 2^-10), level_doc, scale_target, too_few_levels_err.

import (
	"fmt"
	"math"
	"math/big"
	"math/bits"
	"strings"

	bgvpoly "github.com/tuneinsight/lattigo/v6/circuits/bgv/polynomial"
	ckkspoly "github.com/tuneinsight/lattigo/v6/circuits/ckks/polynomial"
	cpoly "github.com/tuneinsight/lattigo/v6/circuits/common/polynomial"
	"github.com/tuneinsight/lattigo/v6/core/rlwe"
	"github.com/tuneinsight/lattigo/v6/ring"
	"github.com/tuneinsight/lattigo/v6/schemes"
	"github.com/tuneinsight/lattigo/v6/schemes/bgv"
	"github.com/tuneinsight/lattigo/v6/schemes/ckks"
	"github.com/tuneinsight/lattigo/v6/utils/bignum"
)

func init() { register("C13", genC13) }

// ---------- logging decorator over schemes.Evaluator ----------

type c13LogEval struct {
	schemes.Evaluator
	tr  *[]string
	bgv bool
}

func (l *c13LogEval) s(op rlwe.Operand) string {
	switch ct := op.(type) {
	case *rlwe.Ciphertext:
		if l.bgv {
			return fmt.Sprintf("%d:%d", ct.Level(), ct.Scale.Uint64())
		}
		return fmt.Sprintf("%d", ct.Level())
	default:
		return "c"
	}
}
func (l *c13LogEval) log(f string, a ...interface{}) { *l.tr = append(*l.tr, fmt.Sprintf(f, a...)) }

func (l *c13LogEval) Add(a *rlwe.Ciphertext, b rlwe.Operand, o *rlwe.Ciphertext) error {
	l.log("add(%s,%s)", l.s(a), l.s(b))
	return l.Evaluator.Add(a, b, o)
}
func (l *c13LogEval) AddNew(a *rlwe.Ciphertext, b rlwe.Operand) (*rlwe.Ciphertext, error) {
	l.log("addnew(%s,%s)", l.s(a), l.s(b))
	return l.Evaluator.AddNew(a, b)
}
func (l *c13LogEval) Sub(a *rlwe.Ciphertext, b rlwe.Operand, o *rlwe.Ciphertext) error {
	l.log("sub(%s,%s)", l.s(a), l.s(b))
	return l.Evaluator.Sub(a, b, o)
}
func (l *c13LogEval) SubNew(a *rlwe.Ciphertext, b rlwe.Operand) (*rlwe.Ciphertext, error) {
	l.log("subnew(%s,%s)", l.s(a), l.s(b))
	return l.Evaluator.SubNew(a, b)
}
func (l *c13LogEval) Mul(a *rlwe.Ciphertext, b rlwe.Operand, o *rlwe.Ciphertext) error {
	l.log("mul(%s,%s)", l.s(a), l.s(b))
	return l.Evaluator.Mul(a, b, o)
}
func (l *c13LogEval) MulNew(a *rlwe.Ciphertext, b rlwe.Operand) (*rlwe.Ciphertext, error) {
	l.log("mulnew(%s,%s)", l.s(a), l.s(b))
	return l.Evaluator.MulNew(a, b)
}
func (l *c13LogEval) MulRelin(a *rlwe.Ciphertext, b rlwe.Operand, o *rlwe.Ciphertext) error {
	l.log("mulrelin(%s,%s)", l.s(a), l.s(b))
	return l.Evaluator.MulRelin(a, b, o)
}
func (l *c13LogEval) MulRelinNew(a *rlwe.Ciphertext, b rlwe.Operand) (*rlwe.Ciphertext, error) {
	l.log("mulrelinnew(%s,%s)", l.s(a), l.s(b))
	return l.Evaluator.MulRelinNew(a, b)
}
func (l *c13LogEval) MulThenAdd(a *rlwe.Ciphertext, b rlwe.Operand, o *rlwe.Ciphertext) error {
	l.log("multhenadd(%s,%s,%s)", l.s(a), l.s(b), l.s(o))
	return l.Evaluator.MulThenAdd(a, b, o)
}
func (l *c13LogEval) Relinearize(a, o *rlwe.Ciphertext) error {
	l.log("relin(%s)", l.s(a))
	return l.Evaluator.Relinearize(a, o)
}
func (l *c13LogEval) Rescale(a, o *rlwe.Ciphertext) error {
	l.log("rescale(%s)", l.s(a))
	return l.Evaluator.Rescale(a, o)
}

// ---------- contexts ----------

type c13Ctx struct {
	// when set, every runCase uses these (one polynomial evaluator for a SEQUENCE of evaluations:
	// the slot-mapping buffer of its CoefficientGetter is shared between them)
	sbgv  *bgvpoly.Evaluator
	sckks *ckkspoly.Evaluator
	slog  *c13LogEval
	scheme string
	logN   int
	t      uint64
	slots  int
	bp     bgv.Parameters
	cp     ckks.Parameters
	rp     *rlwe.Parameters
	enc    *rlwe.Encryptor
	dec    *rlwe.Decryptor
	becd   *bgv.Encoder
	cecd   *ckks.Encoder
	evk    rlwe.EvaluationKeySet
}

func newC13Ctx(scheme string, logN int) *c13Ctx {
	return newC13CtxLit(scheme, logN, 65537, []int{56, 46, 46, 46, 46, 46, 46}, []int{57, 57}, []int{55, 40, 40, 40, 40, 40, 40}, []int{61})
}

// newC13CtxLit: explicit plaintext modulus (bgv) and modulus chains (bgvQ/bgvP resp. ckksQ/ckksP)
func newC13CtxLit(scheme string, logN int, t uint64, bgvQ, bgvP, ckksQ, ckksP []int) *c13Ctx {
	x := &c13Ctx{scheme: scheme, logN: logN}
	var kgen *rlwe.KeyGenerator
	if scheme == "bgv" {
		p, err := bgv.NewParametersFromLiteral(bgv.ParametersLiteral{LogN: logN, LogQ: bgvQ, LogP: bgvP, PlaintextModulus: t})
		if err != nil {
			panic(err)
		}
		x.bp, x.t, x.slots = p, t, p.MaxSlots()
		x.rp = p.GetRLWEParameters()
		x.becd = bgv.NewEncoder(p)
		kgen = rlwe.NewKeyGenerator(p)
	} else {
		p, err := ckks.NewParametersFromLiteral(ckks.ParametersLiteral{LogN: logN, LogQ: ckksQ, LogP: ckksP, LogDefaultScale: 40})
		if err != nil {
			panic(err)
		}
		x.cp, x.t, x.slots = p, 0, p.MaxSlots()
		x.rp = p.GetRLWEParameters()
		x.cecd = ckks.NewEncoder(p)
		kgen = rlwe.NewKeyGenerator(p)
	}
	sk := kgen.GenSecretKeyNew()
	x.enc = rlwe.NewEncryptor(x.rp, sk)
	x.dec = rlwe.NewDecryptor(x.rp, sk)
	x.evk = rlwe.NewMemEvaluationKeySet(kgen.GenRelinearizationKeyNew(sk))
	return x
}

type c13Case struct {
	cheb    bool
	lazy    bool
	level   int
	scale   uint64 // bgv: mod t; ckks: ignored (default scale)
	tscale  uint64
	x       []int64   // bgv: values mod t; ckks: numerators over 4 (x = v/4 in [-1,1])
	polys   [][]int64 // integer coefficients
	mapping [][]int   // nil = single polynomial
	// extensions (zero values = the plain Evaluate of a constructor-built polynomial)
	inv      bool     // bgv.Evaluator.ScaleInvariant (BFV-style)
	flagsSet bool     // IsOdd/IsEven set by the user to (odd, even)
	odd      bool
	even     bool
	truthful bool     // the flags describe the coefficients (odd flag only: even coefficients are 0, …)
	pre      []c13Pre // non-nil: EvaluateFromPowerBasis on a basis filled by these steps
	ctor     int       // bgv: 1 bgvpoly.NewPolynomial[uint64] / NewPolynomialVector[uint64], 2 the same on int64 (a negative
	// coefficient c stands for c mod t); 0: bignum.NewPolynomial on float64 coefficients (exact below 2^53 only)
	rawU     [][]uint64 // ctor = 1, non-nil: the coefficients handed to the constructor (polys = rawU mod t)
	pflags   [][2]bool // non-nil (vectors): the (IsOdd, IsEven) flags of every polynomial, each describing ITS coefficients
}

// c13Pre: one step of filling a PowerBasis before EvaluateFromPowerBasis
type c13Pre struct {
	n     int
	lazy  bool   // gen: GenPower(n, lazy)
	fresh bool   // pb.Value[n] = fresh encryption of x^n at (level, scale)
	del   bool   // delete(pb.Value, n)
	level int
	scale uint64
}

func (cs *c13Case) hasFresh() bool {
	for _, p := range cs.pre {
		if p.fresh {
			return true
		}
	}
	return false
}

func (x *c13Ctx) describe(cs *c13Case) string {
	var sb strings.Builder
	qs := []uint64{}
	if x.scheme == "bgv" {
		for _, q := range x.rp.Q() {
			qs = append(qs, q%x.t)
		}
	}
	xs := "-"
	if x.scheme == "bgv" {
		xs = c12I64(cs.x)
	}
	op := "eval"
	if x.scheme == "ckks" && cs.lazy {
		// these lines (trace and value) follow schemes/ckks/evaluator.go MulThenAdd as fixed by C06-6/C06-7
		op = "eval-ckks-lazy"
	}
	fmt.Fprintf(&sb, op+" t=%d q=%s slots=%d cheb=%d lazy=%d lvl=%d scale=%d tscale=%d x=%s", x.t, Vec(qs), x.slots, b2i(cs.cheb), b2i(cs.lazy), cs.level, cs.scale, cs.tscale, xs)
	if cs.mapping == nil {
		sb.WriteString(" map=-")
	} else {
		parts := make([]string, len(cs.mapping))
		for i := range cs.mapping {
			parts[i] = IVec(cs.mapping[i])
		}
		sb.WriteString(" map=" + strings.Join(parts, "|"))
	}
	if cs.inv {
		sb.WriteString(" inv=1")
	}
	if cs.flagsSet {
		fmt.Fprintf(&sb, " odd=%d even=%d", b2i(cs.odd), b2i(cs.even))
	}
	if cs.ctor != 0 {
		fmt.Fprintf(&sb, " ctor=%d", cs.ctor)
		if cs.rawU != nil {
			fmt.Fprintf(&sb, " rawu=%d", cs.rawU[0][0])
		}
	}
	if cs.pflags != nil {
		parts := make([]string, len(cs.pflags))
		for i, f := range cs.pflags {
			parts[i] = fmt.Sprintf("%d%d", b2i(f[0]), b2i(f[1]))
		}
		sb.WriteString(" pf=" + strings.Join(parts, ","))
	}
	if cs.pre != nil {
		parts := []string{}
		for _, p := range cs.pre {
			if p.del {
				parts = append(parts, fmt.Sprintf("d%d", p.n))
			} else if p.fresh {
				parts = append(parts, fmt.Sprintf("f%d:%d:%d", p.n, p.level, p.scale))
			} else if p.lazy {
				parts = append(parts, fmt.Sprintf("g%dl", p.n))
			} else {
				parts = append(parts, fmt.Sprintf("g%d", p.n))
			}
		}
		if len(parts) == 0 {
			sb.WriteString(" pre=-")
		} else {
			sb.WriteString(" pre=" + strings.Join(parts, ","))
		}
	}
	for _, p := range cs.polys {
		sb.WriteString(" P " + c12I64(p))
	}
	return sb.String()
}

// reference value of polynomial p at float x in the given basis
func c13RefFloat(cheb bool, p []int64, x float64) float64 {
	if !cheb {
		r := 0.0
		for i := len(p) - 1; i >= 0; i-- {
			r = r*x + float64(p[i])
		}
		return r
	}
	t0, t1 := 1.0, x
	r := 0.0
	for i := range p {
		var ti float64
		switch i {
		case 0:
			ti = t0
		case 1:
			ti = t1
		default:
			ti = 2*x*t1 - t0
			t0, t1 = t1, ti
		}
		r += float64(p[i]) * ti
	}
	return r
}

// c13MulMod: a*b mod t without overflow (t up to 2^63)
func c13MulMod(a, b, t uint64) uint64 {
	hi, lo := bits.Mul64(a%t, b%t)
	_, r := bits.Div64(hi, lo, t)
	return r
}

// refMod: Horner modulo t; a negative coefficient c stands for c mod t
func (x *c13Ctx) refMod(p []int64, v int64) int64 {
	t := x.t
	r := uint64(0)
	for i := len(p) - 1; i >= 0; i-- {
		ci := uint64(0)
		if p[i] >= 0 {
			ci = uint64(p[i]) % t
		} else if m := uint64(-p[i]) % t; m != 0 {
			ci = t - m
		}
		r = (c13MulMod(r, uint64(v), t) + ci) % t
	}
	return int64(r)
}

func (cs *c13Case) u64poly(i int) []uint64 {
	if cs.rawU != nil {
		return cs.rawU[i]
	}
	return c13U64(cs.polys[i])
}

func c13U64(p []int64) []uint64 {
	u := make([]uint64, len(p))
	for i := range p {
		u[i] = uint64(p[i])
	}
	return u
}

func (x *c13Ctx) polyOfSlot(cs *c13Case, j int) []int64 {
	if cs.mapping == nil {
		return cs.polys[0]
	}
	var p []int64
	for i := range cs.mapping {
		for _, s := range cs.mapping[i] {
			if s == j {
				p = cs.polys[i]
			}
		}
	}
	return p
}

func (x *c13Ctx) runCase(c *Ctx, cs *c13Case) {
	desc := x.describe(cs)
	basis := bignum.Monomial
	if cs.cheb {
		basis = bignum.Chebyshev
	}
	mk := func(p []int64) bignum.Polynomial {
		f := make([]float64, len(p))
		for i := range p {
			f[i] = float64(p[i])
		}
		bp := bignum.NewPolynomial(basis, f, [2]float64{-1, 1})
		if cs.flagsSet {
			bp.IsOdd, bp.IsEven = cs.odd, cs.even
		}
		return bp
	}
	mkI := func(i int) bignum.Polynomial {
		bp := mk(cs.polys[i])
		if cs.pflags != nil {
			bp.IsOdd, bp.IsEven = cs.pflags[i][0], cs.pflags[i][1]
		}
		return bp
	}
	// the polynomial argument of Evaluate
	mkPol := func() (interface{}, bool) {
		if cs.ctor != 0 {
			if cs.mapping == nil {
				var p bgvpoly.Polynomial
				if cs.ctor == 1 {
					p = bgvpoly.NewPolynomial(cs.u64poly(0))
				} else {
					p = bgvpoly.NewPolynomial(cs.polys[0])
				}
				p.Lazy = cs.lazy
				return p, true
			}
			m := map[int][]int{}
			for i := range cs.mapping {
				m[i] = cs.mapping[i]
			}
			var pv bgvpoly.PolynomialVector
			var e error
			if cs.ctor == 1 {
				us := make([][]uint64, len(cs.polys))
				for i := range us {
					us[i] = cs.u64poly(i)
				}
				pv, e = bgvpoly.NewPolynomialVector(us, m)
			} else {
				pv, e = bgvpoly.NewPolynomialVector(cs.polys, m)
			}
			if e != nil {
				return nil, false
			}
			for i := range pv.Value {
				pv.Value[i].Lazy = cs.lazy
			}
			return pv, true
		}
		if cs.mapping == nil {
			p := cpoly.NewPolynomial(mk(cs.polys[0]))
			p.Lazy = cs.lazy
			return p, true
		}
		ps := make([]bignum.Polynomial, len(cs.polys))
		for i := range ps {
			ps[i] = mkI(i)
		}
		m := map[int][]int{}
		for i := range cs.mapping {
			m[i] = cs.mapping[i]
		}
		pv, e := cpoly.NewPolynomialVector(ps, m)
		if e != nil {
			return nil, false
		}
		for i := range pv.Value {
			pv.Value[i].Lazy = cs.lazy
		}
		return pv, true
	}
	// fills a PowerBasis as cs.pre says (with the real evaluator, outside the logged trace);
	// ok = false: a step failed (the case is then not a case of EvaluateFromPowerBasis)
	prefill := func(ct *rlwe.Ciphertext, ev schemes.Evaluator) (pb cpoly.PowerBasis, ok bool) {
		pb = cpoly.NewPowerBasis(ct, basis)
		for _, p := range cs.pre {
			if p.del {
				delete(pb.Value, p.n)
				continue
			}
			if !p.fresh {
				if err := pb.GenPower(p.n, p.lazy, ev); err != nil {
					return pb, false
				}
				continue
			}
			if x.scheme == "bgv" {
				v := make([]int64, len(cs.x))
				for i := range v {
					r := int64(1)
					for k := 0; k < p.n; k++ {
						r = int64(c13MulMod(uint64(r), uint64(cs.x[i]), x.t))
					}
					v[i] = r
				}
				pt := bgv.NewPlaintext(x.bp, p.level)
				pt.Scale = x.bp.NewScale(p.scale)
				if err := x.becd.Encode(v, pt); err != nil {
					panic(err)
				}
				c2, err := x.enc.EncryptNew(pt)
				if err != nil {
					panic(err)
				}
				pb.Value[p.n] = c2
			} else {
				z := make([]float64, x.slots)
				for i := range z {
					z[i] = math.Pow(float64(cs.x[i])/4, float64(p.n))
				}
				pt := ckks.NewPlaintext(x.cp, p.level)
				if err := x.cecd.Encode(z, pt); err != nil {
					panic(err)
				}
				c2, err := x.enc.EncryptNew(pt)
				if err != nil {
					panic(err)
				}
				pb.Value[p.n] = c2
			}
		}
		return pb, true
	}
	prefillFailed := false
	var tr []string
	var out *rlwe.Ciphertext
	var inScale rlwe.Scale
	var target rlwe.Scale
	status := Try(func() string {
		var err error
		if x.scheme == "bgv" {
			pt := bgv.NewPlaintext(x.bp, cs.level)
			pt.Scale = x.bp.NewScale(cs.scale)
			if err = x.becd.Encode(cs.x, pt); err != nil {
				panic(err)
			}
			ct, e := x.enc.EncryptNew(pt)
			if e != nil {
				panic(e)
			}
			inScale = ct.Scale
			target = x.bp.NewScale(cs.tscale)
			pe := x.sbgv
			var real *bgv.Evaluator
			if pe != nil {
				x.slog.tr = &tr
				real = x.slog.Evaluator.(*bgv.Evaluator)
			} else {
				real = bgv.NewEvaluator(x.bp, x.evk, cs.inv)
				pe = bgvpoly.NewEvaluator(x.bp, real)
				pe.Evaluator.Evaluator = &c13LogEval{Evaluator: real, tr: &tr, bgv: true}
			}
			pol, ok := mkPol()
			if !ok {
				return "err"
			}
			if cs.pre != nil {
				pb, ok := prefill(ct, real)
				if !ok {
					prefillFailed = true
					return "err"
				}
				out, err = pe.EvaluateFromPowerBasis(pb, pol, target)
			} else {
				out, err = pe.Evaluate(ct, pol, target)
			}
		} else {
			pt := ckks.NewPlaintext(x.cp, cs.level)
			z := make([]float64, x.slots)
			for i := range z {
				z[i] = float64(cs.x[i]) / 4
			}
			if err = x.cecd.Encode(z, pt); err != nil {
				panic(err)
			}
			ct, e := x.enc.EncryptNew(pt)
			if e != nil {
				panic(e)
			}
			inScale = ct.Scale
			target = x.cp.DefaultScale()
			pe := x.sckks
			var real *ckks.Evaluator
			if pe != nil {
				x.slog.tr = &tr
				real = x.slog.Evaluator.(*ckks.Evaluator)
			} else {
				real = ckks.NewEvaluator(x.cp, x.evk)
				pe = ckkspoly.NewEvaluator(x.cp, real)
				pe.Evaluator.Evaluator = &c13LogEval{Evaluator: real, tr: &tr, bgv: false}
			}
			pol, ok := mkPol()
			if !ok {
				return "err"
			}
			if cs.pre != nil {
				pb, ok := prefill(ct, real)
				if !ok {
					prefillFailed = true
					return "err"
				}
				out, err = pe.EvaluateFromPowerBasis(pb, pol, target)
			} else {
				out, err = pe.Evaluate(ct, pol, target)
			}
		}
		if err != nil {
			return "err"
		}
		return "ok"
	})
	_ = inScale
	if prefillFailed {
		c.Count("prefill-failed")
		return
	}
	// spec = the decrypted result is supposed to be p(x): constructor flags or flags that describe the
	// coefficients, and a basis holding what GenPower puts there
	spec := !(cs.flagsSet && !cs.truthful) && !cs.hasFresh()
	trs := "-"
	if len(tr) > 0 {
		trs = strings.Join(tr, ";")
	}
	deg := len(cs.polys[0]) - 1
	need := 0
	if deg >= 1 {
		need = int(math.Ceil(math.Log2(float64(deg + 1))))
	}
	c.Count(fmt.Sprintf("eval:%s:%s", x.scheme, status))
	c.Count(fmt.Sprintf("deg:%d", deg))
	line := fmt.Sprintf("tr=%s st=%s", trs, status)
	tag := fmt.Sprintf("%s logN=%d deg=%d cheb=%d lvl=%d", x.scheme, x.logN, deg, b2i(cs.cheb), cs.level)
	if cs.inv || cs.flagsSet || cs.pre != nil {
		tag += fmt.Sprintf(" inv=%d flags=%d%d%d pre=%d", b2i(cs.inv), b2i(cs.flagsSet), b2i(cs.odd), b2i(cs.even), len(cs.pre))
		c.Count(fmt.Sprintf("ext:inv=%d:flags=%d%d%d:pre=%v:%s", b2i(cs.inv), b2i(cs.flagsSet), b2i(cs.odd), b2i(cs.even), cs.pre != nil, status))
	}
	consumed := need
	if cs.inv {
		consumed = 0 // scale-invariant mode: no level is consumed
	}
	// the probe key of the case: the four findings of the extended quantifier have their own
	valueKey, okKey := "C13-value-wrong", "C13-enough-levels-refused"
	switch {
	case cs.flagsSet && !cs.odd && !cs.even:
		valueKey, okKey = "C13/flags-both-false-drops-constants", "C13/flags-both-false-drops-constants"
	case cs.flagsSet && !cs.odd && cs.even:
		valueKey, okKey = "C13/even-flag-degree0-accumulator", "C13/even-flag-degree0-accumulator"
	}
	if cs.pflags != nil {
		valueKey, okKey = "C13/vector-mixed-parity", "C13/vector-mixed-parity"
	}
	if cs.ctor != 0 {
		valueKey, okKey = "C13/bgv-polynomial-constructors", "C13/bgv-polynomial-constructors"
	}
	if cs.inv && deg >= 1 && cs.level < int(math.Ceil(math.Log2(float64(deg)))) {
		okKey = "C13/bfv-refuses-below-depth"
	}
	tooFewKey := "C13-too-few-levels"
	if status == "panic" && cs.pre != nil {
		okKey, tooFewKey = "C13/partial-power-basis-nil-deref", "C13/partial-power-basis-nil-deref"
	}
	if cs.pre != nil && !cs.hasFresh() {
		// a basis holding only some powers (generated, possibly deleted again): never a nil dereference
		d := ""
		if status == "panic" {
			d = "EvaluateFromPowerBasis panics on a partial basis: " + desc
		}
		c.Probe("partial_basis_no_panic", tag, "C13/partial-power-basis-nil-deref", d)
	}
	lazyPow2 := false // a power of two the caller generated lazily stays at degree 2: it cannot be multiplied again
	for _, p := range cs.pre {
		if !p.fresh && !p.del && p.lazy {
			lazyPow2 = true // (any power left at degree 2 may be multiplied again when Evaluate generates another one from it)
		}
	}
	if spec && cs.level >= consumed && !lazyPow2 && !(x.scheme == "ckks" && cs.lazy) {
		// enough levels (none is needed in the scale-invariant mode): the evaluation must succeed
		d := ""
		if status != "ok" {
			d = fmt.Sprintf("status=%s with %d levels, %d needed: %s", status, cs.level, consumed, desc)
		}
		c.Probe("enough_levels_ok", tag, okKey, d)
	}
	if status == "ok" {
		if x.scheme == "bgv" {
			u := make([]uint64, x.slots)
			if err := x.becd.Decode(x.dec.DecryptNew(out), u); err != nil {
				panic(err)
			}
			got := make([]int64, len(u))
			bad := ""
			for j := range u {
				got[j] = int64(u[j])
				want := int64(0)
				if p := x.polyOfSlot(cs, j); p != nil {
					want = x.refMod(p, cs.x[j])
				}
				if want != got[j] && bad == "" {
					bad = fmt.Sprintf("slot %d got %d want %d: %s", j, got[j], want, desc)
				}
			}
			vs := c12I64(got)
			if bad != "" && spec {
				// the tie is on "is the result the specified one": the model predicts exactly when it is not
				vs = "wrong"
				c.Count("eval:wrong-result")
			}
			line += fmt.Sprintf(" lvl=%d scale=%d vals=%s ps=%s", out.Level(), out.Scale.Uint64(), vs, vs)
			if spec {
				c.Probe("value_bgv", tag, valueKey, bad)
				d := ""
				if out.Scale.Cmp(target) != 0 {
					d = fmt.Sprintf("scale %d != target %d: %s", out.Scale.Uint64(), cs.tscale, desc)
				}
				c.Probe("scale_target", tag, "C13-target-scale", d)
			} else {
				// outside the specification (flags that do not describe the coefficients, IsOdd = IsEven = false,
				// a basis entry that GenPower did not produce): the decrypted values are tied to the model only
				if bad != "" {
					c.Count("nonspec:value-differs-from-p(x)")
				} else {
					c.Count("nonspec:value-is-p(x)")
				}
			}
		} else {
			z := make([]float64, x.slots)
			if err := x.cecd.Decode(x.dec.DecryptNew(out), z); err != nil {
				panic(err)
			}
			bad := ""
			maxe := 0.0
			for j := range z {
				want := 0.0
				if p := x.polyOfSlot(cs, j); p != nil {
					want = c13RefFloat(cs.cheb, p, float64(cs.x[j])/4)
				}
				e := math.Abs(z[j] - want)
				if e > maxe || math.IsNaN(e) {
					maxe = e
				}
				if !(e < 1.0/1024) && bad == "" {
					bad = fmt.Sprintf("slot %d got %g want %g: %s", j, z[j], want, desc)
				}
			}
			vs := "ok"
			if bad != "" {
				vs = "wrong"
				c.Count("eval:wrong-result")
			}
			line += fmt.Sprintf(" lvl=%d val=%s", out.Level(), vs)
			if cs.lazy {
				// holds once schemes/ckks/evaluator.go MulThenAdd keeps the accumulator's degree (C06-6/C06-7)
				c.Probe("value_ckks_lazy_2pow-10", tag, "C13/ckks-lazy-value", bad)
			} else {
				ck := "C13-ckks-value"
				if cs.pflags != nil {
					ck = "C13/vector-mixed-parity"
				}
				c.Probe("value_ckks_2pow-10", tag, ck, bad)
			}
			// out.scale = requested, relative error below 2^-30
			r := new(big.Float).Quo(&out.Scale.Value, &target.Value)
			rf, _ := r.Float64()
			d := ""
			if !(math.Abs(rf-1) < math.Pow(2, -30)) {
				d = fmt.Sprintf("scale ratio %g: %s", rf, desc)
			}
			c.Probe("scale_target", tag, "C13-target-scale", d)
		}
		if !cs.hasFresh() {
			d := ""
			if out.Level() != cs.level-consumed {
				d = fmt.Sprintf("out level %d, in %d, documented consumption %d: %s", out.Level(), cs.level, consumed, desc)
			}
			c.Probe("level_doc", tag, "C13-level-consumption", d)
		}
	}
	if deg == 0 {
		// degree 0 is within the property's quantifier: a constant polynomial must evaluate (or be refused), not panic
		d := ""
		if status == "panic" {
			d = "Evaluate panics on a constant polynomial: " + desc
		}
		k0 := "C13-degree0-panic"
		if cs.ctor != 0 {
			k0 = "C13/bgv-polynomial-constructors"
		}
		c.Probe("degree0_no_panic", tag, k0, d)
	}
	if cs.level < consumed {
		// an input with too few levels must be refused with an error
		d := ""
		if status != "err" {
			d = fmt.Sprintf("status=%s: %s", status, desc)
		}
		c.Probe("too_few_levels_err", tag, tooFewKey, d)
	}
	c.Emit(desc, line)
}

// ---------- generators ----------

func (x *c13Ctx) randPoly(c *Ctx, deg int, shape int) []int64 {
	p := make([]int64, deg+1)
	for i := range p {
		if x.scheme == "bgv" {
			p[i] = int64(c.rng.Below(x.t))
		} else {
			p[i] = int64(c.rng.Intn(5)) - 2
		}
	}
	switch shape {
	case 1: // odd
		for i := 0; i <= deg; i += 2 {
			p[i] = 0
		}
	case 2: // even
		for i := 1; i <= deg; i += 2 {
			p[i] = 0
		}
	case 3: // zero leading coefficient(s)
		p[deg] = 0
		if deg > 2 {
			p[deg-1] = 0
		}
	case 4: // zero trailing coefficients
		p[0] = 0
		if deg > 1 {
			p[1] = 0
		}
	}
	return p
}

func (x *c13Ctx) randX(c *Ctx) []int64 {
	v := make([]int64, x.slots)
	for i := range v {
		if x.scheme == "bgv" {
			v[i] = int64(c.rng.Below(x.t))
		} else {
			v[i] = int64(c.rng.Intn(9)) - 4
		}
	}
	return v
}

func (x *c13Ctx) sc(c *Ctx) uint64 {
	if x.scheme == "bgv" {
		if c.rng.Intn(3) == 0 {
			return 1
		}
		return 1 + c.rng.Below(x.t-1)
	}
	return 0
}

func genC13(c *Ctx) {
	c13Pure(c)
	c13Tables(c)
	c13BigT(c)
	c13LazyHighDegrees(c)
	c13Mod1(c)
	c13Mod1Sweep(c)
	c13Composite(c)
	maxDeg := c.Scale(31, 63)
	logNs := []int{5}
	if c.Thorough() {
		logNs = []int{5, 6, 7}
	}
	for _, scheme := range []string{"bgv", "ckks"} {
		for _, logN := range logNs {
			x := newC13Ctx(scheme, logN)
			L := x.rp.MaxLevel()
			for deg := 0; deg <= maxDeg; deg++ {
				need := 0
				if deg >= 1 {
					need = int(math.Ceil(math.Log2(float64(deg + 1))))
				}
				shapes := []int{0, 1 + c.rng.Intn(4)}
				if c.Thorough() {
					shapes = []int{0, 1, 2, 3, 4}
				}
				for _, shape := range shapes {
					bases := []bool{false}
					if scheme == "ckks" {
						bases = []bool{false, true}
					}
					for _, cheb := range bases {
						// levels: minimum-1 (must err), minimum, a random one, maximum
						lvls := map[int]bool{L: true}
						if need-1 >= 0 {
							lvls[need-1] = true
						}
						if need <= L {
							lvls[need] = true
							lvls[need+c.rng.Intn(L-need+1)] = true
						}
						for lvl := 0; lvl <= L; lvl++ {
							if !lvls[lvl] {
								continue
							}
							cs := &c13Case{cheb: cheb, lazy: c.rng.Intn(2) == 0, level: lvl, scale: x.sc(c), tscale: x.sc(c), x: x.randX(c)}
							cs.polys = [][]int64{x.randPoly(c, deg, shape)}
							x.runCase(c, cs)
						}
					}
				}
				// polynomial vectors with slot mappings (some slots unmapped)
				if deg >= 1 && (deg%4 == 1 || c.Thorough()) && need <= L {
					np := 2 + c.rng.Intn(2)
					cs := &c13Case{cheb: false, lazy: false, level: need + c.rng.Intn(L-need+1), scale: x.sc(c), tscale: x.sc(c), x: x.randX(c)}
					cs.mapping = make([][]int, np)
					for j := 0; j < x.slots; j++ {
						k := c.rng.Intn(np + 1)
						if k < np {
							cs.mapping[k] = append(cs.mapping[k], j)
						}
					}
					for i := 0; i < np; i++ {
						cs.polys = append(cs.polys, x.randPoly(c, deg, 0))
					}
					c.Count("vector-with-mapping")
					x.runCase(c, cs)
				}
			}
			c13Sequences(c, x)
			c13MixedParity(c, x)
			c13IntCoeffs(c, x)
			c13GenPower(c, x)
			c13Extensions(c, x)
			if scheme == "ckks" {
				c13SparseChebyshev(c, x)
				c13Chebyshev(c, x)
			}
		}
	}
}

// c13Extensions: (1) IsOdd/IsEven set by the user — every combination, with coefficients the flags
// describe ("truthful", value probed) and coefficients they do not (tied only); (2) EvaluateFromPowerBasis on a
// basis the caller filled: nothing but X, some powers (by GenPower, lazily or not), all powers, and
// entries GenPower did not produce (fresh encryptions of x^n at another level/scale: tied only);
// (3) bgv in the scale-invariant (BFV) mode: no level consumed.  Combinations of the three as well.
func c13Extensions(c *Ctx, x *c13Ctx) {
	L := x.rp.MaxLevel()
	maxDeg := c.Scale(24, 63)
	type fl struct{ set, odd, even bool }
	flagSets := []fl{{false, true, true}, {true, true, false}, {true, false, true}, {true, false, false}, {true, true, true}}
	for deg := 1; deg <= maxDeg; deg++ {
		if !c.Thorough() && deg > 9 && deg%3 != 0 && deg&(deg+1) != 0 && deg&(deg-1) != 0 {
			continue
		}
		need := int(math.Ceil(math.Log2(float64(deg + 1))))
		if need > L {
			continue
		}
		invs := []bool{false}
		if x.scheme == "bgv" {
			invs = []bool{false, true}
		}
		for _, inv := range invs {
			for fi, f := range flagSets {
				if x.scheme == "ckks" && f.set && !f.odd && !f.even {
					continue // values are tied for bgv only
				}
				for variant := 0; variant < 3; variant++ {
					// variant 0: Evaluate; 1: EvaluateFromPowerBasis, GenPower-filled; 2: with a foreign entry
					if variant == 0 && !inv && !f.set {
						continue // the plain case is genC13's
					}
					if variant == 2 && (x.scheme == "ckks" || deg < 2) {
						continue
					}
					if !c.Thorough() && variant > 0 && (fi+deg+variant)%2 == 0 {
						continue
					}
					truthful := true
					shape := 0
					switch {
					case f.set && f.odd && !f.even:
						shape = 1
					case f.set && !f.odd && f.even:
						shape = 2
					}
					if f.set && f.odd != f.even && x.scheme == "bgv" && c.rng.Intn(3) == 0 {
						shape, truthful = 0, false // flags that do not describe the coefficients
					}
					bases := []bool{false}
					if x.scheme == "ckks" {
						bases = []bool{false, true}
					}
					for _, cheb := range bases {
						lvl := need + c.rng.Intn(L-need+1)
						if dp := int(math.Ceil(math.Log2(float64(deg)))); inv && dp >= 3 && c.rng.Intn(3) == 0 {
							// below Depth(): no level is needed (one below: the modulus still holds the noise of the
							// scale-invariant products, which is absolute — a result at a much lower level does not decrypt)
							lvl = dp - 1
						}
						if !inv && c.rng.Intn(8) == 0 && need > 0 {
							lvl = need - 1
						}
						cs := &c13Case{cheb: cheb, lazy: c.rng.Intn(2) == 0, level: lvl, scale: x.sc(c), tscale: x.sc(c), x: x.randX(c),
							inv: inv, flagsSet: f.set, odd: f.odd, even: f.even, truthful: truthful}
						cs.polys = [][]int64{x.randPoly(c, deg, shape)}
						if variant > 0 {
							cs.pre = []c13Pre{}
							logDeg := bits.Len64(uint64(deg))
							split := 1 << bignum.OptimalSplit(logDeg)
							switch c.rng.Intn(4) {
							case 0: // nothing but X
							case 1: // some powers
								for k := 0; k < 1+c.rng.Intn(3); k++ {
									n := 2 + c.rng.Intn(1<<logDeg)
									cs.pre = append(cs.pre, c13Pre{n: n, lazy: c.rng.Intn(2) == 0})
								}
							case 2: // exactly what Evaluate would generate, in its order
								cs.pre = append(cs.pre, c13Pre{n: 1 << (logDeg - 1)})
								for i := split - 1; i > 2; i-- {
									cs.pre = append(cs.pre, c13Pre{n: i, lazy: cs.lazy})
								}
							default: // every power up to 2^logDeg, ascending, not lazy
								for n := 2; n <= 1<<logDeg; n++ {
									cs.pre = append(cs.pre, c13Pre{n: n})
								}
							}
							if c.rng.Intn(3) == 0 {
								// the caller dropped a power again: a basis holding X^4 without X^2, X^8 without X^4, …
								n := 2
								if c.rng.Intn(2) == 0 {
									n = 2 + c.rng.Intn(1<<logDeg)
								}
								cs.pre = append(cs.pre, c13Pre{n: n, del: true})
							}
							if variant == 2 {
								// a fresh encryption of x^n in place of / in addition to the generated powers
								n := 2 + c.rng.Intn(split)
								fl := c.rng.Intn(lvl + 1)
								if inv {
									// no rescaling in the scale-invariant mode: the noise of the products is absolute, a
									// result truncated to a much lower level does not decrypt
									fl = lvl
								}
								cs.pre = append(cs.pre, c13Pre{n: n, fresh: true, level: fl, scale: x.sc(c)})
							}
						}
						if deg%5 == 2 && variant < 2 && !cheb {
							// a vector of polynomials under a partial slot mapping
							np := 2
							cs.mapping = make([][]int, np)
							for j := 0; j < x.slots; j++ {
								if k := c.rng.Intn(np + 1); k < np {
									cs.mapping[k] = append(cs.mapping[k], j)
								}
							}
							cs.polys = append(cs.polys, x.randPoly(c, deg, shape))
						}
						x.runCase(c, cs)
					}
				}
			}
		}
	}
}

// c13BigT: bgv with a 55..60-bit plaintext modulus, polynomials built by the bgv wrappers NewPolynomial /
// NewPolynomialVector on BOTH bgv.Integer instantiations (uint64, int64), coefficients that float64 cannot represent:
// 2^53+1, 2^53-1, odd numbers in (2^53, t), t-1, t-2; for int64 also negative ones (-1, -(2^53+1), -(t-1)).
// Every slot is compared with the polynomial evaluated modulo t (exactly); trace, level and scale are tied.
func c13BigT(c *Ctx) {
	logN := 5
	bitsT := []int{58}
	if c.Thorough() {
		bitsT = []int{55, 57, 58, 59} // (the chain has the 60-bit primes)
	}
	for _, bt := range bitsT {
		g := ring.NewNTTFriendlyPrimesGenerator(uint64(bt), uint64(2<<logN))
		t, err := g.NextDownstreamPrime()
		if err != nil {
			panic(err)
		}
		// t is close to the primes of the chain: the result must stay two levels above the bottom to be decryptable
		x := newC13CtxLit("bgv", logN, t, []int{60, 60, 60, 60, 60, 60, 60}, []int{61}, nil, nil)
		L := x.rp.MaxLevel()
		special := func(k int, signed bool) int64 {
			vals := []int64{1<<53 + 1, 1<<53 - 1, int64(t) - 1, int64(t) - 2, 1<<53 + 1 + 2*int64(c.rng.Below((t-1<<53)/2-1)), 1<<54 + 3}
			if signed {
				vals = append(vals, -1, -(1<<53 + 1), -(int64(t) - 1), -int64(c.rng.Below(t)))
			}
			return vals[k%len(vals)]
		}
		for _, ctor := range []int{1, 2} {
			for _, deg := range []int{0, 1, 2, 3, 5, 7, 8, 12} {
				need := 0
				if deg >= 1 {
					need = int(math.Ceil(math.Log2(float64(deg + 1))))
				}
				if need+2 > L {
					continue
				}
				for rep := 0; rep < c.Scale(1, 3); rep++ {
					cs := &c13Case{lazy: c.rng.Intn(2) == 0, level: need + 2 + c.rng.Intn(L-need-1), scale: x.sc(c), tscale: x.sc(c), x: x.randX(c), ctor: ctor}
					np := 1
					if (deg+rep)%3 == 1 {
						np = 2
						cs.mapping = make([][]int, np)
						for j := 0; j < x.slots; j++ {
							if k := c.rng.Intn(np + 1); k < np {
								cs.mapping[k] = append(cs.mapping[k], j)
							}
						}
					}
					for i := 0; i < np; i++ {
						p := x.randPoly(c, deg, 0)
						off := c.rng.Intn(8)
						for k := range p {
							if (k+rep)%2 == 0 || k == deg {
								p[k] = special(k+off+i, ctor == 2)
							}
						}
						cs.polys = append(cs.polys, p)
					}
					c.Count(fmt.Sprintf("bigt:ctor%d", ctor))
					x.runCase(c, cs)
				}
			}
		}
	}
}

// c13GenPower: PowerBasis.GenPower(n, lazy, eval) called DIRECTLY on a fresh basis, every n <= 64, lazy and not,
// both bases (ckks).  Tie `genpower`: ordered trace, status, (level, ciphertext degree) of every stored power, the
// decrypted slot values of X^n (bgv).  Probes: genpower_ok (enough levels: no error), genpower_degree (every stored
// power has degree <= 2), genpower_value (X^n decrypts to x^n resp. T_n(x): bgv exactly, ckks 2^-10).
func c13GenPower(c *Ctx, x *c13Ctx) {
	L := x.rp.MaxLevel()
	bases := []bool{false}
	if x.scheme == "ckks" {
		bases = []bool{false, true}
	}
	for n := 1; n <= 64; n++ {
		need := int(math.Ceil(math.Log2(float64(n))))
		for _, cheb := range bases {
			for _, lazy := range []bool{true, false} {
				if !lazy && !c.Thorough() && n%4 != 1 {
					continue
				}
				lvls := []int{L}
				if need <= L && need < L && (c.Thorough() || n%3 == 0) {
					lvls = append(lvls, need)
				}
				if need >= 1 && (c.Thorough() || n%5 == 0) {
					lvls = append(lvls, need-1) // one level short: an error, not a panic
				}
				for _, lvl := range lvls {
					x.runGenPower(c, n, lazy, cheb, lvl, need)
				}
			}
		}
	}
}

func (x *c13Ctx) runGenPower(c *Ctx, n int, lazy, cheb bool, lvl, need int) {
	xs := x.randX(c)
	scale := x.sc(c)
	qs := make([]uint64, 0)
	for _, q := range x.rp.Q() {
		if x.t != 0 {
			qs = append(qs, q%x.t)
		} else {
			qs = append(qs, 0)
		}
	}
	xstr := "-"
	if x.scheme == "bgv" {
		xstr = c12I64(xs)
	}
	desc := fmt.Sprintf("genpower t=%d q=%s slots=%d cheb=%d lvl=%d scale=%d x=%s n=%d lazy=%d", x.t, Vec(qs), x.slots, b2i(cheb), lvl, scale, xstr, n, b2i(lazy))
	tag := fmt.Sprintf("%s logN=%d n=%d lazy=%d cheb=%d lvl=%d", x.scheme, x.logN, n, b2i(lazy), b2i(cheb), lvl)
	basis := bignum.Monomial
	if cheb {
		basis = bignum.Chebyshev
	}
	var tr []string
	var ct *rlwe.Ciphertext
	var ev schemes.Evaluator
	if x.scheme == "bgv" {
		pt := bgv.NewPlaintext(x.bp, lvl)
		pt.Scale = x.bp.NewScale(scale)
		if err := x.becd.Encode(xs, pt); err != nil {
			panic(err)
		}
		ct, _ = x.enc.EncryptNew(pt)
		ev = &c13LogEval{Evaluator: bgv.NewEvaluator(x.bp, x.evk), tr: &tr, bgv: true}
	} else {
		pt := ckks.NewPlaintext(x.cp, lvl)
		z := make([]float64, x.slots)
		for i := range z {
			z[i] = float64(xs[i]) / 4
		}
		if err := x.cecd.Encode(z, pt); err != nil {
			panic(err)
		}
		ct, _ = x.enc.EncryptNew(pt)
		ev = &c13LogEval{Evaluator: ckks.NewEvaluator(x.cp, x.evk), tr: &tr, bgv: false}
	}
	pb := cpoly.NewPowerBasis(ct, basis)
	errText := ""
	status := Try(func() string {
		if err := pb.GenPower(n, lazy, ev); err != nil {
			errText = err.Error()
			return "err"
		}
		return "ok"
	})
	trs := "-"
	if len(tr) > 0 {
		trs = strings.Join(tr, ";")
	}
	var parts []string
	maxDeg := 0
	for k := 0; k <= n; k++ {
		if p, ok := pb.Value[k]; ok && p != nil {
			parts = append(parts, fmt.Sprintf("%d:%d:%d", k, p.Level(), p.Degree()))
			if p.Degree() > maxDeg {
				maxDeg = p.Degree()
			}
		}
	}
	line := fmt.Sprintf("tr=%s st=%s pb=%s", trs, status, strings.Join(parts, ","))
	c.Count(fmt.Sprintf("genpower:%s:lazy%d:%s", x.scheme, b2i(lazy), status))
	if lvl >= need {
		d := ""
		if status != "ok" {
			d = fmt.Sprintf("status=%s (%s) with %d levels, %d needed: %s", status, errText, lvl, need, desc)
		}
		c.Probe("genpower_ok", tag, "C13/lazy-genpower", d)
	} else {
		d := ""
		if status == "panic" {
			d = "GenPower panics with too few levels: " + desc
		}
		c.Probe("genpower_too_few_levels_no_panic", tag, "C13/lazy-genpower", d)
	}
	d := ""
	if maxDeg > 2 {
		d = fmt.Sprintf("a stored power has degree %d: %s", maxDeg, desc)
	}
	c.Probe("genpower_degree", tag, "C13/lazy-genpower", d)
	if status == "ok" {
		out := pb.Value[n]
		bad := ""
		if x.scheme == "bgv" {
			u := make([]uint64, x.slots)
			if err := x.becd.Decode(x.dec.DecryptNew(out), u); err != nil {
				panic(err)
			}
			got := make([]int64, len(u))
			for j := range u {
				got[j] = int64(u[j])
				w := uint64(1)
				for k := 0; k < n; k++ {
					w = c13MulMod(w, uint64(xs[j]), x.t)
				}
				if int64(w) != got[j] && bad == "" {
					bad = fmt.Sprintf("slot %d got %d want %d: %s", j, got[j], w, desc)
				}
			}
			line += " val=" + c12I64(got)
		} else {
			z := make([]float64, x.slots)
			if err := x.cecd.Decode(x.dec.DecryptNew(out), z); err != nil {
				panic(err)
			}
			for j := range z {
				v := float64(xs[j]) / 4
				w := math.Pow(v, float64(n))
				if cheb {
					w = math.Cos(float64(n) * math.Acos(v))
				}
				if !(math.Abs(z[j]-w) < 1.0/1024) && bad == "" {
					bad = fmt.Sprintf("slot %d got %g want %g: %s", j, z[j], w, desc)
				}
			}
		}
		c.Probe("genpower_value", tag, "C13/lazy-genpower", bad)
	}
	c.Emit(desc, line)
}

// c13LazyHighDegrees: Lazy = true polynomials of degrees 64 ... 255 (both bases for ckks) on a chain of ten primes:
// the baby steps there are the first ones whose lazy generation multiplies a factor b = n+1-2^k that is itself a lazily
// generated (degree-2) power.  Trace, levels, scale and values tied; value and enough_levels_ok probes as everywhere.
func c13LazyHighDegrees(c *Ctx) {
	degs := []int{64, 65, 96, 100, 127, 128, 129, 192, 255}
	if c.Thorough() {
		degs = nil
		for d := 64; d <= 255; d += 1 + (d % 3) {
			degs = append(degs, d)
		}
		degs = append(degs, 255)
	}
	for _, scheme := range []string{"bgv", "ckks"} {
		x := newC13CtxLit(scheme, 5, 65537, []int{56, 46, 46, 46, 46, 46, 46, 46, 46, 46}, []int{57, 57},
			[]int{55, 40, 40, 40, 40, 40, 40, 40, 40, 40}, []int{61})
		L := x.rp.MaxLevel()
		bases := []bool{false}
		if scheme == "ckks" {
			bases = []bool{false, true}
		}
		for _, deg := range degs {
			need := int(math.Ceil(math.Log2(float64(deg + 1))))
			for _, cheb := range bases {
				for _, lazy := range []bool{true, false} {
					if !lazy && !c.Thorough() && deg%32 != 0 {
						continue
					}
					lvl := L
					if c.rng.Intn(2) == 0 {
						lvl = need + c.rng.Intn(L-need+1)
					}
					cs := &c13Case{cheb: cheb, lazy: lazy, level: lvl, scale: x.sc(c), tscale: x.sc(c), x: x.randX(c)}
					shape := 0
					if deg%2 == 1 && c.rng.Intn(3) == 0 {
						shape = 1
					}
					cs.polys = [][]int64{x.randPoly(c, deg, shape)}
					c.Count(fmt.Sprintf("lazy-high-degree:%s:lazy%d", scheme, b2i(lazy)))
					x.runCase(c, cs)
				}
			}
		}
	}
}

// c13IntCoeffs: bgv polynomials (t = 65537) through the bgv wrappers with coefficients that are NOT reduced
// representatives: int64 with |c| in {t, t+1, 2t+3, 70000, 2^62, ...} of both signs, uint64 up to 2^64-1; single
// polynomials and vectors, lazy and not.  c stands for c mod t: every slot compared exactly.
func c13IntCoeffs(c *Ctx, x *c13Ctx) {
	if x.scheme != "bgv" {
		return
	}
	L := x.rp.MaxLevel()
	t := int64(x.t)
	mags := []int64{t, t + 1, 2*t + 3, 70000, 1 << 62, 3*t - 1, 1<<53 + 1, t - 1, 1<<62 + 12345}
	for _, ctor := range []int{2, 1} {
		for _, deg := range []int{0, 1, 2, 3, 6, 9, 17} {
			need := 0
			if deg >= 1 {
				need = int(math.Ceil(math.Log2(float64(deg + 1))))
			}
			for rep := 0; rep < c.Scale(2, 4); rep++ {
				cs := &c13Case{lazy: rep%2 == 0, level: need + c.rng.Intn(L-need+1), scale: x.sc(c), tscale: x.sc(c), x: x.randX(c), ctor: ctor}
				np := 1
				if rep%2 == 1 && deg >= 1 {
					np = 2
					cs.mapping = make([][]int, np)
					for j := 0; j < x.slots; j++ {
						if k := c.rng.Intn(np + 1); k < np {
							cs.mapping[k] = append(cs.mapping[k], j)
						}
					}
				}
				for i := 0; i < np; i++ {
					p := make([]int64, deg+1)
					for k := range p {
						m := mags[(k+rep+i+c.rng.Intn(3))%len(mags)]
						if ctor == 2 && (k+i+rep)%2 == 0 {
							m = -m
						}
						p[k] = m
					}
					if ctor == 1 {
						u := c13U64(p)
						if deg >= 1 {
							u[1] = ^uint64(0) - c.rng.Below(3)
						}
						u[0] = 1<<63 + c.rng.Below(1<<40)
						for k := range u {
							p[k] = int64(u[k] % x.t)
						}
						cs.rawU = append(cs.rawU, u)
					}
					cs.polys = append(cs.polys, p)
				}
				c.Count(fmt.Sprintf("intcoeffs:ctor%d", ctor))
				x.runCase(c, cs)
			}
		}
	}
}

// c13MixedParity: ONE vector whose polynomials carry DIFFERENT parity flags, each describing its own coefficients:
// general (flags both set — the constructor's default — or both cleared), odd (IsEven = false, even coefficients 0),
// even (IsOdd = false) in every combination of two (thorough: also three) members, both bases, partial mappings.
// Every slot is checked against ITS polynomial (bgv exactly, ckks 2^-10); trace, level and scale are tied.
func c13MixedParity(c *Ctx, x *c13Ctx) {
	L := x.rp.MaxLevel()
	kinds := [][2]bool{{true, true}, {false, false}, {true, false}, {false, true}}
	degs := []int{2, 3, 5, 8, 12, 15}
	if c.Thorough() {
		degs = []int{1, 2, 3, 4, 5, 7, 8, 9, 12, 15, 16, 24, 31, 33, 63}
	}
	bases := []bool{false}
	if x.scheme == "ckks" {
		bases = []bool{false, true}
	}
	for _, deg := range degs {
		need := int(math.Ceil(math.Log2(float64(deg + 1))))
		if need > L {
			continue
		}
		for _, cheb := range bases {
			for a := range kinds {
				for b := range kinds {
					if !c.Thorough() && (a+b+deg)%2 == 1 && a != b {
						continue
					}
					fl := [][2]bool{kinds[a], kinds[b]}
					if c.Thorough() && (a+2*b+deg)%5 == 0 {
						fl = append(fl, kinds[c.rng.Intn(4)])
					}
					if x.scheme == "ckks" && cheb && deg < 2 {
						continue
					}
					cs := &c13Case{cheb: cheb, lazy: c.rng.Intn(2) == 0 && x.scheme == "bgv", level: need + c.rng.Intn(L-need+1),
						scale: x.sc(c), tscale: x.sc(c), x: x.randX(c), pflags: fl, truthful: true}
					cs.mapping = make([][]int, len(fl))
					for j := 0; j < x.slots; j++ {
						if k := c.rng.Intn(len(fl) + 1); k < len(fl) {
							cs.mapping[k] = append(cs.mapping[k], j)
						}
					}
					for i := range fl {
						shape := 0
						if fl[i][0] && !fl[i][1] {
							shape = 1 // odd
						} else if !fl[i][0] && fl[i][1] {
							shape = 2 // even
						}
						cs.polys = append(cs.polys, x.randPoly(c, deg, shape))
					}
					c.Count("mixed-parity-vector")
					x.runCase(c, cs)
				}
			}
		}
	}
}

// c13Sequences: several polynomial-vector evaluations with DIFFERENT (partial) slot mappings on ONE
// polynomial evaluator.  The evaluator's CoefficientGetter fills a buffer it owns: slots a mapping does
// not cover must evaluate to 0 whatever the previous evaluation left there (every slot is probed).
func c13Sequences(c *Ctx, x *c13Ctx) {
	L := x.rp.MaxLevel()
	nseq := c.Scale(2, 8)
	for it := 0; it < nseq; it++ {
		tr := []string{}
		if x.scheme == "bgv" {
			real := bgv.NewEvaluator(x.bp, x.evk)
			x.sbgv = bgvpoly.NewEvaluator(x.bp, real)
			x.slog = &c13LogEval{Evaluator: real, tr: &tr, bgv: true}
			x.sbgv.Evaluator.Evaluator = x.slog
		} else {
			real := ckks.NewEvaluator(x.cp, x.evk)
			x.sckks = ckkspoly.NewEvaluator(x.cp, real)
			x.slog = &c13LogEval{Evaluator: real, tr: &tr, bgv: false}
			x.sckks.Evaluator.Evaluator = x.slog
		}
		deg := 1 + c.rng.Intn(7)
		need := int(math.Ceil(math.Log2(float64(deg + 1))))
		steps := 2 + c.rng.Intn(2)
		for k := 0; k < steps; k++ {
			cs := &c13Case{cheb: false, lazy: false, level: need + c.rng.Intn(L-need+1), scale: x.sc(c), tscale: x.sc(c), x: x.randX(c)}
			np := 1 + c.rng.Intn(2)
			cs.mapping = make([][]int, np)
			for j := 0; j < x.slots; j++ {
				var pick int
				switch (it + k) % 3 {
				case 0: // even slots only
					pick = -1
					if j%2 == 0 {
						pick = j / 2 % np
					}
				case 1: // odd slots only
					pick = -1
					if j%2 == 1 {
						pick = j / 2 % np
					}
				default: // random partial
					pick = c.rng.Intn(np+1) - 1
				}
				if pick >= 0 {
					cs.mapping[pick] = append(cs.mapping[pick], j)
				}
			}
			for i := 0; i < np; i++ {
				// non-zero coefficients everywhere, so that a stale entry is visible
				p := x.randPoly(c, deg, 0)
				for q := range p {
					if p[q] == 0 {
						p[q] = 1
					}
				}
				cs.polys = append(cs.polys, p)
			}
			c.Count("sequence-on-one-evaluator")
			x.runCase(c, cs)
		}
		x.sbgv, x.sckks, x.slog = nil, nil, nil
	}
}

// c13SparseChebyshev (probes only): Chebyshev-basis polynomials stored the way circuits/ckks/mod1 stores
// odd polynomials — `Coeffs[i] == nil` (not a zero value) for the skipped parity, IsOdd/IsEven set
// accordingly — so that Factorize takes its "remainder coefficient is nil" paths.
func c13SparseChebyshev(c *Ctx, x *c13Ctx) {
	L := x.rp.MaxLevel()
	maxDeg := c.Scale(31, 63)
	for deg := 4; deg <= maxDeg; deg++ {
		if !c.Thorough() && deg%3 == 0 {
			continue
		}
		need := int(math.Ceil(math.Log2(float64(deg + 1))))
		if need > L {
			continue
		}
		odd := deg%2 == 1
		// first split power of recursePS
		logSplit := bignum.OptimalSplit(bits.Len64(uint64(deg)))
		np := 1 << logSplit
		for np < (deg>>1)+1 {
			np <<= 1
		}
		coeffs := make([]int64, deg+1)
		absent := make([]bool, deg+1)
		for i := range coeffs {
			if (i%2 == 1) != odd {
				absent[i] = true // the skipped parity, as mod1 stores it
				continue
			}
			coeffs[i] = int64(c.rng.Intn(5)) - 2
			if coeffs[i] == 0 {
				coeffs[i] = 1
			}
		}
		// like 0.5*T5 + 0.25*T7: low-order entries of the active parity absent where the mirrored
		// high-order entry (2*np - i) is present, so that the remainder entry is created by Factorize
		for i := 0; i < np && i <= deg; i++ {
			if !absent[i] && 2*np-i <= deg && deg >= np && c.rng.Intn(3) != 0 {
				absent[i] = true
				coeffs[i] = 0
			}
		}
		f := make([]float64, deg+1)
		for i := range f {
			f[i] = float64(coeffs[i])
		}
		bp := bignum.NewPolynomial(bignum.Chebyshev, f, [2]float64{-1, 1})
		for i := range bp.Coeffs {
			if absent[i] {
				bp.Coeffs[i] = nil
			}
		}
		bp.IsOdd, bp.IsEven = odd, !odd
		xs := x.randX(c)
		lvl := need + c.rng.Intn(L-need+1)
		tag := fmt.Sprintf("ckks logN=%d deg=%d odd=%d lvl=%d coeffs=%s x4=%s", x.logN, deg, b2i(odd), lvl, c12I64(coeffs), c12I64(xs))
		bad := ""
		status := Try(func() string {
			pt := ckks.NewPlaintext(x.cp, lvl)
			z := make([]float64, x.slots)
			for i := range z {
				z[i] = float64(xs[i]) / 4
			}
			if err := x.cecd.Encode(z, pt); err != nil {
				panic(err)
			}
			ct, err := x.enc.EncryptNew(pt)
			if err != nil {
				panic(err)
			}
			pe := ckkspoly.NewEvaluator(x.cp, ckks.NewEvaluator(x.cp, x.evk))
			out, err := pe.Evaluate(ct, cpoly.NewPolynomial(bp), x.cp.DefaultScale())
			if err != nil {
				return "err"
			}
			got := make([]float64, x.slots)
			if err := x.cecd.Decode(x.dec.DecryptNew(out), got); err != nil {
				panic(err)
			}
			for j := range got {
				want := c13RefFloat(true, coeffs, z[j])
				if !(math.Abs(got[j]-want) < 1.0/1024) && bad == "" {
					bad = fmt.Sprintf("slot %d got %g want %g", j, got[j], want)
				}
			}
			if out.Level() != lvl-need && bad == "" {
				bad = fmt.Sprintf("out level %d, in %d, documented consumption %d", out.Level(), lvl, need)
			}
			return "ok"
		})
		if status != "ok" {
			bad = "status=" + status
		}
		c.Count("sparse-chebyshev:" + status)
		c.Probe("value_ckks_sparse_chebyshev", tag, "C13-ckks-sparse-chebyshev", bad)
	}
}

func c13Pure(c *Ctx) {
	for n := 1; n <= c.Scale(130, 1100); n++ {
		a, b := cpoly.SplitDegree(n)
		c.Emit(fmt.Sprintf("split %d", n), fmt.Sprintf("%d %d", a, b))
	}
	for ld := 0; ld <= 20; ld++ {
		ldc := ld
		c.Emit(fmt.Sprintf("optsplit %d", ld), Try(func() string { return I(bignum.OptimalSplit(ldc)) }))
	}
	for d := 1; d <= c.Scale(70, 600); d++ {
		p := bignum.NewPolynomial(bignum.Monomial, make([]float64, d+1), nil)
		c.Emit(fmt.Sprintf("depth %d", d), I(p.Depth()))
	}
	for it := 0; it < c.Scale(200, 2000); it++ {
		deg := 1 + c.rng.Intn(40)
		cheb := c.rng.Intn(2) == 1
		// Factorize requires n >= deg/2 (else it panics) and n <= deg
		// n from below the guard (must panic with the guard's message) up to the degree
		lo := (deg+1)>>1 - 1
		if lo < 1 {
			lo = 1
		}
		if deg%2 == 1 && deg > 1 && it%10 == 0 {
			// the guard must cover n = deg>>1 for odd degrees (the Chebyshev branch indexes pr.Coeffs[n-j], j <= deg-n)
			fb := make([]float64, deg+1)
			pb := bignum.NewPolynomial(bignum.Chebyshev, fb, [2]float64{-1, 1})
			d := ""
			func() {
				defer func() {
					if r := recover(); r != nil {
						if _, isStr := r.(string); !isStr {
							d = fmt.Sprintf("Chebyshev degree %d Factorize(%d): run-time panic instead of the guard", deg, deg>>1)
						}
					}
				}()
				pb.Factorize(deg >> 1)
			}()
			c.Probe("factorize_guard", fmt.Sprintf("%d %d", deg, deg>>1), "C13-factorize-guard", d)
		}
		n := lo + c.rng.Intn(deg-lo+1)
		f := make([]float64, deg+1)
		in := make([]int64, deg+1)
		for i := range f {
			in[i] = int64(c.rng.Intn(2001)) - 1000
			if c.rng.Intn(5) == 0 {
				in[i] = 0
			}
			f[i] = float64(in[i])
		}
		basis := bignum.Monomial
		if cheb {
			basis = bignum.Chebyshev
		}
		// nil (absent) coefficient entries: none / odd-only / even-only / low half absent / random
		switch it % 6 {
		case 1, 2:
			for i := range in {
				if i%2 == it%6-1 {
					in[i] = 0
				}
			}
		case 3:
			for i := 0; i < (deg+1)/2; i++ {
				in[i] = 0
			}
		case 4:
			for i := range in {
				if c.rng.Intn(2) == 0 {
					in[i] = 0
				}
			}
		}
		for i := range f {
			f[i] = float64(in[i])
		}
		p := bignum.NewPolynomial(basis, f, [2]float64{-1, 1})
		if it%6 != 0 && it%6 != 5 {
			for i := range p.Coeffs {
				if in[i] == 0 {
					p.Coeffs[i] = nil // the model treats an absent coefficient as 0
				}
			}
			c.Count("factorize:nil-entries")
		}
		out := Try(func() string {
			q, r := p.Factorize(n)
			toI := func(pp bignum.Polynomial) []int64 {
				v := make([]int64, len(pp.Coeffs))
				for i, cc := range pp.Coeffs {
					if cc != nil {
						fl, _ := cc[0].Float64()
						v[i] = int64(math.Round(fl))
					}
				}
				return v
			}
			return c12I64(toI(q)) + " " + c12I64(toI(r))
		})
		c.Emit(fmt.Sprintf("factorize %d %d %s", b2i(cheb), n, c12I64(in)), out)
	}
}
