package main

// C20 round 6: (a) out-of-place variants of the rgsw package functions into junk-filled receivers, against
// coefficient-wise references; (b) rgsw.Encryptor histories (one encryptor, plaintext OBJECTS re-filled between calls,
// receivers reused, several plaintexts interleaved).

import (
	"fmt"

	"github.com/tuneinsight/lattigo/v6/core/rgsw"
	"github.com/tuneinsight/lattigo/v6/core/rlwe"
)

// c20RGSWFlat: every coefficient of every component reduced modulo its own modulus (raw: not reduced).
func c20RGSWFlat(ps *c20PS, x *rgsw.Ciphertext, reduce bool) []uint64 {
	var out []uint64
	for u := 0; u < 2; u++ {
		for i := range x.Value[u].Value {
			for j := range x.Value[u].Value[i] {
				for k := 0; k < 2; k++ {
					p := x.Value[u].Value[i][j][k]
					for l, row := range p.Q.Coeffs {
						for _, v := range row {
							if reduce {
								v %= ps.Q[l]
							}
							out = append(out, v)
						}
					}
					for l, row := range p.P.Coeffs {
						for _, v := range row {
							if reduce {
								v %= ps.P[l]
							}
							out = append(out, v)
						}
					}
				}
			}
		}
	}
	return out
}

// c20RGSWModuli: the modulus of every entry of c20RGSWFlat.
func c20RGSWModuli(ps *c20PS, x *rgsw.Ciphertext) []uint64 {
	var out []uint64
	for u := 0; u < 2; u++ {
		for i := range x.Value[u].Value {
			for j := range x.Value[u].Value[i] {
				for k := 0; k < 2; k++ {
					p := x.Value[u].Value[i][j][k]
					for l, row := range p.Q.Coeffs {
						for range row {
							out = append(out, ps.Q[l])
						}
					}
					for l, row := range p.P.Coeffs {
						for range row {
							out = append(out, ps.P[l])
						}
					}
				}
			}
		}
	}
	return out
}

// c20JunkRGSW: a fresh ciphertext whose previous content is arbitrary reduced residues.
func c20JunkRGSW(c *Ctx, ps *c20PS, lq, lp, w int) *rgsw.Ciphertext {
	x := rgsw.NewCiphertext(ps.params, lq, lp, w)
	for u := 0; u < 2; u++ {
		for i := range x.Value[u].Value {
			for j := range x.Value[u].Value[i] {
				for k := 0; k < 2; k++ {
					p := x.Value[u].Value[i][j][k]
					for l, row := range p.Q.Coeffs {
						for t := range row {
							row[t] = c.rng.Below(ps.Q[l])
						}
					}
					for l, row := range p.P.Coeffs {
						for t := range row {
							row[t] = c.rng.Below(ps.P[l])
						}
					}
				}
			}
		}
	}
	return x
}

func c20FlatDiff(a, b []uint64) string {
	if len(a) != len(b) {
		return fmt.Sprintf("sizes %d and %d", len(a), len(b))
	}
	n := 0
	first := -1
	for i := range a {
		if a[i] != b[i] {
			if first < 0 {
				first = i
			}
			n++
		}
	}
	if n == 0 {
		return ""
	}
	return fmt.Sprintf("%d of %d words differ (first at %d: %d, expected %d)", n, len(a), first, a[first], b[first])
}

func c20AddMod(a, b, m []uint64) []uint64 {
	out := make([]uint64, len(a))
	for i := range a {
		out[i] = (a[i]%m[i] + b[i]%m[i]) % m[i]
	}
	return out
}

// c20OutOfPlace: Reduce / MulByXPowAlphaMinusOneLazy into junk-filled receivers, AddLazy / ...ThenAddLazy on
// receivers distinct from the operand, against coefficient-wise references (independent of the in-place calls).
func c20OutOfPlace(c *Ctx, ps *c20PS, sk *rlwe.SecretKey, sInts []int64, rgA *rgsw.Ciphertext, gA []int64, rgB *rgsw.Ciphertext, gB []int64, lq, lp, w int, par string) {
	n := ps.N()
	ringQP := ps.params.RingQP().AtLevel(lq, lp)
	copyRGSW := func(x *rgsw.Ciphertext) *rgsw.Ciphertext {
		return &rgsw.Ciphertext{Value: [2]rlwe.GadgetCiphertext{*x.Value[0].CopyNew(), *x.Value[1].CopyNew()}}
	}
	mods := c20RGSWModuli(ps, rgA)
	probe := func(fn, detail string) {
		c.Probe("rgsw_out_of_place", fmt.Sprintf("%s fn=%s seed=%d line=%d", par, fn, c.Seed, c.N), "rgsw-out-of-place", detail)
	}
	// AddLazy: opOut (a copy of A) += B
	sum := copyRGSW(rgA)
	rgsw.AddLazy(rgB, ringQP, sum)
	wantSum := c20AddMod(c20RGSWFlat(ps, rgA, true), c20RGSWFlat(ps, rgB, true), mods)
	probe("AddLazy", c20FlatDiff(c20RGSWFlat(ps, sum, true), wantSum))
	// Reduce out of place into a junk-filled receiver: reduced, congruent to the input, input untouched
	{
		out := c20JunkRGSW(c, ps, lq, lp, w)
		inSnap := c20SnapRGSW(sum)
		rgsw.Reduce(sum, ringQP, out)
		d := c20FlatDiff(c20RGSWFlat(ps, out, false), wantSum)
		if d == "" && c20SnapRGSW(sum) != inSnap {
			d = "ctIn was modified"
		}
		probe("Reduce", d)
		c20HomProbe(c, ps, sk, sInts, out, c20AddInts(gA, gB), lq, lp, w, 2, "rgsw_add", par+" via=ReduceOutOfPlace")
	}
	// MulByXPowAlphaMinusOneLazy out of place (junk receiver) = in place, modulo the moduli
	alpha := 1 + c.rng.Intn(2*n-1)
	xm1 := c20XPowMinusOne(ps, lq, lp, alpha)
	inpl := copyRGSW(rgA)
	rgsw.MulByXPowAlphaMinusOneLazy(inpl, xm1, ringQP, inpl)
	oop := c20JunkRGSW(c, ps, lq, lp, w)
	rgsw.MulByXPowAlphaMinusOneLazy(rgA, xm1, ringQP, oop)
	wantProd := c20RGSWFlat(ps, oop, true)
	probe("MulByXPowAlphaMinusOneLazy", c20FlatDiff(c20RGSWFlat(ps, inpl, true), wantProd))
	{
		red := c20JunkRGSW(c, ps, lq, lp, w)
		rgsw.Reduce(oop, ringQP, red)
		probe("MulByXPowAlphaMinusOneLazy+Reduce", c20FlatDiff(c20RGSWFlat(ps, red, false), wantProd))
		c20HomProbe(c, ps, sk, sInts, red, c20MulXm1Ints(gA, alpha), lq, lp, w, 2, "rgsw_mulxminus1", par+" via=OutOfPlace")
	}
	// MulByXPowAlphaMinusOneThenAddLazy: opOut (a copy of B) += A (X^alpha - 1)
	acc := copyRGSW(rgB)
	rgsw.MulByXPowAlphaMinusOneThenAddLazy(rgA, xm1, ringQP, acc)
	probe("MulByXPowAlphaMinusOneThenAddLazy", c20FlatDiff(c20RGSWFlat(ps, acc, true), c20AddMod(c20RGSWFlat(ps, rgB, true), wantProd, mods)))
}

func c20AddInts(a, b []int64) []int64 {
	out := make([]int64, len(a))
	for i := range a {
		out[i] = a[i] + b[i]
	}
	return out
}

// c20FillPlaintext overwrites the polynomial of an EXISTING plaintext object with g (same flags).
func (ps *c20PS) fillPlaintext(pt *rlwe.Plaintext, g []int64, lq int) {
	fresh := ps.rgswPlaintext(g, lq, pt.IsNTT, pt.IsMontgomery)
	for i := range fresh.Value.Coeffs {
		copy(pt.Value.Coeffs[i], fresh.Value.Coeffs[i])
	}
}

// c20GenEncHistory: ONE rgsw.Encryptor over a sequence of calls; every resulting ciphertext's rows decrypt to the
// plaintext that was in the object AT THE TIME of its call.
func c20GenEncHistory(c *Ctx) {
	pg := newC20PrimeGen()
	type hc struct {
		logN   int
		bq, bp []int
		w      int
	}
	cfgs := []hc{{4, []int{30}, []int{41}, 7}, {4, []int{28, 30}, []int{40, 41}, 0}, {4, []int{27}, nil, 7}}
	if c.Thorough() {
		cfgs = append(cfgs, hc{5, []int{30, 31}, []int{42}, 12}, hc{4, []int{45}, []int{50}, 16}, hc{4, []int{27, 28}, nil, 4})
	}
	flags := [][2]bool{{false, false}, {true, false}, {false, true}}
	for ci, cfg := range cfgs {
		nth := uint64(2 << cfg.logN)
		var Q, P []uint64
		for _, b := range cfg.bq {
			Q = append(Q, pg.next(b, nth, -1))
		}
		for _, b := range cfg.bp {
			P = append(P, pg.next(b, nth, 0))
		}
		ps, err := c20NewPS(cfg.logN, Q, P)
		if err != nil {
			c.Count("enchist:params-rejected")
			continue
		}
		sk := rlwe.NewKeyGenerator(ps.params).GenSecretKeyNew()
		lq, lp, w := len(Q)-1, len(P)-1, cfg.w
		n := ps.N()
		par := c20ParTokens(ps, lq, lp, w)
		enc := rgsw.NewEncryptor(ps.params, sk)
		bound := uint64(ps.params.NoiseBound()) + 1
		// plaintext objects (one per flag combination) and receivers
		pts := make([]*rlwe.Plaintext, 3)
		cur := make([][]int64, 3)
		for k := range pts {
			cur[k] = c20Message(c, n, (ci+k)%5)
			f := flags[(ci+k)%3]
			pts[k] = ps.rgswPlaintext(cur[k], lq, f[0], f[1])
		}
		cts := []*rgsw.Ciphertext{rgsw.NewCiphertext(ps.params, lq, lp, w), rgsw.NewCiphertext(ps.params, lq, lp, w), c20JunkRGSW(c, ps, lq, lp, w)}
		// steps: (plaintext object, refill before the call?, receiver)
		type step struct {
			pt     int
			refill bool
			ct     int
		}
		seq := []step{{0, false, 0}, {0, true, 1}, {0, true, 0}, {1, false, 2}, {0, false, 1}, {1, true, 1}, {2, false, 0}, {0, true, 2}, {2, true, 2}, {1, false, 0}, {0, false, 0}}
		if c.Thorough() {
			for k := 0; k < 12; k++ {
				seq = append(seq, step{c.rng.Intn(3), c.rng.Intn(2) == 0, c.rng.Intn(3)})
			}
		}
		hist := ""
		for si, st := range seq {
			if st.refill {
				cur[st.pt] = c20Message(c, n, c.rng.Intn(5))
				ps.fillPlaintext(pts[st.pt], cur[st.pt], lq)
			}
			hist += fmt.Sprintf("(pt%d%s->ct%d)", st.pt, map[bool]string{true: "*", false: ""}[st.refill], st.ct)
			ptSnap := c20SnapPoly(pts[st.pt].Value)
			res := Try(func() string {
				if err := enc.Encrypt(pts[st.pt], cts[st.ct]); err != nil {
					return "err: " + err.Error()
				}
				return "ok"
			})
			detail := ""
			if res != "ok" {
				detail = "Encrypt -> " + res
			} else if worst := c20RowErr(ps, sk, cts[st.ct], cur[st.pt], w); worst > bound {
				detail = fmt.Sprintf("step %d of %s: the rows do not decrypt to the plaintext currently held by the object: max row error %d, bound %d", si, hist, worst, bound)
				// which earlier content does it decrypt to?
			} else if c20SnapPoly(pts[st.pt].Value) != ptSnap {
				detail = fmt.Sprintf("step %d: Encrypt modified the plaintext", si)
			}
			c.Probe("rgsw_enc_history", fmt.Sprintf("%s step=%d ptObj=%d refilled=%v ctObj=%d ptNTT=%v ptMont=%v seed=%d line=%d", par, si, st.pt, st.refill, st.ct,
				pts[st.pt].IsNTT, pts[st.pt].IsMontgomery, c.Seed, c.N), "rgsw-enc-history", detail)
		}
		// a shallow copy after the history behaves like a fresh encryptor
		{
			enc2 := enc.ShallowCopy()
			g := c20Message(c, n, 1)
			ps.fillPlaintext(pts[0], g, lq)
			detail := ""
			if err := enc2.Encrypt(pts[0], cts[1]); err != nil {
				detail = "Encrypt -> " + err.Error()
			} else if worst := c20RowErr(ps, sk, cts[1], g, w); worst > bound {
				detail = fmt.Sprintf("shallow copy after the history: max row error %d, bound %d", worst, bound)
			}
			c.Probe("rgsw_enc_history", fmt.Sprintf("%s step=shallowcopy seed=%d line=%d", par, c.Seed, c.N), "rgsw-enc-history", detail)
		}
	}
}
