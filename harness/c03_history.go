package main

// C03 — output independence ("history") probes for the …New / receiver-producing functions of the
// encrypt / decrypt / key-generation API.
//
// After f(input) = output: mutate the INPUT (re-use it as the target of another encryption, change its metadata
// fields, overwrite its limbs, mutate its Scale in place) and check that the OUTPUT is unchanged; conversely mutate the
// output and check the input; and check directly that no MetaData pointer and no coefficient backing array is shared.
// Finding keys `C03/<Func>/output-shares-metadata`, `/output-shares-limbs`, `/output-changed-by-input-mutation`,
// `/input-changed-by-output-mutation`, `/output-changed-by-later-call`, `/shares-scale-storage` (the big.Float mantissa
// or the *big.Int of the Scale is shared: an in-place operation on one side shows on the other).

import (
	"fmt"
	"strings"

	"github.com/tuneinsight/lattigo/v6/core/rlwe"
	"github.com/tuneinsight/lattigo/v6/ring"
	"github.com/tuneinsight/lattigo/v6/ring/ringqp"
)

func c03SnapPolys(ps []ring.Poly) string {
	parts := make([]string, len(ps))
	for i, p := range ps {
		parts[i] = Mat(RawRows(p))
	}
	return strings.Join(parts, "|")
}

func c03SnapMeta(md *rlwe.MetaData) string {
	if md == nil {
		return "nil"
	}
	return fmt.Sprintf("%s,%d,%d", c03MetaStr(md), c03B2i(md.IsNTT), c03B2i(md.IsMontgomery))
}

func c03SnapCt(ct *rlwe.Ciphertext) string {
	return c03SnapMeta(ct.MetaData) + "#" + c03SnapPolys(ct.Value)
}
func c03SnapPt(pt *rlwe.Plaintext) string {
	return c03SnapMeta(pt.MetaData) + "#" + c03SnapPolys([]ring.Poly{pt.Value}) + "#" + c03SnapPolys(pt.Element.Value)
}
func c03SnapQP(ps ...ringqp.Poly) string {
	var l []ring.Poly
	for _, p := range ps {
		l = append(l, p.Q, p.P)
	}
	return c03SnapPolys(l)
}

// c03SharesLimbs: does any limb of a share its backing array with a limb of b ?
func c03SharesLimbs(a, b []ring.Poly) bool {
	seen := map[*uint64]bool{}
	for _, p := range a {
		for _, row := range p.Coeffs {
			if len(row) > 0 {
				seen[&row[0]] = true
			}
		}
	}
	for _, p := range b {
		for _, row := range p.Coeffs {
			if len(row) > 0 && seen[&row[0]] {
				return true
			}
		}
	}
	return false
}

// c03MutateMeta changes every field of md by assignment.
func c03MutateMeta(c *Ctx, s *c03Set, md *rlwe.MetaData) {
	n := c03RandMeta(c, s)
	n.IsNTT = !md.IsNTT
	n.IsMontgomery = !md.IsMontgomery
	n.IsBatched = !md.IsBatched
	n.LogDimensions.Cols = md.LogDimensions.Cols + 1
	n.Scale = rlwe.NewScaleModT(987654321, 257)
	*md = *n
}

// c03MutateScaleInPlace writes through the storage of the scale: the big.Float mantissa and the *big.Int.
func c03MutateScaleInPlace(c *Ctx, md *rlwe.MetaData) {
	md.Scale.Value.SetInt64(int64(c.rng.Intn(1000)) + 12345)
	if md.Scale.Mod != nil {
		md.Scale.Mod.SetInt64(int64(c.rng.Intn(1000)) + 7)
	}
}

func c03MutateLimbs(c *Ctx, s *c03Set, ps []ring.Poly) {
	for _, p := range ps {
		for i := range p.Coeffs {
			for j := range p.Coeffs[i] {
				p.Coeffs[i][j] ^= 0x5a5a5a5a
			}
		}
	}
}

func c03HistoryProbes(c *Ctx, s *c03Set) {
	params := s.params
	report := func(fn, what, detail string) {
		c.Probe("output_independent", fmt.Sprintf("%s func=%s check=%s seed=%d", s.hdr, fn, what, c.Seed), "C03/"+fn+"/"+what, detail)
	}
	newPt := func(level int) *rlwe.Plaintext {
		pt := rlwe.NewPlaintext(params, level)
		*pt.MetaData = *c03RandMeta(c, s)
		c03RandPoly(c, s, pt.Value, 0)
		return pt
	}
	level := s.maxL
	for _, key := range []string{"sk", "pk"} {
		var enc *rlwe.Encryptor
		if key == "sk" {
			enc = rlwe.NewEncryptor(params, s.sk)
		} else {
			enc = rlwe.NewEncryptor(params, s.pk)
		}

		// ---------------- decrypt-side: DecryptNew, Decrypt into a receiver
		for _, fn := range []string{"DecryptNew", "Decrypt"} {
			ct, err := enc.EncryptNew(newPt(level))
			if err != nil {
				panic(err)
			}
			var out *rlwe.Plaintext
			if fn == "DecryptNew" {
				out = s.dec.DecryptNew(ct)
			} else {
				out = newPt(level)
				s.dec.Decrypt(ct, out)
			}
			d := ""
			if out.MetaData == ct.MetaData {
				d = "the plaintext's MetaData pointer IS the ciphertext's"
			}
			report(fn, "output-shares-metadata", d)
			d = ""
			if c03SharesLimbs(ct.Value, append([]ring.Poly{out.Value}, out.Element.Value...)) {
				d = "a limb of the plaintext shares its backing array with the ciphertext"
			}
			report(fn, "output-shares-limbs", d)
			// mutate the input in the three ways a caller re-uses a ciphertext
			for _, how := range []string{"re-encrypt-into-ct", "set-metadata-fields", "overwrite-limbs", "scale-in-place"} {
				ct, _ = enc.EncryptNew(newPt(level))
				if fn == "DecryptNew" {
					out = s.dec.DecryptNew(ct)
				} else {
					out = newPt(level)
					s.dec.Decrypt(ct, out)
				}
				before := c03SnapPt(out)
				switch how {
				case "re-encrypt-into-ct":
					if err := enc.Encrypt(newPt(level), ct); err != nil {
						panic(err)
					}
				case "set-metadata-fields":
					c03MutateMeta(c, s, ct.MetaData)
				case "scale-in-place":
					c03MutateScaleInPlace(c, ct.MetaData)
				default:
					c03MutateLimbs(c, s, ct.Value)
				}
				d = ""
				if after := c03SnapPt(out); after != before {
					d = "decrypted plaintext changed after the ciphertext was mutated (" + how + "): " + c03DiffPart(before, after)
				}
				if how == "scale-in-place" {
					report(fn, "shares-scale-storage", d)
				} else {
					report(fn, "output-changed-by-input-mutation", d+c03Tag(d, how))
				}
			}
			// conversely
			ct, _ = enc.EncryptNew(newPt(level))
			if fn == "DecryptNew" {
				out = s.dec.DecryptNew(ct)
			} else {
				out = newPt(level)
				s.dec.Decrypt(ct, out)
			}
			before := c03SnapCt(ct)
			c03MutateMeta(c, s, out.MetaData)
			c03MutateLimbs(c, s, []ring.Poly{out.Value})
			d = ""
			if after := c03SnapCt(ct); after != before {
				d = "ciphertext changed after the decrypted plaintext was mutated: " + c03DiffPart(before, after)
			}
			report(fn, "input-changed-by-output-mutation", d)
		}

		// ---------------- encrypt-side: EncryptNew, Encrypt into a receiver, EncryptZeroNew
		for _, fn := range []string{"EncryptNew", "Encrypt"} {
			mk := func() (*rlwe.Plaintext, *rlwe.Ciphertext) {
				pt := newPt(level)
				if fn == "EncryptNew" {
					ct, err := enc.EncryptNew(pt)
					if err != nil {
						panic(err)
					}
					return pt, ct
				}
				ct := rlwe.NewCiphertext(params, 1, level)
				if err := enc.Encrypt(pt, ct); err != nil {
					panic(err)
				}
				return pt, ct
			}
			pt, ct := mk()
			d := ""
			if pt.MetaData == ct.MetaData {
				d = "the ciphertext's MetaData pointer IS the plaintext's"
			}
			report(fn, "output-shares-metadata", d)
			d = ""
			if c03SharesLimbs(ct.Value, append([]ring.Poly{pt.Value}, pt.Element.Value...)) {
				d = "a limb of the ciphertext shares its backing array with the plaintext"
			}
			report(fn, "output-shares-limbs", d)
			for _, how := range []string{"set-metadata-fields", "overwrite-limbs", "scale-in-place"} {
				pt, ct = mk()
				before := c03SnapCt(ct)
				switch how {
				case "set-metadata-fields":
					c03MutateMeta(c, s, pt.MetaData)
				case "scale-in-place":
					c03MutateScaleInPlace(c, pt.MetaData)
				default:
					c03MutateLimbs(c, s, []ring.Poly{pt.Value})
				}
				d = ""
				if after := c03SnapCt(ct); after != before {
					d = "ciphertext changed after the plaintext was mutated (" + how + "): " + c03DiffPart(before, after)
				}
				if how == "scale-in-place" {
					report(fn, "shares-scale-storage", d)
				} else {
					report(fn, "output-changed-by-input-mutation", d+c03Tag(d, how))
				}
			}
			pt, ct = mk()
			before := c03SnapPt(pt)
			c03MutateMeta(c, s, ct.MetaData)
			c03MutateLimbs(c, s, ct.Value)
			d = ""
			if after := c03SnapPt(pt); after != before {
				d = "plaintext changed after the ciphertext was mutated: " + c03DiffPart(before, after)
			}
			report(fn, "input-changed-by-output-mutation", d)
			// a later call on the same encryptor must not touch an earlier output (no aliasing of its buffers)
			_, ct = mk()
			before = c03SnapCt(ct)
			mk()
			_ = enc.EncryptZeroNew(level)
			d = ""
			if after := c03SnapCt(ct); after != before {
				d = "an earlier ciphertext changed when the encryptor was used again: " + c03DiffPart(before, after)
			}
			report(fn, "output-changed-by-later-call", d)
		}
		{
			ct := enc.EncryptZeroNew(level)
			before := c03SnapCt(ct)
			ct2 := enc.EncryptZeroNew(level)
			_, _ = enc.EncryptNew(newPt(level))
			d := ""
			if after := c03SnapCt(ct); after != before {
				d = "an earlier EncryptZeroNew output changed when the encryptor was used again: " + c03DiffPart(before, after)
			} else if c03SharesLimbs(ct.Value, ct2.Value) || ct.MetaData == ct2.MetaData {
				d = "two EncryptZeroNew outputs share storage"
			}
			report("EncryptZeroNew", "output-changed-by-later-call", d)
		}
	}

	// ---------------- key generation
	kgen := rlwe.NewKeyGenerator(params)
	sk := kgen.GenSecretKeyNew()
	pk := kgen.GenPublicKeyNew(sk)
	skSnap, pkSnap := c03SnapQP(sk.Value), c03SnapQP(pk.Value...)
	d := ""
	if c03SharesLimbs([]ring.Poly{sk.Value.Q, sk.Value.P}, []ring.Poly{pk.Value[0].Q, pk.Value[0].P, pk.Value[1].Q, pk.Value[1].P}) {
		d = "the public key shares a limb with the secret key"
	}
	report("GenPublicKeyNew", "output-shares-limbs", d)
	// later calls on the same generator
	sk3 := kgen.GenSecretKeyNew()
	_ = kgen.GenPublicKeyNew(sk3)
	sk4, pk4 := kgen.GenKeyPairNew()
	d = ""
	if c03SnapQP(sk.Value) != skSnap {
		d = "an earlier secret key changed when the generator was used again"
	} else if c03SharesLimbs([]ring.Poly{sk.Value.Q, sk.Value.P}, []ring.Poly{sk3.Value.Q, sk3.Value.P, sk4.Value.Q, sk4.Value.P}) {
		d = "two generated secret keys share a limb"
	}
	report("GenSecretKeyNew", "output-changed-by-later-call", d)
	d = ""
	if c03SnapQP(pk.Value...) != pkSnap {
		d = "an earlier public key changed when the generator was used again"
	} else if c03SharesLimbs([]ring.Poly{pk.Value[0].Q, pk.Value[1].Q}, []ring.Poly{pk4.Value[0].Q, pk4.Value[1].Q}) {
		d = "two generated public keys share a limb"
	}
	report("GenPublicKeyNew", "output-changed-by-later-call", d)
	d = ""
	if c03SharesLimbs([]ring.Poly{sk4.Value.Q, sk4.Value.P}, []ring.Poly{pk4.Value[0].Q, pk4.Value[0].P, pk4.Value[1].Q, pk4.Value[1].P}) {
		d = "the key pair's public key shares a limb with its secret key"
	}
	report("GenKeyPairNew", "output-shares-limbs", d)
	// input mutation: overwrite the secret key after the public key was generated, and conversely
	c03MutateLimbs(c, s, []ring.Poly{sk.Value.Q, sk.Value.P})
	d = ""
	if c03SnapQP(pk.Value...) != pkSnap {
		d = "the public key changed after the secret key it was generated from was overwritten"
	}
	report("GenPublicKeyNew", "output-changed-by-input-mutation", d)
	sk4Snap := c03SnapQP(sk4.Value)
	c03MutateLimbs(c, s, []ring.Poly{pk4.Value[0].Q, pk4.Value[0].P, pk4.Value[1].Q, pk4.Value[1].P})
	d = ""
	if c03SnapQP(sk4.Value) != sk4Snap {
		d = "the secret key changed after the public key of the pair was overwritten"
	}
	report("GenKeyPairNew", "input-changed-by-output-mutation", d)
}

func c03Tag(d, how string) string {
	if d == "" {
		return ""
	}
	return " [" + how + "]"
}

// c03DiffPart names the part of a snapshot that changed (metadata / limbs) with the two metadata strings.
func c03DiffPart(before, after string) string {
	b, a := strings.SplitN(before, "#", 2), strings.SplitN(after, "#", 2)
	if b[0] != a[0] {
		return "metadata " + b[0] + " -> " + a[0]
	}
	return "limbs"
}
