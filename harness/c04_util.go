package main

import (
	"fmt"
	"math/big"
	"strings"

	"github.com/tuneinsight/lattigo/v6/core/rlwe"
	"github.com/tuneinsight/lattigo/v6/ring"
	"github.com/tuneinsight/lattigo/v6/ring/ringqp"
	"github.com/tuneinsight/lattigo/v6/utils/sampling"
)

// ---------- parameter sets ----------

type c04PS struct {
	params rlwe.Parameters
	logN   int
	Q, P   []uint64
	sBound int64 // bound on |s_i| of the secret distribution (1 ternary; the truncation bound for Gaussian secrets)
	xs     int   // c04XsChoice the set was built with
}

// c04Primes returns distinct NTT-friendly primes of the requested bit sizes (alternating around 2^bits).
func c04Primes(logN int, bitsQ, bitsP []int) (Q, P []uint64, ok bool) {
	gens := map[int]*ring.NTTFriendlyPrimesGenerator{}
	next := func(b int) (uint64, bool) {
		g, has := gens[b]
		if !has {
			gg := ring.NewNTTFriendlyPrimesGenerator(uint64(b), uint64(2<<logN))
			g = &gg
			gens[b] = g
		}
		p, err := g.NextAlternatingPrime()
		return p, err == nil
	}
	for _, b := range bitsQ {
		p, k := next(b)
		if !k {
			return nil, nil, false
		}
		Q = append(Q, p)
	}
	for _, b := range bitsP {
		p, k := next(b)
		if !k {
			return nil, nil, false
		}
		P = append(P, p)
	}
	return Q, P, true
}

// c04XsChoice selects the secret distribution of the next parameter sets built by c04NewPS:
// 0 default Ternary{P: 2/3}; 1 Ternary{H: N/4}; 2 Ternary{P: 0.3}; 3 DiscreteGaussian{3.2, 19.2}; 4 DiscreteGaussian{8, 48}.
var c04XsChoice = 0

// c04RingType selects the ring type of the next parameter sets built by c04NewPS.
var c04RingType = ring.Standard

func c04NewPS(logN int, Q, P []uint64, ntt bool) (*c04PS, error) {
	lit := rlwe.ParametersLiteral{LogN: logN, Q: Q, NTTFlag: ntt, RingType: c04RingType}
	if len(P) > 0 {
		lit.P = P
	}
	sB := int64(1)
	switch c04XsChoice {
	case 1:
		lit.Xs = ring.Ternary{H: (1 << logN) / 4}
	case 2:
		lit.Xs = ring.Ternary{P: 0.3}
	case 3:
		lit.Xs = ring.DiscreteGaussian{Sigma: 3.2, Bound: 19.2}
		sB = 20
	case 4:
		lit.Xs = ring.DiscreteGaussian{Sigma: 8, Bound: 48}
		sB = 48
	}
	params, err := rlwe.NewParametersFromLiteral(lit)
	if err != nil {
		return nil, err
	}
	return &c04PS{params: params, logN: logN, Q: Q, P: P, sBound: sB, xs: c04XsChoice}, nil
}

func (ps *c04PS) N() int { return 1 << ps.logN }

// ---------- canonical forms ----------

// c04CanonQP returns the canonical rows q_0..q_lq, p_0..p_lp of a QP polynomial.
func (ps *c04PS) canonQP(p ringqp.Poly, lq, lp int, isNTT, isMont bool) [][]uint64 {
	rows := Canon(ps.params.RingQ().AtLevel(lq), p.Q, isNTT, isMont)
	if lp >= 0 {
		rows = append(rows, Canon(ps.params.RingP().AtLevel(lp), p.P, isNTT, isMont)...)
	}
	return rows
}

func (ps *c04PS) canonQ(p ring.Poly, lq int, isNTT, isMont bool) [][]uint64 {
	return Canon(ps.params.RingQ().AtLevel(lq), p, isNTT, isMont)
}

// c04Centered turns a canonical row modulo q into signed integers in (-q/2, q/2].
func c04Centered(row []uint64, q uint64) []int64 {
	out := make([]int64, len(row))
	for i, x := range row {
		if x > q/2 {
			out[i] = -int64(q - x)
		} else {
			out[i] = int64(x)
		}
	}
	return out
}

func c04I64Vec(v []int64) string {
	if len(v) == 0 {
		return "-"
	}
	var sb strings.Builder
	for i, x := range v {
		if i > 0 {
			sb.WriteByte(',')
		}
		fmt.Fprintf(&sb, "%d", x)
	}
	return sb.String()
}

// smallInts returns the small-norm integer polynomial represented by rows (taken from row 0), and
// panics if some other row represents a different integer (the model would otherwise be fed a lie).
func (ps *c04PS) smallInts(rows [][]uint64, moduli []uint64) []int64 {
	v := c04Centered(rows[0], moduli[0])
	for k := 1; k < len(rows); k++ {
		for t, x := range v {
			var want uint64
			if x < 0 {
				want = moduli[k] - uint64(-x)%moduli[k]
				if want == moduli[k] {
					want = 0
				}
			} else {
				want = uint64(x) % moduli[k]
			}
			if rows[k][t] != want {
				panic(fmt.Sprintf("c04: rows do not represent one small integer polynomial (row %d coeff %d)", k, t))
			}
		}
	}
	return v
}

func (ps *c04PS) moduliQP(lq, lp int) []uint64 {
	m := append([]uint64{}, ps.Q[:lq+1]...)
	if lp >= 0 {
		m = append(m, ps.P[:lp+1]...)
	}
	return m
}

// secretInts returns the secret as a signed integer vector.
func (ps *c04PS) secretInts(sk *rlwe.SecretKey) []int64 {
	lq := sk.LevelQ()
	lp := sk.LevelP()
	return ps.smallInts(ps.canonQP(sk.Value, lq, lp, true, true), ps.moduliQP(lq, lp))
}

func c04Polys(ps [][][]uint64) string {
	if len(ps) == 0 {
		return "-"
	}
	parts := make([]string, len(ps))
	for i := range ps {
		parts[i] = Mat(ps[i])
	}
	return strings.Join(parts, "/")
}

func c04IVecs(vs [][]int64) string {
	if len(vs) == 0 {
		return "-"
	}
	parts := make([]string, len(vs))
	for i := range vs {
		parts[i] = c04I64Vec(vs[i])
	}
	return strings.Join(parts, "/")
}

// ---------- twin of a KeyGenerator's randomness ----------

// c04KgenTwin reproduces the PRNG and the three samplers of an rlwe.KeyGenerator (newEncryptor):
// one keyed PRNG shared by xeSampler, xsSampler and the uniform QP sampler, created in that order.
type c04KgenTwin struct {
	ps   *c04PS
	prng *sampling.KeyedPRNG
	xe   ring.Sampler
	xs   ring.Sampler
	uni  ringqp.UniformSampler
}

// c04NewKgenWithTwin creates a real key generator and its twin (same PRNG key).
func c04NewKgenWithTwin(ps *c04PS) (*rlwe.KeyGenerator, *c04KgenTwin) {
	mark := RandMark()
	kgen := rlwe.NewKeyGenerator(ps.params)
	keys := RandKeysSince(mark)
	if len(keys) == 0 {
		panic("c04: no PRNG key read by NewKeyGenerator")
	}
	// NewEncryptor(params, nil) builds two encryptors; the one returned is the last.
	prng, err := sampling.NewKeyedPRNG(keys[len(keys)-1])
	if err != nil {
		panic(err)
	}
	xe, err := ring.NewSampler(prng, ps.params.RingQ(), ps.params.Xe(), false)
	if err != nil {
		panic(err)
	}
	xs, err := ring.NewSampler(prng, ps.params.RingQ(), ps.params.Xs(), false)
	if err != nil {
		panic(err)
	}
	uni := ringqp.NewUniformSampler(prng, *ps.params.RingQP())
	return kgen, &c04KgenTwin{ps: ps, prng: prng, xe: xe, xs: xs, uni: uni}
}

// replayEvk performs the call sequence of KeyGenerator.genEvaluationKey for a key of the given shape and
// returns the sampled a_{ij} (canonical QP rows), e_{ij} (signed integers) in generation order, and the
// seed (compressed keys only).
func (tw *c04KgenTwin) replayEvk(lq, lp int, shape []int, compressed bool) (A [][][]uint64, E [][]int64, seed []byte) {
	ps := tw.ps
	uni := tw.uni
	if compressed {
		seed = make([]byte, 32)
		if n, err := tw.prng.Read(seed); n != 32 || err != nil {
			panic("c04: twin seed read")
		}
		sp, err := sampling.NewKeyedPRNG(seed)
		if err != nil {
			panic(err)
		}
		uni = ringqp.NewUniformSampler(sp, *ps.params.RingQP())
	}
	ringQP := ps.params.RingQP().AtLevel(lq, lp)
	for i := range shape {
		for j := 0; j < shape[i]; j++ {
			a := ringQP.NewPoly()
			uni.AtLevel(lq, lp).Read(a)
			e := ps.params.RingQ().AtLevel(lq).NewPoly()
			tw.xe.AtLevel(lq).Read(e)
			A = append(A, ps.canonQP(a, lq, lp, true, true))
			erows := ps.canonQ(e, lq, false, false)
			E = append(E, ps.smallInts(erows, ps.Q[:lq+1]))
		}
	}
	return
}

// replayExpand regenerates the a stream the way EvaluationKey.Expand does.
func (tw *c04KgenTwin) replayExpand(seed []byte, lq, lp int, shape []int) (A [][][]uint64) {
	ps := tw.ps
	sp, err := sampling.NewKeyedPRNG(seed)
	if err != nil {
		panic(err)
	}
	uni := ringqp.NewUniformSampler(sp, *ps.params.RingQP()).AtLevel(lq, lp)
	ringQP := ps.params.RingQP().AtLevel(lq, lp)
	for i := range shape {
		for j := 0; j < shape[i]; j++ {
			a := ringQP.NewPoly()
			uni.Read(a)
			A = append(A, ps.canonQP(a, lq, lp, true, true))
		}
	}
	return
}

// ---------- key material on the line ----------

func c04EvkShape(evk *rlwe.EvaluationKey) []int {
	return evk.GadgetCiphertext.BaseTwoDecompositionVectorSize()
}

// evkPolys flattens the key: for every (i, j) the canonical rows of every stored component.
func (ps *c04PS) evkPolys(evk *rlwe.EvaluationKey) (out [][][]uint64) {
	lq, lp := evk.LevelQ(), evk.LevelP()
	for i := range evk.Value {
		for j := range evk.Value[i] {
			for u := range evk.Value[i][j] {
				out = append(out, ps.canonQP(evk.Value[i][j][u], lq, lp, true, true))
			}
		}
	}
	return
}

// ---------- ciphertexts built by hand (independent of the encryptor, which is C03's subject) ----------

// polyFromRows builds a poly at level from canonical coefficient rows, converting to NTT if asked.
func (ps *c04PS) polyFromRows(rows [][]uint64, ntt bool) ring.Poly {
	lvl := len(rows) - 1
	r := ps.params.RingQ().AtLevel(lvl)
	p := r.NewPoly()
	for i := range rows {
		copy(p.Coeffs[i], rows[i])
	}
	if ntt {
		r.NTT(p, p)
	}
	return p
}

func (ps *c04PS) rowsFromInts(v []int64, lvl int) [][]uint64 {
	rows := make([][]uint64, lvl+1)
	for k := 0; k <= lvl; k++ {
		q := ps.Q[k]
		rows[k] = make([]uint64, len(v))
		for t, x := range v {
			if x < 0 {
				r := uint64(-x) % q
				if r != 0 {
					r = q - r
				}
				rows[k][t] = r
			} else {
				rows[k][t] = uint64(x) % q
			}
		}
	}
	return rows
}

// randRows draws a uniform element of R_{Q_lvl} (one integer per coefficient is not needed: rows are independent).
func (ps *c04PS) randRows(c *Ctx, lvl int) [][]uint64 {
	rows := make([][]uint64, lvl+1)
	for k := range rows {
		rows[k] = make([]uint64, ps.N())
		for t := range rows[k] {
			rows[k][t] = c.rng.Below(ps.Q[k])
		}
	}
	return rows
}

// extremeRows: every residue is q_k-1, q_k/2, 2^{bitlen-1} … patterns that exercise the top digit.
func (ps *c04PS) extremeRows(c *Ctx, lvl int, mode int) [][]uint64 {
	rows := make([][]uint64, lvl+1)
	for k := range rows {
		q := ps.Q[k]
		rows[k] = make([]uint64, ps.N())
		for t := range rows[k] {
			switch (mode + t) % 4 {
			case 0:
				rows[k][t] = q - 1
			case 1:
				rows[k][t] = q / 2
			case 2:
				rows[k][t] = q/2 + 1
			default:
				rows[k][t] = q - 1 - c.rng.Below(q/4+1)
			}
		}
	}
	return rows
}

// mulBySecret returns a*s (coefficient domain rows) at the level of a, s given as NTT+Montgomery poly.
func (ps *c04PS) mulBySecret(a ring.Poly, aIsNTT bool, s ring.Poly) ring.Poly {
	lvl := a.Level()
	r := ps.params.RingQ().AtLevel(lvl)
	t := r.NewPoly()
	if aIsNTT {
		t.CopyLvl(lvl, a)
	} else {
		r.NTT(a, t)
	}
	r.MulCoeffsMontgomery(t, s, t)
	r.INTT(t, t)
	return t
}

// mkCt builds a degree-deg ciphertext (c_0, …, c_deg) with c_1.. given (canonical coefficient rows) such
// that c_0 + c_1 s + c_2 s^2 = m + e.
func (ps *c04PS) mkCt(sk *rlwe.SecretKey, m, e []int64, cs [][][]uint64, ntt bool) *rlwe.Ciphertext {
	lvl := len(cs[0]) - 1
	r := ps.params.RingQ().AtLevel(lvl)
	ct := rlwe.NewCiphertext(ps.params, len(cs), lvl)
	ct.IsNTT = ntt
	me := make([]int64, len(m))
	for i := range m {
		me[i] = m[i] + e[i]
	}
	c0 := ps.polyFromRows(ps.rowsFromInts(me, lvl), false)
	spow := r.NewPoly()
	spow.CopyLvl(lvl, sk.Value.Q) // s, NTT+Mont
	for d := range cs {
		cd := ps.polyFromRows(cs[d], false)
		t := ps.mulBySecret(cd, false, spow)
		r.Sub(c0, t, c0)
		ct.Value[d+1].CopyLvl(lvl, cd)
		if ntt {
			r.NTT(ct.Value[d+1], ct.Value[d+1])
		}
		// next power of s (Montgomery form kept: Mont * Mont -> Mont)
		r.MulCoeffsMontgomery(spow, sk.Value.Q, spow)
	}
	ct.Value[0].CopyLvl(lvl, c0)
	if ntt {
		r.NTT(ct.Value[0], ct.Value[0])
	}
	return ct
}

func (ps *c04PS) ctPolys(ct *rlwe.Ciphertext) (out [][][]uint64) {
	for i := range ct.Value {
		out = append(out, ps.canonQ(ct.Value[i], ct.Level(), ct.IsNTT, false))
	}
	return
}

// noiseOf decrypts ct under sk with the library's Decryptor and returns ||Dec(ct) - want||_inf
// (centred modulo Q_level).
func (ps *c04PS) noiseOf(ct *rlwe.Ciphertext, sk *rlwe.SecretKey, want []int64) *big.Int {
	dec := rlwe.NewDecryptor(ps.params, sk)
	pt := rlwe.NewPlaintext(ps.params, ct.Level())
	dec.Decrypt(ct, pt)
	lvl := ct.Level()
	r := ps.params.RingQ().AtLevel(lvl)
	p := r.NewPoly()
	p.CopyLvl(lvl, pt.Value)
	if pt.IsNTT {
		r.INTT(p, p)
	}
	w := ps.polyFromRows(ps.rowsFromInts(want, lvl), false)
	r.Sub(p, w, p)
	coeffs := make([]*big.Int, ps.N())
	for i := range coeffs {
		coeffs[i] = new(big.Int)
	}
	r.PolyToBigintCentered(p, 1, coeffs)
	max := new(big.Int)
	for _, x := range coeffs {
		x.Abs(x)
		if x.Cmp(max) > 0 {
			max.Set(x)
		}
	}
	return max
}

// c04ApplyAutInts computes sigma_g(m) on a signed integer vector (X -> X^g in Z[X]/(X^N+1)).
func c04ApplyAutInts(m []int64, g uint64) []int64 {
	n := uint64(len(m))
	out := make([]int64, n)
	for i := uint64(0); i < n; i++ {
		e := (i * g) % (2 * n)
		if e < n {
			out[e] = m[i]
		} else {
			out[e-n] = -m[i]
		}
	}
	return out
}

func c04ProdBig(v []uint64) *big.Int {
	r := big.NewInt(1)
	for _, x := range v {
		r.Mul(r, new(big.Int).SetUint64(x))
	}
	return r
}

// ksNoiseBound is the bound on the noise ADDED by one key switch implied by the key's decomposition
// parameters: N*B_e*sum_{i,j} max|d_ij| / P + (N+1)/2 + 1 (with P = 1 and no rounding term without P).
// shape: the key's row lengths; lvl: ciphertext level.
func (ps *c04PS) ksNoiseBound(lvl, lp, w int, shape []int) *big.Int {
	N := int64(ps.N())
	Be := int64(ps.params.NoiseBound()) + 1
	sum := new(big.Int)
	nP := lp + 1
	if lp > 0 {
		nI := (lvl + nP) / nP
		for i := 0; i < nI; i++ {
			st := i * nP
			ed := st + nP
			if ed > lvl+1 {
				ed = lvl + 1
			}
			g := c04ProdBig(ps.Q[st:ed])
			g.Rsh(g, 1)
			g.Add(g, big.NewInt(1))
			sum.Add(sum, g)
		}
	} else {
		for i := 0; i <= lvl && i < len(shape); i++ {
			if w == 0 {
				g := new(big.Int).SetUint64(ps.Q[i])
				g.Rsh(g, 1)
				g.Add(g, big.NewInt(1))
				sum.Add(sum, g)
			} else {
				d := new(big.Int).Lsh(big.NewInt(1), uint(w))
				d.Mul(d, big.NewInt(int64(shape[i])))
				sum.Add(sum, d)
			}
		}
	}
	b := new(big.Int).Mul(sum, big.NewInt(N*Be))
	if lp >= 0 {
		b.Div(b, c04ProdBig(ps.P[:lp+1]))
		sB := ps.sBound
		if sB == 0 {
			sB = 1
		}
		b.Add(b, big.NewInt((N*sB+1)/2+2)) // rounding: (1 + ||s_out||_1)/2
	}
	return b
}
