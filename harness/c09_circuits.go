package main

// C09 — representative calls of the linear-transformation and polynomial evaluators (bgv).

import (
	"fmt"

	bgvlt "github.com/tuneinsight/lattigo/v6/circuits/bgv/lintrans"
	bgvpoly "github.com/tuneinsight/lattigo/v6/circuits/bgv/polynomial"
	"github.com/tuneinsight/lattigo/v6/core/rlwe"
	"github.com/tuneinsight/lattigo/v6/ring"
	"github.com/tuneinsight/lattigo/v6/schemes/bgv"
)

func c09Circuits(c *Ctx) {
	logN := 5
	p, err := bgv.NewParametersFromLiteral(bgv.ParametersLiteral{LogN: logN, LogQ: []int{45, 40, 40, 40}, LogP: []int{50}, PlaintextModulus: 65537})
	if err != nil {
		panic(err)
	}
	sc := fmt.Sprintf("bgv/logN%d", logN)
	kgen := rlwe.NewKeyGenerator(p)
	sk := kgen.GenSecretKeyNew()
	ecd := bgv.NewEncoder(p)
	enc := rlwe.NewEncryptor(p, sk)
	dec := rlwe.NewDecryptor(p, sk)
	slots := p.MaxSlots()
	diags := bgvlt.Diagonals[uint64]{}
	for _, k := range []int{0, 1, 3} {
		d := make([]uint64, slots)
		for i := range d {
			d[i] = uint64((i*3 + k + 1) % 17)
		}
		diags[k] = d
	}
	ltp := bgvlt.Parameters{DiagonalsIndexList: diags.DiagonalsIndexList(), LevelQ: p.MaxLevel(), LevelP: p.MaxLevelP(),
		Scale: p.DefaultScale(), LogDimensions: ring.Dimensions{Rows: 1, Cols: p.LogMaxSlots() - 1}, LogBabyStepGiantStepRatio: -1}
	lt := bgvlt.NewLinearTransformation(p, ltp)
	if err := bgvlt.Encode(ecd, diags, lt); err != nil {
		c.Count("lintrans_encode_err")
		return
	}
	rlk := kgen.GenRelinearizationKeyNew(sk)
	evk := rlwe.NewMemEvaluationKeySet(rlk, kgen.GenGaloisKeysNew(lt.GaloisElements(p), sk)...)
	pt := bgv.NewPlaintext(p, p.MaxLevel())
	v := make([]uint64, slots)
	for i := range v {
		v[i] = uint64(i + 1)
	}
	_ = ecd.Encode(v, pt)
	A, _ := enc.EncryptNew(pt)
	fp := func(ct *rlwe.Ciphertext) string {
		return Try(func() string {
			q := dec.DecryptNew(ct)
			return fmt.Sprintf("d%d,l%d,%s,%s", ct.Degree(), ct.Level(), deepHash(ct.MetaData), deepHash(&q.Value))
		})
	}
	mkLT := func() *bgvlt.Evaluator { return bgvlt.NewEvaluator(bgv.NewEvaluator(p, evk)) }

	// lintrans.Evaluate
	{
		name := "bgv/lintrans.Evaluator.Evaluate"
		a, out := A.CopyNew(), bgv.NewCiphertext(p, 1, p.MaxLevel())
		ha, hl := deepHash(a), deepHash(&lt)
		err := c09Err(func() error { return mkLT().Evaluate(a, lt, out) })
		if isPanic(err) {
			c.Probe("no_panic/"+name, sc, "C09-panic-"+name, err.Error())
		} else if err == nil {
			ref := fp(out)
			d := ""
			if deepHash(a) != ha {
				d += "ct-changed "
			}
			if deepHash(&lt) != hl {
				d += "lt-changed"
			}
			c.Probe("inputs_unchanged/"+name, sc, "C09-inputs-"+name, d)
			a2 := A.CopyNew()
			if err := c09Err(func() error { return mkLT().Evaluate(a2, lt, a2) }); err == nil {
				d = ""
				if fp(a2) != ref {
					d = "result-differs"
				}
				c.Probe("alias_insensitive/"+name+"/out=op0", sc, "C09-alias-"+name+"/out=op0", d)
			} else if isPanic(err) {
				c.Probe("no_panic/"+name+"/out=op0", sc, "C09-panic-"+name+"/out=op0", err.Error())
			}
			inner := bgv.NewEvaluator(p, evk)
			ev3 := bgvlt.NewEvaluator(inner)
			t1 := bgv.NewCiphertext(p, 1, p.MaxLevel())
			_ = ev3.Evaluate(A.CopyNew(), lt, t1)
			_ = inner.MulRelin(A, A, t1)
			c09Poison(c, &c09Evals{bgv: inner, rl: inner.Evaluator})
			g := bgv.NewCiphertext(p, 1, p.MaxLevel())
			for i := range g.Value {
				c09FillPoly(c, g.Value[i])
			}
			if err := c09Err(func() error { return ev3.Evaluate(A.CopyNew(), lt, g) }); err == nil {
				d = ""
				if fp(g) != ref {
					d = "result-differs"
				}
				c.Probe("history_free/"+name, sc, "C09-history-"+name, d)
			}
		} else {
			c.Count("lintrans_rejected")
		}
	}
	// polynomial.Evaluate
	{
		name := "bgv/polynomial.Evaluator.Evaluate"
		poly := bgvpoly.NewPolynomial([]uint64{1, 2, 0, 3, 1})
		mk := func() (*bgvpoly.Evaluator, *bgv.Evaluator) {
			in := bgv.NewEvaluator(p, evk)
			return bgvpoly.NewEvaluator(p, in), in
		}
		a := A.CopyNew()
		ha, hp := deepHash(a), deepHash(&poly)
		pe, _ := mk()
		var out *rlwe.Ciphertext
		err := c09Err(func() (err error) { out, err = pe.Evaluate(a, poly, p.DefaultScale()); return })
		if isPanic(err) {
			c.Probe("no_panic/"+name, sc, "C09-panic-"+name, err.Error())
		} else if err == nil {
			ref := fp(out)
			d := ""
			if deepHash(a) != ha {
				d += "ct-changed "
			}
			if deepHash(&poly) != hp {
				d += "poly-changed"
			}
			c.Probe("inputs_unchanged/"+name, sc, "C09-inputs-"+name, d)
			pe2, in2 := mk()
			_, _ = pe2.Evaluate(A.CopyNew(), bgvpoly.NewPolynomial([]uint64{5, 4, 3, 2, 1, 7, 7}), p.DefaultScale())
			c09Poison(c, &c09Evals{bgv: in2, rl: in2.Evaluator})
			var o2 *rlwe.Ciphertext
			if err := c09Err(func() (err error) { o2, err = pe2.Evaluate(A.CopyNew(), poly, p.DefaultScale()); return }); err == nil {
				d = ""
				if fp(o2) != ref {
					d = "result-differs"
				}
				c.Probe("history_free/"+name, sc, "C09-history-"+name, d)
			}
		} else {
			c.Count("polynomial_rejected")
		}
	}
}
