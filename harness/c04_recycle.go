package main

// C04 — recycled receivers: every evaluator operation is re-run into a receiver that was "used before" at a
// HIGHER and at a LOWER level (and, where admissible, another degree) and is filled with junk. The receiver
// must come out at the documented level (min(input, receiver) level, or the explicit `level` argument) and
// equal, limb for limb, the result obtained with a freshly allocated receiver.

import (
	"fmt"

	"github.com/tuneinsight/lattigo/v6/core/rlwe"
	"github.com/tuneinsight/lattigo/v6/ring"
	"github.com/tuneinsight/lattigo/v6/ring/ringqp"
)

// c04ForceLvl, when in [0, key level], fixes the ciphertext level used by c04Scenario.
var c04ForceLvl = -1

func c04JunkPoly(c *Ctx, p ring.Poly) {
	for i := range p.Coeffs {
		for j := range p.Coeffs[i] {
			p.Coeffs[i][j] = c.rng.U64()
		}
	}
}

// c04JunkCt allocates a ciphertext of the given degree and level filled with random 64-bit words.
func (ps *c04PS) c04JunkCt(c *Ctx, deg, lvl int, ntt bool) *rlwe.Ciphertext {
	ct := rlwe.NewCiphertext(ps.params, deg, lvl)
	for i := range ct.Value {
		c04JunkPoly(c, ct.Value[i])
	}
	ct.IsNTT = ntt
	return ct
}

func (ps *c04PS) c04JunkQP(c *Ctx, lq, lp int) ringqp.Poly {
	p := ps.params.RingQP().AtLevel(lq, lp).NewPoly()
	c04JunkPoly(c, p.Q)
	if lp >= 0 {
		c04JunkPoly(c, p.P)
	}
	return p
}

// ctPolysAt returns the canonical first lvl+1 rows of the first deg+1 polynomials.
func (ps *c04PS) ctPolysAt(ct *rlwe.Ciphertext, deg, lvl int) (out [][][]uint64) {
	for i := 0; i <= deg && i < len(ct.Value); i++ {
		out = append(out, ps.canonQ(ct.Value[i], lvl, ct.IsNTT, false))
	}
	return
}

type c04RecycleSpec struct {
	op       string
	args     string
	lvl      int    // level of the fresh result
	fresh    string // canonical fresh result at lvl ("err"/"panic" => nothing to compare)
	degs     []int  // admissible receiver degrees
	explicit bool   // the operation takes the output level as an argument (receiver level must not matter)
	noResize bool   // the operation is documented to write rows 0..lvl only (GadgetProduct*, ModDown): level unchecked
	run      func(out *rlwe.Ciphertext) error
	// tieLow emits the tie line for the fresh result at a lower level (min semantics); may be nil
	tieLow func(lo int, res string)
}

// c04Recycled runs spec.run on junk receivers above and below spec.lvl.
func c04Recycled(c *Ctx, ps *c04PS, sp c04RecycleSpec, isNTT bool) {
	if sp.fresh == "err" || sp.fresh == "panic" {
		return
	}
	maxL := len(ps.Q) - 1
	check := func(variant string, recvLvl, wantLvl int, want string) {
		for _, deg := range sp.degs {
			out := ps.c04JunkCt(c, deg, recvLvl, !isNTT)
			if sp.noResize {
				out.IsNTT = isNTT // for these the receiver's flag is an input
			}
			detail := ""
			got := Try(func() string {
				if err := sp.run(out); err != nil {
					return "err"
				}
				return c04Polys(ps.ctPolysAt(out, 1, wantLvl))
			})
			switch {
			case got == "err" || got == "panic":
				detail = "operation " + got + " on a recycled receiver"
			case !sp.noResize && out.Level() != wantLvl:
				detail = fmt.Sprintf("receiver left at level %d, documented %d", out.Level(), wantLvl)
			case !sp.noResize && out.Degree() != 1:
				detail = fmt.Sprintf("receiver left at degree %d", out.Degree())
			case got != want:
				detail = "result differs from the fresh-receiver result"
			case !sp.noResize && out.IsNTT != isNTT:
				detail = "IsNTT flag not taken from the input"
			}
			c.Probe("receiver_recycled", fmt.Sprintf("%s %s recv=%s recvLvl=%d recvDeg=%d %s", sp.op, variant, variant, recvLvl, deg, sp.args),
				"C04-recycled-receiver-"+sp.op, detail)
			c.Count("recycled:" + sp.op + ":" + variant)
		}
	}
	if sp.lvl < maxL {
		hi := sp.lvl + 1 + c.rng.Intn(maxL-sp.lvl)
		check("higher", hi, sp.lvl, sp.fresh)
	}
	if sp.lvl > 0 && !sp.noResize {
		lo := c.rng.Intn(sp.lvl)
		if sp.explicit {
			check("lower", lo, sp.lvl, sp.fresh)
		} else {
			ref := rlwe.NewCiphertext(ps.params, 1, lo)
			want := Try(func() string {
				if err := sp.run(ref); err != nil {
					return "err"
				}
				return c04Polys(ps.ctPolysAt(ref, 1, lo))
			})
			if want != "err" && want != "panic" {
				if sp.tieLow != nil {
					sp.tieLow(lo, want)
				}
				check("lower", lo, lo, want)
			} else {
				c.Probe("receiver_recycled", fmt.Sprintf("%s lower-fresh recvLvl=%d %s", sp.op, lo, sp.args), "C04-recycled-receiver-"+sp.op, "fresh lower receiver: "+want)
			}
		}
	}
}

// c04Trunc keeps the first lo+1 rows of every polynomial.
func c04Trunc(ps [][][]uint64, lo int) [][][]uint64 {
	out := make([][][]uint64, len(ps))
	for i := range ps {
		out[i] = ps[i][:lo+1]
	}
	return out
}

// c04RecycleLevels: dedicated sweep with >= 3 primes and the ciphertext in the middle of the chain, so that both
// the higher and the lower receiver exist for every operation.
func c04RecycleLevels(c *Ctx) {
	rounds := c.Scale(2, 12)
	for r := 0; r < rounds; r++ {
		nQ := 3 + c.rng.Intn(2)
		nP := 1 + c.rng.Intn(3)
		ps := c04RandomPS(c, 4, nQ, nP)
		cfg := c04KeyCfg{lq: nQ - 1, lp: nP - 1}
		if r%2 == 1 {
			cfg.lp = 0
			cfg.w = 6 + c.rng.Intn(20)
		}
		c.Count(fmt.Sprintf("recyclelevels:Q%d:P%d:w%d", nQ, nP, cfg.w))
		c04ForceLvl = 1 + c.rng.Intn(nQ-2)
		c04BothDomains = true
		c04Scenario(c, ps, cfg, false)
		c04BothDomains = false
		c04ForceLvl = -1
	}
}
