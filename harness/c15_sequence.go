package main

// C15 — call history of a Combiner, and the structure of the Shamir polynomial.
//
// c15Sequences: ONE Combiner per party serves a SEQUENCE of different groups of active parties
// (different subsets, different orders, repeated groups, refused requests in between), the active
// list being passed
//   fresh     as a newly allocated slice per call
//   reused    as one buffer overwritten in place between calls
//   window    as sub-slices of one array (sliding windows, the array rewritten between rounds)
//   long      as a buffer longer than t whose first t entries are overwritten in place
// Probes:
//   history_sequence      every result = the result of a freshly built Combiner given a fresh slice
//                         key C15/GenAdditiveShare/depends-on-call-history
//   sequence_reconstruct  a sequence of groups, every member using its long-lived Combiner, its own
//                         re-used active-list buffer and a re-used output key: each group's additive
//                         shares sum to the ideal key     key C15/protocol/combiner-reuse
// Tie: addshare_seq (the model threads the Combiner's scratch buffer through the calls).
//
// c15GenPoly: GenShamirPolynomial
//   genpoly_structure  exactly t coefficients, constant term = the secret, the t-1 sampled
//                      coefficients are pairwise distinct objects (no shared storage: writing one
//                      leaves the others unchanged), pairwise different, reduced, and coefficient j
//                      equals the j-th draw of a twin sampler keyed like the Thresholdizer's
//                                                     key C15/GenShamirPolynomial/coefficients
//   genpoly_rank       modulo every prime the t-1 sampled coefficients, as vectors over the slots,
//                      are linearly independent (so the polynomial has degree exactly t-1 and no
//                      fixed combination of fewer than t shares cancels the masks), and for every
//                      pair of parties the two-share combination that would cancel a common mask
//                      does not return the secret     key C15/GenShamirPolynomial/fewer-than-t-determine-secret

import (
	"fmt"
	"strings"
	"unsafe"

	"github.com/tuneinsight/lattigo/v6/core/rlwe"
	"github.com/tuneinsight/lattigo/v6/multiparty"
	"github.com/tuneinsight/lattigo/v6/ring/ringqp"
	"github.com/tuneinsight/lattigo/v6/utils/sampling"
)

var c15SeqModes = []string{"fresh", "reused", "window", "long"}

func c15Sequences(c *Ctx, sets []c15Set) {
	reps := c.Scale(2, 8)
	for _, s := range sets {
		for rep := 0; rep < reps; rep++ {
			n := 2 + c.rng.Intn(5)
			t := 1 + c.rng.Intn(n)
			if rep == 0 {
				n, t = 4, 2
			}
			if rep == 1 {
				n, t = 5, 3
			}
			fam := c.rng.Intn(c15NFam)
			pts := c15Points(c, s, fam, n)
			st := c15DoSetup(c, s, t, n, pts, false)
			base := s.name + " " + c15FamName[fam] + " t=" + I(t) + " N=" + I(n) + " pts=" + c15Pts(pts)
			for _, mode := range c15SeqModes {
				c15SeqParty(c, st, mode, base)
			}
			c15SeqProtocol(c, st, base)
		}
	}
}

// groups containing party i, as index lists in random order; some repeated, some permuted
func c15GroupsFor(c *Ctx, st *c15Setup, i int, k int) [][]int {
	var out [][]int
	for len(out) < k {
		g := []int{i}
		for _, j := range c.c15Shuffle(c15Iota(st.n)) {
			if j != i && len(g) < st.t {
				g = append(g, j)
			}
		}
		g = c.c15Shuffle(g)
		out = append(out, g)
		switch c.rng.Intn(4) {
		case 0:
			out = append(out, append([]int{}, g...)) // same group again
		case 1:
			out = append(out, c.c15Shuffle(g)) // same group, another order
		}
	}
	return out[:k]
}

func c15PtsOf(st *c15Setup, g []int) []multiparty.ShamirPublicPoint {
	ap := make([]multiparty.ShamirPublicPoint, len(g))
	for k, a := range g {
		ap[k] = st.pts[a]
	}
	return ap
}

func c15SeqParty(c *Ctx, st *c15Setup, mode string, base string) {
	s, t, n := st.s, st.t, st.n
	i := c.rng.Intn(n)
	k := c.Scale(5, 9)
	groups := c15GroupsFor(c, st, i, k)
	cmb := multiparty.NewCombiner(s.params, st.pts[i], st.pts, t) // serves the whole sequence
	buf := make([]multiparty.ShamirPublicPoint, t)
	long := make([]multiparty.ShamirPublicPoint, n+2)
	arr := make([]multiparty.ShamirPublicPoint, 2*t+1)
	detail := ""
	calls := []string{}
	outs := []string{}
	for gi, g := range groups {
		ap := c15PtsOf(st, g)
		// a refused request in between (too few), same buffer
		if gi == 2 && t > 1 {
			sk := rlwe.NewSecretKey(s.params)
			if res := c15TryErr(func() error { return cmb.GenAdditiveShare(ap[:t-1], st.pts[i], st.tsks[i], sk) }); res != "err" {
				detail = "request with t-1 points in the sequence returned " + res
				break
			}
			calls = append(calls, U(uint64(st.pts[i]))+":"+c15Pts(ap[:t-1])+":"+c15M(st.tsks[i].Poly))
			outs = append(outs, "err")
		}
		var arg []multiparty.ShamirPublicPoint
		switch mode {
		case "fresh":
			arg = append([]multiparty.ShamirPublicPoint{}, ap...)
		case "reused":
			copy(buf, ap)
			arg = buf
		case "window":
			off := gi % (t + 1)
			if off == 0 {
				for x := range arr {
					arr[x] = st.pts[c.rng.Intn(n)]
				}
			}
			copy(arr[off:off+t], ap)
			arg = arr[off : off+t]
		case "long":
			for x := range long {
				long[x] = st.pts[c.rng.Intn(n)]
			}
			copy(long, ap)
			arg = long
		}
		sk := rlwe.NewSecretKey(s.params)
		res := c15TryErr(func() error { return cmb.GenAdditiveShare(arg, st.pts[i], st.tsks[i], sk) })
		// reference: a freshly built combiner, a fresh slice
		ref := rlwe.NewSecretKey(s.params)
		fresh := multiparty.NewCombiner(s.params, st.pts[i], st.pts, t)
		res0 := c15TryErr(func() error {
			return fresh.GenAdditiveShare(append([]multiparty.ShamirPublicPoint{}, arg...), st.pts[i], st.tsks[i], ref)
		})
		calls = append(calls, U(uint64(st.pts[i]))+":"+c15Pts(arg)+":"+c15M(st.tsks[i].Poly))
		if res == "ok" {
			outs = append(outs, c15M(sk.Value))
		} else {
			outs = append(outs, res)
		}
		if res != res0 {
			detail = fmt.Sprintf("call %d of the sequence (group %s) returned %s, a fresh Combiner returns %s", gi, IVec(g), res, res0)
			break
		}
		if res == "ok" && !c15EqRows(c15Rows(sk.Value), c15Rows(ref.Value)) {
			prev := "-"
			if gi > 0 {
				prev = IVec(groups[gi-1])
			}
			detail = fmt.Sprintf("party %d, call %d of the sequence on one Combiner: the additive share for the group %s differs from the one a freshly built Combiner derives (previous group served: %s; active list passed as %s)", i, gi, IVec(g), prev, mode)
			break
		}
		for x := range ap {
			if arg[x] != ap[x] {
				detail = "GenAdditiveShare modified activesPoints"
			}
		}
	}
	c.Probe("history_sequence", base+" party="+I(i)+" actives_as="+mode+" calls="+I(len(groups)), "C15/GenAdditiveShare/depends-on-call-history", detail)
	if !probesOnly() && detail == "" && (mode == "reused" || mode == "fresh") {
		c.Emit("addshare_seq "+s.ring()+" "+I(t)+" "+U(uint64(st.pts[i]))+" "+c15Pts(st.pts)+" "+I(len(calls))+" "+strings.Join(calls, " "), strings.Join(outs, "|"))
		c.Count("tie:addshare_seq:" + mode)
	}
}

// whole reconstruction for a sequence of groups: long-lived combiners, per-party re-used buffers
func c15SeqProtocol(c *Ctx, st *c15Setup, base string) {
	s, t, n := st.s, st.t, st.n
	bufs := make([][]multiparty.ShamirPublicPoint, n)
	outs := make([]*rlwe.SecretKey, n)
	for i := range bufs {
		bufs[i] = make([]multiparty.ShamirPublicPoint, t)
		outs[i] = rlwe.NewSecretKey(s.params)
	}
	subsets := c15Subsets(n, t)
	k := c.Scale(4, 10)
	detail := ""
	served := []string{}
	for round := 0; round < k && detail == ""; round++ {
		sub := subsets[c.rng.Intn(len(subsets))]
		served = append(served, IVec(sub))
		sum := s.ringQP.NewPoly()
		for _, i := range sub {
			copy(bufs[i], c15PtsOf(st, c.c15Shuffle(sub))) // the party's own buffer, overwritten in place
			if res := c15TryErr(func() error { return st.cmbs[i].GenAdditiveShare(bufs[i], st.pts[i], st.tsks[i], outs[i]) }); res != "ok" {
				detail = fmt.Sprintf("round %d group %s: GenAdditiveShare of party %d returned %s", round, IVec(sub), i, res)
				break
			}
			s.ringQP.Add(sum, outs[i].Value, sum)
		}
		if detail == "" && !c15PolyEq(sum, st.skIdeal) {
			detail = fmt.Sprintf("round %d: the additive shares of the group %s do not sum to the ideal secret key (groups served before by the same Combiners and buffers: %s)", round, IVec(sub), strings.Join(served[:len(served)-1], " "))
		}
	}
	c.Probe("sequence_reconstruct", base+" rounds="+I(k), "C15/protocol/combiner-reuse", detail)
}

// ---------------------------------------------------------------------------------------------

func c15ModPow(a, e, q uint64) uint64 {
	r := uint64(1) % q
	a %= q
	for ; e > 0; e >>= 1 {
		if e&1 == 1 {
			r = c15MulMod(r, a, q)
		}
		a = c15MulMod(a, a, q)
	}
	return r
}

// rank modulo the prime q of the matrix whose columns are the given vectors
func c15RankMod(cols [][]uint64, q uint64) int {
	if len(cols) == 0 {
		return 0
	}
	rows := len(cols[0])
	m := make([][]uint64, rows)
	for r := range m {
		m[r] = make([]uint64, len(cols))
		for cc := range cols {
			m[r][cc] = cols[cc][r] % q
		}
	}
	rank := 0
	for cc := 0; cc < len(cols) && rank < rows; cc++ {
		p := -1
		for r := rank; r < rows; r++ {
			if m[r][cc] != 0 {
				p = r
				break
			}
		}
		if p < 0 {
			continue
		}
		m[rank], m[p] = m[p], m[rank]
		inv := c15ModPow(m[rank][cc], q-2, q)
		for r := rank + 1; r < rows; r++ {
			if m[r][cc] == 0 {
				continue
			}
			f := c15MulMod(m[r][cc], inv, q)
			for x := cc; x < len(cols); x++ {
				m[r][x] = c15AddMod(m[r][x], q-c15MulMod(f, m[rank][x], q), q)
			}
		}
		rank++
	}
	return rank
}

func c15FirstWord(p ringqp.Poly) *uint64 { return &p.Q.Coeffs[0][0] }

func c15GenPoly(c *Ctx, sets []c15Set) {
	reps := c.Scale(2, 6)
	for _, s := range sets {
		kgen := rlwe.NewKeyGenerator(s.params)
		for t := 1; t <= 8; t++ {
			for rep := 0; rep < reps; rep++ {
				if !c.Thorough() && t > 6 && rep > 0 {
					continue
				}
				mark := RandMark()
				thr := multiparty.NewThresholdizer(s.params)
				keys := RandKeysSince(mark)
				var twin ringqp.UniformSampler
				haveTwin := false
				if len(keys) >= 1 {
					if prng, err := sampling.NewKeyedPRNG(keys[len(keys)-1]); err == nil {
						twin = ringqp.NewUniformSampler(prng, *s.ringQP)
						haveTwin = true
					}
				}
				ncalls := 1 + c.rng.Intn(2) // the second polynomial continues the sampler's stream
				for call := 0; call < ncalls; call++ {
					sk := kgen.GenSecretKeyNew()
					skRows := c15CopyRows(c15Rows(sk.Value))
					gen, err := thr.GenShamirPolynomial(t, sk)
					base := s.name + " t=" + I(t) + " call=" + I(call)
					detail := ""
					switch {
					case err != nil:
						detail = "GenShamirPolynomial returned an error"
					case len(gen.Value) != t:
						detail = fmt.Sprintf("%d coefficients, want t=%d", len(gen.Value), t)
					case !c15EqRows(c15Rows(gen.Value[0]), skRows):
						detail = "constant term is not the secret"
					}
					if detail == "" {
						// twin replay first (before anything is written)
						for j := 1; j < t && detail == "" && haveTwin; j++ {
							d := s.ringQP.NewPoly()
							twin.Read(d)
							if !c15EqRows(c15Rows(gen.Value[j]), c15Rows(d)) {
								detail = fmt.Sprintf("coefficient %d is not the %d-th draw of the Thresholdizer's sampler (twin replay)", j, j)
							}
						}
						for j := 1; j < t && detail == ""; j++ {
							for m, row := range c15Rows(gen.Value[j]) {
								for _, w := range row {
									if w >= s.ms[m] {
										detail = fmt.Sprintf("coefficient %d not reduced", j)
									}
								}
							}
							for j2 := 0; j2 < j && detail == ""; j2++ {
								if unsafe.Pointer(c15FirstWord(gen.Value[j])) == unsafe.Pointer(c15FirstWord(gen.Value[j2])) {
									detail = fmt.Sprintf("coefficients %d and %d share their storage", j2, j)
								} else if c15EqRows(c15Rows(gen.Value[j]), c15Rows(gen.Value[j2])) {
									detail = fmt.Sprintf("coefficients %d and %d are equal", j2, j)
								}
							}
						}
						// distinct objects: writing one coefficient leaves every other unchanged
						if detail == "" && t >= 2 {
							snap := c15PolyRows(gen.Value)
							j := 1 + c.rng.Intn(t-1)
							cp := *gen.Value[j].CopyNew()
							c15Dirty(c, s.ms, gen.Value[j], c15DirtyJunk)
							for j2 := 0; j2 < t; j2++ {
								if j2 != j && !c15EqRows(c15Rows(gen.Value[j2]), snap[j2]) {
									detail = fmt.Sprintf("writing coefficient %d changed coefficient %d (shared storage)", j, j2)
								}
							}
							gen.Value[j].Copy(cp)
						}
					}
					c.Probe("genpoly_structure", base+" twin="+fmt.Sprint(haveTwin), "C15/GenShamirPolynomial/coefficients", detail)

					// rank / fewer-than-t
					detail = ""
					if err == nil && len(gen.Value) == t && t >= 2 {
						for m, q := range s.ms {
							cols := make([][]uint64, 0, t-1)
							for j := 1; j < t; j++ {
								cols = append(cols, c15Rows(gen.Value[j])[m])
							}
							if rk := c15RankMod(cols, q); rk != t-1 && s.n >= t-1 {
								detail = fmt.Sprintf("modulo %d the %d sampled coefficients have rank %d over the slots (want %d): the masks are linearly dependent", q, t-1, rk, t-1)
								break
							}
							lead := cols[len(cols)-1]
							zero := true
							for _, w := range lead {
								if w%q != 0 {
									zero = false
								}
							}
							if zero {
								detail = fmt.Sprintf("modulo %d the leading coefficient vanishes: degree < t-1", q)
								break
							}
						}
						// the two-share combination that cancels a common mask c·(x+…+x^(t-1))
						if detail == "" && t >= 3 {
							pp := c15Points(c, s, c15Small, 2) // distinct and non-zero modulo every prime
							x1, x2 := uint64(pp[0]), uint64(pp[1])
							coeffs := c15PolyRows(gen.Value)
							f1 := c15RefHorner(s.ms, coeffs, x1)
							f2 := c15RefHorner(s.ms, coeffs, x2)
							for m, q := range s.ms {
								g := func(x uint64) uint64 {
									acc := uint64(0)
									for e := 1; e < t; e++ {
										acc = c15AddMod(acc, c15ModPow(x, uint64(e), q), q)
									}
									return acc
								}
								g1, g2 := g(x1), g(x2)
								den := c15AddMod(g2, q-g1, q)
								if den == 0 {
									continue
								}
								inv := c15ModPow(den, q-2, q)
								all := true
								for w := range f1[m] {
									num := c15AddMod(c15MulMod(g2, f1[m][w], q), q-c15MulMod(g1, f2[m][w], q), q)
									if c15MulMod(num, inv, q) != skRows[m][w]%q {
										all = false
										break
									}
								}
								if all {
									detail = fmt.Sprintf("t=%d: the shares at the two points %d and %d alone determine the secret modulo %d (fixed linear combination)", t, x1, x2, q)
									break
								}
							}
						}
					}
					if t >= 2 {
						c.Probe("genpoly_rank", base, "C15/GenShamirPolynomial/fewer-than-t-determine-secret", detail)
					}
				}
			}
		}
	}
}
