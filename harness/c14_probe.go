package main

// C14 probes: functional use of the collective keys, CRS determinism, rejection of mismatched shares.
//
// Explicit error bounds (worst case, every quantity an integer; d = ring degree, N = parties,
// B = ⌈Xe.Bound⌉+1 bounds every Gaussian draw, secrets are ternary so |Σ s_i|∞ ≤ N):
//
//   public key     pk = (−a·s + E, a), E = Σ e_i, |E|∞ ≤ N·B.  Enc_pk(m) = (u·pk0 + e0 + m, u·pk1 + e1)
//                  (÷P with rounding when P exists) has phase m + u·E + e0 + e1·s (+ rounding ≤ 1 + d·N):
//                  |err| ≤ d·N·B + B + d·N·B + 1 + d·N  ≤  N·(2dB + B + d + 1)            [N × the N=1 bound]
//   evaluation /   row (i,j) has phase w_ij·s_in + E_ij, |E_ij|∞ ≤ N·B.  Key switching adds
//   Galois key     Σ_ij d_ij·E_ij / P (+ rounding ≤ 1 + d·N), |d_ij|∞ ≤ D_ij with D_ij = 2^b when the
//                  power-of-two decomposition is active and (k_P+1)·Π_{r∈digit i} q_r otherwise:
//                  |err| ≤ N·(d·B·ΣD/P + d + 1)                                            [N × the N=1 bound]
//   relin. key     row (i,j) has phase w_ij·s² + s·E0 + u·E1 + E2 (theorem rkg_row), |·|∞ ≤ N·B·(2dN+1):
//                  |err| ≤ d·ΣD·N·B·(2dN+1)/P + N·(d+1)  ≤ N²·(d·ΣD·B·(2d+1)/P + d + 1)    [N² × the N=1 bound;
//                  in standard deviations the growth is N, see multiparty.NoiseRelinearizationKey]

import (
	"fmt"
	"math"
	"math/big"
	"reflect"
	"strings"
	"sync"

	"github.com/tuneinsight/lattigo/v6/core/rlwe"
	"github.com/tuneinsight/lattigo/v6/multiparty"
	"github.com/tuneinsight/lattigo/v6/ring"
	"github.com/tuneinsight/lattigo/v6/ring/ringqp"
	"github.com/tuneinsight/lattigo/v6/utils"
	"github.com/tuneinsight/lattigo/v6/utils/sampling"
)

// c14Guard runs one generator step; a panic inside it (of the library or of the harness' own replay)
// becomes a failing probe instead of aborting the run.
func c14Guard(c *Ctx, key, label string, f func()) {
	defer func() {
		if r := recover(); r != nil {
			msg := strings.Map(func(x rune) rune {
				if x == ' ' || x == '\n' || x == '\t' {
					return '_'
				}
				return x
			}, fmt.Sprint(r))
			if len(msg) > 120 {
				msg = msg[:120]
			}
			c.Probe("run_completed", strings.ReplaceAll(label, " ", "_"), key, "panic:"+msg)
		}
	}()
	f()
}

// c14Refused: a call that must be refused (documented error) on a receiver holding a valid earlier result:
// an error is returned AND the receiver is left completely unchanged (`snap` captures polynomials and metadata).
func c14Refused(c *Ctx, fn, what, label string, snap func() string, call func() error) {
	before := snap()
	v := Try(func() string {
		if err := call(); err != nil {
			return "err"
		}
		return "accepted"
	})
	detail := ""
	if v != "err" {
		detail = what + "_" + v + "_instead_of_error"
	} else if snap() != before {
		detail = what + "_refused_but_the_receiver_was_modified"
	}
	prop := "C14"
	if strings.HasPrefix(fn, "C16:") {
		prop, fn = "C16", fn[4:]
	}
	c.Probe("refused_call_keeps_receiver", fn+" "+what+" "+label, prop+"/"+fn+"/refused-call-modified-receiver", detail)
}

func c14GSnap(params rlwe.Parameters, g *rlwe.GadgetCiphertext) string {
	return c14G(params, g, true, true)
}

func c14B(params rlwe.Parameters) int64 {
	return int64(math.Ceil(params.Xe().(ring.DiscreteGaussian).Bound)) + 1
}

// c14Bs bounds the coefficients of a secret drawn from the declared Xs (1 for ternary secrets).
func c14Bs(params rlwe.Parameters) int64 {
	if g, ok := params.Xs().(ring.DiscreteGaussian); ok {
		return int64(math.Ceil(g.Bound)) + 1
	}
	return 1
}

// c14Norm returns the infinity norm of the centred coefficients of p (NTT domain if ntt).
func c14Norm(r *ring.Ring, p ring.Poly, ntt bool) *big.Int {
	t := *p.CopyNew()
	if ntt {
		r.INTT(t, t)
	}
	co := make([]*big.Int, r.N())
	for i := range co {
		co[i] = new(big.Int)
	}
	r.PolyToBigintCentered(t, 1, co)
	m := new(big.Int)
	for _, x := range co {
		if x.CmpAbs(m) > 0 {
			m.Abs(x)
		}
	}
	return m
}

func c14RandPt(c *Ctx, params rlwe.Parameters, lvl int) *rlwe.Plaintext {
	prng, _ := sampling.NewKeyedPRNG(c.rng.Bytes(32))
	pt := rlwe.NewPlaintext(params, lvl)
	ring.NewUniformSampler(prng, params.RingQ()).AtLevel(lvl).Read(pt.Value)
	return pt
}

func c14RandCt(c *Ctx, params rlwe.Parameters, deg, lvl int) *rlwe.Ciphertext {
	prng, _ := sampling.NewKeyedPRNG(c.rng.Bytes(32))
	ct := rlwe.NewCiphertext(params, deg, lvl)
	us := ring.NewUniformSampler(prng, params.RingQ()).AtLevel(lvl)
	for i := range ct.Value {
		us.Read(ct.Value[i])
	}
	return ct
}

// c14SumD returns ΣD_ij for the given key parameterisation and the divisor P.
func c14SumD(set c14Set, cfg c14Evk, shape []int) (sumD, P *big.Int) {
	P = big.NewInt(1)
	for _, p := range set.ps(cfg.lp) {
		P.Mul(P, new(big.Int).SetUint64(p))
	}
	kp := cfg.lp + 1
	if kp < 1 {
		kp = 1
	}
	sumD = new(big.Int)
	for i, cnt := range shape {
		var D *big.Int
		if cfg.b2 > 0 && cfg.lp <= 0 {
			D = new(big.Int).Lsh(big.NewInt(1), uint(cfg.b2))
		} else {
			D = big.NewInt(int64(kp + 1))
			for r := i * kp; r < (i+1)*kp && r <= cfg.lq; r++ {
				D.Mul(D, new(big.Int).SetUint64(set.q[r]))
			}
		}
		sumD.Add(sumD, new(big.Int).Mul(D, big.NewInt(int64(cnt))))
	}
	return
}

// c14KSBound = N·(d·B·ΣD/P + d + 1), rlk: d·ΣD·N·B·(2dN+1)/P + N(d+1)
func c14KSBound(set c14Set, cfg c14Evk, shape []int, n int, rlk bool) *big.Int {
	sumD, P := c14SumD(set, cfg, shape)
	d := int64(set.n)
	B := c14B(set.params)
	h := d * c14Bs(set.params) // ‖s_i‖₁ ≤ h (= d for ternary secrets)
	t := new(big.Int).Mul(sumD, big.NewInt(d*B*int64(n)))
	if rlk {
		t.Mul(t, big.NewInt(2*h*int64(n)+1))
	}
	t.Div(t, P)
	t.Add(t, big.NewInt(int64(n)*(h+1)+1))
	return t
}

func c14Vacuous(c *Ctx, set c14Set, lq int, bound *big.Int) bool {
	half := new(big.Int).Rsh(set.params.RingQ().AtLevel(lq).ModulusAtLevel[lq], 2)
	if bound.Cmp(half) >= 0 {
		c.Count("key_works_bound_exceeds_Q/4(vacuous)")
		return true
	}
	return false
}

var c14BaselineCache = map[string]bool{}

// c14Baseline reports whether a SINGLE-PARTY evaluation key with this parameterisation (rlwe.KeyGenerator,
// fresh secrets) re-encrypts within the N=1 bound.  Parameterisations the single-party code cannot use
// (no P and no power-of-two decomposition over several primes; LevelP=-1 under parameters that have P)
// are outside "every parameterisation the protocol accepts ... as a single-party key would".
func c14Baseline(c *Ctx, set c14Set, cfg c14Evk) bool {
	key := set.name + " " + cfg.String()
	if v, ok := c14BaselineCache[key]; ok {
		return v
	}
	params := set.params
	res := Try(func() string {
		kgen := rlwe.NewKeyGenerator(params)
		sk1, sk2 := kgen.GenSecretKeyNew(), kgen.GenSecretKeyNew()
		evk := kgen.GenEvaluationKeyNew(sk1, sk2, cfg.params())
		bound := c14KSBound(set, cfg, evk.BaseTwoDecompositionVectorSize(), 1, false)
		pt := c14RandPt(c, params, cfg.lq)
		ct := rlwe.NewCiphertext(params, 1, cfg.lq)
		if err := rlwe.NewEncryptor(params, sk1).Encrypt(pt, ct); err != nil {
			return "encrypt_error"
		}
		out := rlwe.NewCiphertext(params, 1, cfg.lq)
		if err := rlwe.NewEvaluator(params, nil).ApplyEvaluationKey(ct, evk, out); err != nil {
			return "apply_error"
		}
		p1 := rlwe.NewPlaintext(params, cfg.lq)
		p2 := rlwe.NewPlaintext(params, cfg.lq)
		rlwe.NewDecryptor(params, sk1).Decrypt(ct, p1)
		rlwe.NewDecryptor(params, sk2).Decrypt(out, p2)
		r := params.RingQ().AtLevel(cfg.lq)
		r.Sub(p2.Value, p1.Value, p2.Value)
		if e := c14Norm(r, p2.Value, true); e.Cmp(bound) > 0 {
			return "noise"
		}
		return ""
	})
	c14BaselineCache[key] = res == ""
	if res != "" {
		c.Count("single_party_baseline_unusable:" + res)
	}
	return res == ""
}

func c14Ragged(shape []int) bool {
	for _, s := range shape {
		if s != shape[0] {
			return true
		}
	}
	return false
}

func c14ProbePK(c *Ctx, set c14Set, n int, keys c14Keys, pk *rlwe.PublicKey) {
	params := set.params
	lvl := set.maxQ()
	d, B := int64(set.n), c14B(params)
	h := d * c14Bs(params)
	bound := big.NewInt(int64(n) * (2*h*B + B + h + 1))
	detail := Try(func() string {
		pt := c14RandPt(c, params, lvl)
		ct := rlwe.NewCiphertext(params, 1, lvl)
		if err := rlwe.NewEncryptor(params, pk).Encrypt(pt, ct); err != nil {
			return "encrypt_error"
		}
		got := rlwe.NewPlaintext(params, lvl)
		rlwe.NewDecryptor(params, keys.ideal).Decrypt(ct, got)
		r := params.RingQ().AtLevel(lvl)
		r.Sub(got.Value, pt.Value, got.Value)
		if e := c14Norm(r, got.Value, true); e.Cmp(bound) > 0 {
			return fmt.Sprintf("error=%s>bound=%s", e, bound)
		}
		return ""
	})
	c14Vacuous(c, set, lvl, bound)
	c.Probe("collective_key_works", fmt.Sprintf("cpk set=%s N=%d bound=%s", set.name, n, bound)+c14ProbeTag, "C14-cpk-noise", detail)
}

// (the ragged-decomposition defect C14-genevk-len-m0 is repaired: one finding key per key type)
func c14KeyFinding(shape []int, dflt string) string { return dflt }

func c14ProbeEVK(c *Ctx, set c14Set, n int, cfg c14Evk, in, out c14Keys, evk *rlwe.EvaluationKey, panicked bool) {
	params := set.params
	if !c14Baseline(c, set, cfg) {
		c.Count("key_works_skipped(single-party key unusable too):evk")
		return
	}
	shape := evk.BaseTwoDecompositionVectorSize()
	bound := c14KSBound(set, cfg, shape, n, false)
	detail := "GenEvaluationKey_panicked"
	if !panicked {
		detail = Try(func() string {
			pt := c14RandPt(c, params, cfg.lq)
			ct := rlwe.NewCiphertext(params, 1, cfg.lq)
			if err := rlwe.NewEncryptor(params, in.ideal).Encrypt(pt, ct); err != nil {
				return "encrypt_error"
			}
			res := rlwe.NewCiphertext(params, 1, cfg.lq)
			if err := rlwe.NewEvaluator(params, nil).ApplyEvaluationKey(ct, evk, res); err != nil {
				return "apply_error"
			}
			p1 := rlwe.NewPlaintext(params, cfg.lq)
			p2 := rlwe.NewPlaintext(params, cfg.lq)
			rlwe.NewDecryptor(params, in.ideal).Decrypt(ct, p1)
			rlwe.NewDecryptor(params, out.ideal).Decrypt(res, p2)
			r := params.RingQ().AtLevel(cfg.lq)
			r.Sub(p2.Value, p1.Value, p2.Value)
			if e := c14Norm(r, p2.Value, true); e.Cmp(bound) > 0 {
				return fmt.Sprintf("error=2^%d>bound=2^%d", e.BitLen(), bound.BitLen())
			}
			return ""
		})
	}
	c14Vacuous(c, set, cfg.lq, bound)
	if c14Ragged(shape) {
		c.Count("evk_ragged_decomposition")
	}
	c.Probe("collective_key_works", fmt.Sprintf("evk set=%s %s N=%d shape=%s bound=2^%d", set.name, cfg, n, c14Shape(shape), bound.BitLen())+c14ProbeTag,
		c14KeyFinding(shape, "C14-evk-noise"), detail)
}

func c14ProbeGAL(c *Ctx, set c14Set, n int, cfg c14Evk, keys c14Keys, galEl uint64, gk *rlwe.GaloisKey, panicked bool) {
	params := set.params
	if !c14Baseline(c, set, cfg) {
		c.Count("key_works_skipped(single-party key unusable too):gal")
		return
	}
	shape := gk.BaseTwoDecompositionVectorSize()
	bound := c14KSBound(set, cfg, shape, n, false)
	detail := "GenGaloisKey_panicked"
	if !panicked {
		detail = Try(func() string {
			if gk.GaloisElement != galEl {
				return "wrong_galois_element_tag"
			}
			pt := c14RandPt(c, params, cfg.lq)
			ct := rlwe.NewCiphertext(params, 1, cfg.lq)
			if err := rlwe.NewEncryptor(params, keys.ideal).Encrypt(pt, ct); err != nil {
				return "encrypt_error"
			}
			res := rlwe.NewCiphertext(params, 1, cfg.lq)
			if err := rlwe.NewEvaluator(params, rlwe.NewMemEvaluationKeySet(nil, gk)).Automorphism(ct, galEl, res); err != nil {
				return "automorphism_error"
			}
			p1 := rlwe.NewPlaintext(params, cfg.lq)
			p2 := rlwe.NewPlaintext(params, cfg.lq)
			dec := rlwe.NewDecryptor(params, keys.ideal)
			dec.Decrypt(ct, p1)
			dec.Decrypt(res, p2)
			r := params.RingQ().AtLevel(cfg.lq)
			exp := r.NewPoly()
			r.AutomorphismNTT(p1.Value, galEl, exp)
			r.Sub(p2.Value, exp, p2.Value)
			if e := c14Norm(r, p2.Value, true); e.Cmp(bound) > 0 {
				return fmt.Sprintf("error=2^%d>bound=2^%d", e.BitLen(), bound.BitLen())
			}
			return ""
		})
	}
	c14Vacuous(c, set, cfg.lq, bound)
	if c14Ragged(shape) {
		c.Count("gal_ragged_decomposition")
	}
	c.Probe("collective_key_works", fmt.Sprintf("gal set=%s %s N=%d galEl=%d shape=%s bound=2^%d", set.name, cfg, n, galEl, c14Shape(shape), bound.BitLen())+c14ProbeTag,
		c14KeyFinding(shape, "C14-gal-noise"), detail)
}

func c14ProbeRLK(c *Ctx, set c14Set, n int, cfg c14Evk, keys c14Keys, rlk *rlwe.RelinearizationKey) {
	params := set.params
	if !c14Baseline(c, set, cfg) {
		c.Count("key_works_skipped(single-party key unusable too):rlk")
		return
	}
	shape := rlk.BaseTwoDecompositionVectorSize()
	bound := c14KSBound(set, cfg, shape, n, true)
	detail := Try(func() string {
		ct := c14RandCt(c, params, 2, cfg.lq)
		res := rlwe.NewCiphertext(params, 1, cfg.lq)
		if err := rlwe.NewEvaluator(params, rlwe.NewMemEvaluationKeySet(rlk)).Relinearize(ct, res); err != nil {
			return "relinearize_error"
		}
		p1 := rlwe.NewPlaintext(params, cfg.lq)
		p2 := rlwe.NewPlaintext(params, cfg.lq)
		dec := rlwe.NewDecryptor(params, keys.ideal)
		dec.Decrypt(ct, p1)
		dec.Decrypt(res, p2)
		r := params.RingQ().AtLevel(cfg.lq)
		r.Sub(p2.Value, p1.Value, p2.Value)
		if e := c14Norm(r, p2.Value, true); e.Cmp(bound) > 0 {
			return fmt.Sprintf("error=2^%d>bound=2^%d", e.BitLen(), bound.BitLen())
		}
		return ""
	})
	c14Vacuous(c, set, cfg.lq, bound)
	c.Probe("collective_key_works", fmt.Sprintf("rlk set=%s %s N=%d shape=%s bound=2^%d", set.name, cfg, n, c14Shape(shape), bound.BitLen())+c14ProbeTag,
		"C14-rlk-noise", detail)
}

// ---------------------------------------------------------------------------------------------
// CRS determinism

func c14CRSDeterminism(c *Ctx, set c14Set) {
	params := set.params
	key := c.rng.Bytes(32)
	cfgs := c14EvkConfigs(set)
	// the call sequence: cpk, then evk / rlk / gal / cks reference polynomials for a few configurations
	type step struct {
		kind int
		cfg  c14Evk
	}
	var seq []step
	for i := 0; i < c.Scale(6, 24); i++ {
		seq = append(seq, step{c.rng.Intn(5), cfgs[c.rng.Intn(len(cfgs))]})
	}
	run := func(order []step) []string {
		crs, _ := sampling.NewKeyedPRNG(key)
		ckg := multiparty.NewPublicKeyGenProtocol(params)
		evkg := multiparty.NewEvaluationKeyGenProtocol(params)
		rkg := multiparty.NewRelinearizationKeyGenProtocol(params)
		gkg := multiparty.NewGaloisKeyGenProtocol(params)
		cks, _ := multiparty.NewKeySwitchProtocol(params, ring.DiscreteGaussian{Sigma: 3.2, Bound: 19.2})
		var out []string
		for _, st := range order {
			switch st.kind {
			case 0:
				out = append(out, Mat(c14QPRows(params, ckg.SampleCRP(crs).Value, false, false)))
			case 1:
				out = append(out, Mat(c14CRPRows(params, evkg.SampleCRP(crs, st.cfg.params()).Value, false)))
			case 2:
				out = append(out, Mat(c14CRPRows(params, rkg.SampleCRP(crs, st.cfg.params()).Value, false)))
			case 3:
				out = append(out, Mat(c14CRPRows(params, gkg.SampleCRP(crs, st.cfg.params()).Value, false)))
			case 4:
				out = append(out, Mat(RawRows(cks.SampleCRP(st.cfg.lq, crs).Value)))
			}
		}
		return out
	}
	a, b := run(seq), run(seq)
	detail := ""
	for i := range a {
		if a[i] != b[i] {
			detail = fmt.Sprintf("step_%d_differs", i)
			break
		}
	}
	c.Probe("crs_determinism", fmt.Sprintf("set=%s steps=%d", set.name, len(seq)), "C14-crs-determinism", detail)
	// sanity of the probe itself: a different call sequence gives different polynomials
	if len(seq) > 1 {
		sw := append([]step{seq[len(seq)-1]}, seq[:len(seq)-1]...)
		d := run(sw)
		if d[0] != a[len(a)-1] {
			c.Count("crs_other_sequence_differs")
		}
	}
}

// ---------------------------------------------------------------------------------------------
// CRS rewound with Reset()

// c14CRSSets: rings for the CRS probes only: small degrees (N*8 bytes per row far below any read-ahead
// size) and primes just above a power of two, where the uniform sampler rejects almost every second
// draw, so that the number of bytes consumed from the CRS is irregular.
var c14CRSSetsCache []c14Set

func c14CRSSets() []c14Set {
	if c14CRSSetsCache == nil {
		mk := func(name string, logN int, q, p []uint64) c14Set {
			params, err := rlwe.NewParametersFromLiteral(rlwe.ParametersLiteral{LogN: logN, Q: q, P: p, NTTFlag: true})
			if err != nil {
				panic(fmt.Errorf("c14 crs params %s: %w", name, err))
			}
			return c14Set{name: name, params: params, n: 1 << logN, nRing: 1 << logN, q: q, p: p}
		}
		for _, logN := range []int{4, 5, 7, 9, 10} {
			twoN := uint64(2) << uint(logN)
			c14CRSSetsCache = append(c14CRSSetsCache,
				mk(fmt.Sprintf("crsRej46N%d", 1<<logN), logN, []uint64{0x200000440001, c16PrimeAbove(35, twoN, 0)}, []uint64{c16PrimeAbove(50, twoN, 0)}),
				mk(fmt.Sprintf("crsRej30N%d", 1<<logN), logN, []uint64{c16PrimeAbove(29, twoN, 0), c16PrimeAbove(29, twoN, 1), c16PrimeAbove(44, twoN, 0)}, nil))
		}
	}
	return c14CRSSetsCache
}

type c14CRSStep struct {
	kind int
	cfg  c14Evk
}

// c14CRSRun makes the SampleCRP calls of order on crs and returns the raw reference polynomials.
func c14CRSRun(params rlwe.Parameters, crs *sampling.KeyedPRNG, order []c14CRSStep) []string {
	ckg := multiparty.NewPublicKeyGenProtocol(params)
	evkg := multiparty.NewEvaluationKeyGenProtocol(params)
	rkg := multiparty.NewRelinearizationKeyGenProtocol(params)
	gkg := multiparty.NewGaloisKeyGenProtocol(params)
	cks, _ := multiparty.NewKeySwitchProtocol(params, ring.DiscreteGaussian{Sigma: 3.2, Bound: 19.2})
	var out []string
	for _, st := range order {
		switch st.kind {
		case 0:
			out = append(out, c14RawQP(ckg.SampleCRP(crs).Value))
		case 1:
			out = append(out, c14RawCRP(evkg.SampleCRP(crs, st.cfg.params()).Value))
		case 2:
			out = append(out, c14RawCRP(rkg.SampleCRP(crs, st.cfg.params()).Value))
		case 3:
			out = append(out, c14RawCRP(gkg.SampleCRP(crs, st.cfg.params()).Value))
		case 4:
			out = append(out, Mat(RawRows(cks.SampleCRP(st.cfg.lq, crs).Value)))
		}
	}
	return out
}

// c14CRSReset: a party that REWINDS its CRS with Reset() and a party that creates the CRS from the same
// key make the same SampleCRP calls and must obtain the same reference polynomials, whatever was
// sampled (or read) before the rewind.
func c14CRSReset(c *Ctx, set c14Set) {
	params := set.params
	key := c.rng.Bytes(32)
	cfgs := c14EvkConfigs(set)
	var seq []c14CRSStep
	for i := 0; i < c.Scale(4, 10); i++ {
		seq = append(seq, c14CRSStep{c.rng.Intn(5), cfgs[c.rng.Intn(len(cfgs))]})
	}
	seq[0].kind = 0 // the collective public key first, as in a session
	fresh := func() *sampling.KeyedPRNG {
		p, err := sampling.NewKeyedPRNG(key)
		if err != nil {
			panic(err)
		}
		return p
	}
	wantSteps := c14CRSRun(params, fresh(), seq)
	want := strings.Join(wantSteps, "#")
	detail := ""
	fail := func(f string, a ...interface{}) {
		if detail == "" {
			detail = strings.ReplaceAll(fmt.Sprintf(f, a...), " ", "_")
		}
	}
	cases := 0
	// (a) SampleCRP ..., Reset, SampleCRP ... for every prefix of the sequence before the rewind
	for pre := 0; pre <= len(seq); pre++ {
		crs := fresh()
		c14CRSRun(params, crs, seq[:pre])
		crs.Reset()
		if got := strings.Join(c14CRSRun(params, crs, seq), "#"); got != want {
			fail("after %d SampleCRP calls and Reset() the CRS gives other reference polynomials than a fresh CRS from the same key", pre)
		}
		cases++
	}
	// (b) raw reads of every residue before the rewind (and two rewinds in a row, and a rewind of a fresh CRS)
	lens := []int{1, 7, 8, 63, 64, 65, 1000, 1023, 1024, 1025, 2048, 4095, 4096, 4097, 5000, 8191, 8192, 8 * set.nRing, 8*set.nRing + 3, 1 + c.rng.Intn(20000)}
	for _, k := range lens {
		crs := fresh()
		buf := make([]byte, k)
		if _, err := crs.Read(buf); err != nil {
			fail("Read(%d bytes): %v", k, err)
		}
		crs.Reset()
		if k%2 == 0 {
			crs.Reset()
		}
		if got := strings.Join(c14CRSRun(params, crs, seq[:2]), "#"); got != strings.Join(wantSteps[:2], "#") {
			fail("after Read(%d bytes) and Reset() the CRS gives other reference polynomials than a fresh CRS from the same key", k)
		}
		// the stream itself: first bytes after a rewind = first bytes of a fresh generator
		crs.Reset()
		x, y := make([]byte, 96), make([]byte, 96)
		_, _ = crs.Read(x)
		_, _ = fresh().Read(y)
		if Hex(x) != Hex(y) {
			fail("after Reset() (preceded by Read(%d bytes) and SampleCRP calls) the first 96 bytes differ from a fresh generator's", k)
		}
		cases++
	}
	// (c) Reset in the middle, twice: run, Reset, run, Reset, run
	crs := fresh()
	for r := 0; r < 3; r++ {
		if got := strings.Join(c14CRSRun(params, crs, seq), "#"); got != want {
			fail("pass %d of run/Reset()/run gives other reference polynomials", r)
		}
		crs.Reset()
		cases++
	}
	c.Probe("crs_reset_replays", fmt.Sprintf("set=%s steps=%d cases=%d", set.name, len(seq), cases), "C14-crs-reset", detail)
}

// c14CRSResetParties: party 0 keeps ONE CRS object for the whole session and rewinds it between the
// protocols; the other parties create the CRS from the key for each protocol.  Every party generates
// its share with ITS OWN reference polynomial; the collective keys must work.
func c14CRSResetParties(c *Ctx, set c14Set, n int) {
	params := set.params
	key := c.rng.Bytes(32)
	fresh := func() *sampling.KeyedPRNG {
		p, err := sampling.NewKeyedPRNG(key)
		if err != nil {
			panic(err)
		}
		return p
	}
	keys := c14GenKeys(set, n)
	own := fresh() // party 0's generator, rewound between protocols
	cfg := c14Evk{set.maxQ(), set.maxP(), 0}
	if set.maxP() < 0 {
		cfg = c14Evk{set.maxQ(), -1, 16}
	}
	ep := cfg.params()
	ckg := multiparty.NewPublicKeyGenProtocol(params)
	gkg := multiparty.NewGaloisKeyGenProtocol(params)
	galEl := params.GaloisElement(1)
	detail := ""
	for round := 0; round < 3; round++ {
		// protocol 1: collective public key
		crps := make([]multiparty.PublicKeyGenCRP, n)
		for i := range crps {
			if i == 0 {
				crps[i] = ckg.SampleCRP(own)
			} else {
				crps[i] = ckg.SampleCRP(fresh())
			}
			if detail == "" && c14RawQP(crps[i].Value) != c14RawQP(crps[0].Value) {
				detail = fmt.Sprintf("round_%d_cpk:_party_%d_(fresh_CRS_from_the_key)_and_party_0_(rewound_CRS)_hold_different_reference_polynomials", round, i)
			}
		}
		agg := ckg.AllocateShare()
		for i := 0; i < n; i++ {
			sh := ckg.AllocateShare()
			ckg.GenShare(keys.sk[i], crps[i], &sh)
			if i == 0 {
				agg = sh
			} else {
				ckg.AggregateShares(agg, sh, &agg)
			}
		}
		pk := rlwe.NewPublicKey(params)
		ckg.GenPublicKey(agg, crps[0], pk)
		c14ProbeTag = fmt.Sprintf(" crs_rewound_by_party0 round=%d", round)
		c14ProbePK(c, set, n, keys, pk)
		c14ProbeTag = ""
		own.Reset()
		// protocol 2: a Galois key, again from the start of the CRS
		gcrps := make([]multiparty.GaloisKeyGenCRP, n)
		for i := range gcrps {
			if i == 0 {
				gcrps[i] = gkg.SampleCRP(own, ep)
			} else {
				gcrps[i] = gkg.SampleCRP(fresh(), ep)
			}
			if detail == "" && c14RawCRP(gcrps[i].Value) != c14RawCRP(gcrps[0].Value) {
				detail = fmt.Sprintf("round_%d_gal:_party_%d_(fresh_CRS_from_the_key)_and_party_0_(rewound_CRS)_hold_different_reference_polynomials", round, i)
			}
		}
		var gagg multiparty.GaloisKeyGenShare
		ok := true
		for i := 0; i < n; i++ {
			sh := gkg.AllocateShare(ep)
			if err := gkg.GenShare(keys.sk[i], galEl, gcrps[i], &sh); err != nil {
				ok = false
				break
			}
			if i == 0 {
				gagg = sh
			} else if err := gkg.AggregateShares(gagg, sh, &gagg); err != nil {
				ok = false
				break
			}
		}
		if ok {
			gk := rlwe.NewGaloisKey(params, ep)
			if err := gkg.GenGaloisKey(gagg, gcrps[0], gk); err == nil && c14Baseline(c, set, cfg) {
				c14ProbeTag = fmt.Sprintf(" crs_rewound_by_party0 round=%d", round)
				c14ProbeGAL(c, set, n, cfg, keys, galEl, gk, false)
				c14ProbeTag = ""
			}
		}
		own.Reset()
	}
	c.Probe("crs_reset_parties_agree", fmt.Sprintf("set=%s N=%d rounds=3 protocols=cpk,gal", set.name, n), "C14-crs-reset", detail)
}

// c14CRSTie: the reference polynomials as a function of the CRS bytes.  A twin generator with the
// same key provides the byte stream; the model replays the samplers (fresh 1024-byte buffers per
// SampleCRP, rejection sampling under the per-prime mask) and also predicts the CRS position, checked
// through the next 8 bytes read from the real CRS after the calls.
func c14CRSTie(c *Ctx, set c14Set) {
	params := set.params
	key := c.rng.Bytes(32)
	crs, _ := sampling.NewKeyedPRNG(key)
	twin, _ := sampling.NewKeyedPRNG(key)
	cfgs := c14EvkConfigs(set)
	ckg := multiparty.NewPublicKeyGenProtocol(params)
	evkg := multiparty.NewEvaluationKeyGenProtocol(params)
	rkg := multiparty.NewRelinearizationKeyGenProtocol(params)
	gkg := multiparty.NewGaloisKeyGenProtocol(params)
	cks, _ := multiparty.NewKeySwitchProtocol(params, ring.DiscreteGaussian{Sigma: 3.2, Bound: 19.2})
	var reqs, polys []string
	total := 0
	qpRaw := func(m [][]ringqp.Poly) {
		for i := range m {
			for j := range m[i] {
				rows := RawRows(m[i][j].Q)
				if m[i][j].P.Level() >= 0 {
					rows = append(rows, RawRows(m[i][j].P)...)
				}
				polys = append(polys, Mat(rows))
				total += len(rows)
			}
		}
	}
	for i := 0; i < c.Scale(3, 5); i++ {
		cfg := cfgs[c.rng.Intn(len(cfgs))]
		kind := c.rng.Intn(5)
		switch kind {
		case 0:
			crp := ckg.SampleCRP(crs)
			reqs = append(reqs, Vec(set.qs(set.maxQ()))+" "+Vec(set.ps(set.maxP()))+" 1")
			qpRaw([][]ringqp.Poly{{crp.Value}})
		case 4:
			crp := cks.SampleCRP(cfg.lq, crs)
			reqs = append(reqs, Vec(set.qs(cfg.lq))+" - 1")
			polys = append(polys, Mat(RawRows(crp.Value)))
			total += cfg.lq + 1
		default:
			var m [][]ringqp.Poly
			switch kind {
			case 1:
				m = evkg.SampleCRP(crs, cfg.params()).Value
			case 2:
				m = rkg.SampleCRP(crs, cfg.params()).Value
			default:
				m = gkg.SampleCRP(crs, cfg.params()).Value
			}
			cnt := 0
			for _, r := range m {
				cnt += len(r)
			}
			reqs = append(reqs, Vec(set.qs(cfg.lq))+" "+Vec(set.ps(cfg.lp))+" "+I(cnt))
			qpRaw(m)
		}
	}
	next := make([]byte, 8)
	_, _ = crs.Read(next)
	var nx uint64
	for _, b := range next {
		nx = nx<<8 | uint64(b)
	}
	// generous prefix of the stream: rejection rate < 1/2 per draw, one partial buffer per sampler and call
	nbytes := ((total*set.nRing*8*4)/1024 + 4*len(reqs) + 8) * 1024
	stream := make([]byte, nbytes)
	_, _ = twin.Read(stream)
	c.Emit("crs "+I(set.nRing)+" "+I(len(reqs))+" "+strings.Join(reqs, " ")+" "+Hex(stream), strings.Join(polys, "|")+" "+U(nx))
	c.Count("crs_tie")
}

// ---------------------------------------------------------------------------------------------
// noise of the collective public key against the DECLARED error distribution

type c14NoiseStat struct {
	n     int
	sumSq float64
	sigma float64
}

var c14CPKStats = map[string]*c14NoiseStat{}

// c14CPKNoise: (a) the error of the collective public key, phase(pk, Σ s_i) = Σ e_i, is at most N·⌈Xe.Bound⌉ — N times the
// single-party bound implied by the declared Xe; (b) the error found in every party's real share (share + s_i·a) is pooled,
// separately for protocol instances obtained by ShallowCopy, for the two-sided statistical test of c14CPKNoiseProbes.
func c14CPKNoise(c *Ctx, set c14Set, n int, keys c14Keys, pk *rlwe.PublicKey, shares []multiparty.PublicKeyGenShare, crp multiparty.PublicKeyGenCRP, isCopy []bool) {
	params := set.params
	r := params.RingQ()
	xe := params.Xe().(ring.DiscreteGaussian)
	resid := func(b, a ring.Poly, sk *rlwe.SecretKey) ring.Poly {
		// stored words: b = e·R − s·a (NTT), sk in Montgomery form: e·R = b + MRed(sk, a)
		t := r.NewPoly()
		r.MulCoeffsMontgomery(sk.Value.Q, a, t)
		r.Add(t, b, t)
		r.IMForm(t, t)
		return t
	}
	bound := big.NewInt(int64(n) * int64(math.Ceil(xe.Bound)))
	detail := ""
	if e := c14Norm(r, resid(pk.Value[0].Q, pk.Value[1].Q, keys.ideal), true); e.Cmp(bound) > 0 {
		detail = fmt.Sprintf("key_error=%s>N*ceil(Xe.Bound)=%s", e, bound)
	}
	c.Probe("collective_key_noise", fmt.Sprintf("cpk set=%s N=%d Xe.sigma=%g Xe.bound=%g", set.name, n, xe.Sigma, xe.Bound), "C14-cpk-declared-noise", detail)
	for i := range shares {
		key := fmt.Sprintf("cpk_share set=%s ctor=%s", set.name, map[bool]string{false: "new", true: "copy"}[isCopy[i]])
		st := c14CPKStats[key]
		if st == nil {
			st = &c14NoiseStat{sigma: xe.Sigma}
			c14CPKStats[key] = st
		}
		for _, x := range c14Signed(r, resid(shares[i].Value.Q, crp.Value.Q, keys.sk[i]), true, false) {
			if set.params.RingType() == ring.ConjugateInvariant {
				// (unfolded representation repeats every coefficient with both signs: same second moment)
			}
			st.n++
			st.sumSq += float64(x) * float64(x)
		}
	}
}

// c14CPKNoiseProbes (statistical, labelled): pooled standard deviation of the errors in the real shares within five standard
// errors (+2% for the truncation at Xe.Bound) of the declared σ, on both sides.
func c14CPKNoiseProbes(c *Ctx) {
	keys := make([]string, 0, len(c14CPKStats))
	for k := range c14CPKStats {
		keys = append(keys, k)
	}
	sortStrings(keys)
	for _, k := range keys {
		st := c14CPKStats[k]
		std := math.Sqrt(st.sumSq / float64(st.n))
		tol := 5/math.Sqrt(2*float64(st.n)) + 0.02
		detail := ""
		// a Gaussian truncated at Bound = 2σ has standard deviation 0.88σ: the lower side allows for the truncation
		lo := st.sigma * (1 - tol)
		if k2 := c14TruncFactor(k); k2 < 1 {
			lo *= k2
		}
		if std < lo {
			detail = fmt.Sprintf("std=%.3f<declared=%.3f", std, st.sigma)
		} else if std > st.sigma*(1+tol) {
			detail = fmt.Sprintf("std=%.3f>declared=%.3f", std, st.sigma)
		}
		c.Probe("share_noise_matches_Xe", fmt.Sprintf("%s samples=%d std_milli=%d sigma_milli=%d tol_ppm=%d statistical", strings.ReplaceAll(k, " ", "_"), st.n, int(std*1000), int(st.sigma*1000), int(tol*1e6)),
			"C14-cpk-declared-noise", detail)
	}
	c14CPKStats = map[string]*c14NoiseStat{}
}

// sets whose Xe is truncated at two standard deviations (discrete values −2…2): std ≈ 0.85σ
func c14TruncFactor(key string) float64 {
	if strings.Contains(key, "narrowXe") || strings.Contains(key, "NarrowXe") {
		return 0.75
	}
	return 1
}

// ---------------------------------------------------------------------------------------------
// ShallowCopy: no scratch buffer shared between an instance and its copy

// c14Buffers collects the addresses of the mutable buffers reachable from v: the rows of every ring.Poly and every *big.Int
// (polynomial scratch space, masks).  Read-only tables are not followed: parameters, rings, encoders' tables, samplers (their
// buffers are private to the sampler and replaced together with it), the zero secret key (`zero`, never written).
func c14Buffers(v reflect.Value, path string, out map[uintptr]string, seen map[uintptr]bool, depth int) {
	if depth > 12 {
		return
	}
	switch v.Kind() {
	case reflect.Ptr, reflect.Interface:
		if v.IsNil() {
			return
		}
		if v.Kind() == reflect.Ptr {
			if v.Type() == reflect.TypeOf((*big.Int)(nil)) {
				out[v.Pointer()] = path
				return
			}
			if seen[v.Pointer()] {
				return
			}
			seen[v.Pointer()] = true
		}
		c14Buffers(v.Elem(), path, out, seen, depth+1)
	case reflect.Struct:
		name := v.Type().Name()
		switch {
		case strings.HasSuffix(name, "Parameters"), name == "Ring", name == "SubRing", name == "BasisExtender",
			name == "Encoder", strings.HasSuffix(name, "Sampler"), name == "KeyedPRNG":
			return
		}
		if v.Type() == reflect.TypeOf(ring.Poly{}) {
			co := v.FieldByName("Coeffs")
			for i := 0; i < co.Len(); i++ {
				if co.Index(i).Len() > 0 {
					out[co.Index(i).Pointer()] = fmt.Sprintf("%s.Coeffs[%d]", path, i)
				}
			}
			return
		}
		for i := 0; i < v.NumField(); i++ {
			f := v.Type().Field(i)
			if f.Name == "zero" || f.Name == "defaultScale" {
				continue // read-only after construction
			}
			c14Buffers(v.Field(i), path+"."+f.Name, out, seen, depth+1)
		}
	case reflect.Slice, reflect.Array:
		if v.Kind() == reflect.Slice && v.IsNil() {
			return
		}
		k := v.Type().Elem().Kind()
		if k == reflect.Uint64 || k == reflect.Uint8 || k == reflect.Float64 || k == reflect.Int {
			return
		}
		for i := 0; i < v.Len() && i < 4096; i++ {
			c14Buffers(v.Index(i), fmt.Sprintf("%s[%d]", path, i), out, seen, depth+1)
		}
	}
}

// c14SharedScratch: the buffers of an instance and of its ShallowCopy must be disjoint.
func c14SharedScratch(c *Ctx, prop, name string, orig, cp interface{}) {
	a, b := map[uintptr]string{}, map[uintptr]string{}
	c14Buffers(reflect.ValueOf(orig), name, a, map[uintptr]bool{}, 0)
	c14Buffers(reflect.ValueOf(cp), name, b, map[uintptr]bool{}, 0)
	detail := ""
	for p, where := range a {
		if w2, ok := b[p]; ok {
			detail = "buffer_shared_with_the_copy:" + where + "=" + w2
			break
		}
	}
	c.Probe("no_shared_scratch", fmt.Sprintf("%s buffers=%d/%d", name, len(a), len(b)), prop+"/"+name+".ShallowCopy/shared-scratch", detail)
}

func c14ScratchAll(c *Ctx, set c14Set) {
	params := set.params
	ckg := multiparty.NewPublicKeyGenProtocol(params)
	c14SharedScratch(c, "C14", "PublicKeyGenProtocol", ckg, ckg.ShallowCopy())
	evkg := multiparty.NewEvaluationKeyGenProtocol(params)
	c14SharedScratch(c, "C14", "EvaluationKeyGenProtocol", evkg, evkg.ShallowCopy())
	gkg := multiparty.NewGaloisKeyGenProtocol(params)
	gcp := gkg.ShallowCopy()
	c14SharedScratch(c, "C14", "GaloisKeyGenProtocol", gkg, gcp)
	c14SharedScratch(c, "C14", "GaloisKeyGenProtocol(copy_of_copy)", gcp, gcp.ShallowCopy())
	rkg := multiparty.NewRelinearizationKeyGenProtocol(params)
	c14SharedScratch(c, "C14", "RelinearizationKeyGenProtocol", rkg, rkg.ShallowCopy())
}

// c14ConcurrentGalois: the parties' GenShare run in goroutines, every party on its own ShallowCopy (a copy of the previous
// party's instance), released together by a barrier; the collective Galois key must work.  Ring degree 2^10 (no tie: the
// model is not executed at this size), so that the calls overlap.
func c14ConcurrentGalois(c *Ctx) {
	set := c14NewSet("conc", 10, []int{50, 50}, []int{55})
	params := set.params
	reps := c.Scale(3, 20)
	for rep := 0; rep < reps; rep++ {
		n := 8
		keys := c14GenKeys(set, n)
		_, crs := c14CRS(c)
		cfg := c14Evk{set.maxQ(), set.maxP(), 0}
		galEl := params.GaloisElement(1 + rep)
		protos := make([]multiparty.GaloisKeyGenProtocol, n)
		protos[0] = multiparty.NewGaloisKeyGenProtocol(params)
		for i := 1; i < n; i++ {
			protos[i] = protos[c.rng.Intn(i)].ShallowCopy()
		}
		crp := protos[0].SampleCRP(crs, cfg.params())
		shares := make([]multiparty.GaloisKeyGenShare, n)
		for i := range shares {
			shares[i] = protos[i].AllocateShare(cfg.params())
		}
		start := make(chan struct{})
		var wg sync.WaitGroup
		for i := range shares {
			wg.Add(1)
			go func(i int) {
				defer wg.Done()
				<-start
				for k := 0; k < 4; k++ { // the last of several overlapping calls is kept
					_ = protos[i].GenShare(keys.sk[i], galEl, crp, &shares[i])
				}
			}(i)
		}
		close(start)
		wg.Wait()
		agg := shares[0]
		for i := 1; i < n; i++ {
			_ = protos[0].AggregateShares(agg, shares[i], &agg)
		}
		gk := rlwe.NewGaloisKey(params, cfg.params())
		_ = protos[0].GenGaloisKey(agg, crp, gk)
		c14ProbeTag = " concurrent_GenShare_on_ShallowCopies"
		c14ProbeGAL(c, set, n, cfg, keys, galEl, gk, false)
		c14ProbeTag = ""
	}
}

// c14CRSShared: the CRS-sharing workflow.  Party 0 creates the CRS with sampling.NewPRNG() and ships crs.Key(); every
// other party rebuilds it with sampling.NewKeyedPRNG(key).  With the same sequence of SampleCRP calls all parties must hold
// bit-identical reference polynomials, and the collective public key generated from each party's OWN copy must work.
func c14CRSShared(c *Ctx, set c14Set, n int) {
	params := set.params
	crs0, err := sampling.NewPRNG()
	if err != nil {
		panic(err)
	}
	key := crs0.Key()
	crss := []*sampling.KeyedPRNG{crs0}
	for i := 1; i < n; i++ {
		p, err := sampling.NewKeyedPRNG(key)
		if err != nil {
			panic(err)
		}
		crss = append(crss, p)
	}
	cfgs := c14EvkConfigs(set)
	cfgA, cfgB := cfgs[c.rng.Intn(len(cfgs))], cfgs[c.rng.Intn(len(cfgs))]
	ckg := multiparty.NewPublicKeyGenProtocol(params)
	evkg := multiparty.NewEvaluationKeyGenProtocol(params)
	rkg := multiparty.NewRelinearizationKeyGenProtocol(params)
	gkg := multiparty.NewGaloisKeyGenProtocol(params)
	cpkCRP := make([]multiparty.PublicKeyGenCRP, n)
	seqs := make([]string, n)
	for i, crs := range crss {
		var sb strings.Builder
		cpkCRP[i] = ckg.SampleCRP(crs)
		sb.WriteString(c14RawQP(cpkCRP[i].Value))
		sb.WriteString(c14RawCRP(rkg.SampleCRP(crs, cfgA.params()).Value))
		sb.WriteString(c14RawCRP(gkg.SampleCRP(crs, cfgB.params()).Value))
		sb.WriteString(c14RawCRP(evkg.SampleCRP(crs, cfgA.params()).Value))
		seqs[i] = sb.String()
	}
	detail := ""
	for i := 1; i < n; i++ {
		if seqs[i] != seqs[0] {
			detail = fmt.Sprintf("party_%d_rebuilt_from_Key()_samples_other_reference_polynomials_than_the_creator", i)
			break
		}
	}
	allZero := true
	for _, b := range key {
		if b != 0 {
			allZero = false
		}
	}
	if detail == "" && allZero {
		detail = "Key()_of_a_NewPRNG_generator_is_all_zero"
	}
	c.Probe("crs_shared_via_key", fmt.Sprintf("set=%s N=%d calls=cpk,rkg(%s),gal(%s),evk", set.name, n, strings.ReplaceAll(cfgA.String(), " ", ","), strings.ReplaceAll(cfgB.String(), " ", ",")),
		"C14-crs-key-sharing", detail)

	// the collective public key with each party using its own copy of the reference polynomial
	keys := c14GenKeys(set, n)
	agg := ckg.AllocateShare()
	for i := 0; i < n; i++ {
		sh := ckg.AllocateShare()
		ckg.GenShare(keys.sk[i], cpkCRP[i], &sh)
		if i == 0 {
			agg = sh
		} else {
			ckg.AggregateShares(agg, sh, &agg)
		}
	}
	pk := rlwe.NewPublicKey(params)
	ckg.GenPublicKey(agg, cpkCRP[0], pk)
	c14ProbeTag = " crs_shared_via_Key()"
	c14ProbePK(c, set, n, keys, pk)
	c14ProbeTag = ""
}

// ---------------------------------------------------------------------------------------------
// mismatched shares

func c14Mismatch(c *Ctx, set c14Set) {
	params := set.params
	keys := c14GenKeys(set, 2)
	_, crs := c14CRS(c)
	evkg := multiparty.NewEvaluationKeyGenProtocol(params)
	gkg := multiparty.NewGaloisKeyGenProtocol(params)
	rkg := multiparty.NewRelinearizationKeyGenProtocol(params)

	verdict := func(f func() error) string {
		return Try(func() string {
			if err := f(); err != nil {
				return "err"
			}
			return "combined"
		})
	}
	report := func(kind, what, key, v string) {
		detail := ""
		if v != "err" {
			detail = what + "_" + v + "_instead_of_error"
		}
		c.Probe("mismatch_rejected", fmt.Sprintf("kind=%s set=%s", kind, set.name), key, detail)
	}
	mk := func(cfg c14Evk, sk *rlwe.SecretKey) multiparty.EvaluationKeyGenShare {
		sh := evkg.AllocateShare(cfg.params())
		crp := evkg.SampleCRP(crs, cfg.params())
		if err := evkg.GenShare(sk, sk, crp, &sh); err != nil {
			panic(err)
		}
		return sh
	}
	tieAgg := func(s1, s2, s3 multiparty.EvaluationKeyGenShare, lq, lp int) string {
		g1 := c14G(params, &s1.GadgetCiphertext, true, true)
		g2 := c14G(params, &s2.GadgetCiphertext, true, true)
		g3 := c14G(params, &s3.GadgetCiphertext, true, true)
		res := Try(func() string {
			if err := evkg.AggregateShares(s1, s2, &s3); err != nil {
				return "err"
			}
			return Mat(c14GRows(params, &s3.GadgetCiphertext, true, true))
		})
		c.Emit("evk_agg "+set.ringTok(lq, lp)+" "+g1+" "+g2+" "+g3, res)
		c.Count("evk_agg_tie")
		if res != "err" && res != "panic" {
			return "combined"
		}
		return res
	}

	lp0 := utils.Min(0, set.maxP())
	base := c14Evk{set.maxQ(), lp0, 16}

	// 1. Galois element
	{
		cfg := c14Evk{set.maxQ(), set.maxP(), 0}
		if set.maxP() < 0 {
			cfg.b2 = 16
		}
		{
			crp := gkg.SampleCRP(crs, cfg.params())
			s1, s2, s3 := gkg.AllocateShare(cfg.params()), gkg.AllocateShare(cfg.params()), gkg.AllocateShare(cfg.params())
			_ = gkg.GenShare(keys.sk[0], params.GaloisElement(1), crp, &s1)
			_ = gkg.GenShare(keys.sk[1], params.GaloisElement(2), crp, &s2)
			g1, g2, g3 := c14GalG(params, &s1), c14GalG(params, &s2), c14GalG(params, &s3)
			v := verdict(func() error { return gkg.AggregateShares(s1, s2, &s3) })
			report("galois_element", "AggregateShares", "C14-gal-mismatch", v)
			out := v
			if v == "combined" {
				out = U(s3.GaloisElement) + " " + Mat(c14GRows(params, &s3.GadgetCiphertext, true, true))
			}
			c.Emit("gal_agg "+set.ringTok(cfg.lq, cfg.lp)+" "+g1+" "+g2+" "+g3, out)
			// same element: accepted (the predicate is not trivially "err")
			_ = gkg.GenShare(keys.sk[1], params.GaloisElement(1), crp, &s2)
			g2 = c14GalG(params, &s2)
			g3 = c14GalG(params, &s3)
			out = Try(func() string {
				if err := gkg.AggregateShares(s1, s2, &s3); err != nil {
					return "err"
				}
				return U(s3.GaloisElement) + " " + Mat(c14GRows(params, &s3.GadgetCiphertext, true, true))
			})
			c.Emit("gal_agg "+set.ringTok(cfg.lq, cfg.lp)+" "+g1+" "+g2+" "+g3, out)
			c.Count("gal_agg_tie")
		}
	}
	// every assignment of two mismatching shares A, B to the roles (share1, share2, output), the output
	// being fresh (allocated like A or like B) or one of the operands (in place)
	roles := func(kind, key string, a, b multiparty.EvaluationKeyGenShare, ca, cb c14Evk, lq, lp int) {
		type role struct {
			name   string
			s1, s2 multiparty.EvaluationKeyGenShare
			out    func() multiparty.EvaluationKeyGenShare
		}
		freshA := func() multiparty.EvaluationKeyGenShare { return evkg.AllocateShare(ca.params()) }
		freshB := func() multiparty.EvaluationKeyGenShare { return evkg.AllocateShare(cb.params()) }
		for _, r := range []role{
			{"A+B->freshA", a, b, freshA}, {"A+B->freshB", a, b, freshB}, {"B+A->freshA", b, a, freshA}, {"B+A->freshB", b, a, freshB},
			{"A+B->A", a, b, func() multiparty.EvaluationKeyGenShare { return a }}, {"A+B->B", a, b, func() multiparty.EvaluationKeyGenShare { return b }},
			{"B+A->B", b, a, func() multiparty.EvaluationKeyGenShare { return b }}, {"B+A->A", b, a, func() multiparty.EvaluationKeyGenShare { return a }},
		} {
			report(kind+"_"+r.name, "AggregateShares", key, tieAgg(r.s1, r.s2, r.out(), lq, lp))
		}
	}
	// 2. levels
	if set.maxQ() > 0 {
		cb := c14Evk{set.maxQ() - 1, lp0, 16}
		roles("levelQ", "C14-evk-level-mismatch", mk(base, keys.sk[0]), mk(cb, keys.sk[1]), base, cb, base.lq, base.lp)
	}
	if set.maxP() >= 0 {
		ca, cb := c14Evk{set.maxQ(), set.maxP(), 0}, c14Evk{set.maxQ(), set.maxP() - 1, 0}
		roles("levelP", "C14-evk-level-mismatch", mk(ca, keys.sk[0]), mk(cb, keys.sk[1]), ca, cb, set.maxQ(), set.maxP())
	}
	// 3. decomposition, same levels: BaseTwoDecomposition 16 vs 8 (different numbers of digits) and a pair of
	//    different BaseTwoDecomposition values that need the SAME number of digits for every prime
	{
		cb := c14Evk{base.lq, base.lp, 8}
		roles("decomposition_16_8", "C14-agg-decomp-unchecked", mk(base, keys.sk[0]), mk(cb, keys.sk[1]), base, cb, base.lq, base.lp)
		found := false
		for b1 := 30; b1 > 8 && !found; b1-- {
			for b2 := b1 - 1; b2 > 8 && b2 >= b1-3 && !found; b2-- {
				c1, c2 := c14Evk{base.lq, base.lp, b1}, c14Evk{base.lq, base.lp, b2}
				s1, s2 := evkg.AllocateShare(c1.params()), evkg.AllocateShare(c2.params())
				if IVec(s1.BaseTwoDecompositionVectorSize()) == IVec(s2.BaseTwoDecompositionVectorSize()) && s1.BaseTwoDecompositionVectorSize()[0] > 1 {
					roles(fmt.Sprintf("decomposition_%d_%d_equal_digit_counts", b1, b2), "C14-agg-decomp-unchecked", mk(c1, keys.sk[0]), mk(c2, keys.sk[1]), c1, c2, base.lq, base.lp)
					c.Count("mismatch_equal_digit_count_pair")
					found = true
				}
			}
		}
		if !found {
			c.Count("mismatch_no_equal_digit_count_pair")
		}
		// sanity: equal decompositions are accepted
		a := mk(base, keys.sk[0])
		if v := tieAgg(a, a, evkg.AllocateShare(base.params()), base.lq, base.lp); v != "combined" {
			panic("c14: equal shares rejected")
		}
		// Galois shares go through the same aggregation
		if set.maxP() >= 0 || true {
			ca, cb := base, c14Evk{base.lq, base.lp, 8}
			crpA, crpB := gkg.SampleCRP(crs, ca.params()), gkg.SampleCRP(crs, cb.params())
			ga, gb := gkg.AllocateShare(ca.params()), gkg.AllocateShare(cb.params())
			g := params.GaloisElement(1)
			if gkg.GenShare(keys.sk[0], g, crpA, &ga) == nil && gkg.GenShare(keys.sk[1], g, crpB, &gb) == nil {
				report("gal_decomposition_A+B->A", "GaloisKeyGenProtocol.AggregateShares", "C14-agg-decomp-unchecked", verdict(func() error { return gkg.AggregateShares(ga, gb, &ga) }))
				report("gal_decomposition_B+A->freshA", "GaloisKeyGenProtocol.AggregateShares", "C14-agg-decomp-unchecked", verdict(func() error {
					o := gkg.AllocateShare(ca.params())
					return gkg.AggregateShares(gb, ga, &o)
				}))
			}
		}
	}
	// 4. GenShare: CRP of another decomposition
	{
		sh := evkg.AllocateShare(base.params())
		crp := evkg.SampleCRP(crs, c14Evk{base.lq, base.lp, 8}.params())
		v := verdict(func() error { return evkg.GenShare(keys.sk[0], keys.sk[1], crp, &sh) })
		report("genshare_crp_decomposition", "GenShare", "C14-genshare-crp", v)
		crpShape := c14CRPShape(crp.Value)
		var es [][]int
		for _, k := range crpShape {
			for j := 0; j < k; j++ {
				es = append(es, make([]int, set.n))
			}
		}
		alloc := fmt.Sprintf("%d %d %d %s", sh.LevelQ(), sh.LevelP(), sh.BaseTwoDecomposition, c14Shape(sh.BaseTwoDecompositionVectorSize()))
		if v == "err" {
			c.Emit(fmt.Sprintf("evk_share %s %d %d %d %d %s %s %s %s %s %s", set.ringTok(base.lq, base.lp), keys.sk[0].LevelQ(), keys.sk[1].LevelQ(),
				keys.sk[0].LevelP(), keys.sk[1].LevelP(), IVec(keys.s[0]), IVec(keys.s[1]), c14Shape(crpShape), Mat(c14CRPRows(params, crp.Value, true)), c14IMat(es), alloc), "err")
		}
	}
	// 5. GenShare: share above the secret key's LevelQ is rejected; the LevelP test of GenShare
	//    compares the share with itself, so a secret key without the P part is not rejected.
	if set.maxQ() > 0 {
		low := rlwe.NewSecretKey(params)
		low.Value.Q.Resize(set.maxQ() - 1)
		sh := evkg.AllocateShare(base.params())
		crp := evkg.SampleCRP(crs, base.params())
		report("genshare_sk_levelQ", "GenShare", "C14-genshare-level", verdict(func() error { return evkg.GenShare(low, keys.sk[1], crp, &sh) }))
	}
	if set.maxP() >= 0 {
		cfg := c14Evk{set.maxQ(), set.maxP(), 0}
		noP := rlwe.NewSecretKey(params)
		noP.Value.Q.Copy(keys.sk[0].Value.Q)
		noP.Value.P = ring.Poly{}
		sh := evkg.AllocateShare(cfg.params())
		crp := evkg.SampleCRP(crs, cfg.params())
		v := verdict(func() error { return evkg.GenShare(keys.sk[0], noP, crp, &sh) })
		report("genshare_sk_levelP", "GenShare", "C14-genshare-levelP-selfcompare", v)
		if v == "err" {
			crpShape := c14CRPShape(crp.Value)
			var es [][]int
			for _, k := range crpShape {
				for j := 0; j < k; j++ {
					es = append(es, make([]int, set.n))
				}
			}
			alloc := fmt.Sprintf("%d %d %d %s", sh.LevelQ(), sh.LevelP(), sh.BaseTwoDecomposition, c14Shape(sh.BaseTwoDecompositionVectorSize()))
			c.Emit(fmt.Sprintf("evk_share %s %d %d %d %d %s %s %s %s %s %s", set.ringTok(cfg.lq, cfg.lp), keys.sk[0].LevelQ(), noP.LevelQ(),
				keys.sk[0].LevelP(), noP.LevelP(), IVec(keys.s[0]), IVec(keys.s[0]), c14Shape(crpShape), Mat(c14CRPRows(params, crp.Value, true)), c14IMat(es), alloc), "err")
		}
	}
	// 6. relinearisation shares: AggregateShares has no error result at all
	if set.maxQ() > 0 {
		_, a1, _ := rkg.AllocateShare(base.params())
		_, b1, _ := rkg.AllocateShare(c14Evk{set.maxQ() - 1, lp0, 16}.params())
		_, o1, _ := rkg.AllocateShare(base.params())
		v := Try(func() string { rkg.AggregateShares(a1, b1, &o1); return "combined" })
		report("rkg_levelQ", "RelinearizationKeyGenProtocol.AggregateShares", "C14-rkg-agg-unchecked", v)
		v = Try(func() string { rkg.AggregateShares(b1, a1, &o1); return "combined" })
		report("rkg_levelQ_swapped", "RelinearizationKeyGenProtocol.AggregateShares", "C14-rkg-agg-unchecked", v)
	}
	_ = strings.Join
}
