package main

// C10, rlwe layer: rlwe.RingPackingEvaluator.ShallowCopy and the blind-rotation evaluator (which has NO copy
// constructor of its own: the promoted ShallowCopy / WithKey return an *rgsw.Evaluator; the only way to a second
// blindrot.Evaluator is NewEvaluator).
//
//   table rlwe.RingPackingEvaluator.ShallowCopy
//   copy_behaves_same/rlwe.RingPackingEvaluator.ShallowCopy       Split/Merge/Extract/Repack(+Naive) bit-identical
//   copy_independent/rlwe.RingPackingEvaluator.ShallowCopy        everything reachable from the original unchanged
//   table blindrot.Evaluator.NewEvaluator[second-instance]
//   copy_behaves_same/blindrot.Evaluator.NewEvaluator[second-instance]
//   copy_independent/blindrot.Evaluator.NewEvaluator[second-instance]
//   reusable_after_use/blindrot.Evaluator.Evaluate                same call twice on ONE evaluator
//   shared_is_readonly/blindrot.MemBlindRotationEvaluationKeySet  keys shared by the two instances

import (
	"fmt"
	"sort"
	"strings"

	"github.com/tuneinsight/lattigo/v6/core/rgsw"
	"github.com/tuneinsight/lattigo/v6/core/rgsw/blindrot"
	"github.com/tuneinsight/lattigo/v6/core/rlwe"
	"github.com/tuneinsight/lattigo/v6/ring"
)

func c10CtMapHash(m map[int]*rlwe.Ciphertext) string {
	keys := make([]int, 0, len(m))
	for k := range m {
		keys = append(keys, k)
	}
	sort.Ints(keys)
	var sb strings.Builder
	for _, k := range keys {
		fmt.Fprintf(&sb, "%d:%s;", k, deepHash(m[k]))
	}
	return sb.String()
}

func c10CtMapCopy(m map[int]*rlwe.Ciphertext) map[int]*rlwe.Ciphertext {
	o := map[int]*rlwe.Ciphertext{}
	for k, v := range m {
		o[k] = v.CopyNew()
	}
	return o
}

func c10RLWE(c *Ctx) {
	c10RingPacking(c)
	c10BlindRot(c)
}

func c10RingPacking(c *Ctx) {
	name := "rlwe.RingPackingEvaluator.ShallowCopy"
	res := Try(func() string {
		logN, minLogN := 6, 4
		params, err := rlwe.NewParametersFromLiteral(rlwe.ParametersLiteral{LogN: logN, LogQ: []int{45, 40}, LogP: []int{50}, NTTFlag: true})
		must(err)
		lq, lp := params.MaxLevelQ(), params.MaxLevelP()
		evkParams := rlwe.EvaluationKeyParameters{LevelQ: &lq, LevelP: &lp}
		sk := rlwe.NewKeyGenerator(params).GenSecretKeyNew()
		rpk := &rlwe.RingPackingEvaluationKey{}
		ski, err := rpk.GenRingSwitchingKeys(params, sk, minLogN, evkParams)
		must(err)
		rpk.GenRepackEvaluationKeys(rpk.Parameters[minLogN], ski[minLogN], evkParams)
		rpk.GenRepackEvaluationKeys(rpk.Parameters[logN], ski[logN], evkParams)
		rpk.GenExtractEvaluationKeys(rpk.Parameters[minLogN], ski[minLogN], evkParams)
		orig := rlwe.NewRingPackingEvaluator(rpk)
		cp := orig.ShallowCopy()
		c10Tie(c, name, orig, cp)
		// the map of per-degree evaluators is rebuilt with shallow copies (the reflection walk of the map alone cannot
		// tell a rebuilt map holding the SAME evaluators from one holding copies: both are `mixed`)
		for k := minLogN; k <= logN; k++ {
			c10Tie(c, name+"/Evaluators", orig.Evaluators[k], cp.Evaluators[k])
		}

		enc := rlwe.NewEncryptor(params, sk)
		mkCt := func(level int) *rlwe.Ciphertext {
			pt := rlwe.NewPlaintext(params, level)
			pt.IsNTT = true
			for i := range pt.Value.Coeffs {
				for j := range pt.Value.Coeffs[i] {
					pt.Value.Coeffs[i][j] = uint64(c.rng.Intn(1 << 20))
				}
			}
			params.RingQ().AtLevel(level).NTT(pt.Value, pt.Value)
			ct, err := enc.EncryptNew(pt)
			must(err)
			return ct
		}
		run := func(ev *rlwe.RingPackingEvaluator, ct *rlwe.Ciphertext, idx map[int]bool) string {
			var out []string
			e, o, err := ev.SplitNew(ct.CopyNew())
			out = append(out, fmt.Sprintf("split:%v:%s:%s", err != nil, deepHash(e), deepHash(o)))
			if err == nil {
				m, err := ev.MergeNew(e.CopyNew(), o.CopyNew())
				out = append(out, fmt.Sprintf("merge:%v:%s", err != nil, deepHash(m)))
			}
			for _, naive := range []bool{false, true} {
				var cts map[int]*rlwe.Ciphertext
				if naive {
					cts, err = ev.ExtractNaive(ct.CopyNew(), idx)
				} else {
					cts, err = ev.Extract(ct.CopyNew(), idx)
				}
				out = append(out, fmt.Sprintf("extract(naive=%v):%v:%s", naive, err != nil, c10CtMapHash(cts)))
				if err != nil {
					continue
				}
				var r *rlwe.Ciphertext
				r, err = ev.Repack(c10CtMapCopy(cts))
				out = append(out, fmt.Sprintf("repack:%v:%s", err != nil, deepHash(r)))
				if !naive {
					r, err = ev.RepackNaive(c10CtMapCopy(cts))
					out = append(out, fmt.Sprintf("repacknaive:%v:%s", err != nil, deepHash(r)))
				}
			}
			return strings.Join(out, "|")
		}
		indep := ""
		for _, level := range []int{params.MaxLevel(), 0} {
			for _, gap := range []int{1, 4} {
				ct := mkCt(level)
				idx := map[int]bool{}
				for i := 0; i*gap < params.N(); i++ {
					idx[i*gap] = true
				}
				args := fmt.Sprintf("level=%d,gap=%d", level, gap)
				c10P(c, "copy_behaves_same/"+name, args, "C10-behaves-"+name, func() string {
					r1 := run(orig, ct, idx)
					h := deepHash(orig)
					run(cp, mkCt(level), idx) // another ciphertext: different scratch content
					if deepHash(orig) != h {
						indep += args + " "
					}
					r2 := run(cp, ct, idx)
					r3 := run(orig, ct, idx)
					r4 := run(cp.ShallowCopy(), ct, idx)
					if strings.Contains(r1, ":true:") {
						return "operation-failed-on-the-original:" + r1[:c10Min(len(r1), 60)]
					}
					a, b, d, e := strings.Split(r1, "|"), strings.Split(r2, "|"), strings.Split(r3, "|"), strings.Split(r4, "|")
					var bad []string
					for k := range a {
						if k >= len(b) || k >= len(d) || k >= len(e) || a[k] != b[k] || a[k] != d[k] || a[k] != e[k] {
							bad = append(bad, strings.SplitN(a[k], ":", 2)[0])
						}
					}
					if len(bad) > 0 {
						return "differs:" + strings.Join(bad, ",")
					}
					return ""
				})
			}
		}
		if indep != "" {
			indep = "original-changed-at " + strings.TrimSpace(indep)
		}
		c.Probe("copy_independent/"+name, "-", "C10-independent-"+name, indep)
		if c.Thorough() {
			ct := mkCt(params.MaxLevel())
			idx := map[int]bool{0: true, 3: true, 8: true, 21: true}
			want := run(orig, ct, idx)
			for _, G := range []int{2, 8} {
				cps := make([]*rlwe.RingPackingEvaluator, G)
				for g := range cps {
					cps[g] = orig.ShallowCopy()
				}
				cps[0] = orig
				c10Parallel(c, name, G, 4, want, func(g int) string { return run(cps[g], ct, idx) })
			}
		}
		return "ok"
	})
	if res != "ok" {
		c.Probe("no_panic/"+name, "-", "C10-panic-"+name, "panic")
	}
}

func c10Min(a, b int) int {
	if a < b {
		return a
	}
	return b
}

func c10BlindRot(c *Ctx) {
	name := "blindrot.Evaluator.NewEvaluator[second-instance]"
	res := Try(func() string {
		paramsBR, err := rlwe.NewParametersFromLiteral(rlwe.ParametersLiteral{LogN: 8, Q: []uint64{0x7fff801}, NTTFlag: true})
		must(err)
		paramsLWE, err := rlwe.NewParametersFromLiteral(rlwe.ParametersLiteral{LogN: 6, Q: []uint64{0x3001}, NTTFlag: true})
		must(err)
		base := 7
		evkParams := rlwe.EvaluationKeyParameters{BaseTwoDecomposition: &base}
		skLWE := rlwe.NewKeyGenerator(paramsLWE).GenSecretKeyNew()
		skBR := rlwe.NewKeyGenerator(paramsBR).GenSecretKeyNew()
		BRK := blindrot.GenEvaluationKeyNew(paramsBR, skBR, paramsLWE, skLWE, evkParams)

		sign := func(x float64) float64 {
			if x > 0 {
				return 1
			} else if x == 0 {
				return 0
			}
			return -1
		}
		scaleBR := float64(paramsBR.Q()[0]) / 4.0
		scaleLWE := float64(paramsLWE.Q()[0]) / 4.0
		testPoly := blindrot.InitTestPolynomial(sign, rlwe.NewScale(scaleBR), paramsBR.RingQ(), -1, 1)
		testPoly2 := blindrot.InitTestPolynomial(func(x float64) float64 { return x * x }, rlwe.NewScale(scaleBR), paramsBR.RingQ(), -1, 1)
		slots := 6
		tpm := map[int]*ring.Poly{}
		for i := 0; i < slots; i++ {
			tpm[i] = &testPoly
			if i%3 == 2 {
				tpm[i] = &testPoly2
			}
		}
		encLWE := rlwe.NewEncryptor(paramsLWE, skLWE)
		mkLWE := func(shift int) *rlwe.Ciphertext {
			pt := rlwe.NewPlaintext(paramsLWE, paramsLWE.MaxLevel())
			for i := 0; i < slots; i++ {
				v := -1 + float64(2*((i+shift)%slots))/float64(slots)
				if v < 0 {
					pt.Value.Coeffs[0][i] = paramsLWE.Q()[0] - uint64(-v*scaleLWE)
				} else {
					pt.Value.Coeffs[0][i] = uint64(v * scaleLWE)
				}
			}
			if pt.IsNTT {
				paramsLWE.RingQ().NTT(pt.Value, pt.Value)
			}
			ct := rlwe.NewCiphertext(paramsLWE, 1, paramsLWE.MaxLevel())
			must(encLWE.Encrypt(pt, ct))
			return ct
		}
		ct, ctOther := mkLWE(0), mkLWE(1)
		eval := func(e *blindrot.Evaluator, ct *rlwe.Ciphertext) string {
			in := ct.CopyNew()
			r, err := e.Evaluate(in, tpm, BRK)
			if err != nil {
				return "err"
			}
			if !in.Equal(ct) {
				return "input-ciphertext-modified"
			}
			return c10CtMapHash(r)
		}

		e1, e2 := blindrot.NewEvaluator(paramsBR, paramsLWE), blindrot.NewEvaluator(paramsBR, paramsLWE)
		c10Tie(c, name, e1, e2)
		// the only copy constructors a blindrot.Evaluator offers are the promoted ones of the embedded *rgsw.Evaluator
		var promoted *rgsw.Evaluator = e1.ShallowCopy()
		c10Tie(c, "blindrot.Evaluator.ShallowCopy[promoted:rgsw.Evaluator]", e1.Evaluator, promoted)

		hK := deepHash(&BRK)
		hT := deepHash(&testPoly, &testPoly2)
		var r1 string
		c10P(c, "copy_behaves_same/"+name, "-", "C10-behaves-"+name, func() string {
			r1 = eval(e1, ct)
			r2 := eval(e2, ct)
			if r1 == "err" || r1 == "input-ciphertext-modified" {
				return "original:" + r1
			}
			if r1 != r2 {
				return "results-differ"
			}
			// a used and a fresh instance
			if r3 := eval(blindrot.NewEvaluator(paramsBR, paramsLWE), ct); r3 != r1 {
				return "fresh-instance-differs-from-used-one"
			}
			return ""
		})
		c10P(c, "copy_independent/"+name, "-", "C10-independent-"+name, func() string {
			h := deepHash(e1)
			eval(e2, ctOther)
			eval(e2, ct)
			if deepHash(e1) != h {
				return "original-changed"
			}
			if eval(e1, ct) != r1 {
				return "result-of-the-original-changed"
			}
			return ""
		})
		c10P(c, "reusable_after_use/blindrot.Evaluator.Evaluate", "-", "C10-reusable-blindrot.Evaluator", func() string {
			e := blindrot.NewEvaluator(paramsBR, paramsLWE)
			a := eval(e, ct)
			b := eval(e, ct)
			x := eval(e, ctOther)
			d := eval(e, ct)
			y := eval(e2, ctOther)
			switch {
			case a != r1:
				return "first-call-differs-from-reference"
			case a != b:
				return "second-call-differs-from-first"
			case a != d:
				return "call-after-another-ciphertext-differs"
			case x != y:
				return "other-ciphertext-differs-between-instances"
			}
			return ""
		})
		d := ""
		if deepHash(&BRK) != hK {
			d = "keys-changed "
		}
		if deepHash(&testPoly, &testPoly2) != hT {
			d += "test-polynomials-changed"
		}
		if c.Thorough() {
			// instances sharing the blind-rotation keys and the test polynomials, in parallel
			for _, G := range []int{2, 4} {
				es := make([]*blindrot.Evaluator, G)
				for g := range es {
					es[g] = blindrot.NewEvaluator(paramsBR, paramsLWE)
				}
				es[0] = e1
				c10Parallel(c, name, G, 2, r1, func(g int) string { return eval(es[g], ct) })
			}
			if deepHash(&BRK) != hK {
				d = "keys-changed "
			}
		}
		c.Probe("shared_is_readonly/blindrot.MemBlindRotationEvaluationKeySet", "-", "C10-readonly-blindrot.keys", strings.TrimSpace(d))
		return "ok"
	})
	if res != "ok" {
		c.Probe("no_panic/"+name, "-", "C10-panic-"+name, "panic")
	}
}
