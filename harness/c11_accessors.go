package main

// C11, part "accessors × operations": every advertised-keys accessor
//
//	rlwe.GaloisElementsForInnerSum / ForReplicate / ForTrace
//	bgv.Parameters.GaloisElementsForInnerSum / ForReplicate / ForTrace
//	ckks.Parameters.GaloisElementsForInnerSum / ForReplicate / ForTrace
//
// against every operation it is the advertised list of (there is no accessor of its own for RotateAndAdd,
// PartialTracesSum, InnerFunction, Average: the InnerSum list is the advertised one), with keys generated ONLY
// from that accessor: `keys_sufficient` (no look-up may miss) and `sum_spec` (decrypted value = documented sum).
// The (batch, n) grid is the exhaustive one of c11.go (all pairs with n·batch ≤ slots: non-powers-of-two and, for
// BGV, products crossing the row boundary N/2 < n·batch ≤ N) plus large-N samples.
// Tie lines reuse the model ops (`pts`, `innerfunction`, `replicate`, `trace`); the probes carry the label
// `<operation>-<accessor>`.

import (
	"fmt"

	"github.com/tuneinsight/lattigo/v6/core/rlwe"
)

type c11RunFn = func(ev *rlwe.Evaluator, add func(a, b, c *rlwe.Ciphertext) error, ct, out *rlwe.Ciphertext, evk rlwe.EvaluationKeySet) error

func (x *c11Ctx) runL(c *Ctx, tieOp, label, args string, adv []uint64, v []int64, want []int64, op c11RunFn) {
	x.label = label
	defer func() { x.label = "" }()
	x.run(c, tieOp, args, adv, v, want, true, op)
}

// schemeInnerSumList is the scheme's own accessor for (batch, n).
func (x *c11Ctx) schemeInnerSumList(b, n int) []uint64 {
	if x.name == "bgv" {
		return x.bgvP.GaloisElementsForInnerSum(b, n)
	}
	return x.ckksP.GaloisElementsForInnerSum(b, n)
}

func (x *c11Ctx) schemeReplicateList(b, n int) []uint64 {
	if x.name == "bgv" {
		return x.bgvP.GaloisElementsForReplicate(b, n)
	}
	return x.ckksP.GaloisElementsForReplicate(b, n)
}

func (x *c11Ctx) schemeTraceList(l int) []uint64 {
	if x.name == "bgv" {
		return x.bgvP.GaloisElementsForTrace(l)
	}
	return x.ckksP.GaloisElementsForTrace(l)
}

// schemeRotateAndAdd is the scheme-level RotateAndAdd.
func (x *c11Ctx) schemeRotateAndAdd(b, n int) c11RunFn {
	return func(_ *rlwe.Evaluator, _ func(a, b, c *rlwe.Ciphertext) error, ct, out *rlwe.Ciphertext, evk rlwe.EvaluationKeySet) error {
		if x.name == "bgv" {
			return x.bgvEv.WithKey(evk).RotateAndAdd(ct, b, n, out)
		}
		return x.ckksEv.WithKey(evk).RotateAndAdd(ct, b, n, out)
	}
}

// c11AccessorMatrix: one (batch, n) pair, every (accessor, operation) combination not already run by c11.go.
func c11AccessorMatrix(c *Ctx, x *c11Ctx, base string, b, n int) {
	args := fmt.Sprintf("%s %s %d %d", base, x.hp(), b, n)
	scheme := x.schemeInnerSumList(b, n)
	core := rlwe.GaloisElementsForInnerSum(x.rp, b, n)

	// RotateAndAdd (scheme API) with the scheme's list and with the rlwe list
	v := x.randVec(c, 1)
	x.runL(c, "pts", "rotateandadd-schemelist", args, scheme, v, x.refSum(v, b, n), x.schemeRotateAndAdd(b, n))
	v = x.randVec(c, 1)
	x.runL(c, "pts", "rotateandadd-rlwelist", args, core, v, x.refSum(v, b, n), x.schemeRotateAndAdd(b, n))
	// PartialTracesSum and InnerFunction with the scheme's list
	v = x.randVec(c, 1)
	x.runL(c, "pts", "pts-schemelist", args, scheme, v, x.refSum(v, b, n),
		func(ev *rlwe.Evaluator, _ func(a, b, c *rlwe.Ciphertext) error, ct, out *rlwe.Ciphertext, _ rlwe.EvaluationKeySet) error {
			return ev.PartialTracesSum(ct, b, n, out)
		})
	v = x.randVec(c, 1)
	x.runL(c, "innerfunction", "innerfunction-schemelist", args, scheme, v, x.refSum(v, b, n),
		func(ev *rlwe.Evaluator, add func(a, b, c *rlwe.Ciphertext) error, ct, out *rlwe.Ciphertext, _ rlwe.EvaluationKeySet) error {
			return ev.InnerFunction(ct, b, n, add, out)
		})
	// Replicate (scheme evaluator) with the scheme's list (bgv: already in c11.go) and the rlwe list
	if x.name != "bgv" {
		v = x.randVec(c, 1)
		x.runL(c, "replicate", "replicate-schemelist", args, x.schemeReplicateList(b, n), v, x.refSum(v, -b, n),
			func(_ *rlwe.Evaluator, _ func(a, b, c *rlwe.Ciphertext) error, ct, out *rlwe.Ciphertext, evk rlwe.EvaluationKeySet) error {
				return x.ckksEv.WithKey(evk).Replicate(ct, b, n, out)
			})
	}
	c.Count("accessor-matrix:" + x.tag())
}

// c11AccessorOther: Trace with the scheme accessor, ckks Average with the InnerSum accessor.
func c11AccessorOther(c *Ctx, x *c11Ctx) {
	logRot := x.logN - 1
	if x.rt == "ci" {
		logRot = x.logN
	}
	for l := 0; l <= logRot; l++ {
		l := l
		mult := int64(1)
		if x.t == 0 {
			mult = int64(1) << uint(x.logN)
		}
		v := x.randVec(c, mult)
		x.runL(c, "trace", "trace-schemelist", fmt.Sprintf("%s %s %d %d %d", x.lay, x.rt, x.logN, x.t, l), x.schemeTraceList(l), v, x.refTrace(v, l),
			func(ev *rlwe.Evaluator, _ func(a, b, c *rlwe.Ciphertext) error, ct, out *rlwe.Ciphertext, _ rlwe.EvaluationKeySet) error {
				return ev.Trace(ct, l, out)
			})
	}
	if x.name == "bgv" || !x.hasP {
		return
	}
	// ckks.Average(logBatch): documented key list = InnerSum(batch, slots/batch); probes only (no model op)
	logSlots := 0
	for 1<<uint(logSlots) < x.slots {
		logSlots++
	}
	for lb := 0; lb <= logSlots; lb++ {
		bsz, cnt := 1<<uint(lb), x.slots>>uint(lb)
		v := x.randVec(c, int64(x.slots))
		evk, _, missing := x.keysFor(x.ckksP.GaloisElementsForInnerSum(bsz, cnt), false)
		ct := x.encrypt(v)
		out := x.newCt()
		st := c11TryErr(func() error { return x.ckksEv.WithKey(evk).Average(ct, lb, out) })
		det := ""
		if len(*missing) > 0 {
			det = "missing=" + Vec(*missing)
		}
		c.Probe("keys_sufficient", fmt.Sprintf("%s average-schemelist %d", x.tag(), lb), "C11-keys-average-schemelist", det)
		det = ""
		if st != "" {
			det = "status=" + st
		} else {
			u := x.refSum(v, bsz, cnt)
			for i := range u {
				u[i] /= int64(cnt)
			}
			if got := x.decrypt(out); !c11Eq(got, u) {
				det = fmt.Sprintf("got=%s want=%s", c11I64Vec(got), c11I64Vec(u))
			}
		}
		c.Probe("sum_spec", fmt.Sprintf("%s average-schemelist %d %s", x.tag(), lb, c11I64Vec(v)), "C11-sum-average-schemelist-"+x.name, det)
	}
}

// c11AccessorLarge: the accessor matrix at N = 1024 on pairs with non-power-of-two n whose product crosses the
// row boundary (BGV) or is not a divisor of the slot count (CKKS).
func c11AccessorLarge(c *Ctx) {
	{
		x := newC11BGV(10, true)
		base := fmt.Sprintf("%s %d %d", x.lay, x.nthRoot, x.t)
		for _, bn := range [][2]int{{3, 200}, {1, 777}, {5, 123}, {2, 511}, {1, 1024}, {2, 512}, {7, 73}, {1, 513}} {
			c11AccessorMatrix(c, x, base, bn[0], bn[1])
			// bgv InnerSum / Replicate with the bgv lists on the same pairs
			b, n := bn[0], bn[1]
			l := n * b
			if l <= x.slots && l&(l-1) == 0 {
				v := x.randVec(c, 1)
				var want []int64
				if l == x.slots && n > 1 {
					u := x.refSum(v, b, n/2)
					want = x.refAdd(u, x.refConj(u))
				} else {
					want = x.refSum(v, b, n)
				}
				x.runL(c, "innersum-bgv", "innersum-schemelist", fmt.Sprintf("%s %s %d %d %d", base, x.hp(), x.slots, b, n), x.bgvP.GaloisElementsForInnerSum(b, n), v, want,
					func(_ *rlwe.Evaluator, _ func(a, b, c *rlwe.Ciphertext) error, ct, out *rlwe.Ciphertext, evk rlwe.EvaluationKeySet) error {
						return x.bgvEv.WithKey(evk).InnerSum(ct, b, n, out)
					})
			}
		}
	}
	if c.Thorough() {
		x := newC11CKKS(10, true, false)
		base := fmt.Sprintf("%s %d %d", x.lay, x.nthRoot, x.t)
		for _, bn := range [][2]int{{3, 100}, {1, 389}, {5, 61}, {2, 255}, {1, 512}} {
			c11AccessorMatrix(c, x, base, bn[0], bn[1])
		}
		det := ""
		if !(x.maxRoundErr < 0.05) {
			det = fmt.Sprintf("max |x-round(x)| = %g (tolerance 0.05)", x.maxRoundErr)
		}
		c.Probe("ckks_round_margin", "accessors "+x.tag(), "C11-ckks-precision", det)
	}
}
