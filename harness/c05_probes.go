package main

// C05 — malformed stream, white-box matchScalesBinary ties and the dedicated probes.

import (
	"fmt"
	"math/big"
	"strings"

	"github.com/tuneinsight/lattigo/v6/core/rlwe"
	"github.com/tuneinsight/lattigo/v6/schemes/bgv"
)

// c05MatchLines observes matchScalesBinary through MatchScalesAndLevel on zero ciphertexts:
// new scales are s0·r0 and s1·r1, hence r0, r1.
func (c *Ctx) c05MatchLines(s *c05Set) {
	ev := s.evaluator(false, true)
	t := s.t
	n := c.Scale(40, 600)
	for k := 0; k < n; k++ {
		s0, s1 := c.c05Scale(t), c.c05Scale(t)
		switch k {
		case 0:
			s0, s1 = 1, 1
		case 1:
			s0, s1 = 1, t-1
		case 2:
			s0, s1 = t-1, 1
		case 3:
			s0, s1 = 2, 1
		case 4:
			s0, s1 = 1, 2
		case 5:
			s0, s1 = t>>1, (t>>1)+1
		}
		a := bgv.NewCiphertext(s.params, 1, 0)
		b := bgv.NewCiphertext(s.params, 1, 0)
		a.Scale = s.params.NewScale(s0)
		b.Scale = s.params.NewScale(s1)
		out := Try(func() string {
			ev.MatchScalesAndLevel(a, b)
			r0 := c05MulMod(a.Scale.Uint64(), c05Inv(s0, t), t)
			r1 := c05MulMod(b.Scale.Uint64(), c05Inv(s1, t), t)
			return U(r0) + " " + U(r1)
		})
		c.Emit("match t="+U(t)+" s0="+U(s0)+" s1="+U(s1), out)
		c.Count("match")
		// documented contract: r0·s0 = r1·s1 (mod t) and both invertible
		if out != "panic" {
			var r0, r1 uint64
			fmt.Sscanf(out, "%d %d", &r0, &r1)
			detail := ""
			if c05MulMod(r0, s0, t) != c05MulMod(r1, s1, t) || r0 == 0 || r1 == 0 {
				detail = "r0=" + U(r0) + " r1=" + U(r1)
			}
			if m0, m1 := c05Match(s0, s1, t); m0 != r0 || m1 != r1 {
				c.Count("harness-match-reimpl-differs")
			}
			c.Probe("match_contract", "t="+U(t)+" s0="+U(s0)+" s1="+U(s1), "C05-matchscales-contract", detail)
		}
	}
}

// deg0 wraps a plaintext into a degree-0 *rlwe.Ciphertext (the only way to hand a plaintext as op0).
func c05Deg0(pt *rlwe.Plaintext) *rlwe.Ciphertext {
	return &rlwe.Ciphertext{Element: *pt.Element.CopyNew()}
}

// c05Malformed: calls that the documentation says must fail (or that sit on the boundary of a
// documented condition). Each is a tie line (the model must give the same err / value).
func (c *Ctx) c05Malformed(s *c05Set) {
	L := len(s.qs) - 1
	t := s.t
	for _, si := range []bool{false, true} {
		for _, rlk := range []bool{true, false} {
			ev := s.evaluator(si, rlk)
			mk := func(level int) *c05Reg { return c.c05NewCt(s, level, 1) }
			deg2 := func() *c05Reg {
				a, b := mk(L), mk(L)
				r, err := s.evaluator(false, true).MulNew(a.ct, b.ct)
				if err != nil {
					panic(err)
				}
				w := make([]uint64, s.n)
				for i := range w {
					w[i] = c05MulMod(a.want[i], b.want[i], t)
				}
				return &c05Reg{ct: r, want: w}
			}
			newOut := c05Out{mode: "new"}
			// degree too high
			for _, op := range []string{"mul", "mulrelin", "mulsi", "mulrelinsi"} {
				c.c05Step(s, ev, si, rlk, op, deg2(), c05Arg{kind: "r", reg: mk(L)}, newOut)
				c.c05Step(s, ev, si, rlk, op, mk(L), c05Arg{kind: "r", reg: deg2()}, newOut)
				c.c05Step(s, ev, si, rlk, op, deg2(), c05Arg{kind: "r", reg: deg2()}, newOut)
			}
			for _, op := range []string{"mta", "mrta"} {
				c.c05Step(s, ev, si, rlk, op, deg2(), c05Arg{kind: "r", reg: mk(L)}, c05Out{mode: "into", reg: mk(L)})
			}
			// missing relinearisation key / degree conditions of Relinearize
			c.c05Step(s, ev, si, rlk, "mulrelin", mk(L), c05Arg{kind: "r", reg: mk(L)}, newOut)
			c.c05Step(s, ev, si, rlk, "mulrelinsi", mk(L), c05Arg{kind: "r", reg: mk(L)}, newOut)
			c.c05Step(s, ev, si, rlk, "mulrelin", mk(L), c05Arg{kind: "r", reg: c.c05NewPt(s, L, 1)}, newOut)
			c.c05Step(s, ev, si, rlk, "mrta", mk(L), c05Arg{kind: "r", reg: mk(L)}, c05Out{mode: "into", reg: mk(L)})
			c.c05Step(s, ev, si, rlk, "relin", deg2(), c05Arg{kind: "none"}, newOut)
			c.c05Step(s, ev, si, rlk, "relin", mk(L), c05Arg{kind: "none"}, newOut)
			// no level left / not enough room
			c.c05Step(s, ev, si, rlk, "rescale", mk(0), c05Arg{kind: "none"}, c05Out{mode: "inp"})
			if L >= 2 {
				fresh := &c05Reg{ct: bgv.NewCiphertext(s.params, 1, L-2), want: make([]uint64, s.n)}
				c.c05Step(s, ev, si, rlk, "rescale", mk(L), c05Arg{kind: "none"}, c05Out{mode: "into", reg: fresh})
			}
			// vector too long
			long := make([]uint64, s.n+1)
			longI := make([]int64, s.n+1)
			for _, op := range []string{"add", "sub", "mul", "mulrelin", "mulsi", "mulrelinsi"} {
				c.c05Step(s, ev, si, rlk, op, mk(L), c05Arg{kind: "vu", vu: long}, newOut)
				c.c05Step(s, ev, si, rlk, op, mk(L), c05Arg{kind: "vi", vi: longI}, newOut)
			}
			c.c05Step(s, ev, si, rlk, "mta", mk(L), c05Arg{kind: "vu", vu: long}, c05Out{mode: "into", reg: mk(L)})
			// plaintext-only operands
			p0 := c.c05NewPt(s, L, 1)
			d0 := &c05Reg{ct: c05Deg0(p0.pt), want: p0.want}
			for _, op := range []string{"add", "sub", "mul", "mulrelin", "mulsi", "mulrelinsi"} {
				c.c05Step(s, ev, si, rlk, op, d0, c05Arg{kind: "r", reg: c.c05NewPt(s, L, 1)}, newOut)
			}
			c.c05Step(s, ev, si, rlk, "mta", d0, c05Arg{kind: "r", reg: c.c05NewPt(s, L, 1)}, c05Out{mode: "into", reg: mk(L)})
			// a degree-0 ciphertext as op0 of a product with a ciphertext: error
			for _, op := range []string{"mul", "mulrelin", "mulsi", "mulrelinsi"} {
				c.c05Step(s, ev, si, rlk, op, d0, c05Arg{kind: "r", reg: mk(L)}, newOut)
				c.c05Step(s, ev, si, rlk, op, d0, c05Arg{kind: "vu", vu: make([]uint64, s.n)}, newOut)
			}
			c.c05Step(s, ev, si, rlk, "mta", d0, c05Arg{kind: "r", reg: mk(L)}, c05Out{mode: "into", reg: mk(L)})
			c.c05Step(s, ev, si, rlk, "mrta", d0, c05Arg{kind: "r", reg: mk(L)}, c05Out{mode: "into", reg: mk(L)})
			// Rescale into a receiver of another degree
			if L >= 1 {
				c.c05Step(s, ev, si, rlk, "rescale", mk(L), c05Arg{kind: "none"}, c05Out{mode: "into", reg: &c05Reg{ct: bgv.NewCiphertext(s.params, 2, L), want: make([]uint64, s.n)}})
				c.c05Step(s, ev, si, rlk, "rescale", deg2(), c05Arg{kind: "none"}, c05Out{mode: "into", reg: &c05Reg{ct: bgv.NewCiphertext(s.params, 1, L), want: make([]uint64, s.n)}})
			}
		}
	}
}

// ---------------------------------------------------------------- probes

func c05Raw(ct *rlwe.Ciphertext) string {
	var sb strings.Builder
	for _, p := range ct.Value {
		sb.WriteString(Mat(RawRows(p)))
		sb.WriteByte('|')
	}
	sb.WriteString(fmt.Sprintf("%d/%d/%s/%v/%v", ct.Level(), ct.Degree(), ct.Scale.Value.Text('g', 40), ct.IsNTT, ct.IsBatched))
	return sb.String()
}

func c05RawPt(pt *rlwe.Plaintext) string {
	return Mat(RawRows(pt.Value)) + fmt.Sprintf("|%d/%s", pt.Level(), pt.Scale.Value.Text('g', 40))
}

func (c *Ctx) c05Probes(s *c05Set) {
	L := len(s.qs) - 1
	t := s.t
	reps := c.Scale(2, 12)
	ev := s.evaluator(false, true)
	evSI := s.evaluator(true, true)
	eq := func(a, b []uint64) bool { return Vec(a) == Vec(b) }
	msgOp := func(a, b []uint64, f func(x, y uint64) uint64) []uint64 {
		w := make([]uint64, len(a))
		for i := range a {
			w[i] = f(a[i], b[i])
		}
		return w
	}
	add := func(x, y uint64) uint64 { return (x + y) % t }
	sub := func(x, y uint64) uint64 { return (x + t - y) % t }
	mul := func(x, y uint64) uint64 { return c05MulMod(x, y, t) }
	cst := func(v uint64) []uint64 {
		w := make([]uint64, s.n)
		for i := range w {
			w[i] = v % t
		}
		return w
	}
	for rep := 0; rep < reps; rep++ {
		// --- bigint_unchanged: the caller's *big.Int after the call
		for _, op := range []string{"add", "sub", "mul", "mta", "mulsi", "mulrelin"} {
			a := c.c05NewCt(s, L, c.c05Scale(t))
			z := new(big.Int).Add(new(big.Int).Mul(new(big.Int).SetUint64(t), big.NewInt(12345)), big.NewInt(int64(7+rep)))
			if rep%2 == 1 {
				z.Neg(z)
			}
			before := z.String()
			o := c05Out{mode: "new"}
			if op == "mta" {
				o = c05Out{mode: "into", reg: c.c05NewCt(s, L, 1)}
			}
			e := ev
			if op == "mulsi" {
				e = evSI
			}
			st := Try(func() string {
				var out *rlwe.Ciphertext
				if o.mode == "into" {
					out = o.reg.ct
				}
				var err error
				switch op {
				case "add":
					_, err = e.AddNew(a.ct, z)
				case "sub":
					_, err = e.SubNew(a.ct, z)
				case "mul":
					_, err = e.MulNew(a.ct, z)
				case "mulsi":
					_, err = e.MulScaleInvariantNew(a.ct, z)
				case "mulrelin":
					_, err = e.MulRelinNew(a.ct, z)
				case "mta":
					err = e.MulThenAdd(a.ct, z, out)
				}
				if err != nil {
					return "err"
				}
				return "ok"
			})
			detail := ""
			if z.String() != before {
				detail = "before=" + before + " after=" + z.String() + " status=" + st
			}
			c.Probe("bigint_unchanged", s.name+" op="+op+" scale="+U(a.scale())+" z="+before, "C05-bigint-operand-mutated", detail)
		}

		// --- inputs_unchanged: op0/op1 (ciphertexts, plaintexts) intact when the output is distinct
		for _, op := range []string{"add", "sub", "mul", "mulrelin", "mulsi", "mulrelinsi", "mta", "mrta"} {
			for _, mism := range []bool{false, true} {
				for _, kind := range []string{"ct", "pt"} {
					sa, sb := uint64(1), uint64(1)
					if mism {
						sa, sb = c.c05Scale(t), c.c05Scale(t)
					}
					a := c.c05NewCt(s, L, sa)
					var b *c05Reg
					if kind == "ct" {
						b = c.c05NewCt(s, L, sb)
					} else {
						b = c.c05NewPt(s, L, sb)
					}
					snapA := c05Raw(a.ct)
					var snapB string
					if b.ct != nil {
						snapB = c05Raw(b.ct)
					} else {
						snapB = c05RawPt(b.pt)
					}
					o := c05Out{mode: "new"}
					if op == "mta" || op == "mrta" {
						o = c05Out{mode: "into", reg: c.c05NewCt(s, L, 1)}
					}
					e := ev
					if strings.HasSuffix(op, "si") {
						e = evSI
					}
					st := Try(func() string {
						if _, err := c05Call(e, op, a.ct, c05Arg{kind: "r", reg: b}, o); err != nil {
							return "err"
						}
						return "ok"
					})
					detail := ""
					if c05Raw(a.ct) != snapA {
						detail = "op0-changed status=" + st
					}
					if b.ct != nil && c05Raw(b.ct) != snapB || b.pt != nil && c05RawPt(b.pt) != snapB {
						detail += " op1-changed status=" + st
					}
					c.Probe("inputs_unchanged", fmt.Sprintf("%s op=%s kind=%s sa=%d sb=%d", s.name, op, kind, sa, sb), "C05-input-mutated", detail)
				}
			}
		}

		// --- alias_out_op1: Add/Sub(op0, op1, op1)
		for _, op := range []string{"add", "sub"} {
			for _, mism := range []bool{false, true} {
				sa, sb := uint64(1), uint64(1)
				if mism {
					sa = 2 + c.rng.Below(t-3)
					sb = c05MulMod(sa, 3, t)
				}
				a, b := c.c05NewCt(s, L, sa), c.c05NewCt(s, L, sb)
				var want []uint64
				if op == "add" {
					want = msgOp(a.want, b.want, add)
				} else {
					want = msgOp(a.want, b.want, sub)
				}
				detail := ""
				st := Try(func() string {
					var err error
					if op == "add" {
						err = ev.Add(a.ct, b.ct, b.ct)
					} else {
						err = ev.Sub(a.ct, b.ct, b.ct)
					}
					if err != nil {
						return "err"
					}
					return "ok"
				})
				if st != "ok" {
					detail = st
				} else if got := s.decodeCt(b.ct); !eq(got, want) {
					detail = fmt.Sprintf("wrong-value slot0: got %d want %d", got[0], want[0])
				}
				c.Probe("alias_out_op1", fmt.Sprintf("%s op=%s sa=%d sb=%d", s.name, op, sa, sb), "C05-out-aliases-op1-mismatched-scales", detail)
			}
		}

		// --- alias_out_op1_si: scale-invariant product written onto its second operand (different scales)
		for _, op := range []string{"mulsi", "mulrelinsi"} {
			sa := 2 + c.rng.Below(t-3)
			sb := c05MulMod(sa, 3, t)
			a, b := c.c05NewCt(s, L, sa), c.c05NewCt(s, L, sb)
			want := msgOp(a.want, b.want, mul)
			detail := ""
			if float64(s.logN)+2*s.lt+float64(s.logN)+14 > s.logQ[L] {
				continue
			}
			st := Try(func() string {
				var err error
				if op == "mulsi" {
					err = ev.MulScaleInvariant(a.ct, b.ct, b.ct)
				} else {
					err = ev.MulRelinScaleInvariant(a.ct, b.ct, b.ct)
				}
				if err != nil {
					return "err"
				}
				return "ok"
			})
			if st != "ok" {
				detail = st
			} else if got := s.decodeCt(b.ct); !eq(got, want) {
				detail = fmt.Sprintf("wrong-value: out.scale=%d sa=%d sb=%d slot0 got %d want %d", b.ct.Scale.Uint64(), sa, sb, got[0], want[0])
			}
			c.Probe("alias_out_op1_si", fmt.Sprintf("%s op=%s sa=%d sb=%d", s.name, op, sa, sb), "C05-scale-invariant-out-aliases-op1-scale", detail)
		}

		// --- scalar_out_scale: XNew(ct, scalar) when ct.Scale != default scale
		for _, op := range []string{"add", "sub", "mul"} {
			sa := 2 + c.rng.Below(t-3)
			a := c.c05NewCt(s, L, sa)
			var res *rlwe.Ciphertext
			var want []uint64
			st := Try(func() string {
				var err error
				switch op {
				case "add":
					res, err = ev.AddNew(a.ct, uint64(5))
					want = msgOp(a.want, cst(5), add)
				case "sub":
					res, err = ev.SubNew(a.ct, uint64(5))
					want = msgOp(a.want, cst(5), sub)
				case "mul":
					res, err = ev.MulNew(a.ct, uint64(5))
					want = msgOp(a.want, cst(5), mul)
				}
				if err != nil {
					return "err"
				}
				return "ok"
			})
			detail := ""
			if st != "ok" {
				detail = st
			} else if got := s.decodeCt(res); !eq(got, want) {
				detail = fmt.Sprintf("wrong-value: out.scale=%d op0.scale=%d slot0 got %d want %d", res.Scale.Uint64(), sa, got[0], want[0])
			}
			c.Probe("scalar_out_scale", fmt.Sprintf("%s op=%sNew scale=%d scalar=5", s.name, op, sa), "C05-scalar-op-output-scale-not-set", detail)
		}

		// the model reproduces the (wrong) recorded scale of the scalar branches: tie lines
		for _, op := range []string{"add", "sub", "mul", "mulrelin"} {
			for _, kind := range []string{"u64", "i64", "big", "int"} {
				a := c.c05NewCt(s, L, 2+c.rng.Below(t-3))
				o := c05Out{mode: "new"}
				if c.rng.Intn(2) == 0 {
					ol := L
					if op == "add" || op == "sub" {
						for ol = c.rng.Intn(L + 1); float64(s.logN)+8+s.lt+3 > s.logQ[ol]; ol++ {
						}
					}
					o = c05Out{mode: "into", reg: &c05Reg{ct: bgv.NewCiphertext(s.params, 1, ol), want: make([]uint64, s.n)}}
				}
				c.c05Step(s, ev, false, true, op, a, c.c05Arg(s, kind), o)
			}
		}

		// --- sub_higher_degree: Sub(op0 degree 1, op1 degree 2) with equal scales
		{
			x, y := c.c05NewCt(s, L, 1), c.c05NewCt(s, L, 1)
			b2, err := ev.MulNew(x.ct, y.ct)
			if err != nil {
				panic(err)
			}
			a := c.c05NewCt(s, L, 1)
			want := msgOp(a.want, msgOp(x.want, y.want, mul), sub)
			var res *rlwe.Ciphertext
			st := Try(func() string {
				if res, err = ev.SubNew(a.ct, b2); err != nil {
					return "err"
				}
				return "ok"
			})
			detail := ""
			if st != "ok" {
				detail = st
			} else if got := s.decodeCt(res); !eq(got, want) {
				detail = fmt.Sprintf("wrong-value-no-error: slot0 got %d want %d", got[0], want[0])
			}
			c.Probe("sub_higher_degree", s.name+" SubNew(ct-deg1, ct-deg2) equal scales", "C05-sub-op1-higher-degree-not-negated", detail)
		}

		// --- mta_scalar_level: MulThenAdd(op0 at a lower level, scalar, opOut at a higher level)
		if L >= 1 {
			for _, kind := range []string{"u64", "vu"} {
				a, out := c.c05NewCt(s, L-1, 1), c.c05NewCt(s, L, 1)
				var b interface{} = uint64(3)
				mb := cst(3)
				if kind == "vu" {
					v := c.c05Msg(s)
					b, mb = v, v
				}
				want := msgOp(out.want, msgOp(a.want, mb, mul), add)
				detail := ""
				st := Try(func() string {
					if err := ev.MulThenAdd(a.ct, b, out.ct); err != nil {
						return "err"
					}
					return "ok"
				})
				if st != "ok" {
					detail = st
				} else if got := s.decodeCt(out.ct); !eq(got, want) {
					detail = fmt.Sprintf("wrong-value: out.level=%d op0.level=%d slot0 got %d want %d", out.ct.Level(), L-1, got[0], want[0])
				}
				c.Probe("mta_scalar_level", fmt.Sprintf("%s kind=%s op0.level=%d out.level=%d", s.name, kind, L-1, L), "C05-multhenadd-scalar-level-not-lowered", detail)
			}
		}

		// --- mta_scalar_degree: MulThenAdd(op0 degree 1, scalar/vector, opOut degree 2)
		for _, kind := range []string{"u64", "vu"} {
			x, y := c.c05NewCt(s, L, 1), c.c05NewCt(s, L, 1)
			out2, err := ev.MulNew(x.ct, y.ct)
			if err != nil {
				panic(err)
			}
			wout := msgOp(x.want, y.want, mul)
			a := c.c05NewCt(s, L, 1)
			var b interface{} = uint64(3)
			mb := cst(3)
			if kind == "vu" {
				v := c.c05Msg(s)
				b, mb = v, v
			}
			want := msgOp(wout, msgOp(a.want, mb, mul), add)
			detail := ""
			st := Try(func() string {
				if err := ev.MulThenAdd(a.ct, b, out2); err != nil {
					return "err"
				}
				return "ok"
			})
			if st != "ok" {
				detail = st
			} else if got := s.decodeCt(out2); !eq(got, want) {
				detail = fmt.Sprintf("wrong-value: out.degree=%d slot0 got %d want %d", out2.Degree(), got[0], want[0])
			}
			c.Probe("mta_scalar_degree", fmt.Sprintf("%s kind=%s op0.degree=1 out.degree=2", s.name, kind), "C05-multhenadd-scalar-degree-truncated", detail)
		}

		// --- rescale_degree: Rescale with opOut.Degree() != op0.Degree()
		if L >= 1 {
			for _, dd := range [][2]int{{1, 2}, {2, 1}} {
				var a *c05Reg
				if dd[0] == 1 {
					a = c.c05NewCt(s, L, 1)
				} else {
					x, y := c.c05NewCt(s, L, 1), c.c05NewCt(s, L, 1)
					r, err := ev.MulNew(x.ct, y.ct)
					if err != nil {
						panic(err)
					}
					a = &c05Reg{ct: r, want: msgOp(x.want, y.want, mul)}
				}
				out := bgv.NewCiphertext(s.params, dd[1], L)
				detail := ""
				st := Try(func() string {
					if err := ev.Rescale(a.ct, out); err != nil {
						return "err"
					}
					return "ok"
				})
				if st == "panic" {
					detail = "panic"
				} else if st == "ok" {
					if got := s.decodeCt(out); !eq(got, a.want) {
						detail = fmt.Sprintf("wrong-value-no-error: out.degree=%d slot0 got %d want %d", out.Degree(), got[0], a.want[0])
					}
				}
				c.Probe("rescale_degree", fmt.Sprintf("%s op0.degree=%d out.degree=%d", s.name, dd[0], dd[1]), "C05-rescale-output-degree", detail)
			}
		}

		// --- match_noise: the documentation of MatchScalesAndLevel promises minimal |a|+|b| (centred);
		// the noise of each operand should then grow by about its centred multiplier
		{
			s0, s1 := c.c05Scale(t), c.c05Scale(t)
			if s0 == s1 {
				s1 = c05MulMod(s0, 3, t)
			}
			a, b := c.c05NewCt(s, L, s0), c.c05NewCt(s, L, s1)
			na, nb := s.trueNoise(a.ct), s.trueNoise(b.ct)
			r0, r1 := c05Match(s0, s1, t)
			ev.MatchScalesAndLevel(a.ct, b.ct)
			ga, gb := s.trueNoise(a.ct)-na, s.trueNoise(b.ct)-nb
			detail := ""
			if ga > l2(c05Center(r0, t))+4 || gb > l2(c05Center(r1, t))+4 {
				detail = fmt.Sprintf("r0=%d r1=%d centred-bits=%.1f,%.1f measured-growth-bits=%.1f,%.1f", r0, r1, l2(c05Center(r0, t)), l2(c05Center(r1, t)), ga, gb)
			}
			c.Probe("match_noise", fmt.Sprintf("%s s0=%d s1=%d", s.name, s0, s1), "C05-scale-matching-multiplies-by-uncentred-representative", detail)
		}

		// --- match_decode: the contract of MatchScalesAndLevel on real ciphertexts (Lean: C05.match_contract):
		// both end with THE SAME recorded scale, at the common level, and decode to what they held before
		for k := 0; k < 3; k++ {
			s0, s1 := c.c05Scale(t), c.c05Scale(t)
			la, lb := L, L
			if k == 1 && L > 0 {
				lb = L - 1
			}
			r0, r1 := c05Match(s0, s1, t)
			nbm := float64(s.logN) + 7 + lmax(l2(float64(r0)), l2(float64(r1))) + 1
			if nbm+s.lt+3 > s.logQ[min(la, lb)] {
				c.Count("match-decode-budget-skip")
				continue
			}
			a, b := c.c05NewCt(s, la, s0), c.c05NewCt(s, lb, s1)
			detail := ""
			st := Try(func() string { ev.MatchScalesAndLevel(a.ct, b.ct); return "ok" })
			switch {
			case st != "ok":
				detail = st
			case a.ct.Scale.Cmp(b.ct.Scale) != 0:
				detail = fmt.Sprintf("scales differ: %d vs %d", a.ct.Scale.Uint64(), b.ct.Scale.Uint64())
			case a.ct.Level() != min(la, lb) || b.ct.Level() != min(la, lb):
				detail = fmt.Sprintf("levels %d,%d want %d", a.ct.Level(), b.ct.Level(), min(la, lb))
			case !eq(s.decodeCt(a.ct), a.want):
				detail = "first ciphertext no longer decodes to its message at the recorded scale"
			case !eq(s.decodeCt(b.ct), b.want):
				detail = "second ciphertext no longer decodes to its message at the recorded scale"
			}
			c.Probe("match_decode", fmt.Sprintf("%s s0=%d s1=%d levels=%d,%d", s.name, s0, s1, la, lb), "C05-matchscalesandlevel-contract", detail)
		}

		// --- errors_not_panics
		type ecase struct {
			name string
			key  string
			f    func() error
		}
		mk := func() *rlwe.Ciphertext { return c.c05NewCt(s, L, 1).ct }
		cases := []ecase{
			{"relin_si_nil_evk", "C05-relin-scale-invariant-nil-evk-panics", func() error {
				_, err := bgv.NewEvaluator(s.params, nil, true).MulRelinNew(mk(), mk())
				return err
			}},
			{"relin_nil_evk", "C05-relin-nil-evk-panics", func() error {
				_, err := bgv.NewEvaluator(s.params, nil).MulRelinNew(mk(), mk())
				return err
			}},
			{"relin_si_empty_evk", "C05-relin-scale-invariant-empty-evk-panics", func() error {
				_, err := s.evaluator(true, false).MulRelinNew(mk(), mk())
				return err
			}},
			{"mrta_nil_evk", "C05-mulrelinthenadd-nil-evk-panics", func() error {
				return bgv.NewEvaluator(s.params, nil).MulRelinThenAdd(mk(), mk(), mk())
			}},
			{"drop_too_many", "C05-droplevel-below-zero-panics", func() error {
				ev.DropLevel(mk(), L+1)
				return nil
			}},
			{"rescale_out_degree_higher", "C05-rescale-output-degree", func() error {
				if L == 0 {
					return nil
				}
				return ev.Rescale(mk(), bgv.NewCiphertext(s.params, 2, L))
			}},
			{"unsupported_operand_float", "C05-unsupported-operand-panics", func() error {
				_, err := ev.AddNew(mk(), 1.5)
				return err
			}},
			{"unsupported_operand_int32", "C05-unsupported-operand-panics", func() error {
				_, err := ev.MulNew(mk(), int32(3))
				return err
			}},
			{"nil_metadata", "C05-nil-metadata-panics", func() error {
				a := mk()
				a.MetaData = nil
				return ev.Add(a, mk(), mk())
			}},
			{"deg0_op0_times_ct_si", "C05-deg0-op0-scale-invariant-panics", func() error {
				p := c.c05NewPt(s, L, 1)
				_, err := evSI.MulNew(c05Deg0(p.pt), mk())
				return err
			}},
			{"vector_too_long", "C05-vector-too-long-panics", func() error {
				_, err := ev.AddNew(mk(), make([]uint64, s.n+1))
				return err
			}},
			{"deg2_times_deg1", "C05-degree-too-high-panics", func() error {
				d2, _ := ev.MulNew(mk(), mk())
				_, err := ev.MulNew(d2, mk())
				return err
			}},
			{"rescale_level0", "C05-rescale-level0-panics", func() error {
				a := c.c05NewCt(s, 0, 1).ct
				return ev.Rescale(a, a)
			}},
		}
		if rep == 0 {
			for _, ec := range cases {
				st := Try(func() string {
					if err := ec.f(); err != nil {
						return "err"
					}
					return "ok"
				})
				detail := ""
				if st == "panic" {
					detail = "panic"
				}
				c.Probe("errors_not_panics", s.name+" case="+ec.name+" status="+st, ec.key, detail)
			}
		}

		// --- deg0_ct: a degree-0 ciphertext as op0 (plaintext × ciphertext order)
		{
			p := c.c05NewPt(s, L, 1)
			b := c.c05NewCt(s, L, 1)
			want := msgOp(p.want, b.want, mul)
			var res *rlwe.Ciphertext
			st := Try(func() string {
				var err error
				if res, err = ev.MulNew(c05Deg0(p.pt), b.ct); err != nil {
					return "err"
				}
				return "ok"
			})
			detail := ""
			if st == "panic" {
				detail = "panic"
			} else if st == "ok" {
				if got := s.decodeCt(res); !eq(got, want) {
					detail = fmt.Sprintf("wrong-value-no-error: out.degree=%d slot0 got %d want %d", res.Degree(), got[0], want[0])
				}
			}
			c.Probe("deg0_ct", s.name+" MulNew(deg0-ct, ct) status="+st, "C05-deg0-op0-times-ct", detail)
		}
	}
}

// c05ProbeQMul: bgv.NewParameters draws the auxiliary basis QMul of the scale-invariant tensoring from
// the 61-bit NTT-friendly primes just below 2^61 without excluding the user's Q; a 61-bit Q[i] equal
// to one of them makes MulRelin (scale-invariant) silently wrong.
func (c *Ctx) c05ProbeQMul() {
	for _, qb := range [][]int{{61, 55, 55}, {-61, 55, 55}} {
		s := c05NewSet("qmul", 5, qb, -61, 65537)
		shared := 0
		for _, q := range s.qs {
			for _, m := range s.params.RingQMul().ModuliChain() {
				if q == m {
					shared++
				}
			}
		}
		ev := s.evaluator(true, true)
		L := len(s.qs) - 1
		a, b := c.c05NewCt(s, L, 1), c.c05NewCt(s, L, 1)
		detail := ""
		st := Try(func() string {
			r, err := ev.MulRelinNew(a.ct, b.ct)
			if err != nil {
				return "err"
			}
			got := s.decodeCt(r)
			for i := range got {
				if got[i] != c05MulMod(a.want[i], b.want[i], s.t) {
					return fmt.Sprintf("wrong-value-no-error slot=%d got=%d want=%d", i, got[i], c05MulMod(a.want[i], b.want[i], s.t))
				}
			}
			return "ok"
		})
		if st != "ok" {
			detail = st
		}
		c.Probe("qmul_disjoint", fmt.Sprintf("Q=%s QMul=%s shared=%d", Vec(s.qs), Vec(s.params.RingQMul().ModuliChain()), shared), "C05-qmul-basis-shares-prime-with-q", detail)
	}
}
