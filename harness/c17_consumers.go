package main

// C17 — consumer-level stream accounting: every library consumer of a keyed / seeded sampler whose
// output a remote party must REPLAY from the seed (compressed ciphertexts, compressed evaluation keys +
// Expand, the CRS-based SampleCRP of the multiparty protocols).  A SEQUENCE of k >= 3 objects at
// levels below the maximum (and mixed levels) is generated from ONE keyed source; a twin replaying the
// same key with the documented call sequence AT THE OBJECT'S LEVEL must reproduce every object bit
// for bit, and the objects must decrypt within the fresh-noise bound with the replayed randomness.

import (
	"fmt"
	"math"

	"github.com/tuneinsight/lattigo/v6/core/rlwe"
	"github.com/tuneinsight/lattigo/v6/multiparty"
	"github.com/tuneinsight/lattigo/v6/ring"
	"github.com/tuneinsight/lattigo/v6/ring/ringqp"
)

func c17Params(ntt bool, np int) rlwe.Parameters {
	// N = 32, primes = 1 mod 64
	Q := []uint64{1152921504606844417, 1152921504606844033, 1152921504606843137, 1152921504606842753}
	P := []uint64{2305843009213689601, 2305843009213688449}[:np]
	// keep only primes = 1 mod 2N (checked by the constructor); fall back on generated ones otherwise
	lit := rlwe.ParametersLiteral{LogN: 5, Q: Q, P: P, NTTFlag: ntt}
	p, err := rlwe.NewParametersFromLiteral(lit)
	if err != nil {
		lit = rlwe.ParametersLiteral{LogN: 5, LogQ: []int{55, 54, 53, 52}, LogP: []int{56, 56}[:np], NTTFlag: ntt}
		if p, err = rlwe.NewParametersFromLiteral(lit); err != nil {
			panic(err)
		}
	}
	return p
}

func c17EqPoly(a, b ring.Poly, lvl int) string {
	if a.Level() < lvl || b.Level() < lvl {
		return fmt.Sprintf("levels %d / %d, want at least %d", a.Level(), b.Level(), lvl)
	}
	return c17FirstDiff(a.Coeffs[:lvl+1], b.Coeffs[:lvl+1])
}

func c17ProbeConsumers(c *Ctx) {
	c17Safe(c, "consumer-ciphertext", c17ConsumerCiphertexts)
	c17Safe(c, "consumer-evk", c17ConsumerEvk)
	c17Safe(c, "consumer-crp", c17ConsumerCRP)
	c17Safe(c, "consumer-secret-hw", c17ConsumerSecretHW)
}

// ---- compressed (degree 0) ciphertexts through Encryptor.WithPRNG ----

func c17ConsumerCiphertexts(c *Ctx) {
	for _, ntt := range []bool{true, false} {
		for _, np := range []int{1, 0} {
			params := c17Params(ntt, np)
			kgen := rlwe.NewKeyGenerator(params)
			sk := kgen.GenSecretKeyNew()
			dec := rlwe.NewDecryptor(params, sk)
			maxL := params.MaxLevel()
			seqs := [][]int{{0, 0, 0, 0}, {1, 1, 1}, {0, 2, 1, 0, 2}, {maxL, 0, maxL, 1}, {2, 2, 0, 1}}
			for rep := 0; rep < c.Scale(1, 6); rep++ {
				for _, seq := range seqs {
					for _, degree0 := range []bool{true, false} {
						key := c.rng.Bytes(32)
						args := fmt.Sprintf("ntt=%v P=%d levels=%v degree=%d key=%s", ntt, np, seq, map[bool]int{true: 0, false: 1}[degree0], Hex(key))
						args = c17NoSpace(args)
						detail := Try(func() string {
							enc := rlwe.NewEncryptor(params, sk).WithPRNG(c17Keyed(key))
							// the receiver: replays the seed, one uniform polynomial per object at the object's level
							recv := ringqp.NewUniformSampler(c17Keyed(key), *params.RingQP())
							for k, lvl := range seq {
								ringQ := params.RingQ().AtLevel(lvl)
								deg := 1
								if degree0 {
									deg = 0
								}
								ct := rlwe.NewCiphertext(params, deg, lvl)
								if err := enc.EncryptZero(ct); err != nil {
									return fmt.Sprintf("object %d: EncryptZero: %v", k, err)
								}
								c1 := recv.AtLevel(lvl, -1).ReadNew().Q
								if !degree0 {
									if d := c17EqPoly(ct.Value[1], c1, lvl); d != "" {
										return fmt.Sprintf("object %d (level %d): c1 is not the replayed polynomial: %s", k, lvl, d)
									}
								}
								// decrypt (c0, replayed c1): the phase must be fresh noise
								full := rlwe.NewCiphertext(params, 1, lvl)
								*full.MetaData = *ct.MetaData
								copy2 := func(dst, src ring.Poly) {
									for i := 0; i <= lvl; i++ {
										copy(dst.Coeffs[i], src.Coeffs[i])
									}
								}
								copy2(full.Value[0], ct.Value[0])
								copy2(full.Value[1], c1)
								pt := rlwe.NewPlaintext(params, lvl)
								dec.Decrypt(full, pt)
								if pt.IsNTT {
									ringQ.INTT(pt.Value, pt.Value)
								}
								if pt.IsMontgomery {
									ringQ.IMForm(pt.Value, pt.Value)
								}
								got := ringQ.Log2OfStandardDeviation(pt.Value)
								if want := math.Log2(params.NoiseFreshSK()) + 1; got > want {
									return fmt.Sprintf("object %d of the sequence (level %d): with the replayed c1 the phase has log2(std) = %.1f > %.1f: sender and receiver streams diverged", k, lvl, got, want)
								}
							}
							return ""
						})
						if detail == "panic" {
							detail = "panic"
						}
						c.Probe("consumer-compressed-ciphertexts", args, "C17/compressed-ciphertext-stream-accounting", detail)
					}
				}
			}
		}
	}
}

func c17NoSpace(s string) string {
	out := []byte(s)
	in := false
	for i, ch := range out {
		if ch == '[' {
			in = true
		} else if ch == ']' {
			in = false
		} else if ch == ' ' && in {
			out[i] = ','
		}
	}
	return string(out)
}

// ---- compressed evaluation keys + Expand ----

func c17ConsumerEvk(c *Ctx) {
	params := c17Params(true, 2)
	kgen := rlwe.NewKeyGenerator(params)
	sk := kgen.GenSecretKeyNew()
	sk2 := kgen.GenSecretKeyNew()
	type lv struct{ q, p int }
	seqs := [][]lv{{{0, 0}, {0, 0}, {0, 0}}, {{1, 0}, {2, 1}, {0, 1}, {1, 1}}, {{3, 1}, {0, 0}, {2, 0}}}
	for rep := 0; rep < c.Scale(1, 6); rep++ {
		for _, seq := range seqs {
			for _, b2 := range []int{0, 16} {
				args := c17NoSpace(fmt.Sprintf("levels=%v base2=%d", seq, b2))
				detail := Try(func() string {
					// the same key generator produces the whole sequence (its PRNG hands out the seeds)
					for k, l := range seq {
						lq, lp := l.q, l.p
						evp := rlwe.EvaluationKeyParameters{LevelQ: &lq, LevelP: &lp, BaseTwoDecomposition: &b2, Compressed: true}
						var evk *rlwe.EvaluationKey
						var noise func(*rlwe.EvaluationKey) float64
						switch k % 3 {
						case 0:
							evk = kgen.GenEvaluationKeyNew(sk, sk2, evp)
							noise = func(e *rlwe.EvaluationKey) float64 { return rlwe.NoiseEvaluationKey(e, sk, sk2, params) }
						case 1:
							gk := kgen.GenGaloisKeyNew(params.GaloisElement(1), sk, evp)
							evk = &gk.EvaluationKey
							noise = func(e *rlwe.EvaluationKey) float64 {
								return rlwe.NoiseGaloisKey(&rlwe.GaloisKey{GaloisElement: gk.GaloisElement, NthRoot: gk.NthRoot, EvaluationKey: *e}, sk, params)
							}
						default:
							rk := kgen.GenRelinearizationKeyNew(sk, evp)
							evk = &rk.EvaluationKey
							noise = func(e *rlwe.EvaluationKey) float64 {
								return rlwe.NoiseRelinearizationKey(&rlwe.RelinearizationKey{EvaluationKey: *e}, sk, params)
							}
						}
						if !evk.IsCompressed() || evk.Seed == nil {
							return fmt.Sprintf("object %d: key is not compressed / has no seed", k)
						}
						if evk.LevelQ() != lq || evk.LevelP() != lp {
							return fmt.Sprintf("object %d: levels (%d,%d), want (%d,%d)", k, evk.LevelQ(), evk.LevelP(), lq, lp)
						}
						// the receiver: replays the seed at the key's levels, one polynomial per gadget entry
						recv := ringqp.NewUniformSampler(c17Keyed((*evk.Seed)[:]), params.RingQP().AtLevel(lq, lp))
						var as []ringqp.Poly
						for i := range evk.Value {
							for range evk.Value[i] {
								as = append(as, recv.ReadNew())
							}
						}
						ex := evk.CopyNew()
						if err := ex.Expand(params, nil); err != nil {
							return fmt.Sprintf("object %d: Expand: %v", k, err)
						}
						n := 0
						for i := range ex.Value {
							for j := range ex.Value[i] {
								if len(ex.Value[i][j]) != 2 {
									return fmt.Sprintf("object %d: entry (%d,%d) has degree %d after Expand", k, i, j, len(ex.Value[i][j])-1)
								}
								if d := c17FirstDiff(ex.Value[i][j][1].Q.Coeffs, as[n].Q.Coeffs); d != "" {
									return fmt.Sprintf("object %d entry (%d,%d) Q: expanded a is not the replayed polynomial: %s", k, i, j, d)
								}
								if lp >= 0 {
									if d := c17FirstDiff(ex.Value[i][j][1].P.Coeffs, as[n].P.Coeffs); d != "" {
										return fmt.Sprintf("object %d entry (%d,%d) P: %s", k, i, j, d)
									}
								}
								n++
							}
						}
						// the expanded key is a valid key: its noise is fresh noise
						if got, want := noise(ex), math.Log2(math.Sqrt(float64(len(ex.Value)))*params.NoiseFreshSK())+1; got > want {
							return fmt.Sprintf("object %d (levels %d,%d): expanded key has log2(noise) = %.1f > %.1f", k, lq, lp, got, want)
						}
					}
					return ""
				})
				if detail == "panic" {
					detail = "panic"
				}
				c.Probe("consumer-compressed-evk", args, "C17/compressed-evk-stream-accounting", detail)
			}
		}
	}
}

// ---- CRS: SampleCRP of every multiparty protocol, a sequence over ONE keyed CRS ----

func c17ConsumerCRP(c *Ctx) {
	params := c17Params(true, 2)
	for rep := 0; rep < c.Scale(2, 12); rep++ {
		key := c.rng.Bytes(32)
		// the sequence of requests (protocol, levels)
		type req struct {
			proto  string
			lq, lp int
			b2     int
		}
		protos := []string{"pk", "rlk", "gal", "evk", "ks", "ks"}
		var seq []req
		for k := 0; k < 6; k++ {
			seq = append(seq, req{protos[c.rng.Intn(len(protos))], c.rng.Intn(params.MaxLevelQ() + 1), c.rng.Intn(params.MaxLevelP()+2) - 1, []int{0, 16}[c.rng.Intn(2)]})
		}
		args := c17NoSpace(fmt.Sprintf("key=%s seq=%v", Hex(key), seq))
		detail := Try(func() string {
			crsA, crsB, crsT := c17Keyed(key), c17Keyed(key), c17Keyed(key)
			// the twin: fresh uniform samplers on the level ring over its own copy of the CRS
			twinQP := func(lq, lp, n int) []ringqp.Poly {
				us := ringqp.NewUniformSampler(crsT, params.RingQP().AtLevel(lq, lp))
				out := make([]ringqp.Poly, n)
				for i := range out {
					out[i] = us.ReadNew()
				}
				return out
			}
			cmpQP := func(k int, got [][]ringqp.Poly, lq, lp int) string {
				n := 0
				for i := range got {
					n += len(got[i])
				}
				want := twinQP(lq, lp, n)
				n = 0
				for i := range got {
					for j := range got[i] {
						if d := c17FirstDiff(got[i][j].Q.Coeffs, want[n].Q.Coeffs); d != "" {
							return fmt.Sprintf("request %d entry (%d,%d) Q: %s", k, i, j, d)
						}
						if d := c17FirstDiff(got[i][j].P.Coeffs, want[n].P.Coeffs); d != "" {
							return fmt.Sprintf("request %d entry (%d,%d) P: %s", k, i, j, d)
						}
						n++
					}
				}
				return ""
			}
			same := func(k int, a, b [][]ringqp.Poly) string {
				for i := range a {
					for j := range a[i] {
						if c17FirstDiff(a[i][j].Q.Coeffs, b[i][j].Q.Coeffs) != "" || c17FirstDiff(a[i][j].P.Coeffs, b[i][j].P.Coeffs) != "" {
							return fmt.Sprintf("request %d: two parties with the same CRS key obtain different polynomials", k)
						}
					}
				}
				return ""
			}
			for k, rq := range seq {
				lq, lp, b2 := rq.lq, rq.lp, rq.b2
				evp := rlwe.EvaluationKeyParameters{LevelQ: &lq, LevelP: &lp, BaseTwoDecomposition: &b2}
				var a, b [][]ringqp.Poly
				switch rq.proto {
				case "pk":
					pa := multiparty.NewPublicKeyGenProtocol(params).SampleCRP(crsA)
					pb := multiparty.NewPublicKeyGenProtocol(params).SampleCRP(crsB)
					a, b = [][]ringqp.Poly{{pa.Value}}, [][]ringqp.Poly{{pb.Value}}
					lq, lp = params.MaxLevelQ(), params.MaxLevelP()
				case "rlk":
					a = multiparty.NewRelinearizationKeyGenProtocol(params).SampleCRP(crsA, evp).Value
					b = multiparty.NewRelinearizationKeyGenProtocol(params).SampleCRP(crsB, evp).Value
				case "gal":
					a = multiparty.NewGaloisKeyGenProtocol(params).SampleCRP(crsA, evp).Value
					b = multiparty.NewGaloisKeyGenProtocol(params).SampleCRP(crsB, evp).Value
				case "evk":
					a = multiparty.NewEvaluationKeyGenProtocol(params).SampleCRP(crsA, evp).Value
					b = multiparty.NewEvaluationKeyGenProtocol(params).SampleCRP(crsB, evp).Value
				default: // key switch / refresh: one polynomial in R_Q at the given level
					ksA, err := multiparty.NewKeySwitchProtocol(params, ring.DiscreteGaussian{Sigma: 3.2, Bound: 19.2})
					if err != nil {
						return err.Error()
					}
					pa := ksA.SampleCRP(lq, crsA).Value
					pb := ksA.SampleCRP(lq, crsB).Value
					want := ring.NewUniformSampler(crsT, params.RingQ().AtLevel(lq)).ReadNew()
					if d := c17FirstDiff(pa.Coeffs, want.Coeffs); d != "" {
						return fmt.Sprintf("request %d (key switch, level %d): %s", k, lq, d)
					}
					if d := c17FirstDiff(pa.Coeffs, pb.Coeffs); d != "" {
						return fmt.Sprintf("request %d: two parties disagree: %s", k, d)
					}
					continue
				}
				if d := same(k, a, b); d != "" {
					return d
				}
				if d := cmpQP(k, a, lq, lp); d != "" {
					return d
				}
			}
			return ""
		})
		if detail == "panic" {
			detail = "panic"
		}
		c.Probe("consumer-crp-sequence", args, "C17/crp-stream-accounting", detail)
	}
}

// ---- APIs taking an explicit Hamming weight: the secret has EXACTLY hw non-zero coefficients ----
//
// GenSecretKeyWithHammingWeight(New) on parameter sets whose own secret distribution Xs is density based
// (Ternary{P}), fixed weight (Ternary{H}) or Gaussian — in particular for hw = params.XsHammingWeight(),
// which for Ternary{P} / Gaussian is only the EXPECTED weight of Xs.  The last set mirrors the ephemeral
// sparse secret of the bootstrapping (genEncapsulationEvaluationKeysNew: Q[:1], P[:1], default Xs).
func c17ConsumerSecretHW(c *Ctx) {
	type pset struct {
		name string
		lit  rlwe.ParametersLiteral
	}
	var sets []pset
	for _, logN := range []int{6, 10} {
		N := 1 << logN
		sets = append(sets,
			pset{fmt.Sprintf("TernaryP2/3,logN=%d", logN), rlwe.ParametersLiteral{LogN: logN, LogQ: []int{50, 45}, LogP: []int{55}, Xs: ring.Ternary{P: 2.0 / 3.0}}},
			pset{fmt.Sprintf("TernaryP1/2,logN=%d", logN), rlwe.ParametersLiteral{LogN: logN, LogQ: []int{50, 45}, LogP: []int{55}, Xs: ring.Ternary{P: 0.5}}},
			pset{fmt.Sprintf("TernaryP1/4,logN=%d", logN), rlwe.ParametersLiteral{LogN: logN, LogQ: []int{50}, Xs: ring.Ternary{P: 0.25}}},
			pset{fmt.Sprintf("TernaryH,logN=%d", logN), rlwe.ParametersLiteral{LogN: logN, LogQ: []int{50, 45}, LogP: []int{55}, Xs: ring.Ternary{H: N / 2}}},
			pset{fmt.Sprintf("Gaussian0.5,logN=%d", logN), rlwe.ParametersLiteral{LogN: logN, LogQ: []int{50, 45}, LogP: []int{55}, Xs: ring.DiscreteGaussian{Sigma: 0.5, Bound: 3}}},
			pset{fmt.Sprintf("Gaussian3.2,logN=%d", logN), rlwe.ParametersLiteral{LogN: logN, LogQ: []int{50, 45}, Xs: ring.DiscreteGaussian{Sigma: 3.2, Bound: 19.2}}},
			pset{fmt.Sprintf("default(bootstrapping-sparse),logN=%d", logN), rlwe.ParametersLiteral{LogN: logN, LogQ: []int{55}, LogP: []int{56}}},
		)
	}
	for _, ps := range sets {
		params, err := rlwe.NewParametersFromLiteral(ps.lit)
		if err != nil {
			panic(err)
		}
		N := params.N()
		kgen := rlwe.NewKeyGenerator(params)
		hws := []int{1, 2, N / 4, params.XsHammingWeight(), params.XsHammingWeight() - 1, params.XsHammingWeight() + 1, N - 1, N}
		for k, hw := range hws {
			if hw < 1 {
				continue
			}
			want := hw
			if want > N {
				want = N // sampleSparse clips the weight to N
			}
			args := fmt.Sprintf("params=%s N=%d XsHammingWeight=%d hw=%d api=%s", ps.name, N, params.XsHammingWeight(), hw, []string{"New", "InPlace"}[k%2])
			detail := Try(func() string {
				var sk *rlwe.SecretKey
				if k%2 == 0 {
					sk = kgen.GenSecretKeyWithHammingWeightNew(hw)
				} else {
					sk = rlwe.NewSecretKey(params)
					kgen.GenSecretKeyWithHammingWeight(hw, sk)
				}
				return c17SecretShape(params, sk, want)
			})
			if detail == "panic" {
				detail = "panic"
			}
			c.Probe("consumer-secret-hamming-weight", args, "C17/secret-key-exact-hamming-weight", detail)
		}
	}
}

// the secret (stored NTT + Montgomery, Q and P limbs) is ONE vector in {-1,0,1}^N with exactly want non-zeros
func c17SecretShape(params rlwe.Parameters, sk *rlwe.SecretKey, want int) string {
	ringQP := params.RingQP().AtLevel(sk.LevelQ(), sk.LevelP())
	v := sk.Value.CopyNew()
	ringQP.IMForm(*v, *v)
	ringQP.INTT(*v, *v)
	N := params.N()
	type limb struct {
		q   uint64
		row []uint64
	}
	var limbs []limb
	for i, q := range params.Q()[:sk.LevelQ()+1] {
		limbs = append(limbs, limb{q, v.Q.Coeffs[i]})
	}
	if sk.LevelP() >= 0 {
		for i, q := range params.P()[:sk.LevelP()+1] {
			limbs = append(limbs, limb{q, v.P.Coeffs[i]})
		}
	}
	nz := 0
	for j := 0; j < N; j++ {
		var x0 int
		for i, l := range limbs {
			var x int
			switch l.row[j] {
			case 0:
				x = 0
			case 1:
				x = 1
			case l.q - 1:
				x = -1
			default:
				return fmt.Sprintf("coefficient %d limb %d = %d is not in {-1,0,1} mod %d", j, i, l.row[j], l.q)
			}
			if i == 0 {
				x0 = x
			} else if x != x0 {
				return fmt.Sprintf("coefficient %d: limb %d holds %d, limb 0 holds %d", j, i, x, x0)
			}
		}
		if x0 != 0 {
			nz++
		}
	}
	if nz != want {
		return fmt.Sprintf("Hamming weight %d, want exactly %d", nz, want)
	}
	return ""
}
