package main

// C01, round 6:
//
//	A. views of views: ring.Ring.AtLevel and ringqp.Ring.AtLevel applied to a view (down then up, up then down, same
//	   level, back to the maximum): the resulting ring must operate at the LAST requested level whatever the level of
//	   the receiver: Level()/LevelQ()/LevelP(), NewPoly, and Add / MulCoeffsMontgomery / NTT write exactly the rows up to
//	   that level with the exact values (C01/ringqp.AtLevel/view-of-view-level, C01/Ring.AtLevel/view-of-view-level).
//	B. Ring.NewMonomialXi for every exponent in [-4N, 4N] (small N) and the boundary exponents of larger N, both ring
//	   types, against X^i in Z[X]/(X^N+1); the product a*X^i through the NTT and Ring.MultByMonomial against the exact shift.

import (
	"fmt"

	"github.com/tuneinsight/lattigo/v6/ring"
	"github.com/tuneinsight/lattigo/v6/ring/ringqp"
)

func init() {
	prev := generators["C01"]
	generators["C01"] = func(c *Ctx) {
		prev(c)
		c01lvViews(c)
		c01lvMonomials(c)
	}
}

const c01lvSentinel = uint64(0xA5A5A5A5A5A5A5A5)

func c01lvFill(p ring.Poly, v uint64) {
	for i := range p.Coeffs {
		for k := range p.Coeffs[i] {
			p.Coeffs[i][k] = v
		}
	}
}

// c01lvCheckOps runs Add, MulCoeffsMontgomery (with MForm) and NTT of the view `v` on polynomials allocated at the
// maximum level and checks that exactly the rows 0..lvl are written, with the exact values.
func c01lvCheckOps(c *Ctx, v *ring.Ring, full *ring.Ring, qs []uint64, pts [][]uint64, k c01ciKind, lvl int) string {
	N := full.N()
	rn := c.rng
	a, b := full.NewPoly(), full.NewPoly()
	for i := range qs {
		copy(a.Coeffs[i], c01ciInput(rn, c01ciPats[3+rn.Intn(6)], N, qs[i], qs[i]-1))
		copy(b.Coeffs[i], c01ciInput(rn, c01ciPats[3+rn.Intn(6)], N, qs[i], qs[i]-1))
	}
	type op struct {
		name string
		run  func(o ring.Poly)
		ref  func(i int) []uint64
	}
	bm := full.NewPoly()
	full.MForm(b, bm)
	ops := []op{
		{"Add", func(o ring.Poly) { v.Add(a, b, o) }, func(i int) []uint64 {
			w := make([]uint64, N)
			for j := range w {
				w[j] = c01ciAddMod(a.Coeffs[i][j], b.Coeffs[i][j], qs[i])
			}
			return w
		}},
		{"MulCoeffsMontgomery", func(o ring.Poly) { v.MulCoeffsMontgomery(a, bm, o) }, func(i int) []uint64 {
			w := make([]uint64, N)
			for j := range w {
				w[j] = c01ciMulMod(a.Coeffs[i][j], b.Coeffs[i][j], qs[i])
			}
			return w
		}},
		{"NTT", func(o ring.Poly) { v.NTT(a, o) }, func(i int) []uint64 { return c01ciEval(k, a.Coeffs[i], pts[i], qs[i]) }},
	}
	for _, o := range ops {
		out := full.NewPoly()
		c01lvFill(out, c01lvSentinel)
		o.run(out)
		for i := range qs {
			if i <= lvl {
				if w := o.ref(i); !eqVec(out.Coeffs[i], w) {
					if out.Coeffs[i][0] == c01lvSentinel {
						return fmt.Sprintf("%s: row %d (<= level %d) was not written", o.name, i, lvl)
					}
					return fmt.Sprintf("%s: row %d (q=%d) got %s want %s", o.name, i, qs[i], Vec(out.Coeffs[i]), Vec(w))
				}
			} else {
				for _, x := range out.Coeffs[i] {
					if x != c01lvSentinel {
						return fmt.Sprintf("%s: row %d above level %d was written", o.name, i, lvl)
					}
				}
			}
		}
	}
	return ""
}

func c01lvViews(c *Ctx) {
	rn := c.rng
	for _, k := range []c01ciKind{c01ciStd, c01ciCI} {
		N := 16
		nth := k.nthRoot(N)
		qs := c01ciGoodPrimes(nth, []int{61, 0, 45, 30})
		ps := []uint64{c01ciPrimeNear(1<<60-1, nth, 1), c01ciPrimeAbove(1<<20, nth, 1), c01ciPrimeNear(1<<50-1, nth, 1)}
		xq, xp := c01ciNewCtx(c, k, N, qs), c01ciNewCtx(c, k, N, ps)
		if xq == nil || xp == nil {
			c.Count("views:ring-unavailable")
			continue
		}
		// ---- ring.Ring: every chain of two and three AtLevel calls
		nq := len(qs)
		for l1 := 0; l1 < nq; l1++ {
			for l2 := 0; l2 < nq; l2++ {
				for l3 := -1; l3 < nq; l3++ { // -1: chain of two
					if l3 >= 0 && !c.Thorough() && rn.Intn(3) != 0 {
						continue
					}
					last := l2
					desc := fmt.Sprintf("AtLevel(%d).AtLevel(%d)", l1, l2)
					d := Try(func() string {
						v := xq.r.AtLevel(l1).AtLevel(l2)
						if l3 >= 0 {
							v, last = v.AtLevel(l3), l3
							desc += fmt.Sprintf(".AtLevel(%d)", l3)
						}
						if v.Level() != last {
							return fmt.Sprintf("Level() = %d, want %d", v.Level(), last)
						}
						if v.MaxLevel() != nq-1 || !eqVec(v.ModuliChain(), qs) {
							return "MaxLevel / ModuliChain changed"
						}
						if p := v.NewPoly(); p.Level() != last {
							return fmt.Sprintf("NewPoly().Level() = %d, want %d", p.Level(), last)
						}
						if v.ModulusAtLevel[last].Cmp(xq.r.ModulusAtLevel[last]) != 0 {
							return "ModulusAtLevel differs"
						}
						return c01lvCheckOps(c, v, xq.r, qs, xq.pts, k, last)
					})
					c.Probe("view_of_view", fmt.Sprintf("ring %s qs=%s %s", k, Vec(qs), desc), "C01/Ring.AtLevel/view-of-view-level", d)
				}
			}
		}
		// ---- ringqp.Ring: chains (lq1,lp1) -> (lq2,lp2) [-> (lq3,lp3)]; -1 only as the LAST level of a part (a part
		//      dropped by a view cannot come back: AtLevel keeps a nil ring nil)
		full := ringqp.Ring{RingQ: xq.r, RingP: xp.r}
		np := len(ps)
		type lv struct{ q, p int }
		var all, inner []lv
		for q := -1; q < nq; q++ {
			for p := -1; p < np; p++ {
				if q >= 0 || p >= 0 {
					all = append(all, lv{q, p})
				}
				if q >= 0 && p >= 0 {
					inner = append(inner, lv{q, p})
				}
			}
		}
		for _, a1 := range inner {
			for _, a2 := range all {
				if !c.Thorough() && rn.Intn(2) != 0 && !(a2.q == nq-1 || a2.p == np-1 || a1.q < a2.q || a1.p < a2.p) {
					continue
				}
				chain := []lv{a1, a2}
				if a2.q >= 0 && a2.p >= 0 && rn.Intn(3) == 0 {
					chain = append(chain, all[rn.Intn(len(all))])
				}
				desc := ""
				d := Try(func() string {
					R := full
					for _, s := range chain {
						R = R.AtLevel(s.q, s.p)
						desc += fmt.Sprintf(".AtLevel(%d,%d)", s.q, s.p)
					}
					last := chain[len(chain)-1]
					if R.LevelQ() != last.q || R.LevelP() != last.p {
						return fmt.Sprintf("LevelQ(),LevelP() = %d,%d, want %d,%d", R.LevelQ(), R.LevelP(), last.q, last.p)
					}
					if p := R.NewPoly(); p.LevelQ() != last.q || p.LevelP() != last.p {
						return fmt.Sprintf("NewPoly levels = %d,%d, want %d,%d", p.LevelQ(), p.LevelP(), last.q, last.p)
					}
					// arithmetic on maximum-level polynomials: exactly the rows up to (last.q, last.p) are written
					mk := func() ringqp.Poly {
						p := full.NewPoly()
						for i := range qs {
							copy(p.Q.Coeffs[i], c01ciInput(rn, c01ciPats[3+rn.Intn(6)], N, qs[i], qs[i]-1))
						}
						for i := range ps {
							copy(p.P.Coeffs[i], c01ciInput(rn, c01ciPats[3+rn.Intn(6)], N, ps[i], ps[i]-1))
						}
						return p
					}
					a, b := mk(), mk()
					bm := full.NewPoly()
					full.MForm(b, bm)
					type op struct {
						name string
						run  func(o ringqp.Poly)
						ref  func(x, y []uint64, q uint64, pts []uint64) []uint64
					}
					pw := func(f func(x, y, q uint64) uint64) func(x, y []uint64, q uint64, pts []uint64) []uint64 {
						return func(x, y []uint64, q uint64, _ []uint64) []uint64 {
							w := make([]uint64, len(x))
							for j := range w {
								w[j] = f(x[j], y[j], q)
							}
							return w
						}
					}
					ops := []op{
						{"Add", func(o ringqp.Poly) { R.Add(a, b, o) }, pw(c01ciAddMod)},
						{"Sub", func(o ringqp.Poly) { R.Sub(a, b, o) }, pw(c01ciSubMod)},
						{"MulCoeffsMontgomery", func(o ringqp.Poly) { R.MulCoeffsMontgomery(a, bm, o) }, pw(c01ciMulMod)},
						{"NTT", func(o ringqp.Poly) { R.NTT(a, o) }, func(x, _ []uint64, q uint64, pts []uint64) []uint64 { return c01ciEval(k, x, pts, q) }},
					}
					for _, o := range ops {
						out := full.NewPoly()
						c01lvFill(out.Q, c01lvSentinel)
						c01lvFill(out.P, c01lvSentinel)
						o.run(out)
						for part := 0; part < 2; part++ {
							rows, ar, br, ms, pts, lim, nm := out.Q.Coeffs, a.Q.Coeffs, b.Q.Coeffs, qs, xq.pts, last.q, "Q"
							if part == 1 {
								rows, ar, br, ms, pts, lim, nm = out.P.Coeffs, a.P.Coeffs, b.P.Coeffs, ps, xp.pts, last.p, "P"
							}
							for i := range ms {
								if i <= lim {
									if w := o.ref(ar[i], br[i], ms[i], pts[i]); !eqVec(rows[i], w) {
										if rows[i][0] == c01lvSentinel && rows[i][1] == c01lvSentinel {
											return fmt.Sprintf("%s: row %d of %s (<= level %d) was not written", o.name, i, nm, lim)
										}
										return fmt.Sprintf("%s: row %d of %s got %s want %s", o.name, i, nm, Vec(rows[i]), Vec(w))
									}
								} else {
									for _, x := range rows[i] {
										if x != c01lvSentinel {
											return fmt.Sprintf("%s: row %d of %s above level %d was written", o.name, i, nm, lim)
										}
									}
								}
							}
						}
					}
					return ""
				})
				c.Probe("view_of_view", fmt.Sprintf("ringqp %s Q=%s P=%s %s", k, Vec(qs), Vec(ps), desc), "C01/ringqp.AtLevel/view-of-view-level", d)
			}
		}
	}
}

// ---- B. monomials -------------------------------------------------------------------------------------

// c01lvMonomial: X^i in Z_q[X]/(X^n+1), i any integer
func c01lvMonomial(n int, i int, q uint64) []uint64 {
	e := ((i % (2 * n)) + 2*n) % (2 * n)
	v := make([]uint64, n)
	if e < n {
		v[e] = 1
	} else {
		v[e-n] = q - 1
	}
	return v
}

// c01lvShift: a * X^i in Z_q[X]/(X^n+1)
func c01lvShift(a []uint64, i int, q uint64) []uint64 {
	n := len(a)
	out := make([]uint64, n)
	for j := range a {
		e := (((j + i) % (2 * n)) + 2*n) % (2 * n)
		if e < n {
			out[e] = a[j] % q
		} else {
			out[e-n] = c01ciSubMod(0, a[j], q)
		}
	}
	return out
}

func c01lvMonomials(c *Ctx) {
	rn := c.rng
	for _, N := range []int{8, 16, 64, 256} {
		for _, k := range []c01ciKind{c01ciStd, c01ciCI} {
			qs := c01ciGoodPrimes(k.nthRoot(N), []int{0, 61, 30})
			x := c01ciNewCtx(c, k, N, qs)
			if x == nil {
				continue
			}
			var exps []int
			if N <= 16 {
				for i := -4 * N; i <= 4*N; i++ {
					exps = append(exps, i)
				}
			} else {
				for _, b := range []int{0, 1, N - 1, N, N + 1, 2*N - 1, 2 * N, 2*N + 1, 3*N - 1, 3 * N, 3*N + 1, 4*N - 1, 4 * N, 4*N + 1, 1 << 40, 1<<40 + N + 1} {
					exps = append(exps, b, -b)
				}
				for j := 0; j < 12; j++ {
					exps = append(exps, rn.Intn(16*N)-8*N)
				}
			}
			for _, i := range exps {
				lvl := rn.Intn(len(qs))
				rl := x.r.AtLevel(lvl)
				d := Try(func() string {
					m := rl.NewMonomialXi(i)
					if m.Level() != lvl {
						return fmt.Sprintf("level of the result %d, want %d", m.Level(), lvl)
					}
					for r := 0; r <= lvl; r++ {
						if w := c01lvMonomial(N, i, qs[r]); !eqVec(m.Coeffs[r], w) {
							return fmt.Sprintf("row %d (q=%d): got %s want %s", r, qs[r], Vec(m.Coeffs[r]), Vec(w))
						}
					}
					if k != c01ciStd {
						return ""
					}
					// a * X^i through the NTT, and Ring.MultByMonomial (exponents >= -2N: below that the function is
					// tied to its model, which indexes out of range)
					a := x.randPoly(c, lvl)
					na, nm, o := rl.NewPoly(), rl.NewPoly(), rl.NewPoly()
					rl.NTT(a, na)
					rl.NTT(m, nm)
					rl.MForm(nm, nm)
					rl.MulCoeffsMontgomery(na, nm, o)
					rl.INTT(o, o)
					for r := 0; r <= lvl; r++ {
						if w := c01lvShift(a.Coeffs[r], i, qs[r]); !eqVec(o.Coeffs[r], w) {
							return fmt.Sprintf("INTT(NTT(a)*NTT(X^i)) row %d: got %s want %s", r, Vec(o.Coeffs[r]), Vec(w))
						}
					}
					if i >= -2*N {
						o2 := rl.NewPoly()
						rl.MultByMonomial(a, i, o2)
						for r := 0; r <= lvl; r++ {
							if w := c01lvShift(a.Coeffs[r], i, qs[r]); !eqVec(c01ciReduced(o2.Coeffs[r], qs[r]), w) {
								return fmt.Sprintf("MultByMonomial row %d: got %s want %s", r, Vec(o2.Coeffs[r]), Vec(w))
							}
						}
					}
					return ""
				})
				c.Probe("monomial_xi", fmt.Sprintf("%s N=%d lvl=%d i=%d", k, N, lvl, i), "C01/Ring.NewMonomialXi/not-X^i", d)
			}
		}
	}
}
