package main

// C04 — word-level tie of the lazy uint64 accumulators of GadgetProductLazy (all three loops:
// gadgetProductMultiplePLazy, gadgetProductSinglePAndBitDecompLazy; the hoisted loop has the same body):
// per limb, the unreduced sums of MRedLazy(key, digit) with the code's reduction schedule (Q limbs every
// QiOverflowMargin>>1 accumulations, P limbs every PiOverflowMargin>>1), observed as the raw NTT-domain words
// the real GadgetProductLazy leaves in ctQP. The digits are recomputed with the library's own exported
// building blocks (DecomposeSingleNTT / Decomposer.DecomposeAndSplit / MaskVec / SubRing.NTTLazy).

import (
	"fmt"
	"math/big"

	"github.com/tuneinsight/lattigo/v6/core/rlwe"
	"github.com/tuneinsight/lattigo/v6/ring"
	"github.com/tuneinsight/lattigo/v6/ring/ringqp"
)

func c04LazyWordTie(c *Ctx, ps *c04PS, cfg c04KeyCfg, evk *rlwe.EvaluationKey, ct *rlwe.Ciphertext) {
	if !ct.IsNTT || cfg.lp < 0 {
		return
	}
	lvl, lp, w := ct.Level(), cfg.lp, cfg.w
	ringQP := ps.params.RingQP().AtLevel(lvl, lp)
	ringQ, ringP := ringQP.RingQ, ringQP.RingP
	eval := rlwe.NewEvaluator(ps.params, nil)
	ctQP := &rlwe.Element[ringqp.Poly]{}
	ctQP.Value = []ringqp.Poly{ringQP.NewPoly(), ringQP.NewPoly()}
	ctQP.MetaData = ct.MetaData.CopyNew()
	if r := Try(func() string {
		if err := eval.GadgetProductLazy(lvl, ct.Value[1], &evk.GadgetCiphertext, ctQP); err != nil {
			return "err"
		}
		return "ok"
	}); r != "ok" {
		return
	}
	// digits in accumulation order
	twin := rlwe.NewEvaluator(ps.params, nil)
	cxNTT := ct.Value[1]
	cxInv := ringQ.NewPoly()
	ringQ.INTT(cxNTT, cxInv)
	type term struct {
		i, j int
		d    ringqp.Poly // raw NTT-domain digit, every limb
	}
	var terms []term
	N := ps.N()
	if lp > 0 {
		nI := ps.params.BaseRNSDecompositionVectorSize(lvl, lp)
		for i := 0; i < nI; i++ {
			d := ringQP.NewPoly()
			twin.DecomposeSingleNTT(lvl, lp, lp+1, i, cxNTT, cxInv, d.Q, d.P)
			terms = append(terms, term{i, 0, d})
		}
	} else {
		mask := uint64((1 << w) - 1)
		for i := 0; i <= lvl; i++ {
			c2 := ringQP.NewPoly()
			if mask == 0 {
				twin.Decomposer.DecomposeAndSplit(lvl, lp, 1, i, cxInv, c2.Q, c2.P)
			}
			for j := 0; j < len(evk.Value[i]); j++ {
				d := ringQP.NewPoly()
				cw := make([]uint64, N)
				if mask != 0 {
					ring.MaskVec(cxInv.Coeffs[i], j*w, mask, cw)
				}
				for u, s := range ringQ.SubRings[:lvl+1] {
					if mask == 0 {
						s.NTTLazy(c2.Q.Coeffs[u], d.Q.Coeffs[u])
					} else {
						s.NTTLazy(cw, d.Q.Coeffs[u])
					}
				}
				for u, s := range ringP.SubRings[:lp+1] {
					if mask == 0 {
						s.NTTLazy(c2.P.Coeffs[u], d.P.Coeffs[u])
					} else {
						s.NTTLazy(cw, d.P.Coeffs[u])
					}
				}
				terms = append(terms, term{i, j, d})
			}
		}
	}
	limb := func(isP bool, u int) {
		var p, mrc uint64
		var fam []uint64
		get := func(x ringqp.Poly) []uint64 {
			if isP {
				return x.P.Coeffs[u]
			}
			return x.Q.Coeffs[u]
		}
		if isP {
			sr := ringP.SubRings[u]
			p, mrc, fam = sr.Modulus, sr.MRedConstant, ps.P[:lp+1]
		} else {
			sr := ringQ.SubRings[u]
			p, mrc, fam = sr.Modulus, sr.MRedConstant, ps.Q[:lvl+1]
		}
		var R0, R1, C [][]uint64
		maxDigit := uint64(0)
		for _, t := range terms {
			R0 = append(R0, append([]uint64(nil), get(evk.Value[t.i][t.j][0])...))
			R1 = append(R1, append([]uint64(nil), get(evk.Value[t.i][t.j][1])...))
			row := append([]uint64(nil), get(t.d)...)
			for _, x := range row {
				if x > maxDigit {
					maxDigit = x
				}
			}
			C = append(C, row)
		}
		c.Emit(fmt.Sprintf("gplazyw p=%d mrc=%d fam=%s r0=%s r1=%s c=%s", p, mrc, Vec(fam), Mat(R0), Mat(R1), Mat(C)),
			Vec(get(ctQP.Value[0]))+"|"+Vec(get(ctQP.Value[1])))
		c.Count(fmt.Sprintf("gplazyw:isP=%v:terms>margin=%v", isP, uint64(len(C)) > (^uint64(0)/p)/2))
		// hypotheses of the no-wrap theorems (Proofs/KeySwitchLazy): digit words below 6p (the documented
		// NTTLazy range; gpLazySlot_exact) or a small prime, p <= F + 1 with F the margin (gpLazySlot_exact_small)
		F := (^uint64(0) / c04MaxU64(fam)) / 2
		detail := ""
		if maxDigit >= 6*p && p > F+1 {
			// general condition of gpLazySlot_exact_bound with Y = maxDigit + 1: (p-1) + F*(p + p*Y/2^64) < 2^64
			Y := new(big.Int).SetUint64(maxDigit)
			Y.Add(Y, big.NewInt(1))
			pb := new(big.Int).SetUint64(p)
			t := new(big.Int).Mul(pb, Y)
			t.Rsh(t, 64)
			t.Add(t, pb)
			t.Mul(t, new(big.Int).SetUint64(F))
			t.Add(t, pb)
			if t.Cmp(new(big.Int).Lsh(big.NewInt(1), 64)) > 0 || F < 1 || 8*p > (1<<63) {
				detail = fmt.Sprintf("digit word %d: none of the no-wrap hypotheses holds (6p = %d, F+1 = %d)", maxDigit, 6*p, F+1)
			}
		}
		c.Probe("lazy_digit_range", fmt.Sprintf("p=%d isP=%v lp=%d w=%d", p, isP, lp, w), "C04-lazy-digit-range", detail)
		if maxDigit >= 6*p {
			c.Count("gplazyw:digit>=6p(small prime)")
		}
	}
	limb(false, 0)
	if lvl > 0 {
		limb(false, lvl)
	}
	for u := 0; u <= lp; u++ {
		limb(true, u)
	}
}

func c04MaxU64(v []uint64) uint64 {
	m := uint64(1)
	for _, x := range v {
		if x > m {
			m = x
		}
	}
	return m
}
