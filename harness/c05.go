package main

// C05 — BGV/BFV evaluation is an exact ring homomorphism modulo t (schemes/bgv/evaluator.go).
//
// Tie lines (model: lean/Lattigo/Model/BGV.lean, `BGV.step`; grammar in lean/Driver/C05.lean):
//
//	step t=<t> qs=<q0,..> n=<slots> si=<0|1> rlk=<0|1> op=<name> out=<new|inp|inp1|into:REG> a=REG b=ARG  ⇒  REG | REG REG | err
//	match  t=<t> s0=<s0> s1=<s1>                                                              ⇒  r0 r1   (white-box copy of matchScalesBinary, observed through MatchScalesAndLevel)
//
// REG = level/degree/scale/v0,v1,…   (v = slots decoded by the REAL decryptor+decoder with the recorded scale)
// ARG = r:REG | self | big:<int> | u64:<n> | i64:<n> | int:<n> | vu:<vec> | vi:<ivec> | k:<n> | none
//
// Probe lines: program_exact, errors_not_panics, inputs_unchanged, and one probe per behaviour the
// model's soundness proof has to exclude (scalar_out_scale, mta_scalar_level, mta_scalar_degree,
// alias_out_op1, bigint_unchanged, rescale_degree, relin_si_nil_evk, deg0_ct).

import (
	"fmt"
	"math"
	"math/big"
	"os"
	"strconv"
	"strings"

	"github.com/tuneinsight/lattigo/v6/core/rlwe"
	"github.com/tuneinsight/lattigo/v6/ring"
	"github.com/tuneinsight/lattigo/v6/schemes/bgv"
)

func init() { register("C05", genC05) }

// ---------------------------------------------------------------- parameter sets

type c05Set struct {
	name   string
	params bgv.Parameters
	t      uint64
	qs     []uint64
	n      int
	logN   int
	sk     *rlwe.SecretKey
	enc    *rlwe.Encryptor
	dec    *rlwe.Decryptor
	ecd    *bgv.Encoder
	rlk    *rlwe.RelinearizationKey
	logQ   []float64
	lt     float64

	evalCount int
}

// c05Prime returns the (skip+1)-th largest prime below 2^bits that is 1 mod m.
func c05Prime(bits int, m uint64, skip int) uint64 {
	start := uint64(1) << uint(bits)
	c := start - (start % m) + 1
	for c >= start {
		c -= m
	}
	for {
		if ring.IsPrime(c) {
			if skip == 0 {
				return c
			}
			skip--
		}
		c -= m
	}
}

// c05PrimeOrd returns a prime below 2^bits that is 1 mod ord but NOT 1 mod 2·ord (cyclotomic order exactly ord).
func c05PrimeOrd(bits int, ord uint64) uint64 {
	start := uint64(1) << uint(bits)
	c := start - (start % (2 * ord)) + ord + 1
	for c >= start {
		c -= 2 * ord
	}
	for !ring.IsPrime(c) {
		c -= 2 * ord
	}
	return c
}

func c05NewSet(name string, logN int, qbits []int, pbits int, t uint64) *c05Set {
	m := uint64(2) << uint(logN)
	seen := map[uint64]bool{t: true}
	pick := func(b int) uint64 {
		k0 := 0
		if b < 0 { // negative: skip the first 8 primes (they are the ones bgv.NewParameters takes for QMul)
			b, k0 = -b, 8
		}
		for k := k0; ; k++ {
			p := c05Prime(b, m, k)
			if !seen[p] {
				seen[p] = true
				return p
			}
		}
	}
	var qs []uint64
	for _, b := range qbits {
		qs = append(qs, pick(b))
	}
	ps := []uint64{pick(pbits)}
	params, err := bgv.NewParametersFromLiteral(bgv.ParametersLiteral{LogN: logN, Q: qs, P: ps, PlaintextModulus: t})
	if err != nil {
		panic(fmt.Errorf("c05 params %s: %w", name, err))
	}
	s := &c05Set{name: name, params: params, t: t, qs: qs, n: params.MaxSlots(), logN: logN}
	kgen := rlwe.NewKeyGenerator(params)
	sk, pk := kgen.GenKeyPairNew()
	s.sk = sk
	s.enc = rlwe.NewEncryptor(params, pk)
	s.dec = rlwe.NewDecryptor(params, sk)
	s.ecd = bgv.NewEncoder(params)
	s.rlk = kgen.GenRelinearizationKeyNew(sk)
	acc := 0.0
	for _, q := range qs {
		acc += math.Log2(float64(q))
		s.logQ = append(s.logQ, acc)
	}
	s.lt = math.Log2(float64(t))
	return s
}

func c05Sets(thorough bool) []*c05Set {
	sets := []*c05Set{
		c05NewSet("t257", 4, []int{36, 30, 30}, 40, 257),
		c05NewSet("t65537", 5, []int{45, 45, 45, 45}, 50, 65537),
		c05NewSet("t40", 6, []int{55, 50, 50, 50}, 56, c05Prime(40, 128, 0)),
		c05NewSet("t60", 5, []int{-61, 55, 55, 55}, -61, c05Prime(60, 64, 0)),
		c05NewSet("gap4", 6, []int{40, 40, 40}, 45, 97),
		c05NewSet("gap2", 5, []int{50, 45, 45}, 52, c05PrimeOrd(40, 32)),
	}
	if thorough {
		sets = append(sets,
			c05NewSet("t257b", 6, []int{30, 30}, 36, 257),
			c05NewSet("t12289", 5, []int{40, 38, 38, 38}, 45, 12289),
			c05NewSet("t50", 4, []int{55, 55, 55}, 58, c05Prime(50, 32, 3)),
		)
	}
	return sets
}

func (s *c05Set) cfg(si, rlk bool) string {
	b := func(x bool) string {
		if x {
			return "1"
		}
		return "0"
	}
	return "t=" + U(s.t) + " qs=" + Vec(s.qs) + " n=" + I(s.n) + " si=" + b(si) + " rlk=" + b(rlk)
}

// evaluator returns an evaluator in the requested mode, obtained in rotation DIRECTLY or as a DERIVED evaluator
// (WithKey, ShallowCopy, ShallowCopy().WithKey, WithKey().ShallowCopy): every program family of C05 therefore also runs
// through derived evaluators, and the tie lines check their recorded scale / level against the mode of the original.
func (s *c05Set) evaluator(si, rlk bool) *bgv.Evaluator {
	s.evalCount++
	return s.derivedEvaluator(si, rlk, s.evalCount%5)
}

var c05Derivations = []string{"direct", "WithKey", "ShallowCopy", "ShallowCopy.WithKey", "WithKey.ShallowCopy"}

func (s *c05Set) derivedEvaluator(si, rlk bool, mode int) *bgv.Evaluator {
	var evk rlwe.EvaluationKeySet = rlwe.NewMemEvaluationKeySet(nil)
	if rlk {
		evk = rlwe.NewMemEvaluationKeySet(s.rlk)
	}
	other := rlwe.NewMemEvaluationKeySet(nil)
	switch mode {
	case 1:
		return bgv.NewEvaluator(s.params, other, si).WithKey(evk)
	case 2:
		return bgv.NewEvaluator(s.params, evk, si).ShallowCopy()
	case 3:
		return bgv.NewEvaluator(s.params, other, si).ShallowCopy().WithKey(evk)
	case 4:
		return bgv.NewEvaluator(s.params, other, si).WithKey(evk).ShallowCopy()
	}
	return bgv.NewEvaluator(s.params, evk, si)
}

// ---------------------------------------------------------------- helpers: Z_t arithmetic (the Go-side interpreter)

func c05MulMod(a, b, t uint64) uint64 {
	r := new(big.Int).Mul(new(big.Int).SetUint64(a), new(big.Int).SetUint64(b))
	return r.Mod(r, new(big.Int).SetUint64(t)).Uint64()
}

func c05BigMod(z *big.Int, t uint64) uint64 {
	return new(big.Int).Mod(z, new(big.Int).SetUint64(t)).Uint64()
}

func c05Inv(a, t uint64) uint64 {
	return new(big.Int).ModInverse(new(big.Int).SetUint64(a%t), new(big.Int).SetUint64(t)).Uint64()
}

func c05Center(x, t uint64) float64 {
	if x >= t>>1 {
		return float64(t - x)
	}
	return float64(x)
}

func c05GCD(a, b uint64) uint64 {
	for b != 0 {
		a, b = b, a%b
	}
	return a
}

// c05Match is an independent re-implementation of the documented contract's search (same loop).
func c05Match(s0, s1, t uint64) (r0, r1 uint64) {
	a, b := t, uint64(0)
	A, B := c05MulMod(c05Inv(s0, t), s1, t), uint64(1)
	r0, r1 = A, B
	e := c05Center(A, t) + 1
	for A != 0 {
		q := a / A
		a, A = A, a%A
		nb := (t + b - c05MulMod(B, q%t, t)) % t
		if q == t { // B*q mod t = 0
			nb = b % t
		}
		b, B = B, nb
		if A != 0 && c05GCD(A, t) == 1 {
			tmp := c05Center(A, t) + c05Center(B, t)
			if tmp < e {
				e = tmp
				r0, r1 = A, B
			}
		}
	}
	return
}

func l2(x float64) float64 {
	if x < 1 {
		return 0
	}
	return math.Log2(x)
}

func lmax(a, b float64) float64 { return math.Max(a, b) }

// ---------------------------------------------------------------- registers and arguments

type c05Reg struct {
	ct   *rlwe.Ciphertext
	pt   *rlwe.Plaintext // plaintext register (ct == nil)
	want []uint64        // message according to the Go Z_t interpreter
	nb   float64         // a-priori log2 bound on the noise
}

func (r *c05Reg) el() *rlwe.Element[ring.Poly] {
	if r.ct != nil {
		return r.ct.El()
	}
	return r.pt.El()
}
func (r *c05Reg) level() int    { return r.el().Level() }
func (r *c05Reg) degree() int   { return r.el().Degree() }
func (r *c05Reg) scale() uint64 { return r.el().Scale.Uint64() }

func (s *c05Set) decodeCt(ct *rlwe.Ciphertext) []uint64 {
	v := make([]uint64, s.n)
	if err := s.ecd.Decode(s.dec.DecryptNew(ct), v); err != nil {
		panic(err)
	}
	return v
}

func (s *c05Set) decodePt(pt *rlwe.Plaintext) []uint64 {
	v := make([]uint64, s.n)
	if err := s.ecd.Decode(pt, v); err != nil {
		panic(err)
	}
	return v
}

func c05RegTok(level, degree int, scale uint64, v []uint64) string {
	return I(level) + "/" + I(degree) + "/" + U(scale) + "/" + Vec(v)
}

func (s *c05Set) ctTok(ct *rlwe.Ciphertext) string {
	return c05RegTok(ct.Level(), ct.Degree(), ct.Scale.Uint64(), s.decodeCt(ct))
}

func (s *c05Set) regTok(r *c05Reg) string {
	if r.ct != nil {
		return s.ctTok(r.ct)
	}
	return c05RegTok(r.pt.Level(), 0, r.pt.Scale.Uint64(), s.decodePt(r.pt))
}

type c05Arg struct {
	kind string // r self big u64 i64 int vu vi k none
	reg  *c05Reg
	z    *big.Int
	u    uint64
	i    int64
	vu   []uint64
	vi   []int64
	k    int
}

func c05IVec64(v []int64) string {
	if len(v) == 0 {
		return "-"
	}
	p := make([]string, len(v))
	for i, x := range v {
		p[i] = strconv.FormatInt(x, 10)
	}
	return strings.Join(p, ",")
}

func (s *c05Set) argTok(a c05Arg) string {
	switch a.kind {
	case "r":
		return "r:" + s.regTok(a.reg)
	case "self":
		return "self"
	case "big":
		return "big:" + a.z.String()
	case "u64":
		return "u64:" + U(a.u)
	case "i64":
		return "i64:" + strconv.FormatInt(a.i, 10)
	case "int":
		return "int:" + strconv.FormatInt(a.i, 10)
	case "vu":
		return "vu:" + Vec(a.vu)
	case "vi":
		return "vi:" + c05IVec64(a.vi)
	case "k":
		return "k:" + I(a.k)
	}
	return "none"
}

// operand handed to the real API (big.Int is copied: the caller's value is the subject of a probe)
func (a c05Arg) operand(self *rlwe.Ciphertext) rlwe.Operand {
	switch a.kind {
	case "r":
		if a.reg.ct != nil {
			return a.reg.ct
		}
		return a.reg.pt
	case "self":
		return self
	case "big":
		return new(big.Int).Set(a.z)
	case "u64":
		return a.u
	case "i64":
		return a.i
	case "int":
		return int(a.i)
	case "vu":
		return a.vu
	case "vi":
		return a.vi
	}
	return nil
}

// message of the argument in Z_t^n (Go interpreter)
func (s *c05Set) argMsg(a c05Arg, self *c05Reg) []uint64 {
	m := make([]uint64, s.n)
	t := s.t
	bt := new(big.Int).SetUint64(t)
	switch a.kind {
	case "r":
		copy(m, a.reg.want)
	case "self":
		copy(m, self.want)
	case "big":
		c := c05BigMod(a.z, t)
		for i := range m {
			m[i] = c
		}
	case "u64":
		for i := range m {
			m[i] = a.u % t
		}
	case "i64", "int":
		c := new(big.Int).Mod(big.NewInt(a.i), bt).Uint64()
		for i := range m {
			m[i] = c
		}
	case "vu":
		for i, x := range a.vu {
			m[i] = x % t
		}
	case "vi":
		for i, x := range a.vi {
			m[i] = new(big.Int).Mod(big.NewInt(x), bt).Uint64()
		}
	}
	return m
}

// ---------------------------------------------------------------- value generators

func (c *Ctx) c05Slot(t uint64) uint64 {
	switch c.rng.Intn(10) {
	case 0:
		return 0
	case 1:
		return t - 1
	case 2:
		return t >> 1
	case 3:
		return (t >> 1) + 1
	case 4:
		return 1
	}
	return c.rng.Below(t)
}

func (c *Ctx) c05Msg(s *c05Set) []uint64 {
	m := make([]uint64, s.n)
	for i := range m {
		m[i] = c.c05Slot(s.t)
	}
	return m
}

func (c *Ctx) c05U64(t uint64) uint64 {
	b := []uint64{0, 1, t - 1, t, t + 1, 1 << 63, ^uint64(0), t >> 1, (t >> 1) + 1, 2}
	if c.rng.Intn(3) > 0 {
		return b[c.rng.Intn(len(b))]
	}
	return c.rng.U64()
}

func (c *Ctx) c05I64(t uint64) int64 {
	ti := int64(t)
	b := []int64{0, 1, -1, math.MinInt64, math.MaxInt64, -ti - 1, -ti, -ti + 1, ti, ti + 1, ti >> 1, -(ti >> 1), -(ti >> 1) - 1, math.MinInt64 + 1, -2}
	if c.rng.Intn(3) > 0 {
		return b[c.rng.Intn(len(b))]
	}
	return int64(c.rng.U64())
}

func (c *Ctx) c05Big(t uint64) *big.Int {
	switch c.rng.Intn(6) {
	case 0:
		return new(big.Int).Neg(new(big.Int).Lsh(big.NewInt(1), 70))
	case 1:
		z := new(big.Int).Lsh(new(big.Int).SetUint64(c.rng.U64()), 64)
		return z.Add(z, new(big.Int).SetUint64(c.rng.U64()))
	case 2:
		return new(big.Int).Neg(new(big.Int).SetUint64(t + 1))
	case 3:
		return big.NewInt(0)
	}
	return big.NewInt(c.c05I64(t))
}

func (c *Ctx) c05Scale(t uint64) uint64 {
	switch c.rng.Intn(4) {
	case 0:
		return 1
	case 1:
		return t - 1
	}
	return 1 + c.rng.Below(t-1)
}

func (c *Ctx) c05Arg(s *c05Set, kind string) c05Arg {
	t := s.t
	switch kind {
	case "big":
		return c05Arg{kind: kind, z: c.c05Big(t)}
	case "u64":
		return c05Arg{kind: kind, u: c.c05U64(t)}
	case "i64":
		return c05Arg{kind: kind, i: c.c05I64(t)}
	case "int":
		return c05Arg{kind: kind, i: c.c05I64(t)}
	case "vu":
		l := s.n
		if c.rng.Intn(3) == 0 {
			l = c.rng.Intn(s.n + 1)
		}
		v := make([]uint64, l)
		for i := range v {
			v[i] = c.c05U64(t)
		}
		return c05Arg{kind: kind, vu: v}
	case "vi":
		l := s.n
		if c.rng.Intn(3) == 0 {
			l = c.rng.Intn(s.n + 1)
		}
		v := make([]int64, l)
		for i := range v {
			v[i] = c.c05I64(t)
		}
		return c05Arg{kind: kind, vi: v}
	}
	return c05Arg{kind: "none"}
}

func (c *Ctx) c05NewPt(s *c05Set, level int, scale uint64) *c05Reg {
	m := c.c05Msg(s)
	pt := bgv.NewPlaintext(s.params, level)
	pt.Scale = s.params.NewScale(scale)
	if err := s.ecd.Encode(m, pt); err != nil {
		panic(err)
	}
	return &c05Reg{pt: pt, want: m}
}

func (c *Ctx) c05NewCt(s *c05Set, level int, scale uint64) *c05Reg {
	p := c.c05NewPt(s, level, scale)
	ct, err := s.enc.EncryptNew(p.pt)
	if err != nil {
		panic(err)
	}
	return &c05Reg{ct: ct, want: p.want, nb: float64(s.logN) + 7}
}

// ---------------------------------------------------------------- one call of the real evaluator

type c05Out struct {
	mode string // new inp into
	reg  *c05Reg
}

func (s *c05Set) outTok(o c05Out) string {
	if o.mode == "into" {
		return "into:" + s.regTok(o.reg)
	}
	return o.mode
}

// c05Call runs op on the real evaluator; returns the result ciphertexts (1, or 2 for match).
func c05Call(ev *bgv.Evaluator, op string, a *rlwe.Ciphertext, b c05Arg, o c05Out) (res []*rlwe.Ciphertext, err error) {
	var out *rlwe.Ciphertext
	switch o.mode {
	case "inp":
		out = a
	case "inp1":
		out = b.reg.ct
	case "into":
		out = o.reg.ct
	}
	isNew := o.mode == "new"
	opnd := b.operand(a)
	var r *rlwe.Ciphertext
	switch op {
	case "add":
		if isNew {
			r, err = ev.AddNew(a, opnd)
		} else {
			r, err = out, ev.Add(a, opnd, out)
		}
	case "sub":
		if isNew {
			r, err = ev.SubNew(a, opnd)
		} else {
			r, err = out, ev.Sub(a, opnd, out)
		}
	case "mul":
		if isNew {
			r, err = ev.MulNew(a, opnd)
		} else {
			r, err = out, ev.Mul(a, opnd, out)
		}
	case "mulrelin":
		if isNew {
			r, err = ev.MulRelinNew(a, opnd)
		} else {
			r, err = out, ev.MulRelin(a, opnd, out)
		}
	case "mulsi":
		if isNew {
			r, err = ev.MulScaleInvariantNew(a, opnd)
		} else {
			r, err = out, ev.MulScaleInvariant(a, opnd, out)
		}
	case "mulrelinsi":
		if isNew {
			r, err = ev.MulRelinScaleInvariantNew(a, opnd)
		} else {
			r, err = out, ev.MulRelinScaleInvariant(a, opnd, out)
		}
	case "mta":
		r, err = out, ev.MulThenAdd(a, opnd, out)
	case "mrta":
		r, err = out, ev.MulRelinThenAdd(a, opnd, out)
	case "rescale":
		r, err = out, ev.Rescale(a, out)
	case "relin":
		if isNew {
			r, err = ev.RelinearizeNew(a)
		} else {
			r, err = out, ev.Relinearize(a, out)
		}
	case "drop":
		ev.DropLevel(a, b.k)
		r = a
	case "match":
		ev.MatchScalesAndLevel(a, b.reg.ct)
		return []*rlwe.Ciphertext{a, b.reg.ct}, nil
	default:
		panic("c05: unknown op " + op)
	}
	if err != nil {
		return nil, err
	}
	return []*rlwe.Ciphertext{r}, nil
}

// c05Step runs one op, emits the tie line, returns results.
func (c *Ctx) c05Step(s *c05Set, ev *bgv.Evaluator, si, rlk bool, op string, a *c05Reg, b c05Arg, o c05Out) (res []*rlwe.Ciphertext, status string) {
	line := "step " + s.cfg(si, rlk) + " op=" + op + " out=" + s.outTok(o) + " a=" + s.regTok(a) + " b=" + s.argTok(b)
	var out string
	status = Try(func() string {
		r, err := c05Call(ev, op, a.ct, b, o)
		if err != nil {
			return "err"
		}
		res = r
		return "ok"
	})
	switch status {
	case "ok":
		toks := make([]string, len(res))
		for i, r := range res {
			toks[i] = s.ctTok(r)
		}
		out = strings.Join(toks, " ")
	default:
		out = status
	}
	c.Emit(line, out)
	c.Count("step:" + op + ":" + b.kind + ":" + o.mode + ":" + status)
	return
}

// ---------------------------------------------------------------- random straight-line programs

var c05Kinds = []string{"r", "r", "r", "pt", "big", "u64", "i64", "int", "vu", "vi", "self"}

type c05Prog struct {
	s        *c05Set
	si, rlk  bool
	ev       *bgv.Evaluator
	cts      []*c05Reg
	pts      []*c05Reg
	mismatch []string
	trace    []string
}

func (p *c05Prog) budgetOK(nb float64, level int) bool {
	return level >= 0 && nb+p.s.lt+3 <= p.s.logQ[level]
}

func (c *Ctx) c05Program(s *c05Set, si, rlk bool, steps int) {
	p := &c05Prog{s: s, si: si, rlk: rlk, ev: s.evaluator(si, rlk)}
	L := len(s.qs) - 1
	for i := 0; i < 3; i++ {
		lvl := L
		if c.rng.Intn(4) == 0 {
			for lvl = c.rng.Intn(L + 1); !p.budgetOK(float64(s.logN)+7, lvl); lvl++ {
			}
		}
		sc := uint64(1)
		if c.rng.Intn(3) == 0 {
			sc = c.c05Scale(s.t)
		}
		p.cts = append(p.cts, c.c05NewCt(s, lvl, sc))
	}
	for i := 0; i < 2; i++ {
		sc := uint64(1)
		if c.rng.Intn(2) == 0 {
			sc = c.c05Scale(s.t)
		}
		p.pts = append(p.pts, c.c05NewPt(s, c.rng.Intn(L+1), sc))
	}
	for k := 0; k < steps; k++ {
		c.c05RandomStep(p)
	}
	// program_exact: every register decodes to the interpreter's value
	detail := ""
	for i, r := range p.cts {
		got := s.decodeCt(r.ct)
		if Vec(got) != Vec(r.want) {
			detail = fmt.Sprintf("final-reg=%d", i)
			if os.Getenv("VERIF_DEBUG") != "" {
				fmt.Fprintf(os.Stderr, "FINAL %s si=%v reg=%d l=%d d=%d s=%d nb=%.1f true=%.1f logQ=%.1f lt=%.1f\n", s.name, si, i, r.level(), r.degree(), r.scale(), r.nb, s.trueNoise(r.ct), s.logQ[r.level()], s.lt)
			}
			break
		}
	}
	if detail == "" && len(p.mismatch) > 0 {
		detail = p.mismatch[0]
	}
	if detail != "" {
		detail += " trace=" + strings.Join(p.trace, ";")
	}
	c.Probe("program_exact", s.cfg(si, rlk)+" steps="+I(len(p.trace)), "C05-program-not-exact", detail)
}

func (c *Ctx) c05RandomStep(p *c05Prog) {
	s := p.s
	t := s.t
	lN := float64(s.logN)
	ops := []string{"add", "sub", "mul", "mulrelin", "mulsi", "mulrelinsi", "mta", "mrta", "rescale", "relin", "drop", "match", "add", "sub", "mul"}
	for attempt := 0; attempt < 40; attempt++ {
		op := ops[c.rng.Intn(len(ops))]
		ai := c.rng.Intn(len(p.cts))
		a := p.cts[ai]
		la, da, sa := a.level(), a.degree(), a.scale()
		var b c05Arg
		o := c05Out{mode: "new"}
		resLevel := la
		var nb float64
		var want []uint64
		var target = ai // register that receives the result
		afterOK := func() {}
		binary := op != "rescale" && op != "relin" && op != "drop" && op != "match"
		if binary {
			kind := c05Kinds[c.rng.Intn(len(c05Kinds))]
			switch kind {
			case "r":
				bi := c.rng.Intn(len(p.cts))
				if bi == ai {
					kind = "self"
					b = c05Arg{kind: "self"}
				} else {
					b = c05Arg{kind: "r", reg: p.cts[bi]}
				}
			case "pt":
				kind = "r"
				b = c05Arg{kind: "r", reg: p.pts[c.rng.Intn(len(p.pts))]}
			case "self":
				b = c05Arg{kind: "self"}
			default:
				b = c.c05Arg(s, kind)
			}
			isReg := kind == "r" || kind == "self"
			breg := a
			if kind == "r" {
				breg = b.reg
			}
			db, sb, nbb := 0, uint64(1), 0.0
			if isReg {
				db, sb, nbb = breg.degree(), breg.scale(), breg.nb
				resLevel = min(la, breg.level())
			}
			isMul := strings.HasPrefix(op, "mul")
			isAcc := op == "mta" || op == "mrta"
			if (isMul || isAcc) && da+db > 2 {
				continue // degree too high: exercised in the malformed stream
			}
			// output placement
			switch {
			case isAcc:
				oi := c.rng.Intn(len(p.cts))
				if oi == ai || (kind == "r" && p.cts[oi] == b.reg) {
					continue
				}
				o = c05Out{mode: "into", reg: p.cts[oi]}
				target = oi
				resLevel = min(resLevel, p.cts[oi].level())
			default:
				switch c.rng.Intn(4) {
				case 0:
					o = c05Out{mode: "inp"}
				case 1:
					dl := resLevel
					if c.rng.Intn(3) == 0 {
						dl = c.rng.Intn(len(s.qs))
					}
					fresh := bgv.NewCiphertext(s.params, 1+c.rng.Intn(2), dl)
					o = c05Out{mode: "into", reg: &c05Reg{ct: fresh, want: make([]uint64, s.n)}}
					resLevel = min(resLevel, dl)
				case 2:
					// receiver = second operand (a ciphertext register distinct from op0)
					if kind == "r" && b.reg.ct != nil {
						o = c05Out{mode: "inp1"}
						for k, r := range p.cts {
							if r == b.reg {
								target = k
							}
						}
					}
				}
			}
			mb := s.argMsg(b, a)
			want = make([]uint64, s.n)
			// noise + interpreter
			switch {
			case op == "add" || op == "sub":
				for i := range want {
					if op == "add" {
						want[i] = (a.want[i] + mb[i]) % t
					} else {
						want[i] = (a.want[i] + t - mb[i]) % t
					}
				}
				if isReg && sa != sb {
					r0, r1 := c05Match(sa, sb, t)
					nb = lmax(a.nb+l2(float64(r0)), nbb+l2(float64(r1))) + 2
				} else {
					nb = lmax(a.nb, nbb) + 1
				}
			case isMul || isAcc:
				for i := range want {
					want[i] = c05MulMod(a.want[i], mb[i], t)
				}
				useSI := (op == "mulsi" || op == "mulrelinsi" || ((op == "mul" || op == "mulrelin") && p.si)) && isReg && db >= 1
				if (op == "mulsi" || op == "mulrelinsi" || p.si) && !isAcc && isReg && db >= 1 && da != 1 {
					continue
				}
				switch {
				case isReg && db >= 1 && useSI:
					nb = lN + s.lt + lmax(a.nb, nbb) + 4
				case isReg && db >= 1:
					nb = lN + s.lt + a.nb + nbb + 3
				case isReg || b.kind == "vu" || b.kind == "vi":
					nb = lN + s.lt + a.nb + 2
				default:
					nb = a.nb + s.lt + 1
				}
				relin := op == "mulrelin" || op == "mulrelinsi" || op == "mrta"
				if relin && isReg && da == 1 && db == 1 {
					if !p.rlk {
						// missing key: error expected; only with a fresh output (the code mutates opOut before failing)
						if isAcc {
							continue
						}
						if o.mode == "inp" || o.mode == "inp1" {
							o = c05Out{mode: "new"}
							target = ai
						}
					}
					nb = lmax(nb, lN+12) + 1
				}
				if isAcc {
					out := o.reg
					so := out.scale()
					tgt := sa
					if isReg {
						tgt = c05MulMod(sa, sb, t)
					}
					nbo := out.nb
					if isReg && so != tgt {
						r0, r1 := c05Match(tgt, so, t)
						nb += l2(float64(r0))
						nbo += l2(float64(r1))
					}
					nb = lmax(nb, nbo) + 2
					for i := range want {
						want[i] = (want[i] + out.want[i]) % t
					}
				}
			}
		} else {
			want = append([]uint64(nil), a.want...)
			switch op {
			case "rescale":
				if la == 0 && c.rng.Intn(4) > 0 {
					continue
				}
				if c.rng.Intn(2) == 0 || la == 0 {
					o = c05Out{mode: "inp"}
				} else {
					dl := la - c.rng.Intn(2)
					fresh := bgv.NewCiphertext(s.params, da, dl)
					o = c05Out{mode: "into", reg: &c05Reg{ct: fresh, want: make([]uint64, s.n)}}
				}
				if p.si {
					nb = a.nb // scale-invariant evaluator: the receiver becomes a copy of op0
				} else if la > 0 {
					resLevel = la - 1
					nb = lmax(a.nb-math.Log2(float64(s.qs[la])), lN+2) + 1
				}
			case "relin":
				if da != 2 && c.rng.Intn(8) > 0 {
					continue
				}
				if !p.rlk || da != 2 {
					o = c05Out{mode: "new"}
				} else if c.rng.Intn(2) == 0 {
					o = c05Out{mode: "inp"}
				}
				nb = lmax(a.nb, lN+12) + 1
			case "drop":
				if la == 0 {
					continue
				}
				b = c05Arg{kind: "k", k: c.rng.Intn(la + 1)}
				o = c05Out{mode: "inp"}
				resLevel = la - b.k
				nb = a.nb
			case "match":
				bi := c.rng.Intn(len(p.cts))
				if bi == ai {
					continue
				}
				breg := p.cts[bi]
				b = c05Arg{kind: "r", reg: breg}
				o = c05Out{mode: "inp"}
				r0, r1 := c05Match(sa, breg.scale(), t)
				resLevel = min(la, breg.level())
				nb = a.nb + l2(float64(r0)) + 1
				nbb := breg.nb + l2(float64(r1)) + 1
				if !p.budgetOK(nbb, resLevel) {
					continue
				}
				afterOK = func() { breg.nb = nbb }
			}
		}
		if !p.budgetOK(nb, resLevel) {
			c.Count("budget-skip:" + op)
			continue
		}
		res, status := c.c05Step(s, p.ev, p.si, p.rlk, op, a, b, o)
		p.trace = append(p.trace, op+":"+b.kind+":"+o.mode+":"+status)
		if status != "ok" {
			if o.mode == "inp" || o.mode == "inp1" || o.mode == "into" && o.reg.nb != 0 {
				// a failed call may have touched its output: replace the register by a fresh encryption
				p.cts[target] = c.c05NewCt(s, len(s.qs)-1, 1)
			}
			return
		}
		if op == "match" {
			a.nb = nb
			afterOK()
			return // messages unchanged
		}
		nr := &c05Reg{ct: res[0], want: want, nb: nb}
		got := s.decodeCt(res[0])
		if Vec(got) != Vec(want) {
			p.mismatch = append(p.mismatch, fmt.Sprintf("step=%d op=%s:%s:%s", len(p.trace)-1, op, b.kind, o.mode))
			nr.want = got
			if os.Getenv("VERIF_DEBUG") != "" {
				nd := 0
				for i := range got {
					if got[i] != want[i] {
						nd++
					}
				}
				fmt.Fprintf(os.Stderr, "MISMATCH %s si=%v op=%s b=%s out=%s la=%d da=%d sa=%d nb_a=%.1f nb=%.1f resLevel=%d logQ=%.1f lt=%.1f ndiff=%d/%d resscale=%d\n", s.name, p.si, op, b.kind, o.mode, la, da, sa, a.nb, nb, res[0].Level(), s.logQ[res[0].Level()], s.lt, nd, len(got), res[0].Scale.Uint64())
				fmt.Fprintf(os.Stderr, "   true log2|T*phase|: a=%.1f res=%.1f\n", s.trueNoise(a.ct), s.trueNoise(res[0]))
				if b.kind == "r" {
					if b.reg.ct != nil {
						fmt.Fprintf(os.Stderr, "   true b=%.1f\n", s.trueNoise(b.reg.ct))
					}
					fmt.Fprintf(os.Stderr, "   b: l=%d d=%d s=%d nb=%.1f\n", b.reg.level(), b.reg.degree(), b.reg.scale(), b.reg.nb)
				}
			}
		}
		switch {
		case o.mode == "inp":
			p.cts[ai] = nr
		case o.mode == "inp1":
			p.cts[target] = nr
		case op == "mta" || op == "mrta":
			p.cts[target] = nr
		default:
			p.cts[c.rng.Intn(len(p.cts))] = nr
		}
		// keep at least one register at the top level and degree 1 so that programs keep going
		if c.rng.Intn(5) == 0 {
			p.cts[c.rng.Intn(len(p.cts))] = c.c05NewCt(s, len(s.qs)-1, c.c05Scale(t))
		}
		return
	}
	c.Count("no-step-found")
}

// ---------------------------------------------------------------- generator entry point

func genC05(c *Ctx) {
	sets := c05Sets(c.Thorough())
	progs := c.Scale(9, 120)
	steps := c.Scale(10, 16)
	for _, s := range sets {
		for _, si := range []bool{false, true} {
			for k := 0; k < progs; k++ {
				rlk := k%4 != 3
				c.c05Program(s, si, rlk, steps)
			}
		}
		c.c05MatchLines(s)
		c.c05Malformed(s)
		c.c05Probes(s)
	}
	for k, s := range sets {
		if c.Thorough() || k == 0 || k == 1 || k == 4 {
			c.c05DegreeContract(s)
		}
		c.c05MissingKey(s)
		c.c05Derived(s)
		for k := 0; k < c.Scale(6, 60); k++ {
			c.c05CoeffProgram(s, c.Scale(8, 12))
		}
	}
	c.c05ProbeQMul()
}

// trueNoise returns log2 of the largest centred coefficient of T·phase(ct) mod Q_level (debug only).
func (s *c05Set) trueNoise(ct *rlwe.Ciphertext) float64 {
	pt := s.dec.DecryptNew(ct)
	rq := s.params.RingQ().AtLevel(ct.Level())
	tmp := rq.NewPoly()
	rq.INTT(pt.Value, tmp)
	rq.MulScalar(tmp, s.t, tmp)
	co := make([]*big.Int, rq.N())
	for i := range co {
		co[i] = new(big.Int)
	}
	rq.PolyToBigintCentered(tmp, 1, co)
	mx := 0
	for _, x := range co {
		if l := x.BitLen(); l > mx {
			mx = l
		}
	}
	return float64(mx)
}
