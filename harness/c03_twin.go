package main

// Twin of the sampler set owned by an rlwe.Encryptor (core/rlwe/encryptor.go: newEncryptor).
// The encryptor creates ONE PRNG and, on it, in this order: the error sampler (Xe), the secret sampler
// (Xs) and the uniform sampler over QP (one ring.UniformSampler for Q, one for P).  The twin builds
// samplers of the same kinds on a PRNG with the same key, so the same sequence of sampler calls yields
// the same polynomials.  Which calls are made, in which order and at which level is what the Lean
// model prescribes; the twin only executes them.

import (
	"github.com/tuneinsight/lattigo/v6/core/rlwe"
	"github.com/tuneinsight/lattigo/v6/ring"
	"github.com/tuneinsight/lattigo/v6/ring/ringqp"
	"github.com/tuneinsight/lattigo/v6/utils/sampling"
)

type c03Twin struct {
	params rlwe.Parameters
	prng   sampling.PRNG
	xe, xs ring.Sampler
	uni    ringqp.UniformSampler
}

func newC03Twin(params rlwe.Parameters, prng sampling.PRNG) *c03Twin {
	xe, err := ring.NewSampler(prng, params.RingQ(), params.Xe(), false)
	if err != nil {
		panic(err)
	}
	xs, err := ring.NewSampler(prng, params.RingQ(), params.Xs(), false)
	if err != nil {
		panic(err)
	}
	return &c03Twin{params: params, prng: prng, xe: xe, xs: xs, uni: ringqp.NewUniformSampler(prng, *params.RingQP())}
}

// withPRNG mirrors Encryptor.WithPRNG: a copy that shares the error and secret samplers (and their
// buffer state) with the receiver and owns a new uniform sampler on prng.
func (t *c03Twin) withPRNG(prng sampling.PRNG) *c03Twin {
	cp := *t
	cp.uni = ringqp.NewUniformSampler(prng, *t.params.RingQP())
	return &cp
}

// All draws go into full-level buffers, as the encryptor's own buffers are (a ternary sampler ignores
// AtLevel and writes every row); callers canonicalise the rows they need.

func (t *c03Twin) drawA(level int) ring.Poly {
	p := t.params.RingQ().NewPoly()
	t.uni.AtLevel(level, -1).Read(ringqp.Poly{Q: p})
	return p
}

func (t *c03Twin) drawAQP(levelQ, levelP int) ringqp.Poly {
	p := t.params.RingQP().NewPoly()
	t.uni.AtLevel(levelQ, levelP).Read(p)
	return p
}

func (t *c03Twin) drawE(level int) ring.Poly {
	p := t.params.RingQ().NewPoly()
	t.xe.AtLevel(level).Read(p)
	return p
}

func (t *c03Twin) drawS(level int) ring.Poly {
	p := t.params.RingQ().NewPoly()
	t.xs.AtLevel(level).Read(p)
	return p
}

// drawSH mirrors KeyGenerator.GenSecretKeyWithHammingWeight: a NEW ternary sampler with exactly hw
// non-zero coefficients on the generator's PRNG, read once at the top level.
func (t *c03Twin) drawSH(hw int) ring.Poly {
	xs, err := ring.NewSampler(t.prng, t.params.RingQ(), ring.Ternary{H: hw}, false)
	if err != nil {
		panic(err)
	}
	p := t.params.RingQ().NewPoly()
	xs.AtLevel(t.params.MaxLevel()).Read(p)
	return p
}
