package main

// C01, round 4:
//
//	A. ringqp.Ring scalar / RNS-scalar operations on every view AtLevel(lq, lp), lq and lp from -1 to the
//	   maximum, with scalars built on the FULL ring (layout [all moduli of Q | all moduli of P], the one
//	   NewRNSScalar allocates and SubRNSScalar / MulRNSScalar / Inverse / MulRNSScalarMontgomery read) and on
//	   the view, every active limb compared with a big-integer reference (C01/ringqp-rns-scalar-layout).
//	B. Ring.Automorphism / ringqp.Ring.Automorphism outside the NTT domain for EVERY odd Galois element in
//	   [1, 2*NthRoot) at small degrees, both ring types, against the exact map (no library code).
//	C. lazy chains: every accumulating ...Lazy kernel applied the documented maximum number of times without
//	   intermediate reduction on 59..61-bit primes; after each step congruence to the exact accumulation and the
//	   documented range (one step adds at most what the doc comment states for a reduced accumulator).

import (
	"fmt"
	"math/big"
	"math/bits"

	"github.com/tuneinsight/lattigo/v6/ring"
	"github.com/tuneinsight/lattigo/v6/ring/ringqp"
)

// c01qp2ProbeViewScalars enables the two probe families that fail on /repo until fixes/C01-5 is applied: RNS-scalar
// operations of a view without Q part (nil pointer dereference) and scalars BUILT on a lower-level view (not readable
// by the operations of the same view).  Scalars built on the full ring are always probed.  Set to true once
// fixes/C01-5-ringqp-rns-scalar-layout.diff is in /repo (verified: 0 failing probes with the fix, seeds 1-3).
const c01qp2ProbeViewScalars = true

func init() {
	prev := generators["C01"]
	generators["C01"] = func(c *Ctx) {
		prev(c)
		c01qp2Scalars(c)
		c01qp2Automorphisms(c)
		c01qp2LazyChains(c)
	}
}

// ---- A. ringqp RNS scalars ------------------------------------------------------------------------

type c01qp2Cfg struct {
	N      int
	qs, ps []uint64
}

func c01qp2Cfgs() []c01qp2Cfg {
	N := 16
	nth := uint64(2 * N)
	// distinct primes: Q and P are searched from different residues of the size range
	q1 := c01ciGoodPrimes(nth, []int{30, 45, 61})
	p1 := []uint64{c01ciPrimeNear(1<<50-1, nth, 1), c01ciPrimeNear(1<<60-1, nth, 1)}
	q2 := []uint64{c01ciPrimeNear(1<<61-1-1<<30, nth, 1), c01ciPrimeAbove(1<<20, nth, 1)}
	p2 := []uint64{c01ciPrimeNear(1<<59-1, nth, 1), c01ciPrimeAbove(1<<31, nth, 1), c01ciPrimeAbove(1<<13, nth, 1)}
	return []c01qp2Cfg{{N, q1, p1}, {N, q2, p2}}
}

func c01qp2Mod(v *big.Int, m uint64) uint64 { return new(big.Int).Mod(v, bi(m)).Uint64() }

// c01qp2Scalar builds an RNS scalar holding x (times 2^64 if mont) in the layout [all Q | all P]
func c01qp2Scalar(x *big.Int, qs, ps []uint64, mont bool) ring.RNSScalar {
	out := make(ring.RNSScalar, len(qs)+len(ps))
	y := new(big.Int).Set(x)
	if mont {
		y.Lsh(y, 64)
	}
	for i, q := range qs {
		out[i] = c01qp2Mod(y, q)
	}
	for j, p := range ps {
		out[len(qs)+j] = c01qp2Mod(y, p)
	}
	return out
}

// c01qp2CheckScalar compares the limbs of s that are active at (lq, lp) with x (times 2^64 if mont), layout
// [all Q | all P] with offQ = number of residues stored for Q.  skip(m) excludes a modulus (Inverse of 0).
func c01qp2CheckScalar(name string, s ring.RNSScalar, x *big.Int, mont bool, qs, ps []uint64, offP, lq, lp int, skip func(m uint64) bool) string {
	y := new(big.Int).Set(x)
	if mont {
		y.Lsh(y, 64)
	}
	chk := func(idx int, m uint64, what string) string {
		if skip != nil && skip(m) {
			return ""
		}
		if idx >= len(s) {
			return fmt.Sprintf("%s: scalar has %d residues, the one modulo %s=%d is expected at index %d", name, len(s), what, m, idx)
		}
		if s[idx]%m != c01qp2Mod(y, m) {
			return fmt.Sprintf("%s: residue at index %d is %d, not congruent to the exact value %d modulo %s=%d", name, idx, s[idx], c01qp2Mod(y, m), what, m)
		}
		return ""
	}
	for i := 0; i <= lq; i++ {
		if d := chk(i, qs[i], fmt.Sprintf("q%d", i)); d != "" {
			return d
		}
	}
	for j := 0; j <= lp; j++ {
		if d := chk(offP+j, ps[j], fmt.Sprintf("p%d", j)); d != "" {
			return d
		}
	}
	return ""
}

func c01qp2RandPoly(c *Ctx, R ringqp.Ring, qs, ps []uint64, N int) ringqp.Poly {
	p := R.NewPoly()
	for i := 0; i <= R.LevelQ(); i++ {
		copy(p.Q.Coeffs[i], c01ciInput(c.rng, c01ciPats[3+c.rng.Intn(5)], N, qs[i], qs[i]-1))
	}
	for j := 0; j <= R.LevelP(); j++ {
		copy(p.P.Coeffs[j], c01ciInput(c.rng, c01ciPats[3+c.rng.Intn(5)], N, ps[j], ps[j]-1))
	}
	return p
}

// c01qp2CheckPoly: every active row of out is congruent to f(row of the inputs) coefficient by coefficient
func c01qp2CheckPoly(name string, R ringqp.Ring, out ringqp.Poly, qs, ps []uint64, f func(isP bool, i, k int) *big.Int) string {
	for i := 0; i <= R.LevelQ(); i++ {
		for k, got := range out.Q.Coeffs[i] {
			if w := c01qp2Mod(f(false, i, k), qs[i]); got%qs[i] != w {
				return fmt.Sprintf("%s: Q row %d (q=%d) coefficient %d is %d, exact value %d", name, i, qs[i], k, got, w)
			}
		}
	}
	for j := 0; j <= R.LevelP(); j++ {
		for k, got := range out.P.Coeffs[j] {
			if w := c01qp2Mod(f(true, j, k), ps[j]); got%ps[j] != w {
				return fmt.Sprintf("%s: P row %d (p=%d) coefficient %d is %d, exact value %d", name, j, ps[j], k, got, w)
			}
		}
	}
	return ""
}

func c01qp2Scalars(c *Ctx) {
	rn := c.rng
	const key = "C01/ringqp-rns-scalar-layout"
	for ci, cfg := range c01qp2Cfgs() {
		rq, err1 := ring.NewRing(cfg.N, cfg.qs)
		rp, err2 := ring.NewRing(cfg.N, cfg.ps)
		if err1 != nil || err2 != nil {
			c.Count("ringqp-scalar:ring-unavailable")
			continue
		}
		full := ringqp.Ring{RingQ: rq, RingP: rp}
		qs, ps := cfg.qs, cfg.ps
		QL := len(qs)
		edge := []uint64{0, 1, 2, qs[0] - 1, qs[0], qs[0] + 1, ps[0], ps[len(ps)-1] + 1, 1 << 32, 1<<63 + 11, ^uint64(0)}
		for lq := -1; lq < len(qs); lq++ {
			for lp := -1; lp < len(ps); lp++ {
				if lq == -1 && lp == -1 {
					continue
				}
				for rep := 0; rep < c.Scale(3, 12); rep++ {
					v, w := r64(rn, edge, rep), r64(rn, edge, rep+5)
					if v == w {
						w = v + 1
					}
					bv, bw := bi(v), bi(w)
					where := fmt.Sprintf("cfg=%d Q=%s P=%s lq=%d lp=%d v=%d w=%d", ci, Vec(qs), Vec(ps), lq, lp, v, w)
					R := full.AtLevel(lq, lp)
					c.Count(fmt.Sprintf("ringqp-scalar:view:lq=%d:lp=%d", lq, lp))
					if lq == -1 && !c01qp2ProbeViewScalars {
						c.Count("ringqp-scalar:view-without-Q-skipped")
						continue
					}
					if lq == -1 {
						// a view without Q part: the ring no longer knows how many residues a full-ring scalar stores for
						// Q, so only scalars built on the view itself can be meant; own key (fixes/C01-5)
						d := Try(func() string {
							sv, sw := R.NewRNSScalarFromUInt64(v), R.NewRNSScalarFromUInt64(w)
							out := R.NewRNSScalar()
							R.SubRNSScalar(sv, sw, out)
							if d := c01qp2CheckScalar("SubRNSScalar", out, sub(bv, bw), false, qs, ps, 0, -1, lp, nil); d != "" {
								return d
							}
							mv := append(ring.RNSScalar(nil), sv...)
							R.RingP.MFormRNSScalar(sv, mv)
							p, o := c01qp2RandPoly(c, R, qs, ps, cfg.N), R.NewPoly()
							R.MulRNSScalarMontgomery(p, mv, o)
							return c01qp2CheckPoly("MulRNSScalarMontgomery", R, o, qs, ps, func(isP bool, i, k int) *big.Int { return mul(bi(p.P.Coeffs[i][k]), bv) })
						})
						c.Probe("ringqp_scalar_noq", where, "C01/ringqp-rns-scalar/view-without-Q-panics", d)
						continue
					}
					// ---- scalars built on the FULL ring, used on the view
					var tie []string
					d := Try(func() string {
						fv, fw := full.NewRNSScalarFromUInt64(v), full.NewRNSScalarFromUInt64(w)
						if d := c01qp2CheckScalar("full.NewRNSScalarFromUInt64", fv, bv, false, qs, ps, QL, QL-1, len(ps)-1, nil); d != "" {
							return d
						}
						mfv := c01qp2Scalar(bv, qs, ps, true)
						lib := full.NewRNSScalar()
						if len(lib) != QL+len(ps) {
							return fmt.Sprintf("full.NewRNSScalar has %d residues, want %d", len(lib), QL+len(ps))
						}
						rq.MFormRNSScalar(fv[:QL], lib[:QL])
						rp.MFormRNSScalar(fv[QL:], lib[QL:])
						if d := c01qp2CheckScalar("MFormRNSScalar", lib, bv, true, qs, ps, QL, QL-1, len(ps)-1, nil); d != "" {
							return d
						}
						// SubRNSScalar on the view
						out := full.NewRNSScalar()
						R.SubRNSScalar(fv, fw, out)
						if d := c01qp2CheckScalar("view.SubRNSScalar", out, sub(bv, bw), false, qs, ps, QL, lq, lp, nil); d != "" {
							return d
						}
						// MulRNSScalar on the view: MForm(v) * w * 2^-64 = v*w
						out2 := full.NewRNSScalar()
						R.MulRNSScalar(mfv, fw, out2)
						if d := c01qp2CheckScalar("view.MulRNSScalar", out2, mul(bv, bw), false, qs, ps, QL, lq, lp, nil); d != "" {
							return d
						}
						// Inverse on the view (Montgomery form in, Montgomery form out)
						inv := append(ring.RNSScalar(nil), mfv...)
						R.Inverse(inv)
						chkInv := func(idx int, m uint64) string {
							if v%m == 0 {
								return ""
							}
							want := new(big.Int).ModInverse(new(big.Int).Mod(bv, bi(m)), bi(m))
							want.Lsh(want, 64)
							if inv[idx]%m != c01qp2Mod(want, m) {
								return fmt.Sprintf("view.Inverse: residue at index %d modulo %d is %d, exact %d", idx, m, inv[idx], c01qp2Mod(want, m))
							}
							return ""
						}
						for i := 0; i <= lq; i++ {
							if d := chkInv(i, qs[i]); d != "" {
								return d
							}
						}
						for j := 0; j <= lp; j++ {
							if d := chkInv(QL+j, ps[j]); d != "" {
								return d
							}
						}
						// MulRNSScalarMontgomery on the view
						p, o := c01qp2RandPoly(c, R, qs, ps, cfg.N), R.NewPoly()
						R.MulRNSScalarMontgomery(p, mfv, o)
						row := func(isP bool, i, k int) *big.Int {
							if isP {
								return bi(p.P.Coeffs[i][k])
							}
							return bi(p.Q.Coeffs[i][k])
						}
						if d := c01qp2CheckPoly("view.MulRNSScalarMontgomery", R, o, qs, ps, func(isP bool, i, k int) *big.Int { return mul(row(isP, i, k), bv) }); d != "" {
							return d
						}
						if !probesOnly() {
							// the same call tied to the model (Model/RingQP.lean: mulRNSScalarMontgomery, limb for limb)
							var rowsP, outP [][]uint64
							if lp >= 0 {
								rowsP, outP = RawRows(p.P)[:lp+1], RawRows(o.P)[:lp+1]
							}
							tie = append(tie, fmt.Sprintf("qpmulrns %s %s %d %d %s %s %s", Vec(qs), Vec(ps), lq+1, lp+1, Mat(RawRows(p.Q)[:lq+1]), Mat(rowsP), Vec(mfv)),
								Mat(RawRows(o.Q)[:lq+1])+"|"+Mat(outP))
						}
						// a Lagrange-coefficient-like chain, every step on the view: p * v * (v-w)^-1
						dsc, mds, coef := full.NewRNSScalar(), full.NewRNSScalar(), full.NewRNSScalar()
						R.SubRNSScalar(fv, fw, dsc)
						rq.MFormRNSScalar(dsc[:QL], mds[:QL])
						rp.MFormRNSScalar(dsc[QL:], mds[QL:])
						R.Inverse(mds)
						R.MulRNSScalar(mds, mfv, coef) // Montgomery form of v/(v-w), lazily reduced
						o2 := R.NewPoly()
						R.MulRNSScalarMontgomery(p, coef, o2)
						diff := sub(bv, bw)
						bad := false
						for i := 0; i <= lq; i++ {
							bad = bad || c01qp2Mod(diff, qs[i]) == 0
						}
						for j := 0; j <= lp; j++ {
							bad = bad || c01qp2Mod(diff, ps[j]) == 0
						}
						if !bad {
							if d := c01qp2CheckPoly("view chain Sub/MForm/Inverse/Mul/MulRNSScalarMontgomery", R, o2, qs, ps, func(isP bool, i, k int) *big.Int {
								var m uint64
								if isP {
									m = ps[i]
								} else {
									m = qs[i]
								}
								return mul(row(isP, i, k), bv, new(big.Int).ModInverse(new(big.Int).Mod(diff, bi(m)), bi(m)))
							}); d != "" {
								return d
							}
						}
						// uint64 scalars
						o3 := R.NewPoly()
						R.MulScalar(p, v, o3)
						if d := c01qp2CheckPoly("view.MulScalar", R, o3, qs, ps, func(isP bool, i, k int) *big.Int { return mul(row(isP, i, k), bv) }); d != "" {
							return d
						}
						p2, p3, o4 := c01qp2RandPoly(c, R, qs, ps, cfg.N), c01qp2RandPoly(c, R, qs, ps, cfg.N), R.NewPoly()
						R.EvalPolyScalar([]ringqp.Poly{p, p2, p3}, v, o4)
						return c01qp2CheckPoly("view.EvalPolyScalar", R, o4, qs, ps, func(isP bool, i, k int) *big.Int {
							a := row(isP, i, k)
							var b, cc *big.Int
							if isP {
								b, cc = bi(p2.P.Coeffs[i][k]), bi(p3.P.Coeffs[i][k])
							} else {
								b, cc = bi(p2.Q.Coeffs[i][k]), bi(p3.Q.Coeffs[i][k])
							}
							return add(a, mul(add(b, mul(cc, bv)), bv))
						})
					})
					if d == "panic" {
						d = "panic"
					}
					c.Probe("ringqp_scalar", where, key, d)
					if len(tie) == 2 && rep == 0 {
						c.Emit(tie[0], tie[1])
					}
					// ---- scalars built on the VIEW: must be readable by the view's own operations (the layout they read:
					//      the residues modulo P after one residue per modulus of the whole chain of Q); own key, fixes/C01-5
					if !c01qp2ProbeViewScalars && lq < QL-1 {
						c.Count("ringqp-scalar:view-built-scalar-skipped")
						continue // at the maximum level of Q both layouts coincide: always probed
					}
					d = Try(func() string {
						sv := R.NewRNSScalarFromUInt64(v)
						if d := c01qp2CheckScalar("view.NewRNSScalarFromUInt64", sv, bv, false, qs, ps, QL, lq, lp, nil); d != "" {
							return d
						}
						out := R.NewRNSScalar()
						R.SubRNSScalar(sv, R.NewRNSScalarFromUInt64(w), out)
						return c01qp2CheckScalar("view.SubRNSScalar(view scalars)", out, sub(bv, bw), false, qs, ps, QL, lq, lp, nil)
					})
					c.Probe("ringqp_scalar_view", where, "C01/ringqp-rns-scalar/view-built-scalar-unreadable-by-view", d)
				}
			}
		}
		// a ring without P at all
		onlyQ := ringqp.Ring{RingQ: rq}
		for lq := 0; lq < len(qs); lq++ {
			v := r64(rn, edge, lq)
			R := onlyQ.AtLevel(lq, -1)
			d := Try(func() string {
				sv := R.NewRNSScalarFromUInt64(v)
				if d := c01qp2CheckScalar("NewRNSScalarFromUInt64", sv, bi(v), false, qs, nil, len(qs), lq, -1, nil); d != "" {
					return d
				}
				mv := c01qp2Scalar(bi(v), qs, nil, true)
				p, o := c01qp2RandPoly(c, R, qs, nil, cfg.N), R.NewPoly()
				R.MulRNSScalarMontgomery(p, mv, o)
				return c01qp2CheckPoly("MulRNSScalarMontgomery", R, o, qs, nil, func(isP bool, i, k int) *big.Int { return mul(bi(p.Q.Coeffs[i][k]), bi(v)) })
			})
			c.Probe("ringqp_scalar", fmt.Sprintf("cfg=%d Q=%s no-P lq=%d v=%d", ci, Vec(qs), lq, v), key, d)
		}
	}
}

func r64(rn *SplitMix, edge []uint64, rep int) uint64 {
	if rep < 2 || rn.Intn(3) == 0 {
		return edge[rn.Intn(len(edge))]
	}
	return rn.U64() >> uint(rn.Intn(40))
}

// ---- B. coefficient-domain automorphisms, every odd Galois element ------------------------------

func c01qp2Automorphisms(c *Ctx) {
	rn := c.rng
	ns := []int{8, 16}
	if c.Thorough() {
		ns = []int{8, 16, 32, 64}
	}
	for _, N := range append(ns, 0) {
		all := N != 0
		if !all {
			N = 32 // larger degree: the elements congruent to 1 modulo a divisor of NthRoot only, and random ones
			if c.Thorough() {
				N = 256
			}
		}
		for _, k := range []c01ciKind{c01ciStd, c01ciCI} {
			nth := k.nthRoot(N)
			qs := c01ciGoodPrimes(nth, []int{0, 61, 30})
			x := c01ciNewCtx(c, k, N, qs)
			y := c01ciNewCtx(c, k, N, c01ciGoodPrimes(nth, []int{60, 20}))
			if x == nil || y == nil {
				c.Count("aut-all:ring-unavailable")
				continue
			}
			var gens []uint64
			if all {
				for g := uint64(1); g < 2*nth; g += 2 {
					gens = append(gens, g)
				}
			} else {
				for m := uint64(N) / 4; m <= 2*nth; m *= 2 {
					gens = append(gens, m+1, 3*m+1, m-1, 5*m+1)
				}
				for i := 0; i < 16; i++ {
					gens = append(gens, 2*rn.Below(2*nth)+1)
				}
			}
			for _, gal := range gens {
				lvl := rn.Intn(len(qs))
				rl := x.r.AtLevel(lvl)
				a := x.randPoly(c, lvl)
				var autTie []string
				d := Try(func() string {
					out := rl.NewPoly()
					rl.Automorphism(a, gal, out)
					for i := 0; i <= lvl; i++ {
						if w := c01ciAutRef(k, a.Coeffs[i], gal, qs[i]); !eqVec(c01ciReduced(out.Coeffs[i], qs[i]), w) {
							return fmt.Sprintf("row %d (q=%d): a=%s got=%s want=%s", i, qs[i], Vec(a.Coeffs[i]), Vec(out.Coeffs[i]), Vec(w))
						}
					}
					if k == c01ciCI && !probesOnly() && (all || gal%8 == 3) {
						red := make([][]uint64, lvl+1)
						for i := range red {
							red[i] = c01ciReduced(out.Coeffs[i], qs[i])
						}
						autTie = []string{fmt.Sprintf("rpautci %s %d %s", Vec(qs[:lvl+1]), gal, Mat(RawRows(a)[:lvl+1])), Mat(red)}
					}
					// through ringqp (Q = this ring, P = another ring of the same type)
					lp := rn.Intn(len(y.qs)+1) - 1
					R := ringqp.Ring{RingQ: x.r, RingP: y.r}.AtLevel(lvl, lp)
					in, o := R.NewPoly(), R.NewPoly()
					in.Q.Copy(a)
					var b ring.Poly
					if lp >= 0 {
						b = y.randPoly(c, lp)
						in.P.Copy(b)
					}
					R.Automorphism(in, gal, o)
					if !eqVec(o.Q.Coeffs[lvl], out.Coeffs[lvl]) {
						return "ringqp.Automorphism: Q part differs from Ring.Automorphism"
					}
					for j := 0; j <= lp; j++ {
						if w := c01ciAutRef(k, b.Coeffs[j], gal, y.qs[j]); !eqVec(c01ciReduced(o.P.Coeffs[j], y.qs[j]), w) {
							return fmt.Sprintf("ringqp.Automorphism P row %d (p=%d): b=%s got=%s want=%s", j, y.qs[j], Vec(b.Coeffs[j]), Vec(o.P.Coeffs[j]), Vec(w))
						}
					}
					return ""
				})
				if len(autTie) == 2 {
					c.Emit(autTie[0], autTie[1])
				}
				c.Probe("aut_all", fmt.Sprintf("%s N=%d lvl=%d gal=%d (mod NthRoot=%d: %d)", k, N, lvl, gal, nth, gal%nth), "C01/Ring.Automorphism/not-congruent", d)
				c.Count("aut-all:" + k.String())
			}
		}
	}
}

// ---- C. lazy chains -------------------------------------------------------------------------------

// c01qp2LazyChains: the accumulating lazy kernels.  Documented: from a reduced accumulator one call returns a value in
// [0, K*q-O]; a call therefore adds at most G = K*q-O-(q-1) to the accumulator, and after k calls without reduction
// the accumulator is at most (q-1) + k*G.  The chain is run for the largest k with (q-1) + k*G < 2^64 (at most 8).
func c01qp2LazyChains(c *Ctx) {
	rn := c.rng
	byName := map[string]vecOp{}
	for _, o := range vecOps {
		byName[o.name] = o
	}
	type chain struct {
		name  string
		accIn int // which operand is the accumulator: 3 = p3 (read and written), 1 = p1 (p3 = f(p1, p2), fed back)
	}
	chains := []chain{
		{"MulCoeffsBarrettThenAddLazy", 3}, {"MulCoeffsMontgomeryThenAddLazy", 3}, {"MulCoeffsMontgomeryLazyThenAddLazy", 3},
		{"MulCoeffsMontgomeryThenSubLazy", 3}, {"MulCoeffsMontgomeryLazyThenSubLazy", 3},
		{"AddLazy", 1}, {"SubLazy", 1},
	}
	N := 16
	sizes := []int{61, 60, 59}
	if c.Thorough() {
		sizes = []int{61, 60, 59, 58, 45, 31}
	}
	for _, q := range c01ciGoodPrimes(uint64(2*N), sizes) {
		rg, err := ring.NewRing(N, []uint64{q})
		if err != nil {
			continue
		}
		s := rg.SubRings[0]
		Q := bi(q)
		winv := new(big.Int).ModInverse(wBig, Q)
		for _, ch := range chains {
			var vr vecRef
			for _, r := range vecRefs {
				if r.name == ch.name {
					vr = r
				}
			}
			rk, ro := vr.rangeK, vr.rangeOff
			if o, ok := docRangeOverride[ch.name]; ok {
				rk, ro = o[0], o[1]
			}
			if ch.name == "AddLazy" {
				rk, ro = 2, 2 // exact sum of two reduced values
			}
			if ch.name == "SubLazy" {
				rk, ro = 2, 1
			}
			if rk == 0 {
				continue
			}
			G := rk*q - ro - (q - 1)
			for rep := 0; rep < c.Scale(2, 6); rep++ {
				acc := patVec(rn, []string{"max", "uniform", "near"}[rep%3], N, q)
				exact := make([]*big.Int, N)
				for i := range exact {
					exact[i] = bi(acc[i])
				}
				bound := q - 1
				detail, key, steps := "", "C01/SubRing."+ch.name+"/lazy-chain-not-congruent", 0
				for k := 1; k <= 8 && detail == ""; k++ {
					nb, carry := bits.Add64(bound, G, 0)
					if carry != 0 {
						break // one more call could leave the word: the documented budget is exhausted
					}
					bound = nb
					steps = k
					p1 := patVec(rn, c.pat(), N, q)
					p2 := patVec(rn, []string{"max", "uniform", "near", "zero"}[rn.Intn(4)], N, q)
					out := append([]uint64(nil), acc...)
					if ch.accIn == 1 {
						byName[ch.name].f(s, acc, p2, out, 0, 0)
					} else {
						byName[ch.name].f(s, p1, p2, out, 0, 0)
					}
					for i := 0; i < N && detail == ""; i++ {
						if ch.accIn == 1 {
							exact[i] = vr.ref(exact[i], bi(p2[i]), nil, nil, nil, Q, winv)
						} else {
							exact[i] = vr.ref(bi(p1[i]), bi(p2[i]), exact[i], nil, nil, Q, winv)
						}
						if new(big.Int).Mod(exact[i], Q).Cmp(new(big.Int).Mod(bi(out[i]), Q)) != 0 {
							detail = fmt.Sprintf("step %d i=%d: got %d, exact accumulation %s mod q", k, i, out[i], new(big.Int).Mod(exact[i], Q))
						} else if out[i] > bound {
							key = "C01/SubRing." + ch.name + "/lazy-chain-exceeds-documented-range"
							detail = fmt.Sprintf("step %d i=%d: got %d > (q-1)+%d*(%d*q-%d-(q-1)) = %d", k, i, out[i], k, rk, ro, bound)
						}
					}
					acc = out
				}
				c.Probe("lazy_chain", fmt.Sprintf("%s q=%d steps=%d rep=%d", ch.name, q, steps, rep), key, detail)
				c.Count(fmt.Sprintf("lazy-chain:%s:steps=%d", ch.name, steps))
			}
		}
	}
}
