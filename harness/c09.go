package main

// C09 — operations leave their inputs intact and are insensitive to output aliasing / history.
//
// For every operation of the catalogue (public methods of bgv/ckks/rlwe/rgsw evaluators, encoders,
// encryptor/decryptor, lintrans/polynomial evaluators, ring.Div*):
//   inputs_unchanged/<op>         deep snapshot (limbs, metadata, big.Int words, slices) of ALL arguments
//                                 before/after the call with a fresh distinct output
//   alias_insensitive/<op>/<pat>  out==op0, out==op1, op0==op1, all: if the call returns no error its
//                                 result (metadata + decrypted polynomial) equals the fresh-output result
//   history_free/<op>             evaluator pre-used + scratch poisoned + output pre-used with a larger
//                                 degree/level ⇒ same result as fresh evaluator / fresh output
//   output_independent/<op>        the output of a call with a fresh distinct receiver shares no polynomial storage and no
//                                 MetaData struct with an input (incl. rotation by 0, galEl = 1, scalars 0 / 1, nothing-to-do
//                                 rescalings): harness/c09_naming.go, which also holds alias_naming/… (the receiver named through
//                                 `x.El()` or a second header over the same storage) and the runs with differing LogDimensions
// Tie lines (`alias`, `inputs`, `addhist`): for the operations transcribed in Lattigo/Model/Store.lean
// the observed outcome class must equal the model's prediction.

import (
	"fmt"
	"math/big"
	"reflect"

	"github.com/tuneinsight/lattigo/v6/core/rgsw"
	"github.com/tuneinsight/lattigo/v6/core/rlwe"
	"github.com/tuneinsight/lattigo/v6/ring"
	"github.com/tuneinsight/lattigo/v6/schemes/bgv"
	"github.com/tuneinsight/lattigo/v6/schemes/ckks"
	"github.com/tuneinsight/lattigo/v6/utils/sampling"
)

func init() { register("C09", genC09) }

type c09Env struct {
	c      *Ctx
	scheme string // bgv | bfv | ckks
	logN   int
	nP     int // number of auxiliary primes
	rp     *rlwe.Parameters
	bgvP   bgv.Parameters
	ckksP  ckks.Parameters
	kgen   *rlwe.KeyGenerator
	sk     *rlwe.SecretKey
	evk    *rlwe.MemEvaluationKeySet
	swk    *rlwe.EvaluationKey
	enc    *rlwe.Encryptor
	dec    *rlwe.Decryptor
	bgvE   *bgv.Encoder
	ckksE  *ckks.Encoder
	rots   []int
	dims   string // "", "a<b", "a>b": LogDimensions of op0 made smaller / larger than op1's (metadata only)
}

type c09Evals struct {
	bgv  *bgv.Evaluator
	ckks *ckks.Evaluator
	rl   *rlwe.Evaluator
}

func newC09Env(c *Ctx, scheme string, logN int, nP int) *c09Env {
	e := &c09Env{c: c, scheme: scheme, logN: logN, nP: nP}
	logP := []int{50, 50, 50}[:nP]
	e.rots = []int{1, 2, 3, 4, 5, 6, 7, 8}
	var pp rlwe.ParameterProvider
	switch scheme {
	case "bgv", "bfv":
		p, err := bgv.NewParametersFromLiteral(bgv.ParametersLiteral{LogN: logN, LogQ: []int{45, 40, 40}, LogP: logP, PlaintextModulus: 65537})
		if err != nil {
			panic(err)
		}
		e.bgvP, pp = p, p
		e.bgvE = bgv.NewEncoder(p)
	default:
		p, err := ckks.NewParametersFromLiteral(ckks.ParametersLiteral{LogN: logN, LogQ: []int{55, 40, 40}, LogP: append([]int{55}, logP[1:]...), LogDefaultScale: 40})
		if err != nil {
			panic(err)
		}
		e.ckksP, pp = p, p
		e.ckksE = ckks.NewEncoder(p)
	}
	e.rp = pp.GetRLWEParameters()
	e.kgen = rlwe.NewKeyGenerator(pp)
	e.sk = e.kgen.GenSecretKeyNew()
	rlk := e.kgen.GenRelinearizationKeyNew(e.sk)
	var gals []uint64
	for _, k := range e.rots {
		gals = append(gals, e.rp.GaloisElement(k))
	}
	gals = append(gals, e.rp.GaloisElementOrderTwoOrthogonalSubgroup())
	for i := 0; i < logN; i++ {
		gals = append(gals, e.rp.GaloisElement(1<<i))
	}
	e.evk = rlwe.NewMemEvaluationKeySet(rlk, e.kgen.GenGaloisKeysNew(gals, e.sk)...)
	sk2 := e.kgen.GenSecretKeyNew()
	_ = sk2
	e.swk = e.kgen.GenEvaluationKeyNew(e.sk, e.sk) // re-encryption under the same key: decryptable
	e.enc = rlwe.NewEncryptor(pp, e.sk)
	e.dec = rlwe.NewDecryptor(pp, e.sk)
	return e
}

func (e *c09Env) evals() *c09Evals {
	ev := &c09Evals{}
	switch e.scheme {
	case "bgv":
		ev.bgv = bgv.NewEvaluator(e.bgvP, e.evk)
		ev.rl = ev.bgv.Evaluator
	case "bfv":
		ev.bgv = bgv.NewEvaluator(e.bgvP, e.evk, true)
		ev.rl = ev.bgv.Evaluator
	default:
		ev.ckks = ckks.NewEvaluator(e.ckksP, e.evk)
		ev.rl = ev.ckks.Evaluator
	}
	return ev
}

func (e *c09Env) maxLevel() int { return e.rp.MaxLevel() }

func (e *c09Env) newCt(deg, lvl int) *rlwe.Ciphertext {
	if e.scheme == "ckks" {
		return ckks.NewCiphertext(e.ckksP, deg, lvl)
	}
	return bgv.NewCiphertext(e.bgvP, deg, lvl)
}

func (e *c09Env) newPt(lvl int) *rlwe.Plaintext {
	if e.scheme == "ckks" {
		return ckks.NewPlaintext(e.ckksP, lvl)
	}
	return bgv.NewPlaintext(e.bgvP, lvl)
}

// encode small values at a scale multiplied by `mul` (1 = default scale)
func (e *c09Env) encode(seedv int, lvl int, mul uint64) *rlwe.Plaintext {
	pt := e.newPt(lvl)
	if e.scheme == "ckks" {
		if mul != 1 {
			pt.Scale = pt.Scale.Mul(rlwe.NewScale(mul))
		}
		v := make([]float64, e.ckksP.MaxSlots())
		for i := range v {
			v[i] = float64((i*7+seedv*3)%11) / 8
		}
		if err := e.ckksE.Encode(v, pt); err != nil {
			panic(err)
		}
	} else {
		if mul != 1 {
			pt.Scale = e.bgvP.NewScale(mul)
		}
		v := make([]uint64, e.bgvP.MaxSlots())
		for i := range v {
			v[i] = uint64((i*7 + seedv*3) % 97)
		}
		if err := e.bgvE.Encode(v, pt); err != nil {
			panic(err)
		}
	}
	return pt
}

func (e *c09Env) encrypt(seedv int, lvl int, mul uint64) *rlwe.Ciphertext {
	ct, err := e.enc.EncryptNew(e.encode(seedv, lvl, mul))
	if err != nil {
		panic(err)
	}
	return ct
}

// garbage ciphertext (valid residues, arbitrary metadata): an output object "used before"
func (e *c09Env) garbageCt(deg, lvl int) *rlwe.Ciphertext {
	ct := e.newCt(deg, lvl)
	for i := range ct.Value {
		c09FillPoly(e.c, ct.Value[i])
	}
	if e.scheme == "ckks" {
		ct.Scale = rlwe.NewScale(12345)
	} else {
		ct.Scale = e.bgvP.NewScale(777)
	}
	ct.LogDimensions = ring.Dimensions{Rows: 0, Cols: 1}
	return ct
}

func c09FillPoly(c *Ctx, p ring.Poly) {
	for i := range p.Coeffs {
		for j := range p.Coeffs[i] {
			p.Coeffs[i][j] = c.rng.U64() & 0xFFFFF
		}
	}
}

// poison every []uint64 reachable from the scratch buffers of an evaluator (valid residues)
func c09Poison(c *Ctx, ev *c09Evals) {
	var roots []interface{}
	if ev.rl != nil {
		roots = append(roots, ev.rl.EvaluatorBuffers, ev.rl.BasisExtender)
	}
	if ev.bgv != nil {
		roots = append(roots, c09Field(ev.bgv, "evaluatorBuffers"))
	}
	if ev.ckks != nil {
		roots = append(roots, c09Field(ev.ckks, "evaluatorBuffers"))
	}
	seen := map[uintptr]bool{}
	var rec func(v reflect.Value, d int)
	rec = func(v reflect.Value, d int) {
		if !v.IsValid() || d > 40 {
			return
		}
		switch v.Kind() {
		case reflect.Ptr:
			if v.IsNil() || seen[v.Pointer()] {
				return
			}
			seen[v.Pointer()] = true
			rec(c09Readable(v.Elem()), d+1)
		case reflect.Interface:
			if !v.IsNil() {
				rec(c09Readable(v.Elem()), d+1)
			}
		case reflect.Struct:
			t := v.Type().String()
			if t == "ring.Ring" || t == "ring.SubRing" || t == "rlwe.Parameters" || t == "ringqp.Ring" {
				return
			}
			for i := 0; i < v.NumField(); i++ {
				n := v.Type().Field(i).Name
				if n == "params" || n == "parameters" || n == "ringQ" || n == "ringP" || n == "constants" {
					continue
				}
				rec(c09Readable(v.Field(i)), d+1)
			}
		case reflect.Array:
			for i := 0; i < v.Len(); i++ {
				rec(c09Readable(v.Index(i)), d+1)
			}
		case reflect.Slice:
			if v.Type().Elem().Kind() == reflect.Uint64 {
				if v.Len() >= 16 { // a polynomial limb, not a constant table of a few words
					for i := 0; i < v.Len(); i++ {
						v.Index(i).SetUint(c.rng.U64() & 0xFFFFF)
					}
				}
				return
			}
			for i := 0; i < v.Len(); i++ {
				rec(c09Readable(v.Index(i)), d+1)
			}
		}
	}
	for _, r := range roots {
		if r != nil {
			rec(c09Readable(reflect.ValueOf(r)), 0)
		}
	}
}

func c09Field(x interface{}, name string) interface{} {
	v := reflect.ValueOf(x)
	for v.Kind() == reflect.Ptr {
		v = v.Elem()
	}
	f := v.FieldByName(name)
	if !f.IsValid() {
		return nil
	}
	f = c09Readable(f)
	if f.Kind() == reflect.Ptr && !f.IsNil() {
		return f.Interface()
	}
	return nil
}

// ---- result fingerprint ----

type c09FP struct{ meta, dec, raw string }

func (e *c09Env) fp(ct *rlwe.Ciphertext) (f c09FP) {
	f.meta = fmt.Sprintf("d%d,l%d,s%s,ntt%d,b%d,dim%d.%d,mont%d", ct.Degree(), ct.Level(), ct.Scale.Value.Text('g', 12), b2i(ct.IsNTT), b2i(ct.IsBatched),
		ct.LogDimensions.Rows, ct.LogDimensions.Cols, b2i(ct.IsMontgomery))
	f.raw = deepHash(&ct.Value)
	f.dec = Try(func() string {
		pt := e.dec.DecryptNew(ct)
		return deepHash(&pt.Value)
	})
	return
}

func (a c09FP) same(b c09FP) bool { return a.meta == b.meta && a.dec == b.dec }

// ---- operation catalogue ----

type c09Call func(ev *c09Evals, a *rlwe.Ciphertext, b interface{}, out *rlwe.Ciphertext) error

type c09Op struct {
	name   string
	binary bool   // op1 is a ciphertext: all four aliasing patterns apply
	kind   string // kind of op1 for non-binary ops: "-", "pt", "u64", "big", "vec"
	outDeg int
	call   c09Call
	store  string                                                                             // name of the Store-model op ("" = not modelled)
	raw    func(ev *c09Evals, a *rlwe.Ciphertext, b rlwe.Operand, out *rlwe.Ciphertext) error // binary ops: the method itself
}

func (e *c09Env) catalogue() []c09Op {
	var ops []c09Op
	bin := func(name string, outDeg int, store string, f func(ev *c09Evals, a *rlwe.Ciphertext, b rlwe.Operand, out *rlwe.Ciphertext) error) {
		ops = append(ops, c09Op{name: name, binary: true, kind: "ct", outDeg: outDeg, store: store, raw: f,
			call: func(ev *c09Evals, a *rlwe.Ciphertext, b interface{}, out *rlwe.Ciphertext) error {
				return f(ev, a, b.(*rlwe.Ciphertext), out)
			}})
		for _, k := range []string{"pt", "u64", "big", "vec"} {
			k := k
			ops = append(ops, c09Op{name: name + "[" + k + "]", kind: k, outDeg: 1,
				call: func(ev *c09Evals, a *rlwe.Ciphertext, b interface{}, out *rlwe.Ciphertext) error {
					return f(ev, a, b, out)
				}})
		}
	}
	un := func(name string, store string, f func(ev *c09Evals, a, out *rlwe.Ciphertext) error) {
		ops = append(ops, c09Op{name: name, kind: "-", outDeg: 1, store: store,
			call: func(ev *c09Evals, a *rlwe.Ciphertext, _ interface{}, out *rlwe.Ciphertext) error {
				return f(ev, a, out)
			}})
	}
	g1 := e.rp.GaloisElement(1)
	switch e.scheme {
	case "bgv", "bfv":
		T := "bgv.Evaluator."
		if e.scheme == "bfv" {
			T = "bgv.Evaluator{ScaleInvariant}."
		}
		bin(T+"Add", 1, "bgvMatchScale", func(ev *c09Evals, a *rlwe.Ciphertext, b rlwe.Operand, o *rlwe.Ciphertext) error {
			return ev.bgv.Add(a, b, o)
		})
		bin(T+"Sub", 1, "bgvMatchScale", func(ev *c09Evals, a *rlwe.Ciphertext, b rlwe.Operand, o *rlwe.Ciphertext) error {
			return ev.bgv.Sub(a, b, o)
		})
		if e.scheme == "bgv" {
			bin(T+"Mul", 2, "bgvTensor", func(ev *c09Evals, a *rlwe.Ciphertext, b rlwe.Operand, o *rlwe.Ciphertext) error {
				return ev.bgv.Mul(a, b, o)
			})
			bin(T+"MulRelin", 1, "bgvTensorRelin", func(ev *c09Evals, a *rlwe.Ciphertext, b rlwe.Operand, o *rlwe.Ciphertext) error {
				return ev.bgv.MulRelin(a, b, o)
			})
		}
		bin(T+"MulScaleInvariant", 2, "bgvTensorSI", func(ev *c09Evals, a *rlwe.Ciphertext, b rlwe.Operand, o *rlwe.Ciphertext) error {
			return ev.bgv.MulScaleInvariant(a, b, o)
		})
		bin(T+"MulRelinScaleInvariant", 1, "bgvTensorSIRelin", func(ev *c09Evals, a *rlwe.Ciphertext, b rlwe.Operand, o *rlwe.Ciphertext) error {
			return ev.bgv.MulRelinScaleInvariant(a, b, o)
		})
		bin(T+"MulThenAdd", 2, "", func(ev *c09Evals, a *rlwe.Ciphertext, b rlwe.Operand, o *rlwe.Ciphertext) error {
			return ev.bgv.MulThenAdd(a, b, o)
		})
		bin(T+"MulRelinThenAdd", 1, "", func(ev *c09Evals, a *rlwe.Ciphertext, b rlwe.Operand, o *rlwe.Ciphertext) error {
			return ev.bgv.MulRelinThenAdd(a, b, o)
		})
		un(T+"Rescale", "", func(ev *c09Evals, a, o *rlwe.Ciphertext) error { return ev.bgv.Rescale(a, o) })
		un(T+"RotateColumns", "", func(ev *c09Evals, a, o *rlwe.Ciphertext) error { return ev.bgv.RotateColumns(a, 3, o) })
		un(T+"RotateColumns(0)", "", func(ev *c09Evals, a, o *rlwe.Ciphertext) error { return ev.bgv.RotateColumns(a, 0, o) })
		un(T+"RotateRows", "", func(ev *c09Evals, a, o *rlwe.Ciphertext) error { return ev.bgv.RotateRows(a, o) })
		un(T+"Mul[scalar 1]", "", func(ev *c09Evals, a, o *rlwe.Ciphertext) error { return ev.bgv.Mul(a, uint64(1), o) })
		un(T+"Mul[scalar 0]", "", func(ev *c09Evals, a, o *rlwe.Ciphertext) error { return ev.bgv.Mul(a, uint64(0), o) })
		un(T+"Add[scalar 0]", "", func(ev *c09Evals, a, o *rlwe.Ciphertext) error { return ev.bgv.Add(a, uint64(0), o) })
		un(T+"Sub[scalar 0]", "", func(ev *c09Evals, a, o *rlwe.Ciphertext) error { return ev.bgv.Sub(a, uint64(0), o) })

		un(T+"InnerSum", "", func(ev *c09Evals, a, o *rlwe.Ciphertext) error { return ev.bgv.InnerSum(a, 1, 4, o) })
		un(T+"Replicate", "", func(ev *c09Evals, a, o *rlwe.Ciphertext) error { return ev.bgv.Replicate(a, 1, 3, o) })
	default:
		T := "ckks.Evaluator."
		bin(T+"Add", 1, "ckksEval", func(ev *c09Evals, a *rlwe.Ciphertext, b rlwe.Operand, o *rlwe.Ciphertext) error {
			return ev.ckks.Add(a, b, o)
		})
		bin(T+"Sub", 1, "ckksEval", func(ev *c09Evals, a *rlwe.Ciphertext, b rlwe.Operand, o *rlwe.Ciphertext) error {
			return ev.ckks.Sub(a, b, o)
		})
		bin(T+"Mul", 2, "ckksMul", func(ev *c09Evals, a *rlwe.Ciphertext, b rlwe.Operand, o *rlwe.Ciphertext) error {
			return ev.ckks.Mul(a, b, o)
		})
		bin(T+"MulRelin", 1, "ckksMulRelin", func(ev *c09Evals, a *rlwe.Ciphertext, b rlwe.Operand, o *rlwe.Ciphertext) error {
			return ev.ckks.MulRelin(a, b, o)
		})
		bin(T+"MulThenAdd", 2, "", func(ev *c09Evals, a *rlwe.Ciphertext, b rlwe.Operand, o *rlwe.Ciphertext) error {
			return ev.ckks.MulThenAdd(a, b, o)
		})
		bin(T+"MulRelinThenAdd", 1, "", func(ev *c09Evals, a *rlwe.Ciphertext, b rlwe.Operand, o *rlwe.Ciphertext) error {
			return ev.ckks.MulRelinThenAdd(a, b, o)
		})
		un(T+"Rescale", "", func(ev *c09Evals, a, o *rlwe.Ciphertext) error { return ev.ckks.Rescale(a, o) })
		un(T+"ScaleUp", "", func(ev *c09Evals, a, o *rlwe.Ciphertext) error { return ev.ckks.ScaleUp(a, rlwe.NewScale(8), o) })
		un(T+"Rotate", "", func(ev *c09Evals, a, o *rlwe.Ciphertext) error { return ev.ckks.Rotate(a, 3, o) })
		un(T+"Rotate(0)", "", func(ev *c09Evals, a, o *rlwe.Ciphertext) error { return ev.ckks.Rotate(a, 0, o) })
		un(T+"Conjugate", "", func(ev *c09Evals, a, o *rlwe.Ciphertext) error { return ev.ckks.Conjugate(a, o) })
		un(T+"Mul[scalar 1]", "", func(ev *c09Evals, a, o *rlwe.Ciphertext) error { return ev.ckks.Mul(a, 1, o) })
		un(T+"Mul[scalar 0]", "", func(ev *c09Evals, a, o *rlwe.Ciphertext) error { return ev.ckks.Mul(a, 0, o) })
		un(T+"Add[scalar 0]", "", func(ev *c09Evals, a, o *rlwe.Ciphertext) error { return ev.ckks.Add(a, 0, o) })
		un(T+"Sub[scalar 0]", "", func(ev *c09Evals, a, o *rlwe.Ciphertext) error { return ev.ckks.Sub(a, 0, o) })
		un(T+"ScaleUp(1)", "", func(ev *c09Evals, a, o *rlwe.Ciphertext) error { return ev.ckks.ScaleUp(a, rlwe.NewScale(1), o) })
		un(T+"RescaleTo(nothing to do)", "", func(ev *c09Evals, a, o *rlwe.Ciphertext) error { return ev.ckks.RescaleTo(a, a.Scale, o) })
		un(T+"RotateHoisted[0,1]", "", func(ev *c09Evals, a, o *rlwe.Ciphertext) error {
			return ev.ckks.RotateHoisted(a, []int{0, 1}, map[int]*rlwe.Ciphertext{0: o, 1: e.newCt(1, o.Level())})
		})
		un(T+"InnerSum", "", func(ev *c09Evals, a, o *rlwe.Ciphertext) error { return ev.ckks.InnerSum(a, 1, 4, o) })
		un(T+"Replicate", "", func(ev *c09Evals, a, o *rlwe.Ciphertext) error { return ev.ckks.Replicate(a, 1, 3, o) })
		un(T+"RotateHoisted", "", func(ev *c09Evals, a, o *rlwe.Ciphertext) error {
			return ev.ckks.RotateHoisted(a, []int{1, 2}, map[int]*rlwe.Ciphertext{1: o, 2: e.newCt(1, o.Level())})
		})
	}
	R := "rlwe.Evaluator." // exercised through the scheme evaluator's embedded *rlwe.Evaluator
	un(R+"Automorphism(galEl=1)", "", func(ev *c09Evals, a, o *rlwe.Ciphertext) error { return ev.rl.Automorphism(a, 1, o) })
	un(R+"Automorphism", "rlweAut", func(ev *c09Evals, a, o *rlwe.Ciphertext) error { return ev.rl.Automorphism(a, g1, o) })
	un(R+"AutomorphismHoisted", "", func(ev *c09Evals, a, o *rlwe.Ciphertext) error {
		lvl := a.Level()
		if o.Level() < lvl {
			lvl = o.Level()
		}
		ev.rl.DecomposeNTT(lvl, e.rp.MaxLevelP(), e.rp.PCount(), a.Value[1], a.IsNTT, ev.rl.BuffDecompQP)
		return ev.rl.AutomorphismHoisted(lvl, a, ev.rl.BuffDecompQP, g1, o)
	})
	un(R+"AutomorphismHoisted(galEl=1)", "", func(ev *c09Evals, a, o *rlwe.Ciphertext) error {
		lvl := a.Level()
		if o.Level() < lvl {
			lvl = o.Level()
		}
		ev.rl.DecomposeNTT(lvl, e.rp.MaxLevelP(), e.rp.PCount(), a.Value[1], a.IsNTT, ev.rl.BuffDecompQP)
		return ev.rl.AutomorphismHoisted(lvl, a, ev.rl.BuffDecompQP, 1, o)
	})
	un(R+"Trace(logN=full: nothing to do)", "", func(ev *c09Evals, a, o *rlwe.Ciphertext) error { return ev.rl.Trace(a, e.logN, o) })
	un(R+"ApplyEvaluationKey", "", func(ev *c09Evals, a, o *rlwe.Ciphertext) error { return ev.rl.ApplyEvaluationKey(a, e.swk, o) })
	for _, n := range []int{1, 2, 3, 4, 5, 7, 8} {
		n := n
		un(fmt.Sprintf(R+"PartialTracesSum(n=%d)", n), fmt.Sprintf("rlwePTS:%d", n), func(ev *c09Evals, a, o *rlwe.Ciphertext) error {
			return ev.rl.PartialTracesSum(a, 1, n, o)
		})
	}
	un(R+"Trace", "", func(ev *c09Evals, a, o *rlwe.Ciphertext) error { return ev.rl.Trace(a, e.logN-2, o) })
	un(R+"InnerFunction", "", func(ev *c09Evals, a, o *rlwe.Ciphertext) error {
		return ev.rl.InnerFunction(a, 1, 3, func(x, y, z *rlwe.Ciphertext) error {
			if ev.bgv != nil {
				return ev.bgv.Add(x, y, z)
			}
			return ev.ckks.Add(x, y, z)
		}, o)
	})
	// the log n + HW(n) tree with n NOT a power of two (the accumulator path), also in place (pattern out=op0 of runOp)
	for _, n := range []int{5, 6, 7} {
		n := n
		un(fmt.Sprintf(R+"InnerFunction(n=%d)", n), "", func(ev *c09Evals, a, o *rlwe.Ciphertext) error {
			return ev.rl.InnerFunction(a, 1, n, func(x, y, z *rlwe.Ciphertext) error {
				if ev.bgv != nil {
					return ev.bgv.Add(x, y, z)
				}
				return ev.ckks.Add(x, y, z)
			}, o)
		})
		un(fmt.Sprintf(R+"InnerFunction[Sub](n=%d)", n), "", func(ev *c09Evals, a, o *rlwe.Ciphertext) error {
			return ev.rl.InnerFunction(a, 1, n, func(x, y, z *rlwe.Ciphertext) error {
				if ev.bgv != nil {
					return ev.bgv.Sub(x, y, z)
				}
				return ev.ckks.Sub(x, y, z)
			}, o)
		})
		un(fmt.Sprintf("scheme.InnerSum(n=%d)", n), "", func(ev *c09Evals, a, o *rlwe.Ciphertext) error {
			if ev.bgv != nil {
				return ev.bgv.InnerSum(a, 1, n, o)
			}
			return ev.ckks.InnerSum(a, 1, n, o)
		})
		un(fmt.Sprintf("scheme.Replicate(n=%d)", n), "", func(ev *c09Evals, a, o *rlwe.Ciphertext) error {
			if ev.bgv != nil {
				return ev.bgv.Replicate(a, 1, n, o)
			}
			return ev.ckks.Replicate(a, 1, n, o)
		})
	}
	// Relinearize: degree-2 input
	ops = append(ops, c09Op{name: R + "Relinearize", kind: "deg2", outDeg: 1,
		call: func(ev *c09Evals, a *rlwe.Ciphertext, _ interface{}, o *rlwe.Ciphertext) error {
			return ev.rl.Relinearize(a, o)
		}})
	return ops
}

// operand of the requested kind; `rel` ∈ eq | gt | lt is the relation scale(op0) ? scale(op1)
func (e *c09Env) operand(kind, rel string, lvl int) interface{} {
	switch kind {
	case "ct":
		mul := uint64(1)
		if dir, k := c09Rel(rel); dir == "lt" {
			mul = k
		}
		return e.encrypt(2, lvl, mul)
	case "pt":
		mul := uint64(1)
		if dir, k := c09Rel(rel); dir == "lt" {
			mul = k
		}
		return e.encode(2, lvl, mul)
	case "u64":
		return uint64(3)
	case "big":
		// larger than T so that the in-place normalisation is visible
		return new(big.Int).SetUint64(65537*5 + 40000)
	case "vec":
		if e.scheme == "ckks" {
			v := make([]float64, 8)
			for i := range v {
				v[i] = float64(i) / 4
			}
			return v
		}
		v := make([]uint64, 8)
		for i := range v {
			v[i] = uint64(i + 1)
		}
		return v
	}
	return nil
}

func c09CopyOperand(b interface{}) interface{} {
	switch b := b.(type) {
	case *rlwe.Ciphertext:
		return b.CopyNew()
	case *rlwe.Plaintext:
		return b.CopyNew()
	case *big.Int:
		return new(big.Int).Set(b)
	case []uint64:
		return append([]uint64{}, b...)
	case []float64:
		return append([]float64{}, b...)
	}
	return b
}

func c09Snap(b interface{}) string {
	switch b := b.(type) {
	case nil:
		return "-"
	case []uint64:
		return deepHash(&b)
	case []float64:
		return deepHash(&b)
	case uint64:
		return U(b)
	}
	return deepHash(b)
}

// a scale relation is "eq", "gt<k>" (scale(op0) = k·scale(op1)) or "lt<k>" (scale(op1) = k·scale(op0))
func c09Rel(rel string) (dir string, k uint64) {
	if rel == "eq" {
		return "eq", 1
	}
	k = 0
	for _, ch := range rel[2:] {
		k = 10*k + uint64(ch-'0')
	}
	return rel[:2], k
}

func c09Model(rel string) (int, int) {
	dir, k := c09Rel(rel)
	switch dir {
	case "gt":
		return 2 * int(k), 2
	case "lt":
		return 2, 2 * int(k)
	}
	return 4, 4
}

func c09Class(same bool) string {
	if same {
		return "same-as-fresh"
	}
	return "differs"
}

func c09Err(f func() error) (err error) {
	defer func() {
		if r := recover(); r != nil {
			err = fmt.Errorf("panic: %v", r)
		}
	}()
	return f()
}

func isPanic(err error) bool {
	return err != nil && len(err.Error()) >= 6 && err.Error()[:6] == "panic:"
}

func (e *c09Env) runOp(op c09Op, rel string, lvl0, lvl1 int) {
	c := e.c
	sc := fmt.Sprintf("%s/logN%d/P%d/%s/l%d,%d", e.scheme, e.logN, e.nP, rel, lvl0, lvl1)
	// stable finding keys: the four defects handled by the C05 patches get their own key
	key := func(what, pat string) string {
		isBgv := containsStr(op.name, "bgv.Evaluator")
		scalar := op.kind == "u64" || op.kind == "big"
		switch {
		case what == "inputs" && isBgv && op.kind == "big":
			return "C09/bgv-bigint-operand-rewritten"
		case what == "alias" && pat == "/out=op1" && isBgv && (containsStr(op.name, ".Add") || containsStr(op.name, ".Sub")):
			return "C09/bgv-matchscale-out-aliases-op1"
		case (what == "alias" || what == "history") && isBgv && scalar:
			return "C09/bgv-scalar-op-output-scale"
		case what == "panic" && containsStr(op.name, "bgv.Evaluator.Rescale"):
			return "C09/bgv-rescale-output-degree"
		}
		return "C09-" + what + "-" + op.name + pat
	}
	mulA := uint64(1)
	if dir, k := c09Rel(rel); dir == "gt" {
		mulA = k
	}
	var A *rlwe.Ciphertext
	if op.kind == "deg2" {
		ev := e.evals()
		x, y := e.encrypt(1, lvl0, 1), e.encrypt(2, lvl0, 1)
		A = e.newCt(2, lvl0)
		var err error
		if ev.bgv != nil {
			err = ev.bgv.Mul(x, y, A)
		} else {
			err = ev.ckks.Mul(x, y, A)
		}
		if err != nil {
			panic(err)
		}
	} else {
		A = e.encrypt(1, lvl0, mulA)
	}
	B := e.operand(op.kind, rel, lvl1)
	sc += e.applyDims(A, B)
	accumulate := len(op.name) > 7 && op.name[len(op.name)-7:] == "ThenAdd" || len(op.name) > 12 && (op.name[len(op.name)-12:] == "ThenAdd[pt]" || false)
	_ = accumulate
	outLvl := lvl0
	if lvl1 < outLvl && (op.kind == "ct" || op.kind == "pt") {
		outLvl = lvl1
	}
	isAcc := false
	for _, s := range []string{"MulThenAdd", "MulRelinThenAdd"} {
		if len(op.name) >= len(s) && (containsStr(op.name, "."+s)) {
			isAcc = true
		}
	}
	// the accumulator of …ThenAdd is an input too: give it a defined content
	var ACC *rlwe.Ciphertext
	if isAcc {
		ACC = e.encrypt(5, outLvl, 1)
	}
	freshOut := func() *rlwe.Ciphertext {
		if isAcc {
			o := ACC.CopyNew()
			if op.outDeg == 2 {
				o.Resize(2, outLvl)
			}
			if e.scheme == "ckks" {
				o.Scale = o.Scale.Mul(A.Scale) // scale of a product, as the documentation requires
			}
			return o
		}
		return e.newCt(op.outDeg, outLvl)
	}

	// ---- reference run: fresh evaluator, fresh distinct output ----
	a, b, out := A.CopyNew(), c09CopyOperand(B), freshOut()
	ha, hb := deepHash(a), c09Snap(b)
	ev := e.evals()
	hev := deepHash(e.evk, e.sk, e.swk)
	errRef := c09Err(func() error { return op.call(ev, a, b, out) })
	c.Count("op:" + op.name)
	if isPanic(errRef) {
		c.Probe("no_panic/"+op.name, sc, key("panic", ""), errRef.Error())
		return
	}
	if errRef != nil {
		c.Count("ref_rejected:" + op.name)
		return
	}
	ref := e.fp(out)
	detail := ""
	if deepHash(a) != ha {
		detail += "op0-changed "
	}
	if c09Snap(b) != hb {
		detail += "op1-changed(" + op.kind + ") "
	}
	if deepHash(e.evk, e.sk, e.swk) != hev {
		detail += "keys-changed "
	}
	c.Probe("inputs_unchanged/"+op.name, sc, key("inputs", ""), detail)
	c.Probe("output_independent/"+op.name, sc, "C09-independent-"+op.name, c09Independent(out, a, b))
	if op.store != "" && (op.store != "bgvMatchScale" || rel != "eq") && !isAcc {
		s0, s1 := c09Model(rel)
		c.Emit(fmt.Sprintf("inputs %s %d %d", op.store, s0, s1), c09Class(detail == ""))
	}
	if op.kind == "big" && (e.scheme == "bgv") && (containsStr(op.name, ".Add[") || containsStr(op.name, ".Mul[")) {
		st := "bgvAddBig"
		if containsStr(op.name, ".Mul[") {
			st = "bgvMulBig"
		}
		c.Emit(fmt.Sprintf("inputs %s 4 4", st), c09Class(detail == ""))
	}

	// ---- aliasing patterns ----
	type pat struct {
		name string
		run  func(ev *c09Evals) (*rlwe.Ciphertext, error, c09FP)
	}
	var pats []pat
	if !isAcc {
		pats = append(pats, pat{"out=op0", func(ev *c09Evals) (*rlwe.Ciphertext, error, c09FP) {
			a, b := A.CopyNew(), c09CopyOperand(B)
			hb := c09Snap(b)
			err := c09Err(func() error { return op.call(ev, a, b, a) })
			if err == nil {
				d := ""
				if c09Snap(b) != hb {
					d = "op1-changed(" + op.kind + ")"
				}
				c.Probe("inputs_unchanged/"+op.name+"/out=op0", sc, key("inputs", "/out=op0"), d)
			}
			return a, err, ref
		}})
	}
	if op.binary {
		if !isAcc {
			pats = append(pats, pat{"out=op1", func(ev *c09Evals) (*rlwe.Ciphertext, error, c09FP) {
				a, b := A.CopyNew(), B.(*rlwe.Ciphertext).CopyNew()
				ha := deepHash(a)
				err := c09Err(func() error { return op.call(ev, a, b, b) })
				if err == nil {
					d := ""
					if deepHash(a) != ha {
						d = "op0-changed"
					}
					c.Probe("inputs_unchanged/"+op.name+"/out=op1", sc, key("inputs", "/out=op1"), d)
				}
				return b, err, ref
			}})
		}
		// reference for op0 == op1: two separate copies of A
		var ref2 c09FP
		ok2 := false
		{
			a1, a2, o := A.CopyNew(), A.CopyNew(), freshOut()
			if !isAcc {
				o = e.newCt(op.outDeg, lvl0)
			}
			if err := c09Err(func() error { return op.call(e.evals(), a1, a2, o) }); err == nil {
				ref2, ok2 = e.fp(o), true
			}
		}
		if ok2 {
			pats = append(pats, pat{"op0=op1", func(ev *c09Evals) (*rlwe.Ciphertext, error, c09FP) {
				a, o := A.CopyNew(), freshOut()
				if !isAcc {
					o = e.newCt(op.outDeg, lvl0)
				}
				ha := deepHash(a)
				err := c09Err(func() error { return op.call(ev, a, a, o) })
				if err == nil && deepHash(a) != ha {
					c.Probe("inputs_unchanged/"+op.name+"/op0=op1", sc, key("inputs", "/op0=op1"), "operand-changed")
				}
				return o, err, ref2
			}})
			if !isAcc {
				pats = append(pats, pat{"all", func(ev *c09Evals) (*rlwe.Ciphertext, error, c09FP) {
					a := A.CopyNew()
					err := c09Err(func() error { return op.call(ev, a, a, a) })
					return a, err, ref2
				}})
			}
		}
	}
	for _, p := range pats {
		res, err, want := p.run(e.evals())
		if isPanic(err) {
			c.Probe("no_panic/"+op.name+"/"+p.name, sc, key("panic", "/"+p.name), err.Error())
			continue
		}
		if err != nil {
			c.Count("alias_rejected:" + op.name + "/" + p.name)
			continue
		}
		got := e.fp(res)
		d := ""
		if !got.same(want) {
			d = "result-differs"
			if got.meta != want.meta {
				d += "(meta:" + got.meta + "/fresh:" + want.meta + ")"
			}
			if got.dec != want.dec {
				d += "(decrypted)"
			}
		} else if got.raw != want.raw {
			c.Count("alias_raw_differs_only:" + op.name + "/" + p.name)
		}
		c.Probe("alias_insensitive/"+op.name+"/"+p.name, sc, key("alias", "/"+p.name), d)
		if op.store != "" && (op.store != "bgvMatchScale" || (rel != "eq" && p.name != "op0=op1" && p.name != "all")) {
			s0, s1 := c09Model(rel)
			if p.name == "op0=op1" || p.name == "all" {
				s0, s1 = 4, 4
			}
			c.Emit(fmt.Sprintf("alias %s %s %d %d", op.store, p.name, s0, s1), c09Class(d == ""))
		}
	}

	// ---- history: pre-used + poisoned evaluator, pre-used output of larger degree / level ----
	if isAcc {
		return
	}
	for _, dOut := range []int{1, 2} {
		ev := e.evals()
		// unrelated previous work at the top level, degree 2
		{
			x, y := e.encrypt(7, e.maxLevel(), 1), e.encrypt(8, e.maxLevel(), 1)
			t2, t1 := e.newCt(2, e.maxLevel()), e.newCt(1, e.maxLevel())
			if ev.bgv != nil {
				_ = ev.bgv.Mul(x, y, t2)
				_ = ev.bgv.MulRelin(x, y, t1)
				_ = ev.bgv.MulRelinScaleInvariant(x, y, t1)
				_ = ev.bgv.RotateColumns(x, 5, t1)
				_ = ev.bgv.InnerSum(x, 1, 7, t1)
			} else {
				_ = ev.ckks.Mul(x, y, t2)
				_ = ev.ckks.MulRelin(x, y, t1)
				_ = ev.ckks.Rotate(x, 5, t1)
				_ = ev.ckks.InnerSum(x, 1, 7, t1)
				_ = ev.ckks.Add(x, []float64{1, 2, 3}, t1)
			}
		}
		c09Poison(c, ev)
		a, b, out := A.CopyNew(), c09CopyOperand(B), e.garbageCt(dOut, e.maxLevel())
		err := c09Err(func() error { return op.call(ev, a, b, out) })
		if isPanic(err) {
			c.Probe("no_panic/"+op.name+"/history", sc+fmt.Sprintf("/dOut%d", dOut), key("panic", "/history"), err.Error())
			continue
		}
		if err != nil {
			c.Count("history_rejected:" + op.name)
			continue
		}
		got := e.fp(out)
		d := ""
		if !got.same(ref) {
			d = fmt.Sprintf("result-differs(prevDegree=%d,got:%s/fresh:%s,decEq=%d)", dOut, got.meta, ref.meta, b2i(got.dec == ref.dec))
		}
		c.Probe("history_free/"+op.name, sc+fmt.Sprintf("/dOut%d", dOut), key("history", ""), d)
		if op.binary && (containsStr(op.name, ".Add") || containsStr(op.name, ".Sub")) && rel == "eq" {
			c.Emit(fmt.Sprintf("addhist 1 1 %d", dOut), c09Class(d == ""))
		}
	}
}

func containsStr(s, sub string) bool {
	for i := 0; i+len(sub) <= len(s); i++ {
		if s[i:i+len(sub)] == sub {
			return true
		}
	}
	return false
}

// ---- encoders, encryptor, decryptor ----

func (e *c09Env) runCodec() {
	c := e.c
	sc := fmt.Sprintf("%s/logN%d", e.scheme, e.logN)
	lvl := e.maxLevel()
	if e.scheme == "ckks" {
		v := make([]complex128, e.ckksP.MaxSlots()/2) // shorter than the slot count: the rest must be zero
		for i := range v {
			v[i] = complex(float64(i%5)/4, float64(i%3)/2)
		}
		hv := deepHash(&v)
		pt := ckks.NewPlaintext(e.ckksP, lvl)
		err := e.ckksE.Encode(v, pt)
		d := ""
		if deepHash(&v) != hv {
			d = "values-changed"
		}
		c.Probe("inputs_unchanged/ckks.Encoder.Encode", sc, "C09-inputs-ckks.Encoder.Encode", d)
		if err == nil {
			ecd2 := ckks.NewEncoder(e.ckksP)
			big := make([]complex128, e.ckksP.MaxSlots())
			for i := range big {
				big[i] = complex(1e3, -1e3)
			}
			g := ckks.NewPlaintext(e.ckksP, lvl)
			_ = ecd2.Encode(big, g) // history: encoder buffers and plaintext used for a longer vector
			err2 := ecd2.Encode(v, g)
			d = ""
			if err2 != nil || deepHash(g) != deepHash(pt) {
				d = "result-differs"
			}
			c.Probe("history_free/ckks.Encoder.Encode", sc, "C09-history-ckks.Encoder.Encode", d)
			hp := deepHash(pt)
			o1 := make([]complex128, len(v))
			_ = e.ckksE.Decode(pt, o1)
			d = ""
			if deepHash(pt) != hp {
				d = "plaintext-changed"
			}
			c.Probe("inputs_unchanged/ckks.Encoder.Decode", sc, "C09-inputs-ckks.Encoder.Decode", d)
			o2 := make([]complex128, len(v))
			for i := range o2 {
				o2[i] = complex(9, 9)
			}
			_ = ecd2.Decode(pt, o2)
			d = ""
			if deepHash(&o1) != deepHash(&o2) {
				d = "result-differs"
			}
			c.Probe("history_free/ckks.Encoder.Decode", sc, "C09-history-ckks.Encoder.Decode", d)
		}
	} else {
		for _, batched := range []bool{true, false} {
			tag := fmt.Sprintf("%s/batched%d", sc, b2i(batched))
			v := make([]uint64, e.bgvP.MaxSlots()/2)
			for i := range v {
				v[i] = uint64(i*13+1) % 65537
			}
			hv := deepHash(&v)
			pt := bgv.NewPlaintext(e.bgvP, lvl)
			pt.IsBatched = batched
			err := e.bgvE.Encode(v, pt)
			d := ""
			if deepHash(&v) != hv {
				d = "values-changed"
			}
			c.Probe("inputs_unchanged/bgv.Encoder.Encode", tag, "C09-inputs-bgv.Encoder.Encode", d)
			if err != nil {
				continue
			}
			ecd2 := bgv.NewEncoder(e.bgvP)
			big := make([]uint64, e.bgvP.MaxSlots())
			for i := range big {
				big[i] = 65536
			}
			g := bgv.NewPlaintext(e.bgvP, lvl)
			g.IsBatched = batched
			_ = ecd2.Encode(big, g)
			err2 := ecd2.Encode(v, g)
			d = ""
			if err2 != nil || deepHash(g) != deepHash(pt) {
				d = "result-differs"
			}
			c.Probe("history_free/bgv.Encoder.Encode", tag, "C09-history-bgv.Encoder.Encode", d)
			hp := deepHash(pt)
			o1 := make([]uint64, len(v))
			_ = e.bgvE.Decode(pt, o1)
			d = ""
			if deepHash(pt) != hp {
				d = "plaintext-changed"
			}
			c.Probe("inputs_unchanged/bgv.Encoder.Decode", tag, "C09-inputs-bgv.Encoder.Decode", d)
			o2 := make([]uint64, len(v))
			for i := range o2 {
				o2[i] = 999
			}
			_ = ecd2.Decode(pt, o2)
			d = ""
			if deepHash(&o1) != deepHash(&o2) {
				d = "result-differs"
			}
			c.Probe("history_free/bgv.Encoder.Decode", tag, "C09-history-bgv.Encoder.Decode", d)
		}
	}
	// Encryptor / Decryptor with a rewound PRNG
	key := make([]byte, 64)
	for i := range key {
		key[i] = byte(i*7 + 1)
	}
	pt := e.encode(3, lvl-1, 1)
	for _, kind := range []string{"sk", "pk"} {
		var k rlwe.EncryptionKey = e.sk
		if kind == "pk" {
			k = e.kgen.GenPublicKeyNew(e.sk)
		}
		mk := func() *rlwe.Encryptor {
			p, _ := sampling.NewKeyedPRNG(key)
			return rlwe.NewTestEncryptorWithPRNG(e.rp, k, p)
		}
		hp, hk := deepHash(pt), deepHash(k)
		ct1 := e.newCt(1, lvl-1)
		err1 := mk().Encrypt(pt, ct1)
		d := ""
		if deepHash(pt) != hp {
			d += "plaintext-changed "
		}
		if deepHash(k) != hk {
			d += "key-changed"
		}
		c.Probe("inputs_unchanged/rlwe.Encryptor.Encrypt", sc+"/"+kind, "C09-inputs-rlwe.Encryptor.Encrypt", d)
		ct1b := e.newCt(1, lvl-1)
		_ = mk().Encrypt(pt, ct1b)
		if deepHash(ct1b) != deepHash(ct1) {
			c.Count("encryptor_not_deterministic_under_WithPRNG:" + kind)
		}
		g2 := e.garbageCt(1, lvl-1)
		g2.MetaData = e.newCt(1, lvl-1).MetaData
		err2 := mk().Encrypt(pt, g2)
		d = ""
		if (err1 == nil) != (err2 == nil) || (err1 == nil && deepHash(g2) != deepHash(ct1)) {
			d = "result-differs"
		}
		c.Probe("history_free/rlwe.Encryptor.Encrypt", sc+"/"+kind, "C09-history-rlwe.Encryptor.Encrypt", d)
		if err1 == nil {
			hc := deepHash(ct1)
			p1 := e.newPt(lvl - 1)
			e.dec.Decrypt(ct1, p1)
			d = ""
			if deepHash(ct1) != hc {
				d = "ciphertext-changed"
			}
			c.Probe("inputs_unchanged/rlwe.Decryptor.Decrypt", sc+"/"+kind, "C09-inputs-rlwe.Decryptor.Decrypt", d)
			p2 := e.newPt(lvl - 1)
			c09FillPoly(c, p2.Value)
			dec2 := rlwe.NewDecryptor(e.rp, e.sk)
			dec2.Decrypt(e.garbageCt(1, lvl), e.newPt(lvl)) // previous use at a higher level
			dec2.Decrypt(ct1, p2)
			d = ""
			if deepHash(&p1.Value) != deepHash(&p2.Value) {
				d = "result-differs"
			}
			c.Probe("history_free/rlwe.Decryptor.Decrypt", sc+"/"+kind, "C09-history-rlwe.Decryptor.Decrypt", d)
		}
	}
}

// ---- rgsw external product ----

func (e *c09Env) runRGSW() {
	c := e.c
	sc := fmt.Sprintf("%s/logN%d", e.scheme, e.logN)
	lvl := e.maxLevel()
	enc := rgsw.NewEncryptor(e.rp, e.sk)
	g := rgsw.NewCiphertext(*e.rp, lvl, e.rp.MaxLevelP(), 0)
	ptm := rlwe.NewPlaintext(e.rp, lvl)
	ptm.IsNTT = true
	for i := range ptm.Value.Coeffs {
		for j := range ptm.Value.Coeffs[i] {
			ptm.Value.Coeffs[i][j] = 1 // NTT of the constant 1
		}
	}
	if err := enc.Encrypt(ptm, g); err != nil {
		c.Count("rgsw_encrypt_err")
		return
	}
	A := e.encrypt(1, lvl, 1)
	mkEv := func() *rgsw.Evaluator { return rgsw.NewEvaluator(e.rp, e.evk) }
	a, out := A.CopyNew(), e.newCt(1, lvl)
	ha, hg := deepHash(a), deepHash(g)
	if err := c09Err(func() error { mkEv().ExternalProduct(a, g, out); return nil }); err != nil {
		c.Probe("no_panic/rgsw.Evaluator.ExternalProduct", sc, "C09-panic-rgsw.Evaluator.ExternalProduct", err.Error())
		return
	}
	*out.MetaData = *a.MetaData
	ref := e.fp(out)
	d := ""
	if deepHash(a) != ha {
		d += "op0-changed "
	}
	if deepHash(g) != hg {
		d += "rgsw-changed"
	}
	c.Probe("inputs_unchanged/rgsw.Evaluator.ExternalProduct", sc, "C09-inputs-rgsw.Evaluator.ExternalProduct", d)
	a2 := A.CopyNew()
	if err := c09Err(func() error { mkEv().ExternalProduct(a2, g, a2); return nil }); err == nil {
		d = ""
		if !e.fp(a2).same(ref) {
			d = "result-differs"
		}
		c.Probe("alias_insensitive/rgsw.Evaluator.ExternalProduct/out=op0", sc, "C09-alias-rgsw.Evaluator.ExternalProduct/out=op0", d)
	}
	ev := mkEv()
	ev.ExternalProduct(e.encrypt(9, lvl, 1), g, e.newCt(1, lvl))
	c09Poison(c, &c09Evals{rl: &ev.Evaluator})
	o3 := e.garbageCt(1, lvl)
	a3 := A.CopyNew()
	if err := c09Err(func() error { ev.ExternalProduct(a3, g, o3); return nil }); err == nil {
		*o3.MetaData = *a3.MetaData
		d = ""
		if !e.fp(o3).same(ref) {
			d = "result-differs"
		}
		c.Probe("history_free/rgsw.Evaluator.ExternalProduct", sc, "C09-history-rgsw.Evaluator.ExternalProduct", d)
	}
}

// ---- ring.Div* ----

func (e *c09Env) runRingDiv() {
	c := e.c
	r := e.rp.RingQ()
	sc := fmt.Sprintf("%s/logN%d", e.scheme, e.logN)
	type dv struct {
		name  string
		store string
		call  func(p0, buff, p1 ring.Poly)
	}
	ops := []dv{
		{"DivFloorByLastModulus", "", func(p0, buff, p1 ring.Poly) { r.DivFloorByLastModulus(p0, p1) }},
		{"DivFloorByLastModulusNTT", "", func(p0, buff, p1 ring.Poly) { r.DivFloorByLastModulusNTT(p0, buff, p1) }},
		{"DivFloorByLastModulusMany(1)", "", func(p0, buff, p1 ring.Poly) { r.DivFloorByLastModulusMany(1, p0, buff, p1) }},
		{"DivFloorByLastModulusMany(2)", "", func(p0, buff, p1 ring.Poly) { r.DivFloorByLastModulusMany(2, p0, buff, p1) }},
		{"DivFloorByLastModulusManyNTT(2)", "", func(p0, buff, p1 ring.Poly) { r.DivFloorByLastModulusManyNTT(2, p0, buff, p1) }},
		{"DivRoundByLastModulus", "divRound", func(p0, buff, p1 ring.Poly) { r.DivRoundByLastModulus(p0, p1) }},
		{"DivRoundByLastModulusNTT", "divRoundNTT", func(p0, buff, p1 ring.Poly) { r.DivRoundByLastModulusNTT(p0, buff, p1) }},
		{"DivRoundByLastModulusMany(1)", "", func(p0, buff, p1 ring.Poly) { r.DivRoundByLastModulusMany(1, p0, buff, p1) }},
		{"DivRoundByLastModulusMany(2)", "", func(p0, buff, p1 ring.Poly) { r.DivRoundByLastModulusMany(2, p0, buff, p1) }},
		{"DivRoundByLastModulusManyNTT(1)", "", func(p0, buff, p1 ring.Poly) { r.DivRoundByLastModulusManyNTT(1, p0, buff, p1) }},
		{"DivRoundByLastModulusManyNTT(2)", "", func(p0, buff, p1 ring.Poly) { r.DivRoundByLastModulusManyNTT(2, p0, buff, p1) }},
	}
	P := r.NewPoly()
	for i, s := range r.SubRings {
		for j := range P.Coeffs[i] {
			P.Coeffs[i][j] = c.rng.Below(s.Modulus)
		}
	}
	nres := func(name string) int {
		if containsStr(name, "(2)") {
			return r.Level() + 1 - 2
		}
		return r.Level() + 1 - 1
	}
	for _, op := range ops {
		name := "ring.Ring." + op.name
		k := nres(op.name)
		p0, buff, p1 := *P.CopyNew(), r.NewPoly(), r.NewPoly()
		h0 := deepHash(&p0)
		if err := c09Err(func() error { op.call(p0, buff, p1); return nil }); err != nil {
			c.Probe("no_panic/"+name, sc, "C09-panic-"+name, err.Error())
			continue
		}
		ref := deepHash(p1.Coeffs[:k])
		d := ""
		if deepHash(&p0) != h0 {
			d = "p0-changed"
		}
		c.Probe("inputs_unchanged/"+name, sc, "C09-inputs-"+name, d)
		if op.store != "" {
			c.Emit("inputs "+op.store+" 4 4", c09Class(d == ""))
		}
		q0, b2 := *P.CopyNew(), r.NewPoly()
		if err := c09Err(func() error { op.call(q0, b2, q0); return nil }); err == nil {
			d = ""
			if deepHash(q0.Coeffs[:k]) != ref {
				d = "result-differs"
			}
			c.Probe("alias_insensitive/"+name+"/out=op0", sc, "C09-alias-"+name+"/out=op0", d)
			if op.store != "" {
				c.Emit("alias "+op.store+" out=op0 4 4", c09Class(d == ""))
			}
		}
		r0, b3, r1 := *P.CopyNew(), r.NewPoly(), r.NewPoly()
		c09FillPoly(c, b3)
		c09FillPoly(c, r1)
		if err := c09Err(func() error { op.call(r0, b3, r1); return nil }); err == nil {
			d = ""
			if deepHash(r1.Coeffs[:k]) != ref {
				d = "result-differs"
			}
			c.Probe("history_free/"+name, sc, "C09-history-"+name, d)
		}
	}
}

func genC09(c *Ctx) {
	logNs := []int{5}
	if c.Thorough() {
		logNs = []int{4, 5, 6}
	}
	for _, scheme := range []string{"bgv", "bfv", "ckks"} {
		for _, logN := range logNs {
			for _, nP := range []int{1, 2} {
				if nP == 2 && logN != 5 {
					continue
				}
				e := newC09Env(c, scheme, logN, nP)
				ops := e.catalogue()
				L := e.maxLevel()
				type cfg struct {
					rel    string
					l0, l1 int
				}
				// scale ratios 1, 2, 3, 2^k in both directions
				cfgs := []cfg{{"eq", L, L}, {"gt3", L, L}, {"lt3", L, L}, {"gt2", L, L}, {"lt2", L, L}, {"lt8", L, L}, {"eq", L, L - 1}, {"eq", L - 1, L}}
				if c.Thorough() {
					cfgs = append(cfgs, cfg{"gt8", L, L}, cfg{"gt1024", L, L}, cfg{"lt1024", L, L}, cfg{"gt3", L - 1, L}, cfg{"lt3", L, L - 1},
						cfg{"eq", L - 1, L - 1}, cfg{"gt2", 1, 1}, cfg{"lt2", 1, 2})
				}
				if nP == 2 { // the second environment only has to reach the ≥ 2 auxiliary primes code paths
					cfgs = []cfg{{"eq", L, L}, {"lt3", L, L - 1}}
				}
				for _, op := range ops {
					for _, g := range cfgs {
						if dir, _ := c09Rel(g.rel); !op.binary && dir == "lt" && op.kind != "pt" {
							continue // op1's scale only exists for ct/pt second operands ("gt" = op0 at 3× the default scale)
						}
						e.runOp(op, g.rel, g.l0, g.l1)
					}
				}
				for _, op := range ops {
					for _, rel := range []string{"eq", "lt3"} {
						if rel != "eq" && (scheme != "ckks" || nP == 2) {
							continue
						}
						e.runNaming(op, rel)
					}
				}
				if nP == 1 {
					for _, dm := range []string{"a<b", "a>b"} {
						e.dims = dm
						for _, op := range ops {
							if op.kind == "ct" || op.kind == "pt" {
								e.runOp(op, "eq", L, L)
							}
						}
					}
					e.dims = ""
				}
				e.runNewForms()
				e.runSequences()
				if nP == 1 {
					e.runCodec()
					e.runRingDiv()
				}
				e.runRGSW()
			}
		}
	}
	c09Degrees(c)
	c09Inputs(c)
	c09PolyVectors(c)
	c09Scalars(c)
	c09Bignum(c)
	c09TracePairs(c)
	c09ProtocolAliases(c)
	c09RGSW(c)
	c09Circuits(c)
	c09LinTrans(c)
	c09Protocols(c)
}
