package main

// C03 — round trips through DERIVED objects.
//
// Every way of deriving a Decryptor / Encryptor from another one (WithKey, ShallowCopy, their compositions, WithPRNG,
// the encryptor embedded in a KeyGenerator) must yield an object that works under ITS key — decrypts / encrypts exactly
// within the noise bound under the key it was given and lands at distance ~Q under the other key — and must leave the
// object it was derived from unchanged.  Finding keys: `C03/<Type>.<form>/uses-wrong-key`, `…/mutates-original`.

import (
	"fmt"
	"math"
	"math/big"

	"github.com/tuneinsight/lattigo/v6/core/rlwe"
	"github.com/tuneinsight/lattigo/v6/ring"
	"github.com/tuneinsight/lattigo/v6/utils/sampling"
)

// c03RoundTrip encrypts a random plaintext with enc, decrypts with dec and returns ‖dec − pt‖∞ (denoted values).
func c03RoundTrip(c *Ctx, s *c03Set, enc *rlwe.Encryptor, dec *rlwe.Decryptor) (*big.Int, error) {
	params := s.params
	pt := rlwe.NewPlaintext(params, s.maxL)
	*pt.MetaData = *c03RandMeta(c, s)
	pt.IsMontgomery = false
	c03RandPoly(c, s, pt.Value, 0)
	ct, err := enc.EncryptNew(pt)
	if err != nil {
		return nil, err
	}
	out := dec.DecryptNew(ct)
	rg := params.RingQ()
	qs := params.Q()
	return c03Inf(c03Centered(qs, c03SubRows(qs, Canon(rg, out.Value, out.IsNTT, false), Canon(rg, pt.Value, pt.IsNTT, false)))), nil
}

func c03XsDegenerate(s *c03Set) bool {
	if t, ok := s.params.Xs().(ring.Ternary); ok && t.H == 0 {
		return math.Pow(1-t.P, float64(s.N)) > math.Exp2(-30)
	}
	return false
}

func c03DerivedObjects(c *Ctx, s *c03Set) {
	params := s.params
	if s.sk.Equal(s.sk2) {
		c.Count("derived:skipped(independent key equals the key)")
		return
	}
	Q := c03ProdQ(params.Q())
	far := new(big.Int).Rsh(Q, 3)
	boundSk := c03BigBound(c03Bound(s, "sk"))
	boundPk := c03BigBound(c03Bound(s, "pk"))
	if new(big.Int).Lsh(boundPk, 3).Cmp(Q) >= 0 {
		c.Count("derived:skipped(noise bound not below Q/8)")
		return
	}
	kgen := rlwe.NewKeyGenerator(params)
	_ = kgen.GenPublicKeyNew(s.sk) // the generator has already served another key
	pk2 := kgen.GenPublicKeyNew(s.sk2)
	skipFarPk := c03XsDegenerate(s)

	type keyT struct {
		name string
		sk   *rlwe.SecretKey
	}
	k1, k2 := keyT{"sk", s.sk}, keyT{"sk2", s.sk2}
	other := func(k keyT) keyT {
		if k.name == "sk" {
			return k2
		}
		return k1
	}
	// reference objects, built directly
	refDec := map[string]*rlwe.Decryptor{"sk": rlwe.NewDecryptor(params, s.sk), "sk2": rlwe.NewDecryptor(params, s.sk2)}
	refEnc := map[string]*rlwe.Encryptor{"sk": rlwe.NewEncryptor(params, s.sk), "sk2": rlwe.NewEncryptor(params, s.sk2)}

	// check: object pair (enc, dec) that should share key `same` is near, the pair with the other key is far
	verdict := func(enc *rlwe.Encryptor, dec *rlwe.Decryptor, wantNear bool, bound *big.Int, skipFar bool) string {
		return Try(func() string {
			d, err := c03RoundTrip(c, s, enc, dec)
			if err != nil {
				return "encryption failed: error returned"
			}
			if wantNear && d.Cmp(bound) > 0 {
				return fmt.Sprintf("round trip under the object's own key: error of %d bits (bound %s, Q %d bits)", d.BitLen(), bound.String(), Q.BitLen())
			}
			if !wantNear && !skipFar && d.Cmp(far) < 0 {
				return fmt.Sprintf("round trip under the OTHER key succeeds: error %s < Q/8", d.String())
			}
			return ""
		})
	}
	emit := func(typ, form, what, detail string) {
		if detail == "panic" {
			detail = "the call panicked"
		}
		c.Probe("derived_object_roundtrip", fmt.Sprintf("%s type=%s form=%s check=%s seed=%d", s.hdr, typ, form, what, c.Seed),
			"C03/"+typ+"."+form+"/"+what, detail)
	}

	// ---- decryptors
	type decForm struct {
		form string
		mk   func(d *rlwe.Decryptor) *rlwe.Decryptor
		key  keyT
	}
	for _, f := range []decForm{
		{"WithKey(sk2)", func(d *rlwe.Decryptor) *rlwe.Decryptor { return d.WithKey(s.sk2) }, k2},
		{"ShallowCopy", func(d *rlwe.Decryptor) *rlwe.Decryptor { return d.ShallowCopy() }, k1},
		{"ShallowCopy.WithKey(sk2)", func(d *rlwe.Decryptor) *rlwe.Decryptor { return d.ShallowCopy().WithKey(s.sk2) }, k2},
		{"WithKey(sk2).ShallowCopy", func(d *rlwe.Decryptor) *rlwe.Decryptor { return d.WithKey(s.sk2).ShallowCopy() }, k2},
		{"WithKey(sk2).WithKey(sk)", func(d *rlwe.Decryptor) *rlwe.Decryptor { return d.WithKey(s.sk2).WithKey(s.sk) }, k1},
	} {
		base := rlwe.NewDecryptor(params, s.sk)
		var der *rlwe.Decryptor
		if Try(func() string { der = f.mk(base); return "" }) == "panic" || der == nil {
			emit("Decryptor", f.form, "uses-wrong-key", "deriving the object panicked")
			continue
		}
		d1 := verdict(refEnc[f.key.name], der, true, boundSk, false)
		if d1 == "" {
			d1 = verdict(refEnc[other(f.key).name], der, false, boundSk, false)
		}
		emit("Decryptor", f.form, "uses-wrong-key", d1)
		d2 := verdict(refEnc["sk"], base, true, boundSk, false)
		if d2 == "" {
			d2 = verdict(refEnc["sk2"], base, false, boundSk, false)
		}
		emit("Decryptor", f.form, "mutates-original", d2)
	}

	// ---- encryptors (and the encryptor embedded in a key generator)
	type encForm struct {
		form  string
		base  func() *rlwe.Encryptor
		mk    func(e *rlwe.Encryptor) *rlwe.Encryptor
		key   keyT
		pk    bool // the derived object encrypts under a public key
		baseK string
	}
	seed := c.rng.Bytes(32)
	prng := func() sampling.PRNG { p, _ := sampling.NewKeyedPRNG(seed); return p }
	fromSk := func() *rlwe.Encryptor { return rlwe.NewEncryptor(params, s.sk) }
	fromPk := func() *rlwe.Encryptor { return rlwe.NewEncryptor(params, s.pk) }
	for _, f := range []encForm{
		{"WithKey(sk2)", fromSk, func(e *rlwe.Encryptor) *rlwe.Encryptor { return e.WithKey(s.sk2) }, k2, false, "sk"},
		{"WithKey(pk)", fromSk, func(e *rlwe.Encryptor) *rlwe.Encryptor { return e.WithKey(s.pk) }, k1, true, "sk"},
		{"WithKey(pk2)", fromSk, func(e *rlwe.Encryptor) *rlwe.Encryptor { return e.WithKey(pk2) }, k2, true, "sk"},
		{"WithKey(nil)", fromSk, func(e *rlwe.Encryptor) *rlwe.Encryptor { return e.WithKey(nil) }, k1, false, "sk"},
		{"ShallowCopy", fromSk, func(e *rlwe.Encryptor) *rlwe.Encryptor { return e.ShallowCopy() }, k1, false, "sk"},
		{"ShallowCopy.WithKey(sk2)", fromSk, func(e *rlwe.Encryptor) *rlwe.Encryptor { return e.ShallowCopy().WithKey(s.sk2) }, k2, false, "sk"},
		{"ShallowCopy.WithKey(pk2)", fromSk, func(e *rlwe.Encryptor) *rlwe.Encryptor { return e.ShallowCopy().WithKey(pk2) }, k2, true, "sk"},
		{"WithKey(sk2).ShallowCopy", fromSk, func(e *rlwe.Encryptor) *rlwe.Encryptor { return e.WithKey(s.sk2).ShallowCopy() }, k2, false, "sk"},
		{"WithKey(pk2).ShallowCopy", fromSk, func(e *rlwe.Encryptor) *rlwe.Encryptor { return e.WithKey(pk2).ShallowCopy() }, k2, true, "sk"},
		{"WithPRNG", fromSk, func(e *rlwe.Encryptor) *rlwe.Encryptor { return e.WithPRNG(prng()) }, k1, false, "sk"},
		{"WithPRNG.WithKey(sk2)", fromSk, func(e *rlwe.Encryptor) *rlwe.Encryptor { return e.WithPRNG(prng()).WithKey(s.sk2) }, k2, false, "sk"},
		{"WithKey(sk2).WithPRNG", fromSk, func(e *rlwe.Encryptor) *rlwe.Encryptor { return e.WithKey(s.sk2).WithPRNG(prng()) }, k2, false, "sk"},
		{"pk.WithKey(sk2)", fromPk, func(e *rlwe.Encryptor) *rlwe.Encryptor { return e.WithKey(s.sk2) }, k2, false, "pk"},
		{"pk.WithKey(pk2)", fromPk, func(e *rlwe.Encryptor) *rlwe.Encryptor { return e.WithKey(pk2) }, k2, true, "pk"},
		{"pk.ShallowCopy", fromPk, func(e *rlwe.Encryptor) *rlwe.Encryptor { return e.ShallowCopy() }, k1, true, "pk"},
		{"KeyGenerator.WithKey(sk2)", func() *rlwe.Encryptor { return rlwe.NewKeyGenerator(params).Encryptor },
			func(e *rlwe.Encryptor) *rlwe.Encryptor { return e.WithKey(s.sk2) }, k2, false, "none"},
		{"KeyGenerator.ShallowCopy.WithKey(pk2)", func() *rlwe.Encryptor { return rlwe.NewKeyGenerator(params).Encryptor },
			func(e *rlwe.Encryptor) *rlwe.Encryptor { return e.ShallowCopy().WithKey(pk2) }, k2, true, "none"},
	} {
		base := f.base()
		var der *rlwe.Encryptor
		if Try(func() string { der = f.mk(base); return "" }) == "panic" || der == nil {
			emit("Encryptor", f.form, "uses-wrong-key", "deriving the object panicked")
			continue
		}
		bound, skipFar := boundSk, false
		if f.pk {
			bound, skipFar = boundPk, skipFarPk
		}
		d1 := verdict(der, refDec[f.key.name], true, bound, skipFar)
		if d1 == "" {
			d1 = verdict(der, refDec[other(f.key).name], false, bound, skipFar)
		}
		emit("Encryptor", f.form, "uses-wrong-key", d1)
		// the original still works under its own key (a key-less base must still answer with an error)
		d2 := ""
		switch f.baseK {
		case "sk":
			d2 = verdict(base, refDec["sk"], true, boundSk, false)
			if d2 == "" {
				d2 = verdict(base, refDec["sk2"], false, boundSk, false)
			}
		case "pk":
			d2 = verdict(base, refDec["sk"], true, boundPk, skipFarPk)
			if d2 == "" {
				d2 = verdict(base, refDec["sk2"], false, boundPk, skipFarPk)
			}
		default:
			if _, err := base.EncryptNew(rlwe.NewPlaintext(params, s.maxL)); err == nil {
				d2 = "the key-less original encrypts after a key was given to a derived object"
			}
		}
		emit("Encryptor", f.form, "mutates-original", d2)
	}
}
