package main

// C09 — out-of-place linear transformations (naive and BSGS, bgv and ckks) and polynomial evaluation:
// the input ciphertext / power basis is bit-identical afterwards, and evaluating twice on the same input
// (same evaluator) gives identical results.

import (
	"fmt"
	"sort"

	bgvlt "github.com/tuneinsight/lattigo/v6/circuits/bgv/lintrans"
	bgvpoly "github.com/tuneinsight/lattigo/v6/circuits/bgv/polynomial"
	ckkslt "github.com/tuneinsight/lattigo/v6/circuits/ckks/lintrans"
	ckkspoly "github.com/tuneinsight/lattigo/v6/circuits/ckks/polynomial"
	"github.com/tuneinsight/lattigo/v6/circuits/common/lintrans"
	"github.com/tuneinsight/lattigo/v6/circuits/common/polynomial"
	"github.com/tuneinsight/lattigo/v6/core/rlwe"
	"github.com/tuneinsight/lattigo/v6/ring"
	"github.com/tuneinsight/lattigo/v6/schemes"
	"github.com/tuneinsight/lattigo/v6/schemes/bgv"
	"github.com/tuneinsight/lattigo/v6/schemes/ckks"
	"github.com/tuneinsight/lattigo/v6/utils/bignum"
)

type c09LT struct {
	name        string
	evalNew     func(ct *rlwe.Ciphertext, lt lintrans.LinearTransformation) (*rlwe.Ciphertext, error)
	eval        func(ct *rlwe.Ciphertext, lt lintrans.LinearTransformation, out *rlwe.Ciphertext) error
	evalManyNew func(ct *rlwe.Ciphertext, lts []lintrans.LinearTransformation) ([]*rlwe.Ciphertext, error)
	evalSeqNew  func(ct *rlwe.Ciphertext, lts []lintrans.LinearTransformation) (*rlwe.Ciphertext, error)
}

func c09LinTrans(c *Ctx) {
	logN := 5
	for _, scheme := range []string{"bgv", "ckks"} {
		for _, nP := range []int{1, 2} {
			for _, ratio := range []int{-1, 0, 1} {
				mode := "naive"
				if ratio >= 0 {
					mode = fmt.Sprintf("bsgs%d", ratio)
				}
				sc := fmt.Sprintf("%s/logN%d/P%d/%s", scheme, logN, nP, mode)
				res := Try(func() string { c09LinTransOne(c, scheme, logN, nP, ratio, sc); return "ok" })
				if res != "ok" {
					c.Probe("no_panic/lintrans", sc, "C09-panic-lintrans", "panic")
				}
			}
		}
	}
}

func c09LinTransOne(c *Ctx, scheme string, logN, nP, ratio int, sc string) {
	var pp rlwe.ParameterProvider
	var enc schemes.Encoder
	var A *rlwe.Ciphertext
	var mkAPI func(evk rlwe.EvaluationKeySet) c09LT
	var lts, ltsSeq []lintrans.LinearTransformation
	diagIdx := []int{0, 1, 2, 3, 5, 6, 9}
	logP := []int{50, 50}[:nP]
	var sk *rlwe.SecretKey
	if scheme == "bgv" {
		p, err := bgv.NewParametersFromLiteral(bgv.ParametersLiteral{LogN: logN, LogQ: []int{45, 40, 40, 40}, LogP: logP, PlaintextModulus: 65537})
		if err != nil {
			panic(err)
		}
		pp = p
		ecd := bgv.NewEncoder(p)
		enc = ecd
		sk = rlwe.NewKeyGenerator(p).GenSecretKeyNew()
		for m := 0; m < 2; m++ {
			diags := lintrans.Diagonals[uint64]{}
			for _, k := range diagIdx {
				d := make([]uint64, p.MaxSlots())
				for i := range d {
					d[i] = uint64((i*3+k+1+5*m)%17) + 1
				}
				diags[k] = d
			}
			lt := lintrans.NewLinearTransformation(p, lintrans.Parameters{DiagonalsIndexList: diagIdx, LevelQ: p.MaxLevel(), LevelP: p.MaxLevelP(),
				Scale: p.DefaultScale(), LogDimensions: ring.Dimensions{Rows: 1, Cols: p.LogMaxSlots() - 1}, LogBabyStepGiantStepRatio: ratio})
			if err := lintrans.Encode(ecd, diags, lt); err != nil {
				c.Count("lintrans_encode_err")
				return
			}
			lts = append(lts, lt)
		}
		pt := bgv.NewPlaintext(p, p.MaxLevel())
		v := make([]uint64, p.MaxSlots())
		for i := range v {
			v[i] = uint64(i + 1)
		}
		_ = ecd.Encode(v, pt)
		A, _ = rlwe.NewEncryptor(p, sk).EncryptNew(pt)
		mkAPI = func(evk rlwe.EvaluationKeySet) c09LT {
			ev := bgvlt.NewEvaluator(bgv.NewEvaluator(p, evk))
			conv := func(l []lintrans.LinearTransformation) (o []bgvlt.LinearTransformation) {
				for _, x := range l {
					o = append(o, bgvlt.LinearTransformation(x))
				}
				return
			}
			return c09LT{"bgv/lintrans.Evaluator",
				func(ct *rlwe.Ciphertext, lt lintrans.LinearTransformation) (*rlwe.Ciphertext, error) {
					return ev.EvaluateNew(ct, bgvlt.LinearTransformation(lt))
				},
				func(ct *rlwe.Ciphertext, lt lintrans.LinearTransformation, out *rlwe.Ciphertext) error {
					return ev.Evaluate(ct, bgvlt.LinearTransformation(lt), out)
				},
				func(ct *rlwe.Ciphertext, l []lintrans.LinearTransformation) ([]*rlwe.Ciphertext, error) {
					return ev.EvaluateManyNew(ct, conv(l))
				},
				func(ct *rlwe.Ciphertext, l []lintrans.LinearTransformation) (*rlwe.Ciphertext, error) {
					return ev.EvaluateSequentialNew(ct, conv(l))
				}}
		}
	} else {
		p, err := ckks.NewParametersFromLiteral(ckks.ParametersLiteral{LogN: logN, LogQ: []int{55, 40, 40, 40}, LogP: append([]int{55}, logP[1:]...), LogDefaultScale: 40})
		if err != nil {
			panic(err)
		}
		pp = p
		ecd := ckks.NewEncoder(p)
		enc = ecd
		sk = rlwe.NewKeyGenerator(p).GenSecretKeyNew()
		for m := 0; m < 3; m++ {
			diags := lintrans.Diagonals[float64]{}
			for _, k := range diagIdx {
				d := make([]float64, p.MaxSlots())
				for i := range d {
					d[i] = float64((i*3+k+1+5*m)%17) / 16
				}
				diags[k] = d
			}
			lt := lintrans.NewLinearTransformation(p, lintrans.Parameters{DiagonalsIndexList: diagIdx, LevelQ: p.MaxLevel() - m/2, LevelP: p.MaxLevelP(),
				Scale: rlwe.NewScale(p.Q()[p.MaxLevel()-m/2]), LogDimensions: ring.Dimensions{Rows: 0, Cols: p.LogMaxSlots()}, LogBabyStepGiantStepRatio: ratio})
			if err := lintrans.Encode(ecd, diags, lt); err != nil {
				c.Count("lintrans_encode_err")
				return
			}
			lts = append(lts, lt)
		}
		pt := ckks.NewPlaintext(p, p.MaxLevel())
		v := make([]float64, p.MaxSlots())
		for i := range v {
			v[i] = float64(i+1) / 32
		}
		_ = ecd.Encode(v, pt)
		A, _ = rlwe.NewEncryptor(p, sk).EncryptNew(pt)
		mkAPI = func(evk rlwe.EvaluationKeySet) c09LT {
			ev := ckkslt.NewEvaluator(ckks.NewEvaluator(p, evk))
			conv := func(l []lintrans.LinearTransformation) (o []ckkslt.LinearTransformation) {
				for _, x := range l {
					o = append(o, ckkslt.LinearTransformation(x))
				}
				return
			}
			return c09LT{"ckks/lintrans.Evaluator",
				func(ct *rlwe.Ciphertext, lt lintrans.LinearTransformation) (*rlwe.Ciphertext, error) {
					return ev.EvaluateNew(ct, ckkslt.LinearTransformation(lt))
				},
				func(ct *rlwe.Ciphertext, lt lintrans.LinearTransformation, out *rlwe.Ciphertext) error {
					return ev.Evaluate(ct, ckkslt.LinearTransformation(lt), out)
				},
				func(ct *rlwe.Ciphertext, l []lintrans.LinearTransformation) ([]*rlwe.Ciphertext, error) {
					return ev.EvaluateManyNew(ct, conv(l))
				},
				func(ct *rlwe.Ciphertext, l []lintrans.LinearTransformation) (*rlwe.Ciphertext, error) {
					return ev.EvaluateSequentialNew(ct, conv(l))
				}}
		}
	}
	_ = enc
	if len(lts) == 3 { // ckks: the second matrix of the sequence lives one level below
		ltsSeq = []lintrans.LinearTransformation{lts[0], lts[2]}
		lts = lts[:2]
	} else {
		ltsSeq = lts
	}
	rp := pp.GetRLWEParameters()
	kgen := rlwe.NewKeyGenerator(pp)
	var gals []uint64
	seen := map[uint64]bool{}
	for _, lt := range append(append([]lintrans.LinearTransformation{}, lts...), ltsSeq...) {
		for _, g := range lt.GaloisElements(pp) {
			if !seen[g] {
				seen[g] = true
				gals = append(gals, g)
			}
		}
	}
	evk := rlwe.NewMemEvaluationKeySet(kgen.GenRelinearizationKeyNew(sk), kgen.GenGaloisKeysNew(gals, sk)...)
	hA := deepHash(A)
	hL := deepHash(&lts)
	probeIn := func(what string, api c09LT) {
		d := ""
		if deepHash(A) != hA {
			d += "input-ciphertext-changed "
			A2 := A // keep going with the changed input: later probes show the consequence
			_ = A2
		}
		if deepHash(&lts) != hL {
			d += "matrix-changed"
		}
		c.Probe("inputs_unchanged/"+api.name+"."+what, sc, "C09-inputs-"+api.name+"."+what, d)
	}
	same := func(what string, api c09LT, a, b interface{}) {
		d := ""
		if deepHash(a) != deepHash(b) {
			d = "second-evaluation-differs"
		}
		c.Probe("repeat_call/"+api.name+"."+what, sc, "C09-repeat-"+api.name+"."+what, d)
	}
	api := mkAPI(evk)
	// reference results on private copies of the input, fresh evaluators
	ref0, err0 := mkAPI(evk).evalNew(A.CopyNew(), lts[0])
	ref1, err1 := mkAPI(evk).evalNew(A.CopyNew(), lts[1])
	if err0 != nil || err1 != nil {
		c.Count("lintrans_rejected:" + sc)
		return
	}
	_ = rp
	// EvaluateNew twice on the same input
	o1, e1 := api.evalNew(A, lts[0])
	probeIn("EvaluateNew", api)
	o2, e2 := api.evalNew(A, lts[0])
	if e1 == nil && e2 == nil {
		same("EvaluateNew", api, o1, o2)
		same("EvaluateNew[vs-fresh-evaluator]", api, o1, ref0)
	}
	// Evaluate into a distinct receiver
	out := rlwe.NewCiphertext(pp, 1, A.Level())
	if err := api.eval(A, lts[0], out); err == nil {
		probeIn("Evaluate", api)
		same("Evaluate", api, out, ref0)
	}
	// EvaluateManyNew: the second matrix sees the same input as the first
	if many, err := api.evalManyNew(A, lts); err == nil {
		probeIn("EvaluateManyNew", api)
		same("EvaluateManyNew[0]", api, many[0], ref0)
		same("EvaluateManyNew[1]", api, many[1], ref1)
	}
	// EvaluateSequentialNew twice
	s1, e1 := api.evalSeqNew(A, ltsSeq)
	probeIn("EvaluateSequentialNew", api)
	s2, e2 := api.evalSeqNew(A, ltsSeq)
	if e1 == nil && e2 == nil {
		same("EvaluateSequentialNew", api, s1, s2)
	} else {
		c.Count("lintrans_sequential_rejected:" + sc)
	}
	if ratio != 0 {
		return
	}
	// polynomial evaluators (once per scheme/P)
	if scheme == "bgv" {
		p := pp.(bgv.Parameters)
		in := bgv.NewEvaluator(p, evk)
		pe := bgvpoly.NewEvaluator(p, in)
		poly := bgvpoly.NewPolynomial([]uint64{1, 2, 0, 3, 1, 0, 2})
		c09PolyProbes(c, sc, "bgv/polynomial.Evaluator", A, in, p.DefaultScale(),
			func(ct *rlwe.Ciphertext) (*rlwe.Ciphertext, error) { return pe.Evaluate(ct, poly, p.DefaultScale()) },
			func(pb polynomial.PowerBasis) (*rlwe.Ciphertext, error) {
				return pe.EvaluateFromPowerBasis(pb, poly, p.DefaultScale())
			})
	} else {
		p := pp.(ckks.Parameters)
		in := ckks.NewEvaluator(p, evk)
		pe := ckkspoly.NewEvaluator(p, in)
		poly := ckkspoly.NewPolynomial(bignum.NewPolynomial(bignum.Monomial, []float64{0.5, 0.25, 0, 0.125, 0.0625}, nil))
		c09PolyProbes(c, sc, "ckks/polynomial.Evaluator", A, in, p.DefaultScale(),
			func(ct *rlwe.Ciphertext) (*rlwe.Ciphertext, error) { return pe.Evaluate(ct, poly, p.DefaultScale()) },
			func(pb polynomial.PowerBasis) (*rlwe.Ciphertext, error) {
				return pe.EvaluateFromPowerBasis(pb, poly, p.DefaultScale())
			})
	}
}

func c09PolyProbes(c *Ctx, sc, name string, A *rlwe.Ciphertext, ev schemes.Evaluator, scale rlwe.Scale,
	evalCt func(ct *rlwe.Ciphertext) (*rlwe.Ciphertext, error), evalPB func(pb polynomial.PowerBasis) (*rlwe.Ciphertext, error)) {
	hA := deepHash(A)
	var o1, o2 *rlwe.Ciphertext
	e1 := c09Err(func() (err error) { o1, err = evalCt(A); return })
	d := ""
	if deepHash(A) != hA {
		d = "input-ciphertext-changed"
	}
	c.Probe("inputs_unchanged/"+name+".Evaluate", sc, "C09-inputs-"+name+".Evaluate", d)
	e2 := c09Err(func() (err error) { o2, err = evalCt(A); return })
	if e1 == nil && e2 == nil {
		d = ""
		if deepHash(o1) != deepHash(o2) {
			d = "second-evaluation-differs"
		}
		c.Probe("repeat_call/"+name+".Evaluate", sc, "C09-repeat-"+name+".Evaluate", d)
	} else {
		c.Count("polynomial_rejected:" + name)
	}
	// power basis with all the powers present
	pb := polynomial.NewPowerBasis(A.CopyNew(), bignum.Monomial)
	for n := 2; n <= 8; n++ {
		if err := c09Err(func() error { return pb.GenPower(n, false, ev) }); err != nil {
			c.Count("powerbasis_rejected:" + name)
			return
		}
	}
	snap := func() string {
		var ks []int
		for k := range pb.Value {
			ks = append(ks, k)
		}
		sort.Ints(ks)
		s := ""
		for _, k := range ks {
			if k <= 8 {
				s += fmt.Sprintf("%d:%s,", k, deepHash(pb.Value[k]))
			}
		}
		return s
	}
	hp := snap()
	var p1, p2 *rlwe.Ciphertext
	e1 = c09Err(func() (err error) { p1, err = evalPB(pb); return })
	d = ""
	if snap() != hp {
		d = "power-basis-changed"
	}
	c.Probe("inputs_unchanged/"+name+".EvaluateFromPowerBasis", sc, "C09-inputs-"+name+".EvaluateFromPowerBasis", d)
	e2 = c09Err(func() (err error) { p2, err = evalPB(pb); return })
	if e1 == nil && e2 == nil {
		d = ""
		if deepHash(p1) != deepHash(p2) {
			d = "second-evaluation-differs"
		}
		c.Probe("repeat_call/"+name+".EvaluateFromPowerBasis", sc, "C09-repeat-"+name+".EvaluateFromPowerBasis", d)
	} else {
		c.Count("polynomial_pb_rejected:" + name)
	}
}
