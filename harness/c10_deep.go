package main

// C10, remaining deep copies (CopyNew of the building blocks the key / ciphertext copies are made of):
// ring.Poly, ringqp.Poly, rlwe.VectorQP, rlwe.GadgetCiphertext, rlwe.MetaData, structs.Vector / Matrix / Map.
//
//   table <Type>.CopyNew                 (struct types only: the reflection walk classifies struct fields)
//   deep_copy_disjoint/<Type>.CopyNew    same content, no address of the copy reachable from the original
//   copy_independent/<Type>.CopyNew      overwrite everything reachable from the copy: the original keeps its content

import (
	"fmt"
	"reflect"

	"github.com/tuneinsight/lattigo/v6/core/rlwe"
	"github.com/tuneinsight/lattigo/v6/ring"
	"github.com/tuneinsight/lattigo/v6/ring/ringqp"
	"github.com/tuneinsight/lattigo/v6/schemes/bgv"
	"github.com/tuneinsight/lattigo/v6/utils/structs"
)

func c10DeepOne(c *Ctx, name string, mk func() (orig, cp interface{}), mutate ...func(cp interface{})) {
	res := Try(func() string {
		o, x := mk()
		v := reflect.ValueOf(o)
		for v.Kind() == reflect.Ptr {
			v = v.Elem()
		}
		if v.Kind() == reflect.Struct {
			c10Tie(c, name, o, x)
		} else {
			c.Count("type:" + name)
		}
		d := ""
		if deepHash(o) != deepHash(x) {
			d = "content-differs "
		}
		f1, f2 := c10Footprint(o), c10Footprint(x)
		n := 0
		for a := range f2 {
			if f1[a] {
				n++
			}
		}
		if n > 0 {
			d += fmt.Sprintf("%d-shared-addresses", n)
		}
		if len(f1) == 0 || len(f2) != len(f1) {
			d += fmt.Sprintf("footprints(%d/%d)", len(f1), len(f2))
		}
		c.Probe("deep_copy_disjoint/"+name, "-", "C10-disjoint-"+name, d)
		h := deepHash(o)
		c10Scribble(x)
		for _, m := range mutate {
			m(x)
		}
		d = ""
		if deepHash(o) != h {
			d = "original-changed"
		}
		if deepHash(x) == h {
			d += "scribble-had-no-effect"
		}
		c.Probe("copy_independent/"+name, "-", "C10-independent-"+name, d)
		return "ok"
	})
	if res != "ok" {
		c.Probe("no_panic/"+name, "-", "C10-panic-"+name, "panic")
	}
}

func c10Deep(c *Ctx) {
	bp, err := bgv.NewParametersFromLiteral(bgv.ParametersLiteral{LogN: 5, LogQ: []int{45, 40, 40}, LogP: []int{50}, PlaintextModulus: 65537})
	must(err)
	rp := bp.GetRLWEParameters()
	rQ, rP := rp.RingQ(), rp.RingP()
	kgen := rlwe.NewKeyGenerator(bp)
	sk := kgen.GenSecretKeyNew()

	c10DeepOne(c, "ring.Poly.CopyNew", func() (interface{}, interface{}) {
		o := c10RandPoly(c, rQ)
		return &o, o.CopyNew()
	})
	c10DeepOne(c, "ringqp.Poly.CopyNew", func() (interface{}, interface{}) {
		o := ringqp.Poly{Q: c10RandPoly(c, rQ), P: c10RandPoly(c, rP)}
		return &o, o.CopyNew()
	})
	c10DeepOne(c, "rlwe.VectorQP.CopyNew", func() (interface{}, interface{}) {
		o := rlwe.NewVectorQP(bp, 3, rp.MaxLevelQ(), rp.MaxLevelP())
		for i := range o {
			o[i].Q.Copy(c10RandPoly(c, rQ))
			o[i].P.Copy(c10RandPoly(c, rP))
		}
		return &o, o.CopyNew()
	})
	c10DeepOne(c, "rlwe.GadgetCiphertext.CopyNew", func() (interface{}, interface{}) {
		two := 12
		evk := kgen.GenEvaluationKeyNew(sk, kgen.GenSecretKeyNew(), rlwe.EvaluationKeyParameters{BaseTwoDecomposition: &two})
		o := &evk.GadgetCiphertext
		return o, o.CopyNew()
	})
	c10DeepOne(c, "rlwe.MetaData.CopyNew", func() (interface{}, interface{}) {
		ct := bgv.NewCiphertext(bp, 1, 1)
		ct.Scale = bp.NewScale(12345)
		ct.IsNTT, ct.IsMontgomery, ct.IsBatched = true, true, true
		o := ct.MetaData
		return o, o.CopyNew()
	}, func(x interface{}) { // the big numbers of the scale (not word slices the scribbler knows)
		m := x.(*rlwe.MetaData)
		m.Scale.Value.SetInt64(777)
		if m.Scale.Mod != nil {
			m.Scale.Mod.SetInt64(5)
		}
	})
	c10DeepOne(c, "structs.Vector[uint64].CopyNew", func() (interface{}, interface{}) {
		o := structs.Vector[uint64]{1, 2, 3, 4, 5, 6, 7, 8}
		x := o.CopyNew()
		return &o, &x
	})
	c10DeepOne(c, "structs.Vector[ring.Poly].CopyNew", func() (interface{}, interface{}) {
		o := structs.Vector[ring.Poly]{c10RandPoly(c, rQ), c10RandPoly(c, rQ.AtLevel(0))}
		x := o.CopyNew()
		return &o, &x
	})
	c10DeepOne(c, "structs.Matrix[uint64].CopyNew", func() (interface{}, interface{}) {
		o := structs.Matrix[uint64](c10RandPoly(c, rQ).Coeffs)
		x := o.CopyNew()
		return &o, &x
	})
	c10DeepOne(c, "structs.Matrix[ringqp.Poly].CopyNew", func() (interface{}, interface{}) {
		o := structs.Matrix[ringqp.Poly]{{{Q: c10RandPoly(c, rQ), P: c10RandPoly(c, rP)}}, {{Q: c10RandPoly(c, rQ), P: c10RandPoly(c, rP)}, {Q: c10RandPoly(c, rQ.AtLevel(1)), P: c10RandPoly(c, rP)}}}
		x := o.CopyNew()
		return &o, &x
	})
	c10DeepOne(c, "structs.Map[uint64,rlwe.GaloisKey].CopyNew", func() (interface{}, interface{}) {
		o := structs.Map[uint64, rlwe.GaloisKey]{}
		for _, k := range []int{1, 2} {
			g := rp.GaloisElement(k)
			o[g] = kgen.GenGaloisKeyNew(g, sk)
		}
		return &o, o.CopyNew()
	})
}
