package main

// C15 — two more input classes.
//
//  c15WrapDiff   legal public points a < b whose difference is congruent to 2^64 modulo one of the
//                primes (so that the *wrapped* uint64 difference a-b is congruent to 0): they are
//                pairwise distinct and non-zero modulo every prime, hence every party (the one
//                holding the smaller point as well as the one holding the larger) must be served
//                and the shares must reconstruct; listed in both orders, for every modulus of every
//                parameter set.  (Probe `reconstruct_wrapdiff`, key C15/pointsCollide/wrapped-difference.)
//  c15Wide       more parties than the property's N <= 6: N = 7, 8 with every t <= N, on the
//                parameter sets with 60/61-bit moduli (range of sums of N residues), sampled
//                subsets and orderings.  (Probe `reconstruct`, `too_few`; ties addshare/run.)

import (
	"github.com/tuneinsight/lattigo/v6/multiparty"
)

func c15WrapDiff(c *Ctx, sets []c15Set) {
	reps := c.Scale(1, 4)
	for _, s := range sets {
		for m, q := range s.ms {
			d := (^uint64(0)%q + 1) % q // 2^64 mod q
			if d == 0 {
				continue
			}
			for rep := 0; rep < reps; rep++ {
				n := 2 + c.rng.Intn(4)
				t := 2 + c.rng.Intn(n-1)
				var pts []multiparty.ShamirPublicPoint
				tries := 0
				for {
					tries++
					pts = c15Points(c, s, c15Small, n)
					a := uint64(pts[0])
					if rep%2 == 1 {
						a = c15DrawPoint(c, c15Gt32) >> 2
					}
					b := a + d // b - a = 2^64 mod q, no overflow: a < 2^62, d < q < 2^62
					// also b - a = 2^64 mod q + k*q when it still fits
					if k := c.rng.Below(4); q < 1<<60 && k > 0 {
						b += k * q
					}
					pts[0] = multiparty.ShamirPublicPoint(a)
					pts[1] = multiparty.ShamirPublicPoint(b)
					if c15Valid(s.ms, pts) {
						break
					}
					if tries > 200 {
						pts = nil
						break
					}
				}
				if pts == nil {
					c.Count("wrapdiff:no_valid_points:" + s.name)
					continue
				}
				// both listing orders of the pair
				if c.rng.Intn(2) == 0 {
					pts[0], pts[1] = pts[1], pts[0]
				}
				st := c15DoSetup(c, s, t, n, pts, false)
				// subsets containing both points of the pair, all orderings of one of them
				sub := c15Iota(t)
				orders := c15Perms(t)
				if !c.Thorough() && len(orders) > 6 {
					orders = orders[:6]
				}
				detail := st.checkSubset(sub, orders)
				c.Probe("reconstruct_wrapdiff", s.name+" t="+I(t)+" N="+I(n)+" pts="+c15Pts(pts)+" diff_is_2^64_mod="+U(q)+" row="+I(m)+" subset="+IVec(sub)+" orderings="+I(len(orders)), "C15/pointsCollide/wrapped-difference", detail)
				st.emitAddShare(c, 0, sub, "wrapdiff")
				st.emitAddShare(c, 1, sub, "wrapdiff")
			}
		}
	}
}

func c15Wide(c *Ctx, sets []c15Set) {
	for _, s := range sets {
		if s.ms[len(s.ms)-1] < 1<<59 && s.ms[0] < 1<<59 {
			continue // only the sets with 60/61-bit moduli
		}
		for n := 7; n <= 8; n++ {
			for t := 1; t <= n; t++ {
				fam := c.rng.Intn(c15NFam)
				pts := c15Points(c, s, fam, n)
				st := c15DoSetup(c, s, t, n, pts, c.Thorough())
				c.Count("config:wide:" + s.name)
				subsets := c15Subsets(n, t)
				nsub := c.Scale(2, 6)
				for k := 0; k < nsub; k++ {
					sub := subsets[c.rng.Intn(len(subsets))]
					orders := [][]int{c15Iota(t)}
					for o := 0; o < c.Scale(2, 5); o++ {
						orders = append(orders, c.c15Shuffle(c15Iota(t)))
					}
					detail := st.checkSubset(sub, orders)
					c.Probe("reconstruct", s.name+" wide "+c15FamName[fam]+" t="+I(t)+" N="+I(n)+" pts="+c15Pts(pts)+" subset="+IVec(sub)+" orderings="+I(len(orders)), "C15-reconstruct", detail)
					c.Count("subset:wide")
					act := c.c15Shuffle(sub)
					st.emitAddShare(c, act[c.rng.Intn(len(act))], act, "wide")
				}
				if c.Thorough() || t == n {
					st.emitRun(c, c.c15Shuffle(subsets[c.rng.Intn(len(subsets))]), "wide")
				}
				act := c.c15Shuffle(c15Iota(n))[:t-1]
				i := c.rng.Intn(n)
				_, res := st.additive(i, act)
				detail := ""
				if res != "err" {
					detail = "GenAdditiveShare with " + I(t-1) + " < t active points returned " + res
				}
				c.Probe("too_few", s.name+" wide t="+I(t)+" N="+I(n)+" pts="+c15Pts(pts)+" actives="+IVec(act)+" party="+I(i), "C15-too-few", detail)
			}
		}
	}
}
