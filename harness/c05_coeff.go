package main

// C05 — straight-line programs on NON-BATCHED (coefficient-encoded) ciphertexts: the evaluator's Add/Sub with a vector
// or plaintext operand encodes the operand through the IsBatched=false branch of Encoder.Encode AT THE SCALE OF op0,
// which matters as soon as that scale is no longer 1 (after Rescale, after a product with a scaled plaintext, after
// scale matching).  Operations whose message semantics is coefficient-wise are also tie lines (the model `step` is
// agnostic of the encoding: "slots" = coefficients): add/sub with vectors, plaintexts, ciphertexts; product with an
// integer scalar; Rescale; DropLevel.  The product with a scaled CONSTANT plaintext is probe-only.
//
// Probe coeff_program_exact: after every step, Decode(Decrypt(ct)) (coefficient domain) equals the Z_t interpreter
// coefficient by coefficient.

import (
	"fmt"
	"math"
	"strings"

	"github.com/tuneinsight/lattigo/v6/core/rlwe"
	"github.com/tuneinsight/lattigo/v6/schemes/bgv"
)

func (c *Ctx) c05NewCoeffPt(s *c05Set, level int, scale uint64, m []uint64) *c05Reg {
	pt := bgv.NewPlaintext(s.params, level)
	pt.IsBatched = false
	pt.Scale = s.params.NewScale(scale)
	if err := s.ecd.Encode(m, pt); err != nil {
		panic(err)
	}
	return &c05Reg{pt: pt, want: append([]uint64(nil), m...)}
}

func (c *Ctx) c05NewCoeffCt(s *c05Set, level int, scale uint64) *c05Reg {
	p := c.c05NewCoeffPt(s, level, scale, c.c05Msg(s))
	ct, err := s.enc.EncryptNew(p.pt)
	if err != nil {
		panic(err)
	}
	return &c05Reg{ct: ct, want: p.want, nb: float64(s.logN) + 7}
}

func (c *Ctx) c05CoeffProgram(s *c05Set, steps int) {
	t := s.t
	L := len(s.qs) - 1
	lN := float64(s.logN)
	ev := s.evaluator(false, true)
	scales := []uint64{1, 3 % t, t - 1, c.c05Scale(t)}
	cts := []*c05Reg{c.c05NewCoeffCt(s, L, scales[c.rng.Intn(4)]), c.c05NewCoeffCt(s, L, scales[c.rng.Intn(4)])}
	var trace []string
	mismatch := ""
	ok := func(nb float64, level int) bool { return level >= 0 && nb+s.lt+3 <= s.logQ[level] }
	for k := 0; k < steps && mismatch == ""; k++ {
		ai := c.rng.Intn(2)
		a := cts[ai]
		la, sa := a.level(), a.scale()
		choice := []string{"addv", "subv", "addpt", "subpt", "addct", "subct", "rescale", "mulscalar", "mulpt", "rescale", "addv", "subv"}[c.rng.Intn(12)]
		want := make([]uint64, s.n)
		var res []*rlwe.Ciphertext
		status := "ok"
		switch choice {
		case "addv", "subv":
			kind := []string{"vu", "vi"}[c.rng.Intn(2)]
			b := c.c05Arg(s, kind)
			mb := s.argMsg(b, a)
			for i := range want {
				if choice == "addv" {
					want[i] = (a.want[i] + mb[i]) % t
				} else {
					want[i] = (a.want[i] + t - mb[i]) % t
				}
			}
			op := map[string]string{"addv": "add", "subv": "sub"}[choice]
			o := c05Out{mode: []string{"new", "inp"}[c.rng.Intn(2)]}
			res, status = c.c05Step(s, ev, false, true, op, a, b, o)
			if status == "ok" {
				cts[ai] = &c05Reg{ct: res[0], want: want, nb: a.nb + 1}
			}
		case "addpt", "subpt", "addct", "subct":
			var breg *c05Reg
			sb := scales[c.rng.Intn(4)]
			if c.rng.Intn(2) == 0 {
				sb = sa
			}
			lb := la
			if la > 0 && c.rng.Intn(3) == 0 {
				lb = la - 1
			}
			nbb := 0.0
			if strings.HasSuffix(choice, "pt") {
				breg = c.c05NewCoeffPt(s, lb, sb, c.c05Msg(s))
			} else {
				breg = c.c05NewCoeffCt(s, lb, sb)
				nbb = breg.nb
			}
			nb := lmax(a.nb, nbb) + 1
			if sa != sb {
				r0, r1 := c05Match(sa, sb, t)
				nb = lmax(a.nb+l2(float64(r0)), nbb+l2(float64(r1))) + 2
			}
			if !ok(nb, min(la, lb)) {
				continue
			}
			isAdd := strings.HasPrefix(choice, "add")
			for i := range want {
				if isAdd {
					want[i] = (a.want[i] + breg.want[i]) % t
				} else {
					want[i] = (a.want[i] + t - breg.want[i]) % t
				}
			}
			op := "sub"
			if isAdd {
				op = "add"
			}
			res, status = c.c05Step(s, ev, false, true, op, a, c05Arg{kind: "r", reg: breg}, c05Out{mode: "new"})
			if status == "ok" {
				cts[ai] = &c05Reg{ct: res[0], want: want, nb: nb}
			}
		case "rescale":
			if la == 0 {
				continue
			}
			nb := lmax(a.nb-math.Log2(float64(s.qs[la])), lN+2) + 1
			if !ok(nb, la-1) {
				continue
			}
			copy(want, a.want)
			res, status = c.c05Step(s, ev, false, true, "rescale", a, c05Arg{kind: "none"}, c05Out{mode: "inp"})
			if status == "ok" {
				cts[ai] = &c05Reg{ct: res[0], want: want, nb: nb}
			}
		case "mulscalar":
			nb := a.nb + s.lt + 1
			if !ok(nb, la) {
				continue
			}
			b := c.c05Arg(s, []string{"u64", "i64", "big"}[c.rng.Intn(3)])
			mb := s.argMsg(b, a)
			for i := range want {
				want[i] = c05MulMod(a.want[i], mb[i], t)
			}
			res, status = c.c05Step(s, ev, false, true, "mul", a, b, c05Out{mode: "inp"})
			if status == "ok" {
				cts[ai] = &c05Reg{ct: res[0], want: want, nb: nb}
			}
		case "mulpt":
			// product with the constant polynomial cst encoded (coefficient domain) at scale sp: message × cst, scale × sp
			nb := a.nb + s.lt + lN + 2
			if !ok(nb, la) {
				continue
			}
			cst := 1 + c.rng.Below(t-1)
			sp := scales[c.rng.Intn(4)]
			m := make([]uint64, s.n)
			m[0] = cst
			p := c.c05NewCoeffPt(s, la, sp, m)
			for i := range want {
				want[i] = c05MulMod(a.want[i], cst, t)
			}
			status = Try(func() string {
				r, err := ev.MulNew(a.ct, p.pt)
				if err != nil {
					return "err"
				}
				res = []*rlwe.Ciphertext{r}
				return "ok"
			})
			c.Count("coeff:mulpt:" + status)
			if status == "ok" {
				cts[ai] = &c05Reg{ct: res[0], want: want, nb: nb}
			}
		}
		trace = append(trace, choice+":"+status)
		if status != "ok" {
			mismatch = fmt.Sprintf("step=%d %s status=%s", len(trace)-1, choice, status)
			break
		}
		if got := s.decodeCt(cts[ai].ct); Vec(got) != Vec(cts[ai].want) {
			d := 0
			for i := range got {
				if got[i] != cts[ai].want[i] {
					d = i
					break
				}
			}
			mismatch = fmt.Sprintf("step=%d %s coefficient=%d got=%d want=%d scale=%d", len(trace)-1, choice, d, got[d], cts[ai].want[d], cts[ai].scale())
		}
	}
	if mismatch != "" {
		mismatch += " trace=" + strings.Join(trace, ";")
	}
	c.Probe("coeff_program_exact", s.cfg(false, true)+" steps="+I(len(trace)), "C05-coefficient-domain-program-not-exact", mismatch)
}
