package main

// C20, blind rotation part: drives blindrot.GenEvaluationKeyNew, blindrot.InitTestPolynomial and
// blindrot.Evaluator.Evaluate on small parameters (LWE ring degree <= blind-rotation ring degree).
//
// Ties: rgsw_enc (every blind-rotation key from the replayed samples), testpoly, br_keyset,
//       br_sched (the sequence of automorphisms / external products the evaluator REALLY performs, captured
//       by a logging key set, against the model's schedule computed from the raw LWE sample),
//       br_eval (the output ciphertexts, exactly).
// Probes: brk_keys_exact, testpoly_table, blindrot_exponent, blindrot_lookup.

import (
	"fmt"
	"math"
	"math/big"
	"sort"
	"strings"

	"github.com/tuneinsight/lattigo/v6/core/rgsw"
	"github.com/tuneinsight/lattigo/v6/core/rgsw/blindrot"
	"github.com/tuneinsight/lattigo/v6/core/rlwe"
	"github.com/tuneinsight/lattigo/v6/ring"
	"github.com/tuneinsight/lattigo/v6/utils"
)

// ---------- logging key set ----------

type c20EvkLog struct {
	inner rlwe.EvaluationKeySet
	log   *[]string
}

func (l c20EvkLog) GetGaloisKey(galEl uint64) (*rlwe.GaloisKey, error) {
	*l.log = append(*l.log, fmt.Sprintf("a%d", galEl))
	return l.inner.GetGaloisKey(galEl)
}
func (l c20EvkLog) GetGaloisKeysList() []uint64 { return l.inner.GetGaloisKeysList() }
func (l c20EvkLog) ShallowCopy() rlwe.EvaluationKeySet {
	return c20EvkLog{inner: l.inner.ShallowCopy(), log: l.log}
}
func (l c20EvkLog) GetRelinearizationKey() (*rlwe.RelinearizationKey, error) {
	*l.log = append(*l.log, "relin")
	return l.inner.GetRelinearizationKey()
}

type c20BRKLog struct {
	inner blindrot.BlindRotationEvaluationKeySet
	log   *[]string
}

func (l c20BRKLog) GetBlindRotationKey(i int) (*rgsw.Ciphertext, error) {
	*l.log = append(*l.log, fmt.Sprintf("m%d", i))
	return l.inner.GetBlindRotationKey(i)
}
func (l c20BRKLog) GetEvaluationKeySet() (rlwe.EvaluationKeySet, error) {
	*l.log = append(*l.log, "evk")
	evk, err := l.inner.GetEvaluationKeySet()
	return c20EvkLog{inner: evk, log: l.log}, err
}

// ---------- functions ----------

type c20Fn struct {
	name string
	f    func(x float64) float64
	a, b float64
	odd  bool // f(b) = -f(a): the right end point is representable
}

func c20Sign(x float64) float64 {
	if x > 0 {
		return 1
	} else if x == 0 {
		return 0
	}
	return -1
}

func c20Functions(c *Ctx, N int) []c20Fn {
	tab := make([]float64, N+1)
	for i := range tab {
		tab[i] = float64(int64(c.rng.Intn(2001))-1000) / 1000.0
	}
	table := func(x float64) float64 {
		k := int(math.Round((x + 1) * float64(N) / 2))
		if k < 0 {
			k = 0
		}
		if k > N {
			k = N
		}
		return tab[k]
	}
	return []c20Fn{
		{"sign", c20Sign, -1, 1, true},
		{"identity", func(x float64) float64 { return x }, -1, 1, true},
		{"table", table, -1, 1, false},
		{"affine04", func(x float64) float64 { return x/4 - 0.25 }, 0, 4, false},
	}
}

// ---------- configurations ----------

type c20BRCfg struct {
	logNBR, logNLWE int
	bitsQ           []int
	bitsP           []int
	w               int
	bitsLWE         []int
	hw              int
	noTie           bool // probes only (ring degrees too large for the interpreted model)
	keyLq           int  // LevelQ of the blind-rotation keys (-1: maximum)
	lweCoeff        bool // LWE parameters with NTTFlag = false (samples in the coefficient domain)
	brCoeff         bool // BLIND-ROTATION parameters with NTTFlag = false (the accumulator is NTT-domain regardless)
}

func c20BRConfigs(c *Ctx) (out []c20BRCfg) {
	// rlwe.MinLogN = 4: the smallest LWE ring has degree 16
	if !c.Thorough() {
		return []c20BRCfg{
			{4, 4, []int{27}, []int{40}, 7, []int{14}, 2, false, -1, false, false},
			{5, 4, []int{27}, []int{40}, 7, []int{14}, 5, false, -1, false, false},
			{4, 4, []int{30}, []int{41}, 0, []int{14}, 3, false, -1, false, false},
			{4, 4, []int{27}, nil, 7, []int{14}, 2, false, -1, false, false}, // the shape of blindrot_test.go: no auxiliary modulus
			{4, 4, []int{28, 30}, []int{40, 41}, 0, []int{13}, 1, false, -1, false, false},
			// large LWE moduli: q*2N_BR >= 2^64 (the modulus switch must not be done on 64-bit words), multi-limb
			{4, 4, []int{27}, []int{40}, 7, []int{61}, 3, false, -1, false, false},
			{4, 4, []int{27}, []int{40}, 7, []int{31, 32}, 2, false, -1, false, false},
			{10, 4, []int{27}, []int{40}, 7, []int{55}, 2, true, -1, false, false},
			// non-ternary LWE secrets (discrete Gaussian), Ternary{P}, Ternary{H}
			{4, 4, []int{27}, []int{40}, 7, []int{14}, -1, false, -1, false, false},
			{4, 4, []int{27}, []int{40}, 7, []int{14}, -3, false, -1, true, false},
			// BR parameters with NTTFlag = false, alone and combined with coefficient-domain LWE parameters
			// (with the two lines below: all four (paramsBR.NTTFlag, paramsLWE.NTTFlag) combinations)
			{4, 4, []int{27}, []int{40}, 7, []int{14}, 3, false, -1, false, true},
			{4, 4, []int{27}, []int{40}, 7, []int{14}, 2, false, -1, true, true},
			{4, 4, []int{28, 30}, []int{41}, 7, []int{14}, 2, false, 0, true, true},
			// LWE parameters with NTTFlag = false; blind-rotation keys below the maximum level
			{4, 4, []int{27}, []int{40}, 7, []int{14}, 3, false, -1, true, false},
			{4, 4, []int{27, 30}, []int{41}, 7, []int{14}, 2, false, 0, false, false},
		}
	}
	for _, d := range []int{-1, -2, -3, -4, -5} {
		out = append(out, c20BRCfg{4, 4, []int{27}, []int{40}, 7, []int{14}, d, false, -1, d%2 == 0, false})
	}
	// thorough: the four NTT-flag combinations over several shapes (no P, two limbs + keys below the maximum level,
	// larger BR ring, multi-limb LWE, Gaussian secret)
	for _, lc := range []bool{false, true} {
		out = append(out,
			c20BRCfg{4, 4, []int{27}, []int{40}, 7, []int{14}, 3, false, -1, lc, true},
			c20BRCfg{4, 4, []int{27}, nil, 7, []int{14}, 2, false, -1, lc, true},
			c20BRCfg{5, 4, []int{30}, []int{41}, 0, []int{14, 15}, 2, false, -1, lc, true},
			c20BRCfg{4, 4, []int{28, 30}, []int{41}, 7, []int{14}, 2, false, 0, lc, true},
			c20BRCfg{4, 4, []int{27}, []int{40}, 7, []int{14}, -1, false, -1, lc, true},
			c20BRCfg{10, 4, []int{27}, []int{40}, 7, []int{55}, 2, true, -1, lc, true})
	}
	out = append(out, c20BRCfg{5, 4, []int{30}, []int{41}, 0, []int{20}, -2, false, -1, false, false},
		c20BRCfg{10, 4, []int{27}, []int{40}, 7, []int{55}, -1, true, -1, false, false})
	out = append(out,
		c20BRCfg{4, 4, []int{27}, []int{40}, 7, []int{14}, 3, false, -1, true, false},
		c20BRCfg{5, 4, []int{30}, []int{41}, 0, []int{14, 15}, 2, false, -1, true, false},
		c20BRCfg{4, 4, []int{27}, nil, 7, []int{20}, 4, false, -1, true, false},
		c20BRCfg{4, 4, []int{27, 30}, []int{41}, 7, []int{14}, 2, false, 0, false, false},
		c20BRCfg{4, 4, []int{28, 30, 31}, []int{40, 41}, 0, []int{14}, 3, false, 1, true, false},
		c20BRCfg{4, 4, []int{28, 30, 31}, []int{40, 41}, 0, []int{14}, 3, false, 0, false, false},
		c20BRCfg{4, 4, []int{27, 33}, nil, 7, []int{14}, 2, false, 0, false, false},
	)
	for _, bl := range [][]int{{50}, {55}, {58}, {59}, {60}, {61}, {30, 31}, {45, 40}, {60, 61}, {20, 21, 22}} {
		out = append(out, c20BRCfg{4, 4, []int{27}, []int{40}, 7, bl, 3, false, -1, false, false})
	}
	out = append(out,
		c20BRCfg{10, 4, []int{27}, []int{40}, 7, []int{55}, 2, true, -1, false, false},
		c20BRCfg{10, 5, []int{27}, []int{40}, 7, []int{53}, 4, true, -1, false, false},
		c20BRCfg{9, 4, []int{27}, []int{40}, 7, []int{54, 55}, 3, true, -1, false, false},
	)
	for _, hw := range []int{0, 1, 2, 4, 8, 16} {
		out = append(out, c20BRCfg{4, 4, []int{27}, []int{40}, 7, []int{14}, hw, false, -1, false, false})
	}
	for _, hw := range []int{1, 3, 16} {
		out = append(out, c20BRCfg{5, 4, []int{30}, []int{41}, 0, []int{14}, hw, false, -1, false, false})
	}
	for _, w := range []int{4, 12, 16, 20} {
		out = append(out, c20BRCfg{4, 4, []int{30}, []int{42}, w, []int{14}, 3, false, -1, false, w%2 == 1})
	}
	out = append(out,
		c20BRCfg{4, 4, []int{27}, nil, 7, []int{14}, 2, false, -1, false, false},
		c20BRCfg{4, 4, []int{27}, nil, 0, []int{14}, 2, false, -1, false, false},
		c20BRCfg{4, 4, []int{30, 31}, nil, 12, []int{14}, 2, false, -1, false, false},
		c20BRCfg{4, 4, []int{28, 30}, []int{40, 41}, 0, []int{13}, 2, false, -1, false, false},
		c20BRCfg{5, 4, []int{27}, []int{40}, 7, []int{14, 15}, 4, false, -1, false, false},
		c20BRCfg{5, 5, []int{29, 33}, []int{41}, 12, []int{16}, 6, false, -1, false, false},
		c20BRCfg{6, 4, []int{27}, []int{40}, 7, []int{14}, 5, false, -1, false, false},
	)
	return
}

func c20PolysList(l [][][][]uint64) string {
	parts := make([]string, len(l))
	for i := range l {
		parts[i] = c20Polys(l[i])
	}
	return strings.Join(parts, "|")
}

// c20GaloisKeyPolys flattens a Galois key: component 0 list, component 1 list, (i, j) row-major, canonical QP rows.
func (ps *c20PS) galoisKeyPolys(gk *rlwe.GaloisKey) (c0, c1 [][][]uint64) {
	lq, lp := gk.LevelQ(), gk.LevelP()
	for i := range gk.Value {
		for j := range gk.Value[i] {
			c0 = append(c0, ps.canonQP(gk.Value[i][j][0], lq, lp, true, true))
			c1 = append(c1, ps.canonQP(gk.Value[i][j][1], lq, lp, true, true))
		}
	}
	return
}

func c20ModSwitch(x, Q *big.Int, twoN uint64, makeOdd bool) uint64 {
	t := new(big.Int).Mul(x, new(big.Int).SetUint64(twoN))
	// round half up (x >= 0)
	t.Lsh(t, 1)
	t.Add(t, Q)
	t.Div(t, new(big.Int).Lsh(Q, 1))
	r := t.Uint64() & (twoN - 1)
	if makeOdd && r&1 == 0 && r != 0 {
		r ^= 1
	}
	return r
}

func c20GenBlindRot(c *Ctx) {
	pg := newC20PrimeGen()
	requestedUnion := map[string]map[uint64]bool{}
	for ci, cfg := range c20BRConfigs(c) {
		nthBR := uint64(2 << cfg.logNBR)
		var Q, P, QL []uint64
		for _, b := range cfg.bitsQ {
			Q = append(Q, pg.next(b, nthBR, -1))
		}
		for _, b := range cfg.bitsP {
			P = append(P, pg.next(b, nthBR, 0))
		}
		for _, b := range cfg.bitsLWE {
			QL = append(QL, pg.next(b, uint64(2<<cfg.logNLWE), -1))
		}
		psBR, err := c20NewPSFlag(cfg.logNBR, Q, P, !cfg.brCoeff)
		if err != nil {
			c.Count("br:params-rejected")
			continue
		}
		// cfg.hw < 0 selects a non-default distribution of the LWE secret (the blind-rotation keys must encrypt
		// X^{s_i} for ANY integer s_i, not only for ternary secrets)
		var xsL ring.DistributionParameters
		switch cfg.hw {
		case -1:
			xsL = ring.DiscreteGaussian{Sigma: 3.2, Bound: 19}
		case -2:
			xsL = ring.DiscreteGaussian{Sigma: 9, Bound: 50}
		case -3:
			xsL = ring.Ternary{P: 0.25}
		case -4:
			xsL = ring.Ternary{P: 0.95}
		case -5:
			xsL = ring.Ternary{H: 7}
		}
		psL, err := c20NewPSXs(cfg.logNLWE, QL, nil, !cfg.lweCoeff, xsL)
		if err != nil {
			c.Count("br:params-rejected")
			continue
		}
		N, NL := psBR.N(), psL.N()
		twoN := uint64(2 * N)
		lq, lp, w := len(Q)-1, len(P)-1, cfg.w
		if cfg.keyLq >= 0 {
			lq = cfg.keyLq
		}
		Qfull := Q
		Q = Q[:lq+1] // the moduli of the key level: everything below (test polynomials, probes) lives there
		_ = Qfull
		c.Count(fmt.Sprintf("br:nttflags BR=%v LWE=%v", !cfg.brCoeff, !cfg.lweCoeff))
		c.Count(fmt.Sprintf("br:cfg NBR=%d NLWE=%d nQ=%d nP=%d w=%d hw=%d", N, NL, len(Q), len(P), w, cfg.hw))

		kgenL := rlwe.NewKeyGenerator(psL.params)
		var skL *rlwe.SecretKey
		if cfg.hw >= NL || cfg.hw < 0 {
			skL = kgenL.GenSecretKeyNew()
		} else if cfg.hw == 0 {
			skL = rlwe.NewSecretKey(psL.params)
		} else {
			skL = kgenL.GenSecretKeyWithHammingWeightNew(cfg.hw)
		}
		sL := psL.secretInts(skL)
		skBR := rlwe.NewKeyGenerator(psBR.params).GenSecretKeyNew()
		sBR := psBR.secretInts(skBR)

		// ---- key generation, twin replay of the RGSW keys ----
		evkParams := rlwe.EvaluationKeyParameters{BaseTwoDecomposition: utils.Pointy(w)}
		if cfg.keyLq >= 0 {
			evkParams.LevelQ = utils.Pointy(cfg.keyLq)
		}
		mark := RandMark()
		BRK := blindrot.GenEvaluationKeyNew(psBR.params, skBR, psL.params, skL, evkParams)
		keys := RandKeysSince(mark)
		tw := psBR.twinFromKey(keys[0])
		par := c20ParTokens(psBR, lq, lp, w)
		for i, k := range BRK.BlindRotationKeys {
			if cfg.noTie {
				break
			}
			A0, A1, E0, E1 := tw.replayRGSW(lq, lp, c20Shape(k), true)
			g := c20MonomialInts(N, sL[i])
			if !probesOnly() && (i < 3 || c.Thorough()) {
				c.Emit(fmt.Sprintf("rgsw_enc %s mode=api s=%s g=%s a0=%s e0=%s a1=%s e1=%s", par, c20I64Vec(sBR),
					Mat(psBR.rowsFromInts(g, lq)), c20Polys(A0), c20IVecs(E0), c20Polys(A1), c20IVecs(E1)),
					IVec(c20Shape(k))+"|"+c20RGSWOut(psBR.rgswPolys(k)))
			}
		}
		// ---- key content: the i-th blind-rotation key is an RGSW encryption of X^{s_i}, for EVERY i ----
		{
			detail := ""
			maxAbs := int64(0)
			for i, k := range BRK.BlindRotationKeys {
				if sL[i] > maxAbs {
					maxAbs = sL[i]
				}
				if -sL[i] > maxAbs {
					maxAbs = -sL[i]
				}
				worst := c20RowErr(psBR, skBR, k, c20MonomialInts(N, sL[i]), w)
				if worst > uint64(psBR.params.NoiseBound())+1 && detail == "" {
					detail = fmt.Sprintf("key %d does not decrypt to X^{s_%d} (s_%d=%d): max row error %d, bound %d", i, i, i, sL[i], worst, uint64(psBR.params.NoiseBound())+1)
				}
			}
			c.Probe("brk_key_content", fmt.Sprintf("n=%d nl=%d secretDist=%d maxAbs=%d seed=%d line=%d", N, NL, cfg.hw, maxAbs, c.Seed, c.N), "brk-key-content", detail)
			c.Count(fmt.Sprintf("br:lwe-secret maxAbs=%d", maxAbs))
		}
		// ---- advertised key set ----
		evk0, _ := BRK.GetEvaluationKeySet()
		adv := append([]uint64{}, evk0.GetGaloisKeysList()...)
		sort.Slice(adv, func(i, j int) bool { return adv[i] < adv[j] })
		c.Emit(fmt.Sprintf("br_keyset n=%d nl=%d", N, NL), fmt.Sprintf("%s|%d", Vec(adv), len(BRK.BlindRotationKeys)))
		advSet := map[uint64]bool{}
		for _, g := range adv {
			advSet[g] = true
		}

		// ---- test polynomials ----
		fns := c20Functions(c, N)
		ringQBR := psBR.params.RingQ().AtLevel(lq)
		type tp struct {
			fn    c20Fn
			poly  ring.Poly
			rows  [][]uint64
			scale float64
		}
		var tps []tp
		for _, fn := range fns {
			scale := float64(Q[0]) / 4.0
			if len(Q) > 1 {
				scale = float64(Q[0]) * float64(Q[1]) / 16.0
				if scale > 1e15 {
					scale = 1e15 // keep scale*value exactly representable for the look-up comparison
				}
			}
			F := blindrot.InitTestPolynomial(fn.f, rlwe.NewScale(scale), ringQBR, fn.a, fn.b)
			rows := psBR.canonQ(F, lq, true, false)
			// tie: the float64 values handed to scaleUp
			interval := 2.0 / float64(N)
			vals := make([]uint64, N)
			norm := func(x float64) float64 { return (x*(fn.b-fn.a) + fn.b + fn.a) / 2.0 }
			for i := 0; i < N; i++ {
				var v float64
				if i <= N/2 {
					v = fn.f(norm(-interval * float64(i)))
				} else {
					v = -fn.f(norm(interval * float64(N-i)))
				}
				vals[i] = math.Float64bits(v)
			}
			c.Emit(fmt.Sprintf("testpoly n=%d Q=%s scale=%d vals=%s", N, Vec(Q), math.Float64bits(scale), Vec(vals)), Mat(rows))
			c.Count("testpoly:" + fn.name)
			// probe: the documented layout
			detail := ""
			Qb := c20ProdBig(Q)
			for i := 0; i < N && detail == ""; i++ {
				var x float64
				sgn := 1.0
				if i <= N/2 {
					x = norm(-interval * float64(i))
				} else {
					x = norm(interval * float64(N-i))
					sgn = -1
				}
				want := new(big.Float).Mul(big.NewFloat(scale), big.NewFloat(sgn*fn.f(x)))
				wi, _ := want.Int(nil)
				col := make([]uint64, len(Q))
				for k := range Q {
					col[k] = rows[k][i]
				}
				got := c20CRTCentered(col, Q)
				d := new(big.Int).Sub(got, wi)
				d.Mod(d, Qb)
				if d.Cmp(new(big.Int).Rsh(Qb, 1)) > 0 {
					d.Sub(d, Qb)
				}
				if d.CmpAbs(big.NewInt(1)) > 0 {
					detail = fmt.Sprintf("coefficient %d is %s, documented %s", i, got, wi)
				}
			}
			c.Probe("testpoly_table", fmt.Sprintf("n=%d fn=%s", N, fn.name), "testpoly-layout", detail)
			// probe: the documented behaviour at the right end point (doc comment after fix C20-9): the exponent N/2
			// (x = b) reads -F[N/2] = -g(a)
			{
				col := make([]uint64, len(Q))
				for k := range Q {
					col[k] = rows[k][N/2]
				}
				got := new(big.Int).Neg(c20CRTCentered(col, Q))
				want := new(big.Float).Mul(big.NewFloat(scale), big.NewFloat(-fn.f(fn.a)))
				wi, _ := want.Int(nil)
				d := new(big.Int).Sub(got, wi)
				d2 := ""
				if d.CmpAbs(big.NewInt(1)) > 0 {
					d2 = fmt.Sprintf("look-up at x=b returns %s, documented -scale*g(a)=%s (fn=%s)", got, wi, fn.name)
				}
				c.Probe("testpoly_endpoint", fmt.Sprintf("n=%d fn=%s", N, fn.name), "testpoly-right-endpoint", d2)
			}
			tps = append(tps, tp{fn, F, rows, scale})
		}

		// ---- evaluations ----
		evalBR := blindrot.NewEvaluator(psBR.params, psL.params)
		c20BRCore(c, psBR, psL, evalBR, BRK, skBR, sBR, sL, tps[ci%len(tps)].poly, w, cfg.noTie)
		QLb := c20ProdBig(QL)
		llq := len(QL) - 1
		// ---- several DIFFERENT test polynomials within ONE Evaluate call, in repeating / interleaved slot orders:
		// every slot equals (bit for bit: Evaluate draws no randomness) the single-entry evaluation of its OWN polynomial
		// on a fresh evaluator, and decrypts to the rotation of its own polynomial by the intended exponent (below).
		{
			polys := make([]*ring.Poly, len(tps))
			for i := range tps {
				polys[i] = &tps[i].poly
			}
			orders := [][]int{{0, 1, 0}, {0, 1, 2, 0, 1}, {0, 0, 1, 1, 0}, {1, 0, 1, 0, 1, 0, 1, 0}, {2, 1, 0, 2, 1, 0, 0}}
			if c.Thorough() {
				for k := 0; k < 4; k++ {
					o := make([]int, 3+c.rng.Intn(NL-2))
					kk := 2 + c.rng.Intn(2)
					for i := range o {
						o[i] = c.rng.Intn(kk)
					}
					orders = append(orders, o)
				}
			}
			for oi, order := range orders {
				if !c.Thorough() && (oi+ci)%2 == 1 && oi > 1 {
					continue
				}
				mv := make([]*big.Int, NL)
				for i := range mv {
					m := new(big.Int).Mul(QLb, big.NewInt(int64(c.rng.Intn(N+1)-N/2)))
					m.Div(m, big.NewInt(int64(2*N)))
					mv[i] = m
				}
				c1 := make([][]uint64, llq+1)
				for k := range c1 {
					c1[k] = make([]uint64, NL)
					for tt := range c1[k] {
						c1[k][tt] = c.rng.Below(QL[k])
					}
				}
				ctL := psL.mkCt(skL, psL.rowsFromBig(mv, llq), c1)
				if (oi%2 == 1) != cfg.lweCoeff {
					psL.params.RingQ().AtLevel(llq).INTT(ctL.Value[0], ctL.Value[0])
					psL.params.RingQ().AtLevel(llq).INTT(ctL.Value[1], ctL.Value[1])
					ctL.IsNTT = false
				}
				// slots: consecutive (oi even) or spread (oi odd) indices, in increasing order
				slots := make([]int, 0, len(order))
				for i := range order {
					sIdx := i
					if oi%2 == 1 {
						sIdx = i * NL / len(order)
					}
					if sIdx < NL && (len(slots) == 0 || sIdx > slots[len(slots)-1]) {
						slots = append(slots, sIdx)
					}
				}
				tpm := map[int]*ring.Poly{}
				desc := ""
				for i, sIdx := range slots {
					tpm[sIdx] = polys[order[i]%len(polys)]
					desc += fmt.Sprintf("%d:%s,", sIdx, tps[order[i]%len(tps)].fn.name)
				}
				detail := ""
				var res map[int]*rlwe.Ciphertext
				out := Try(func() string {
					var e error
					res, e = evalBR.Evaluate(ctL, tpm, BRK)
					if e != nil {
						return "err: " + e.Error()
					}
					return "ok"
				})
				if out != "ok" {
					detail = "Evaluate -> " + out
				} else {
					for i, sIdx := range slots {
						single, e := blindrot.NewEvaluator(psBR.params, psL.params).Evaluate(ctL, map[int]*ring.Poly{sIdx: tpm[sIdx]}, BRK)
						if e != nil || single[sIdx] == nil || res[sIdx] == nil {
							detail = fmt.Sprintf("slot %d: missing result", sIdx)
							break
						}
						if c20Polys(psBR.ctPolys(res[sIdx], lq)) != c20Polys(psBR.ctPolys(single[sIdx], lq)) {
							// which polynomial did it use?
							used := "none of the requested polynomials"
							for j := range polys {
								alt, e2 := blindrot.NewEvaluator(psBR.params, psL.params).Evaluate(ctL, map[int]*ring.Poly{sIdx: polys[j]}, BRK)
								if e2 == nil && c20Polys(psBR.ctPolys(res[sIdx], lq)) == c20Polys(psBR.ctPolys(alt[sIdx], lq)) {
									used = "the polynomial " + tps[j].fn.name
								}
							}
							detail = fmt.Sprintf("slot %d (position %d of %s) was requested with %s; the result is not the evaluation of that polynomial: it is the evaluation of %s", sIdx, i, desc, tps[order[i]%len(tps)].fn.name, used)
							break
						}
					}
				}
				c.Probe("blindrot_multi_poly", fmt.Sprintf("n=%d nl=%d nQ=%d nP=%d w=%d order=%s distinct=%d lweNTT=%v seed=%d line=%d", N, NL, len(Q), len(P), w, desc, c20Distinct(order), ctL.IsNTT, c.Seed, c.N),
					"blindrot-multi-poly", detail)
				c.Count(fmt.Sprintf("br:multi-poly distinct=%d slots=%d", c20Distinct(order), len(slots)))
			}
		}
		// grid points k in [-N/2, N/2], NL of them per LWE sample
		var grid []int
		for k := -N / 2; k <= N/2; k++ {
			grid = append(grid, k)
		}
		if !c.Thorough() || cfg.noTie {
			// a sample that keeps the end points and the sign change
			g2 := []int{-N / 2, -N/2 + 1, -1, 0, 1, N/2 - 1, N / 2}
			for len(g2) < NL {
				g2 = append(g2, c.rng.Intn(N+1)-N/2)
			}
			grid = g2
		}
		call := 0
		for start := 0; start < len(grid); start += NL {
			ks := make([]int, NL)
			for i := range ks {
				ks[i] = grid[(start+i)%len(grid)]
			}
			for fi, t := range tps {
				if (!c.Thorough() || cfg.noTie) && (call+fi+ci)%2 == 1 && ci != 0 {
					continue
				}
				// LWE sample: phase_i = k_i * Q/(2N) + e_i
				mv := make([]*big.Int, NL)
				for i := range mv {
					m := new(big.Int).Mul(QLb, big.NewInt(int64(ks[i])))
					m.Div(m, big.NewInt(int64(twoN))) // floor is fine: an error < 1 of the phase
					m.Add(m, big.NewInt(int64(c.rng.Intn(3))-1))
					mv[i] = m
				}
				c1 := make([][]uint64, llq+1)
				for k := range c1 {
					c1[k] = make([]uint64, NL)
					for tt := range c1[k] {
						c1[k][tt] = c.rng.Below(QL[k])
					}
				}
				ctL := psL.mkCt(skL, psL.rowsFromBig(mv, llq), c1)
				if ((call+fi)%3 == 2) != cfg.lweCoeff {
					psL.params.RingQ().AtLevel(llq).INTT(ctL.Value[0], ctL.Value[0])
					psL.params.RingQ().AtLevel(llq).INTT(ctL.Value[1], ctL.Value[1])
					ctL.IsNTT = false
				}
				// slot subsets
				var idxs []int
				switch (call + fi) % 4 {
				case 0, 1:
					for i := 0; i < NL; i++ {
						idxs = append(idxs, i)
					}
				case 2:
					for i := 0; i < NL; i++ {
						if c.rng.Intn(2) == 0 || i == NL-1 {
							idxs = append(idxs, i)
						}
					}
				default:
					idxs = []int{c.rng.Intn(NL)}
				}
				if c.Thorough() || ci == 0 {
					idxs = idxs[:0]
					for i := 0; i < NL; i++ {
						idxs = append(idxs, i)
					}
				}
				c20BREvaluate(c, psBR, psL, evalBR, BRK, skBR, sBR, sL, ctL, t.fn, t.poly, t.rows, t.scale, ks, idxs, w, cfg, advSet, requestedUnion)
			}
			call++
		}
	}
	// coverage of the generated Galois keys by the requests, over the whole run (statistics)
	for cfgName, m := range requestedUnion {
		c.Count(fmt.Sprintf("br:requested-galois %s count=%d", cfgName, len(m)))
	}
}

func c20CRTCentered(col []uint64, Q []uint64) *big.Int {
	Qb := c20ProdBig(Q)
	x := new(big.Int)
	for k, q := range Q {
		qb := new(big.Int).SetUint64(q)
		Qi := new(big.Int).Div(Qb, qb)
		inv := new(big.Int).ModInverse(Qi, qb)
		t := new(big.Int).Mul(new(big.Int).SetUint64(col[k]), inv)
		t.Mod(t, qb)
		t.Mul(t, Qi)
		x.Add(x, t)
	}
	x.Mod(x, Qb)
	if x.Cmp(new(big.Int).Rsh(Qb, 1)) > 0 {
		x.Sub(x, Qb)
	}
	return x
}

func c20BREvaluate(c *Ctx, psBR, psL *c20PS, evalBR *blindrot.Evaluator, BRK blindrot.MemBlindRotationEvaluationKeySet,
	skBR *rlwe.SecretKey, sBR, sL []int64, ctL *rlwe.Ciphertext, fn c20Fn, F ring.Poly, Frows [][]uint64, scale float64,
	ks []int, idxs []int, w int, cfg c20BRCfg, advSet map[uint64]bool, requestedUnion map[string]map[uint64]bool) {

	N, NL := psBR.N(), psL.N()
	twoN := uint64(2 * N)
	lq, lp := BRK.BlindRotationKeys[0].LevelQ(), BRK.BlindRotationKeys[0].LevelP()
	llq := len(psL.Q) - 1
	QLb := c20ProdBig(psL.Q)

	var log []string
	brkLog := c20BRKLog{inner: BRK, log: &log}
	tpm := map[int]*ring.Poly{}
	for _, i := range idxs {
		tpm[i] = &F
	}
	inRows := psL.ctPolys(ctL, llq)
	snap := func() map[string]string {
		m := map[string]string{"sample": c20SnapCt(ctL), "testPoly": c20SnapPoly(F)}
		var x c20Hasher
		for _, k := range BRK.BlindRotationKeys {
			c20SnapGadget(&x, &k.Value[0])
			c20SnapGadget(&x, &k.Value[1])
		}
		for _, gk := range BRK.AutomorphismKeys {
			c20SnapGadget(&x, &gk.GadgetCiphertext)
		}
		m["keys"] = fmt.Sprintf("%x", x.h)
		return m
	}
	before := snap()
	var res map[int]*rlwe.Ciphertext
	var err error
	out := Try(func() string {
		res, err = evalBR.Evaluate(ctL, tpm, brkLog)
		if err != nil {
			return "err"
		}
		return "ok"
	})
	c20Unchanged(c, "blindrot_inputs_unchanged", fmt.Sprintf("n=%d nl=%d ntt=%d lweNTTFlag=%d slots=%d seed=%d line=%d", N, NL, c20B2i(ctL.IsNTT), c20B2i(!cfg.lweCoeff), len(idxs), c.Seed, c.N),
		"blindrot-input-mutated", before, snap())
	c.Count("br:evaluate=" + out)
	c.Count("br:fn=" + fn.name)
	c.Count(fmt.Sprintf("br:slots=%d/%d ntt=%v", len(idxs), NL, ctL.IsNTT))
	{
		key, detail := "blindrot-panic", ""
		if out != "ok" {
			detail = fmt.Sprintf("Evaluate -> %s (BR moduli %d, LWE moduli %d)", out, len(psBR.Q), len(psL.Q))
			if len(psL.Q) > len(psBR.Q) {
				key = "blindrot-lwe-level-scratch"
			}
		}
		c.Probe("blindrot_no_panic", fmt.Sprintf("n=%d nl=%d nQ=%d nQlwe=%d seed=%d line=%d", N, NL, len(psBR.Q), len(psL.Q), c.Seed, c.N), key, detail)
		if out != "ok" {
			return
		}
	}

	// ---- the same sample once more, same evaluator: identical results (the sample is an input) ----
	{
		detail := ""
		var res2 map[int]*rlwe.Ciphertext
		o2 := Try(func() string {
			var e2 error
			res2, e2 = evalBR.Evaluate(ctL, tpm, BRK)
			if e2 != nil {
				return "err"
			}
			return "ok"
		})
		if o2 != "ok" {
			detail = "second Evaluate -> " + o2
		} else {
			for _, i := range idxs {
				if c20Polys(psBR.ctPolys(res[i], lq)) != c20Polys(psBR.ctPolys(res2[i], lq)) && detail == "" {
					detail = fmt.Sprintf("slot %d: the second blind rotation of the same sample differs from the first (ntt=%v)", i, ctL.IsNTT)
				}
			}
		}
		c.Probe("blindrot_evaluate_twice", fmt.Sprintf("n=%d nl=%d ntt=%d slots=%d seed=%d line=%d", N, NL, c20B2i(ctL.IsNTT), len(idxs), c.Seed, c.N), "blindrot-input-mutated", detail)
	}
	// ---- split the log per slot: "m0" (the level probe of Evaluate), then per slot "evk" + operations ----
	var perSlot [][]string
	for i, ev := range log {
		if i == 0 {
			continue // GetBlindRotationKey(0) at the top of Evaluate
		}
		if ev == "evk" {
			perSlot = append(perSlot, nil)
			continue
		}
		perSlot[len(perSlot)-1] = append(perSlot[len(perSlot)-1], ev)
	}
	logOut := make([]string, len(perSlot))
	for i := range perSlot {
		if len(perSlot[i]) == 0 {
			logOut[i] = "-"
		} else {
			logOut[i] = strings.Join(perSlot[i], ",")
		}
	}
	lweArgs := fmt.Sprintf("n=%d ql=%s nl=%d c0=%s c1=%s idx=%s", N, Vec(psL.Q), NL, Mat(inRows[0]), Mat(inRows[1]), IVec(idxs))
	if !cfg.noTie {
		c.Emit("br_sched "+lweArgs, strings.Join(logOut, "|"))
	}

	// ---- brk_keys_exact: every request is served by a generated key ----
	cfgName := fmt.Sprintf("N=%d", N)
	if requestedUnion[cfgName] == nil {
		requestedUnion[cfgName] = map[uint64]bool{}
	}
	detail := ""
	seenMul := map[int]int{}
	for si := range perSlot {
		for k := range seenMul {
			delete(seenMul, k)
		}
		for _, ev := range perSlot[si] {
			var x uint64
			if n, _ := fmt.Sscanf(ev, "a%d", &x); n == 1 && ev[0] == 'a' {
				requestedUnion[cfgName][x] = true
				if !advSet[x] && detail == "" {
					detail = fmt.Sprintf("Galois element %d requested but not generated", x)
				}
			} else if n, _ := fmt.Sscanf(ev, "m%d", &x); n == 1 && ev[0] == 'm' {
				seenMul[int(x)]++
				if int(x) >= len(BRK.BlindRotationKeys) && detail == "" {
					detail = fmt.Sprintf("blind rotation key %d requested, %d generated", x, len(BRK.BlindRotationKeys))
				}
			}
		}
		for j := 0; j < NL && detail == ""; j++ {
			if seenMul[j] > 1 {
				detail = fmt.Sprintf("slot %d: key %d used %d times", si, j, seenMul[j])
			}
		}
	}
	c.Probe("brk_keys_exact", fmt.Sprintf("n=%d nl=%d seed=%d line=%d", N, NL, c.Seed, c.N), "brk-keys", detail)

	// ---- exact tie of the outputs ----
	par := c20ParTokens(psBR, lq, lp, w)
	if !probesOnly() && !cfg.noTie {
		var sb strings.Builder
		fmt.Fprintf(&sb, "br_eval %s %s f=%s", par, lweArgs, Mat(Frows))
		evk, _ := BRK.GetEvaluationKeySet()
		gl := append([]uint64{}, evk.GetGaloisKeysList()...)
		sort.Slice(gl, func(i, j int) bool { return gl[i] < gl[j] })
		fmt.Fprintf(&sb, " gk=%s", Vec(gl))
		for i, g := range gl {
			gk, _ := evk.GetGaloisKey(g)
			k0, k1 := psBR.galoisKeyPolys(gk)
			fmt.Fprintf(&sb, " k%d0=%s k%d1=%s", i, c20Polys(k0), i, c20Polys(k1))
		}
		fmt.Fprintf(&sb, " nb=%d", len(BRK.BlindRotationKeys))
		for j, k := range BRK.BlindRotationKeys {
			fmt.Fprintf(&sb, " %s", c20RGSWArgs(fmt.Sprintf("b%d_", j), psBR.rgswPolys(k)))
		}
		// positions (within idx) whose output ciphertext is tied: all of them now and then, a few otherwise
		var tie []int
		nt := 2
		if c.Thorough() {
			nt = 3
			if c.rng.Intn(6) == 0 {
				nt = len(idxs)
			}
		}
		for _, pos := range []int{0, len(idxs) - 1, len(idxs) / 2, 1} {
			dup := false
			for _, x := range tie {
				dup = dup || x == pos
			}
			if !dup && pos >= 0 && pos < len(idxs) && len(tie) < nt {
				tie = append(tie, pos)
			}
		}
		if nt == len(idxs) {
			tie = tie[:0]
			for i := range idxs {
				tie = append(tie, i)
			}
		}
		sort.Ints(tie)
		fmt.Fprintf(&sb, " tie=%s", IVec(tie))
		outs := make([]string, len(tie))
		for i, pos := range tie {
			outs[i] = c20Polys(psBR.ctPolys(res[idxs[pos]], lq))
		}
		c.Emit(sb.String(), strings.Join(outs, "|"))
		c.Count(fmt.Sprintf("br_eval:tied-slots=%d", len(tie)))
	}

	// ---- probes per slot ----
	// intended exponent: b~[idx] + (A*S)[idx] in Z_2N[X]/(X^NL+1), A the switched mask (odd or zero), S the LWE secret
	r := psL.params.RingQ().AtLevel(llq)
	c0p, c1p := r.NewPoly(), r.NewPoly()
	for k := 0; k <= llq; k++ {
		copy(c0p.Coeffs[k], inRows[0][k])
		copy(c1p.Coeffs[k], inRows[1][k])
	}
	c0b := make([]*big.Int, NL)
	c1b := make([]*big.Int, NL)
	for i := 0; i < NL; i++ {
		c0b[i], c1b[i] = new(big.Int), new(big.Int)
	}
	r.PolyToBigint(c0p, 1, c0b)
	r.PolyToBigint(c1p, 1, c1b)
	A := make([]int64, NL)
	B := make([]int64, NL)
	for i := 0; i < NL; i++ {
		A[i] = int64(c20ModSwitch(c1b[i], QLb, twoN, true))
		B[i] = int64(c20ModSwitch(c0b[i], QLb, twoN, false))
	}
	AS := make([]int64, NL)
	for i := 0; i < NL; i++ {
		for j := 0; j < NL; j++ {
			k := i + j
			if k >= NL {
				AS[k-NL] -= A[i] * sL[j]
			} else {
				AS[k] += A[i] * sL[j]
			}
		}
	}
	// Galois/external-product counts for the noise bound
	nOps := 0
	for _, ev := range perSlot[0] {
		_ = ev
		nOps++
	}
	shape := c20Shape(BRK.BlindRotationKeys[0])
	fast := lp == -1 && lq == 0 && c20Acc32Fits(psBR.Q[0], shape[0])
	dsum, recomb := psBR.digitSum(lq, lp, w, shape, fast)
	bep := psBR.extProdNoiseBound(lq, lp, dsum, c20L1(sBR))
	Qb := c20ProdBig(psBR.Q[:lq+1])
	Fc := make([]*big.Int, N)
	for i := 0; i < N; i++ {
		col := make([]uint64, lq+1)
		for k := range col {
			col[k] = Frows[k][i]
		}
		Fc[i] = c20CRTCentered(col, psBR.Q[:lq+1])
	}
	rot := func(e int64) []*big.Int {
		out := make([]*big.Int, N)
		ee := int(((e % int64(twoN)) + int64(twoN)) % int64(twoN))
		for i := 0; i < N; i++ {
			k := (i + ee) % (2 * N)
			if k < N {
				out[k] = new(big.Int).Set(Fc[i])
			} else {
				out[k-N] = new(big.Int).Neg(Fc[i])
			}
		}
		return out
	}
	hL1 := c20L1(sL)
	levelDetail := ""
	defer func() {
		c.Probe("blindrot_result_level", fmt.Sprintf("n=%d nl=%d keyLevelQ=%d maxLevelQ=%d seed=%d", N, NL, lq, len(psBR.Q)-1, c.Seed), "blindrot-result-level", levelDetail)
	}()
	for si, idx := range idxs {
		eStar := B[idx] + AS[idx]
		// classes of mask coefficients the code treats differently from their value
		minusOne, zero := false, false
		// the slot mask: coefficient j multiplies s_j
		for j := 0; j < NL; j++ {
			// a_slot[j] = +-A[(idx - j) mod NL]
			var v int64
			if j <= idx {
				v = A[idx-j]
			} else {
				v = -A[NL+idx-j]
			}
			v = ((v % int64(twoN)) + int64(twoN)) % int64(twoN)
			if sL[j] != 0 {
				if v == int64(twoN)-1 {
					minusOne = true
				}
				if v == 0 {
					zero = true
				}
			}
		}
		bound := new(big.Int).Mul(bep, big.NewInt(int64(len(perSlot[si])+1)))
		phase := psBR.phaseBig(res[idx], skBR, lq)
		want := rot(eStar)
		if rl := res[idx].Level(); rl != lq && levelDetail == "" {
			levelDetail = fmt.Sprintf("slot %d: result reports level %d, the blind-rotation keys are at level %d", idx, rl, lq)
			if rl > lq && rl < len(psBR.Q) {
				Qfull := c20ProdBig(psBR.Q[:rl+1])
				nf := c20DistModQ(psBR.phaseBig(res[idx], skBR, rl), want, Qfull)
				levelDetail += fmt.Sprintf("; decrypted at the reported level it is off by 2^%d (modulus 2^%d), at the key level by %s", nf.BitLen(), Qfull.BitLen(), c20DistModQ(phase, want, Qb))
			}
		}
		noise := c20DistModQ(phase, want, Qb)
		key := "blindrot-exponent"
		switch {
		case fast && w == 0:
			key = "extprod32-zero-mask"
		case !recomb:
			key = "base2-digit-count"
		case minusOne:
			key = "blindrot-dlog-minus-one"
		case zero:
			key = "blindrot-dlog-zero"
		}
		detail := ""
		if new(big.Int).Lsh(bound, 2).Cmp(Qb) >= 0 && key == "blindrot-exponent" {
			c.Count("blindrot_exponent:vacuous-bound")
		} else if noise.Cmp(bound) > 0 {
			detail = fmt.Sprintf("slot=%d exponent=%d noise=%s bound=%s logQ=%d minusOne=%v zero=%v", idx, ((eStar%int64(twoN))+int64(twoN))%int64(twoN), noise, bound, Qb.BitLen(), minusOne, zero)
		}
		pa := fmt.Sprintf("%s nl=%d fn=%s slot=%d k=%d hw=%d seed=%d line=%d", par, NL, fn.name, idx, ks[idx], hL1, c.Seed, c.N)
		c.Probe("blindrot_exponent", pa, key, detail)
		if key == "blindrot-dlog-minus-one" || key == "blindrot-dlog-zero" {
			c.Count("blindrot_exponent:class=" + key)
		}

		// blindrot_lookup: the constant coefficient is f at a grid point within the drift of the modulus switch
		// of the ideal one: |k' - k| <= 1/2 + (3/2)||s||_1 + 1, and there the value is scale*f(x_k') up to the noise.
		drift := int((1 + 3*hL1 + 1) / 2)
		drift++
		ok := false
		kIdeal := ks[idx]
		for d := -drift; d <= drift && !ok; d++ {
			kk := kIdeal + d
			x := (float64(kk)/float64(N/2)*(fn.b-fn.a) + fn.b + fn.a) / 2
			var y float64
			// exponents wrap negacyclically: outside [-N/2, N/2) the look-up returns -f of the reflected point
			kw := ((kk+N)%(2*N)+2*N)%(2*N) - N // in [-N, N)
			sg := 1.0
			if kw >= N/2 {
				kw -= N
				sg = -1
			} else if kw < -N/2 {
				kw += N
				sg = -1
			}
			x = (float64(kw)/float64(N/2)*(fn.b-fn.a) + fn.b + fn.a) / 2
			y = sg * fn.f(x)
			wantF := new(big.Float).Mul(big.NewFloat(scale), big.NewFloat(y))
			wi, _ := wantF.Int(nil)
			dd := new(big.Int).Sub(phase[0], wi)
			dd.Mod(dd, Qb)
			if dd.Cmp(new(big.Int).Rsh(Qb, 1)) > 0 {
				dd.Sub(dd, Qb)
			}
			dd.Abs(dd)
			if dd.Cmp(new(big.Int).Add(bound, big.NewInt(2))) <= 0 {
				ok = true
			}
		}
		key2 := "blindrot-lookup"
		switch {
		case fast && w == 0:
			key2 = "extprod32-zero-mask"
		case !recomb:
			key2 = "base2-digit-count"
		}
		d2 := ""
		if new(big.Int).Lsh(bound, 2).Cmp(Qb) >= 0 && key2 == "blindrot-lookup" {
			c.Count("blindrot_lookup:vacuous-bound")
		} else if !ok {
			d2 = fmt.Sprintf("slot=%d k=%d drift<=%d constant coefficient=%s bound=%s", idx, kIdeal, drift, phase[0], bound)
		}
		// the exact end point: f(b) itself (no drift allowance towards the wrap-around)
		c.Probe("blindrot_lookup", pa, key2, d2)
	}
}

// c20BRKeyArgs: the Galois keys and the blind-rotation keys as line tokens (gk, k<i>0/1, nb, b<j>_..).
func c20BRKeyArgs(psBR *c20PS, BRK blindrot.MemBlindRotationEvaluationKeySet) string {
	var sb strings.Builder
	evk, _ := BRK.GetEvaluationKeySet()
	gl := append([]uint64{}, evk.GetGaloisKeysList()...)
	sort.Slice(gl, func(i, j int) bool { return gl[i] < gl[j] })
	fmt.Fprintf(&sb, "gk=%s", Vec(gl))
	for i, g := range gl {
		gk, _ := evk.GetGaloisKey(g)
		k0, k1 := psBR.galoisKeyPolys(gk)
		fmt.Fprintf(&sb, " k%d0=%s k%d1=%s", i, c20Polys(k0), i, c20Polys(k1))
	}
	fmt.Fprintf(&sb, " nb=%d", len(BRK.BlindRotationKeys))
	for j, k := range BRK.BlindRotationKeys {
		fmt.Fprintf(&sb, " %s", c20RGSWArgs(fmt.Sprintf("b%d_", j), psBR.rgswPolys(k)))
	}
	return sb.String()
}

// c20BRCore: the entry point BlindRotateCore called directly: acc = (phi_{2N-5}(F*X^b), 0), a mask with odd, zero and
// 2N-1 entries.  Probes: the mask, the keys are unchanged; the accumulator decrypts to F*X^(b + <a, s>).
func c20BRCore(c *Ctx, psBR, psL *c20PS, evalBR *blindrot.Evaluator, BRK blindrot.MemBlindRotationEvaluationKeySet,
	skBR *rlwe.SecretKey, sBR, sL []int64, F ring.Poly, w int, noTie bool) {
	N, NL := psBR.N(), psL.N()
	twoN := uint64(2 * N)
	lq, lp := BRK.BlindRotationKeys[0].LevelQ(), BRK.BlindRotationKeys[0].LevelP()
	ringQ := psBR.params.RingQ().AtLevel(lq)
	a := make([]uint64, NL)
	for j := range a {
		switch c.rng.Intn(8) {
		case 0:
			a[j] = 0
		case 1:
			a[j] = twoN - 1
		case 2:
			a[j] = 1
		default:
			a[j] = uint64(2*c.rng.Intn(N)) + 1
		}
	}
	b := c.rng.Intn(2 * N)
	acc := rlwe.NewCiphertext(psBR.params, 1, psBR.params.MaxLevel())
	acc.IsNTT = true
	Xb := ringQ.NewMonomialXi(b)
	ringQ.NTT(Xb, Xb)
	ringQ.MForm(Xb, Xb)
	tmp := ringQ.NewPoly()
	ringQ.MulCoeffsMontgomery(F, Xb, tmp)
	ringQ.AutomorphismNTT(tmp, ringQ.NthRoot()-ring.GaloisGen, acc.Value[0])
	aCopy := append([]uint64(nil), a...)
	accIn := psBR.ctPolys(acc, lq)
	var x0 c20Hasher
	for _, k := range BRK.BlindRotationKeys {
		c20SnapGadget(&x0, &k.Value[0])
		c20SnapGadget(&x0, &k.Value[1])
	}
	out := Try(func() string {
		if err := evalBR.BlindRotateCore(a, acc, BRK); err != nil {
			return "err"
		}
		return "ok"
	})
	var x1 c20Hasher
	for _, k := range BRK.BlindRotationKeys {
		c20SnapGadget(&x1, &k.Value[0])
		c20SnapGadget(&x1, &k.Value[1])
	}
	if out == "ok" && !noTie && !probesOnly() {
		// model-level tie of the entry point: the accumulator after the schedule of the mask, exactly
		c.Emit(fmt.Sprintf("br_core %s a=%s acc=%s %s", c20ParTokens(psBR, lq, lp, w), Vec(aCopy), c20Polys(accIn), c20BRKeyArgs(psBR, BRK)),
			c20Polys(psBR.ctPolys(acc, lq)))
	}
	c20Unchanged(c, "blindrot_inputs_unchanged", fmt.Sprintf("n=%d nl=%d entry=BlindRotateCore seed=%d line=%d", N, NL, c.Seed, c.N), "blindrot-input-mutated",
		map[string]string{"a": Vec(aCopy), "keys": fmt.Sprintf("%x", x0.h)}, map[string]string{"a": Vec(a), "keys": fmt.Sprintf("%x", x1.h)})
	detail := ""
	if out != "ok" {
		detail = "BlindRotateCore -> " + out
	} else {
		e := int64(b)
		for j := range a {
			e += int64(a[j]) * sL[j]
		}
		ee := int(((e % int64(twoN)) + int64(twoN)) % int64(twoN))
		// F * X^ee
		Frows := psBR.canonQ(F, lq, true, false)
		want := make([]*big.Int, N)
		for i := 0; i < N; i++ {
			col := make([]uint64, lq+1)
			for k := range col {
				col[k] = Frows[k][i]
			}
			v := c20CRTCentered(col, psBR.Q[:lq+1])
			k := (i + ee) % (2 * N)
			if k < N {
				want[k] = v
			} else {
				want[k-N] = new(big.Int).Neg(v)
			}
		}
		shape := c20Shape(BRK.BlindRotationKeys[0])
		fast := lp == -1 && lq == 0 && c20Acc32Fits(psBR.Q[0], shape[0])
		dsum, _ := psBR.digitSum(lq, lp, w, shape, fast)
		bound := psBR.extProdNoiseBound(lq, lp, dsum, c20L1(sBR))
		bound.Mul(bound, big.NewInt(int64(2*NL+2*N)))
		Qb := c20ProdBig(psBR.Q[:lq+1])
		noise := c20DistModQ(psBR.phaseBig(acc, skBR, lq), want, Qb)
		if new(big.Int).Lsh(bound, 2).Cmp(Qb) >= 0 {
			c.Count("blindrot_core:vacuous-bound")
		} else if noise.Cmp(bound) > 0 {
			detail = fmt.Sprintf("exponent=%d noise=%s bound=%s", ee, noise, bound)
		}
	}
	c.Probe("blindrot_core_exponent", fmt.Sprintf("n=%d nl=%d a=%s b=%d seed=%d line=%d", N, NL, Vec(aCopy), b, c.Seed, c.N), "blindrot-exponent", detail)
}

// c20MonomialInts: X^e in Z[X]/(X^N+1) as a signed coefficient vector, e any integer.
func c20MonomialInts(N int, e int64) []int64 {
	g := make([]int64, N)
	r := int(((e % int64(2*N)) + int64(2*N)) % int64(2*N))
	if r < N {
		g[r] = 1
	} else {
		g[r-N] = -1
	}
	return g
}

func c20Distinct(o []int) int {
	m := map[int]bool{}
	for _, v := range o {
		m[v] = true
	}
	return len(m)
}
