package main

func c20GenBlindRot(c *Ctx) {}
