package main

// C19 — large parameter objects through the codecs, and the derived ckks quantities around the PREC64 / PREC128 switch.
//
//   params_large_roundtrip     parameter sets the constructors accept whose encoding is LARGE (tens to hundreds of primes,
//                              encodings of 1 KiB … 10+ KiB) survive MarshalBinary→UnmarshalBinary, MarshalJSON→UnmarshalJSON
//                              and WriteTo→ReadFrom (byte counts = BinarySize, the reader stops at the end of the object) with
//                              every observable intact, for rlwe / ckks / bgv / bootstrapping Parameters.
//                              Key C19-codec:Parameters.large
//   ckks_derived_definitions   PrecisionMode (PREC64 iff the default scale is at most 2^64, as documented),
//                              LevelsConsumedPerRescaling (1 / 2), MaxDepth = MaxLevel / LevelsConsumedPerRescaling, LogQLvl /
//                              QLvl = the product of Q[:level+1], GetOptimalScalingFactor = the product of the primes one
//                              rescaling drops, EncodingPrecision, LogDefaultScale — at LogDefaultScale ∈ {59 … 128} and prime
//                              sizes up to the 61 bits the constructor accepts.  Key C19-ckks-derived
//   ckks_rescale_levels        functional: encrypt x, x·x, Relinearize, Rescale: the level drops by exactly the documented number
//                              (1 for scales up to 2^64, else 2), the scale is divided by exactly the dropped primes, x² decrypts,
//                              and MaxDepth such multiplications are possible.  Key C19-ckks-rescale

import (
	"bufio"
	"bytes"
	"fmt"
	"io"
	"math"
	"math/big"
	"reflect"

	"github.com/tuneinsight/lattigo/v6/circuits/ckks/bootstrapping"
	"github.com/tuneinsight/lattigo/v6/core/rlwe"
	"github.com/tuneinsight/lattigo/v6/ring"
	"github.com/tuneinsight/lattigo/v6/schemes/bgv"
	"github.com/tuneinsight/lattigo/v6/schemes/ckks"
	"github.com/tuneinsight/lattigo/v6/utils/buffer"
)

// c19Primes: k distinct NTT-friendly primes of about `bitsz` bits for the ring degree 2^logN (both ring types: 1 mod 4N).
func c19Primes(bitsz, logN, k int, avoid map[uint64]bool) []uint64 {
	g := ring.NewNTTFriendlyPrimesGenerator(uint64(bitsz), uint64(4)<<uint(logN))
	out := make([]uint64, 0, k)
	for len(out) < k {
		var ps []uint64
		var err error
		if bitsz >= 61 {
			ps, err = g.NextDownstreamPrimes(k - len(out)) // below 2^61: the constructors accept bit lengths up to 61
		} else {
			ps, err = g.NextAlternatingPrimes(k - len(out))
		}
		if err != nil {
			panic(err)
		}
		for _, p := range ps {
			if !avoid[p] {
				avoid[p] = true
				out = append(out, p)
			}
		}
	}
	return out
}

// c19StreamRoundTrip: WriteTo a buffer followed by trailing bytes, ReadFrom it back.
func c19StreamRoundTrip(p rlwe.Parameters) string {
	return Try(func() string {
		var buf bytes.Buffer
		n, err := p.WriteTo(&buf)
		if err != nil {
			return "WriteTo: " + c19Sanitize(err.Error())
		}
		mb, err := p.MarshalBinary()
		if err != nil {
			return "MarshalBinary: " + c19Sanitize(err.Error())
		}
		if int(n) != buf.Len() || int(n) != p.BinarySize() || !bytes.Equal(buf.Bytes(), mb) {
			return fmt.Sprintf("WriteTo wrote %d bytes (reported %d), BinarySize %d, MarshalBinary %d bytes", buf.Len(), n, p.BinarySize(), len(mb))
		}
		trailer := []byte{0xde, 0xad, 0xbe, 0xef, 1, 2, 3}
		buf.Write(trailer)
		for _, how := range []string{"io.Reader", "buffer.Reader"} {
			var q rlwe.Parameters
			var m int64
			src := bytes.NewReader(buf.Bytes())
			var rest []byte
			if how == "io.Reader" {
				m, err = q.ReadFrom(src) // wraps in a bufio.Reader: may read ahead, only the count is checked
			} else {
				var br buffer.Reader = bufio.NewReader(src)
				m, err = q.ReadFrom(br)
				rest, _ = io.ReadAll(br)
			}
			if err != nil {
				return fmt.Sprintf("ReadFrom(%s) of %d bytes written by WriteTo: %s", how, n, c19Sanitize(err.Error()))
			}
			if m != n {
				return fmt.Sprintf("ReadFrom(%s) reports %d bytes, WriteTo wrote %d", how, m, n)
			}
			if how == "buffer.Reader" && !bytes.Equal(rest, trailer) {
				return fmt.Sprintf("ReadFrom(%s) did not stop at the end of the object: %d bytes left of %d", how, len(rest), len(trailer))
			}
			if d := c19RlweObservables(&p, &q); d != "" {
				return "ReadFrom(" + how + "): " + d
			}
		}
		return ""
	})
}

type c19Fresh = func() interface {
	c19Encodable
	UnmarshalBinary([]byte) error
	UnmarshalJSON([]byte) error
}

func c19LargeProbes(c *Ctx) {
	type chain struct {
		logN, nQ, bQ, nP, bP int
		rt                   ring.Type
		thorough             bool
	}
	chains := []chain{
		{12, 20, 55, 2, 56, ring.Standard, false}, // ≈ 0.6 KiB: below every threshold (control)
		{12, 43, 55, 0, 0, ring.Standard, false},  // ≈ 1 KiB
		{12, 56, 55, 4, 56, ring.Standard, false}, // ≈ 1.35 KiB: the LogN=17 shape of a deep circuit, small ring
		{11, 120, 40, 6, 41, ring.ConjugateInvariant, false},
		{10, 200, 30, 0, 0, ring.Standard, false},   // ≈ 2 KiB
		{10, 150, 60, 10, 61, ring.Standard, false}, // ≈ 3.5 KiB, 60/61-bit primes
		{10, 400, 30, 0, 0, ring.Standard, true},    // ≈ 4 KiB
		{10, 300, 60, 30, 61, ring.Standard, true},  // ≈ 7 KiB
		{10, 1500, 36, 0, 0, ring.Standard, true},   // ≈ 17 KiB
		{16, 43, 55, 3, 56, ring.Standard, true},
		{17, 56, 55, 4, 56, ring.Standard, false}, // LogN=17, logQP ≈ 3300: 1354 bytes
		{16, 30, 55, 2, 56, ring.ConjugateInvariant, true},
		{17, 100, 45, 8, 46, ring.Standard, true},
		{14, 3000, 40, 10, 41, ring.Standard, true},
	}
	freshRlwe := func() interface {
		c19Encodable
		UnmarshalBinary([]byte) error
		UnmarshalJSON([]byte) error
	} {
		return new(rlwe.Parameters)
	}
	for _, ch := range chains {
		if ch.thorough && !c.Thorough() {
			continue
		}
		avoid := map[uint64]bool{}
		Q := c19Primes(ch.bQ, ch.logN, ch.nQ, avoid)
		var P []uint64
		if ch.nP > 0 {
			P = c19Primes(ch.bP, ch.logN, ch.nP, avoid)
		}
		tag := fmt.Sprintf("logN=%d rt=%d nQ=%d bitsQ=%d nP=%d bitsP=%d", ch.logN, int(ch.rt), ch.nQ, ch.bQ, ch.nP, ch.bP)
		key := "C19-codec:Parameters.large"

		// rlwe: long custom fields too (a 128-bit non-integer scale with a 64-bit modulus, Gaussian secrets and errors)
		sc := rlwe.NewScaleModT(new(big.Float).SetPrec(128).Quo(new(big.Float).SetInt(c19Pow2(127, 12345)), big.NewFloat(3)), ^uint64(0)-58)
		rp, err := rlwe.NewParametersFromLiteral(rlwe.ParametersLiteral{LogN: ch.logN, Q: Q, P: P, RingType: ch.rt, NTTFlag: true, DefaultScale: sc,
			Xs: ring.DiscreteGaussian{Sigma: 3.19999999999999973, Bound: 19.199999999999999289}, Xe: ring.DiscreteGaussian{Sigma: 3.2000000000000001776, Bound: 19.200000000000002842}})
		d, size := "", 0
		if err != nil {
			d = "constructor: " + c19Sanitize(err.Error())
		} else {
			size = rp.BinarySize()
			if d = c19ObservablesRoundTrip(rp, freshRlwe, func(x interface{}) string { return c19RlweObservables(&rp, x.(*rlwe.Parameters)) }); d == "" {
				d = c19StreamRoundTrip(rp)
			}
		}
		c.Probe("params_large_roundtrip", fmt.Sprintf("type=rlwe %s bytes=%d", tag, size), key, c19Sanitize(d))

		// ckks on the same chain (binary = JSON of the literal; the embedded rlwe layer goes through the length-prefixed codec)
		cp, err := ckks.NewParametersFromLiteral(ckks.ParametersLiteral{LogN: ch.logN, Q: Q, P: P, RingType: ch.rt, LogDefaultScale: ch.bQ})
		d, size = "", 0
		if err != nil {
			d = "constructor: " + c19Sanitize(err.Error())
		} else {
			b, _ := cp.MarshalBinary()
			size = len(b)
			d = c19ObservablesRoundTrip(cp, func() interface {
				c19Encodable
				UnmarshalBinary([]byte) error
				UnmarshalJSON([]byte) error
			} {
				return new(ckks.Parameters)
			}, func(x interface{}) string {
				y := x.(*ckks.Parameters)
				if y.LogDefaultScale() != cp.LogDefaultScale() || y.MaxDepth() != cp.MaxDepth() {
					return "LogDefaultScale / MaxDepth"
				}
				return c19RlweObservables(&cp.Parameters, &y.Parameters)
			})
			if d == "" {
				e := cp.Parameters
				if d = c19ObservablesRoundTrip(e, freshRlwe, func(x interface{}) string { return c19RlweObservables(&e, x.(*rlwe.Parameters)) }); d == "" {
					d = c19StreamRoundTrip(e)
				}
				if d != "" {
					d = "embedded rlwe.Parameters: " + d
				}
			}
		}
		c.Probe("params_large_roundtrip", fmt.Sprintf("type=ckks %s bytes=%d", tag, size), key, c19Sanitize(d))

		// bgv on the same chain (standard ring only)
		if ch.rt == ring.Standard {
			t := uint64(65537)
			if ch.logN >= 16 {
				t = 786433 // 1 mod 2^18
			}
			bp, err := bgv.NewParametersFromLiteral(bgv.ParametersLiteral{LogN: ch.logN, Q: Q, P: P, PlaintextModulus: t})
			d, size = "", 0
			if err != nil {
				d = "constructor: " + c19Sanitize(err.Error())
			} else {
				b, _ := bp.MarshalBinary()
				size = len(b)
				d = c19ObservablesRoundTrip(bp, func() interface {
					c19Encodable
					UnmarshalBinary([]byte) error
					UnmarshalJSON([]byte) error
				} {
					return new(bgv.Parameters)
				}, func(x interface{}) string {
					y := x.(*bgv.Parameters)
					if y.PlaintextModulus() != t {
						return "PlaintextModulus"
					}
					return c19RlweObservables(&bp.Parameters, &y.Parameters)
				})
				if d == "" {
					e := bp.Parameters
					if d = c19ObservablesRoundTrip(e, freshRlwe, func(x interface{}) string { return c19RlweObservables(&e, x.(*rlwe.Parameters)) }); d == "" {
						d = c19StreamRoundTrip(e)
					}
					if d != "" {
						d = "embedded rlwe.Parameters: " + d
					}
				}
			}
			c.Probe("params_large_roundtrip", fmt.Sprintf("type=bgv %s t=%d bytes=%d", tag, t, size), key, c19Sanitize(d))
		}
	}

	// bootstrapping.Parameters over a long residual chain, with long custom fields
	for _, nQ := range []int{8, 60, 250} {
		logN := 10
		avoid := map[uint64]bool{}
		Q := append(c19Primes(55, logN, 1, avoid), c19Primes(40, logN, nQ-1, avoid)...)
		P := c19Primes(61, logN, 3, avoid)
		d, size := "", 0
		res, err := ckks.NewParametersFromLiteral(ckks.ParametersLiteral{LogN: logN, Q: Q, P: P, LogDefaultScale: 40, Xs: ring.Ternary{H: 64}})
		if err != nil {
			d = "residual constructor: " + c19Sanitize(err.Error())
		} else {
			eph, k := 16, 64
			prec := make([]float64, 40)
			for i := range prec {
				prec[i] = 20.123456789012345 + float64(i)/7
			}
			c2s := [][]int{{56}, {56}, {56}, {28, 28}}
			s2c := [][]int{{39}, {39}, {20, 19}}
			lit := bootstrapping.ParametersLiteral{LogN: &logN, LogP: []int{61, 61, 61}, EphemeralSecretWeight: &eph, K: &k,
				CoeffsToSlotsFactorizationDepthAndLogScales: c2s, SlotsToCoeffsFactorizationDepthAndLogScales: s2c,
				IterationsParameters: &bootstrapping.IterationsParameters{BootstrappingPrecision: prec, ReservedPrimeBitSize: 28}}
			btp, e := bootstrapping.NewParametersFromLiteral(res, lit)
			if e != nil {
				d = "constructor: " + c19Sanitize(e.Error())
			} else {
				for _, cd := range []c19Codec{c19BinaryCodec(), c19JSONCodec()} {
					if d != "" {
						break
					}
					d = Try(func() string {
						b, err := cd.enc(btp)
						if err != nil {
							return cd.name + ": encode: " + c19Sanitize(err.Error())
						}
						size = len(b)
						into := new(bootstrapping.Parameters)
						if err = cd.dec(b, into); err != nil {
							return cd.name + ": decode: " + c19Sanitize(err.Error())
						}
						if s := c19Same(reflect.ValueOf(btp), reflect.ValueOf(*into), "bootstrapping.Parameters", false); s != "" {
							return cd.name + ": " + c19Sanitize(s)
						}
						if !btp.Equal(into) {
							return cd.name + ": the decoded object is not Equal to the original"
						}
						b2, err := cd.enc(*into)
						if err != nil || !bytes.Equal(b, b2) {
							return cd.name + ": re-encoding the decoded object gives different bytes"
						}
						return ""
					})
				}
			}
		}
		c.Probe("params_large_roundtrip", fmt.Sprintf("type=bootstrapping logN=%d residual nQ=%d bytes=%d", logN, nQ, size), "C19-codec:Parameters.large", c19Sanitize(d))
	}
}

// ---------------------------------------------------------------- ckks: derived quantities and rescaling

func c19CkksDerived(c *Ctx) {
	logN := 9
	type cfg struct {
		lds  int
		bits []int // sizes of Q[1:], Q[0] is 61 bits
	}
	var cfgs []cfg
	for _, lds := range []int{30, 45, 53, 59, 60, 61, 62, 63, 64, 65, 66, 90, 120, 122, 128} {
		for _, b := range []int{45, 55, 60, 61} {
			cfgs = append(cfgs, cfg{lds, []int{b, b, b, b, b}})
			cfgs = append(cfgs, cfg{lds, []int{b, b, b, b}})
		}
	}
	for _, g := range cfgs {
		avoid := map[uint64]bool{}
		Q := c19Primes(61, logN, 1, avoid)
		Q = append(Q, c19Primes(g.bits[0], logN, len(g.bits), avoid)...)
		P := c19Primes(61, logN, 2, avoid)
		args := fmt.Sprintf("lds=%d bitsQ=%d nQ=%d", g.lds, g.bits[0], len(Q))
		d := Try(func() string {
			p, err := ckks.NewParametersFromLiteral(ckks.ParametersLiteral{LogN: logN, Q: Q, P: P, LogDefaultScale: g.lds})
			if err != nil {
				return "constructor: " + c19Sanitize(err.Error())
			}
			ds := p.DefaultScale()
			if p.LogDefaultScale() != g.lds || ds.Value.Cmp(new(big.Float).SetInt(c19Pow2(uint(g.lds), 0))) != 0 {
				return fmt.Sprintf("LogDefaultScale()=%d, DefaultScale()=%s for the literal's LogDefaultScale=%d", p.LogDefaultScale(), ds.Value.Text('g', 20), g.lds)
			}
			// documented: PREC64 supports scaling factors of up to 2^64, PREC128 beyond
			wantMode, wantLv := ckks.PREC64, 1
			if g.lds > 64 {
				wantMode, wantLv = ckks.PREC128, 2
			}
			if p.PrecisionMode() != wantMode {
				return fmt.Sprintf("PrecisionMode()=%d for a default scale 2^%d: PREC64 (0) is documented for scales up to 2^64, PREC128 (1) beyond", p.PrecisionMode(), g.lds)
			}
			if p.LevelsConsumedPerRescaling() != wantLv {
				return fmt.Sprintf("LevelsConsumedPerRescaling()=%d for a default scale 2^%d, documented %d", p.LevelsConsumedPerRescaling(), g.lds, wantLv)
			}
			if p.MaxLevel() != len(Q)-1 || p.MaxDepth() != (len(Q)-1)/wantLv {
				return fmt.Sprintf("MaxLevel()=%d MaxDepth()=%d for %d primes and %d level(s) per rescaling", p.MaxLevel(), p.MaxDepth(), len(Q), wantLv)
			}
			wantPrec := uint(53)
			if g.lds > 53 {
				wantPrec = uint(g.lds)
			}
			if p.EncodingPrecision() != wantPrec {
				return fmt.Sprintf("EncodingPrecision()=%d, max(53, %d) is documented", p.EncodingPrecision(), g.lds)
			}
			prod := big.NewInt(1)
			for l := range Q {
				prod.Mul(prod, new(big.Int).SetUint64(Q[l]))
				if p.QLvl(l).Cmp(prod) != 0 || p.LogQLvl(l) != prod.BitLen() {
					return fmt.Sprintf("QLvl(%d) / LogQLvl(%d)=%d, the product of Q[:%d] has %d bits", l, l, p.LogQLvl(l), l+1, prod.BitLen())
				}
			}
			for l := wantLv; l < len(Q); l++ {
				want := new(big.Int).SetUint64(Q[l])
				if wantLv == 2 {
					want.Mul(want, new(big.Int).SetUint64(Q[l-1]))
				}
				got := p.GetOptimalScalingFactor(rlwe.NewScale(1), rlwe.NewScale(1), l)
				if got.Value.Cmp(new(big.Float).SetPrec(256).SetInt(want)) != 0 {
					return fmt.Sprintf("GetOptimalScalingFactor(level %d)=%s, the %d prime(s) a rescaling drops multiply to %s", l, got.Value.Text('f', 0), wantLv, want.String())
				}
			}
			if p.MaxSlots() != 1<<(logN-1) || p.LogMaxSlots() != logN-1 {
				return "MaxSlots / LogMaxSlots"
			}
			return ""
		})
		c.Probe("ckks_derived_definitions", args, "C19-ckks-derived", c19Sanitize(d))
	}

	// functional: x -> x^2 with Rescale, MaxDepth times
	type fcfg struct {
		lds  int
		bits int // size of the primes a rescaling drops
		n    int // number of such primes
	}
	for _, g := range []fcfg{{45, 45, 4}, {55, 55, 3}, {59, 59, 3}, {60, 60, 4}, {61, 61, 4}, {61, 61, 3}, {62, 61, 4}, {63, 61, 4}, {64, 61, 4},
		{65, 33, 4}, {66, 33, 6}, {90, 45, 4}, {90, 45, 6}, {120, 60, 4}, {122, 61, 4}, {128, 61, 4}} {
		fl := 10
		avoid := map[uint64]bool{}
		Q := c19Primes(61, fl, 1, avoid)
		Q = append(Q, c19Primes(61, fl, 1, avoid)...) // two base primes: room for the squared scale at the end
		Q = append(Q, c19Primes(g.bits, fl, g.n, avoid)...)
		P := c19Primes(61, fl, 2, avoid)
		args := fmt.Sprintf("lds=%d bits=%d nQ=%d", g.lds, g.bits, len(Q))
		d := Try(func() string {
			p, err := ckks.NewParametersFromLiteral(ckks.ParametersLiteral{LogN: fl, Q: Q, P: P, LogDefaultScale: g.lds})
			if err != nil {
				return "constructor: " + c19Sanitize(err.Error())
			}
			wantLv := 1
			if g.lds > 64 {
				wantLv = 2
			}
			kgen := rlwe.NewKeyGenerator(p)
			sk := kgen.GenSecretKeyNew()
			rlk := kgen.GenRelinearizationKeyNew(sk)
			eval := ckks.NewEvaluator(p, rlwe.NewMemEvaluationKeySet(rlk))
			ecd := ckks.NewEncoder(p)
			enc := rlwe.NewEncryptor(p, sk)
			dec := rlwe.NewDecryptor(p, sk)
			n := p.MaxSlots()
			want := make([]complex128, n)
			for i := range want {
				want[i] = complex(0.9*math.Cos(float64(i)), 0.4*math.Sin(float64(3*i+1)))
			}
			pt := ckks.NewPlaintext(p, p.MaxLevel())
			if err = ecd.Encode(want, pt); err != nil {
				return "Encode: " + c19Sanitize(err.Error())
			}
			ct, err := enc.EncryptNew(pt)
			if err != nil {
				return "Encrypt: " + c19Sanitize(err.Error())
			}
			depth := 0
			for ct.Level() >= wantLv+1 { // keep the two base primes
				lvl := ct.Level()
				// the squared, rescaled scale must leave room below the remaining modulus
				next := new(big.Float).Mul(&ct.Scale.Value, &ct.Scale.Value)
				for i := 0; i < wantLv; i++ {
					next.Quo(next, new(big.Float).SetUint64(Q[lvl-i]))
				}
				if e := next.MantExp(nil); e+8 > p.LogQLvl(lvl-wantLv) {
					break
				}
				sq, err := eval.MulRelinNew(ct, ct)
				if err != nil {
					return "MulRelin: " + c19Sanitize(err.Error())
				}
				wantScale := sq.Scale
				for i := 0; i < wantLv; i++ {
					wantScale = wantScale.Div(rlwe.NewScale(Q[lvl-i]))
				}
				if err = eval.Rescale(sq, sq); err != nil {
					return fmt.Sprintf("Rescale at level %d: %s", lvl, c19Sanitize(err.Error()))
				}
				if sq.Level() != lvl-wantLv {
					return fmt.Sprintf("Rescale at level %d with the default scale 2^%d gives level %d: %d level(s) per rescaling are documented", lvl, g.lds, sq.Level(), wantLv)
				}
				if sq.Scale.Cmp(wantScale) != 0 {
					return fmt.Sprintf("Rescale at level %d: the scale is not the input scale divided by the %d dropped prime(s)", lvl, wantLv)
				}
				for i := range want {
					want[i] *= want[i]
				}
				ct = sq
				depth++
				got := make([]complex128, n)
				if err = ecd.Decode(dec.DecryptNew(ct), got); err != nil {
					return "Decode: " + c19Sanitize(err.Error())
				}
				for i := range want {
					if e := got[i] - want[i]; math.Hypot(real(e), imag(e)) > 1e-6 {
						return fmt.Sprintf("after %d squaring(s) (level %d) slot %d decrypts with error %.3g", depth, ct.Level(), i, math.Hypot(real(e), imag(e)))
					}
				}
			}
			if depth == 0 {
				return "no squaring was possible"
			}
			if p.MaxDepth() != (len(Q)-1)/wantLv {
				return fmt.Sprintf("MaxDepth()=%d, %d primes above Q[0] and %d per rescaling", p.MaxDepth(), len(Q)-1, wantLv)
			}
			return ""
		})
		c.Probe("ckks_rescale_levels", args, "C19-ckks-rescale", c19Sanitize(d))
	}
}
