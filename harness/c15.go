package main

// C15 — t-out-of-N threshold secret sharing (multiparty/threshold.go).
//
// Tie lines (the Lean model must reproduce the raw output words exactly):
//   genpoly, share, agg, aggall, addshare, run      (see lean/Driver/C15.lean for the grammar)
// Probe lines (property predicates evaluated on the real code):
//   reconstruct   for a t-subset S and a set of orderings of S: every party derives the same
//                 additive share whatever the ordering, and the shares sum to the ideal secret key
//   too_few       fewer than t active points ⇒ error, output untouched
//   agg_order     aggregating the received Shamir shares in another order gives the same share
//   history / receiver-reuse probes: see c15_history.go; wrapped-difference points and N = 7, 8
//                 with 61-bit moduli: see c15_wide.go; both documented forms of NewCombiner's `others`
//                 (own point included / excluded / duplicated) x every t incl. t = N: see c15_combiner.go;
//                 one Combiner serving a sequence of groups (re-used active-list buffers) and the
//                 structure / rank of the Shamir polynomial: see c15_sequence.go
//   reconstruct_collide   at points that are distinct non-zero uint64s but collide modulo one of
//                 the primes (the hypothesis the Lean reconstruction proof forces): the two colliding
//                 parties' GenAdditiveShare must return an error and leave the output untouched, the
//                 other parties' calls succeed, nobody panics — never a wrong key.  (Failed on the
//                 library before fix 98b63bb, finding C15-collision-mod-prime: a wrong key was
//                 silently produced.)

import (
	"fmt"
	"strings"

	"github.com/tuneinsight/lattigo/v6/core/rlwe"
	"github.com/tuneinsight/lattigo/v6/multiparty"
	"github.com/tuneinsight/lattigo/v6/ring"
	"github.com/tuneinsight/lattigo/v6/ring/ringqp"
)

func init() { register("C15", genC15) }

type c15Set struct {
	name   string
	params rlwe.Parameters
	ringQP *ringqp.Ring
	nq     int
	ms     []uint64
	n      int
}

func c15NTTPrime(start uint64, twoN uint64, skip int) uint64 {
	c := start - (start % twoN) + 1
	for {
		if ring.IsPrime(c) {
			if skip == 0 {
				return c
			}
			skip--
		}
		c -= twoN
	}
}

func c15NewSet(name string, logN int, q, p []uint64) c15Set {
	params, err := rlwe.NewParametersFromLiteral(rlwe.ParametersLiteral{LogN: logN, Q: q, P: p, NTTFlag: true})
	if err != nil {
		panic(fmt.Errorf("c15 params %s: %w", name, err))
	}
	s := c15Set{name: name, params: params, ringQP: params.RingQP(), nq: len(q), n: 1 << logN}
	s.ms = append(append([]uint64{}, q...), p...)
	return s
}

func c15Sets() []c15Set {
	return []c15Set{
		c15NewSet("tiny", 4, []uint64{97, 193, 257}, []uint64{353}),
		c15NewSet("noP", 4, []uint64{12289, 40961}, nil),
		c15NewSet("mid", 4, []uint64{c15NTTPrime(1<<36, 32, 0), c15NTTPrime(1<<45, 32, 1)}, []uint64{c15NTTPrime(1<<50, 32, 0)}),
		c15NewSet("big", 5, []uint64{c15NTTPrime(1<<60, 64, 0), c15NTTPrime(1<<59, 64, 2), c15NTTPrime(1<<55, 64, 0)}, []uint64{c15NTTPrime(1<<61, 64, 0)}),
		// every modulus of the largest accepted size class (61 bits), Q and P
		c15NewSet("max61", 4, []uint64{c15NTTPrime(1<<61, 32, 0), c15NTTPrime(1<<61, 32, 1)}, []uint64{c15NTTPrime(1<<61, 32, 2)}),
	}
}

func c15Rows(p ringqp.Poly) [][]uint64 {
	rows := [][]uint64{}
	rows = append(rows, p.Q.Coeffs...)
	rows = append(rows, p.P.Coeffs...)
	return rows
}

func c15M(p ringqp.Poly) string { return Mat(c15Rows(p)) }

func (s c15Set) ring() string { return I(s.nq) + " " + Vec(s.ms) }

func c15Pts(p []multiparty.ShamirPublicPoint) string {
	v := make([]uint64, len(p))
	for i := range p {
		v[i] = uint64(p[i])
	}
	return Vec(v)
}

// validPoints: pairwise distinct and non-zero modulo every prime.
func c15Valid(ms []uint64, pts []multiparty.ShamirPublicPoint) bool {
	for _, q := range ms {
		seen := map[uint64]bool{}
		for _, x := range pts {
			r := uint64(x) % q
			if r == 0 || seen[r] {
				return false
			}
			seen[r] = true
		}
	}
	return true
}

const (
	c15Small = iota
	c15Gt32
	c15Near64
	c15Mixed
	c15NFam
)

var c15FamName = []string{"small", "gt32", "near64", "mixed"}

func c15DrawPoint(c *Ctx, fam int) uint64 {
	switch fam {
	case c15Small:
		return 1 + c.rng.Below(64)
	case c15Gt32:
		return (1 << 32) + 1 + c.rng.Below((1<<63)-(1<<32))
	case c15Near64:
		return ^uint64(0) - c.rng.Below(1<<12)
	default:
		return c15DrawPoint(c, c.rng.Intn(3))
	}
}

func c15Points(c *Ctx, s c15Set, fam, n int) []multiparty.ShamirPublicPoint {
	for {
		pts := make([]multiparty.ShamirPublicPoint, n)
		if fam == c15Small && c.rng.Intn(2) == 0 {
			for i := range pts {
				pts[i] = multiparty.ShamirPublicPoint(i + 1)
			}
		} else {
			for i := range pts {
				pts[i] = multiparty.ShamirPublicPoint(c15DrawPoint(c, fam))
			}
		}
		if c15Valid(s.ms, pts) {
			return pts
		}
		c.Count("points:redraw")
	}
}

func c15Perms(n int) [][]int {
	var out [][]int
	var rec func(cur []int, used []bool)
	rec = func(cur []int, used []bool) {
		if len(cur) == n {
			out = append(out, append([]int{}, cur...))
			return
		}
		for i := 0; i < n; i++ {
			if !used[i] {
				used[i] = true
				rec(append(cur, i), used)
				used[i] = false
			}
		}
	}
	rec(nil, make([]bool, n))
	return out
}

func c15Subsets(n, k int) [][]int {
	var out [][]int
	var rec func(start int, cur []int)
	rec = func(start int, cur []int) {
		if len(cur) == k {
			out = append(out, append([]int{}, cur...))
			return
		}
		for i := start; i < n; i++ {
			rec(i+1, append(cur, i))
		}
	}
	rec(0, nil)
	return out
}

func (c *Ctx) c15Shuffle(v []int) []int {
	w := append([]int{}, v...)
	for i := len(w) - 1; i > 0; i-- {
		j := c.rng.Intn(i + 1)
		w[i], w[j] = w[j], w[i]
	}
	return w
}

// c15Setup is the state after the threshold setup of N parties.
type c15Setup struct {
	s       c15Set
	t, n    int
	pts     []multiparty.ShamirPublicPoint
	sks     []*rlwe.SecretKey
	gens    []multiparty.ShamirPolynomial
	shares  [][]multiparty.ShamirSecretShare // shares[i][j]: from dealer i to party j
	tsks    []multiparty.ShamirSecretShare
	cmbs    []multiparty.Combiner
	skIdeal ringqp.Poly
}

func c15Dealer(g multiparty.ShamirPolynomial) string {
	parts := make([]string, len(g.Value))
	for k := range g.Value {
		parts[k] = c15M(g.Value[k])
	}
	return strings.Join(parts, "|")
}

func c15PolyToks(g multiparty.ShamirPolynomial) string {
	parts := make([]string, len(g.Value))
	for k := range g.Value {
		parts[k] = c15M(g.Value[k])
	}
	return strings.Join(parts, " ")
}

// c15DoSetup runs the real setup; emitShares selects how many share/aggall tie lines are emitted.
func c15DoSetup(c *Ctx, s c15Set, t, n int, pts []multiparty.ShamirPublicPoint, emitTies bool) *c15Setup {
	st := &c15Setup{s: s, t: t, n: n, pts: pts}
	kgen := rlwe.NewKeyGenerator(s.params)
	st.skIdeal = s.ringQP.NewPoly()
	thr := multiparty.NewThresholdizer(s.params)
	for i := 0; i < n; i++ {
		sk := kgen.GenSecretKeyNew()
		st.sks = append(st.sks, sk)
		s.ringQP.Add(st.skIdeal, sk.Value, st.skIdeal)
		gen, err := thr.GenShamirPolynomial(t, sk)
		if err != nil {
			panic(err)
		}
		st.gens = append(st.gens, gen)
		if emitTies && i == 0 {
			// inputs: secret and the polynomials the real sampler produced
			rand := make([]string, 0, t)
			for k := 1; k < len(gen.Value); k++ {
				rand = append(rand, c15M(gen.Value[k]))
			}
			op := "genpoly " + I(s.nq) + " " + I(t) + " " + c15M(sk.Value) + " " + I(len(rand))
			if len(rand) > 0 {
				op += " " + strings.Join(rand, " ")
			}
			c.Emit(op, strings.ReplaceAll(c15PolyToks(gen), " ", "|"))
			c.Count("tie:genpoly")
		}
	}
	st.shares = make([][]multiparty.ShamirSecretShare, n)
	for i := 0; i < n; i++ {
		st.shares[i] = make([]multiparty.ShamirSecretShare, n)
		for j := 0; j < n; j++ {
			st.shares[i][j] = thr.AllocateThresholdSecretShare()
			thr.GenShamirSecretShare(pts[j], st.gens[i], &st.shares[i][j])
		}
	}
	if emitTies {
		i, j := c.rng.Intn(n), c.rng.Intn(n)
		c.Emit("share "+s.ring()+" "+U(uint64(pts[j]))+" "+I(t)+" "+c15PolyToks(st.gens[i]), c15M(st.shares[i][j].Poly))
		c.Count("tie:share")
	}
	for j := 0; j < n; j++ {
		acc := thr.AllocateThresholdSecretShare()
		for i := 0; i < n; i++ {
			if err := thr.AggregateShares(acc, st.shares[i][j], &acc); err != nil {
				panic(err)
			}
		}
		st.tsks = append(st.tsks, acc)
	}
	if emitTies {
		j := c.rng.Intn(n)
		toks := make([]string, n)
		for i := 0; i < n; i++ {
			toks[i] = c15M(st.shares[i][j].Poly)
		}
		c.Emit("aggall "+s.ring()+" "+I(s.n)+" "+I(n)+" "+strings.Join(toks, " "), c15M(st.tsks[j].Poly))
		c.Count("tie:aggall")
		// setup aggregation in another order
		perm := c.c15Shuffle(c15Iota(n))
		acc := thr.AllocateThresholdSecretShare()
		for _, i := range perm {
			_ = thr.AggregateShares(acc, st.shares[i][j], &acc)
		}
		detail := ""
		if !acc.Poly.Equal(&st.tsks[j].Poly) {
			detail = "aggregate differs for order " + IVec(perm)
		}
		c.Probe("agg_order", s.name+" t="+I(t)+" N="+I(n)+" pts="+c15Pts(pts)+" party="+I(j)+" order="+IVec(perm), "C15-agg-order", detail)
	}
	for i := 0; i < n; i++ {
		st.cmbs = append(st.cmbs, multiparty.NewCombiner(s.params, pts[i], pts, t))
	}
	return st
}

func c15Min(a, b int) int {
	if a < b {
		return a
	}
	return b
}

func c15Iota(n int) []int {
	v := make([]int, n)
	for i := range v {
		v[i] = i
	}
	return v
}

// additive share of party i for the active list (indices into pts)
func (st *c15Setup) additive(i int, act []int) (out ringqp.Poly, res string) {
	sk := rlwe.NewSecretKey(st.s.params)
	ap := make([]multiparty.ShamirPublicPoint, len(act))
	for k, a := range act {
		ap[k] = st.pts[a]
	}
	res = Try(func() string {
		if err := st.cmbs[i].GenAdditiveShare(ap, st.pts[i], st.tsks[i], sk); err != nil {
			return "err"
		}
		return "ok"
	})
	return sk.Value, res
}

// checkSubset evaluates the reconstruct predicate for subset sub over the given orderings.
func (st *c15Setup) checkSubset(sub []int, orders [][]int) string {
	var ref []ringqp.Poly
	for oi, ord := range orders {
		act := make([]int, len(sub))
		for k, o := range ord {
			act[k] = sub[o]
		}
		sum := st.s.ringQP.NewPoly()
		cur := make([]ringqp.Poly, len(sub))
		for k, i := range sub {
			a, res := st.additive(i, act)
			if res != "ok" {
				return fmt.Sprintf("GenAdditiveShare %s for party %d order %s", res, i, IVec(act))
			}
			cur[k] = a
			st.s.ringQP.Add(sum, a, sum)
		}
		if !sum.Equal(&st.skIdeal) {
			return "sum of additive shares != ideal secret for order " + IVec(act)
		}
		if oi == 0 {
			ref = cur
		} else {
			for k := range sub {
				if !cur[k].Equal(&ref[k]) {
					return fmt.Sprintf("additive share of party %d depends on order %s", sub[k], IVec(act))
				}
			}
		}
	}
	return ""
}

// checkCollide: parties sub[0] and sub[1] have colliding points. Holds iff both are refused with
// an error (output untouched), every other party of sub succeeds, and nobody panics.
func (st *c15Setup) checkCollide(sub []int) string {
	zero := st.s.ringQP.NewPoly()
	sum := st.s.ringQP.NewPoly()
	res := make([]string, len(sub))
	outs := make([]ringqp.Poly, len(sub))
	allOK := true
	for k, i := range sub {
		outs[k], res[k] = st.additive(i, sub)
		if res[k] == "ok" {
			st.s.ringQP.Add(sum, outs[k], sum)
		} else {
			allOK = false
		}
	}
	if allOK {
		if !sum.Equal(&st.skIdeal) {
			return "colliding points accepted and a wrong key reconstructed"
		}
		return "colliding points accepted"
	}
	for k, i := range sub {
		want := "ok"
		if k < 2 {
			want = "err"
		}
		if res[k] != want {
			return fmt.Sprintf("GenAdditiveShare of party %d returned %s, expected %s", i, res[k], want)
		}
		if res[k] == "err" && !outs[k].Equal(&zero) {
			return fmt.Sprintf("GenAdditiveShare of party %d returned an error but wrote its output", i)
		}
	}
	return ""
}

func (st *c15Setup) emitAddShare(c *Ctx, i int, act []int, label string) {
	a, res := st.additive(i, act)
	out := res
	if res == "ok" {
		out = c15M(a)
	}
	ap := make([]multiparty.ShamirPublicPoint, len(act))
	for k, x := range act {
		ap[k] = st.pts[x]
	}
	c.Emit("addshare "+st.s.ring()+" "+I(st.t)+" "+U(uint64(st.pts[i]))+" "+c15Pts(st.pts)+" "+U(uint64(st.pts[i]))+" "+c15Pts(ap)+" "+c15M(st.tsks[i].Poly), out)
	c.Count("tie:addshare:" + label)
}

func (st *c15Setup) emitRun(c *Ctx, act []int, label string) {
	s := st.s
	sum := s.ringQP.NewPoly()
	out := ""
	parties := make([]string, len(act))
	ap := make([]multiparty.ShamirPublicPoint, len(act))
	for k, x := range act {
		ap[k] = st.pts[x]
	}
	for k, i := range act {
		a, res := st.additive(i, act)
		if res != "ok" && out == "" {
			out = res
		}
		s.ringQP.Add(sum, a, sum)
		parties[k] = U(uint64(st.pts[i])) + ":" + c15Pts(st.pts) + ":" + c15Pts(ap)
	}
	if out == "" {
		out = c15M(sum)
	}
	dealers := make([]string, st.n)
	for i := range dealers {
		dealers[i] = c15Dealer(st.gens[i])
	}
	c.Emit("run "+s.ring()+" "+I(st.t)+" "+I(s.n)+" "+I(st.n)+" "+strings.Join(dealers, " ")+" "+I(len(act))+" "+strings.Join(parties, " "), out)
	c.Count("tie:run:" + label)
}

func genC15(c *Ctx) {
	sets := c15Sets()
	allPerms := map[int][][]int{}
	for k := 0; k <= 6; k++ {
		allPerms[k] = c15Perms(k)
	}

	// ---- structured stream: all 1 <= t <= N <= 6 ----
	rounds := c.Scale(1, 3)
	for si, s := range sets {
		for fam := 0; fam < c15NFam*rounds; fam++ {
			fam := fam % c15NFam
			for n := 1; n <= 6; n++ {
				for t := 1; t <= n; t++ {
					pts := c15Points(c, s, fam, n)
					st := c15DoSetup(c, s, t, n, pts, true)
					c.Count("config:" + s.name + ":" + c15FamName[fam])
					subsets := c15Subsets(n, t)
					if !c.Thorough() && len(subsets) > 4 {
						// sample of the subsets
						idx := c.c15Shuffle(c15Iota(len(subsets)))[:4]
						ss := make([][]int, 0, 4)
						for _, k := range idx {
							ss = append(ss, subsets[k])
						}
						subsets = ss
					}
					for _, sub := range subsets {
						orders := allPerms[t]
						if !c.Thorough() && len(orders) > 6 {
							// identity + 5 random orderings
							idx := c.c15Shuffle(c15Iota(len(orders) - 1))[:5]
							os := [][]int{orders[0]}
							for _, k := range idx {
								os = append(os, orders[k+1])
							}
							orders = os
						}
						detail := st.checkSubset(sub, orders)
						c.Probe("reconstruct", s.name+" "+c15FamName[fam]+" t="+I(t)+" N="+I(n)+" pts="+c15Pts(pts)+" subset="+IVec(sub)+" orderings="+I(len(orders)), "C15-reconstruct", detail)
						c.Count(fmt.Sprintf("subset:t=%d,N=%d", t, n))
						c.Stats["orderings_checked"] += len(orders)
					}
					// tie lines: additive shares, bit exact
					nTie := 2
					if c.Thorough() {
						nTie = 12
						if si == 0 {
							nTie = 40
						}
					}
					for k := 0; k < nTie; k++ {
						sub := subsets[c.rng.Intn(len(subsets))]
						act := c.c15Shuffle(sub)
						st.emitAddShare(c, act[c.rng.Intn(len(act))], act, "valid")
					}
					// whole protocol
					if c.Thorough() || c.rng.Intn(3) == 0 {
						sub := subsets[c.rng.Intn(len(subsets))]
						st.emitRun(c, c.c15Shuffle(sub), "valid")
					}
					// more than t listed: only the first t count
					if t < n {
						act := c.c15Shuffle(c15Iota(n))
						st.emitAddShare(c, act[c.rng.Intn(n)], act, "more_than_t")
					}
					// fewer than t: error
					for k := 0; k < t; k++ {
						if k < t-1 && !c.Thorough() && c.rng.Intn(3) != 0 {
							continue
						}
						act := c.c15Shuffle(c15Iota(n))[:k]
						i := c.rng.Intn(n)
						_, res := st.additive(i, act)
						detail := ""
						if res != "err" {
							detail = "GenAdditiveShare with " + I(k) + " < t active points returned " + res
						}
						c.Probe("too_few", s.name+" t="+I(t)+" N="+I(n)+" pts="+c15Pts(pts)+" actives="+IVec(act)+" party="+I(i), "C15-too-few", detail)
						st.emitAddShare(c, i, act, "too_few")
					}
				}
			}
		}
	}

	// ---- exhaustive bit-exact ties on the tiny set: every subset, ordering and party (thorough) ----
	if c.Thorough() {
		s := sets[0]
		for n := 1; n <= 6; n++ {
			for t := 1; t <= n; t++ {
				pts := c15Points(c, s, c15Mixed, n)
				st := c15DoSetup(c, s, t, n, pts, false)
				for _, sub := range c15Subsets(n, t) {
					for _, ord := range allPerms[t] {
						act := make([]int, t)
						for k, o := range ord {
							act[k] = sub[o]
						}
						for _, i := range sub {
							st.emitAddShare(c, i, act, "exhaustive")
						}
					}
				}
			}
		}
	}

	c15Boundary(c, sets)
	c15Malformed(c, sets)
	c15History(c, sets)
	c15WrapDiff(c, sets)
	c15Wide(c, sets)
	c15CombinerForms(c, sets)
	c15Sequences(c, sets)
	c15GenPoly(c, sets)
}

// c15Boundary: the points the proof excludes — distinct non-zero uint64s that collide modulo a
// prime, and non-zero uint64s that are 0 modulo a prime.
func c15Boundary(c *Ctx, sets []c15Set) {
	reps := c.Scale(2, 8)
	for _, s := range sets {
		for rep := 0; rep < reps; rep++ {
			n := 2 + c.rng.Intn(4)
			t := 2 + c.rng.Intn(n-1)
			// (a) collision: pts[1] = pts[0] + k*q_m (different uint64, equal mod q_m)
			m := c.rng.Intn(len(s.ms))
			q := s.ms[m]
			var pts []multiparty.ShamirPublicPoint
			for {
				pts = c15Points(c, s, c15Small, n)
				k := 1 + c.rng.Below(3)
				if q < 1<<40 && c.rng.Intn(2) == 0 {
					k += (1 << 33) / q // also > 2^32
				}
				pts[1] = multiparty.ShamirPublicPoint(uint64(pts[0]) + k*q)
				ok := true // still distinct non-zero modulo the other primes
				for mi, qq := range s.ms {
					if mi != m && !c15Valid([]uint64{qq}, pts) {
						ok = false
					}
				}
				if ok {
					break
				}
			}
			st := c15DoSetup(c, s, t, n, pts, false)
			sub := c15Iota(t) // contains both colliding parties
			detail := st.checkCollide(sub)
			c.Probe("reconstruct_collide", s.name+" t="+I(t)+" N="+I(n)+" pts="+c15Pts(pts)+" collide_mod="+U(q)+" subset="+IVec(sub), "C15-collision-mod-prime", detail)
			st.emitAddShare(c, 0, sub, "collide")
			st.emitAddShare(c, 1, sub, "collide")
			st.emitRun(c, sub, "collide")
			// a subset avoiding one of the two colliding parties reconstructs
			if t < n {
				sub2 := append([]int{0}, c15Iota(n)[2:t+1]...)
				detail := st.checkSubset(sub2, [][]int{c15Iota(t)})
				c.Probe("reconstruct", s.name+" collide-avoided t="+I(t)+" N="+I(n)+" pts="+c15Pts(pts)+" subset="+IVec(sub2)+" orderings=1", "C15-reconstruct", detail)
			}

			// (b) a non-zero point that is 0 modulo q_m: reconstruction works, but the share's
			// row m is the dealer's secret row m (tie line shows it; Lean: zero_point_share_is_secret)
			for {
				pts = c15Points(c, s, c15Small, n)
				pts[0] = multiparty.ShamirPublicPoint(q * (1 + c.rng.Below(3)))
				ok := true
				for mi, qq := range s.ms {
					if mi != m && !c15Valid([]uint64{qq}, pts) {
						ok = false
					}
				}
				if ok && c15Valid([]uint64{q}, pts[1:]) {
					break
				}
			}
			st = c15DoSetup(c, s, t, n, pts, false)
			detail = st.checkSubset(c15Iota(t), [][]int{c15Iota(t)})
			c.Probe("reconstruct", s.name+" zero-mod-prime t="+I(t)+" N="+I(n)+" pts="+c15Pts(pts)+" zero_mod="+U(q)+" subset="+IVec(c15Iota(t))+" orderings=1", "C15-reconstruct", detail)
			c.Emit("share "+s.ring()+" "+U(uint64(pts[0]))+" "+I(t)+" "+c15PolyToks(st.gens[0]), c15M(st.shares[0][0].Poly))
			c.Count("tie:share:zero_mod_prime")
			leak := true
			for k, w := range c15Rows(st.shares[0][0].Poly)[m] {
				if w != c15Rows(st.sks[0].Value)[m][k] {
					leak = false
				}
			}
			if leak {
				c.Count("observed:share_row_equals_secret_row")
			}
			st.emitRun(c, c15Iota(t), "zero_mod_prime")
		}
	}
}

func c15Malformed(c *Ctx, sets []c15Set) {
	reps := c.Scale(2, 10)
	for _, s := range sets {
		thr := multiparty.NewThresholdizer(s.params)
		kgen := rlwe.NewKeyGenerator(s.params)
		for rep := 0; rep < reps; rep++ {
			n := 3 + c.rng.Intn(3)
			t := 2 + c.rng.Intn(n-1)
			pts := c15Points(c, s, c.rng.Intn(c15NFam), n)
			st := c15DoSetup(c, s, t, n, pts, false)

			// GenShamirPolynomial with threshold < 1
			for _, bad := range []int{0, -1, -7} {
				sk := kgen.GenSecretKeyNew()
				out := Try(func() string {
					g, err := thr.GenShamirPolynomial(bad, sk)
					if err != nil {
						return "err"
					}
					return strings.ReplaceAll(c15PolyToks(g), " ", "|")
				})
				c.Emit("genpoly "+I(s.nq)+" "+I(bad)+" "+c15M(sk.Value)+" 0", out)
				c.Count("tie:genpoly:bad_threshold")
			}
			// empty Shamir polynomial
			{
				sh := thr.AllocateThresholdSecretShare()
				out := Try(func() string {
					thr.GenShamirSecretShare(pts[0], multiparty.ShamirPolynomial{}, &sh)
					return c15M(sh.Poly)
				})
				c.Emit("share "+s.ring()+" "+U(uint64(pts[0]))+" 0", out)
				c.Count("tie:share:empty_poly")
			}
			// point 0: the share is the secret
			{
				sh := thr.AllocateThresholdSecretShare()
				thr.GenShamirSecretShare(0, st.gens[0], &sh)
				c.Emit("share "+s.ring()+" 0 "+I(t)+" "+c15PolyToks(st.gens[0]), c15M(sh.Poly))
				c.Count("tie:share:point_zero")
			}
			// AggregateShares with mismatching levels
			if s.nq > 1 {
				low := multiparty.ShamirSecretShare{Poly: s.ringQP.AtLevel(0, s.params.MaxLevelP()).NewPoly()}
				full := st.tsks[0]
				outp := thr.AllocateThresholdSecretShare()
				cases := [][3]multiparty.ShamirSecretShare{{low, full, outp}, {full, low, outp}, {full, full, low}, {low, low, low}}
				for _, cs := range cases {
					cs := cs
					out := Try(func() string {
						if err := thr.AggregateShares(cs[0], cs[1], &cs[2]); err != nil {
							return "err"
						}
						return c15M(cs[2].Poly)
					})
					c.Emit("agg "+s.ring()+" "+I(len(cs[0].Q.Coeffs))+" "+c15M(cs[0].Poly)+" "+I(len(cs[1].Q.Coeffs))+" "+c15M(cs[1].Poly)+" "+I(len(cs[2].Q.Coeffs))+" "+c15M(cs[2].Poly), out)
					c.Count("tie:agg:levels")
				}
			}
			// combiner oddities: threshold 0 / negative, unknown active point, ownPoint different
			// from the combiner's own point, duplicates among the actives, own absent from others
			type odd struct {
				label    string
				thr      int
				own      multiparty.ShamirPublicPoint
				others   []multiparty.ShamirPublicPoint
				ownPoint multiparty.ShamirPublicPoint
				actives  []multiparty.ShamirPublicPoint
			}
			unknown := multiparty.ShamirPublicPoint(uint64(pts[0]) + 1000003)
			odds := []odd{
				{"threshold0", 0, pts[0], pts, pts[0], pts[:t]},
				{"threshold_neg", -1, pts[0], pts, pts[0], pts[:t]},
				{"unknown_active", t, pts[0], pts, pts[0], append([]multiparty.ShamirPublicPoint{unknown}, pts[:t-1]...)},
				{"unknown_beyond_t", t, pts[0], pts, pts[0], append(append([]multiparty.ShamirPublicPoint{}, pts[:t]...), unknown)},
				{"ownpoint_differs", t, pts[0], pts, pts[1], pts[:t]},
				{"ownpoint_is_combiner_own_missing_from_table", t, pts[0], pts, pts[2], pts[:t]},
				{"duplicate_active", t, pts[0], pts, pts[0], append([]multiparty.ShamirPublicPoint{pts[1]}, pts[1:t]...)},
				{"others_without_own", t, pts[0], pts[1:], pts[0], pts[:t]},
				{"others_subset", t, pts[0], pts[:t], pts[0], pts[:t]},
				{"own_not_active", t, pts[0], pts, pts[0], pts[1:c15Min(t+1, n)]},
				{"empty_others", t, pts[0], nil, pts[0], pts[:t]},
				{"threshold1_only_own", 1, pts[0], nil, pts[0], pts[:1]},
			}
			for _, o := range odds {
				o := o
				if len(o.actives) > n {
					continue
				}
				out := Try(func() string {
					cmb := multiparty.NewCombiner(s.params, o.own, o.others, o.thr)
					sk := rlwe.NewSecretKey(s.params)
					if err := cmb.GenAdditiveShare(o.actives, o.ownPoint, st.tsks[0], sk); err != nil {
						return "err"
					}
					return c15M(sk.Value)
				})
				c.Emit("addshare "+s.ring()+" "+I(o.thr)+" "+U(uint64(o.own))+" "+c15Pts(o.others)+" "+U(uint64(o.ownPoint))+" "+c15Pts(o.actives)+" "+c15M(st.tsks[0].Poly), out)
				c.Count("tie:addshare:" + o.label)
			}
		}
	}
}
