package main

// C19 — concrete rejection probes (next to the ties):
//   bgv_rejects_t_dividing_Q   a plaintext modulus equal to ANY prime of Q (not only Q[0]), larger than Q[0],
//                              or sharing a factor with 2N is refused by every constructor and decoder;
//                              t equal to a prime of P is refused or yields a working context
//   bgv_context_works          every ACCEPTED bgv literal encodes/encrypts/decrypts/decodes at every level
//   rejects_logN_out_of_range  LogN below MinLogN / above MaxLogN is refused by every constructor
//                              (rlwe.NewParameters, NewParametersFromLiteral of rlwe/ckks/bgv, JSON and binary decoders)
//   tie `rlwe_direct`          rlwe.NewParameters called directly (no literal in between)

import (
	"encoding/binary"
	"fmt"
	"strings"
	"time"

	"github.com/tuneinsight/lattigo/v6/core/rlwe"
	"github.com/tuneinsight/lattigo/v6/ring"
	"github.com/tuneinsight/lattigo/v6/schemes/bgv"
	"github.com/tuneinsight/lattigo/v6/schemes/ckks"
)

// c19BgvContextWorks: encode → encrypt → decrypt → decode at every level of an accepted parameter set.
func c19BgvContextWorks(p bgv.Parameters) string {
	return Try(func() string {
		kgen := rlwe.NewKeyGenerator(p)
		sk := kgen.GenSecretKeyNew()
		ecd := bgv.NewEncoder(p)
		enc := rlwe.NewEncryptor(p, sk)
		dec := rlwe.NewDecryptor(p, sk)
		n := p.MaxSlots()
		t := p.PlaintextModulus()
		in, out := make([]uint64, n), make([]uint64, n)
		for i := range in {
			in[i] = uint64(3*i+1) % t
		}
		for lvl := 0; lvl <= p.MaxLevel(); lvl++ {
			pt := bgv.NewPlaintext(p, lvl)
			if err := ecd.Encode(in, pt); err != nil {
				return fmt.Sprintf("level %d: Encode: %s", lvl, c19Sanitize(err.Error()))
			}
			ct, err := enc.EncryptNew(pt)
			if err != nil {
				return fmt.Sprintf("level %d: Encrypt: %s", lvl, c19Sanitize(err.Error()))
			}
			if err = ecd.Decode(dec.DecryptNew(ct), out); err != nil {
				return fmt.Sprintf("level %d: Decode: %s", lvl, c19Sanitize(err.Error()))
			}
			for i := range in {
				if in[i] != out[i] {
					return fmt.Sprintf("level %d: decode(decrypt(encrypt(encode(v)))) != v at slot %d", lvl, i)
				}
			}
		}
		return ""
	})
}

func c19BgvRejects(c *Ctx) {
	for _, logN := range []int{4, 6, 10} {
		n2 := uint64(2) << uint(logN)
		a := c19PrimeWithBits(c, 45, n2, nil)
		b := c19PrimeWithBits(c, 30, n2, map[uint64]bool{a: true})
		p0 := c19PrimeWithBits(c, 22, n2, map[uint64]bool{a: true, b: true}) // small: as a plaintext modulus it must leave a noise budget at level 0
		p1 := c19PrimeWithBits(c, 20, n2, map[uint64]bool{a: true, b: true, p0: true})
		Q := []uint64{a, 65537, b} // the plaintext modulus 65537 is a LATER prime of the chain
		P := []uint64{p0, p1}
		big1 := c19PrimeWithBits(c, 46, n2, map[uint64]bool{a: true})
		for big1 <= a {
			big1 = c19PrimeWithBits(c, 46, n2, map[uint64]bool{a: true})
		}
		type tc struct {
			why    string
			t      uint64
			mayRun bool // accepted is fine provided the context works
		}
		cases := []tc{{"t=Q[0]", Q[0], false}, {"t=Q[1]", Q[1], false}, {"t=Q[2]", Q[2], false}, {"t>Q[0]", big1, false},
			{"t=P[0]", P[0], true}, {"t=P[1]", P[1], true},
			{"t-even", 65538, false}, {"t=2N", n2, false}, {"t=3*2N", 3 * n2, false}, {"t=2", 2, false}, {"t=0", 0, false}, {"t=1", 1, false}}
		for _, x := range cases {
			lit := bgv.ParametersLiteral{LogN: logN, Q: Q, P: P, PlaintextModulus: x.t}
			js := fmt.Sprintf(`{"LogN":%d,"Q":[%d,%d,%d],"P":[%d,%d],"PlaintextModulus":%d}`, logN, Q[0], Q[1], Q[2], P[0], P[1], x.t)
			ctors := []struct {
				name string
				f    func() (bgv.Parameters, error)
			}{
				{"NewParametersFromLiteral", func() (bgv.Parameters, error) { return bgv.NewParametersFromLiteral(lit) }},
				{"NewParameters", func() (bgv.Parameters, error) {
					r, err := rlwe.NewParametersFromLiteral(lit.GetRLWEParametersLiteral())
					if err != nil {
						return bgv.Parameters{}, err
					}
					return bgv.NewParameters(r, x.t)
				}},
				{"UnmarshalJSON", func() (p bgv.Parameters, err error) { err = p.UnmarshalJSON([]byte(js)); return }},
				{"UnmarshalBinary", func() (p bgv.Parameters, err error) { err = p.UnmarshalBinary([]byte(js)); return }},
			}
			for _, ct := range ctors {
				var p bgv.Parameters
				var err error
				d := c19Run(c19Slow, func() string {
					p, err = ct.f()
					return ""
				})
				switch {
				case d != "":
					d = ct.name + ": " + d
				case err == nil && !x.mayRun:
					d = fmt.Sprintf("%s accepted t=%d (%s) with Q=%v", ct.name, x.t, x.why, Q)
					if w := c19BgvContextWorks(p); w != "" {
						d += "; then " + w
					}
				case err == nil:
					if w := c19BgvContextWorks(p); w != "" {
						d = fmt.Sprintf("%s accepted t=%d (%s) and the context does not work: %s", ct.name, x.t, x.why, w)
					} else {
						c.Count("bgv:t-in-P-accepted-and-working")
					}
				}
				c.Probe("bgv_rejects_t_dividing_Q", fmt.Sprintf("ctor=%s case=%s logN=%d Q=%s P=%s t=%d", ct.name, x.why, logN, Vec(Q), Vec(P), x.t),
					"C19-bgv-t-divides-q", c19Sanitize(d))
			}
		}
		// control: a valid t with the same chain minus 65537 is accepted and works
		ok, err := bgv.NewParametersFromLiteral(bgv.ParametersLiteral{LogN: logN, Q: []uint64{a, b}, P: P, PlaintextModulus: 65537})
		d := ""
		if err != nil {
			d = "control literal rejected: " + c19Sanitize(err.Error())
		} else {
			d = c19BgvContextWorks(ok)
		}
		c.Probe("bgv_context_works", fmt.Sprintf("control logN=%d Q=%s P=%s t=65537", logN, Vec([]uint64{a, b}), Vec(P)), "C19-bgv-context", c19Sanitize(d))
	}
}

// ---------------------------------------------------------------- accepted distributions are usable

// c19DistUsable: whatever rlwe.NewParameters accepts as secret / error distribution must give parameters with which keys can
// be generated and a ciphertext encrypted (no panic), and which survive their encoding.
func c19DistUsable(c *Ctx) {
	specs := []ring.DistributionParameters{ring.Ternary{H: 8}, ring.Ternary{P: 0.5}, ring.Ternary{P: 1}, ring.Ternary{P: 0.5, H: 3}, ring.Ternary{H: -4},
		ring.Ternary{P: 1.5}, ring.Ternary{P: -0.5}, ring.Ternary{H: 64}, ring.Ternary{H: 65}, ring.DiscreteGaussian{Sigma: 3.2, Bound: 19.2},
		ring.DiscreteGaussian{Sigma: 3.2, Bound: 0}, ring.DiscreteGaussian{Sigma: 1, Bound: 1}, ring.Uniform{}}
	for _, d := range specs {
		for _, role := range []string{"Xs", "Xe"} {
			lit := rlwe.ParametersLiteral{LogN: 6, LogQ: []int{40, 30}, LogP: []int{41}}
			if role == "Xs" {
				lit.Xs = d
			} else {
				lit.Xe = d
			}
			detail := c19Run(5*time.Second, func() string { // milliseconds at LogN = 6; a sampler that never accepts shows up as `hang`
				p, err := rlwe.NewParametersFromLiteral(lit)
				if err != nil {
					c.Count("dist:rejected")
					return ""
				}
				c.Count("dist:accepted")
				if r := Try(func() string {
					kgen := rlwe.NewKeyGenerator(p)
					sk, pk := kgen.GenKeyPairNew()
					ct := rlwe.NewCiphertext(p, 1, p.MaxLevel())
					if e := rlwe.NewEncryptor(p, sk).EncryptZero(ct); e != nil {
						return "EncryptZero(sk): " + c19Sanitize(e.Error())
					}
					if e := rlwe.NewEncryptor(p, pk).EncryptZero(ct); e != nil {
						return "EncryptZero(pk): " + c19Sanitize(e.Error())
					}
					return ""
				}); r != "" {
					return fmt.Sprintf("accepted %s=%+v, then key generation / encryption: %s", role, d, r)
				}
				if r := c19RlweRoundTrip(p); r != "" {
					return fmt.Sprintf("accepted %s=%+v, then %s", role, d, r)
				}
				return ""
			})
			c.Probe("accepted_dist_usable", fmt.Sprintf("%s=%s", role, c19Sanitize(fmt.Sprintf("%+v", d))), "C19-accepted-dist-unusable", c19Sanitize(detail))
		}
	}
}

// ---------------------------------------------------------------- LogN range through every constructor

func c19LogNRange(c *Ctx) {
	good, err := rlwe.NewParametersFromLiteral(rlwe.ParametersLiteral{LogN: 5, LogQ: []int{40, 30}, LogP: []int{41}, NTTFlag: true})
	if err != nil {
		panic(err)
	}
	Q, P := good.Q(), good.P()
	valid, _ := good.MarshalBinary()
	order := binary.ByteOrder(binary.LittleEndian)
	if int(binary.LittleEndian.Uint32(valid[:4])) != len(valid)-4 {
		order = binary.BigEndian
	}
	rlweJSON := string(valid[4:])
	cg, _ := ckks.NewParametersFromLiteral(ckks.ParametersLiteral{LogN: 5, Q: Q, P: P, LogDefaultScale: 30})
	ckksJSONb, _ := cg.MarshalJSON()
	bg, _ := bgv.NewParametersFromLiteral(bgv.ParametersLiteral{LogN: 5, Q: Q, P: P, PlaintextModulus: 65537})
	bgvJSONb, _ := bg.MarshalJSON()
	swap := func(js string, logN int) string {
		if !strings.Contains(js, `"LogN":5`) {
			panic("LogN not found in " + js)
		}
		return strings.Replace(js, `"LogN":5`, fmt.Sprintf(`"LogN":%d`, logN), 1)
	}
	for _, logN := range []int{-1 << 40, -64, -2, -1, 0, 1, 2, 3, 21, 22, 40, 62, 63, 64, 1 << 40} {
		ctors := []struct {
			name string
			f    func() error
		}{
			{"rlwe.NewParameters", func() error {
				_, e := rlwe.NewParameters(logN, Q, P, rlwe.DefaultXs, rlwe.DefaultXe, ring.Standard, rlwe.NewScale(1), true)
				return e
			}},
			{"rlwe.NewParameters(CI)", func() error {
				_, e := rlwe.NewParameters(logN, Q, nil, rlwe.DefaultXs, rlwe.DefaultXe, ring.ConjugateInvariant, rlwe.NewScale(1), false)
				return e
			}},
			{"rlwe.NewParametersFromLiteral(Q)", func() error {
				_, e := rlwe.NewParametersFromLiteral(rlwe.ParametersLiteral{LogN: logN, Q: Q, P: P})
				return e
			}},
			{"rlwe.NewParametersFromLiteral(LogQ)", func() error {
				_, e := rlwe.NewParametersFromLiteral(rlwe.ParametersLiteral{LogN: logN, LogQ: []int{40, 30}, LogP: []int{41}})
				return e
			}},
			{"ckks.NewParametersFromLiteral", func() error {
				_, e := ckks.NewParametersFromLiteral(ckks.ParametersLiteral{LogN: logN, LogQ: []int{40, 30}, LogDefaultScale: 30})
				return e
			}},
			{"bgv.NewParametersFromLiteral", func() error {
				_, e := bgv.NewParametersFromLiteral(bgv.ParametersLiteral{LogN: logN, LogQ: []int{40, 30}, PlaintextModulus: 65537})
				return e
			}},
			{"rlwe.Parameters.UnmarshalJSON", func() error { return new(rlwe.Parameters).UnmarshalJSON([]byte(swap(rlweJSON, logN))) }},
			{"rlwe.Parameters.UnmarshalBinary", func() error {
				js := swap(rlweJSON, logN)
				b := make([]byte, 4+len(js))
				order.PutUint32(b, uint32(len(js)))
				copy(b[4:], js)
				return new(rlwe.Parameters).UnmarshalBinary(b)
			}},
			{"ckks.Parameters.UnmarshalJSON", func() error { return new(ckks.Parameters).UnmarshalJSON([]byte(swap(string(ckksJSONb), logN))) }},
			{"ckks.Parameters.UnmarshalBinary", func() error { return new(ckks.Parameters).UnmarshalBinary([]byte(swap(string(ckksJSONb), logN))) }},
			{"bgv.Parameters.UnmarshalJSON", func() error { return new(bgv.Parameters).UnmarshalJSON([]byte(swap(string(bgvJSONb), logN))) }},
			{"bgv.Parameters.UnmarshalBinary", func() error { return new(bgv.Parameters).UnmarshalBinary([]byte(swap(string(bgvJSONb), logN))) }},
		}
		for _, ct := range ctors {
			var e error
			d := c19Run(c19Slow, func() string {
				e = ct.f()
				return ""
			})
			if d == "" && e == nil {
				d = "accepted"
			}
			if d != "" {
				d = fmt.Sprintf("%s with LogN=%d: %s", ct.name, logN, d)
			}
			c.Probe("rejects_logN_out_of_range", fmt.Sprintf("ctor=%s logN=%d", ct.name, logN), "C19-logN-range", c19Sanitize(d))
		}
	}
	// the decoders do accept the unmodified encodings (the probes above are not vacuous)
	d := ""
	if e := new(rlwe.Parameters).UnmarshalBinary(valid); e != nil {
		d = c19Sanitize(e.Error())
	} else if e = new(ckks.Parameters).UnmarshalJSON(ckksJSONb); e != nil {
		d = c19Sanitize(e.Error())
	} else if e = new(bgv.Parameters).UnmarshalJSON(bgvJSONb); e != nil {
		d = c19Sanitize(e.Error())
	}
	c.Probe("rejects_logN_out_of_range", "control logN=5 decodes", "C19-logN-range", d)

	// tie: rlwe.NewParameters called directly
	for _, logN := range []int{-5, 0, 3, 4, 5, 6, 12, 20, 21, 64} {
		for rt := 0; rt <= 2; rt++ {
			for _, pp := range [][]uint64{nil, P, {}} {
				out := c19Run(c19Slow, func() string {
					p, e := rlwe.NewParameters(logN, Q, pp, rlwe.DefaultXs, rlwe.DefaultXe, ring.Type(rt), rlwe.NewScale(1), true)
					if e != nil {
						return c19Class(e)
					}
					return fmt.Sprintf("accept Q=%s P=%s nthroot=%d", Vec(p.Q()), Vec(p.P()), p.RingQ().NthRoot())
				})
				c.Emit(fmt.Sprintf("rlwe_direct logN=%d rt=%d Q=%s P=%s", logN, rt, Vec(Q), Vec(pp)), out)
				c.Count("rlwe_direct")
			}
		}
	}
}
