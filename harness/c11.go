package main

// C11 — rotations and slot sums follow the Galois algebra; advertised key lists suffice.
//
// Tie lines (the Lean model must reproduce the output exactly):
//   galel N k | galels N ks | modinv N g | dlog N g | ordertwo rt N | nttindex n N g
//   adv-innersum N batch n | adv-replicate N batch n | adv-innersum-bgv N maxSlots batch n
//   adv-replicate-bgv N ringN batch n | adv-trace rt logNRing logN         (sorted lists)
//   pts|replicate|innerfunction lay N t hasP batch n vec                   -> reqs vec
//   innersum-bgv|innersum-ckks lay N t hasP slots batch n vec              -> reqs vec
//   trace lay rt logNRing t logN vec                                       -> reqs vec
//   rotate lay N t k vec | conj lay rt N t vec | rothoisted lay N t hasP ks vec -> reqs vec(s)
//   *-reqs variants: only the request trace is compared (value depends on stale buffers)
// Probes (predicates on the real code): galEl_add, galEl_mod_slots, modInv_spec, dlog_galEl,
//   nttIndex_perm, keys_sufficient, sum_spec, ckks_round_margin, adv_has_no_extra;
//   keylevel_{plain,hoisted,lazy,scheme,hoisted_pw2} (c11_keylevels.go: Galois keys at every (LevelQ, LevelP), base-2 variants),
//   metadata_propagated, metadata_value (c11_meta.go: out-of-place into receivers with different metadata);
//   keys_sufficient / sum_spec with labels <operation>-<accessor> (c11_accessors.go: every advertised-keys accessor
//   against every operation it serves, keys from that accessor only);
//   circuit_keys_sufficient, circuit_value (c11_circuits.go: lintrans / dft advertised lists, naive and BSGS, sparse packing,
//   negative and out-of-range diagonal spellings); nonntt_value, nonntt_flag (c11_nonntt.go: coefficient-domain inputs);
//   keysource_value, keyhistory_value, automorphismNTT_spec (c11_keysources.go: every Galois element with keys from every
//   key source — single-party new / in place / batch, multiparty 1 and 3 parties, compressed, serialised — and after
//   in-place regeneration over keys of another secret).

import (
	"fmt"
	"math"
	"sort"
	"strings"

	"github.com/tuneinsight/lattigo/v6/core/rlwe"
	"github.com/tuneinsight/lattigo/v6/ring"
	"github.com/tuneinsight/lattigo/v6/schemes/bgv"
	"github.com/tuneinsight/lattigo/v6/schemes/ckks"
)

func init() { register("C11", genC11) }

// ---------------------------------------------------------------- helpers

func c11SortedU(v []uint64) string {
	w := append([]uint64{}, v...)
	sort.Slice(w, func(i, j int) bool { return w[i] < w[j] })
	return Vec(w)
}

func c11I64Vec(v []int64) string {
	if len(v) == 0 {
		return "-"
	}
	var sb strings.Builder
	for i, x := range v {
		if i > 0 {
			sb.WriteByte(',')
		}
		fmt.Fprintf(&sb, "%d", x)
	}
	return sb.String()
}

func c11IntVec(v []int) string {
	w := make([]int64, len(v))
	for i := range v {
		w[i] = int64(v[i])
	}
	return c11I64Vec(w)
}

// c11TryErr runs f; returns "" on success, "err" on error return, "panic" on panic.
func c11TryErr(f func() error) (out string) {
	defer func() {
		if r := recover(); r != nil {
			out = "panic"
		}
	}()
	if err := f(); err != nil {
		return "err"
	}
	return ""
}

// logging key set: holds keys for exactly one advertised list, records every look-up.
type c11LogKeys struct {
	inner   *rlwe.MemEvaluationKeySet
	reqs    *[]uint64
	missing *[]uint64
}

func (l c11LogKeys) GetGaloisKey(g uint64) (*rlwe.GaloisKey, error) {
	*l.reqs = append(*l.reqs, g)
	k, err := l.inner.GetGaloisKey(g)
	if err != nil {
		*l.missing = append(*l.missing, g)
	}
	return k, err
}
func (l c11LogKeys) GetGaloisKeysList() []uint64 { return l.inner.GetGaloisKeysList() }
func (l c11LogKeys) GetRelinearizationKey() (*rlwe.RelinearizationKey, error) {
	return l.inner.GetRelinearizationKey()
}
func (l c11LogKeys) ShallowCopy() rlwe.EvaluationKeySet { return l }

// c11Ctx is one concrete scheme instance.
type c11Ctx struct {
	name     string // bgv | ckks | ckksci
	lay      string // bgv | ckks | single
	rt       string // std | ci
	logN     int
	hasP     bool
	nthRoot  uint64
	t        uint64
	slots    int // ctIn.Slots()
	cols     int // length of one row
	veclen   int
	rp       *rlwe.Parameters
	kgen     *rlwe.KeyGenerator
	sk       *rlwe.SecretKey
	cache    map[uint64]*rlwe.GaloisKey
	cachePw2 map[uint64]*rlwe.GaloisKey

	bgvP   bgv.Parameters
	bgvE   *bgv.Encoder
	bgvEv  *bgv.Evaluator
	ckksP  ckks.Parameters
	ckksE  *ckks.Encoder
	ckksEv *ckks.Evaluator
	enc    *rlwe.Encryptor
	dec    *rlwe.Decryptor

	maxRoundErr float64
	noPRuns     int
	label       string // probe label overriding the tie op name (c11_accessors.go)
}

func (x *c11Ctx) hp() string {
	if x.hasP {
		return "1"
	}
	return "0"
}

func (x *c11Ctx) tag() string {
	p := "P"
	if !x.hasP {
		p = "noP"
	}
	return fmt.Sprintf("%s/logN%d/%s", x.name, x.logN, p)
}

func newC11BGV(logN int, hasP bool) *c11Ctx {
	lit := bgv.ParametersLiteral{LogN: logN, LogQ: []int{56, 55}, PlaintextModulus: 65537}
	if hasP {
		lit.LogP = []int{58}
	}
	p, err := bgv.NewParametersFromLiteral(lit)
	if err != nil {
		panic(err)
	}
	x := &c11Ctx{name: "bgv", lay: "bgv", rt: "std", logN: logN, hasP: hasP, nthRoot: p.RingQ().NthRoot(), t: 65537,
		slots: p.MaxSlots(), cols: p.N() / 2, veclen: p.N(), bgvP: p, cache: map[uint64]*rlwe.GaloisKey{}, cachePw2: map[uint64]*rlwe.GaloisKey{}}
	x.rp = p.GetRLWEParameters()
	x.kgen = rlwe.NewKeyGenerator(p)
	x.sk = x.kgen.GenSecretKeyNew()
	x.bgvE = bgv.NewEncoder(p)
	x.bgvEv = bgv.NewEvaluator(p, nil)
	x.enc = rlwe.NewEncryptor(p, x.sk)
	x.dec = rlwe.NewDecryptor(p, x.sk)
	return x
}

func newC11CKKS(logN int, hasP bool, ci bool) *c11Ctx {
	lit := ckks.ParametersLiteral{LogN: logN, LogQ: []int{58, 45}, LogDefaultScale: 32}
	if hasP {
		lit.LogP = []int{60}
	}
	if ci {
		lit.RingType = ring.ConjugateInvariant
	}
	p, err := ckks.NewParametersFromLiteral(lit)
	if err != nil {
		panic(err)
	}
	x := &c11Ctx{name: "ckks", lay: "ckks", rt: "std", logN: logN, hasP: hasP, nthRoot: p.RingQ().NthRoot(), t: 0,
		slots: p.MaxSlots(), cols: p.MaxSlots(), veclen: 2 * p.MaxSlots(), ckksP: p, cache: map[uint64]*rlwe.GaloisKey{}, cachePw2: map[uint64]*rlwe.GaloisKey{}}
	if ci {
		x.name, x.lay, x.rt, x.veclen = "ckksci", "single", "ci", p.MaxSlots()
	}
	x.rp = p.GetRLWEParameters()
	x.kgen = rlwe.NewKeyGenerator(p)
	x.sk = x.kgen.GenSecretKeyNew()
	x.ckksE = ckks.NewEncoder(p)
	x.ckksEv = ckks.NewEvaluator(p, nil)
	x.enc = rlwe.NewEncryptor(p, x.sk)
	x.dec = rlwe.NewDecryptor(p, x.sk)
	return x
}

func (x *c11Ctx) newCt() *rlwe.Ciphertext {
	if x.name == "bgv" {
		return bgv.NewCiphertext(x.bgvP, 1, x.bgvP.MaxLevel())
	}
	return ckks.NewCiphertext(x.ckksP, 1, x.ckksP.MaxLevel())
}

func (x *c11Ctx) encrypt(v []int64) *rlwe.Ciphertext {
	var pt *rlwe.Plaintext
	switch x.name {
	case "bgv":
		pt = bgv.NewPlaintext(x.bgvP, x.bgvP.MaxLevel())
		u := make([]uint64, len(v))
		for i := range v {
			u[i] = uint64(v[i])
		}
		if err := x.bgvE.Encode(u, pt); err != nil {
			panic(err)
		}
	case "ckks":
		pt = ckks.NewPlaintext(x.ckksP, x.ckksP.MaxLevel())
		z := make([]complex128, x.slots)
		for i := range z {
			z[i] = complex(float64(v[i]), float64(v[x.slots+i]))
		}
		if err := x.ckksE.Encode(z, pt); err != nil {
			panic(err)
		}
	default:
		pt = ckks.NewPlaintext(x.ckksP, x.ckksP.MaxLevel())
		z := make([]float64, x.slots)
		for i := range z {
			z[i] = float64(v[i])
		}
		if err := x.ckksE.Encode(z, pt); err != nil {
			panic(err)
		}
	}
	ct, err := x.enc.EncryptNew(pt)
	if err != nil {
		panic(err)
	}
	return ct
}

func (x *c11Ctx) round(f float64) int64 {
	r := math.Round(f)
	if e := math.Abs(f - r); e > x.maxRoundErr {
		x.maxRoundErr = e
	}
	if r > 9e18 || r < -9e18 || math.IsNaN(r) {
		x.maxRoundErr = math.Inf(1)
		return 0
	}
	return int64(r)
}

func (x *c11Ctx) decrypt(ct *rlwe.Ciphertext) []int64 {
	pt := x.dec.DecryptNew(ct)
	out := make([]int64, x.veclen)
	switch x.name {
	case "bgv":
		u := make([]uint64, x.slots)
		if err := x.bgvE.Decode(pt, u); err != nil {
			panic(err)
		}
		for i := range u {
			out[i] = int64(u[i])
		}
	case "ckks":
		z := make([]complex128, x.slots)
		if err := x.ckksE.Decode(pt, z); err != nil {
			panic(err)
		}
		for i := range z {
			out[i] = x.round(real(z[i]))
			out[x.slots+i] = x.round(imag(z[i]))
		}
	default:
		z := make([]float64, x.slots)
		if err := x.ckksE.Decode(pt, z); err != nil {
			panic(err)
		}
		for i := range z {
			out[i] = x.round(z[i])
		}
	}
	return out
}

// keysFor builds a logging key set with keys for exactly galEls.
// Without an auxiliary modulus P the plain (non-hoisted) operations get keys with a base-2^10
// digit decomposition (otherwise the key-switch noise swamps the message); the hoisted
// operations do not support that decomposition, so for them only the request trace is tied.
func (x *c11Ctx) keysFor(galEls []uint64, plain bool) (c11LogKeys, *[]uint64, *[]uint64) {
	gks := make([]*rlwe.GaloisKey, 0, len(galEls))
	pw2 := !x.hasP && plain
	cache := x.cache
	if pw2 {
		cache = x.cachePw2
	}
	for _, g := range galEls {
		k, ok := cache[g]
		if !ok {
			if pw2 {
				b := 10
				k = x.kgen.GenGaloisKeyNew(g, x.sk, rlwe.EvaluationKeyParameters{BaseTwoDecomposition: &b})
			} else {
				k = x.kgen.GenGaloisKeyNew(g, x.sk)
			}
			cache[g] = k
		}
		gks = append(gks, k)
	}
	reqs, missing := &[]uint64{}, &[]uint64{}
	return c11LogKeys{inner: rlwe.NewMemEvaluationKeySet(nil, gks...), reqs: reqs, missing: missing}, reqs, missing
}

// rlweEval returns the embedded rlwe evaluator bound to evk, plus the scheme-level Add.
func (x *c11Ctx) rlweEval(evk rlwe.EvaluationKeySet) (*rlwe.Evaluator, func(a, b, c *rlwe.Ciphertext) error) {
	if x.name == "bgv" {
		e := x.bgvEv.WithKey(evk)
		return e.Evaluator, func(a, b, c *rlwe.Ciphertext) error { return e.Add(a, b, c) }
	}
	e := x.ckksEv.WithKey(evk)
	return e.Evaluator, func(a, b, c *rlwe.Ciphertext) error { return e.Add(a, b, c) }
}

// ---- reference computations on slot vectors (independent of the model)

func (x *c11Ctx) red(v int64) int64 {
	if x.t == 0 {
		return v
	}
	m := v % int64(x.t)
	if m < 0 {
		m += int64(x.t)
	}
	return m
}

// refRot rotates every row left by k (k any int).
func (x *c11Ctx) refRot(v []int64, k int) []int64 {
	out := make([]int64, len(v))
	rows := len(v) / x.cols
	kk := ((k % x.cols) + x.cols) % x.cols
	for r := 0; r < rows; r++ {
		for c := 0; c < x.cols; c++ {
			out[r*x.cols+c] = v[r*x.cols+(c+kk)%x.cols]
		}
	}
	return out
}

func (x *c11Ctx) refConj(v []int64) []int64 {
	out := make([]int64, len(v))
	h := len(v) / 2
	for i := 0; i < h; i++ {
		if x.lay == "bgv" {
			out[i], out[h+i] = v[h+i], v[i]
		} else {
			out[i], out[h+i] = v[i], x.red(-v[h+i])
		}
	}
	return out
}

func (x *c11Ctx) refAdd(a, b []int64) []int64 {
	out := make([]int64, len(a))
	for i := range a {
		out[i] = x.red(a[i] + b[i])
	}
	return out
}

// refSum = sum_{i<n} rot(i*step) v
func (x *c11Ctx) refSum(v []int64, step, n int) []int64 {
	acc := make([]int64, len(v))
	for i := 0; i < n; i++ {
		acc = x.refAdd(acc, x.refRot(v, i*step))
	}
	return acc
}

// refTrace: the documented projection, (1/|H|) * sum over the subgroup H fixing 2^l slots.
// nil where Trace is not defined (l outside [0, log2(cols)]).
func (x *c11Ctx) refTrace(v []int64, l int) []int64 {
	logCols := 0
	for 1<<uint(logCols) < x.cols {
		logCols++
	}
	if l < 0 || l > logCols {
		return nil
	}
	cnt := 1 << uint(logCols-l)
	u := x.refSum(v, 1<<uint(l), cnt)
	gap := int64(cnt)
	if l == 0 && x.rt == "std" {
		u = x.refAdd(u, x.refConj(u))
		gap *= 2
	}
	out := make([]int64, len(u))
	if x.t == 0 {
		for i := range u {
			out[i] = u[i] / gap
		}
		return out
	}
	inv := int64(ring.ModExp(uint64(gap), x.t-2, x.t))
	for i := range u {
		out[i] = u[i] * inv % int64(x.t)
	}
	return out
}

func c11Eq(a, b []int64) bool {
	if len(a) != len(b) {
		return false
	}
	for i := range a {
		if a[i] != b[i] {
			return false
		}
	}
	return true
}

func (x *c11Ctx) randVec(c *Ctx, mult int64) []int64 {
	v := make([]int64, x.veclen)
	for i := range v {
		if x.t != 0 {
			v[i] = int64(c.rng.Below(x.t))
		} else {
			v[i] = (int64(c.rng.Intn(401)) - 200) * mult
		}
	}
	return v
}

// ---------------------------------------------------------------- generator

func genC11(c *Ctx) {
	c11Galois(c)
	c11Advertised(c)
	c11Evaluators(c)
	c11KeyLevels(c)
	c11Meta(c)
	c11AccessorLarge(c)
	c11Circuits(c)
	c11KeySources(c)
}

func c11SpecialKs(c *Ctx, slots int, nthRoot uint64) []int {
	ks := []int{0, 1, -1, 2, -2, 3, slots - 1, slots, slots + 1, -slots, -slots - 1, 2 * slots, 7 * slots,
		int(nthRoot), -int(nthRoot), int(nthRoot) - 1,
		1 << 62, (1 << 62) + 1, (1 << 62) - 1, -(1 << 62), -(1 << 62) + 1, -(1 << 62) - 1,
		math.MaxInt64, math.MaxInt64 - 1, math.MinInt64, math.MinInt64 + 1, 1 << 32, -(1 << 32), (1 << 61) + 5}
	for i := 0; i < 6; i++ {
		ks = append(ks, int(c.rng.U64()))
		ks = append(ks, c.rng.Intn(4*slots)-2*slots)
	}
	return ks
}

func c11Galois(c *Ctx) {
	logNs := []int{4, 5, 6, 8, 11, 14}
	if c.Thorough() {
		logNs = []int{4, 5, 6, 7, 8, 9, 10, 11, 12, 13, 14, 15, 16}
	}
	for _, logN := range logNs {
		for _, rtype := range []ring.Type{ring.Standard, ring.ConjugateInvariant} {
			p, err := rlwe.NewParametersFromLiteral(rlwe.ParametersLiteral{LogN: logN, LogQ: []int{50}, RingType: rtype})
			if err != nil {
				panic(err)
			}
			rt := "std"
			if rtype == ring.ConjugateInvariant {
				rt = "ci"
			}
			N := p.RingQ().NthRoot()
			slots := int(N / 4)
			c.Count("galois-params:" + rt)
			ks := c11SpecialKs(c, slots, N)
			for _, k := range ks {
				g := p.GaloisElement(k)
				c.Emit(fmt.Sprintf("galel %d %d", N, k), U(g))
				c.Count("galel")
				// inverse, discrete log
				gi := p.ModInvGaloisElement(g)
				c.Emit(fmt.Sprintf("modinv %d %d", N, g), U(gi))
				d := p.SolveDiscreteLogGaloisElement(g)
				c.Emit(fmt.Sprintf("dlog %d %d", N, g), I(d))
				det := ""
				if g*gi%N != 1 {
					det = fmt.Sprintf("g=%d inv=%d", g, gi)
				}
				c.Probe("modInv_spec", fmt.Sprintf("%d %d", N, k), "C11-modinv", det)
				det = ""
				want := ((k % slots) + slots) % slots
				if d != want {
					det = fmt.Sprintf("dlog=%d want=%d", d, want)
				}
				c.Probe("dlog_galEl", fmt.Sprintf("%d %d", N, k), "C11-dlog", det)
				det = ""
				if p.GaloisElement(want) != g {
					det = fmt.Sprintf("galEl(%d)=%d galEl(%d)=%d", k, g, want, p.GaloisElement(want))
				}
				c.Probe("galEl_mod_slots", fmt.Sprintf("%d %d", N, k), "C11-galel-mod", det)
				if p.GaloisElement(-k) != gi {
					c.Probe("modInv_galEl_neg", fmt.Sprintf("%d %d", N, k), "C11-modinv-neg", fmt.Sprintf("galEl(-k)=%d inv=%d", p.GaloisElement(-k), gi))
				} else {
					c.Probe("modInv_galEl_neg", fmt.Sprintf("%d %d", N, k), "C11-modinv-neg", "")
				}
			}
			// products
			for i := 0; i < len(ks); i++ {
				a, b := ks[i], ks[(i*7+3)%len(ks)]
				det := ""
				if p.GaloisElement(a)*p.GaloisElement(b)%N != p.GaloisElement(a+b) {
					det = fmt.Sprintf("a=%d b=%d", a, b)
				}
				c.Probe("galEl_add", fmt.Sprintf("%d %d %d", N, a, b), "C11-galel-add", det)
			}
			c.Emit(fmt.Sprintf("galels %d %s", N, c11IntVec(ks[:8])), Vec(p.GaloisElements(ks[:8])))
			// arbitrary (possibly even / non power-of-5) arguments: plain function agreement
			for i := 0; i < 6; i++ {
				g := c.rng.Below(N)
				c.Emit(fmt.Sprintf("modinv %d %d", N, g), U(p.ModInvGaloisElement(g)))
				c.Emit(fmt.Sprintf("dlog %d %d", N, g), I(p.SolveDiscreteLogGaloisElement(g)))
				c.Count("galois-arbitrary-arg")
			}
			c.Emit(fmt.Sprintf("ordertwo %s %d", rt, N), Try(func() string { return U(p.GaloisElementOrderTwoOrthogonalSubgroup()) }))
			// NTT index tables
			if logN <= c.Scale(6, 9) {
				n := p.N()
				gs := []uint64{1, 5, p.GaloisElement(-1), p.GaloisElement(3), N - 1, N - 5, 2, 0, N + 5}
				for _, g := range gs {
					idx, err := ring.AutomorphismNTTIndex(n, N, g)
					out := "err"
					if err == nil {
						out = Vec(idx)
					}
					c.Emit(fmt.Sprintf("nttindex %d %d %d", n, N, g), out)
					c.Count("nttindex")
					if err == nil && g%2 == 1 && (rtype == ring.Standard || g%4 == 1) {
						seen := make([]bool, n)
						det := ""
						for _, j := range idx {
							if j >= uint64(n) || seen[j] {
								det = fmt.Sprintf("index %d repeated or out of range", j)
								break
							}
							seen[j] = true
						}
						c.Probe("nttIndex_perm", fmt.Sprintf("%d %d %d", n, N, g), "C11-nttindex", det)
					}
				}
			}
		}
	}
	// malformed sizes for AutomorphismNTTIndex
	for _, a := range [][3]uint64{{12, 32, 5}, {16, 48, 5}, {0, 32, 5}, {16, 32, 7}} {
		idx, err := ring.AutomorphismNTTIndex(int(a[0]), a[1], a[2])
		out := "err"
		if err == nil {
			out = Vec(idx)
		}
		c.Emit(fmt.Sprintf("nttindex %d %d %d", a[0], a[1], a[2]), out)
		c.Count("nttindex-malformed")
	}
}

func c11Pairs(limit int) [][2]int {
	var out [][2]int
	for b := 1; b <= limit; b++ {
		for n := 1; n*b <= limit; n++ {
			out = append(out, [2]int{b, n})
		}
	}
	return out
}

func c11Advertised(c *Ctx) {
	for _, logN := range []int{4, 5, 6, 10} {
		pb, err := bgv.NewParametersFromLiteral(bgv.ParametersLiteral{LogN: logN, LogQ: []int{50}, PlaintextModulus: 65537})
		if err != nil {
			panic(err)
		}
		N := pb.RingQ().NthRoot()
		lim := c.Scale(40, 160)
		pairs := c11Pairs(lim)
		extra := [][2]int{{0, 3}, {3, 0}, {-1, 5}, {5, -1}, {-3, 7}, {1 << 62, 5}, {-(1 << 62), 3}, {1, 1 << 20}, {1 << 40, 1 << 22},
			{pb.N() / 2, 2}, {pb.N(), 1}, {1, pb.N()}, {1, pb.N() / 2}, {1, pb.N()/2 + 1}, {2, pb.N() / 2}, {math.MaxInt64, 3}, {math.MinInt64, 3}, {3, 1 << 61}}
		pairs = append(pairs, extra...)
		for _, bn := range pairs {
			b, n := bn[0], bn[1]
			c.Emit(fmt.Sprintf("adv-innersum %d %d %d", N, b, n), c11SortedU(rlwe.GaloisElementsForInnerSum(pb, b, n)))
			c.Emit(fmt.Sprintf("adv-replicate %d %d %d", N, b, n), c11SortedU(rlwe.GaloisElementsForReplicate(pb, b, n)))
			c.Emit(fmt.Sprintf("adv-innersum-bgv %d %d %d %d", N, pb.MaxSlots(), b, n), c11SortedU(pb.GaloisElementsForInnerSum(b, n)))
			c.Emit(fmt.Sprintf("adv-replicate-bgv %d %d %d %d", N, pb.N(), b, n), c11SortedU(pb.GaloisElementsForReplicate(b, n)))
			c.Count("adv-lists")
		}
		for _, rtype := range []ring.Type{ring.Standard, ring.ConjugateInvariant} {
			p, err := rlwe.NewParametersFromLiteral(rlwe.ParametersLiteral{LogN: logN, LogQ: []int{50}, RingType: rtype})
			if err != nil {
				panic(err)
			}
			rt := "std"
			if rtype == ring.ConjugateInvariant {
				rt = "ci"
			}
			for l := -2; l <= logN+2; l++ {
				c.Emit(fmt.Sprintf("adv-trace %s %d %d", rt, logN, l), Try(func() string { return c11SortedU(rlwe.GaloisElementsForTrace(p, l)) }))
				c.Count("adv-trace")
			}
		}
	}
}

// c11Run runs op with keys for exactly `adv` and emits the tie line and the probes.
//
//	opLine : full tie op text (without the vector), model computes reqs and value
//	want   : reference value (nil = no sum_spec probe)
//	valueTie : false => "-reqs" variant (value not compared)
func (x *c11Ctx) run(c *Ctx, opName, args string, adv []uint64, v []int64, want []int64, valueTie bool,
	op func(ev *rlwe.Evaluator, add func(a, b, c *rlwe.Ciphertext) error, ct, out *rlwe.Ciphertext, evk rlwe.EvaluationKeySet) error) {

	plain := opName == "rotate" || opName == "conj" || opName == "innerfunction" || opName == "trace"
	if !x.hasP && !plain {
		// the hoisted operations need P: they must return an error (a dozen ties per context suffice)
		x.noPRuns++
		if x.noPRuns > 12 {
			c.Count("skipped-hoisted-noP")
			return
		}
		want = nil
	}
	evk, reqs, missing := x.keysFor(adv, plain)
	ev, add := x.rlweEval(evk)
	ct := x.encrypt(v)
	out := x.newCt()
	status := c11TryErr(func() error { return op(ev, add, ct, out, evk) })
	tieOp := opName
	if x.label != "" {
		opName = x.label // probes are reported under the accessor/operation pair, the tie line keeps the model op
	}
	c.Count("run:" + x.tag() + ":" + opName)

	det := ""
	if len(*missing) > 0 {
		det = fmt.Sprintf("missing=%s advertised=%s", Vec(*missing), c11SortedU(adv))
	}
	c.Probe("keys_sufficient", fmt.Sprintf("%s %s %s", x.tag(), opName, args), "C11-keys-"+opName, det)

	var got []int64
	if status == "" {
		got = x.decrypt(out)
	}
	name := tieOp
	line := fmt.Sprintf("%s %s %s", name, args, c11I64Vec(v))
	if !valueTie {
		line = fmt.Sprintf("%s-reqs %s %s", name, args, c11I64Vec(v))
	}
	switch {
	case status != "":
		c.Emit(line, status)
	case valueTie:
		c.Emit(line, Vec(*reqs)+" "+c11I64Vec(got))
	default:
		c.Emit(line, Vec(*reqs))
	}
	if !x.hasP && !plain {
		det = ""
		if status != "err" {
			det = "status=" + status + " (want an error: parameters without P)"
		}
		c.Probe("hoisted_without_P", fmt.Sprintf("%s %s %s", x.tag(), opName, args), "C11-noP-panic", det)
	}
	if want != nil {
		det = ""
		if status != "" {
			det = "status=" + status
		} else if !c11Eq(got, want) {
			det = fmt.Sprintf("got=%s want=%s", c11I64Vec(got), c11I64Vec(want))
		}
		c.Probe("sum_spec", fmt.Sprintf("%s %s %s %s", x.tag(), opName, args, c11I64Vec(v)), "C11-sum-"+opName+"-"+x.name, det)
	}
}

func c11Evaluators(c *Ctx) {
	var ctxs []*c11Ctx
	type spec struct {
		kind string
		logN int
		hasP bool
	}
	specs := []spec{{"bgv", 4, true}, {"bgv", 5, true}, {"ckks", 4, true}, {"ckks", 5, true}, {"ckks", 6, true}, {"ckksci", 4, true}, {"ckksci", 5, true},
		{"bgv", 4, false}, {"ckks", 4, false}, {"ckksci", 4, false}}
	if c.Thorough() {
		specs = append(specs, spec{"bgv", 6, true}, spec{"ckks", 7, true}, spec{"ckksci", 6, true}, spec{"bgv", 5, false}, spec{"ckks", 5, false}, spec{"ckks", 6, false}, spec{"ckksci", 5, false}, spec{"bgv", 6, false},
			spec{"bgv", 7, true}, spec{"ckks", 8, true}, spec{"ckksci", 7, true}, spec{"bgv", 8, true}, spec{"ckks", 9, true})
	}
	for _, s := range specs {
		switch s.kind {
		case "bgv":
			ctxs = append(ctxs, newC11BGV(s.logN, s.hasP))
		case "ckks":
			ctxs = append(ctxs, newC11CKKS(s.logN, s.hasP, false))
		default:
			ctxs = append(ctxs, newC11CKKS(s.logN, s.hasP, true))
		}
	}
	for _, x := range ctxs {
		c11OneCtx(c, x)
		det := ""
		if x.t == 0 && !(x.maxRoundErr < 0.05) {
			det = fmt.Sprintf("max |x-round(x)| = %g (tolerance 0.05)", x.maxRoundErr)
		}
		c.Probe("ckks_round_margin", x.tag(), "C11-ckks-precision", det)
	}
}

func c11OneCtx(c *Ctx, x *c11Ctx) {
	N := x.nthRoot
	base := fmt.Sprintf("%s %d %d", x.lay, N, x.t)

	// ---- single rotations
	ks := c11SpecialKs(c, x.cols, N)
	for _, k := range ks {
		k := k
		v := x.randVec(c, 1)
		adv := []uint64{x.rp.GaloisElement(k)}
		x.run(c, "rotate", fmt.Sprintf("%s %d", base, k), adv, v, x.refRot(v, k), true,
			func(ev *rlwe.Evaluator, _ func(a, b, c *rlwe.Ciphertext) error, ct, out *rlwe.Ciphertext, evk rlwe.EvaluationKeySet) error {
				switch x.name {
				case "bgv":
					return x.bgvEv.WithKey(evk).RotateColumns(ct, k, out)
				default:
					return x.ckksEv.WithKey(evk).Rotate(ct, k, out)
				}
			})
	}
	// order-two element
	{
		v := x.randVec(c, 1)
		var adv []uint64
		var want []int64
		if x.rt == "std" {
			adv = []uint64{x.rp.GaloisElementOrderTwoOrthogonalSubgroup()}
			want = x.refConj(v)
		}
		x.run(c, "conj", fmt.Sprintf("%s %s %d %d", x.lay, x.rt, N, x.t), adv, v, want, true,
			func(ev *rlwe.Evaluator, _ func(a, b, c *rlwe.Ciphertext) error, ct, out *rlwe.Ciphertext, evk rlwe.EvaluationKeySet) error {
				switch x.name {
				case "bgv":
					return x.bgvEv.WithKey(evk).RotateRows(ct, out)
				default:
					return x.ckksEv.WithKey(evk).Conjugate(ct, out)
				}
			})
	}
	// hoisted rotations (ckks API), only meaningful with P (property statement); run without P too and label
	if x.name != "bgv" {
		for rep := 0; rep < 3; rep++ {
			rots := []int{0, 1, -1, x.cols, c.rng.Intn(3*x.cols) - x.cols, (1 << 62) + 3, -5}
			rots = rots[:3+rep*2]
			// distinct keys of the output map
			v := x.randVec(c, 1)
			adv := x.rp.GaloisElements(rots)
			evk, reqs, missing := x.keysFor(adv, false)
			e := x.ckksEv.WithKey(evk)
			ct := x.encrypt(v)
			var outs map[int]*rlwe.Ciphertext
			status := c11TryErr(func() (err error) { outs, err = e.RotateHoistedNew(ct, rots); return })
			det := ""
			if len(*missing) > 0 {
				det = "missing=" + Vec(*missing)
			}
			c.Probe("keys_sufficient", fmt.Sprintf("%s rothoisted %s", x.tag(), c11IntVec(rots)), "C11-keys-rothoisted", det)
			line := fmt.Sprintf("rothoisted %s %s %s %s", base, x.hp(), c11IntVec(rots), c11I64Vec(v))
			if !x.hasP {
				det = ""
				if status != "err" {
					det = "status=" + status + " (want an error: parameters without P)"
				}
				c.Probe("hoisted_without_P", fmt.Sprintf("%s rothoisted %s", x.tag(), c11IntVec(rots)), "C11-noP-panic", det)
			}
			if status != "" {
				c.Emit(line, status)
			} else {
				parts := []string{Vec(*reqs)}
				det = ""
				for _, r := range rots {
					got := x.decrypt(outs[r])
					parts = append(parts, c11I64Vec(got))
					if !c11Eq(got, x.refRot(v, r)) {
						det = fmt.Sprintf("rot=%d got=%s", r, c11I64Vec(got))
					}
				}
				c.Emit(line, strings.Join(parts, " "))
				c.Probe("sum_spec", fmt.Sprintf("%s rothoisted %s", x.tag(), c11IntVec(rots)), "C11-sum-rothoisted-"+x.name, det)
			}
			c.Count("run:" + x.tag() + ":rothoisted")
		}
	}

	// ---- (batch, n) sweeps
	pairs := c11Pairs(x.slots)
	// beyond the slot count (RotateAndAdd / PartialTracesSum accept these)
	beyond := [][2]int{{1, x.slots + 1}, {3, x.slots}, {x.cols, 3}, {x.cols - 1, 5}, {2 * x.cols, 2}, {x.cols + 1, 3}, {5, x.cols}, {x.cols / 2, 6}}
	for _, bn := range append(pairs, beyond...) {
		b, n := bn[0], bn[1]
		args := fmt.Sprintf("%s %s %d %d", base, x.hp(), b, n)
		c.Count("pairs:" + x.tag())

		// RotateAndAdd = PartialTracesSum, keys for rlwe.GaloisElementsForInnerSum
		v := x.randVec(c, 1)
		x.run(c, "pts", args, rlwe.GaloisElementsForInnerSum(x.rp, b, n), v, x.refSum(v, b, n), true,
			func(ev *rlwe.Evaluator, _ func(a, b, c *rlwe.Ciphertext) error, ct, out *rlwe.Ciphertext, _ rlwe.EvaluationKeySet) error {
				return ev.PartialTracesSum(ct, b, n, out)
			})
		// Replicate, keys for rlwe.GaloisElementsForReplicate
		v = x.randVec(c, 1)
		x.run(c, "replicate", args, rlwe.GaloisElementsForReplicate(x.rp, b, n), v, x.refSum(v, -b, n), true,
			func(ev *rlwe.Evaluator, _ func(a, b, c *rlwe.Ciphertext) error, ct, out *rlwe.Ciphertext, _ rlwe.EvaluationKeySet) error {
				return ev.Replicate(ct, b, n, out)
			})
		// InnerFunction with f = Add
		v = x.randVec(c, 1)
		x.run(c, "innerfunction", args, rlwe.GaloisElementsForInnerSum(x.rp, b, n), v, x.refSum(v, b, n), true,
			func(ev *rlwe.Evaluator, add func(a, b, c *rlwe.Ciphertext) error, ct, out *rlwe.Ciphertext, _ rlwe.EvaluationKeySet) error {
				return ev.InnerFunction(ct, b, n, add, out)
			})
		// scheme-level InnerSum with the scheme's advertised list
		v = x.randVec(c, 1)
		l := n * b
		accepted := l <= x.slots && l&(l-1) == 0
		var want []int64
		if x.name == "bgv" {
			if accepted {
				if l == x.slots && n > 1 {
					u := x.refSum(v, b, n/2)
					want = x.refAdd(u, x.refConj(u))
				} else {
					want = x.refSum(v, b, n)
				}
			}
			x.run(c, "innersum-bgv", fmt.Sprintf("%s %s %d %d %d", base, x.hp(), x.slots, b, n), x.bgvP.GaloisElementsForInnerSum(b, n), v, want, true,
				func(_ *rlwe.Evaluator, _ func(a, b, c *rlwe.Ciphertext) error, ct, out *rlwe.Ciphertext, evk rlwe.EvaluationKeySet) error {
					return x.bgvEv.WithKey(evk).InnerSum(ct, b, n, out)
				})
			// scheme-level Replicate keys
			v = x.randVec(c, 1)
			x.run(c, "replicate", args, x.bgvP.GaloisElementsForReplicate(b, n), v, x.refSum(v, -b, n), true,
				func(_ *rlwe.Evaluator, _ func(a, b, c *rlwe.Ciphertext) error, ct, out *rlwe.Ciphertext, evk rlwe.EvaluationKeySet) error {
					return x.bgvEv.WithKey(evk).Replicate(ct, b, n, out)
				})
		} else {
			if accepted {
				want = x.refSum(v, b, n)
			}
			x.run(c, "innersum-ckks", fmt.Sprintf("%s %s %d %d %d", base, x.hp(), x.slots, b, n), x.ckksP.GaloisElementsForInnerSum(b, n), v, want, true,
				func(_ *rlwe.Evaluator, _ func(a, b, c *rlwe.Ciphertext) error, ct, out *rlwe.Ciphertext, evk rlwe.EvaluationKeySet) error {
					return x.ckksEv.WithKey(evk).InnerSum(ct, b, n, out)
				})
		}
		c11AccessorMatrix(c, x, base, b, n)
	}
	c11AccessorOther(c, x)
	c11NonNTT(c, x)

	// ---- rejected / degenerate arguments
	for _, bn := range [][2]int{{0, 3}, {3, 0}, {0, 0}, {1, 1}, {x.cols, 1}} {
		b, n := bn[0], bn[1]
		args := fmt.Sprintf("%s %s %d %d", base, x.hp(), b, n)
		v := x.randVec(c, 1)
		var want []int64
		if n == 1 {
			want = v
		}
		x.run(c, "pts", args, rlwe.GaloisElementsForInnerSum(x.rp, b, n), v, want, true,
			func(ev *rlwe.Evaluator, _ func(a, b, c *rlwe.Ciphertext) error, ct, out *rlwe.Ciphertext, _ rlwe.EvaluationKeySet) error {
				return ev.PartialTracesSum(ct, b, n, out)
			})
		c.Count("degenerate-args")
	}

	// arguments that must be rejected (non-positive count) or summed correctly (batchSize = 0)
	type bad struct {
		op   string
		b, n int
		key  string
		note string
	}
	for _, d := range []bad{
		{"pts", 3, -2, "C11-nonpositive-count", "PartialTracesSum accepts n<0 (returns nil, opOut left untouched)"},
		{"pts", 3, math.MinInt64, "C11-nonpositive-count", "PartialTracesSum accepts n<0 (returns nil, opOut left untouched)"},
		{"innerfunction", 2, 0, "C11-nonpositive-count", "InnerFunction accepts n=0 (returns nil, opOut left untouched)"},
		{"innerfunction", 2, -3, "C11-nonpositive-count", "InnerFunction accepts n<0 (returns nil, opOut left untouched)"},
		{"innerfunction", 0, 3, "C11-innerfunction-batch0", "InnerFunction(batchSize=0, n=3) does not return 3*ctIn"},
		{"innerfunction", 0, 4, "C11-innerfunction-batch0", "InnerFunction(batchSize=0, n=4) does not return 4*ctIn"},
		{"innerfunction", 0, 7, "C11-innerfunction-batch0", "InnerFunction(batchSize=0, n=7) does not return 7*ctIn"},
		{"innerfunction", 1 << 62, 5, "C11-innerfunction-batch0", "InnerFunction(batchSize=2^62, n=5) does not return 5*ctIn"},
	} {
		d := d
		v := x.randVec(c, 1)
		var want []int64
		if d.n > 0 {
			want = x.refSum(v, d.b, d.n)
		}
		args := fmt.Sprintf("%s %s %d %d", base, x.hp(), d.b, d.n)
		evk, reqs, _ := x.keysFor(rlwe.GaloisElementsForInnerSum(x.rp, d.b, d.n), d.op != "pts")
		if !x.hasP && d.op == "pts" {
			continue
		}
		ev, add := x.rlweEval(evk)
		out := x.newCt()
		ct := x.encrypt(v)
		status := c11TryErr(func() error {
			if d.op == "pts" {
				return ev.PartialTracesSum(ct, d.b, d.n, out)
			}
			return ev.InnerFunction(ct, d.b, d.n, add, out)
		})
		det := ""
		if status == "" {
			got := x.decrypt(out)
			c.Emit(fmt.Sprintf("%s %s %s", d.op, args, c11I64Vec(v)), Vec(*reqs)+" "+c11I64Vec(got))
			if want == nil || !c11Eq(got, want) {
				det = d.note
			}
		} else {
			c.Emit(fmt.Sprintf("%s %s %s", d.op, args, c11I64Vec(v)), status)
			if want != nil || status != "err" {
				det = "status=" + status + ": " + d.note
			}
		}
		c.Probe("rejects_or_sums", fmt.Sprintf("%s %s %s", x.tag(), d.op, args), d.key, det)
		c.Count("degenerate-args")
	}
	// int overflow of k*offset: the zero test `k != 0` is taken on the wrapped product
	if x.hasP {
		b, n := 1<<62, 5
		v := x.randVec(c, 1)
		args := fmt.Sprintf("%s %s %d %d", base, x.hp(), b, n)
		evk, reqs, missing := x.keysFor(rlwe.GaloisElementsForInnerSum(x.rp, b, n), false)
		var fresh *rlwe.Evaluator // fresh buffers: accQP is all zero, so the stale-buffer read is deterministic
		if x.name == "bgv" {
			fresh = bgv.NewEvaluator(x.bgvP, &evk).Evaluator
		} else {
			fresh = ckks.NewEvaluator(x.ckksP, &evk).Evaluator
		}
		out := x.newCt()
		ct := x.encrypt(v)
		status := c11TryErr(func() error { return fresh.PartialTracesSum(ct, b, n, out) })
		det := ""
		if len(*missing) > 0 {
			det = "missing=" + Vec(*missing)
		}
		c.Probe("keys_sufficient", fmt.Sprintf("%s pts %s", x.tag(), args), "C11-keys-pts", det)
		if status == "" {
			got := x.decrypt(out)
			c.Emit(fmt.Sprintf("pts %s %s", args, c11I64Vec(v)), Vec(*reqs)+" "+c11I64Vec(got))
			det = ""
			if !c11Eq(got, x.refSum(v, 0, n)) { // every rotation by a multiple of 2^62 is the identity
				det = fmt.Sprintf("offset=2^62 n=5: got=%s want=5*v", c11I64Vec(got))
			}
			c.Probe("sum_spec", fmt.Sprintf("%s pts %s", x.tag(), args), "C11-pts-int-overflow", det)
		} else {
			c.Emit(fmt.Sprintf("pts %s %s", args, c11I64Vec(v)), status)
		}
		c.Count("overflow-args")
	}

	// ---- Trace
	for l := -1; l <= x.logN+1; l++ {
		l := l
		mult := int64(1)
		if x.t == 0 {
			mult = int64(1) << uint(x.logN)
		}
		v := x.randVec(c, mult)
		var adv []uint64
		advPanics := false
		func() {
			defer func() {
				if recover() != nil {
					advPanics = true
				}
			}()
			adv = rlwe.GaloisElementsForTrace(x.rp, l)
		}()
		logRot := x.logN - 1
		if x.rt == "ci" {
			logRot = x.logN
		}
		inRange := 0 <= l && l <= logRot
		det := ""
		if advPanics == inRange {
			det = fmt.Sprintf("GaloisElementsForTrace(%d): panics=%v although Trace accepts=%v", l, advPanics, inRange)
		}
		c.Probe("adv_trace_defined", fmt.Sprintf("%s %d", x.tag(), l), "C11-adv-trace-panic", det)
		x.run(c, "trace", fmt.Sprintf("%s %s %d %d %d", x.lay, x.rt, x.logN, x.t, l), adv, v, x.refTrace(v, l), true,
			func(ev *rlwe.Evaluator, _ func(a, b, c *rlwe.Ciphertext) error, ct, out *rlwe.Ciphertext, _ rlwe.EvaluationKeySet) error {
				return ev.Trace(ct, l, out)
			})
		if !inRange {
			st := c11TryErr(func() error {
				evk, _, _ := x.keysFor(nil, true)
				ev, _ := x.rlweEval(evk)
				return ev.Trace(x.encrypt(v), l, x.newCt())
			})
			det = ""
			if st != "err" {
				det = fmt.Sprintf("Trace(logN=%d) status=%q, want an error", l, st)
			}
			c.Probe("trace_rejected", fmt.Sprintf("%s %d", x.tag(), l), "C11-sum-trace-"+x.name, det)
		}
	}
}
