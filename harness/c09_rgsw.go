package main

// C09 — rgsw.Evaluator.ExternalProduct: fresh distinct output vs out == op0 vs pre-used evaluator/output,
// for 0…3 auxiliary primes, several digit decompositions and 1…3 moduli Q (the accumulators of the
// out-of-place call borrow their P parts from evaluator buffers that other stages use as scratch).

import (
	"fmt"
	"math/big"

	"github.com/tuneinsight/lattigo/v6/core/rgsw"
	"github.com/tuneinsight/lattigo/v6/core/rlwe"
)

func c09RGSW(c *Ctx) {
	type cfg struct {
		logQ []int
		nP   int
		b2   int
	}
	var cfgs []cfg
	for _, nP := range []int{0, 1, 2, 3} {
		for _, b2 := range []int{0, 8, 15} {
			cfgs = append(cfgs, cfg{[]int{45, 40}, nP, b2})
		}
	}
	cfgs = append(cfgs, cfg{[]int{27}, 0, 7}, cfg{[]int{50}, 0, 10}, cfg{[]int{50, 45, 40}, 2, 0}, cfg{[]int{50, 45, 40}, 3, 0})
	if c.Thorough() {
		for _, nP := range []int{1, 2, 3} {
			cfgs = append(cfgs, cfg{[]int{55}, nP, 0}, cfg{[]int{45, 40, 40, 40}, nP, 0}, cfg{[]int{45, 40, 40, 40}, nP, 20})
		}
	}
	for _, g := range cfgs {
		lit := rlwe.ParametersLiteral{LogN: 5, LogQ: g.logQ, NTTFlag: true}
		if g.nP > 0 {
			lit.LogP = []int{50, 50, 50}[:g.nP]
		}
		sc := fmt.Sprintf("Q%d/P%d/b%d", len(g.logQ), g.nP, g.b2)
		name := "rgsw.Evaluator.ExternalProduct"
		res := Try(func() string {
			p, err := rlwe.NewParametersFromLiteral(lit)
			if err != nil {
				return "params"
			}
			kgen := rlwe.NewKeyGenerator(p)
			sk := kgen.GenSecretKeyNew()
			enc := rlwe.NewEncryptor(p, sk)
			dec := rlwe.NewDecryptor(p, sk)
			lvl := p.MaxLevel()
			// RGSW encryption of the constant 2 (all NTT coefficients equal 2)
			ptm := rlwe.NewPlaintext(p, lvl)
			ptm.IsNTT = true
			for i := range ptm.Value.Coeffs {
				for j := range ptm.Value.Coeffs[i] {
					ptm.Value.Coeffs[i][j] = 2
				}
			}
			G := rgsw.NewCiphertext(p, lvl, p.MaxLevelP(), g.b2)
			if err := rgsw.NewEncryptor(p, sk).Encrypt(ptm, G); err != nil {
				return "rgsw-encrypt"
			}
			pt := rlwe.NewPlaintext(p, lvl)
			for j := range pt.Value.Coeffs[0] {
				v := uint64(j*3+1) % 17
				for i := range pt.Value.Coeffs {
					pt.Value.Coeffs[i][j] = v
				}
			}
			p.RingQ().NTT(pt.Value, pt.Value)
			pt.IsNTT = true
			A, err := enc.EncryptNew(pt)
			if err != nil {
				return "encrypt"
			}
			fp := func(ct *rlwe.Ciphertext) (string, string) {
				q := dec.DecryptNew(ct)
				return deepHash(&q.Value), deepHash(&ct.Value)
			}
			mk := func() *rgsw.Evaluator { return rgsw.NewEvaluator(p, nil) }
			// fresh distinct output
			a, out := A.CopyNew(), rlwe.NewCiphertext(p, 1, lvl)
			ha, hg := deepHash(a), deepHash(G)
			mk().ExternalProduct(a, G, out)
			*out.MetaData = *a.MetaData
			refDec, refRaw := fp(out)
			d := ""
			if deepHash(a) != ha {
				d += "op0-changed "
			}
			if deepHash(G) != hg {
				d += "rgsw-changed"
			}
			c.Probe("inputs_unchanged/"+name, sc, "C09-inputs-"+name, d)
			// in place
			a2 := A.CopyNew()
			mk().ExternalProduct(a2, G, a2)
			d2, r2 := fp(a2)
			d = ""
			if d2 != refDec {
				d = "result-differs(decrypted)"
			} else if r2 != refRaw {
				d = "result-differs(limbs)"
			}
			c.Probe("alias_insensitive/"+name+"/out=op0", sc, "C09-alias-"+name+"/out=op0", d)
			// the same evaluator used out of place, then in place, then out of place into a used output
			ev := mk()
			o3 := rlwe.NewCiphertext(p, 1, lvl)
			ev.ExternalProduct(A.CopyNew(), G, o3)
			a4 := A.CopyNew()
			ev.ExternalProduct(a4, G, a4)
			c09Poison(c, &c09Evals{rl: &ev.Evaluator})
			o5 := rlwe.NewCiphertext(p, 1, lvl)
			for i := range o5.Value {
				c09FillPoly(c, o5.Value[i])
			}
			ev.ExternalProduct(A.CopyNew(), G, o5)
			*o5.MetaData = *A.MetaData
			d3, _ := fp(o3)
			d4, _ := fp(a4)
			d5, _ := fp(o5)
			d = ""
			if d3 != refDec || d4 != refDec || d5 != refDec {
				d = fmt.Sprintf("result-differs(outOfPlace=%d,inPlace=%d,usedOutput=%d)", b2i(d3 == refDec), b2i(d4 == refDec), b2i(d5 == refDec))
			}
			c.Probe("history_free/"+name, sc, "C09-history-"+name, d)
			// the product must also be the right one: decrypts to 2·m up to noise (checked on the top bits)
			q := dec.DecryptNew(out)
			want := pt.Value.CopyNew()
			p.RingQ().AtLevel(lvl).MulScalar(*want, 2, *want)
			p.RingQ().AtLevel(lvl).Sub(q.Value, *want, q.Value)
			p.RingQ().AtLevel(lvl).INTT(q.Value, q.Value)
			bad := 0
			rq := p.RingQ().AtLevel(lvl)
			coeffs := make([]*big.Int, p.N())
			for i := range coeffs {
				coeffs[i] = new(big.Int)
			}
			rq.PolyToBigintCentered(q.Value, 1, coeffs)
			bound := new(big.Int).Rsh(rq.ModulusAtLevel[lvl], 8)
			for _, x := range coeffs {
				if x.CmpAbs(bound) > 0 {
					bad++
				}
			}
			d = ""
			if bad > 0 {
				d = fmt.Sprintf("fresh-output-product-wrong(%d coefficients off by more than Q/256)", bad)
			}
			c.Probe("product_correct/"+name, sc, "C09-correct-"+name, d)
			return "ok"
		})
		if res != "ok" {
			c.Count("rgsw_skipped:" + sc + ":" + res)
		}
	}
}
