package main

// C11, part "key levels": every rotation / automorphism path with Galois keys generated at every
// (LevelQ, LevelP) <= (MaxLevelQ, MaxLevelP) and BaseTwoDecomposition variants, on parameter sets
// with 2-3 auxiliary primes.  All lines are probes (value of the decrypted result against the
// cyclic slot rotation / order-two map / documented sum).
//
// Paths
//   plain       rlwe.Evaluator.Automorphism                         (any LevelP, any base-2 decomposition)
//   hoisted     DecomposeNTT(L, lp, lp+1) + AutomorphismHoisted      (key's own LevelP; no base-2 decomposition)
//   lazy        DecomposeNTT(L, lp, lp+1) + scheme RotateHoistedLazyNew / AutomorphismHoistedLazy
//               + BasisExtender.ModDownQPtoQNTT(L, lp)               (what lintrans does)
//   scheme      ckks RotateHoisted, InnerSum, Replicate, Trace       (decompose at MaxLevelP: keys at MaxLevelP,
//                                                                     every LevelQ, every ciphertext level)

import (
	"fmt"

	"github.com/tuneinsight/lattigo/v6/core/rlwe"
	"github.com/tuneinsight/lattigo/v6/ring"
	"github.com/tuneinsight/lattigo/v6/ring/ringqp"
	"github.com/tuneinsight/lattigo/v6/schemes/bgv"
	"github.com/tuneinsight/lattigo/v6/schemes/ckks"
)

// newC11Multi builds a context with nQ ciphertext primes and nP auxiliary primes.
func newC11Multi(kind string, logN, nQ, nP int) *c11Ctx {
	logQ := []int{55}
	for i := 1; i < nQ; i++ {
		logQ = append(logQ, 45)
	}
	logP := []int{}
	for i := 0; i < nP; i++ {
		logP = append(logP, 50)
	}
	if kind == "bgv" {
		p, err := bgv.NewParametersFromLiteral(bgv.ParametersLiteral{LogN: logN, LogQ: logQ, LogP: logP, PlaintextModulus: 65537})
		if err != nil {
			panic(err)
		}
		x := &c11Ctx{name: "bgv", lay: "bgv", rt: "std", logN: logN, hasP: true, nthRoot: p.RingQ().NthRoot(), t: 65537,
			slots: p.MaxSlots(), cols: p.N() / 2, veclen: p.N(), bgvP: p, cache: map[uint64]*rlwe.GaloisKey{}, cachePw2: map[uint64]*rlwe.GaloisKey{}}
		x.rp = p.GetRLWEParameters()
		x.kgen = rlwe.NewKeyGenerator(p)
		x.sk = x.kgen.GenSecretKeyNew()
		x.bgvE = bgv.NewEncoder(p)
		x.bgvEv = bgv.NewEvaluator(p, nil)
		x.enc = rlwe.NewEncryptor(p, x.sk)
		x.dec = rlwe.NewDecryptor(p, x.sk)
		return x
	}
	lit := ckks.ParametersLiteral{LogN: logN, LogQ: logQ, LogP: logP, LogDefaultScale: 32}
	if kind == "ckksci" {
		lit.RingType = ring.ConjugateInvariant
	}
	p, err := ckks.NewParametersFromLiteral(lit)
	if err != nil {
		panic(err)
	}
	x := &c11Ctx{name: "ckks", lay: "ckks", rt: "std", logN: logN, hasP: true, nthRoot: p.RingQ().NthRoot(), t: 0,
		slots: p.MaxSlots(), cols: p.MaxSlots(), veclen: 2 * p.MaxSlots(), ckksP: p, cache: map[uint64]*rlwe.GaloisKey{}, cachePw2: map[uint64]*rlwe.GaloisKey{}}
	if kind == "ckksci" {
		x.name, x.lay, x.rt, x.veclen = "ckksci", "single", "ci", p.MaxSlots()
	}
	x.rp = p.GetRLWEParameters()
	x.kgen = rlwe.NewKeyGenerator(p)
	x.sk = x.kgen.GenSecretKeyNew()
	x.ckksE = ckks.NewEncoder(p)
	x.ckksEv = ckks.NewEvaluator(p, nil)
	x.enc = rlwe.NewEncryptor(p, x.sk)
	x.dec = rlwe.NewDecryptor(p, x.sk)
	return x
}

// encryptLvl encrypts the slot vector v at the given level with default metadata.
func (x *c11Ctx) encryptLvl(v []int64, level int) *rlwe.Ciphertext {
	var pt *rlwe.Plaintext
	switch x.name {
	case "bgv":
		pt = bgv.NewPlaintext(x.bgvP, level)
		u := make([]uint64, len(v))
		for i := range v {
			u[i] = uint64(v[i])
		}
		if err := x.bgvE.Encode(u, pt); err != nil {
			panic(err)
		}
	case "ckks":
		pt = ckks.NewPlaintext(x.ckksP, level)
		z := make([]complex128, x.slots)
		for i := range z {
			z[i] = complex(float64(v[i]), float64(v[x.slots+i]))
		}
		if err := x.ckksE.Encode(z, pt); err != nil {
			panic(err)
		}
	default:
		pt = ckks.NewPlaintext(x.ckksP, level)
		z := make([]float64, x.slots)
		for i := range z {
			z[i] = float64(v[i])
		}
		if err := x.ckksE.Encode(z, pt); err != nil {
			panic(err)
		}
	}
	ct, err := x.enc.EncryptNew(pt)
	if err != nil {
		panic(err)
	}
	return ct
}

func (x *c11Ctx) newCtLvl(level int) *rlwe.Ciphertext {
	if x.name == "bgv" {
		return bgv.NewCiphertext(x.bgvP, 1, level)
	}
	return ckks.NewCiphertext(x.ckksP, 1, level)
}

type c11KeyCfg struct{ lq, lp, pw2 int }

func (k c11KeyCfg) String() string { return fmt.Sprintf("lq%d lp%d pw%d", k.lq, k.lp, k.pw2) }

// keysAt returns a plain (non logging) key set with keys for galEls generated at cfg.
func (x *c11Ctx) keysAt(cache map[string]*rlwe.GaloisKey, cfg c11KeyCfg, galEls []uint64) *rlwe.MemEvaluationKeySet {
	gks := make([]*rlwe.GaloisKey, 0, len(galEls))
	for _, g := range galEls {
		id := fmt.Sprintf("%d/%v", g, cfg)
		k, ok := cache[id]
		if !ok {
			lq, lp, pw2 := cfg.lq, cfg.lp, cfg.pw2
			k = x.kgen.GenGaloisKeyNew(g, x.sk, rlwe.EvaluationKeyParameters{LevelQ: &lq, LevelP: &lp, BaseTwoDecomposition: &pw2})
			cache[id] = k
		}
		gks = append(gks, k)
	}
	return rlwe.NewMemEvaluationKeySet(nil, gks...)
}

// c11KLCheck emits the value probe of one run.
func (x *c11Ctx) klProbe(c *Ctx, path string, cfg c11KeyCfg, L int, what string, status string, got, want []int64) {
	det := ""
	if status != "" {
		det = "status=" + status
	} else if !c11Eq(got, want) {
		det = fmt.Sprintf("got=%s want=%s", c11I64Vec(got), c11I64Vec(want))
	}
	c.Probe("keylevel_"+path, fmt.Sprintf("%s/nP%d %v L%d %s", x.name, x.rp.PCount(), cfg, L, what), "C11-keylevel-"+path, det)
	c.Count("keylevel:" + path)
}

func c11KeyLevels(c *Ctx) {
	type spec struct {
		kind   string
		logN   int
		nQ, nP int
	}
	specs := []spec{{"ckks", 5, 3, 2}, {"bgv", 5, 3, 2}, {"ckks", 4, 2, 3}}
	if c.Thorough() {
		specs = append(specs, spec{"bgv", 4, 3, 3}, spec{"ckksci", 5, 3, 2}, spec{"ckks", 6, 4, 3}, spec{"ckksci", 4, 2, 3})
	}
	for _, s := range specs {
		c11KeyLevelsCtx(c, newC11Multi(s.kind, s.logN, s.nQ, s.nP))
	}
}

func c11KeyLevelsCtx(c *Ctx, x *c11Ctx) {
	cache := map[string]*rlwe.GaloisKey{}
	maxQ, maxP := x.rp.MaxLevelQ(), x.rp.MaxLevelP()
	var cfgs []c11KeyCfg
	for lq := 0; lq <= maxQ; lq++ {
		for lp := 0; lp <= maxP; lp++ {
			cfgs = append(cfgs, c11KeyCfg{lq, lp, 0})
			if lp == 0 {
				cfgs = append(cfgs, c11KeyCfg{lq, lp, 13})
			}
		}
	}
	type autoCase struct {
		what string
		g    uint64
		k    int
		conj bool
	}
	autos := []autoCase{
		{"rot1", x.rp.GaloisElement(1), 1, false},
		{fmt.Sprintf("rot%d", -3), x.rp.GaloisElement(-3), -3, false},
		{fmt.Sprintf("rot%d", x.cols/2+1), x.rp.GaloisElement(x.cols/2 + 1), x.cols/2 + 1, false},
	}
	if x.rt == "std" {
		autos = append(autos, autoCase{"conj", x.rp.GaloisElementOrderTwoOrthogonalSubgroup(), 0, true})
	}
	galEls := []uint64{}
	for _, a := range autos {
		galEls = append(galEls, a.g)
	}
	ref := func(a autoCase, v []int64) []int64 {
		if a.conj {
			return x.refConj(v)
		}
		return x.refRot(v, a.k)
	}

	for _, cfg := range cfgs {
		evk := x.keysAt(cache, cfg, galEls)
		var ev *rlwe.Evaluator
		if x.name == "bgv" {
			ev = x.bgvEv.WithKey(evk).Evaluator
		} else {
			ev = x.ckksEv.WithKey(evk).Evaluator
		}
		for L := 0; L <= cfg.lq; L++ {
			for _, a := range autos {
				a := a
				// ---- plain
				v := x.randVec(c, 1)
				ct := x.encryptLvl(v, L)
				out := x.newCtLvl(L)
				st := c11TryErr(func() error { return ev.Automorphism(ct, a.g, out) })
				var got []int64
				if st == "" {
					got = x.decrypt(out)
				}
				x.klProbe(c, "plain", cfg, L, a.what, st, got, ref(a, v))

				if cfg.pw2 != 0 {
					// the hoisted gadget products reject the base-2 decomposition: no silent garbage
					ct = x.encryptLvl(v, L)
					out = x.newCtLvl(L)
					st = c11TryErr(func() error {
						ev.DecomposeNTT(L, cfg.lp, cfg.lp+1, ct.Value[1], ct.IsNTT, ev.BuffDecompQP)
						return ev.AutomorphismHoisted(L, ct, ev.BuffDecompQP, a.g, out)
					})
					det := ""
					if st == "" && !c11Eq(x.decrypt(out), ref(a, v)) {
						det = "AutomorphismHoisted with a base-2 decomposed key returned nil and a wrong value"
					}
					c.Probe("keylevel_hoisted_pw2", fmt.Sprintf("%s/nP%d %v L%d %s", x.name, x.rp.PCount(), cfg, L, a.what), "C11-keylevel-hoisted-pw2", det)
					continue
				}

				// ---- hoisted at the key's own LevelP
				v = x.randVec(c, 1)
				ct = x.encryptLvl(v, L)
				out = x.newCtLvl(L)
				st = c11TryErr(func() error {
					ev.DecomposeNTT(L, cfg.lp, cfg.lp+1, ct.Value[1], ct.IsNTT, ev.BuffDecompQP)
					return ev.AutomorphismHoisted(L, ct, ev.BuffDecompQP, a.g, out)
				})
				got = nil
				if st == "" {
					got = x.decrypt(out)
				}
				x.klProbe(c, "hoisted", cfg, L, a.what, st, got, ref(a, v))
				outH, stH := out, st

				// ---- hoisted lazy + ModDown at the key's own LevelP, on the SAME ciphertext
				out = x.newCtLvl(L)
				st = c11TryErr(func() (err error) {
					ev.DecomposeNTT(L, cfg.lp, cfg.lp+1, ct.Value[1], ct.IsNTT, ev.BuffDecompQP)
					var ctQP *rlwe.Element[ringqp.Poly]
					if a.conj {
						ctQP = rlwe.NewElementExtended(x.rp, 1, L, x.rp.MaxLevelP())
						if err = ev.AutomorphismHoistedLazy(L, ct, ev.BuffDecompQP, a.g, ctQP); err != nil {
							return
						}
					} else {
						var m map[int]*rlwe.Element[ringqp.Poly]
						if x.name == "bgv" {
							m, err = x.bgvEv.WithKey(evk).RotateHoistedLazyNew(L, []int{a.k}, ct, ev.BuffDecompQP)
						} else {
							m, err = x.ckksEv.WithKey(evk).RotateHoistedLazyNew(L, []int{a.k}, ct, ev.BuffDecompQP)
						}
						if err != nil {
							return
						}
						ctQP = m[a.k]
					}
					ev.BasisExtender.ModDownQPtoQNTT(L, cfg.lp, ctQP.Value[0].Q, ctQP.Value[0].P, out.Value[0])
					ev.BasisExtender.ModDownQPtoQNTT(L, cfg.lp, ctQP.Value[1].Q, ctQP.Value[1].P, out.Value[1])
					*out.MetaData = *ct.MetaData
					return
				})
				got = nil
				if st == "" {
					got = x.decrypt(out)
				}
				x.klProbe(c, "lazy", cfg, L, a.what, st, got, ref(a, v))
				// Props/C11 `hoistedLazy_modDown`: ModDown(sigma(x + P_key*c0)) = sigma(ModDown(x) + c0), bit for bit
				det := ""
				if st == "" && stH == "" {
					if !(out.Value[0].Equal(&outH.Value[0]) && out.Value[1].Equal(&outH.Value[1])) {
						det = "AutomorphismHoistedLazy + ModDown differs from AutomorphismHoisted on the same ciphertext and key"
					}
				} else {
					det = fmt.Sprintf("status lazy=%q hoisted=%q", st, stH)
				}
				c.Probe("keylevel_lazy_eq_hoisted", fmt.Sprintf("%s/nP%d %v L%d %s", x.name, x.rp.PCount(), cfg, L, a.what), "C11-keylevel-lazy-eq-hoisted", det)
			}
		}
	}

	// ---- scheme-level operations (they decompose at MaxLevelP): keys at MaxLevelP, every LevelQ
	b, n := 2, 3
	if x.cols < 8 {
		b, n = 1, 3
	}
	tl := 1
	for lq := 0; lq <= maxQ; lq++ {
		cfg := c11KeyCfg{lq, maxP, 0}
		for L := 0; L <= lq; L++ {
			// InnerSum-like
			{
				v := x.randVec(c, 1)
				evk := x.keysAt(cache, cfg, rlwe.GaloisElementsForInnerSum(x.rp, b, n))
				ev, _ := x.rlweEval(evk)
				ct, out := x.encryptLvl(v, L), x.newCtLvl(L)
				st := c11TryErr(func() error { return ev.PartialTracesSum(ct, b, n, out) })
				var got []int64
				if st == "" {
					got = x.decrypt(out)
				}
				x.klProbe(c, "scheme", cfg, L, fmt.Sprintf("pts %d %d", b, n), st, got, x.refSum(v, b, n))
			}
			{
				v := x.randVec(c, 1)
				evk := x.keysAt(cache, cfg, rlwe.GaloisElementsForReplicate(x.rp, b, n))
				ev, _ := x.rlweEval(evk)
				ct, out := x.encryptLvl(v, L), x.newCtLvl(L)
				st := c11TryErr(func() error { return ev.Replicate(ct, b, n, out) })
				var got []int64
				if st == "" {
					got = x.decrypt(out)
				}
				x.klProbe(c, "scheme", cfg, L, fmt.Sprintf("replicate %d %d", b, n), st, got, x.refSum(v, -b, n))
			}
			{
				mult := int64(1)
				if x.t == 0 {
					mult = int64(1) << uint(x.logN)
				}
				v := x.randVec(c, mult)
				evk := x.keysAt(cache, cfg, rlwe.GaloisElementsForTrace(x.rp, tl))
				ev, _ := x.rlweEval(evk)
				ct, out := x.encryptLvl(v, L), x.newCtLvl(L)
				st := c11TryErr(func() error { return ev.Trace(ct, tl, out) })
				var got []int64
				if st == "" {
					got = x.decrypt(out)
				}
				x.klProbe(c, "scheme", cfg, L, fmt.Sprintf("trace %d", tl), st, got, x.refTrace(v, tl))
			}
			if x.name != "bgv" {
				rots := []int{1, -2, x.cols - 1}
				v := x.randVec(c, 1)
				evk := x.keysAt(cache, cfg, x.rp.GaloisElements(rots))
				e := x.ckksEv.WithKey(evk)
				ct := x.encryptLvl(v, L)
				var outs map[int]*rlwe.Ciphertext
				st := c11TryErr(func() (err error) { outs, err = e.RotateHoistedNew(ct, rots); return })
				for _, r := range rots {
					var got []int64
					if st == "" {
						got = x.decrypt(outs[r])
					}
					x.klProbe(c, "scheme", cfg, L, fmt.Sprintf("rothoisted %d", r), st, got, x.refRot(v, r))
				}
			}
		}
	}
	det := ""
	if x.t == 0 && !(x.maxRoundErr < 0.05) {
		det = fmt.Sprintf("max |x-round(x)| = %g (tolerance 0.05)", x.maxRoundErr)
	}
	c.Probe("ckks_round_margin", fmt.Sprintf("keylevels %s/nP%d", x.name, x.rp.PCount()), "C11-ckks-precision", det)
}
