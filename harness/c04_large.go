package main

// C04 — (1) large primes: Q primes of 58..61 bits (P of 61 bits), where the lazy uint64 accumulation of the
// gadget product can hold only 2^64/q ~ 8..16 terms: the overflow-margin schedule (QiOverflowMargin >> 1,
// reduce counter advanced per (i, j)) is what keeps the sums from wrapping. Enough digits that the margin is
// exceeded several times, base-2^w and RNS paths, single and multiple P, NTT and non-NTT.
// (2) hoisted automorphisms / gadget products with a Galois key at every LevelP in 0..max (#P up to 3) and a
// lazy receiver allocated at a LevelP >= the key's.

import (
	"fmt"

	"github.com/tuneinsight/lattigo/v6/core/rlwe"
)

type c04LargeSet struct {
	bq, bp []int
	w      int
}

func c04LargePrimes(c *Ctx) {
	sets := []c04LargeSet{
		{bq: []int{61, 61, 60, 58}, bp: []int{61}, w: 8},          // 8 digits x 4 primes, margin 8: single P, base 2^8
		{bq: []int{60, 60, 60, 60, 59, 59}, bp: nil, w: 16},       // the lead's example, no P, base 2^16
		{bq: []int{61, 60, 59}, bp: []int{61}, w: 0},              // RNS digits, single P
		{bq: c04Rep(61, 20), bp: []int{61, 61}, w: 0},             // multiple-P lazy path, 10 RNS digits, QiOverF = 4
		{bq: []int{60, 60, 60, 60, 59, 59}, bp: []int{61}, w: 16}, // lead's example with one P
	}
	if c.Thorough() {
		for k := 0; k < 16; k++ {
			nQ := 2 + c.rng.Intn(7)
			nP := c.rng.Intn(3)
			st := c04LargeSet{}
			for i := 0; i < nQ; i++ {
				st.bq = append(st.bq, 58+c.rng.Intn(4))
			}
			for i := 0; i < nP; i++ {
				st.bp = append(st.bp, 59+c.rng.Intn(3))
			}
			switch c.rng.Intn(4) {
			case 0:
				st.w = 0
			case 1:
				st.w = 8
			case 2:
				st.w = 16
			default:
				st.w = 4 + c.rng.Intn(27)
			}
			if nP == 2 && c.rng.Intn(3) == 0 {
				st.bq = c04Rep(61, 10+c.rng.Intn(8))
				st.w = 0
			}
			sets = append(sets, st)
		}
	}
	c04BothDomains = true
	defer func() { c04BothDomains = false }()
	for _, st := range sets {
		Q, P, ok := c04Primes(4, st.bq, st.bp)
		if !ok {
			c.Count("large:no-primes")
			continue
		}
		ps, err := c04NewPS(4, Q, P, true)
		if err != nil {
			c.Count("large:params-rejected")
			continue
		}
		cfg := c04KeyCfg{lq: len(Q) - 1, lp: len(P) - 1, w: st.w}
		c.Count(fmt.Sprintf("large:Q%d:P%d:w%d", len(Q), len(P), st.w))
		c04Scenario(c, ps, cfg, false)
	}
}

func c04Rep(b, n int) []int {
	v := make([]int, n)
	for i := range v {
		v[i] = b
	}
	return v
}

// c04HoistedLevels: every (key LevelP, receiver LevelP >= key LevelP) for #P = 2, 3 — BaseTwoDecomposition = 0.
func c04HoistedLevels(c *Ctx) {
	rounds := c.Scale(1, 6)
	for r := 0; r < rounds; r++ {
		for _, nP := range []int{3, 2} {
			nQ := 2 + c.rng.Intn(3)
			ps := c04RandomPS(c, 4, nQ, nP)
			for lp := 0; lp < nP; lp++ {
				for rp := lp; rp < nP; rp++ {
					cfg := c04KeyCfg{lq: nQ - 1, lp: lp}
					if c.rng.Intn(3) == 0 {
						cfg.lq = c.rng.Intn(nQ)
					}
					cfg.compressed = c.rng.Intn(4) == 0
					c.Count(fmt.Sprintf("hoistedlevels:P%d:keyLP%d:recvLP%d", nP, lp, rp))
					c04RecvLP = rp
					c04Scenario(c, ps, cfg, false)
					c04RecvLP = -1
				}
			}
		}
	}
}

var _ = rlwe.MaxModuliSize
