package main

// C09 — history of the log n + HW(n) trees on ONE evaluator: PartialTracesSum / InnerSum / Replicate / InnerFunction called
// with n1 and then with n2 (n ∈ {3, 5, 6, 7, 10, 12}: odd, even-not-a-power-of-two, both) through the same evaluator — the
// accumulators BuffQP[2:4] keep the partial sum of the first call — must give, bit for bit, what a fresh evaluator gives
// for n2.  Parameters with one and with two auxiliary primes.

import (
	"fmt"

	"github.com/tuneinsight/lattigo/v6/core/rlwe"
)

func c09TracePairs(c *Ctx) {
	ns := []int{3, 5, 6, 7, 10, 12}
	for _, scheme := range []string{"ckks", "bgv"} {
		for _, nP := range []int{1, 2} {
			if nP == 2 && !c.Thorough() && scheme == "bgv" {
				continue
			}
			e := newC09Env(c, scheme, 5, nP)
			var gals []uint64
			for k := 1; k < 16; k++ {
				gals = append(gals, e.rp.GaloisElement(k))
			}
			e.evk = rlwe.NewMemEvaluationKeySet(nil, e.kgen.GenGaloisKeysNew(gals, e.sk)...)
			A := e.encrypt(1, e.maxLevel(), 1)
			type tree struct {
				name string
				f    func(ev *c09Evals, n int, out *rlwe.Ciphertext) error
			}
			trees := []tree{
				{"rlwe.Evaluator.PartialTracesSum", func(ev *c09Evals, n int, o *rlwe.Ciphertext) error { return ev.rl.PartialTracesSum(A, 1, n, o) }},
				{"scheme.InnerSum", func(ev *c09Evals, n int, o *rlwe.Ciphertext) error {
					if ev.bgv != nil {
						return ev.bgv.InnerSum(A, 1, n, o)
					}
					return ev.ckks.InnerSum(A, 1, n, o)
				}},
				{"scheme.Replicate", func(ev *c09Evals, n int, o *rlwe.Ciphertext) error {
					if ev.bgv != nil {
						return ev.bgv.Replicate(A, 1, n, o)
					}
					return ev.ckks.Replicate(A, 1, n, o)
				}},
			}
			for _, t := range trees {
				ref := map[int]string{}
				for _, n := range ns {
					o := e.newCt(1, A.Level())
					if err := c09Err(func() error { return t.f(e.evals(), n, o) }); err == nil {
						ref[n] = deepHash(o)
					}
				}
				for _, n1 := range ns {
					for _, n2 := range ns {
						if ref[n1] == "" || ref[n2] == "" {
							c.Count("tracepair_rejected:" + t.name)
							continue
						}
						ev := e.evals()
						o1, o2 := e.newCt(1, A.Level()), e.newCt(1, A.Level())
						e1 := c09Err(func() error { return t.f(ev, n1, o1) })
						e2 := c09Err(func() error { return t.f(ev, n2, o2) })
						d := ""
						switch {
						case e1 != nil || e2 != nil:
							d = "error-on-the-used-evaluator"
						case deepHash(o2) != ref[n2]:
							d = "second-call-differs-from-the-fresh-evaluator"
						}
						c.Probe("history_free/"+t.name+"[n1-then-n2]", fmt.Sprintf("%s/P%d/n1=%d,n2=%d", scheme, nP, n1, n2), "C09-history-"+t.name+"-pairs", d)
					}
				}
			}
		}
	}
}
