package main

// C09 — "every other argument is bit-for-bit unchanged" for the operation families outside the evaluators:
// encryptor, decryptor, key generator and EVERY function of every multiparty protocol (secret keys, common
// reference polynomials, keys, shares, ciphertexts handed in are hashed before and after the call), plus the ties
// of the Store programs `encryptSk`, `decryptNTT`, `decryptCoeff`, `ckgGenShare`, `evkGenShareP:<d>`, `evkGenShareNoP:<d>`
// (`inputs <op> 4 4`, `hist <op> 4 4`).
//
//   inputs_unchanged/<Type.Func>[…]   all arguments other than the receiver unchanged (detail: which one changed)
//   history_free/<op>                 the call into a receiver that holds residue / through an object used before gives
//                                     the same result (deterministic calls: bit-identical; randomised protocol shares:
//                                     the postcondition of the share holds)

import (
	"fmt"
	"reflect"

	"github.com/tuneinsight/lattigo/v6/core/rlwe"
	"github.com/tuneinsight/lattigo/v6/multiparty"
	"github.com/tuneinsight/lattigo/v6/multiparty/mpbgv"
	"github.com/tuneinsight/lattigo/v6/multiparty/mpckks"
	"github.com/tuneinsight/lattigo/v6/ring"
	"github.com/tuneinsight/lattigo/v6/schemes/bgv"
	"github.com/tuneinsight/lattigo/v6/schemes/ckks"
	"github.com/tuneinsight/lattigo/v6/utils"
	"github.com/tuneinsight/lattigo/v6/utils/bignum"
	"github.com/tuneinsight/lattigo/v6/utils/sampling"
)

type c09Arg struct {
	name string
	v    interface{}
}

var c09LastHeld bool // did the last inputs_unchanged probe of c09CallArgs hold

// c09CallArgs runs `call` and probes that every argument hashes as before; returns false when the call failed.
func c09CallArgs(c *Ctx, fn, sc string, args []c09Arg, call func() error) bool {
	h := make([]string, len(args))
	for i, a := range args {
		h[i] = deepHash(a.v)
	}
	err := c09Err(call)
	c.Count("inputs:" + fn)
	if isPanic(err) {
		c.Probe("no_panic/"+fn, sc, "C09-panic-"+fn, err.Error())
		return false
	}
	d := ""
	for i, a := range args {
		if deepHash(a.v) != h[i] {
			d += a.name + "-changed "
		}
	}
	c.Probe("inputs_unchanged/"+fn, sc, "C09-inputs-"+fn, d)
	c09LastHeld = d == ""
	if err != nil {
		c.Count("inputs_call_error:" + fn)
		return false
	}
	return true
}

func c09Inputs(c *Ctx) {
	c09InputsRLWE(c)
	c09InputsKeygenProtocols(c)
	c09InputsSwitchProtocols(c)
	c09InputsCKKSProtocols(c)
}

// ---- encryptor / decryptor / key generator, and the ties of the Store programs ----

func c09InputsRLWE(c *Ctx) {
	for _, nttFlag := range []bool{true, false} {
		p, err := rlwe.NewParametersFromLiteral(rlwe.ParametersLiteral{LogN: 5, LogQ: []int{45, 40, 40}, LogP: []int{50}, NTTFlag: nttFlag})
		if err != nil {
			panic(err)
		}
		sc := fmt.Sprintf("rlwe/logN5/ntt%d", b2i(nttFlag))
		kgen := rlwe.NewKeyGenerator(p)
		sk, sk2 := kgen.GenSecretKeyNew(), kgen.GenSecretKeyNew()
		pk := kgen.GenPublicKeyNew(sk)
		L := p.MaxLevel()
		key := make([]byte, 64)
		for i := range key {
			key[i] = byte(i*3 + 5)
		}
		mkEnc := func(k rlwe.EncryptionKey) *rlwe.Encryptor {
			pr, _ := sampling.NewKeyedPRNG(key)
			return rlwe.NewTestEncryptorWithPRNG(p, k, pr)
		}
		pt := rlwe.NewPlaintext(p, L)
		c09FillPoly(c, pt.Value)
		garbage := func(deg, lvl int) *rlwe.Ciphertext {
			ct := rlwe.NewCiphertext(p, deg, lvl)
			for i := range ct.Value {
				c09FillPoly(c, ct.Value[i])
			}
			*ct.MetaData = *pt.MetaData
			return ct
		}
		// Encrypt: secret key and public key
		for _, kd := range []struct {
			name string
			k    rlwe.EncryptionKey
		}{{"sk", sk}, {"pk", pk}} {
			ct := rlwe.NewCiphertext(p, 1, L)
			ok := c09CallArgs(c, "rlwe.Encryptor.Encrypt["+kd.name+"]", sc, []c09Arg{{"pt", pt}, {"key", kd.k}}, func() error { return mkEnc(kd.k).Encrypt(pt, ct) })
			if kd.name == "sk" && nttFlag {
				c.Emit("inputs encryptSk 4 4", c09Class(c09LastHeld))
			}
			// history: receiver with residue, encryptor used before at another level
			if ok {
				e2 := mkEnc(kd.k)
				_ = e2.Encrypt(rlwe.NewPlaintext(p, 1), garbage(1, 1))
				e3 := mkEnc(kd.k) // same stream position as the reference: a fresh keyed encryptor …
				c09PoisonEncryptor(c, e3)
				g := garbage(1, L)
				err := e3.Encrypt(pt, g)
				d := ""
				if err != nil || deepHash(g) != deepHash(ct) {
					d = "result-differs"
				}
				c.Probe("history_free/rlwe.Encryptor.Encrypt["+kd.name+"][poisoned-buffers,used-receiver]", sc, "C09-history-rlwe.Encryptor.Encrypt", d)
				if kd.name == "sk" && nttFlag {
					c.Emit("hist encryptSk 4 4", c09Class(d == ""))
				}
			}
			// Decrypt
			if ok {
				dec := rlwe.NewDecryptor(p, sk)
				out := rlwe.NewPlaintext(p, L)
				okd := c09CallArgs(c, "rlwe.Decryptor.Decrypt", sc+"/"+kd.name, []c09Arg{{"ct", ct}, {"sk", sk}}, func() error { dec.Decrypt(ct, out); return nil })
				op := "decryptCoeff"
				if nttFlag {
					op = "decryptNTT"
				}
				if kd.name == "sk" {
					c.Emit("inputs "+op+" 4 4", c09Class(c09LastHeld))
				}
				if okd {
					dec2 := rlwe.NewDecryptor(p, sk)
					dec2.Decrypt(garbage(1, L), rlwe.NewPlaintext(p, L)) // the buffer of the decryptor now holds residue
					o2 := rlwe.NewPlaintext(p, L)
					c09FillPoly(c, o2.Value)
					dec2.Decrypt(ct, o2)
					d := ""
					if deepHash(&o2.Value) != deepHash(&out.Value) || deepHash(o2.MetaData) != deepHash(out.MetaData) {
						d = "result-differs"
					}
					c.Probe("history_free/rlwe.Decryptor.Decrypt[used-decryptor,used-receiver]", sc+"/"+kd.name, "C09-history-rlwe.Decryptor.Decrypt", d)
					if kd.name == "sk" {
						c.Emit("hist "+op+" 4 4", c09Class(d == ""))
					}
				}
			}
		}
		// key generator: every Gen… into a receiver; the secret keys are inputs
		g1 := p.GaloisElement(1)
		two, zero, minus := 2, 0, -1
		_ = zero
		evkVariants := []struct {
			name string
			ep   []rlwe.EvaluationKeyParameters
		}{{"default", nil},
			{"base2=12", []rlwe.EvaluationKeyParameters{{BaseTwoDecomposition: utils.Pointy(12)}}},
			{"noP", []rlwe.EvaluationKeyParameters{{LevelP: &minus}}},
			{"noP,base2=12", []rlwe.EvaluationKeyParameters{{LevelP: &minus, BaseTwoDecomposition: utils.Pointy(12)}}},
			{"levelQ1", []rlwe.EvaluationKeyParameters{{LevelQ: utils.Pointy(1)}}}}
		_ = two
		pkOut := rlwe.NewPublicKey(p)
		c09CallArgs(c, "rlwe.KeyGenerator.GenPublicKey", sc, []c09Arg{{"sk", sk}}, func() error { kgen.GenPublicKey(sk, pkOut); return nil })
		for _, v := range evkVariants {
			scv := sc + "/" + v.name
			rlk := rlwe.NewRelinearizationKey(p, v.ep...)
			c09CallArgs(c, "rlwe.KeyGenerator.GenRelinearizationKey", scv, []c09Arg{{"sk", sk}}, func() error { kgen.GenRelinearizationKey(sk, rlk); return nil })
			gk := rlwe.NewGaloisKey(p, v.ep...)
			c09CallArgs(c, "rlwe.KeyGenerator.GenGaloisKey", scv, []c09Arg{{"sk", sk}}, func() error { kgen.GenGaloisKey(g1, sk, gk); return nil })
			evk := rlwe.NewEvaluationKey(p, v.ep...)
			c09CallArgs(c, "rlwe.KeyGenerator.GenEvaluationKey", scv, []c09Arg{{"skIn", sk}, {"skOut", sk2}}, func() error { kgen.GenEvaluationKey(sk, sk2, evk); return nil })
		}
	}
}

// overwrite the scratch polynomials of an encryptor (not its samplers / PRNG)
func c09PoisonEncryptor(c *Ctx, e *rlwe.Encryptor) {
	if b := c09Field(e, "encryptorBuffers"); b != nil {
		c10ScribbleSmall(c, b)
	}
}

func c10ScribbleSmall(c *Ctx, x interface{}) { c09PoisonAny(c, x) }

// c09PoisonAny rewrites every []uint64 of length ≥ 16 reachable from x with small (valid) residues
func c09PoisonAny(c *Ctx, x interface{}) {
	seen := map[uintptr]bool{}
	var rec func(v reflect.Value, d int)
	rec = func(v reflect.Value, d int) {
		if !v.IsValid() || d > 60 {
			return
		}
		switch v.Kind() {
		case reflect.Ptr:
			if v.IsNil() || seen[v.Pointer()] {
				return
			}
			seen[v.Pointer()] = true
			rec(c09Readable(v.Elem()), d+1)
		case reflect.Interface:
			if !v.IsNil() {
				rec(c09Readable(v.Elem()), d+1)
			}
		case reflect.Struct:
			for i := 0; i < v.NumField(); i++ {
				rec(c09Readable(v.Field(i)), d+1)
			}
		case reflect.Array:
			for i := 0; i < v.Len(); i++ {
				rec(c09Readable(v.Index(i)), d+1)
			}
		case reflect.Slice:
			if v.Type().Elem().Kind() == reflect.Uint64 {
				if v.Len() >= 16 {
					for i := 0; i < v.Len(); i++ {
						v.Index(i).SetUint(c.rng.U64() & 0xFFFFF)
					}
				}
				return
			}
			for i := 0; i < v.Len(); i++ {
				rec(c09Readable(v.Index(i)), d+1)
			}
		}
	}
	rec(c09Readable(reflect.ValueOf(x)), 0)
}

// ---- key-generation protocols ----

func c09InputsKeygenProtocols(c *Ctx) {
	bp, err := bgv.NewParametersFromLiteral(bgv.ParametersLiteral{LogN: 5, LogQ: []int{45, 40, 40}, LogP: []int{50}, PlaintextModulus: 65537})
	if err != nil {
		panic(err)
	}
	sc := "bgv/logN5"
	kgen := rlwe.NewKeyGenerator(bp)
	sk, sk2 := kgen.GenSecretKeyNew(), kgen.GenSecretKeyNew()
	crs := c10Keyed(33)
	ecd := bgv.NewEncoder(bp)
	vals := make([]uint64, bp.MaxSlots())
	for i := range vals {
		vals[i] = uint64(i*5+1) % 251
	}
	ptv := bgv.NewPlaintext(bp, bp.MaxLevel())
	_ = ecd.Encode(vals, ptv)
	decodes := func(key *rlwe.SecretKey, ct *rlwe.Ciphertext) bool {
		return Try(func() string {
			v := make([]uint64, bp.MaxSlots())
			_ = ecd.Decode(rlwe.NewDecryptor(bp, key).DecryptNew(ct), v)
			return Vec(v)
		}) == Vec(vals)
	}
	// collective public key
	{
		ckg := multiparty.NewPublicKeyGenProtocol(bp)
		crp := ckg.SampleCRP(crs)
		sh, sh2, agg := ckg.AllocateShare(), ckg.AllocateShare(), ckg.AllocateShare()
		c09CallArgs(c, "multiparty.PublicKeyGenProtocol.GenShare", sc, []c09Arg{{"sk", sk}, {"crp", &crp}}, func() error { ckg.GenShare(sk, crp, &sh); return nil })
		c.Emit("inputs ckgGenShare 4 4", c09Class(c09LastHeld))
		ckg.GenShare(sk2, crp, &sh2)
		c09CallArgs(c, "multiparty.PublicKeyGenProtocol.AggregateShares", sc, []c09Arg{{"share1", &sh}, {"share2", &sh2}}, func() error { ckg.AggregateShares(sh, sh2, &agg); return nil })
		pk := rlwe.NewPublicKey(bp)
		c09CallArgs(c, "multiparty.PublicKeyGenProtocol.GenPublicKey", sc, []c09Arg{{"share", &agg}, {"crp", &crp}}, func() error { ckg.GenPublicKey(agg, crp, pk); return nil })
		// history: a share generated into a receiver with residue, by a protocol object used before
		g := ckg.AllocateShare()
		c09FillPoly(c, g.Value.Q)
		c09FillPoly(c, g.Value.P)
		ckg.GenShare(sk, crp, &g)
		ckg.AggregateShares(g, sh2, &agg)
		ckg.GenPublicKey(agg, crp, pk)
		skSum := sk.CopyNew()
		bp.RingQP().Add(skSum.Value, sk2.Value, skSum.Value)
		ct, _ := rlwe.NewEncryptor(bp, pk).EncryptNew(ptv)
		d := ""
		if !decodes(skSum, ct) {
			d = "collective-public-key-wrong"
		}
		c.Probe("history_free/multiparty.PublicKeyGenProtocol.GenShare[used-receiver]", sc, "C09-history-PublicKeyGenProtocol.GenShare", d)
		c.Emit("hist ckgGenShare 4 4", c09Class(d == ""))
	}
	// evaluation keys: every combination of LevelP / BaseTwoDecomposition
	minus := -1
	variants := []struct {
		name, model string
		ep          []rlwe.EvaluationKeyParameters
	}{{"default", "evkGenShareP:1", nil},
		{"base2=15", "evkGenShareP:2", []rlwe.EvaluationKeyParameters{{BaseTwoDecomposition: utils.Pointy(15)}}},
		{"noP", "evkGenShareNoP:1", []rlwe.EvaluationKeyParameters{{LevelP: &minus}}},
		{"noP,base2=23", "evkGenShareNoP:2", []rlwe.EvaluationKeyParameters{{LevelP: &minus, BaseTwoDecomposition: utils.Pointy(23)}}},
		{"noP,base2=15", "evkGenShareNoP:3", []rlwe.EvaluationKeyParameters{{LevelP: &minus, BaseTwoDecomposition: utils.Pointy(15)}}},
		{"levelQ1,noP,base2=15", "", []rlwe.EvaluationKeyParameters{{LevelQ: utils.Pointy(1), LevelP: &minus, BaseTwoDecomposition: utils.Pointy(15)}}}}
	for _, v := range variants {
		scv := sc + "/" + v.name
		evkg := multiparty.NewEvaluationKeyGenProtocol(bp)
		crp := evkg.SampleCRP(crs, v.ep...)
		sh, agg := evkg.AllocateShare(v.ep...), evkg.AllocateShare(v.ep...)
		ok := c09CallArgs(c, "multiparty.EvaluationKeyGenProtocol.GenShare", scv, []c09Arg{{"skIn", sk}, {"skOut", sk2}, {"crp", &crp}}, func() error { return evkg.GenShare(sk, sk2, crp, &sh) })
		if v.model != "" {
			c.Emit("inputs "+v.model+" 4 4", c09Class(c09LastHeld))
		}
		if !ok {
			continue
		}
		zero := evkg.AllocateShare(v.ep...)
		c09CallArgs(c, "multiparty.EvaluationKeyGenProtocol.AggregateShares", scv, []c09Arg{{"share1", &sh}, {"share2", &zero}}, func() error { return evkg.AggregateShares(sh, zero, &agg) })
		evk := rlwe.NewEvaluationKey(bp, v.ep...)
		c09CallArgs(c, "multiparty.EvaluationKeyGenProtocol.GenEvaluationKey", scv, []c09Arg{{"share", &agg}, {"crp", &crp}}, func() error { return evkg.GenEvaluationKey(agg, crp, evk) })
		// history: same protocol object, receiver with residue; postcondition: the key switches sk -> sk2
		g := evkg.AllocateShare(v.ep...)
		c09PoisonAny(c, &g)
		d := ""
		if err := evkg.GenShare(sk, sk2, crp, &g); err != nil {
			d = "GenShare-error"
		} else if err := evkg.GenEvaluationKey(g, crp, evk); err != nil {
			d = "GenEvaluationKey-error"
		} else {
			ct, _ := rlwe.NewEncryptor(bp, sk).EncryptNew(ptv)
			ct.Resize(1, evk.LevelQ())
			out := bgv.NewCiphertext(bp, 1, ct.Level())
			if err := c09Err(func() error { return rlwe.NewEvaluator(bp, nil).ApplyEvaluationKey(ct, evk, out) }); err != nil || !decodes(sk2, out) {
				d = "evaluation-key-from-the-share-does-not-switch"
			}
		}
		c.Probe("history_free/multiparty.EvaluationKeyGenProtocol.GenShare[used-object,used-receiver]", scv, "C09-history-EvaluationKeyGenProtocol.GenShare", d)
		if v.model != "" {
			c.Emit("hist "+v.model+" 4 4", c09Class(d == ""))
		}
		// Galois keys
		gkg := multiparty.NewGaloisKeyGenProtocol(bp)
		gcrp := gkg.SampleCRP(crs, v.ep...)
		gsh, gagg := gkg.AllocateShare(v.ep...), gkg.AllocateShare(v.ep...)
		galEl := bp.GaloisElement(1)
		if c09CallArgs(c, "multiparty.GaloisKeyGenProtocol.GenShare", scv, []c09Arg{{"sk", sk}, {"crp", &gcrp}}, func() error { return gkg.GenShare(sk, galEl, gcrp, &gsh) }) {
			gz := gkg.AllocateShare(v.ep...)
			gz.GaloisElement = galEl
			c09CallArgs(c, "multiparty.GaloisKeyGenProtocol.AggregateShares", scv, []c09Arg{{"share1", &gsh}, {"share2", &gz}}, func() error { return gkg.AggregateShares(gsh, gz, &gagg) })
			gk := rlwe.NewGaloisKey(bp, v.ep...)
			c09CallArgs(c, "multiparty.GaloisKeyGenProtocol.GenGaloisKey", scv, []c09Arg{{"share", &gagg}, {"crp", &gcrp}}, func() error { return gkg.GenGaloisKey(gagg, gcrp, gk) })
		}
		// relinearisation keys (two rounds)
		rkg := multiparty.NewRelinearizationKeyGenProtocol(bp)
		rcrp := rkg.SampleCRP(crs, v.ep...)
		eph, r1, r2 := rkg.AllocateShare(v.ep...)
		if c09CallArgs(c, "multiparty.RelinearizationKeyGenProtocol.GenShareRoundOne", scv, []c09Arg{{"sk", sk}, {"crp", &rcrp}}, func() error { rkg.GenShareRoundOne(sk, rcrp, eph, &r1); return nil }) {
			_, z1, _ := rkg.AllocateShare(v.ep...)
			_, a1, a2 := rkg.AllocateShare(v.ep...)
			c09CallArgs(c, "multiparty.RelinearizationKeyGenProtocol.AggregateShares", scv, []c09Arg{{"share1", &r1}, {"share2", &z1}}, func() error { rkg.AggregateShares(r1, z1, &a1); return nil })
			if c09CallArgs(c, "multiparty.RelinearizationKeyGenProtocol.GenShareRoundTwo", scv, []c09Arg{{"ephSk", eph}, {"sk", sk}, {"round1", &a1}}, func() error { rkg.GenShareRoundTwo(eph, sk, a1, &r2); return nil }) {
				rkg.AggregateShares(r2, z1, &a2)
				rlk := rlwe.NewRelinearizationKey(bp, v.ep...)
				c09CallArgs(c, "multiparty.RelinearizationKeyGenProtocol.GenRelinearizationKey", scv, []c09Arg{{"round1", &a1}, {"round2", &a2}}, func() error { rkg.GenRelinearizationKey(a1, a2, rlk); return nil })
			}
		}
	}
	// threshold
	{
		thr := multiparty.NewThresholdizer(bp)
		var poly multiparty.ShamirPolynomial
		if c09CallArgs(c, "multiparty.Thresholdizer.GenShamirPolynomial", sc, []c09Arg{{"secret", sk}}, func() (err error) { poly, err = thr.GenShamirPolynomial(3, sk); return }) {
			s1, s2, s3 := thr.AllocateThresholdSecretShare(), thr.AllocateThresholdSecretShare(), thr.AllocateThresholdSecretShare()
			c09CallArgs(c, "multiparty.Thresholdizer.GenShamirSecretShare", sc, []c09Arg{{"polynomial", &poly}}, func() error { thr.GenShamirSecretShare(2, poly, &s1); return nil })
			thr.GenShamirSecretShare(3, poly, &s2)
			c09CallArgs(c, "multiparty.Thresholdizer.AggregateShares", sc, []c09Arg{{"share1", &s1}, {"share2", &s2}}, func() error { return thr.AggregateShares(s1, s2, &s3) })
			pts := []multiparty.ShamirPublicPoint{1, 2, 3, 4}
			cmb := multiparty.NewCombiner(*bp.GetRLWEParameters(), 2, []multiparty.ShamirPublicPoint{1, 3, 4}, 3)
			act := pts[:3]
			skOut := rlwe.NewSecretKey(bp)
			c09CallArgs(c, "multiparty.Combiner.GenAdditiveShare", sc, []c09Arg{{"actives", &act}, {"ownShare", &s1}}, func() error { return cmb.GenAdditiveShare(act, 2, s1, skOut) })
		}
	}
}

// ---- key-switching, sharing, refresh, masked transforms (bgv) ----

func c09InputsSwitchProtocols(c *Ctx) {
	bp, err := bgv.NewParametersFromLiteral(bgv.ParametersLiteral{LogN: 5, LogQ: []int{45, 40, 40}, LogP: []int{50}, PlaintextModulus: 65537})
	if err != nil {
		panic(err)
	}
	sc := "bgv/logN5"
	kgen := rlwe.NewKeyGenerator(bp)
	sk, sk2 := kgen.GenSecretKeyNew(), kgen.GenSecretKeyNew()
	pk2 := kgen.GenPublicKeyNew(sk2)
	crs := c10Keyed(35)
	nf := ring.DiscreteGaussian{Sigma: 8, Bound: 48}
	ecd := bgv.NewEncoder(bp)
	vals := make([]uint64, bp.MaxSlots())
	for i := range vals {
		vals[i] = uint64(i*3+2) % 251
	}
	pt := bgv.NewPlaintext(bp, bp.MaxLevel())
	_ = ecd.Encode(vals, pt)
	L := bp.MaxLevel()
	for _, lvl := range []int{L, 1} {
		scl := fmt.Sprintf("%s/level%d", sc, lvl)
		ct, _ := rlwe.NewEncryptor(bp, sk).EncryptNew(pt)
		ct.Resize(1, lvl)
		if cks, err := multiparty.NewKeySwitchProtocol(bp, nf); err == nil {
			sh, z, agg := cks.AllocateShare(lvl), cks.AllocateShare(lvl), cks.AllocateShare(lvl)
			c09CallArgs(c, "multiparty.KeySwitchProtocol.GenShare", scl, []c09Arg{{"skIn", sk}, {"skOut", sk2}, {"ct", ct}}, func() error { cks.GenShare(sk, sk2, ct, &sh); return nil })
			c09CallArgs(c, "multiparty.KeySwitchProtocol.AggregateShares", scl, []c09Arg{{"share1", &sh}, {"share2", &z}}, func() error { return cks.AggregateShares(sh, z, &agg) })
			out := bgv.NewCiphertext(bp, 1, lvl)
			c09CallArgs(c, "multiparty.KeySwitchProtocol.KeySwitch", scl, []c09Arg{{"ct", ct}, {"share", &agg}}, func() error { cks.KeySwitch(ct, agg, out); return nil })
		}
		if pcks, err := multiparty.NewPublicKeySwitchProtocol(bp, nf); err == nil {
			sh, z, agg := pcks.AllocateShare(lvl), pcks.AllocateShare(lvl), pcks.AllocateShare(lvl)
			c09CallArgs(c, "multiparty.PublicKeySwitchProtocol.GenShare", scl, []c09Arg{{"sk", sk}, {"pk", pk2}, {"ct", ct}}, func() error { pcks.GenShare(sk, pk2, ct, &sh); return nil })
			c09CallArgs(c, "multiparty.PublicKeySwitchProtocol.AggregateShares", scl, []c09Arg{{"share1", &sh}, {"share2", &z}}, func() error { return pcks.AggregateShares(sh, z, &agg) })
			out := bgv.NewCiphertext(bp, 1, lvl)
			c09CallArgs(c, "multiparty.PublicKeySwitchProtocol.KeySwitch", scl, []c09Arg{{"ct", ct}, {"share", &agg}}, func() error { pcks.KeySwitch(ct, agg, out); return nil })
		}
		if e2s, err := mpbgv.NewEncToShareProtocol(bp, nf); err == nil {
			sec, sec2 := mpbgv.NewAdditiveShare(bp), mpbgv.NewAdditiveShare(bp)
			pub := e2s.AllocateShare(lvl)
			c09CallArgs(c, "mpbgv.EncToShareProtocol.GenShare", scl, []c09Arg{{"sk", sk}, {"ct", ct}}, func() error { e2s.GenShare(sk, ct, &sec, &pub); return nil })
			c09CallArgs(c, "mpbgv.EncToShareProtocol.GetShare", scl, []c09Arg{{"secretShare", &sec}, {"publicShare", &pub}, {"ct", ct}}, func() error { e2s.GetShare(&sec, pub, ct, &sec2); return nil })
			if s2e, err := mpbgv.NewShareToEncProtocol(bp, nf); err == nil {
				crp := s2e.SampleCRP(L, crs)
				c0 := s2e.AllocateShare(L)
				c09CallArgs(c, "mpbgv.ShareToEncProtocol.GenShare", scl, []c09Arg{{"sk", sk}, {"crp", &crp}, {"secretShare", &sec2}}, func() error { return s2e.GenShare(sk, crp, sec2, &c0) })
				out := bgv.NewCiphertext(bp, 1, L)
				c09CallArgs(c, "mpbgv.ShareToEncProtocol.GetEncryption", scl, []c09Arg{{"share", &c0}, {"crp", &crp}}, func() error { return s2e.GetEncryption(c0, crp, out) })
			}
		}
		if rfp, err := mpbgv.NewRefreshProtocol(bp, nf); err == nil {
			crp := rfp.SampleCRP(L, crs)
			sh, z, agg := rfp.AllocateShare(lvl, L), rfp.AllocateShare(lvl, L), rfp.AllocateShare(lvl, L)
			if c09CallArgs(c, "mpbgv.RefreshProtocol.GenShare", scl, []c09Arg{{"sk", sk}, {"ct", ct}, {"crp", &crp}}, func() error { return rfp.GenShare(sk, ct, crp, &sh) }) {
				c09CallArgs(c, "mpbgv.RefreshProtocol.AggregateShares", scl, []c09Arg{{"share1", &sh}, {"share2", &z}}, func() error { return rfp.AggregateShares(sh, z, &agg) })
				out := bgv.NewCiphertext(bp, 1, L)
				c09CallArgs(c, "mpbgv.RefreshProtocol.Finalize", scl, []c09Arg{{"ct", ct}, {"crp", &crp}, {"share", &agg}}, func() error { return rfp.Finalize(ct, crp, agg, out) })
			}
		}
		if mtp, err := mpbgv.NewMaskedTransformProtocol(bp, bp, nf); err == nil {
			crp := mtp.SampleCRP(L, crs)
			tf := &mpbgv.MaskedTransformFunc{Decode: true, Encode: true, Func: func(v []uint64) {
				for i := range v {
					v[i] = (v[i] * 3) % 65537
				}
			}}
			sh, z, agg := mtp.AllocateShare(lvl, L), mtp.AllocateShare(lvl, L), mtp.AllocateShare(lvl, L)
			if c09CallArgs(c, "mpbgv.MaskedTransformProtocol.GenShare", scl, []c09Arg{{"skIn", sk}, {"skOut", sk2}, {"ct", ct}, {"crp", &crp}}, func() error { return mtp.GenShare(sk, sk2, ct, crp, tf, &sh) }) {
				c09CallArgs(c, "mpbgv.MaskedTransformProtocol.AggregateShares", scl, []c09Arg{{"share1", &sh}, {"share2", &z}}, func() error { return mtp.AggregateShares(sh, z, &agg) })
				out := bgv.NewCiphertext(bp, 1, L)
				c09CallArgs(c, "mpbgv.MaskedTransformProtocol.Transform", scl, []c09Arg{{"ct", ct}, {"crp", &crp}, {"share", &agg}}, func() error { return mtp.Transform(ct, tf, crp, agg, out) })
			}
		}
	}
}

// ---- ckks protocols ----

func c09InputsCKKSProtocols(c *Ctx) {
	cp, err := ckks.NewParametersFromLiteral(ckks.ParametersLiteral{LogN: 5, LogQ: []int{55, 45, 45}, LogP: []int{55}, LogDefaultScale: 30})
	if err != nil {
		panic(err)
	}
	sc := "ckks/logN5"
	kgen := rlwe.NewKeyGenerator(cp)
	sk, sk2 := kgen.GenSecretKeyNew(), kgen.GenSecretKeyNew()
	crs := c10Keyed(37)
	nf := ring.DiscreteGaussian{Sigma: 8, Bound: 48}
	ecd := ckks.NewEncoder(cp)
	v := make([]float64, cp.MaxSlots())
	for i := range v {
		v[i] = float64(i%7) / 8
	}
	L := cp.MaxLevel()
	pt := ckks.NewPlaintext(cp, L)
	_ = ecd.Encode(v, pt)
	logBound := uint(40)
	for _, lvl := range []int{1, 0} {
		scl := fmt.Sprintf("%s/level%d", sc, lvl)
		ct, _ := rlwe.NewEncryptor(cp, sk).EncryptNew(pt)
		ct.Resize(1, lvl)
		if e2s, err := mpckks.NewEncToShareProtocol(cp, nf); err == nil {
			sec, sec2 := mpckks.NewAdditiveShare(cp, ct.LogSlots()), mpckks.NewAdditiveShare(cp, ct.LogSlots())
			pub := e2s.AllocateShare(lvl)
			if c09CallArgs(c, "mpckks.EncToShareProtocol.GenShare", scl, []c09Arg{{"sk", sk}, {"ct", ct}}, func() error { return e2s.GenShare(sk, logBound, ct, &sec, &pub) }) {
				c09CallArgs(c, "mpckks.EncToShareProtocol.GetShare", scl, []c09Arg{{"secretShare", &sec}, {"publicShare", &pub}, {"ct", ct}}, func() error { e2s.GetShare(&sec, pub, ct, &sec2); return nil })
				if s2e, err := mpckks.NewShareToEncProtocol(cp, nf); err == nil {
					crp := s2e.SampleCRP(L, crs)
					c0 := s2e.AllocateShare(L)
					md := ct.MetaData.CopyNew()
					c09CallArgs(c, "mpckks.ShareToEncProtocol.GenShare", scl, []c09Arg{{"sk", sk}, {"crp", &crp}, {"metadata", md}, {"secretShare", &sec2}}, func() error { return s2e.GenShare(sk, crp, md, sec2, &c0) })
					out := ckks.NewCiphertext(cp, 1, L)
					c09CallArgs(c, "mpckks.ShareToEncProtocol.GetEncryption", scl, []c09Arg{{"share", &c0}, {"crp", &crp}}, func() error { return s2e.GetEncryption(c0, crp, out) })
				}
			}
		}
		if rfp, err := mpckks.NewRefreshProtocol(cp, 128, nf); err == nil {
			crp := rfp.SampleCRP(L, crs)
			sh, z, agg := rfp.AllocateShare(lvl, L), rfp.AllocateShare(lvl, L), rfp.AllocateShare(lvl, L)
			if c09CallArgs(c, "mpckks.RefreshProtocol.GenShare", scl, []c09Arg{{"sk", sk}, {"ct", ct}, {"crp", &crp}}, func() error { return rfp.GenShare(sk, logBound, ct, crp, &sh) }) {
				c09CallArgs(c, "mpckks.RefreshProtocol.AggregateShares", scl, []c09Arg{{"share1", &sh}, {"share2", &z}}, func() error { return rfp.AggregateShares(&sh, &z, &agg) })
				out := ckks.NewCiphertext(cp, 1, L)
				c09CallArgs(c, "mpckks.RefreshProtocol.Finalize", scl, []c09Arg{{"ct", ct}, {"crp", &crp}, {"share", &agg}}, func() error { return rfp.Finalize(ct, crp, agg, out) })
			}
		}
		if mtp, err := mpckks.NewMaskedLinearTransformationProtocol(cp, cp, 128, nf); err == nil {
			crp := mtp.SampleCRP(L, crs)
			tf := &mpckks.MaskedLinearTransformationFunc{Decode: true, Encode: true, Func: func(x []*bignum.Complex) {
				for i := range x {
					x[i][0].Add(x[i][0], x[i][0])
				}
			}}
			sh, z, agg := mtp.AllocateShare(lvl, L), mtp.AllocateShare(lvl, L), mtp.AllocateShare(lvl, L)
			if c09CallArgs(c, "mpckks.MaskedLinearTransformationProtocol.GenShare", scl, []c09Arg{{"skIn", sk}, {"skOut", sk2}, {"ct", ct}, {"crp", &crp}}, func() error { return mtp.GenShare(sk, sk2, logBound, ct, crp, tf, &sh) }) {
				c09CallArgs(c, "mpckks.MaskedLinearTransformationProtocol.AggregateShares", scl, []c09Arg{{"share1", &sh}, {"share2", &z}}, func() error { return mtp.AggregateShares(&sh, &z, &agg) })
				out := ckks.NewCiphertext(cp, 1, L)
				c09CallArgs(c, "mpckks.MaskedLinearTransformationProtocol.Transform", scl, []c09Arg{{"ct", ct}, {"crp", &crp}, {"share", &agg}}, func() error { return mtp.Transform(ct, tf, crp, agg, out) })
			}
		}
	}
}
