package main

// C04 — GenEvaluationKey with secret keys generated under ANOTHER parameter set (same N and Q, a different P:
// other primes, fewer, more, none): the generator must rebuild the P part of the output key from its Q part
// (ExtendBasisSmallNormAndCenterNTTMontgomery) and never trust the P part the key carries. Tie (`evk gen`: the
// whole generated key, Q and P rows, against the model fed with the secret's integer coefficients) and
// decrypt-and-compare probes, for the foreign key as OUTPUT and as INPUT key.

import (
	"fmt"

	"github.com/tuneinsight/lattigo/v6/core/rlwe"
)

func c04ForeignKeys(c *Ctx) {
	// deterministic part (every run, every tier): all relations between the generator's P and the foreign P
	// (other primes of the same count, fewer, more, none) x a ternary and a Gaussian secret; both directions
	// (foreign output key, foreign input key) are run for each. Key at the generator's full LevelP.
	type fcase struct{ nPA, nPB, xs int }
	fixed := []fcase{
		{1, 1, 0}, {1, 1, 3}, // same count, other primes
		{2, 2, 0}, {2, 2, 3},
		{2, 1, 0}, {2, 1, 3}, // fewer
		{1, 2, 0}, {1, 2, 3}, // more
		{1, 0, 0}, {2, 0, 3}, // none
	}
	rounds := len(fixed) + c.Scale(2, 16)
	for r := 0; r < rounds; r++ {
		logN := 4 + c.rng.Intn(2)
		nQ := 1 + c.rng.Intn(3)
		var nPA, nPB, xs int
		isFixed := r < len(fixed)
		if isFixed {
			nPA, nPB, xs = fixed[r].nPA, fixed[r].nPB, fixed[r].xs
		} else {
			nPA = 1 + c.rng.Intn(2)
			if c.rng.Intn(6) == 0 {
				nPA = 0
			}
			switch r % 4 {
			case 0:
				nPB = nPA
			case 1:
				nPB = nPA - 1
			case 2:
				nPB = nPA + 1
			default:
				nPB = 0
			}
			if nPB < 0 {
				nPB = 2
			}
			xs = c.rng.Intn(5)
		}
		bq := make([]int, nQ)
		for i := range bq {
			bq[i] = 30 + c.rng.Intn(26)
		}
		bp := make([]int, nPA+nPB)
		for i := range bp {
			bp[i] = 30 + c.rng.Intn(26)
		}
		Q, Pall, ok := c04Primes(logN, bq, bp)
		if !ok {
			continue
		}
		c04XsChoice = xs
		psA, errA := c04NewPS(logN, Q, Pall[:nPA], true)
		psB, errB := c04NewPS(logN, Q, Pall[nPA:], true)
		c04XsChoice = 0
		if errA != nil || errB != nil {
			c.Count("foreign:params-rejected")
			continue
		}
		cfg := c04KeyCfg{lq: nQ - 1, lp: nPA - 1}
		if !isFixed {
			if nPA <= 1 && c.rng.Intn(2) == 0 {
				cfg.w = 5 + c.rng.Intn(22)
			}
			if nPA > 0 && c.rng.Intn(4) == 0 {
				cfg.lp = c.rng.Intn(nPA+1) - 1
			}
			cfg.compressed = c.rng.Intn(4) == 0
		}
		c.Count(fmt.Sprintf("foreign:Q%d:PA%d:PB%d:lp%d:w%d:xs%d", nQ, nPA, nPB, cfg.lp, cfg.w, xs))
		skA := rlwe.NewKeyGenerator(psA.params).GenSecretKeyNew()
		skB := rlwe.NewKeyGenerator(psB.params).GenSecretKeyNew() // generated under the OTHER parameters
		sA := psA.secretInts(skA)
		sB := psB.secretInts(skB)
		kgen, tw := c04NewKgenWithTwin(psA)
		eval := rlwe.NewEvaluator(psA.params, nil)
		args := fmt.Sprintf("%s PB=%s %d %d %d", psA.hdr(), Vec(psB.P), cfg.lq, cfg.lp, cfg.w)
		for dir := 0; dir < 2; dir++ {
			skIn, skOut, sIn, sOut, form := skA, skB, sA, sB, "foreign-output-key"
			if dir == 1 {
				skIn, skOut, sIn, sOut, form = skB, skA, sB, sA, "foreign-input-key"
			}
			var evk *rlwe.EvaluationKey
			if r := Try(func() string { evk = kgen.GenEvaluationKeyNew(skIn, skOut, cfg.evkParams()); return "ok" }); r != "ok" {
				c.Probe("foreign_key_decrypts", form+" "+args, "C04-genevk-"+form, "GenEvaluationKeyNew panicked")
				// the twin of this generator is out of step now: stop this round
				break
			}
			c04EmitEvk(c, psA, tw, "gen", cfg, 0, sIn, sOut, evk)
			lvl := cfg.lq
			if c.rng.Intn(3) == 0 {
				lvl = c.rng.Intn(cfg.lq + 1)
			}
			for _, isNTT := range []bool{true, false} {
				m := c04Msg(c, psA, lvl)
				ct := psA.mkCt(skIn, m, c04SmallVec(c, psA.N(), 3), [][][]uint64{psA.randRows(c, lvl)}, isNTT)
				in := psA.ctPolys(ct)
				out := rlwe.NewCiphertext(psA.params, 1, lvl)
				res := Try(func() string {
					if err := eval.ApplyEvaluationKey(ct, evk, out); err != nil {
						return "err"
					}
					return c04Polys(psA.ctPolys(out))
				})
				if res == "err" || res == "panic" {
					c.Probe("foreign_key_decrypts", form+" "+args, "C04-genevk-"+form, "ApplyEvaluationKey "+res)
					continue
				}
				c.Emit(psA.ksLine("apply", cfg, isNTT, 0, 0, evk, in), res)
				c.Count("foreign:apply")
				c04ProbeNoise(c, psA, "foreign_key_decrypts", fmt.Sprintf("%s %s lvl=%d ntt=%s", form, args, lvl, c04B2s(isNTT)), out, skOut, m,
					psA.ksNoiseBound(lvl, cfg.lp, cfg.w, c04EvkShape(evk)), "C04-genevk-"+form)
			}
		}
	}
}
