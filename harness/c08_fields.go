package main

// C08: reflection tie for the completeness of the codec list. For every serialisable type
// the flattened list of the fields Go reflection finds (exported or not) must be exactly the
// list the Lean model declares for its format (`fieldsOf`, plus the declared non-serialised
// derived fields): a field added to a struct without being serialised breaks the tie.
//
// Path notation: `.` field, `?` pointer that may be nil, `[]` slice, `{key}` / `{}` map key and
// value; an embedded struct is named by its type. math/big values, byte arrays and basic kinds
// are leaves.

import (
	"reflect"
	"sort"
	"strings"

	"github.com/tuneinsight/lattigo/v6/core/rlwe"
)

func c08FieldPaths(t reflect.Type, prefix string, out *[]string) {
	switch t.Kind() {
	case reflect.Ptr:
		e := t.Elem()
		if e.Kind() == reflect.Struct && e.PkgPath() != "math/big" {
			c08FieldPaths(e, prefix+"?", out)
			return
		}
		*out = append(*out, prefix+"?")
	case reflect.Struct:
		if t.PkgPath() == "math/big" {
			*out = append(*out, prefix)
			return
		}
		if t == reflect.TypeOf(rlwe.Parameters{}) {
			*out = append(*out, prefix+"<json>") // serialised through its literal (JSON): see json_fields
			return
		}
		for i := 0; i < t.NumField(); i++ {
			f := t.Field(i)
			name := f.Name
			if i := strings.IndexByte(name, '['); i >= 0 {
				name = name[:i]
			}
			p := name
			if prefix != "" {
				p = prefix + "." + name
			}
			c08FieldPaths(f.Type, p, out)
		}
	case reflect.Slice:
		c08FieldPaths(t.Elem(), prefix+"[]", out)
	case reflect.Array:
		if t.Elem().Kind() == reflect.Uint8 {
			*out = append(*out, prefix)
			return
		}
		for i := 0; i < t.Len(); i++ {
			c08FieldPaths(t.Elem(), prefix+"["+I(i)+"]", out)
		}
	case reflect.Map:
		*out = append(*out, prefix+"{key}")
		e := t.Elem()
		if e.Kind() == reflect.Ptr {
			e = e.Elem()
		}
		c08FieldPaths(e, prefix+"{}", out)
	default:
		*out = append(*out, prefix)
	}
}

func c08FieldsOf(o interface{}) string {
	var out []string
	c08FieldPaths(reflect.TypeOf(o).Elem(), "", &out)
	sort.Strings(out)
	return strings.Join(out, ",")
}

func (g *c08Gen) tieFields() {
	seen := map[string]bool{}
	for _, s := range g.specs() {
		if seen[s.goType] {
			continue
		}
		seen[s.goType] = true
		g.c.Emit("fields "+s.ty+" "+strings.ReplaceAll(s.goType, " ", ""), c08FieldsOf(c08Fresh[s.goType]()))
	}
}
