package main

// C17 — sampling.KeyedPRNG / NewPRNG: the generator's state is (key, position).
// Ties: scripts of Read / Reset / Key / "continue with NewKeyedPRNG(p.Key())" against the Lean state
// machine (the BLAKE2b XOF output for the key is put on the line as the oracle, computed here
// with golang.org/x/crypto/blake2b directly).  Probes: the API contract on the real generator.

import (
	"bytes"
	"fmt"
	"strings"

	"github.com/tuneinsight/lattigo/v6/utils/sampling"
	"golang.org/x/crypto/blake2b"
)

// reference stream: the BLAKE2b XOF itself
func c17XOF(key []byte, n int) []byte {
	x, err := blake2b.NewXOF(blake2b.OutputLengthUnknown, key)
	if err != nil {
		panic(err)
	}
	out := make([]byte, n)
	if _, err := x.Read(out); err != nil {
		panic(err)
	}
	return out
}

func c17ReadAll(p *sampling.KeyedPRNG, n int) []byte {
	b := make([]byte, n)
	k, err := p.Read(b)
	if err != nil || k != n {
		panic(fmt.Sprintf("Read(%d) = %d, %v", n, k, err))
	}
	return b
}

// does NewKeyedPRNG(k) remember k?  (decides whether the keyed tie scripts may use Key();
// the probe prng-keyed-key reports it either way)
func c17KeyedKeyStored() bool {
	p, _ := sampling.NewKeyedPRNG([]byte{1, 2, 3})
	return bytes.Equal(p.Key(), []byte{1, 2, 3})
}

func c17PRNG(c *Ctx) {
	keyOK := c17KeyedKeyStored()
	sizes := []int{0, 1, 3, 7, 63, 64, 65, 127, 128, 129, 255, 1000}
	ctorName := map[bool]string{true: "new", false: "keyed"}
	// ---- ties ----
	for i := 0; i < c.Scale(60, 1500); i++ {
		useNew := i%2 == 0
		var p *sampling.KeyedPRNG
		var key []byte
		if useNew {
			mark := RandMark()
			var err error
			if p, err = sampling.NewPRNG(); err != nil {
				panic(err)
			}
			key = RandKeysSince(mark)[0] // the 64 bytes NewPRNG drew from crypto/rand
		} else {
			key = c.rng.Bytes(64)[:[]int{0, 1, 5, 16, 32, 64}[c.rng.Intn(6)]]
			p = c17Keyed(key)
		}
		var ops, outs []string
		total := 0
		viaNew := useNew // the current generator came from NewPRNG (it becomes a keyed one after `rekey`)
		n := 2 + c.rng.Intn(10)
		for k := 0; k < n; k++ {
			switch x := c.rng.Intn(10); {
			case x < 6:
				sz := sizes[c.rng.Intn(len(sizes))]
				ops = append(ops, fmt.Sprintf("r%d", sz))
				outs = append(outs, Hex(c17ReadAll(p, sz)))
				total += sz
			case x < 8:
				ops = append(ops, "reset")
				p.Reset()
				outs = append(outs, ".")
			case x == 8 && (viaNew || keyOK):
				ops = append(ops, "k")
				outs = append(outs, "k:"+Hex(p.Key()))
			case x == 9 && (viaNew || keyOK):
				ops = append(ops, "rekey")
				p = c17Keyed(p.Key())
				viaNew = false
				outs = append(outs, ".")
			default:
				ops = append(ops, "r1")
				outs = append(outs, Hex(c17ReadAll(p, 1)))
				total++
			}
		}
		c.Emit(fmt.Sprintf("prng ctor=%s key=%s xof=%s ops=%s", ctorName[useNew], Hex(key), Hex(c17XOF(key, total+8)), strings.Join(ops, ",")), strings.Join(outs, "|"))
		c.Count("prng:tie:" + ctorName[useNew])
	}
	// ---- probes ----
	// NewKeyedPRNG(k): Key() == k; stream == XOF(k); NewKeyedPRNG(p.Key()) replays p from the start
	for _, kl := range []int{0, 1, 16, 32, 64} {
		for rep := 0; rep < c.Scale(2, 20); rep++ {
			k := c.rng.Bytes(64)[:kl]
			args := fmt.Sprintf("keylen=%d key=%s", kl, Hex(k))
			p := c17Keyed(k)
			first := c17ReadAll(p, 300) // p has a history when asked for its key
			detail := ""
			if got := p.Key(); !bytes.Equal(got, k) {
				detail = fmt.Sprintf("NewKeyedPRNG(k).Key() has length %d, want %d (k)", len(got), kl)
			}
			c.Probe("prng-keyed-key", args, "C17/KeyedPRNG.Key/keyed-key-not-stored", detail)
			detail = ""
			if !bytes.Equal(first, c17XOF(k, 300)) {
				detail = "stream of NewKeyedPRNG(k) is not the BLAKE2b XOF of k"
			}
			c.Probe("prng-keyed-stream", args, "C17/KeyedPRNG/stream", detail)
			detail = ""
			q := c17Keyed(p.Key())
			if !bytes.Equal(c17ReadAll(q, 300), first) {
				detail = "NewKeyedPRNG(p.Key()) does not replay the stream of p = NewKeyedPRNG(k)"
			}
			c.Probe("prng-keyed-replay", args, "C17/KeyedPRNG.Key/keyed-key-not-stored", detail)
			// Key() is a copy, and the constructor does not alias the caller's key
			detail = ""
			kk := append([]byte(nil), k...)
			p2 := c17Keyed(kk)
			for j := range kk {
				kk[j] ^= 0xff
			}
			g := p2.Key()
			for j := range g {
				g[j] ^= 0x55
			}
			p2.Reset()
			if !bytes.Equal(c17ReadAll(p2, 100), c17XOF(k, 100)) {
				detail = "stream changed after the caller modified its key slice / the slice returned by Key()"
			} else if kl > 0 && len(p2.Key()) == kl && !bytes.Equal(p2.Key(), k) {
				detail = "Key() aliases the caller's slice or the slice it returned earlier"
			}
			c.Probe("prng-key-copy", args, "C17/KeyedPRNG.Key/aliasing", detail)
		}
	}
	// NewPRNG(): 64-byte key = the crypto/rand bytes, replay, distinct generators
	var prevKey, prevStream []byte
	for rep := 0; rep < c.Scale(6, 60); rep++ {
		mark := RandMark()
		p, err := sampling.NewPRNG()
		if err != nil {
			panic(err)
		}
		drawn := RandKeysSince(mark)[0]
		first := c17ReadAll(p, 200)
		args := fmt.Sprintf("n=%d cryptoRand=%s", rep, Hex(drawn))
		detail := ""
		if got := p.Key(); len(got) != 64 {
			detail = fmt.Sprintf("NewPRNG().Key() has length %d, want 64", len(got))
		} else if !bytes.Equal(got, drawn) {
			detail = "NewPRNG().Key() is not the key drawn from crypto/rand"
		}
		c.Probe("prng-new-key", args, "C17/NewPRNG.Key/key-not-stored", detail)
		detail = ""
		if !bytes.Equal(first, c17XOF(drawn, 200)) {
			detail = "stream of NewPRNG() is not the BLAKE2b XOF of the drawn key"
		}
		c.Probe("prng-new-stream", args, "C17/NewPRNG/stream", detail)
		detail = ""
		if !bytes.Equal(c17ReadAll(c17Keyed(p.Key()), 200), first) {
			detail = "NewKeyedPRNG(p.Key()) does not replay p = NewPRNG()"
		}
		c.Probe("prng-new-replay", args, "C17/NewPRNG.Key/key-not-stored", detail)
		if prevKey != nil {
			detail = ""
			if bytes.Equal(prevKey, p.Key()) {
				detail = "two NewPRNG() generators report the same key"
			} else if bytes.Equal(prevStream, first) {
				detail = "two NewPRNG() generators produce the same stream"
			}
			c.Probe("prng-new-distinct", args, "C17/NewPRNG/distinct", detail)
		}
		prevKey, prevStream = p.Key(), first
	}
	// Reset and chunking
	for rep := 0; rep < c.Scale(10, 200); rep++ {
		k := c.rng.Bytes(32)
		want := c17XOF(k, 4096)
		p := c17Keyed(k)
		var got []byte
		var chunks []int
		for len(got) < 3000 {
			sz := sizes[c.rng.Intn(len(sizes))]
			chunks = append(chunks, sz)
			got = append(got, c17ReadAll(p, sz)...)
		}
		args := fmt.Sprintf("key=%s chunks=%v", Hex(k), chunks)
		args = strings.ReplaceAll(args, " ", ",")
		detail := ""
		if !bytes.Equal(got, want[:len(got)]) {
			detail = "the concatenation of the reads is not the stream (chunking matters)"
		}
		c.Probe("prng-chunking", args, "C17/KeyedPRNG.Read/chunking", detail)
		detail = ""
		p.Reset()
		a := c17ReadAll(p, 77)
		p.Reset()
		p.Reset()
		b := c17ReadAll(p, 130)
		fresh := c17Keyed(k)
		fresh.Reset()
		if !bytes.Equal(a, want[:77]) || !bytes.Equal(b, want[:130]) {
			detail = "Reset() does not restart the stream"
		} else if !bytes.Equal(c17ReadAll(fresh, 64), want[:64]) {
			detail = "Reset() on a fresh generator changes the stream"
		}
		c.Probe("prng-reset", args, "C17/KeyedPRNG.Reset", detail)
	}
}
