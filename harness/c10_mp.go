package main

// C10, multiparty layer: every protocol's ShallowCopy (and mpckks WithParams).  For each protocol the two-party
// run "party A holds the ORIGINAL, party B holds the COPY" must meet the protocol's correctness postcondition
// (shares use system randomness: compared by postcondition, not bit-exactly), using the copy must not change
// anything reachable from the original, and an unused copy must have the configuration of the unused original
// (everything except the state of the PRNGs: c10ConfigDiff).
//
//   table <Protocol.Ctor>                          rows missing from the case table of c10.go
//   copy_behaves_same/<Protocol.Ctor>[2-party]     postcondition of the mixed run (and of the run driven by the copy)
//   copy_independent/<Protocol.Ctor>[2-party]      content hash of the original before / after the copy's GenShare
//   copy_config_equal/<Protocol.Ctor>              same configuration, PRNG states excepted

import (
	"fmt"
	"math"
	"math/big"
	"reflect"
	"strings"

	"github.com/tuneinsight/lattigo/v6/core/rlwe"
	"github.com/tuneinsight/lattigo/v6/multiparty"
	"github.com/tuneinsight/lattigo/v6/multiparty/mpbgv"
	"github.com/tuneinsight/lattigo/v6/multiparty/mpckks"
	"github.com/tuneinsight/lattigo/v6/ring"
	"github.com/tuneinsight/lattigo/v6/schemes/bgv"
	"github.com/tuneinsight/lattigo/v6/schemes/ckks"
	"github.com/tuneinsight/lattigo/v6/utils/bignum"
	"github.com/tuneinsight/lattigo/v6/utils/sampling"
)

// ---------------------------------------------------------------- configuration comparison

var c10PRNGType = reflect.TypeOf(sampling.KeyedPRNG{})

// c10ConfigDiff walks two values of the same type in parallel and returns the path of the first difference in
// CONTENT ("" = none).  Memory shared by both sides is equal by definition and not descended; the state of a
// sampling.KeyedPRNG is skipped (fresh randomness is what a shallow copy is meant to have); function values are
// compared by nil-ness.
func c10ConfigDiff(a, b interface{}, ignore ...string) string {
	seen := map[[2]uintptr]bool{}
	skip := func(path string) bool {
		for _, s := range ignore {
			if strings.HasSuffix(path, s) {
				return true
			}
		}
		return false
	}
	var rec func(x, y reflect.Value, path string, d int) string
	rec = func(x, y reflect.Value, path string, d int) string {
		if !x.IsValid() || !y.IsValid() {
			if x.IsValid() != y.IsValid() {
				return path + ":validity"
			}
			return ""
		}
		if d > 100 {
			return ""
		}
		if x.Type() != y.Type() {
			return path + ":type(" + x.Type().String() + "/" + y.Type().String() + ")"
		}
		if x.Type() == c10PRNGType {
			return ""
		}
		switch x.Kind() {
		case reflect.Bool:
			if x.Bool() != y.Bool() {
				return path
			}
		case reflect.Int, reflect.Int8, reflect.Int16, reflect.Int32, reflect.Int64:
			if x.Int() != y.Int() {
				return path
			}
		case reflect.Uint, reflect.Uint8, reflect.Uint16, reflect.Uint32, reflect.Uint64, reflect.Uintptr:
			if x.Uint() != y.Uint() {
				return path
			}
		case reflect.Float32, reflect.Float64:
			if math.Float64bits(x.Float()) != math.Float64bits(y.Float()) {
				return path
			}
		case reflect.Complex64, reflect.Complex128:
			if x.Complex() != y.Complex() {
				return path
			}
		case reflect.String:
			if x.String() != y.String() {
				return path
			}
		case reflect.Func:
			if x.IsNil() != y.IsNil() {
				return path + ":func-nil"
			}
		case reflect.Ptr, reflect.Map, reflect.Slice:
			xn := x.IsNil() || (x.Kind() == reflect.Slice && x.Len() == 0)
			yn := y.IsNil() || (y.Kind() == reflect.Slice && y.Len() == 0)
			if xn != yn {
				return path + ":nil"
			}
			if xn {
				return ""
			}
			if x.Pointer() == y.Pointer() && (x.Kind() != reflect.Slice || x.Len() == y.Len()) {
				return ""
			}
			k := [2]uintptr{x.Pointer(), y.Pointer()}
			if x.Kind() != reflect.Slice {
				if seen[k] {
					return ""
				}
				seen[k] = true
			}
			switch x.Kind() {
			case reflect.Ptr:
				return rec(c09Readable(x.Elem()), c09Readable(y.Elem()), path, d+1)
			case reflect.Slice:
				if x.Len() != y.Len() {
					return fmt.Sprintf("%s:len(%d/%d)", path, x.Len(), y.Len())
				}
				for i := 0; i < x.Len(); i++ {
					if r := rec(c09Readable(x.Index(i)), c09Readable(y.Index(i)), fmt.Sprintf("%s[%d]", path, i), d+1); r != "" {
						return r
					}
				}
			case reflect.Map:
				if x.Len() != y.Len() {
					return fmt.Sprintf("%s:len(%d/%d)", path, x.Len(), y.Len())
				}
				it := x.MapRange()
				for it.Next() {
					yv := y.MapIndex(it.Key())
					if !yv.IsValid() {
						return fmt.Sprintf("%s[%v]:missing", path, it.Key())
					}
					if r := rec(c09Readable(it.Value()), c09Readable(yv), fmt.Sprintf("%s[%v]", path, it.Key()), d+1); r != "" {
						return r
					}
				}
			}
		case reflect.Interface:
			if x.IsNil() != y.IsNil() {
				return path + ":nil"
			}
			if !x.IsNil() {
				return rec(c09Readable(x.Elem()), c09Readable(y.Elem()), path, d+1)
			}
		case reflect.Struct:
			for i := 0; i < x.NumField(); i++ {
				fp := path + "." + x.Type().Field(i).Name
				if skip(fp) {
					continue
				}
				if r := rec(c09Readable(x.Field(i)), c09Readable(y.Field(i)), fp, d+1); r != "" {
					return r
				}
			}
		case reflect.Array:
			for i := 0; i < x.Len(); i++ {
				if r := rec(c09Readable(x.Index(i)), c09Readable(y.Index(i)), fmt.Sprintf("%s[%d]", path, i), d+1); r != "" {
					return r
				}
			}
		}
		return ""
	}
	return rec(c09Readable(reflect.ValueOf(a)), c09Readable(reflect.ValueOf(b)), "", 0)
}

// c10IgnoreBuffCmplx: ckks.NewEncoder allocates its complex128 scratch with m/4 entries, Encoder.ShallowCopy with
// m/2 (schemes/ckks/encoder.go:105 vs :1208); only the first `slots` entries are ever used, so the behaviour is the
// same and the table records the field as `replaced`.
const c10IgnoreBuffCmplx = ".buffCmplx"

func c10ConfigProbe(c *Ctx, name string, orig, cp interface{}) {
	d := Try(func() string { return c10ConfigDiff(orig, cp, c10IgnoreBuffCmplx) })
	if d != "" {
		d = "differs-at" + d
	}
	c.Probe("copy_config_equal/"+name, "-", "C10-config-"+name, d)
}

// ---------------------------------------------------------------- helpers

func c10SumSk(params rlwe.Parameters, sks ...*rlwe.SecretKey) *rlwe.SecretKey {
	s := rlwe.NewSecretKey(params)
	for _, k := range sks {
		params.RingQP().Add(s.Value, k.Value, s.Value)
	}
	return s
}

type c10MP struct {
	c        *Ctx
	bp       bgv.Parameters
	kgen     *rlwe.KeyGenerator
	skA, skB *rlwe.SecretKey // the two parties' shares of the input key
	sk       *rlwe.SecretKey // ideal input key
	tA, tB   *rlwe.SecretKey // shares of the output key
	tk       *rlwe.SecretKey // ideal output key
	ecd      *bgv.Encoder
	nf       ring.DiscreteGaussian
}

func (m *c10MP) vals(seed int) []uint64 {
	v := make([]uint64, m.bp.MaxSlots())
	for i := range v {
		v[i] = uint64((i*7+seed*13+3)%257) + uint64(m.c.rng.Intn(3))
	}
	return v
}

func (m *c10MP) encrypt(key rlwe.EncryptionKey, v []uint64, level int) *rlwe.Ciphertext {
	pt := bgv.NewPlaintext(m.bp, level)
	must(m.ecd.Encode(v, pt))
	ct, err := rlwe.NewEncryptor(m.bp, key).EncryptNew(pt)
	must(err)
	return ct
}

func (m *c10MP) decrypt(sk *rlwe.SecretKey, ct *rlwe.Ciphertext) []uint64 {
	v := make([]uint64, m.bp.MaxSlots())
	must(m.ecd.Decode(rlwe.NewDecryptor(m.bp, sk).DecryptNew(ct), v))
	return v
}

func c10VecEq(a, b []uint64) bool {
	if len(a) != len(b) {
		return false
	}
	for i := range a {
		if a[i] != b[i] {
			return false
		}
	}
	return true
}

// c10Two emits the three probes of one protocol. run(useCopyAsDriver) executes the protocol with party A on the
// original and party B on the copy (aggregation / finalisation by the original, or by the copy when the flag is
// set) and returns "" when the postcondition holds; it must call touch() right before and after the copy is used
// for share generation.
type c10TwoRun func(driverIsCopy bool, before, after func()) string

func c10Two(c *Ctx, name string, orig interface{}, run c10TwoRun) {
	indep := ""
	var h string
	before := func() { h = deepHash(orig) }
	after := func() {
		if deepHash(orig) != h {
			indep = "original-changed"
		}
	}
	c10P(c, "copy_behaves_same/"+name+"[2-party]", "-", "C10-behaves-"+name, func() string {
		if d := run(false, before, after); d != "" {
			return "driver=original:" + d
		}
		if d := run(true, before, after); d != "" {
			return "driver=copy:" + d
		}
		return ""
	})
	c.Probe("copy_independent/"+name+"[2-party]", "-", "C10-independent-"+name, indep)
}

func c10Multiparty(c *Ctx) {
	// non-vacuity of copy_config_equal: a protocol built with another noise parameter is told apart
	{
		bp, err := bgv.NewParametersFromLiteral(bgv.ParametersLiteral{LogN: 5, LogQ: []int{45, 40}, LogP: []int{50}, PlaintextModulus: 65537})
		must(err)
		a, _ := multiparty.NewKeySwitchProtocol(bp, ring.DiscreteGaussian{Sigma: 8, Bound: 48})
		b, _ := multiparty.NewKeySwitchProtocol(bp, ring.DiscreteGaussian{Sigma: 9, Bound: 48})
		d := ""
		if r := c10ConfigDiff(&a, &b); !strings.HasPrefix(r, ".noise") {
			d = "a-different-noise-parameter-is-not-detected(" + r + ")"
		}
		a2, _ := multiparty.NewKeySwitchProtocol(bp, ring.DiscreteGaussian{Sigma: 8, Bound: 48})
		if r := c10ConfigDiff(&a, &a2); r != "" {
			d += "two-identically-built-protocols-differ-at" + r
		}
		c.Probe("copy_config_equal/selftest", "-", "C10-config-selftest", d)
	}
	bp, err := bgv.NewParametersFromLiteral(bgv.ParametersLiteral{LogN: 5, LogQ: []int{45, 40, 40}, LogP: []int{50}, PlaintextModulus: 65537})
	must(err)
	m := &c10MP{c: c, bp: bp, kgen: rlwe.NewKeyGenerator(bp), ecd: bgv.NewEncoder(bp), nf: ring.DiscreteGaussian{Sigma: 8, Bound: 48}}
	m.skA, m.skB = m.kgen.GenSecretKeyNew(), m.kgen.GenSecretKeyNew()
	m.tA, m.tB = m.kgen.GenSecretKeyNew(), m.kgen.GenSecretKeyNew()
	m.sk = c10SumSk(bp.Parameters, m.skA, m.skB)
	m.tk = c10SumSk(bp.Parameters, m.tA, m.tB)
	safe := func(name string, f func()) {
		if Try(func() string { f(); return "ok" }) != "ok" {
			c.Probe("no_panic/"+name, "-", "C10-panic-"+name, "panic")
		}
	}
	safe("multiparty.keygen", func() { c10MPKeygen(m) })
	safe("multiparty.keyswitch", func() { c10MPKeySwitch(m) })
	safe("mpbgv", func() { c10MPBGV(m) })
	safe("mpckks", func() { c10MPCKKS(c) })
}

// ---------------------------------------------------------------- key generation protocols

func c10MPKeygen(m *c10MP) {
	c, bp := m.c, m.bp
	rp := bp.GetRLWEParameters()
	L := bp.MaxLevel()

	{ // collective public key
		name := "multiparty.PublicKeyGenProtocol.ShallowCopy"
		o := multiparty.NewPublicKeyGenProtocol(bp)
		x := o.ShallowCopy()
		c10Two(c, name, &o, func(drvCopy bool, before, after func()) string {
			crp := o.SampleCRP(c10Keyed(71))
			shA, shB, agg := o.AllocateShare(), x.AllocateShare(), o.AllocateShare()
			o.GenShare(m.skA, crp, &shA)
			before()
			x.GenShare(m.skB, crp, &shB)
			after()
			pk := rlwe.NewPublicKey(bp)
			if drvCopy {
				x.AggregateShares(shA, shB, &agg)
				x.GenPublicKey(agg, crp, pk)
			} else {
				o.AggregateShares(shA, shB, &agg)
				o.GenPublicKey(agg, crp, pk)
			}
			v := m.vals(1)
			if !c10VecEq(m.decrypt(m.sk, m.encrypt(pk, v, L)), v) {
				return "collective-public-key-does-not-encrypt-under-the-sum-of-the-secrets"
			}
			return ""
		})
	}
	{ // collective evaluation key sk -> tk
		name := "multiparty.EvaluationKeyGenProtocol.ShallowCopy"
		o := multiparty.NewEvaluationKeyGenProtocol(bp)
		x := o.ShallowCopy()
		c10Two(c, name, &o, func(drvCopy bool, before, after func()) string {
			crp := o.SampleCRP(c10Keyed(72))
			shA, shB, agg := o.AllocateShare(), x.AllocateShare(), o.AllocateShare()
			if err := o.GenShare(m.skA, m.tA, crp, &shA); err != nil {
				return "GenShare(original)-error"
			}
			before()
			err := x.GenShare(m.skB, m.tB, crp, &shB)
			after()
			if err != nil {
				return "GenShare(copy)-error"
			}
			evk := rlwe.NewEvaluationKey(bp)
			d := o
			if drvCopy {
				d = x
			}
			if err := d.AggregateShares(shA, shB, &agg); err != nil {
				return "aggregate-error"
			}
			if err := d.GenEvaluationKey(agg, crp, evk); err != nil {
				return "finalize-error"
			}
			v := m.vals(2)
			ct := m.encrypt(m.sk, v, L)
			out := rlwe.NewCiphertext(bp, 1, L)
			if err := rlwe.NewEvaluator(bp, nil).ApplyEvaluationKey(ct, evk, out); err != nil {
				return "ApplyEvaluationKey-error"
			}
			if !c10VecEq(m.decrypt(m.tk, out), v) {
				return "collective-evaluation-key-does-not-switch-to-the-output-key"
			}
			return ""
		})
	}
	{ // collective Galois key
		name := "multiparty.GaloisKeyGenProtocol.ShallowCopy"
		o := multiparty.NewGaloisKeyGenProtocol(bp)
		x := o.ShallowCopy()
		galEl := rp.GaloisElement(3)
		c10Two(c, name, &o, func(drvCopy bool, before, after func()) string {
			crp := o.SampleCRP(c10Keyed(73))
			shA, shB, agg := o.AllocateShare(), x.AllocateShare(), o.AllocateShare()
			if err := o.GenShare(m.skA, galEl, crp, &shA); err != nil {
				return "GenShare(original)-error"
			}
			before()
			err := x.GenShare(m.skB, galEl, crp, &shB)
			after()
			if err != nil {
				return "GenShare(copy)-error"
			}
			gk := rlwe.NewGaloisKey(bp)
			d := o
			if drvCopy {
				d = x
			}
			if err := d.AggregateShares(shA, shB, &agg); err != nil {
				return "aggregate-error"
			}
			if err := d.GenGaloisKey(agg, crp, gk); err != nil {
				return "finalize-error"
			}
			v := m.vals(3)
			ct := m.encrypt(m.sk, v, L)
			o1, o2 := bgv.NewCiphertext(bp, 1, L), bgv.NewCiphertext(bp, 1, L)
			if err := bgv.NewEvaluator(bp, rlwe.NewMemEvaluationKeySet(nil, gk)).RotateColumns(ct, 3, o1); err != nil {
				return "rotation-with-collective-key-error"
			}
			ref := m.kgen.GenGaloisKeyNew(galEl, m.sk)
			if err := bgv.NewEvaluator(bp, rlwe.NewMemEvaluationKeySet(nil, ref)).RotateColumns(ct, 3, o2); err != nil {
				return "rotation-with-reference-key-error"
			}
			got, want := m.decrypt(m.sk, o1), m.decrypt(m.sk, o2)
			if !c10VecEq(got, want) || c10VecEq(got, v) {
				return "collective-galois-key-does-not-rotate"
			}
			return ""
		})
	}
	{ // collective relinearisation key (two rounds)
		name := "multiparty.RelinearizationKeyGenProtocol.ShallowCopy"
		o := multiparty.NewRelinearizationKeyGenProtocol(bp)
		x := o.ShallowCopy()
		c10Two(c, name, &o, func(drvCopy bool, before, after func()) string {
			crp := o.SampleCRP(c10Keyed(74))
			ephA, r1A, r2A := o.AllocateShare()
			ephB, r1B, r2B := x.AllocateShare()
			_, r1, r2 := o.AllocateShare()
			d := o
			if drvCopy {
				d = x
			}
			o.GenShareRoundOne(m.skA, crp, ephA, &r1A)
			before()
			x.GenShareRoundOne(m.skB, crp, ephB, &r1B)
			after()
			d.AggregateShares(r1A, r1B, &r1)
			o.GenShareRoundTwo(ephA, m.skA, r1, &r2A)
			before()
			x.GenShareRoundTwo(ephB, m.skB, r1, &r2B)
			after()
			d.AggregateShares(r2A, r2B, &r2)
			rlk := rlwe.NewRelinearizationKey(bp)
			d.GenRelinearizationKey(r1, r2, rlk)
			v1, v2 := m.vals(4), m.vals(5)
			out := bgv.NewCiphertext(bp, 1, L)
			if err := bgv.NewEvaluator(bp, rlwe.NewMemEvaluationKeySet(rlk)).MulRelin(m.encrypt(m.sk, v1, L), m.encrypt(m.sk, v2, L), out); err != nil {
				return "MulRelin-error"
			}
			want := make([]uint64, len(v1))
			for i := range want {
				want[i] = v1[i] * v2[i] % bp.PlaintextModulus()
			}
			if out.Degree() != 1 || !c10VecEq(m.decrypt(m.sk, out), want) {
				return "collective-relinearisation-key-does-not-relinearise"
			}
			return ""
		})
	}
}

// ---------------------------------------------------------------- key switching protocols

func c10MPKeySwitch(m *c10MP) {
	c, bp := m.c, m.bp
	L := bp.MaxLevel()
	{
		name := "multiparty.KeySwitchProtocol.ShallowCopy"
		o, err := multiparty.NewKeySwitchProtocol(bp, m.nf)
		must(err)
		x := o.ShallowCopy()
		c10Two(c, name, &o, func(drvCopy bool, before, after func()) string {
			for _, lvl := range []int{L, 0} {
				v := m.vals(6)
				ct := m.encrypt(m.sk, v, lvl)
				shA, shB, agg := o.AllocateShare(lvl), x.AllocateShare(lvl), o.AllocateShare(lvl)
				o.GenShare(m.skA, m.tA, ct, &shA)
				before()
				x.GenShare(m.skB, m.tB, ct, &shB)
				after()
				d := o
				if drvCopy {
					d = x
				}
				if err := d.AggregateShares(shA, shB, &agg); err != nil {
					return "aggregate-error"
				}
				out := bgv.NewCiphertext(bp, 1, lvl)
				d.KeySwitch(ct, agg, out)
				if !c10VecEq(m.decrypt(m.tk, out), v) {
					return fmt.Sprintf("key-switch-does-not-re-encrypt(level=%d)", lvl)
				}
			}
			return ""
		})
	}
	{
		name := "multiparty.PublicKeySwitchProtocol.ShallowCopy"
		o, err := multiparty.NewPublicKeySwitchProtocol(bp, m.nf)
		must(err)
		x := o.ShallowCopy()
		pkOut := m.kgen.GenPublicKeyNew(m.tk)
		c10Two(c, name, &o, func(drvCopy bool, before, after func()) string {
			for _, lvl := range []int{L, 0} {
				v := m.vals(7)
				ct := m.encrypt(m.sk, v, lvl)
				shA, shB, agg := o.AllocateShare(lvl), x.AllocateShare(lvl), o.AllocateShare(lvl)
				o.GenShare(m.skA, pkOut, ct, &shA)
				before()
				x.GenShare(m.skB, pkOut, ct, &shB)
				after()
				d := o
				if drvCopy {
					d = x
				}
				if err := d.AggregateShares(shA, shB, &agg); err != nil {
					return "aggregate-error"
				}
				out := bgv.NewCiphertext(bp, 1, lvl)
				d.KeySwitch(ct, agg, out)
				if !c10VecEq(m.decrypt(m.tk, out), v) {
					return fmt.Sprintf("public-key-switch-does-not-re-encrypt(level=%d)", lvl)
				}
			}
			return ""
		})
	}
}

// ---------------------------------------------------------------- mpbgv

func c10MPBGV(m *c10MP) {
	c, bp := m.c, m.bp
	L := bp.MaxLevel()
	ringT := bp.RingT()
	{ // encryption-to-shares and shares-to-encryption
		nameE, nameS := "mpbgv.EncToShareProtocol.ShallowCopy", "mpbgv.ShareToEncProtocol.ShallowCopy"
		eo, err := mpbgv.NewEncToShareProtocol(bp, m.nf)
		must(err)
		ex := eo.ShallowCopy()
		so, err := mpbgv.NewShareToEncProtocol(bp, m.nf)
		must(err)
		sx := so.ShallowCopy()
		var secA, secB multiparty.AdditiveShare
		var v []uint64
		var ct *rlwe.Ciphertext
		c10Two(c, nameE, &eo, func(drvCopy bool, before, after func()) string {
			v = m.vals(8)
			ct = m.encrypt(m.sk, v, 1)
			pubA, pubB := eo.AllocateShare(ct.Level()), ex.AllocateShare(ct.Level())
			secA, secB = mpbgv.NewAdditiveShare(bp), mpbgv.NewAdditiveShare(bp)
			eo.GenShare(m.skA, ct, &secA, &pubA)
			before()
			ex.GenShare(m.skB, ct, &secB, &pubB)
			after()
			if drvCopy {
				if err := ex.AggregateShares(pubA, pubB, &pubA); err != nil {
					return "aggregate-error"
				}
				ex.GetShare(&secA, pubA, ct, &secA)
			} else {
				if err := eo.AggregateShares(pubA, pubB, &pubA); err != nil {
					return "aggregate-error"
				}
				eo.GetShare(&secA, pubA, ct, &secA)
			}
			rec := mpbgv.NewAdditiveShare(bp)
			ringT.Add(secA.Value, secB.Value, rec.Value)
			got := make([]uint64, len(v))
			if err := m.ecd.DecodeRingT(rec.Value, ct.Scale, got); err != nil {
				return "decode-error"
			}
			if !c10VecEq(got, v) {
				return "additive-shares-do-not-sum-to-the-plaintext"
			}
			return ""
		})
		c10Two(c, nameS, &so, func(drvCopy bool, before, after func()) string {
			crp := so.SampleCRP(L, c10Keyed(75))
			pubA, pubB := so.AllocateShare(L), sx.AllocateShare(L)
			if err := so.GenShare(m.skA, crp, secA, &pubA); err != nil {
				return "GenShare(original)-error"
			}
			before()
			err := sx.GenShare(m.skB, crp, secB, &pubB)
			after()
			if err != nil {
				return "GenShare(copy)-error"
			}
			out := bgv.NewCiphertext(bp, 1, L)
			*out.MetaData = *ct.MetaData
			d := so
			if drvCopy {
				d = sx
			}
			if err := d.AggregateShares(pubA, pubB, &pubA); err != nil {
				return "aggregate-error"
			}
			if err := d.GetEncryption(pubA, crp, out); err != nil {
				return "GetEncryption-error"
			}
			if out.Level() != L || !c10VecEq(m.decrypt(m.sk, out), v) {
				return "re-encryption-of-the-shares-does-not-decrypt-to-the-plaintext"
			}
			return ""
		})
	}
	perm := func(coeffs []uint64) { // a LINEAR map (the protocol applies it to the masked plaintext and to the mask): rotate by 5, times 3
		n := len(coeffs)
		t := make([]uint64, n)
		for i := range coeffs {
			t[i] = coeffs[(i+5)%n] * 3 % bp.PlaintextModulus()
		}
		copy(coeffs, t)
	}
	{ // masked transform
		name := "mpbgv.MaskedTransformProtocol.ShallowCopy"
		o, err := mpbgv.NewMaskedTransformProtocol(bp, bp, m.nf)
		must(err)
		x := o.ShallowCopy()
		tf := &mpbgv.MaskedTransformFunc{Decode: true, Func: perm, Encode: true}
		c10Two(c, name, &o, func(drvCopy bool, before, after func()) string {
			v := m.vals(9)
			ct := m.encrypt(m.sk, v, 0)
			crp := o.SampleCRP(L, c10Keyed(76))
			shA, shB := o.AllocateShare(0, L), x.AllocateShare(0, L)
			if err := o.GenShare(m.skA, m.tA, ct, crp, tf, &shA); err != nil {
				return "GenShare(original)-error"
			}
			before()
			err := x.GenShare(m.skB, m.tB, ct, crp, tf, &shB)
			after()
			if err != nil {
				return "GenShare(copy)-error"
			}
			d := o
			if drvCopy {
				d = x
			}
			if err := d.AggregateShares(shA, shB, &shA); err != nil {
				return "aggregate-error"
			}
			out := bgv.NewCiphertext(bp, 1, L)
			if err := d.Transform(ct, tf, crp, shA, out); err != nil {
				return "Transform-error"
			}
			want := append([]uint64{}, v...)
			perm(want)
			if out.Level() != L || !c10VecEq(m.decrypt(m.tk, out), want) {
				return "masked-transform-result-wrong"
			}
			return ""
		})
	}
	{ // refresh
		name := "mpbgv.RefreshProtocol.ShallowCopy"
		o, err := mpbgv.NewRefreshProtocol(bp, m.nf)
		must(err)
		x := o.ShallowCopy()
		c10Tie(c, name, &o, &x)
		c10ConfigProbe(c, name, &o, &x)
		c10Two(c, name, &o, func(drvCopy bool, before, after func()) string {
			v := m.vals(10)
			ct := m.encrypt(m.sk, v, 0)
			crp := o.SampleCRP(L, c10Keyed(77))
			shA, shB := o.AllocateShare(0, L), x.AllocateShare(0, L)
			if err := o.GenShare(m.skA, ct, crp, &shA); err != nil {
				return "GenShare(original)-error"
			}
			before()
			err := x.GenShare(m.skB, ct, crp, &shB)
			after()
			if err != nil {
				return "GenShare(copy)-error"
			}
			d := o
			if drvCopy {
				d = x
			}
			if err := d.AggregateShares(shA, shB, &shA); err != nil {
				return "aggregate-error"
			}
			out := bgv.NewCiphertext(bp, 1, L)
			if err := d.Finalize(ct, crp, shA, out); err != nil {
				return "Finalize-error"
			}
			if out.Level() != L || !c10VecEq(m.decrypt(m.sk, out), v) {
				return "refresh-does-not-return-the-plaintext-at-the-top-level"
			}
			return ""
		})
	}
}

// ---------------------------------------------------------------- mpckks

func c10MPCKKS(c *Ctx) {
	cp, err := ckks.NewParametersFromLiteral(ckks.ParametersLiteral{LogN: 5, LogQ: []int{55, 45, 45, 45, 45}, LogP: []int{55}, LogDefaultScale: 45})
	must(err)
	cp2, err := ckks.NewParametersFromLiteral(ckks.ParametersLiteral{LogN: 5, LogQ: []int{56, 45, 45, 45, 45, 45}, LogP: []int{56}, LogDefaultScale: 40})
	must(err)
	nf := ring.DiscreteGaussian{Sigma: 8, Bound: 48}
	kgen, kgen2 := rlwe.NewKeyGenerator(cp), rlwe.NewKeyGenerator(cp2)
	skA, skB := kgen.GenSecretKeyNew(), kgen.GenSecretKeyNew()
	sk := c10SumSk(cp.Parameters, skA, skB)
	tA, tB := kgen2.GenSecretKeyNew(), kgen2.GenSecretKeyNew()
	tk := c10SumSk(cp2.Parameters, tA, tB)
	minLevel, logBound, ok := mpckks.GetMinimumLevelForRefresh(128, cp.DefaultScale(), 2, cp.Q())
	if !ok || minLevel >= cp.MaxLevel() {
		c.Count("mpckks-no-level-for-refresh")
		return
	}
	L := cp.MaxLevel()
	ecd := ckks.NewEncoder(cp)
	enc := rlwe.NewEncryptor(cp, sk)
	mkCt := func(seed, level int) ([]complex128, *rlwe.Ciphertext) {
		v := make([]complex128, cp.MaxSlots())
		for i := range v {
			v[i] = complex(float64((i*3+seed)%11)/16-0.3, float64((i*5+seed)%7)/16-0.2)
		}
		pt := ckks.NewPlaintext(cp, level)
		must(ecd.Encode(v, pt))
		ct, err := enc.EncryptNew(pt)
		must(err)
		return v, ct
	}
	closeTo := func(par ckks.Parameters, key *rlwe.SecretKey, ct *rlwe.Ciphertext, want []complex128) bool {
		got := make([]complex128, len(want))
		if err := ckks.NewEncoder(par).Decode(rlwe.NewDecryptor(par, key).DecryptNew(ct), got); err != nil {
			return false
		}
		for i := range got {
			if d := got[i] - want[i]; math.Abs(real(d)) > 1e-6 || math.Abs(imag(d)) > 1e-6 {
				return false
			}
		}
		return true
	}
	{ // encryption-to-shares and shares-to-encryption
		nameE, nameS := "mpckks.EncToShareProtocol.ShallowCopy", "mpckks.ShareToEncProtocol.ShallowCopy"
		eo, err := mpckks.NewEncToShareProtocol(cp, nf)
		must(err)
		ex := eo.ShallowCopy()
		so, err := mpckks.NewShareToEncProtocol(cp, nf)
		must(err)
		sx := so.ShallowCopy()
		var secA, secB multiparty.AdditiveShareBigint
		var v []complex128
		var ct *rlwe.Ciphertext
		c10Two(c, nameE, &eo, func(drvCopy bool, before, after func()) string {
			v, ct = mkCt(1, minLevel)
			pubA, pubB := eo.AllocateShare(minLevel), ex.AllocateShare(minLevel)
			secA, secB = mpckks.NewAdditiveShare(cp, ct.LogSlots()), mpckks.NewAdditiveShare(cp, ct.LogSlots())
			if err := eo.GenShare(skA, logBound, ct, &secA, &pubA); err != nil {
				return "GenShare(original)-error"
			}
			before()
			err := ex.GenShare(skB, logBound, ct, &secB, &pubB)
			after()
			if err != nil {
				return "GenShare(copy)-error"
			}
			if drvCopy {
				if err := ex.AggregateShares(pubA, pubB, &pubA); err != nil {
					return "aggregate-error"
				}
				ex.GetShare(&secA, pubA, ct, &secA)
			} else {
				if err := eo.AggregateShares(pubA, pubB, &pubA); err != nil {
					return "aggregate-error"
				}
				eo.GetShare(&secA, pubA, ct, &secA)
			}
			rec := make([]*big.Int, len(secA.Value))
			for i := range rec {
				rec[i] = new(big.Int).Add(secA.Value[i], secB.Value[i])
			}
			pt := ckks.NewPlaintext(cp, ct.Level())
			*pt.MetaData = *ct.MetaData
			pt.IsNTT = false
			cp.RingQ().AtLevel(pt.Level()).SetCoefficientsBigint(rec, pt.Value)
			got := make([]complex128, len(v))
			if err := ecd.Decode(pt, got); err != nil {
				return "decode-error"
			}
			for i := range got {
				if d := got[i] - v[i]; math.Abs(real(d)) > 1e-6 || math.Abs(imag(d)) > 1e-6 {
					return "additive-shares-do-not-sum-to-the-plaintext"
				}
			}
			return ""
		})
		c10Two(c, nameS, &so, func(drvCopy bool, before, after func()) string {
			crp := so.SampleCRP(L, c10Keyed(81))
			pubA, pubB := so.AllocateShare(L), sx.AllocateShare(L)
			if err := so.GenShare(skA, crp, ct.MetaData, secA, &pubA); err != nil {
				return "GenShare(original)-error"
			}
			before()
			err := sx.GenShare(skB, crp, ct.MetaData, secB, &pubB)
			after()
			if err != nil {
				return "GenShare(copy)-error"
			}
			d := so
			if drvCopy {
				d = sx
			}
			if err := d.AggregateShares(pubA, pubB, &pubA); err != nil {
				return "aggregate-error"
			}
			out := ckks.NewCiphertext(cp, 1, L)
			*out.MetaData = *ct.MetaData
			if err := d.GetEncryption(pubA, crp, out); err != nil {
				return "GetEncryption-error"
			}
			if out.Level() != L || !closeTo(cp, sk, out, v) {
				return "re-encryption-of-the-shares-does-not-decrypt-to-the-plaintext"
			}
			return ""
		})
	}
	half := func(coeffs []*bignum.Complex) {
		for i := range coeffs {
			coeffs[i][0].Mul(coeffs[i][0], bignum.NewFloat(0.5, logBound))
			coeffs[i][1].Mul(coeffs[i][1], bignum.NewFloat(0.25, logBound))
		}
	}
	tf := &mpckks.MaskedLinearTransformationFunc{Decode: true, Func: half, Encode: true}
	// one run of the masked transform cp -> par (output key shares tA, tB / ideal tk), party A on o, party B on x
	mlt := func(o, x mpckks.MaskedLinearTransformationProtocol, par ckks.Parameters, oA, oB, oK *rlwe.SecretKey, seed int, drvCopy bool, before, after func()) string {
		v, ct := mkCt(seed, minLevel)
		lo := par.MaxLevel()
		crp := o.SampleCRP(lo, c10Keyed(82))
		shA, shB := o.AllocateShare(minLevel, lo), x.AllocateShare(minLevel, lo)
		if err := o.GenShare(skA, oA, logBound, ct, crp, tf, &shA); err != nil {
			return "GenShare(original)-error"
		}
		before()
		err := x.GenShare(skB, oB, logBound, ct, crp, tf, &shB)
		after()
		if err != nil {
			return "GenShare(copy)-error"
		}
		d := o
		if drvCopy {
			d = x
		}
		if err := d.AggregateShares(&shA, &shB, &shA); err != nil {
			return "aggregate-error"
		}
		out := ckks.NewCiphertext(par, 1, lo)
		if err := d.Transform(ct, tf, crp, shA, out); err != nil {
			return "Transform-error"
		}
		want := make([]complex128, len(v))
		for i := range v {
			want[i] = complex(real(v[i])*0.5, imag(v[i])*0.25)
		}
		if out.Level() != lo || !closeTo(par, oK, out, want) {
			return "masked-transform-result-wrong"
		}
		return ""
	}
	{
		name := "mpckks.MaskedLinearTransformationProtocol.ShallowCopy"
		o, err := mpckks.NewMaskedLinearTransformationProtocol(cp, cp, logBound, nf)
		must(err)
		x := o.ShallowCopy()
		c10Two(c, name, &o, func(drvCopy bool, before, after func()) string {
			return mlt(o, x, cp, skA, skB, sk, 2, drvCopy, before, after)
		})
		// between different parameter sets
		o2, err := mpckks.NewMaskedLinearTransformationProtocol(cp, cp2, logBound, nf)
		must(err)
		x2 := o2.ShallowCopy()
		c10ConfigProbe(c, name+"[paramsOut!=paramsIn]", &o2, &x2)
		c10Two(c, name+"[paramsOut!=paramsIn]", &o2, func(drvCopy bool, before, after func()) string {
			return mlt(o2, x2, cp2, tA, tB, tk, 3, drvCopy, before, after)
		})

		// WithParams: the re-targeted protocol must behave as the protocol constructed for these parameters
		name = "mpckks.MaskedLinearTransformationProtocol.WithParams"
		{ // classification and configuration on UNUSED objects
			f, err := mpckks.NewMaskedLinearTransformationProtocol(cp, cp, logBound, nf)
			must(err)
			w := f.WithParams(cp)
			c10Tie(c, name, &f, &w)
		}
		w2 := o.WithParams(cp2)
		c10Probe2 := func(label string, a, b interface{}) {
			d := Try(func() string { return c10ConfigDiff(a, b) })
			key := "C10-config-" + name
			if strings.HasPrefix(d, ".noise") {
				key = "C10/mpckks.MaskedLinearTransformationProtocol.WithParams/drops-noise"
			}
			if d != "" {
				d = "differs-at" + d
			}
			c.Probe("copy_config_equal/"+name+label, "-", key, d)
		}
		{
			f, err := mpckks.NewMaskedLinearTransformationProtocol(cp, cp, logBound, nf)
			must(err)
			g, err := mpckks.NewMaskedLinearTransformationProtocol(cp, cp2, logBound, nf)
			must(err)
			w := f.WithParams(cp2)
			c10Probe2("[vs-NewMaskedLinearTransformationProtocol(paramsIn,paramsOut)]", &g, &w)
		}
		c10Two(c, name, &o2, func(drvCopy bool, before, after func()) string {
			return mlt(o2, w2, cp2, tA, tB, tk, 4, drvCopy, before, after)
		})
		// ... for every operation, WithParams and ShallowCopy included
		c10P(c, "copy_behaves_same/"+name+"[then-WithParams]", "-", "C10/mpckks.MaskedLinearTransformationProtocol.WithParams/drops-noise", func() string {
			f := func(p mpckks.MaskedLinearTransformationProtocol) string {
				return Try(func() string {
					q := p.WithParams(cp)
					if d := mlt(q, q.ShallowCopy(), cp, skA, skB, sk, 5, false, func() {}, func() {}); d != "" {
						return d
					}
					return "ok"
				})
			}
			a, b := f(o2), f(w2)
			if a != b {
				return fmt.Sprintf("constructed-protocol:%s,re-targeted-protocol:%s(WithParams does not carry the noise distribution over)", a, b)
			}
			return ""
		})
	}
	{
		name := "mpckks.RefreshProtocol.ShallowCopy"
		o, err := mpckks.NewRefreshProtocol(cp, logBound, nf)
		must(err)
		x := o.ShallowCopy()
		c10Tie(c, name, &o, &x)
		c10ConfigProbe(c, name, &o, &x)
		c10Two(c, name, &o, func(drvCopy bool, before, after func()) string {
			v, ct := mkCt(6, minLevel)
			crp := o.SampleCRP(L, c10Keyed(83))
			shA, shB := o.AllocateShare(minLevel, L), x.AllocateShare(minLevel, L)
			if err := o.GenShare(skA, logBound, ct, crp, &shA); err != nil {
				return "GenShare(original)-error"
			}
			before()
			err := x.GenShare(skB, logBound, ct, crp, &shB)
			after()
			if err != nil {
				return "GenShare(copy)-error"
			}
			d := o
			if drvCopy {
				d = x
			}
			if err := d.AggregateShares(&shA, &shB, &shA); err != nil {
				return "aggregate-error"
			}
			out := ckks.NewCiphertext(cp, 1, L)
			if err := d.Finalize(ct, crp, shA, out); err != nil {
				return "Finalize-error"
			}
			if out.Level() != L || !closeTo(cp, sk, out, v) {
				return "refresh-does-not-return-the-plaintext-at-the-top-level"
			}
			return ""
		})
	}
}
