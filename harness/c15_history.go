package main

// C15 — history / receiver-reuse probes for the whole threshold API.
//
// Every output of the threshold API must be a function of its documented inputs only: a call
// into a DIRTY receiver (a buffer that still holds the previous recipient's share, random
// residues, q-1 everywhere, arbitrary uint64 words) must give the same words as a call into a
// freshly allocated one, and the same words as an independent reference computed here with
// 128-bit integer arithmetic (math/bits, no lattigo code).  Inputs must come back unchanged.
//
// Probe names and finding keys (the key names the function that depends on its receiver):
//   share_on_polynomial C15/GenShamirSecretShare/off-polynomial          (fresh receivers, vs reference)
//   dirty_share        C15/GenShamirSecretShare/depends-on-receiver-content
//   dirty_evalpoly_qp  C15/ringqp.EvalPolyScalar/depends-on-receiver-content
//   dirty_evalpoly     C15/ring.EvalPolyScalar/depends-on-receiver-content
//   dirty_aggregate    C15/AggregateShares/depends-on-receiver-content   (incl. out==a, out==b, a==b;
//                      key C15/AggregateShares/wrong-sum when already wrong into a zero receiver)
//   agg_chain          C15/AggregateShares/accumulation-range            (N maximal residues, 61-bit q)
//   dirty_additive     C15/GenAdditiveShare/depends-on-receiver-content  (incl. refused calls: output untouched)
//   genpoly_copy       C15/GenShamirPolynomial/aliases-secret
//   reconstruct_reused C15/protocol/reused-buffers   (whole setup + reconstruction with one buffer per role)
// Tie lines: `share` (from a re-used buffer; the model sees the inputs only) and `share_into` (the dirty
// receiver's previous content is put on the line; the model's genShamirSecretShareInto, proved
// receiver-independent in Props/C15.lean, must reproduce the words).

import (
	"fmt"
	"math/bits"

	"github.com/tuneinsight/lattigo/v6/core/rlwe"
	"github.com/tuneinsight/lattigo/v6/multiparty"
	"github.com/tuneinsight/lattigo/v6/ring"
	"github.com/tuneinsight/lattigo/v6/ring/ringqp"
)

const (
	c15DirtyZero = iota
	c15DirtyPrev // leave whatever the previous call wrote
	c15DirtyJunk // random residues < q
	c15DirtyMax  // q-1 everywhere
	c15DirtyWild // arbitrary uint64 words (also >= q)
	c15NDirty
)

var c15DirtyName = []string{"zero", "prev", "junk", "qminus1", "wild"}

// c15Dirty overwrites the words of p (rows modulo ms) according to kind.
func c15Dirty(c *Ctx, ms []uint64, p ringqp.Poly, kind int) {
	rows := c15Rows(p)
	for m, row := range rows {
		q := ms[m]
		for k := range row {
			switch kind {
			case c15DirtyZero:
				row[k] = 0
			case c15DirtyJunk:
				row[k] = c.rng.Below(q)
			case c15DirtyMax:
				row[k] = q - 1
			case c15DirtyWild:
				row[k] = c.rng.U64()
			}
		}
	}
}

func c15CopyRows(r [][]uint64) [][]uint64 {
	out := make([][]uint64, len(r))
	for i := range r {
		out[i] = append([]uint64{}, r[i]...)
	}
	return out
}

func c15EqRows(a, b [][]uint64) bool {
	if len(a) != len(b) {
		return false
	}
	for i := range a {
		if len(a[i]) != len(b[i]) {
			return false
		}
		for k := range a[i] {
			if a[i][k] != b[i][k] {
				return false
			}
		}
	}
	return true
}

// c15EqRowsMod compares values modulo the row's modulus (representation-insensitive).
func c15EqRowsMod(ms []uint64, a, b [][]uint64) bool {
	if len(a) != len(b) {
		return false
	}
	for i := range a {
		if len(a[i]) != len(b[i]) {
			return false
		}
		for k := range a[i] {
			if a[i][k]%ms[i] != b[i][k]%ms[i] {
				return false
			}
		}
	}
	return true
}

// c15MulMod: a*b mod q with a 128-bit product (reference arithmetic).
func c15MulMod(a, b, q uint64) uint64 {
	hi, lo := bits.Mul64(a%q, b%q)
	_, r := bits.Div64(hi, lo, q)
	return r
}

func c15AddMod(a, b, q uint64) uint64 {
	s, carry := bits.Add64(a%q, b%q, 0)
	_, r := bits.Div64(carry, s, q)
	return r
}

// c15RefHorner: reference value of sum_k coeffs[k]·x^k, per modulus and per word.
// coeffs[k] are the rows of the k-th coefficient polynomial.
func c15RefHorner(ms []uint64, coeffs [][][]uint64, x uint64) [][]uint64 {
	L := len(coeffs)
	out := make([][]uint64, len(ms))
	for m, q := range ms {
		out[m] = make([]uint64, len(coeffs[0][m]))
		for w := range out[m] {
			acc := coeffs[L-1][m][w] % q
			for k := L - 2; k >= 0; k-- {
				acc = c15AddMod(c15MulMod(acc, x, q), coeffs[k][m][w], q)
			}
			out[m][w] = acc
		}
	}
	return out
}

func c15PolyRows(pol []ringqp.Poly) [][][]uint64 {
	out := make([][][]uint64, len(pol))
	for k := range pol {
		out[k] = c15CopyRows(c15Rows(pol[k]))
	}
	return out
}

func c15EqCoeffs(a, b [][][]uint64) bool {
	if len(a) != len(b) {
		return false
	}
	for k := range a {
		if !c15EqRows(a[k], b[k]) {
			return false
		}
	}
	return true
}

func c15TryErr(f func() error) string {
	return Try(func() string {
		if err := f(); err != nil {
			return "err"
		}
		return "ok"
	})
}

func c15History(c *Ctx, sets []c15Set) {
	reps := c.Scale(2, 10)
	for _, s := range sets {
		for rep := 0; rep < reps; rep++ {
			n := 1 + c.rng.Intn(6)
			t := 1 + c.rng.Intn(n)
			if rep == 0 {
				n, t = 3, 1 // t = 1 explicitly (constant polynomial)
			}
			fam := c.rng.Intn(c15NFam)
			pts := c15Points(c, s, fam, n)
			st := c15DoSetup(c, s, t, n, pts, false)
			ctxs := s.name + " " + c15FamName[fam] + " t=" + I(t) + " N=" + I(n) + " pts=" + c15Pts(pts)
			c15HistShare(c, st, ctxs)
			c15HistAggregate(c, st, ctxs)
			c15HistAdditive(c, st, ctxs)
			c15HistGenPoly(c, st, ctxs)
			c15HistProtocol(c, st, ctxs)
		}
		c15HistEvalPoly(c, s)
		c15HistAggChain(c, s)
	}
}

// ---- GenShamirSecretShare into dirty receivers ----
func c15HistShare(c *Ctx, st *c15Setup, ctxs string) {
	s := st.s
	thr := multiparty.NewThresholdizer(s.params)
	// every share of the setup (fresh receivers) lies on its dealer's secret polynomial
	{
		detail := ""
		for i := 0; i < st.n && detail == ""; i++ {
			coeffs := c15PolyRows(st.gens[i].Value)
			for j := 0; j < st.n; j++ {
				if !c15EqRows(c15Rows(st.shares[i][j].Poly), c15RefHorner(s.ms, coeffs, uint64(st.pts[j]))) {
					detail = fmt.Sprintf("share of dealer %d for recipient %d (point %d) is not the value of the secret polynomial", i, j, uint64(st.pts[j]))
					break
				}
			}
		}
		c.Probe("share_on_polynomial", ctxs, "C15/GenShamirSecretShare/off-polynomial", detail)
	}
	for kind := c15DirtyPrev; kind < c15NDirty; kind++ {
		i := c.rng.Intn(st.n)
		gen := st.gens[i]
		before := c15PolyRows(gen.Value)
		buf := thr.AllocateThresholdSecretShare() // ONE buffer for all recipients
		// prime the buffer with a first call so that "prev" is a previous recipient's share
		thr.GenShamirSecretShare(st.pts[c.rng.Intn(st.n)], gen, &buf)
		order := c.c15Shuffle(c15Iota(st.n))
		detail := ""
		for oi, j := range order {
			c15Dirty(c, s.ms, buf.Poly, kind)
			recvBefore := c15M(buf.Poly)
			res := Try(func() string { thr.GenShamirSecretShare(st.pts[j], gen, &buf); return "ok" })
			if oi == 0 && res == "ok" && !probesOnly() {
				// tie: the model is given the receiver's previous content explicitly
				c.Emit("share_into "+s.ring()+" "+U(uint64(st.pts[j]))+" "+I(st.t)+" "+recvBefore+" "+c15PolyToks(gen), c15M(buf.Poly))
				c.Count("tie:share_into:" + c15DirtyName[kind])
			}
			if res != "ok" {
				detail = "GenShamirSecretShare " + res + " for recipient " + I(j)
				break
			}
			got := c15Rows(buf.Poly)
			ref := c15RefHorner(s.ms, before, uint64(st.pts[j]))
			fresh := c15Rows(st.shares[i][j].Poly)
			if !c15EqRows(got, fresh) {
				onPoly := "off"
				if c15EqRowsMod(s.ms, got, ref) {
					onPoly = "on (mod q)"
				}
				detail = fmt.Sprintf("share of dealer %d for recipient %d written into a %s receiver differs from the one written into a fresh receiver; it is %s the secret polynomial", i, j, c15DirtyName[kind], onPoly)
				break
			}
			if !c15EqCoeffs(c15PolyRows(gen.Value), before) {
				detail = "GenShamirSecretShare modified the Shamir polynomial"
				break
			}
		}
		c.Probe("dirty_share", ctxs+" dealer="+I(i)+" receiver="+c15DirtyName[kind]+" recipients="+IVec(order), "C15/GenShamirSecretShare/depends-on-receiver-content", detail)
	}
	// tie: a share written into a reused buffer, the model sees only the inputs
	if !probesOnly() {
		i := c.rng.Intn(st.n)
		buf := thr.AllocateThresholdSecretShare()
		thr.GenShamirSecretShare(st.pts[0], st.gens[i], &buf)
		j := c.rng.Intn(st.n)
		thr.GenShamirSecretShare(st.pts[j], st.gens[i], &buf)
		c.Emit("share "+s.ring()+" "+U(uint64(st.pts[j]))+" "+I(st.t)+" "+c15PolyToks(st.gens[i]), c15M(buf.Poly))
		c.Count("tie:share:reused_buffer")
	}
}

// ---- ringqp.Ring.EvalPolyScalar and ring.Ring.EvalPolyScalar themselves ----
func c15HistEvalPoly(c *Ctx, s c15Set) {
	reps := c.Scale(6, 30)
	rq := s.ringQP
	xs := []uint64{0, 1, 2, s.ms[0], s.ms[0] + 1, s.ms[len(s.ms)-1] - 1, 1 << 32, ^uint64(0), ^uint64(0) - 1}
	for rep := 0; rep < reps; rep++ {
		L := 1 + c.rng.Intn(7)
		x := c.rng.U64()
		if c.rng.Intn(2) == 0 {
			x = xs[c.rng.Intn(len(xs))]
		}
		kind := c.rng.Intn(c15NDirty)
		if kind == c15DirtyPrev {
			kind = c15DirtyJunk
		}
		// ringqp level
		{
			pol := make([]ringqp.Poly, L)
			for k := range pol {
				pol[k] = rq.NewPoly()
				c15Dirty(c, s.ms, pol[k], c15DirtyJunk)
				if c.rng.Intn(4) == 0 {
					c15Dirty(c, s.ms, pol[k], c15DirtyMax)
				}
			}
			before := c15PolyRows(pol)
			p3 := rq.NewPoly()
			c15Dirty(c, s.ms, p3, kind)
			detail := ""
			res := Try(func() string { rq.EvalPolyScalar(pol, x, p3); return "ok" })
			ref := c15RefHorner(s.ms, before, x)
			if res != "ok" {
				detail = "EvalPolyScalar " + res
			} else if !c15EqRows(c15Rows(p3), ref) {
				detail = fmt.Sprintf("result into a %s receiver differs from the reference Horner evaluation (degree %d, pt %d)", c15DirtyName[kind], L-1, x)
				p0 := rq.NewPoly()
				rq.EvalPolyScalar(pol, x, p0)
				if c15EqRows(c15Rows(p0), ref) {
					detail += "; into a zero receiver it agrees"
				}
			} else if !c15EqCoeffs(c15PolyRows(pol), before) {
				detail = "EvalPolyScalar modified its input polynomials"
			}
			c.Probe("dirty_evalpoly_qp", s.name+" deg="+I(L-1)+" pt="+U(x)+" receiver="+c15DirtyName[kind], "C15/ringqp.EvalPolyScalar/depends-on-receiver-content", detail)
		}
		// ring level (Q only), also at a lower level
		{
			rg := s.params.RingQ()
			lvl := c.rng.Intn(s.nq)
			rl := rg.AtLevel(lvl)
			ms := s.ms[:lvl+1]
			pol := make([]ring.Poly, L)
			coeffs := make([][][]uint64, L)
			for k := range pol {
				pol[k] = rl.NewPoly()
				for m := range pol[k].Coeffs {
					for w := range pol[k].Coeffs[m] {
						pol[k].Coeffs[m][w] = c.rng.Below(ms[m])
					}
				}
				coeffs[k] = c15CopyRows(pol[k].Coeffs)
			}
			p2 := rl.NewPoly()
			for m := range p2.Coeffs {
				for w := range p2.Coeffs[m] {
					switch kind {
					case c15DirtyJunk:
						p2.Coeffs[m][w] = c.rng.Below(ms[m])
					case c15DirtyMax:
						p2.Coeffs[m][w] = ms[m] - 1
					case c15DirtyWild:
						p2.Coeffs[m][w] = c.rng.U64()
					}
				}
			}
			detail := ""
			res := Try(func() string { rl.EvalPolyScalar(pol, x, p2); return "ok" })
			ref := c15RefHorner(ms, coeffs, x)
			if res != "ok" {
				detail = "EvalPolyScalar " + res
			} else if !c15EqRows(p2.Coeffs, ref) {
				detail = fmt.Sprintf("result into a %s receiver differs from the reference Horner evaluation (degree %d, pt %d, level %d)", c15DirtyName[kind], L-1, x, lvl)
			} else {
				for k := range pol {
					if !c15EqRows(pol[k].Coeffs, coeffs[k]) {
						detail = "EvalPolyScalar modified its input polynomials"
					}
				}
			}
			c.Probe("dirty_evalpoly", s.name+" level="+I(lvl)+" deg="+I(L-1)+" pt="+U(x)+" receiver="+c15DirtyName[kind], "C15/ring.EvalPolyScalar/depends-on-receiver-content", detail)
		}
	}
}

// ---- AggregateShares: dirty and aliased receivers ----
func c15HistAggregate(c *Ctx, st *c15Setup, ctxs string) {
	s := st.s
	thr := multiparty.NewThresholdizer(s.params)
	j := c.rng.Intn(st.n)
	i1, i2 := c.rng.Intn(st.n), c.rng.Intn(st.n)
	ra := c15CopyRows(c15Rows(st.shares[i1][j].Poly))
	rb := c15CopyRows(c15Rows(st.shares[i2][j].Poly))
	ref := func(x, y [][]uint64) [][]uint64 {
		out := make([][]uint64, len(x))
		for m := range x {
			out[m] = make([]uint64, len(x[m]))
			for w := range x[m] {
				out[m][w] = c15AddMod(x[m][w], y[m][w], s.ms[m])
			}
		}
		return out
	}
	newFrom := func(r [][]uint64) multiparty.ShamirSecretShare {
		sh := thr.AllocateThresholdSecretShare()
		rows := c15Rows(sh.Poly)
		for m := range rows {
			copy(rows[m], r[m])
		}
		return sh
	}
	type variant struct {
		name string
		run  func() (got [][]uint64, res string, inputsOK bool, want [][]uint64)
	}
	variants := []variant{}
	for kind := c15DirtyZero; kind < c15NDirty; kind++ {
		kind := kind
		if kind == c15DirtyPrev {
			continue
		}
		variants = append(variants, variant{"out=" + c15DirtyName[kind], func() ([][]uint64, string, bool, [][]uint64) {
			a, b, out := newFrom(ra), newFrom(rb), thr.AllocateThresholdSecretShare()
			c15Dirty(c, s.ms, out.Poly, kind)
			res := c15TryErr(func() error { return thr.AggregateShares(a, b, &out) })
			return c15Rows(out.Poly), res, c15EqRows(c15Rows(a.Poly), ra) && c15EqRows(c15Rows(b.Poly), rb), ref(ra, rb)
		}})
	}
	variants = append(variants,
		variant{"out==a", func() ([][]uint64, string, bool, [][]uint64) {
			a, b := newFrom(ra), newFrom(rb)
			res := c15TryErr(func() error { return thr.AggregateShares(a, b, &a) })
			return c15Rows(a.Poly), res, c15EqRows(c15Rows(b.Poly), rb), ref(ra, rb)
		}},
		variant{"out==b", func() ([][]uint64, string, bool, [][]uint64) {
			a, b := newFrom(ra), newFrom(rb)
			res := c15TryErr(func() error { return thr.AggregateShares(a, b, &b) })
			return c15Rows(b.Poly), res, c15EqRows(c15Rows(a.Poly), ra), ref(ra, rb)
		}},
		variant{"a==b", func() ([][]uint64, string, bool, [][]uint64) {
			a, out := newFrom(ra), thr.AllocateThresholdSecretShare()
			c15Dirty(c, s.ms, out.Poly, c15DirtyJunk)
			res := c15TryErr(func() error { return thr.AggregateShares(a, a, &out) })
			return c15Rows(out.Poly), res, c15EqRows(c15Rows(a.Poly), ra), ref(ra, ra)
		}},
		variant{"a==b==out", func() ([][]uint64, string, bool, [][]uint64) {
			a := newFrom(ra)
			res := c15TryErr(func() error { return thr.AggregateShares(a, a, &a) })
			return c15Rows(a.Poly), res, true, ref(ra, ra)
		}},
	)
	freshOK := true
	for vi, v := range variants {
		got, res, inOK, want := v.run()
		detail := ""
		key := "C15/AggregateShares/depends-on-receiver-content"
		if vi == 0 {
			freshOK = res == "ok" && c15EqRows(got, want)
		}
		if !freshOK {
			key = "C15/AggregateShares/wrong-sum" // already wrong into a zero receiver
		}
		switch {
		case res != "ok":
			detail = "AggregateShares returned " + res
		case !c15EqRows(got, want):
			detail = "aggregate differs from a+b mod q"
			if c15EqRowsMod(s.ms, got, want) {
				detail += " (equal modulo q, not canonical)"
			}
		case !inOK:
			detail = "AggregateShares modified an input share"
		}
		c.Probe("dirty_aggregate", ctxs+" party="+I(j)+" dealers="+I(i1)+","+I(i2)+" "+v.name, key, detail)
	}
}

// ---- AggregateShares: N maximal residues in a row (range of a lazily reduced accumulator) ----
func c15HistAggChain(c *Ctx, s c15Set) {
	thr := multiparty.NewThresholdizer(s.params)
	for _, n := range []int{2, 5, 6, 8, 16} {
		for _, kind := range []int{c15DirtyMax, c15DirtyJunk} {
			acc := thr.AllocateThresholdSecretShare()
			want := c15CopyRows(c15Rows(acc.Poly))
			detail := ""
			for i := 0; i < n && detail == ""; i++ {
				sh := thr.AllocateThresholdSecretShare()
				c15Dirty(c, s.ms, sh.Poly, kind)
				rs := c15Rows(sh.Poly)
				for m := range want {
					for w := range want[m] {
						want[m][w] = c15AddMod(want[m][w], rs[m][w], s.ms[m])
					}
				}
				if res := c15TryErr(func() error { return thr.AggregateShares(acc, sh, &acc) }); res != "ok" {
					detail = "AggregateShares returned " + res
				}
			}
			if detail == "" && !c15EqRowsMod(s.ms, c15Rows(acc.Poly), want) {
				detail = fmt.Sprintf("sum of %d shares (%s words) is wrong modulo q", n, c15DirtyName[kind])
			} else if detail == "" && !c15EqRows(c15Rows(acc.Poly), want) {
				detail = fmt.Sprintf("sum of %d shares (%s words) is not canonical", n, c15DirtyName[kind])
			}
			c.Probe("agg_chain", s.name+" shares="+I(n)+" words="+c15DirtyName[kind], "C15/AggregateShares/accumulation-range", detail)
		}
	}
}

// ---- GenAdditiveShare into dirty receivers, inputs unchanged, combiner reusable ----
func c15HistAdditive(c *Ctx, st *c15Setup, ctxs string) {
	s := st.s
	sub := c.c15Shuffle(c15Iota(st.n))[:st.t]
	ap := make([]multiparty.ShamirPublicPoint, len(sub))
	for k, a := range sub {
		ap[k] = st.pts[a]
	}
	apBefore := append([]multiparty.ShamirPublicPoint{}, ap...)
	i := sub[c.rng.Intn(len(sub))]
	fresh, res0 := st.additive(i, sub)
	shareBefore := c15CopyRows(c15Rows(st.tsks[i].Poly))
	for kind := c15DirtyJunk; kind < c15NDirty; kind++ {
		sk := rlwe.NewSecretKey(s.params)
		c15Dirty(c, s.ms, sk.Value, kind)
		// a few unrelated calls on the same combiner in between (history)
		for h := 0; h < 2; h++ {
			other := c.c15Shuffle(c15Iota(st.n))[:st.t]
			st.additive(i, other)
		}
		res := c15TryErr(func() error { return st.cmbs[i].GenAdditiveShare(ap, st.pts[i], st.tsks[i], sk) })
		detail := ""
		switch {
		case res != res0:
			detail = "GenAdditiveShare returned " + res + " into a dirty receiver, " + res0 + " into a fresh one"
		case res == "ok" && !c15EqRows(c15Rows(sk.Value), c15Rows(fresh)):
			detail = "additive share written into a " + c15DirtyName[kind] + " receiver differs from the one written into a fresh receiver"
		case !c15EqRows(c15Rows(st.tsks[i].Poly), shareBefore):
			detail = "GenAdditiveShare modified ownShare"
		}
		for k := range ap {
			if ap[k] != apBefore[k] {
				detail = "GenAdditiveShare modified activesPoints"
			}
		}
		c.Probe("dirty_additive", ctxs+" party="+I(i)+" actives="+IVec(sub)+" receiver="+c15DirtyName[kind], "C15/GenAdditiveShare/depends-on-receiver-content", detail)
	}
	// in place: skOut.Value is ownShare's polynomial
	{
		own := multiparty.ShamirSecretShare{Poly: *st.tsks[i].Poly.CopyNew()}
		sk := &rlwe.SecretKey{Value: own.Poly}
		res := c15TryErr(func() error { return st.cmbs[i].GenAdditiveShare(ap, st.pts[i], own, sk) })
		detail := ""
		if res != res0 {
			detail = "in place: returned " + res + ", " + res0 + " out of place"
		} else if res == "ok" && !c15EqRows(c15Rows(sk.Value), c15Rows(fresh)) {
			detail = "in place (skOut aliases ownShare): additive share differs from the out-of-place one"
		}
		c.Probe("dirty_additive", ctxs+" party="+I(i)+" actives="+IVec(sub)+" receiver=aliases_ownShare", "C15/GenAdditiveShare/depends-on-receiver-content", detail)
	}
	// refused call: the receiver must be left untouched
	if st.t >= 1 {
		sk := rlwe.NewSecretKey(s.params)
		c15Dirty(c, s.ms, sk.Value, c15DirtyJunk)
		before := c15CopyRows(c15Rows(sk.Value))
		res := c15TryErr(func() error { return st.cmbs[i].GenAdditiveShare(ap[:st.t-1], st.pts[i], st.tsks[i], sk) })
		detail := ""
		if res != "err" {
			detail = "GenAdditiveShare with t-1 active points returned " + res
		} else if !c15EqRows(c15Rows(sk.Value), before) {
			detail = "refused GenAdditiveShare wrote its receiver"
		}
		c.Probe("dirty_additive", ctxs+" party="+I(i)+" actives="+IVec(sub[:st.t-1])+" receiver=junk refused=too_few", "C15/GenAdditiveShare/depends-on-receiver-content", detail)
	}
}

// ---- GenShamirPolynomial copies the secret ----
func c15HistGenPoly(c *Ctx, st *c15Setup, ctxs string) {
	s := st.s
	thr := multiparty.NewThresholdizer(s.params)
	sk := rlwe.NewKeyGenerator(s.params).GenSecretKeyNew()
	skRows := c15CopyRows(c15Rows(sk.Value))
	gen, err := thr.GenShamirPolynomial(st.t, sk)
	detail := ""
	if err != nil {
		detail = "GenShamirPolynomial returned an error"
	} else {
		if len(gen.Value) != st.t {
			detail = fmt.Sprintf("Shamir polynomial has %d coefficients, want t=%d", len(gen.Value), st.t)
		} else if !c15EqRows(c15Rows(gen.Value[0]), skRows) {
			detail = "constant term is not the secret"
		} else {
			c15Dirty(c, s.ms, gen.Value[0], c15DirtyJunk)
			if !c15EqRows(c15Rows(sk.Value), skRows) {
				detail = "writing the polynomial's constant term changed the caller's secret key (aliased)"
			}
			copy2, _ := thr.GenShamirPolynomial(st.t, sk)
			c15Dirty(c, s.ms, sk.Value, c15DirtyJunk)
			if detail == "" && !c15EqRows(c15Rows(copy2.Value[0]), skRows) {
				detail = "writing the caller's secret key changed the polynomial's constant term (aliased)"
			}
			for k := 1; k < len(copy2.Value) && detail == ""; k++ {
				for m, row := range c15Rows(copy2.Value[k]) {
					for _, w := range row {
						if w >= s.ms[m] {
							detail = "sampled coefficient not reduced"
						}
					}
				}
			}
		}
	}
	c.Probe("genpoly_copy", ctxs, "C15/GenShamirPolynomial/aliases-secret", detail)
}

// ---- whole protocol with one buffer per role ----
func c15HistProtocol(c *Ctx, st *c15Setup, ctxs string) {
	s := st.s
	n, t := st.n, st.t
	thr := multiparty.NewThresholdizer(s.params)
	// dealers: ONE share buffer each, re-used for all recipients; the recipient gets a copy
	// ("sent" through MarshalBinary/UnmarshalBinary for odd dealers, CopyNew for even ones)
	recv := make([][]multiparty.ShamirSecretShare, n) // recv[j][i]
	for j := range recv {
		recv[j] = make([]multiparty.ShamirSecretShare, n)
	}
	detail := ""
	for i := 0; i < n && detail == ""; i++ {
		buf := thr.AllocateThresholdSecretShare()
		for _, j := range c.c15Shuffle(c15Iota(n)) {
			thr.GenShamirSecretShare(st.pts[j], st.gens[i], &buf)
			if i%2 == 1 {
				b, err := buf.MarshalBinary()
				sh := thr.AllocateThresholdSecretShare()
				if err != nil || sh.UnmarshalBinary(b) != nil {
					detail = "share serialisation failed"
					break
				}
				recv[j][i] = sh
			} else {
				recv[j][i] = multiparty.ShamirSecretShare{Poly: *buf.Poly.CopyNew()}
			}
		}
	}
	// parties: aggregate in place (out == accumulator), starting from the first received share
	tsks := make([]multiparty.ShamirSecretShare, n)
	for j := 0; j < n && detail == ""; j++ {
		order := c.c15Shuffle(c15Iota(n))
		acc := multiparty.ShamirSecretShare{Poly: *recv[j][order[0]].Poly.CopyNew()}
		for _, i := range order[1:] {
			var err error
			if c.rng.Intn(2) == 0 {
				err = thr.AggregateShares(acc, recv[j][i], &acc)
			} else {
				err = thr.AggregateShares(recv[j][i], acc, &acc)
			}
			if err != nil {
				detail = "AggregateShares returned an error"
			}
		}
		tsks[j] = acc
		if detail == "" && !c15EqRows(c15Rows(acc.Poly), c15Rows(st.tsks[j].Poly)) {
			detail = fmt.Sprintf("party %d: share aggregated from re-used buffers differs from the one from fresh buffers", j)
		}
	}
	// reconstruction: ONE output key re-used by all active parties, new combiners
	if detail == "" {
		sub := c.c15Shuffle(c15Iota(n))[:t]
		ap := make([]multiparty.ShamirPublicPoint, t)
		for k, a := range sub {
			ap[k] = st.pts[a]
		}
		out := rlwe.NewSecretKey(s.params)
		c15Dirty(c, s.ms, out.Value, c15DirtyJunk)
		sum := s.ringQP.NewPoly()
		for _, i := range sub {
			cmb := multiparty.NewCombiner(s.params, st.pts[i], st.pts, t)
			if res := c15TryErr(func() error { return cmb.GenAdditiveShare(ap, st.pts[i], tsks[i], out) }); res != "ok" {
				detail = "GenAdditiveShare returned " + res
				break
			}
			s.ringQP.Add(sum, out.Value, sum)
		}
		if detail == "" && !sum.Equal(&st.skIdeal) {
			detail = "additive shares derived with re-used buffers do not sum to the ideal secret key, subset " + IVec(sub)
		}
	}
	c.Probe("reconstruct_reused", ctxs, "C15/protocol/reused-buffers", detail)
}
