package main

// C19 — tie of the codec FIELD LISTS: for a literal / parameter object the ordered list of the JSON keys the real
// encoder writes (top level, and inside Xs / Xe / IterationsParameters), and which of them are `null`.
// The Lean model (`encodeRlweLit`, `encodeBtp`, `encodeBtpLit`, about which `rlweLit_roundtrip`, `btp_roundtrip`,
// `btpLit_roundtrip` are proved) must list exactly the same keys: an `omitempty` added or removed, a field
// added or dropped from a MarshalJSON, shows up as a tie mismatch.  Op `codec_keys type=… <fields>`.

import (
	"bytes"
	"encoding/json"
	"fmt"
	"strings"

	"github.com/tuneinsight/lattigo/v6/circuits/ckks/bootstrapping"
	"github.com/tuneinsight/lattigo/v6/circuits/ckks/mod1"
	"github.com/tuneinsight/lattigo/v6/core/rlwe"
	"github.com/tuneinsight/lattigo/v6/ring"
	"github.com/tuneinsight/lattigo/v6/schemes/ckks"
)

// c19JSONKeys returns the keys of a JSON object in emission order, the keys whose value is null, and the raw values.
func c19JSONKeys(b []byte) (keys, nulls []string, vals map[string]json.RawMessage) {
	vals = map[string]json.RawMessage{}
	dec := json.NewDecoder(bytes.NewReader(b))
	if t, err := dec.Token(); err != nil || t != json.Delim('{') {
		return nil, nil, vals
	}
	for dec.More() {
		t, err := dec.Token()
		if err != nil {
			break
		}
		k := t.(string)
		var raw json.RawMessage
		if err = dec.Decode(&raw); err != nil {
			break
		}
		keys = append(keys, k)
		vals[k] = raw
		if string(raw) == "null" {
			nulls = append(nulls, k)
		}
	}
	return
}

func c19J(v []string) string {
	if len(v) == 0 {
		return "-"
	}
	return strings.Join(v, ",")
}

func c19SubKeys(vals map[string]json.RawMessage, k string) string {
	raw, ok := vals[k]
	if !ok || string(raw) == "null" {
		return "-"
	}
	ks, _, _ := c19JSONKeys(raw)
	return c19J(ks)
}

type c19DistSpec struct {
	s string // nil | T:<p>:<h> | G:<s>:<b> | U   (float fields as 0 / 1: only zero-ness matters for the field list)
	d ring.DistributionParameters
}

var c19DistSpecs = []c19DistSpec{
	{"nil", nil}, {"T:0:8", ring.Ternary{H: 8}}, {"T:1:0", ring.Ternary{P: 0.5}}, {"T:0:0", ring.Ternary{}}, {"T:1:3", ring.Ternary{P: 0.5, H: 3}},
	{"G:1:1", ring.DiscreteGaussian{Sigma: 3.2, Bound: 19.2}}, {"G:1:0", ring.DiscreteGaussian{Sigma: 3.2}}, {"G:0:1", ring.DiscreteGaussian{Bound: 5}},
	{"G:0:0", ring.DiscreteGaussian{}}, {"U", ring.Uniform{}},
}

func c19PtrS(p *int) string {
	if p == nil {
		return "nil"
	}
	return I(*p)
}

func c19RowsS(m [][]int) string {
	if m == nil {
		return "nil"
	}
	if len(m) == 0 {
		return "-"
	}
	parts := make([]string, len(m))
	for i := range m {
		parts[i] = IVec(m[i])
	}
	return strings.Join(parts, ";")
}

func c19IterS(it *bootstrapping.IterationsParameters) string {
	if it == nil {
		return "nil"
	}
	pr := "nil"
	if it.BootstrappingPrecision != nil {
		pr = I(len(it.BootstrappingPrecision))
	}
	return pr + ":" + I(it.ReservedPrimeBitSize)
}

func c19CodecKeys(c *Ctx) {
	pick := func(n int) int { return c.rng.Intn(n) }
	u64s := [][]uint64{nil, {}, {97, 193}}
	ints := [][]int{nil, {}, {40, 30}}
	// rlwe.ParametersLiteral
	emitRlwe := func(l rlwe.ParametersLiteral, xs, xe string) {
		b, err := json.Marshal(l)
		out := "err"
		if err == nil {
			keys, _, vals := c19JSONKeys(b)
			out = fmt.Sprintf("keys=%s xs=%s xe=%s", c19J(keys), c19SubKeys(vals, "Xs"), c19SubKeys(vals, "Xe"))
		}
		ntt := 0
		if l.NTTFlag {
			ntt = 1
		}
		c.Emit(fmt.Sprintf("codec_keys type=rlweLit logN=%d root=%d Q=%s P=%s LogQ=%s LogP=%s xs=%s xe=%s rt=%d ntt=%d",
			l.LogN, l.LogNthRoot, c19OptVec(l.Q), c19OptVec(l.P), c19OptIVec(l.LogQ), c19OptIVec(l.LogP), xs, xe, int(l.RingType), ntt), out)
		c.Count("codec_keys:rlweLit")
	}
	base := rlwe.ParametersLiteral{LogN: 6}
	emitRlwe(base, "nil", "nil")
	for _, d := range c19DistSpecs {
		l := base
		l.Xs = d.d
		emitRlwe(l, d.s, "nil")
		l = base
		l.Xe = d.d
		emitRlwe(l, "nil", d.s)
	}
	for i := 0; i < c.Scale(60, 600); i++ {
		xs, xe := c19DistSpecs[pick(len(c19DistSpecs))], c19DistSpecs[pick(len(c19DistSpecs))]
		l := rlwe.ParametersLiteral{LogN: pick(3) * 5, LogNthRoot: pick(2) * 9, Q: u64s[pick(3)], P: u64s[pick(3)], LogQ: ints[pick(3)], LogP: ints[pick(3)],
			Xs: xs.d, Xe: xe.d, RingType: ring.Type(pick(2)), NTTFlag: pick(2) == 1}
		if pick(2) == 1 {
			l.DefaultScale = rlwe.NewScale(1 << 20)
		}
		emitRlwe(l, xs.s, xe.s)
	}
	// bootstrapping.Parameters
	logN := 9
	res, err := ckks.NewParametersFromLiteral(ckks.ParametersLiteral{LogN: logN, LogQ: []int{55, 40, 40}, LogP: []int{56}, LogDefaultScale: 40, Xs: ring.Ternary{H: 64}})
	if err != nil {
		panic(err)
	}
	btp, err := bootstrapping.NewParametersFromLiteral(res, bootstrapping.ParametersLiteral{LogN: &logN, LogP: []int{57}})
	if err != nil {
		panic(err)
	}
	iters := []*bootstrapping.IterationsParameters{nil, {}, {BootstrappingPrecision: []float64{}, ReservedPrimeBitSize: 0},
		{BootstrappingPrecision: []float64{20.5}, ReservedPrimeBitSize: 28}}
	for _, it := range iters {
		for _, eph := range []int{0, 5, 32} {
			for _, co := range []int{0, 1, 2} {
				p := btp
				p.IterationsParameters, p.EphemeralSecretWeight, p.CircuitOrder = it, eph, bootstrapping.CircuitOrder(co)
				out := "err"
				if b, e := p.MarshalJSON(); e == nil {
					keys, nulls, vals := c19JSONKeys(b)
					out = fmt.Sprintf("keys=%s nulls=%s it=%s", c19J(keys), c19J(nulls), c19SubKeys(vals, "IterationsParameters"))
				}
				c.Emit(fmt.Sprintf("codec_keys type=btp it=%s eph=%d co=%d", c19IterS(it), eph, co), out)
				c.Count("codec_keys:btp")
			}
		}
	}
	// bootstrapping.ParametersLiteral
	ptrs := func() *int {
		switch pick(3) {
		case 0:
			return nil
		case 1:
			z := 0
			return &z
		}
		v := 1 + pick(20)
		return &v
	}
	rows := [][][]int{nil, {}, {{56}, {56, 56}}}
	for i := 0; i < c.Scale(60, 600); i++ {
		xs, xe := c19DistSpecs[pick(len(c19DistSpecs))], c19DistSpecs[pick(len(c19DistSpecs))]
		l := bootstrapping.ParametersLiteral{LogN: ptrs(), LogP: ints[pick(3)], Xs: xs.d, Xe: xe.d, LogSlots: ptrs(),
			CoeffsToSlotsFactorizationDepthAndLogScales: rows[pick(3)], SlotsToCoeffsFactorizationDepthAndLogScales: rows[pick(3)],
			EvalModLogScale: ptrs(), EphemeralSecretWeight: ptrs(), IterationsParameters: iters[pick(len(iters))], Mod1Type: mod1.Type(pick(3)),
			LogMessageRatio: ptrs(), K: ptrs(), Mod1Degree: ptrs(), DoubleAngle: ptrs(), Mod1InvDegree: ptrs()}
		if i == 0 {
			l = bootstrapping.ParametersLiteral{}
			xs, xe = c19DistSpecs[0], c19DistSpecs[0]
		}
		out := "err"
		if b, e := json.Marshal(l); e == nil {
			keys, nulls, vals := c19JSONKeys(b)
			out = fmt.Sprintf("keys=%s nulls=%s xs=%s xe=%s it=%s", c19J(keys), c19J(nulls), c19SubKeys(vals, "Xs"), c19SubKeys(vals, "Xe"), c19SubKeys(vals, "IterationsParameters"))
		}
		c.Emit(fmt.Sprintf("codec_keys type=btpLit logN=%s logP=%s xs=%s xe=%s logSlots=%s c2s=%s s2c=%s ev=%s eph=%s it=%s m1t=%d lmr=%s k=%s md=%s da=%s mi=%s",
			c19PtrS(l.LogN), c19OptIVec(l.LogP), xs.s, xe.s, c19PtrS(l.LogSlots), c19RowsS(l.CoeffsToSlotsFactorizationDepthAndLogScales),
			c19RowsS(l.SlotsToCoeffsFactorizationDepthAndLogScales), c19PtrS(l.EvalModLogScale), c19PtrS(l.EphemeralSecretWeight),
			c19IterS(l.IterationsParameters), int(l.Mod1Type), c19PtrS(l.LogMessageRatio), c19PtrS(l.K), c19PtrS(l.Mod1Degree),
			c19PtrS(l.DoubleAngle), c19PtrS(l.Mod1InvDegree)), out)
		c.Count("codec_keys:btpLit")
	}
}
