package main

// C05 — missing-key contract: every bgv.Evaluator operation that needs an evaluation key, × every way of lacking it.
//
// Probe missing_key: the call must return a non-nil error (never nil + a result missing the key-switched term, never
// a panic) and leave its operands untouched.  Probe key_present: with the key in the set the same call returns nil
// and (relinearising ops, rotations) decrypts exactly.
//
//   needs the relinearisation key : MulRelin, MulRelinNew, MulRelinThenAdd, MulRelinScaleInvariant(+New), Relinearize(+New)
//   needs a Galois key            : RotateColumns(+New), RotateRows(+New), RotateHoistedLazyNew, InnerSum, RotateAndAdd, Replicate
//   takes the key as an argument  : ApplyEvaluationKey(+New) with a nil key
//   lacking = nil key set | set with Galois keys only | set with the rlk only | set with another Galois element |
//             full evaluator .WithKey(empty set) | .WithKey(Galois-only set)

import (
	"fmt"

	"github.com/tuneinsight/lattigo/v6/core/rlwe"
	"github.com/tuneinsight/lattigo/v6/schemes/bgv"
)

func (c *Ctx) c05MissingKey(s *c05Set) {
	L := len(s.qs) - 1
	t := s.t
	kgen := rlwe.NewKeyGenerator(s.params)
	gRow := s.params.GaloisElementForRowRotation()
	g1 := s.params.GaloisElementForColRotation(1)
	g2 := s.params.GaloisElementForColRotation(2)
	gkRow, gk1, gk2 := kgen.GenGaloisKeyNew(gRow, s.sk), kgen.GenGaloisKeyNew(g1, s.sk), kgen.GenGaloisKeyNew(g2, s.sk)
	var isKeys []*rlwe.GaloisKey
	for _, g := range s.params.GaloisElementsForInnerSum(1, s.n/2) {
		isKeys = append(isKeys, kgen.GenGaloisKeyNew(g, s.sk))
	}
	full := func() rlwe.EvaluationKeySet {
		return rlwe.NewMemEvaluationKeySet(s.rlk, append([]*rlwe.GaloisKey{gkRow, gk1, gk2}, isKeys...)...)
	}
	type lack struct {
		name   string
		mk     func(si bool) *bgv.Evaluator
		noRlk  bool
		noGal1 bool // lacks the key of a rotation by 1 / of the row swap / of the inner sum
	}
	lacks := []lack{
		{"nil-keyset", func(si bool) *bgv.Evaluator { return bgv.NewEvaluator(s.params, nil, si) }, true, true},
		{"galois-only", func(si bool) *bgv.Evaluator {
			return bgv.NewEvaluator(s.params, rlwe.NewMemEvaluationKeySet(nil, append([]*rlwe.GaloisKey{gkRow, gk1}, isKeys...)...), si)
		}, true, false},
		{"rlk-only", func(si bool) *bgv.Evaluator { return bgv.NewEvaluator(s.params, rlwe.NewMemEvaluationKeySet(s.rlk), si) }, false, true},
		{"other-galois-element", func(si bool) *bgv.Evaluator {
			return bgv.NewEvaluator(s.params, rlwe.NewMemEvaluationKeySet(s.rlk, gk2), si)
		}, false, true},
		{"withkey-empty", func(si bool) *bgv.Evaluator {
			return bgv.NewEvaluator(s.params, full(), si).WithKey(rlwe.NewMemEvaluationKeySet(nil))
		}, true, true},
		{"withkey-galois-only", func(si bool) *bgv.Evaluator {
			return bgv.NewEvaluator(s.params, full(), si).WithKey(rlwe.NewMemEvaluationKeySet(nil, append([]*rlwe.GaloisKey{gkRow, gk1}, isKeys...)...))
		}, true, false},
		{"present", func(si bool) *bgv.Evaluator { return bgv.NewEvaluator(s.params, full(), si) }, false, false},
		{"present-withkey", func(si bool) *bgv.Evaluator { return bgv.NewEvaluator(s.params, nil, si).WithKey(full()) }, false, false},
	}
	mulw := func(a, b []uint64) []uint64 {
		w := make([]uint64, len(a))
		for i := range a {
			w[i] = c05MulMod(a[i], b[i], t)
		}
		return w
	}
	half := s.n / 2
	rotCols := func(a []uint64, k int) []uint64 {
		w := make([]uint64, len(a))
		for i := 0; i < half; i++ {
			w[i] = a[(i+k)%half]
			w[half+i] = a[half+(i+k)%half]
		}
		return w
	}
	rotRows := func(a []uint64) []uint64 {
		w := make([]uint64, len(a))
		copy(w[:half], a[half:])
		copy(w[half:], a[:half])
		return w
	}
	evStd := s.evaluator(false, true)
	type opcase struct {
		name    string
		needRlk bool // else: needs the Galois key(s)
		siOnly  int  // 0 both modes, 1 only non-SI
		// run returns the result to decrypt (nil: no exactness check), the expected message, the operands to snapshot
		run func(ev *bgv.Evaluator, pre func(...*rlwe.Ciphertext)) (res *rlwe.Ciphertext, want []uint64, ops []*rlwe.Ciphertext, err error)
	}
	mk := func() *c05Reg { return c.c05NewCt(s, L, 1) }
	deg2 := func() *c05Reg {
		x, y := mk(), mk()
		r, err := evStd.MulNew(x.ct, y.ct)
		if err != nil {
			panic(err)
		}
		return &c05Reg{ct: r, want: mulw(x.want, y.want)}
	}
	cases := []opcase{
		{"MulRelin", true, 0, func(ev *bgv.Evaluator, pre func(...*rlwe.Ciphertext)) (*rlwe.Ciphertext, []uint64, []*rlwe.Ciphertext, error) {
			a, b := mk(), mk()
			out := bgv.NewCiphertext(s.params, 1, L)
			pre(a.ct, b.ct)
			err := ev.MulRelin(a.ct, b.ct, out)
			return out, mulw(a.want, b.want), []*rlwe.Ciphertext{a.ct, b.ct}, err
		}},
		{"MulRelinNew", true, 0, func(ev *bgv.Evaluator, pre func(...*rlwe.Ciphertext)) (*rlwe.Ciphertext, []uint64, []*rlwe.Ciphertext, error) {
			a, b := mk(), mk()
			pre(a.ct, b.ct)
			out, err := ev.MulRelinNew(a.ct, b.ct)
			return out, mulw(a.want, b.want), []*rlwe.Ciphertext{a.ct, b.ct}, err
		}},
		{"MulRelinThenAdd", true, 0, func(ev *bgv.Evaluator, pre func(...*rlwe.Ciphertext)) (*rlwe.Ciphertext, []uint64, []*rlwe.Ciphertext, error) {
			a, b, acc := mk(), mk(), mk()
			w := mulw(a.want, b.want)
			for i := range w {
				w[i] = (w[i] + acc.want[i]) % t
			}
			pre(a.ct, b.ct)
			err := ev.MulRelinThenAdd(a.ct, b.ct, acc.ct)
			return acc.ct, w, []*rlwe.Ciphertext{a.ct, b.ct}, err
		}},
		{"MulRelinScaleInvariant", true, 0, func(ev *bgv.Evaluator, pre func(...*rlwe.Ciphertext)) (*rlwe.Ciphertext, []uint64, []*rlwe.Ciphertext, error) {
			a, b := mk(), mk()
			out := bgv.NewCiphertext(s.params, 1, L)
			pre(a.ct, b.ct)
			err := ev.MulRelinScaleInvariant(a.ct, b.ct, out)
			return out, mulw(a.want, b.want), []*rlwe.Ciphertext{a.ct, b.ct}, err
		}},
		{"MulRelinScaleInvariantNew", true, 0, func(ev *bgv.Evaluator, pre func(...*rlwe.Ciphertext)) (*rlwe.Ciphertext, []uint64, []*rlwe.Ciphertext, error) {
			a, b := mk(), mk()
			pre(a.ct, b.ct)
			out, err := ev.MulRelinScaleInvariantNew(a.ct, b.ct)
			return out, mulw(a.want, b.want), []*rlwe.Ciphertext{a.ct, b.ct}, err
		}},
		{"Relinearize", true, 1, func(ev *bgv.Evaluator, pre func(...*rlwe.Ciphertext)) (*rlwe.Ciphertext, []uint64, []*rlwe.Ciphertext, error) {
			a := deg2()
			out := bgv.NewCiphertext(s.params, 1, L)
			pre(a.ct)
			err := ev.Relinearize(a.ct, out)
			return out, a.want, []*rlwe.Ciphertext{a.ct}, err
		}},
		{"RelinearizeNew", true, 1, func(ev *bgv.Evaluator, pre func(...*rlwe.Ciphertext)) (*rlwe.Ciphertext, []uint64, []*rlwe.Ciphertext, error) {
			a := deg2()
			pre(a.ct)
			out, err := ev.RelinearizeNew(a.ct)
			return out, a.want, []*rlwe.Ciphertext{a.ct}, err
		}},
		{"RotateColumns", false, 1, func(ev *bgv.Evaluator, pre func(...*rlwe.Ciphertext)) (*rlwe.Ciphertext, []uint64, []*rlwe.Ciphertext, error) {
			a := mk()
			out := bgv.NewCiphertext(s.params, 1, L)
			pre(a.ct)
			err := ev.RotateColumns(a.ct, 1, out)
			return out, rotCols(a.want, 1), []*rlwe.Ciphertext{a.ct}, err
		}},
		{"RotateColumnsNew", false, 1, func(ev *bgv.Evaluator, pre func(...*rlwe.Ciphertext)) (*rlwe.Ciphertext, []uint64, []*rlwe.Ciphertext, error) {
			a := mk()
			pre(a.ct)
			out, err := ev.RotateColumnsNew(a.ct, 1)
			return out, rotCols(a.want, 1), []*rlwe.Ciphertext{a.ct}, err
		}},
		{"RotateRows", false, 1, func(ev *bgv.Evaluator, pre func(...*rlwe.Ciphertext)) (*rlwe.Ciphertext, []uint64, []*rlwe.Ciphertext, error) {
			a := mk()
			out := bgv.NewCiphertext(s.params, 1, L)
			pre(a.ct)
			err := ev.RotateRows(a.ct, out)
			return out, rotRows(a.want), []*rlwe.Ciphertext{a.ct}, err
		}},
		{"RotateRowsNew", false, 1, func(ev *bgv.Evaluator, pre func(...*rlwe.Ciphertext)) (*rlwe.Ciphertext, []uint64, []*rlwe.Ciphertext, error) {
			a := mk()
			pre(a.ct)
			out, err := ev.RotateRowsNew(a.ct)
			return out, rotRows(a.want), []*rlwe.Ciphertext{a.ct}, err
		}},
		{"RotateHoistedLazyNew", false, 1, func(ev *bgv.Evaluator, pre func(...*rlwe.Ciphertext)) (*rlwe.Ciphertext, []uint64, []*rlwe.Ciphertext, error) {
			a := mk()
			ev.DecomposeNTT(L, s.params.MaxLevelP(), s.params.MaxLevelP()+1, a.ct.Value[1], a.ct.IsNTT, ev.BuffDecompQP)
			pre(a.ct)
			_, err := ev.RotateHoistedLazyNew(L, []int{1}, a.ct, ev.BuffDecompQP)
			return nil, nil, []*rlwe.Ciphertext{a.ct}, err
		}},
		{"InnerSum", false, 1, func(ev *bgv.Evaluator, pre func(...*rlwe.Ciphertext)) (*rlwe.Ciphertext, []uint64, []*rlwe.Ciphertext, error) {
			a := mk()
			out := bgv.NewCiphertext(s.params, 1, L)
			pre(a.ct)
			err := ev.InnerSum(a.ct, 1, s.n/2, out)
			return nil, nil, []*rlwe.Ciphertext{a.ct}, err
		}},
		{"RotateAndAdd", false, 1, func(ev *bgv.Evaluator, pre func(...*rlwe.Ciphertext)) (*rlwe.Ciphertext, []uint64, []*rlwe.Ciphertext, error) {
			a := mk()
			out := bgv.NewCiphertext(s.params, 1, L)
			pre(a.ct)
			err := ev.RotateAndAdd(a.ct, 1, s.n/2, out)
			return nil, nil, []*rlwe.Ciphertext{a.ct}, err
		}},
		{"Replicate", false, 1, func(ev *bgv.Evaluator, pre func(...*rlwe.Ciphertext)) (*rlwe.Ciphertext, []uint64, []*rlwe.Ciphertext, error) {
			a := mk()
			out := bgv.NewCiphertext(s.params, 1, L)
			pre(a.ct)
			err := ev.Replicate(a.ct, 1, 2, out)
			return nil, nil, []*rlwe.Ciphertext{a.ct}, err
		}},
	}
	for _, lk := range lacks {
		for _, si := range []bool{false, true} {
			for _, oc := range cases {
				if si && oc.siOnly == 1 {
					continue
				}
				lacking := oc.needRlk && lk.noRlk || !oc.needRlk && lk.noGal1
				if oc.name == "Replicate" && !lacking {
					continue // the keys of Replicate (negative rotations) are not in the full set: covered by C11
				}
				var res *rlwe.Ciphertext
				var want []uint64
				var ops []*rlwe.Ciphertext
				var snaps []string
				st := Try(func() string {
					ev := lk.mk(si)
					r, w, o, err := oc.run(ev, func(xs ...*rlwe.Ciphertext) {
						for _, x := range xs {
							snaps = append(snaps, c05Raw(x))
						}
					})
					res, want, ops = r, w, o
					if err != nil {
						return "err"
					}
					return "ok"
				})
				changed := ""
				for k, o := range ops {
					if k < len(snaps) && c05Raw(o) != snaps[k] {
						changed = fmt.Sprintf("operand %d changed", k)
					}
				}
				args := fmt.Sprintf("%s op=%s si=%v keys=%s status=%s", s.name, oc.name, si, lk.name, st)
				if lacking {
					detail := ""
					switch st {
					case "panic":
						detail = "panic"
					case "ok":
						detail = "nil error without the key"
						if res != nil && want != nil {
							detail += fmt.Sprintf("; result exact=%v", Vec(s.decodeCt(res)) == Vec(want))
						}
					}
					if detail == "" && changed != "" {
						detail = "error returned but " + changed
					}
					c.Probe("missing_key", args, "C05/missing-key-not-reported", detail)
				} else {
					detail := ""
					if st != "ok" {
						detail = st
					} else if res != nil && want != nil {
						if got := s.decodeCt(res); Vec(got) != Vec(want) {
							detail = fmt.Sprintf("wrong value slot0 got %d want %d", got[0], want[0])
						}
					}
					if detail == "" && changed != "" {
						detail = changed
					}
					c.Probe("key_present", args, "C05/key-present-wrong-result", detail)
				}
			}
		}
	}
	// ApplyEvaluationKey with a nil key
	for _, newv := range []bool{false, true} {
		a := mk()
		snap := c05Raw(a.ct)
		st := Try(func() string {
			var err error
			if newv {
				_, err = evStd.ApplyEvaluationKeyNew(a.ct, nil)
			} else {
				err = evStd.ApplyEvaluationKey(a.ct, nil, bgv.NewCiphertext(s.params, 1, L))
			}
			if err != nil {
				return "err"
			}
			return "ok"
		})
		detail := ""
		if st != "err" {
			detail = st
		} else if c05Raw(a.ct) != snap {
			detail = "operand changed"
		}
		c.Probe("missing_key", fmt.Sprintf("%s op=ApplyEvaluationKey new=%v keys=nil-argument status=%s", s.name, newv, st), "C05/nil-evaluation-key-argument", detail)
	}
}
