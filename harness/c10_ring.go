package main

// C10, ring layer: ring.BasisExtender.ShallowCopy on ALL operations and level pairs, the ring.Decomposer
// shared by pointer between evaluator copies (must be read-only), and the samplers' AtLevel / WithPRNG
// (differential with keyed PRNGs: same key => same stream).
//
//   copy_behaves_same/ring.BasisExtender.ShallowCopy[all-ops]   five operations, every (levelQ, levelP)
//   copy_independent/ring.BasisExtender.ShallowCopy[all-ops]    the original's buffers / tables / results
//   shared_is_readonly/ring.Decomposer                          content hash before / after use
//   copy_behaves_same/<sampler ctor>                            level views and re-seeded copies
//   view_shares_stream/<sampler>.AtLevel                        exact characterisation of the shared stream
//   copy_independent/<sampler ctor>                             stream of the original unaffected (WithPRNG)

import (
	"encoding/binary"
	"fmt"
	"os"
	"path/filepath"
	"regexp"
	"strings"
	"sync"

	"github.com/tuneinsight/lattigo/v6/core/rlwe"
	"github.com/tuneinsight/lattigo/v6/ring"
	"github.com/tuneinsight/lattigo/v6/ring/ringqp"
	"github.com/tuneinsight/lattigo/v6/schemes/bgv"
	"github.com/tuneinsight/lattigo/v6/utils/sampling"
)

// c10Tie emits the classification line of a copy against its original.
func c10Tie(c *Ctx, name string, orig, cp interface{}) {
	c10Register(name)
	c.Emit("table "+name, strings.Join(c10Classify(orig, cp), ","))
	c.Count("type:" + name)
}

// c10P runs f (which returns "" when the predicate holds) and emits the probe; a panic is a failure.
func c10P(c *Ctx, name, args, key string, f func() string) {
	d := Try(f)
	c.Probe(name, args, key, d)
}

// c10DocSaysNotConcurrent reads the doc comment of the function whose declaration starts with `decl` in the
// source under test and reports whether it warns against concurrent use / announces shared state.
func c10DocSaysNotConcurrent(file, decl string) bool {
	b, err := os.ReadFile(filepath.Join(repoPath(), file))
	if err != nil {
		return false
	}
	lines := strings.Split(string(b), "\n")
	for i, l := range lines {
		if !strings.HasPrefix(l, decl) {
			continue
		}
		doc := ""
		for j := i - 1; j >= 0 && strings.HasPrefix(lines[j], "//"); j-- {
			doc = strings.ToLower(lines[j]) + " " + doc
		}
		return regexp.MustCompile(`(cannot|can't|must not|not) be used concurrently|not thread[- ]safe|not safe for concurrent`).MatchString(doc)
	}
	return false
}

// c10Parallel runs work(g) in G goroutines (each on its own copy, made by the caller BEFORE the goroutines start)
// `reps` times and emits parallel_equals_sequential/<name>: every result must equal `want`.
func c10Parallel(c *Ctx, name string, G, reps int, want string, work func(g int) string) {
	res := make([]string, G)
	var wg sync.WaitGroup
	for g := 0; g < G; g++ {
		g := g
		wg.Add(1)
		go func() {
			defer wg.Done()
			res[g] = Try(func() string {
				out := want
				for it := 0; it < reps; it++ {
					if r := work(g); r != want {
						out = r
					}
				}
				return out
			})
		}()
	}
	wg.Wait()
	d := ""
	for g := range res {
		if res[g] != want {
			d = fmt.Sprintf("goroutine-%d-differs", g)
		}
	}
	c.Probe("parallel_equals_sequential/"+name, fmt.Sprintf("G=%d", G), "C10-parallel-"+name, d)
}

func c10RandPoly(c *Ctx, r *ring.Ring) ring.Poly {
	p := r.NewPoly()
	for i, s := range r.SubRings[:r.Level()+1] {
		for j := range p.Coeffs[i] {
			p.Coeffs[i][j] = c.rng.Below(s.Modulus)
		}
	}
	return p
}

func c10EqRows(a, b [][]uint64) bool {
	if len(a) != len(b) {
		return false
	}
	for i := range a {
		if len(a[i]) != len(b[i]) {
			return false
		}
		for j := range a[i] {
			if a[i][j] != b[i][j] {
				return false
			}
		}
	}
	return true
}

func c10Ring(c *Ctx) {
	bp, err := bgv.NewParametersFromLiteral(bgv.ParametersLiteral{LogN: 5, LogQ: []int{45, 40, 40, 40}, LogP: []int{50, 50}, PlaintextModulus: 65537})
	if err != nil {
		panic(err)
	}
	rp := bp.GetRLWEParameters()
	rQ, rP := rp.RingQ(), rp.RingP()
	c10BasisExtender(c, rQ, rP)
	c10Decomposer(c, bp)
	c10Samplers(c, rQ, rP)
}

// ---------------------------------------------------------------- BasisExtender

// c10BEOps runs the five operations at (lq, lp) on fixed inputs and returns one hash per operation.
// Output polynomials are pre-filled with a marker so that limbs an operation does not write compare equal.
func c10BEOps(be *ring.BasisExtender, rQ, rP *ring.Ring, lq, lp int, inQ, inP ring.Poly) []string {
	mark := func(p ring.Poly) ring.Poly {
		for i := range p.Coeffs {
			for j := range p.Coeffs[i] {
				p.Coeffs[i][j] = 0x7777
			}
		}
		return p
	}
	var out []string
	iq, ip := *inQ.CopyNew(), *inP.CopyNew()
	{
		o := mark(rP.NewPoly())
		be.ModUpQtoP(lq, lp, iq, o)
		out = append(out, deepHash(&o))
	}
	{
		o := mark(rQ.NewPoly())
		be.ModUpPtoQ(lp, lq, ip, o)
		out = append(out, deepHash(&o))
	}
	{
		o := mark(rQ.NewPoly())
		be.ModDownQPtoQ(lq, lp, iq, ip, o)
		out = append(out, deepHash(&o))
	}
	{
		o := mark(rQ.NewPoly())
		be.ModDownQPtoQNTT(lq, lp, iq, ip, o)
		out = append(out, deepHash(&o))
	}
	{
		o := mark(rP.NewPoly())
		be.ModDownQPtoP(lq, lp, iq, ip, o)
		out = append(out, deepHash(&o))
	}
	// the operations read their inputs only
	if !iq.Equal(&inQ) || !ip.Equal(&inP) {
		out = append(out, "input-clobbered")
	}
	return out
}

var c10BENames = []string{"ModUpQtoP", "ModUpPtoQ", "ModDownQPtoQ", "ModDownQPtoQNTT", "ModDownQPtoP", "inputs"}

func c10BasisExtender(c *Ctx, rQ, rP *ring.Ring) {
	name := "ring.BasisExtender.ShallowCopy"
	orig := ring.NewBasisExtender(rQ, rP)
	cp := orig.ShallowCopy()
	// a copy of a copy, and a copy made AFTER the original has been used (dirty buffers)
	inQ, inP := c10RandPoly(c, rQ), c10RandPoly(c, rP)
	_ = c10BEOps(orig, rQ, rP, rQ.MaxLevel(), rP.MaxLevel(), inQ, inP)
	cp2 := orig.ShallowCopy().ShallowCopy()
	independent := ""
	for lq := 0; lq <= rQ.MaxLevel(); lq++ {
		for lp := 0; lp <= rP.MaxLevel(); lp++ {
			lq, lp := lq, lp
			args := fmt.Sprintf("lq=%d,lp=%d", lq, lp)
			c.Count("basisextender-level-pair")
			c10P(c, "copy_behaves_same/"+name+"[all-ops]", args, "C10-behaves-"+name, func() string {
				inQ, inP := c10RandPoly(c, rQ), c10RandPoly(c, rP)
				r1 := c10BEOps(orig, rQ, rP, lq, lp, inQ, inP)
				h := deepHash(orig)
				// the copies first work on OTHER inputs (the same inputs would leave the same scratch content
				// behind, and a shared buffer would go unnoticed)
				c10BEOps(cp, rQ, rP, lq, lp, c10RandPoly(c, rQ), c10RandPoly(c, rP))
				c10BEOps(cp2, rQ, rP, lq, lp, c10RandPoly(c, rQ), c10RandPoly(c, rP))
				if deepHash(orig) != h {
					independent += args + " "
				}
				r2 := c10BEOps(cp, rQ, rP, lq, lp, inQ, inP)
				r3 := c10BEOps(cp2, rQ, rP, lq, lp, inQ, inP)
				r4 := c10BEOps(orig, rQ, rP, lq, lp, inQ, inP) // the original again, after the copies were used
				var bad []string
				for k := range r1 {
					if k >= len(r2) || k >= len(r3) || k >= len(r4) || r1[k] != r2[k] || r1[k] != r3[k] || r1[k] != r4[k] {
						bad = append(bad, c10BENames[k])
					}
				}
				if len(r2) != len(r1) || len(r3) != len(r1) {
					bad = append(bad, "inputs")
				}
				if len(bad) > 0 {
					return "differs:" + strings.Join(bad, ",")
				}
				return ""
			})
		}
	}
	if independent != "" {
		independent = "original-changed-at " + strings.TrimSpace(independent)
	}
	c.Probe("copy_independent/"+name+"[all-ops]", "-", "C10-independent-"+name, independent)
	if c.Thorough() {
		inQ, inP := c10RandPoly(c, rQ), c10RandPoly(c, rP)
		all := func(be *ring.BasisExtender) string {
			var sb strings.Builder
			for lq := 0; lq <= rQ.MaxLevel(); lq++ {
				for lp := 0; lp <= rP.MaxLevel(); lp++ {
					sb.WriteString(strings.Join(c10BEOps(be, rQ, rP, lq, lp, inQ, inP), ","))
				}
			}
			return sb.String()
		}
		want := all(orig)
		for _, G := range []int{2, 8, 16} {
			cps := make([]*ring.BasisExtender, G)
			for g := range cps {
				cps[g] = orig.ShallowCopy()
			}
			cps[0] = orig // the original takes part
			c10Parallel(c, name, G, 10, want, func(g int) string { return all(cps[g]) })
		}
	}
}

// ---------------------------------------------------------------- Decomposer

func c10Decomposer(c *Ctx, bp bgv.Parameters) {
	rp := bp.GetRLWEParameters()
	rQ, rP := rp.RingQ(), rp.RingP()
	kgen := rlwe.NewKeyGenerator(bp)
	sk := kgen.GenSecretKeyNew()
	gal := rp.GaloisElement(1)
	evk := rlwe.NewMemEvaluationKeySet(kgen.GenRelinearizationKeyNew(sk), kgen.GenGaloisKeyNew(gal, sk))
	// keys at a lower (levelQ, levelP) as well: another row of the decomposer's tables
	lowQ, lowP := 1, 0
	evkLow := rlwe.NewMemEvaluationKeySet(nil, kgen.GenGaloisKeyNew(gal, sk, rlwe.EvaluationKeyParameters{LevelQ: &lowQ, LevelP: &lowP}))
	orig := rlwe.NewEvaluator(bp, evk)
	cp := orig.ShallowCopy()
	d := ""
	if orig.Decomposer != cp.Decomposer {
		d = "not-shared(the table row says sharedRO) "
	}
	dec := orig.Decomposer
	h0 := deepHash(dec)
	// (1) direct calls at every level pair and every digit
	for lq := 0; lq <= rQ.MaxLevel(); lq++ {
		for lp := 0; lp <= rP.MaxLevel(); lp++ {
			nbPi := lp + 1
			digits := rp.BaseRNSDecompositionVectorSize(lq, lp)
			in := c10RandPoly(c, rQ.AtLevel(lq))
			for i := 0; i < digits; i++ {
				oq, op := rQ.NewPoly(), rP.NewPoly()
				dec.DecomposeAndSplit(lq, lp, nbPi, i, in, oq, op)
				c.Count("decomposer-call")
			}
			if deepHash(dec) != h0 {
				d += fmt.Sprintf("changed-by-DecomposeAndSplit(lq=%d,lp=%d) ", lq, lp)
				h0 = deepHash(dec)
			}
		}
	}
	// (2) through the evaluators sharing it: key switching on the original, the copy and a re-keyed evaluator
	for lvl := 0; lvl <= rp.MaxLevel(); lvl++ {
		ct := rlwe.NewCiphertext(bp, 1, lvl)
		ct.IsNTT = true
		ct.Value[0].Copy(c10RandPoly(c, rQ.AtLevel(lvl)))
		ct.Value[1].Copy(c10RandPoly(c, rQ.AtLevel(lvl)))
		for k, ev := range []*rlwe.Evaluator{orig, cp, cp.WithKey(evkLow)} {
			if k == 2 && lvl > lowQ {
				continue
			}
			out := rlwe.NewCiphertext(bp, 1, lvl)
			if err := ev.Automorphism(ct, gal, out); err != nil {
				d += fmt.Sprintf("automorphism-error(level=%d,evaluator=%d) ", lvl, k)
			}
			if k < 2 {
				ct2 := rlwe.NewCiphertext(bp, 2, lvl)
				ct2.IsNTT = true
				for i := range ct2.Value {
					ct2.Value[i].Copy(c10RandPoly(c, rQ.AtLevel(lvl)))
				}
				if err := ev.Relinearize(ct2, out); err != nil {
					d += fmt.Sprintf("relinearize-error(level=%d,evaluator=%d) ", lvl, k)
				}
			}
		}
		if deepHash(dec) != h0 {
			d += fmt.Sprintf("changed-by-key-switch(level=%d) ", lvl)
			h0 = deepHash(dec)
		}
	}
	c.Probe("shared_is_readonly/ring.Decomposer", "-", "C10-readonly-ring.Decomposer", strings.TrimSpace(d))
}

// ---------------------------------------------------------------- samplers

// c10RefUniform is an independent re-implementation of the byte discipline of ring.UniformSampler: one FIFO of
// 1024-byte blocks of the PRNG, 8-byte big-endian words masked to the bit length of the modulus, rejection.
// `limbs` is the sequence of moduli (with their masks) to draw, N coefficients each.
type c10RefU struct {
	prng sampling.PRNG
	buf  []byte
	ptr  int
}

func newC10RefU(prng sampling.PRNG) *c10RefU { return &c10RefU{prng: prng, buf: make([]byte, 1024)} }

func (r *c10RefU) limb(q, mask uint64, N int) []uint64 {
	out := make([]uint64, N)
	for i := 0; i < N; i++ {
		for {
			if r.ptr == 0 || r.ptr == len(r.buf) {
				if _, err := r.prng.Read(r.buf); err != nil {
					panic(err)
				}
				r.ptr = 0
			}
			x := binary.BigEndian.Uint64(r.buf[r.ptr:r.ptr+8]) & mask
			r.ptr += 8
			if x < q {
				out[i] = x
				break
			}
		}
	}
	return out
}

func (r *c10RefU) poly(rg *ring.Ring, level int) [][]uint64 {
	var rows [][]uint64
	for _, s := range rg.SubRings[:level+1] {
		rows = append(rows, r.limb(s.Modulus, s.Mask, rg.N()))
	}
	return rows
}

func c10Samplers(c *Ctx, rQ, rP *ring.Ring) {
	L := rQ.MaxLevel()
	gauss := ring.DiscreteGaussian{Sigma: 3.2, Bound: 19}

	// ---------- ring.UniformSampler
	{
		name := "ring.UniformSampler.AtLevel"
		for lvl := 0; lvl <= L; lvl++ {
			lvl := lvl
			c10P(c, "copy_behaves_same/"+name, fmt.Sprintf("level=%d", lvl), "C10-behaves-"+name, func() string {
				full := ring.NewUniformSampler(c10Keyed(31), rQ).ReadNew()
				view := ring.NewUniformSampler(c10Keyed(31), rQ).AtLevel(lvl).ReadNew()
				direct := ring.NewUniformSampler(c10Keyed(31), rQ.AtLevel(lvl)).ReadNew()
				ref := newC10RefU(c10Keyed(31)).poly(rQ, lvl)
				switch {
				case view.Level() != lvl:
					return fmt.Sprintf("view-level=%d", view.Level())
				case !c10EqRows(view.Coeffs, full.Coeffs[:lvl+1]):
					return "view-differs-from-full-level-read-on-common-limbs"
				case !c10EqRows(view.Coeffs, direct.Coeffs):
					return "view-differs-from-sampler-built-at-that-level"
				case !c10EqRows(view.Coeffs, ref):
					return "view-differs-from-reference-stream"
				}
				return ""
			})
		}
		// exact characterisation of the sharing: original and views consume ONE stream (PRNG and block buffer
		// with its read pointer are shared): any interleaving of reads equals the reference FIFO
		c10P(c, "view_shares_stream/"+name, "-", "C10-stream-"+name, func() string {
			o := ring.NewUniformSampler(c10Keyed(32), rQ)
			ref := newC10RefU(c10Keyed(32))
			views := map[int]ring.Sampler{}
			for step := 0; step < 24; step++ {
				lvl := c.rng.Intn(L + 2) // L+1 = the original itself
				var got ring.Poly
				if lvl == L+1 {
					lvl = L
					got = o.ReadNew()
				} else {
					if views[lvl] == nil || c.rng.Intn(3) == 0 {
						views[lvl] = o.AtLevel(lvl)
					}
					got = views[lvl].ReadNew()
				}
				if !c10EqRows(got.Coeffs, ref.poly(rQ, lvl)) {
					return fmt.Sprintf("step-%d-level-%d-differs-from-the-single-stream", step, lvl)
				}
			}
			// a view of a view is a view of the original
			vv := o.AtLevel(2).AtLevel(1).ReadNew()
			if !c10EqRows(vv.Coeffs, ref.poly(rQ, 1)) {
				return "view-of-view-differs"
			}
			return ""
		})
		name = "ring.UniformSampler.WithPRNG"
		c10P(c, "copy_behaves_same/"+name, "-", "C10-behaves-"+name, func() string {
			o := ring.NewUniformSampler(c10Keyed(33), rQ)
			o.ReadNew() // a used original (non-zero pointer, filled buffer)
			x := o.WithPRNG(c10Keyed(34))
			fresh := ring.NewUniformSampler(c10Keyed(34), rQ)
			ref := newC10RefU(c10Keyed(34))
			for k := 0; k < 3; k++ {
				a, b := x.ReadNew(), fresh.ReadNew()
				if !a.Equal(&b) {
					return fmt.Sprintf("read-%d-differs-from-fresh-sampler-on-that-PRNG", k)
				}
				if !c10EqRows(a.Coeffs, ref.poly(rQ, L)) {
					return fmt.Sprintf("read-%d-differs-from-reference-stream", k)
				}
			}
			// the level of a view is kept
			v := o.AtLevel(1).(*ring.UniformSampler).WithPRNG(c10Keyed(35)).ReadNew()
			w := ring.NewUniformSampler(c10Keyed(35), rQ.AtLevel(1)).ReadNew()
			if v.Level() != 1 || !v.Equal(&w) {
				return "WithPRNG-of-a-level-view-differs"
			}
			return ""
		})
		c10P(c, "copy_independent/"+name+"[stream]", "-", "C10-independent-"+name, func() string {
			o := ring.NewUniformSampler(c10Keyed(36), rQ)
			ref := newC10RefU(c10Keyed(36))
			a := o.ReadNew()
			x := o.WithPRNG(c10Keyed(37))
			x.ReadNew()
			x.AtLevel(0).ReadNew()
			b := o.ReadNew()
			if !c10EqRows(a.Coeffs, ref.poly(rQ, L)) || !c10EqRows(b.Coeffs, ref.poly(rQ, L)) {
				return "stream-of-the-original-disturbed"
			}
			return ""
		})
	}

	// ---------- ring.GaussianSampler / ring.TernarySampler: randomness is consumed coefficient-major, so the
	// stream position does not depend on the level: reads through views are the reads of ONE sampler
	type mk func(prng sampling.PRNG) ring.Sampler
	kinds := []struct {
		name string
		mk   mk
	}{
		{"ring.GaussianSampler.AtLevel", func(p sampling.PRNG) ring.Sampler { return ring.NewGaussianSampler(p, rQ, gauss, false) }},
		{"ring.GaussianSampler.AtLevel[montgomery]", func(p sampling.PRNG) ring.Sampler { return ring.NewGaussianSampler(p, rQ, gauss, true) }},
		{"ring.TernarySampler.AtLevel", func(p sampling.PRNG) ring.Sampler {
			s, err := ring.NewTernarySampler(p, rQ, ring.Ternary{P: 0.5}, false)
			must(err)
			return s
		}},
		{"ring.TernarySampler.AtLevel[P=1/3]", func(p sampling.PRNG) ring.Sampler {
			s, err := ring.NewTernarySampler(p, rQ, ring.Ternary{P: 1.0 / 3}, false)
			must(err)
			return s
		}},
		{"ring.TernarySampler.AtLevel[H]", func(p sampling.PRNG) ring.Sampler {
			s, err := ring.NewTernarySampler(p, rQ, ring.Ternary{H: 8}, false)
			must(err)
			return s
		}},
		{"ring.TernarySampler.AtLevel[montgomery]", func(p sampling.PRNG) ring.Sampler {
			s, err := ring.NewTernarySampler(p, rQ, ring.Ternary{H: 8}, true)
			must(err)
			return s
		}},
	}
	for ki, kd := range kinds {
		kd := kd
		key := byte(40 + 2*ki)
		if strings.Contains(kd.name, "[") { // the un-bracketed rows are tied by the case table of c10.go
			o := kd.mk(c10Keyed(key))
			c10Tie(c, kd.name, o, o.AtLevel(1))
		}
		for lvl := 0; lvl <= L; lvl++ {
			lvl := lvl
			c10P(c, "copy_behaves_same/"+kd.name, fmt.Sprintf("level=%d", lvl), "C10-behaves-"+kd.name, func() string {
				full := kd.mk(c10Keyed(key)).ReadNew()
				view := kd.mk(c10Keyed(key)).AtLevel(lvl).ReadNew()
				if view.Level() != lvl {
					return fmt.Sprintf("view-level=%d", view.Level())
				}
				if !c10EqRows(view.Coeffs, full.Coeffs[:lvl+1]) {
					return "view-differs-from-full-level-read-on-common-limbs"
				}
				// ReadAndAdd through the view = Read + addition
				acc := c10RandPoly(c, rQ.AtLevel(lvl))
				want := rQ.AtLevel(lvl).NewPoly()
				rQ.AtLevel(lvl).Add(acc, view, want)
				kd.mk(c10Keyed(key)).AtLevel(lvl).ReadAndAdd(acc)
				if !acc.Equal(&want) {
					return "ReadAndAdd-through-view-differs"
				}
				return ""
			})
		}
		c10P(c, "view_shares_stream/"+kd.name, "-", "C10-stream-"+kd.name, func() string {
			o, ref := kd.mk(c10Keyed(key+1)), kd.mk(c10Keyed(key+1))
			views := map[int]ring.Sampler{}
			for step := 0; step < 16; step++ {
				lvl := c.rng.Intn(L + 2)
				var got ring.Poly
				if lvl == L+1 {
					lvl = L
					got = o.ReadNew()
				} else {
					if views[lvl] == nil || c.rng.Intn(3) == 0 {
						views[lvl] = o.AtLevel(lvl)
					}
					got = views[lvl].ReadNew()
				}
				want := ref.ReadNew() // ONE sampler, always at full level
				if !c10EqRows(got.Coeffs, want.Coeffs[:lvl+1]) {
					return fmt.Sprintf("step-%d-level-%d-differs-from-the-single-stream", step, lvl)
				}
			}
			return ""
		})
	}

	// ---------- ringqp
	rQP := ringqp.Ring{RingQ: rQ, RingP: rP}
	{
		name := "ringqp.Ring.AtLevel"
		v := rQP.AtLevel(1, 0)
		c10Tie(c, name, &rQP, &v)
		c10P(c, "copy_behaves_same/"+name, "-", "C10-behaves-"+name, func() string {
			for lq := -1; lq <= L; lq++ {
				for lp := -1; lp <= rP.MaxLevel(); lp++ {
					v := rQP.AtLevel(lq, lp)
					if (v.RingQ == nil) != (lq < 0) || (v.RingP == nil) != (lp < 0) {
						return fmt.Sprintf("nil-ness(lq=%d,lp=%d)", lq, lp)
					}
					if v.LevelQ() != lq || v.LevelP() != lp {
						return fmt.Sprintf("levels(%d,%d)!=(%d,%d)", v.LevelQ(), v.LevelP(), lq, lp)
					}
					if lq < 0 || lp < 0 {
						continue
					}
					// an operation through the view = the operation of the two rings at these levels
					a := ringqp.Poly{Q: c10RandPoly(c, rQ.AtLevel(lq)), P: c10RandPoly(c, rP.AtLevel(lp))}
					b := ringqp.Poly{Q: c10RandPoly(c, rQ.AtLevel(lq)), P: c10RandPoly(c, rP.AtLevel(lp))}
					o1, o2 := v.NewPoly(), v.NewPoly()
					v.MulCoeffsMontgomery(a, b, o1)
					rQ.AtLevel(lq).MulCoeffsMontgomery(a.Q, b.Q, o2.Q)
					rP.AtLevel(lp).MulCoeffsMontgomery(a.P, b.P, o2.P)
					if !o1.Equal(&o2) {
						return fmt.Sprintf("mul-differs(lq=%d,lp=%d)", lq, lp)
					}
				}
			}
			return ""
		})
		c10P(c, "copy_independent/"+name, "-", "C10-independent-"+name, func() string {
			h := deepHash(&rQP)
			v := rQP.AtLevel(1, 0)
			p := v.NewPoly()
			v.NTT(p, p)
			if deepHash(&rQP) != h {
				return "original-changed"
			}
			return ""
		})
	}
	{
		name := "ringqp.UniformSampler.AtLevel"
		o := ringqp.NewUniformSampler(c10Keyed(60), rQP)
		v := o.AtLevel(1, 0)
		c10Tie(c, name, &o, &v)
		c10P(c, "copy_behaves_same/"+name, "-", "C10-behaves-"+name, func() string {
			for lq := 0; lq <= L; lq++ {
				for lp := -1; lp <= rP.MaxLevel(); lp++ {
					full := ringqp.NewUniformSampler(c10Keyed(61), rQP).ReadNew()
					view := ringqp.NewUniformSampler(c10Keyed(61), rQP).AtLevel(lq, lp).ReadNew()
					if !c10EqRows(view.Q.Coeffs, full.Q.Coeffs[:lq+1]) {
						return fmt.Sprintf("Q-part-differs(lq=%d,lp=%d)", lq, lp)
					}
					// the Q and the P sampler have their own block buffers over the SAME PRNG object: the P part
					// starts at the block following the blocks the Q part consumed, hence depends on levelQ;
					// compare with the two ring samplers built the same way at these levels
					if lp >= 0 {
						pr := c10Keyed(61)
						sq, sp := ring.NewUniformSampler(pr, rQ.AtLevel(lq)), ring.NewUniformSampler(pr, rP.AtLevel(lp))
						wq := sq.ReadNew()
						wp := sp.ReadNew()
						if !c10EqRows(view.Q.Coeffs, wq.Coeffs) || !c10EqRows(view.P.Coeffs, wp.Coeffs) {
							return fmt.Sprintf("differs-from-ring-samplers(lq=%d,lp=%d)", lq, lp)
						}
					} else if view.P.Coeffs != nil {
						return fmt.Sprintf("P-part-present(lq=%d,lp=-1)", lq)
					}
				}
			}
			return ""
		})
		// the view shares the block buffers and the PRNG with the receiver; the doc comment calls it "a shallow
		// copy" and (unlike ring.UniformSampler.AtLevel) does not say that the two cannot be used concurrently:
		// documentation-only finding, decided on the doc comment of the source under test
		c10P(c, "copy_independent/"+name, "-", "C10/ringqp.UniformSampler.AtLevel/shares-state-undocumented", func() string {
			o := ringqp.NewUniformSampler(c10Keyed(62), rQP)
			o.ReadNew()
			h := deepHash(&o)
			v := o.AtLevel(1, 0)
			v.ReadNew()
			if deepHash(&o) != h {
				c.Count("shared_state:" + name)
				if c10DocSaysNotConcurrent("ring/ringqp/samplers.go", "func (s UniformSampler) AtLevel(") {
					return ""
				}
				return "original-changed(and the doc comment does not say that the view cannot be used concurrently)"
			}
			return ""
		})
		name = "ringqp.UniformSampler.WithPRNG"
		x := o.WithPRNG(c10Keyed(63))
		c10Tie(c, name, &o, &x)
		c10P(c, "copy_behaves_same/"+name, "-", "C10-behaves-"+name, func() string {
			o := ringqp.NewUniformSampler(c10Keyed(64), rQP)
			o.ReadNew()
			x := o.WithPRNG(c10Keyed(65))
			fresh := ringqp.NewUniformSampler(c10Keyed(65), rQP)
			for k := 0; k < 3; k++ {
				a, b := x.ReadNew(), fresh.ReadNew()
				if !a.Equal(&b) {
					return fmt.Sprintf("read-%d-differs-from-fresh-sampler-on-that-PRNG", k)
				}
			}
			return ""
		})
		c10P(c, "copy_independent/"+name, "-", "C10-independent-"+name, func() string {
			o := ringqp.NewUniformSampler(c10Keyed(66), rQP)
			o.ReadNew()
			h := deepHash(&o)
			x := o.WithPRNG(c10Keyed(67))
			x.ReadNew()
			x.AtLevel(0, 0).ReadNew()
			if deepHash(&o) != h {
				return "original-changed"
			}
			return ""
		})
		// a sampler over a ring without Q part (NewUniformSampler supports it) cannot be re-seeded
		c10P(c, "copy_behaves_same/"+name+"[P-only]", "-", "C10/ringqp.UniformSampler.WithPRNG/nil-samplerQ", func() string {
			po := ringqp.NewUniformSampler(c10Keyed(68), ringqp.Ring{RingP: rP})
			a := po.ReadNew()
			if a.P.Coeffs == nil {
				return "original-does-not-sample"
			}
			r := Try(func() string {
				x := po.WithPRNG(c10Keyed(68))
				b := x.ReadNew()
				if !c10EqRows(a.P.Coeffs, b.P.Coeffs) {
					return "differs"
				}
				return "ok"
			})
			if r != "ok" {
				return "WithPRNG:" + r + "(the original samples, the re-seeded copy cannot be built)"
			}
			return ""
		})
	}
}
