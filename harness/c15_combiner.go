package main

// C15 — the two documented ways of building a Combiner.
//
// NewCombiner(params, own, others, threshold): `others` "may contain the instantiator's own point".
// The threshold of the Combiner is the constructor argument, whatever len(others) is.  For every
// parameter set, every 1 <= t <= N <= 6 (t = N included) and every form of `others`
//
//   all        every point, own included, setup order
//   shuffled   every point, own included, random order
//   no_own     the other N-1 points only
//   no_own_sh  the other N-1 points, random order
//   dup_own    own listed two or three times among the others
//   dup_all    every other point listed twice, own absent
//   needed     only the other points of the subset being combined (per subset; own absent)
//
// each party builds its Combiner that way and
//   too_few_forms      every request with exactly t-1 active points (every (t-1)-subset of the N
//                      points; also 0 points) must be refused with an error and leave the output
//                      untouched                                  key C15/NewCombiner/threshold-not-constructor-argument
//   reconstruct_forms  exactly t active parties (every t-subset, in thorough every ordering) and
//                      more than t listed (the t-subset first, then others) sum to the ideal key
//                                                                  key C15/NewCombiner/others-form
// Tie lines `addshare` (t-1 and t actives) for the forms without the own point.

import (
	"fmt"

	"github.com/tuneinsight/lattigo/v6/core/rlwe"
	"github.com/tuneinsight/lattigo/v6/multiparty"
	"github.com/tuneinsight/lattigo/v6/ring/ringqp"
)

var c15FormNames = []string{"all", "shuffled", "no_own", "no_own_sh", "dup_own", "dup_all", "needed"}

// c15Others builds the `others` argument of party i for the given form (sub = subset being combined).
func c15Others(c *Ctx, st *c15Setup, form string, i int, sub []int) []multiparty.ShamirPublicPoint {
	var idx []int
	switch form {
	case "all":
		idx = c15Iota(st.n)
	case "shuffled":
		idx = c.c15Shuffle(c15Iota(st.n))
	case "no_own", "no_own_sh", "dup_all":
		for j := 0; j < st.n; j++ {
			if j != i {
				idx = append(idx, j)
				if form == "dup_all" {
					idx = append(idx, j)
				}
			}
		}
		if form != "no_own" {
			idx = c.c15Shuffle(idx)
		}
	case "dup_own":
		idx = append(c15Iota(st.n), i)
		if c.rng.Intn(2) == 0 {
			idx = append(idx, i)
		}
		idx = c.c15Shuffle(idx)
	case "needed":
		for _, j := range sub {
			if j != i {
				idx = append(idx, j)
			}
		}
	}
	out := make([]multiparty.ShamirPublicPoint, len(idx))
	for k, j := range idx {
		out[k] = st.pts[j]
	}
	return out
}

func (st *c15Setup) additiveWith(cmb multiparty.Combiner, i int, act []int, sk *rlwe.SecretKey) string {
	ap := make([]multiparty.ShamirPublicPoint, len(act))
	for k, a := range act {
		ap[k] = st.pts[a]
	}
	return c15TryErr(func() error { return cmb.GenAdditiveShare(ap, st.pts[i], st.tsks[i], sk) })
}

func c15CombinerForms(c *Ctx, sets []c15Set) {
	for _, s := range sets {
		for n := 1; n <= 6; n++ {
			for t := 1; t <= n; t++ {
				if !c.Thorough() && t != n && t != 1 && c.rng.Intn(2) == 0 {
					continue // quick: always t = N and t = 1, half of the others
				}
				fam := c.rng.Intn(c15NFam)
				pts := c15Points(c, s, fam, n)
				st := c15DoSetup(c, s, t, n, pts, false)
				base := s.name + " " + c15FamName[fam] + " t=" + I(t) + " N=" + I(n) + " pts=" + c15Pts(pts)
				for _, form := range c15FormNames {
					c15FormTooFew(c, st, form, base)
					c15FormReconstruct(c, st, form, base)
				}
			}
		}
	}
}

func c15FormTooFew(c *Ctx, st *c15Setup, form string, base string) {
	s, t, n := st.s, st.t, st.n
	detail := ""
	checked := 0
	for i := 0; i < n && detail == ""; i++ {
		if form == "needed" && t-1 > n-1 {
			break
		}
		var requests [][]int
		requests = append(requests, c15Subsets(n, t-1)...)
		if t > 1 {
			requests = append(requests, []int{}) // nobody listed
		}
		if !c.Thorough() && len(requests) > 8 {
			idx := c.c15Shuffle(c15Iota(len(requests)))[:8]
			rs := make([][]int, 0, 8)
			for _, k := range idx {
				rs = append(rs, requests[k])
			}
			requests = rs
		}
		for _, req := range requests {
			sub := req
			if form == "needed" {
				// the combiner knows exactly a t-subset containing the request and the party
				sub = c.c15Shuffle(c15Iota(n))[:t]
			}
			cmb := multiparty.NewCombiner(s.params, st.pts[i], c15Others(c, st, form, i, sub), t)
			sk := rlwe.NewSecretKey(s.params)
			c15Dirty(c, s.ms, sk.Value, c15DirtyJunk)
			before := c15CopyRows(c15Rows(sk.Value))
			act := c.c15Shuffle(req)
			res := st.additiveWith(cmb, i, act, sk)
			checked++
			if res != "err" {
				detail = fmt.Sprintf("party %d, combiner built with threshold %d and %d `others`: GenAdditiveShare with the %d active points %s returned %s, must be refused", i, t, len(c15Others(c, st, form, i, sub)), len(act), IVec(act), res)
				break
			}
			if !c15EqRows(c15Rows(sk.Value), before) {
				detail = fmt.Sprintf("party %d: refused GenAdditiveShare wrote its output", i)
				break
			}
		}
	}
	c.Probe("too_few_forms", base+" others="+form+" requests="+I(checked), "C15/NewCombiner/threshold-not-constructor-argument", detail)
}

func c15FormReconstruct(c *Ctx, st *c15Setup, form string, base string) {
	s, t, n := st.s, st.t, st.n
	subsets := c15Subsets(n, t)
	if !c.Thorough() && len(subsets) > 3 {
		idx := c.c15Shuffle(c15Iota(len(subsets)))[:3]
		ss := make([][]int, 0, 3)
		for _, k := range idx {
			ss = append(ss, subsets[k])
		}
		subsets = ss
	}
	detail := ""
	runs := 0
	for _, sub := range subsets {
		if detail != "" {
			break
		}
		// one combiner per party and subset, built in the given form
		cmbs := map[int]multiparty.Combiner{}
		for _, i := range sub {
			cmbs[i] = multiparty.NewCombiner(s.params, st.pts[i], c15Others(c, st, form, i, sub), t)
		}
		var lists [][]int
		lists = append(lists, sub, c.c15Shuffle(sub))
		if c.Thorough() {
			for _, o := range c15Perms(t) {
				l := make([]int, t)
				for k, x := range o {
					l[k] = sub[x]
				}
				lists = append(lists, l)
			}
		}
		// more than t listed: the t-subset first, then parties outside it (the combiner must know
		// nothing about them when form == needed: only the first t are looked up)
		if t < n {
			var rest []int
			for j := 0; j < n; j++ {
				in := false
				for _, x := range sub {
					if x == j {
						in = true
					}
				}
				if !in {
					rest = append(rest, j)
				}
			}
			rest = c.c15Shuffle(rest)
			lists = append(lists, append(c.c15Shuffle(sub), rest...), append(c.c15Shuffle(sub), rest[:1]...))
		}
		for _, act := range lists {
			runs++
			sum := s.ringQP.NewPoly()
			for _, i := range sub {
				sk := rlwe.NewSecretKey(s.params)
				if res := st.additiveWith(cmbs[i], i, act, sk); res != "ok" {
					detail = fmt.Sprintf("party %d: GenAdditiveShare returned %s for the active list %s (t=%d)", i, res, IVec(act), t)
					break
				}
				s.ringQP.Add(sum, sk.Value, sum)
			}
			if detail == "" && !c15PolyEq(sum, st.skIdeal) {
				detail = fmt.Sprintf("additive shares of the parties %s (active list %s) do not sum to the ideal secret key", IVec(sub), IVec(act))
			}
			if detail != "" {
				break
			}
		}
	}
	c.Probe("reconstruct_forms", base+" others="+form+" subsets="+I(len(subsets))+" lists="+I(runs), "C15/NewCombiner/others-form", detail)

	// ties for the forms without the own point: t-1 actives (err) and t actives
	if !probesOnly() && (form == "no_own" || form == "needed") {
		sub := subsets[c.rng.Intn(len(subsets))]
		i := sub[c.rng.Intn(len(sub))]
		others := c15Others(c, st, form, i, sub)
		for _, k := range []int{t - 1, t} {
			act := c.c15Shuffle(sub)[:k]
			ap := make([]multiparty.ShamirPublicPoint, len(act))
			for x, a := range act {
				ap[x] = st.pts[a]
			}
			sk := rlwe.NewSecretKey(s.params)
			cmb := multiparty.NewCombiner(s.params, st.pts[i], others, t)
			res := c15TryErr(func() error { return cmb.GenAdditiveShare(ap, st.pts[i], st.tsks[i], sk) })
			out := res
			if res == "ok" {
				out = c15M(sk.Value)
			}
			c.Emit("addshare "+s.ring()+" "+I(t)+" "+U(uint64(st.pts[i]))+" "+c15Pts(others)+" "+U(uint64(st.pts[i]))+" "+c15Pts(ap)+" "+c15M(st.tsks[i].Poly), out)
			c.Count("tie:addshare:form_" + form)
		}
	}
}

func c15PolyEq(a, b ringqp.Poly) bool { return a.Equal(&b) }
