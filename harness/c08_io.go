package main

// C08: transports. Readers that fragment the stream, writers that fail, and a guard
// around lattigo's own buffer.Buffer that turns the unbounded Peek(0)/Discard(0)
// recursion of buffer.ReadUintNNSlice into a recoverable panic (so that every truncation
// offset can be swept in-process; the unguarded crash is confirmed in a child process).

import (
	"errors"
	"fmt"
	"io"
	"os"
	"strings"

	"github.com/tuneinsight/lattigo/v6/utils/buffer"
)

// c08PlainWriter is an io.Writer and nothing else (not a buffer.Writer).
type c08PlainWriter struct{ buf []byte }

func (p *c08PlainWriter) Write(b []byte) (int, error) {
	p.buf = append(p.buf, b...)
	return len(b), nil
}

var errC08Fail = errors.New("c08: injected writer failure")

// c08FailWriter accepts `limit` bytes in total, then fails (short write + error).
type c08FailWriter struct {
	limit int
	n     int
}

func (f *c08FailWriter) Write(b []byte) (int, error) {
	room := f.limit - f.n
	if len(b) <= room {
		f.n += len(b)
		return len(b), nil
	}
	if room < 0 {
		room = 0
	}
	f.n += room
	return room, errC08Fail
}

// c08ChunkReader delivers the data in chunks whose sizes cycle through `sizes`
// (a size larger than the caller's buffer is cut to it). Plain io.Reader only.
type c08ChunkReader struct {
	data  []byte
	off   int
	sizes []int
	i     int
	// eofWithData: return io.EOF together with the last chunk (allowed by io.Reader)
	eofWithData bool
	reads       int
}

func (c *c08ChunkReader) Read(p []byte) (int, error) {
	c.reads++
	if c.off >= len(c.data) {
		return 0, io.EOF
	}
	if len(p) == 0 {
		return 0, nil
	}
	k := c.sizes[c.i%len(c.sizes)]
	c.i++
	if k < 1 {
		k = 1
	}
	if k > len(p) {
		k = len(p)
	}
	if k > len(c.data)-c.off {
		k = len(c.data) - c.off
	}
	copy(p, c.data[c.off:c.off+k])
	c.off += k
	if c.eofWithData && c.off == len(c.data) {
		return k, io.EOF
	}
	return k, nil
}

type c08Livelock struct{}

// c08GuardBuf wraps the real *buffer.Buffer; only Peek is intercepted to count consecutive
// zero-length peeks (no progress), everything else is lattigo's code.
type c08GuardBuf struct {
	*buffer.Buffer
	stall int
}

func (g *c08GuardBuf) Peek(n int) ([]byte, error) {
	if n == 0 {
		g.stall++
		if g.stall > 2000 {
			panic(c08Livelock{})
		}
	} else {
		g.stall = 0
	}
	return g.Buffer.Peek(n)
}

func c08NewGuardBuf(b []byte) *c08GuardBuf {
	return &c08GuardBuf{Buffer: buffer.NewBuffer(append([]byte(nil), b...))}
}

// c08Call runs f, mapping the outcome to a class: "ok", "err", "livelock", or
// "panic:<kind>" (kind from the runtime's message: makeslice, slice-bounds, index, nil, other).
func c08Call(f func() error) (class string) {
	defer func() {
		if r := recover(); r != nil {
			if _, ok := r.(c08Livelock); ok {
				class = "livelock"
				return
			}
			msg := fmt.Sprint(r)
			switch {
			case strings.Contains(msg, "makeslice") || strings.Contains(msg, "makemap"):
				class = "panic:makeslice"
			case strings.Contains(msg, "slice bounds out of range"):
				class = "panic:slice-bounds"
			case strings.Contains(msg, "index out of range"):
				class = "panic:index"
			case strings.Contains(msg, "nil pointer"):
				class = "panic:nil"
			default:
				class = "panic:other"
			}
			if os.Getenv("VERIF_DEBUG") == "2" {
				fmt.Fprintf(os.Stderr, "[c08 panic] %s\n", msg)
			}
		}
	}()
	if err := f(); err != nil {
		return "err"
	}
	return "ok"
}
