package main

// C02: rlwe.Evaluator.ModDown(levelQ, levelP, ctQP, ct) with DISTINCT buffers: all four
// (ctQP.IsNTT, ct.IsNTT) combinations x levelP in {-1, 0, max} x levelQ in {0, mid, max} x standard /
// conjugate-invariant rings.  Tie (op evalmoddown, one line per polynomial of the pair) + reference probes.

import (
	"fmt"
	"math/big"
	"os"
	"path/filepath"
	"strings"

	"github.com/tuneinsight/lattigo/v6/core/rlwe"
	"github.com/tuneinsight/lattigo/v6/ring"
	"github.com/tuneinsight/lattigo/v6/ring/ringqp"
)

// c02ModDownDocOverwrite: does the doc comment of Evaluator.ModDown (source under test) say that ctQP is used
// as a buffer in the NTT -> coefficient-domain case?
var c02ModDownDocOverwrite = func() bool {
	b, err := os.ReadFile(filepath.Join(repoPath(), "core/rlwe/evaluator_gadget_product.go"))
	if err != nil {
		return false
	}
	src := string(b)
	i := strings.Index(src, "func (eval Evaluator) ModDown(")
	if i < 0 {
		return false
	}
	j := strings.LastIndex(src[:i], "\n\n")
	return strings.Contains(src[j+1:i], "ctQP is used as a buffer")
}()

func c02Bit(b bool) int {
	if b {
		return 1
	}
	return 0
}

func c02EvalModDown(c *Ctx, po bool, ch c02Chain) {
	r := c.rng
	type cfg struct {
		logN int
		rt   ring.Type
	}
	cfgs := []cfg{{4, ring.Standard}, {4, ring.ConjugateInvariant}}
	if c.Thorough() {
		cfgs = []cfg{{4, ring.Standard}, {5, ring.Standard}, {4, ring.ConjugateInvariant}}
	}
	for _, cf := range cfgs {
		params, err := rlwe.NewParametersFromLiteral(rlwe.ParametersLiteral{LogN: cf.logN, Q: ch.Q, P: ch.P, NTTFlag: true, RingType: cf.rt})
		if err != nil {
			c.Count("evalmoddown:param-error")
			continue
		}
		ci := c02Bit(cf.rt == ring.ConjugateInvariant)
		N := params.N()
		ringQ, ringP := params.RingQ(), params.RingP()
		gQ := c02PrimRoots(ringQ)
		var gP []uint64
		if ringP != nil {
			gP = c02PrimRoots(ringP)
		}
		eval0 := rlwe.NewEvaluator(params, nil)
		// the evaluator, a ShallowCopy() and a copy of the copy (their BasisExtenders are shallow copies)
		evals := []*rlwe.Evaluator{eval0, eval0.ShallowCopy(), eval0.ShallowCopy().ShallowCopy()}
		nQ, nP := len(ch.Q), len(ch.P)
		lqs := map[int]bool{0: true, (nQ - 1) / 2: true, nQ - 1: true}
		lps := map[int]bool{-1: true}
		if nP > 0 {
			lps[0], lps[nP-1] = true, true
		}
		for levelQ := 0; levelQ < nQ; levelQ++ {
			if !lqs[levelQ] {
				continue
			}
			for levelP := -1; levelP < nP; levelP++ {
				if !lps[levelP] {
					continue
				}
				for flags := 0; flags < 4; flags++ {
					qpNTT, ctNTT := flags&1 == 1, flags&2 == 2
					mQ := ch.Q[:levelQ+1]
					var mP []uint64
					M := c02ProdBig(mQ)
					var D *big.Int
					if levelP >= 0 {
						mP = ch.P[:levelP+1]
						D = c02ProdBig(mP)
						M = new(big.Int).Mul(M, D)
					}
					rq := ringQ.AtLevel(levelQ)
					var X [2][]*big.Int
					var inQ, inP [2][][]uint64
					ctQP := &rlwe.Element[ringqp.Poly]{MetaData: &rlwe.MetaData{}}
					ctQP.IsNTT = qpNTT
					for i := 0; i < 2; i++ {
						X[i] = c02FamValues(c, N, M, D)
						if i == 1 && r.Intn(3) == 0 {
							X[i] = c02ConstValues(N, new(big.Int)) // zero polynomial
						}
						pq := c02PolyFromRows(N, c02RowsOf(X[i], mQ))
						var pp ring.Poly
						if levelP >= 0 {
							pp = c02PolyFromRows(N, c02RowsOf(X[i], mP))
						}
						if qpNTT {
							rq.NTT(pq, pq)
							if levelP >= 0 {
								ringP.AtLevel(levelP).NTT(pp, pp)
							}
						}
						inQ[i] = c02RowsCopy(pq, levelQ+1)
						if levelP >= 0 {
							inP[i] = c02RowsCopy(pp, levelP+1)
						}
						ctQP.Value = append(ctQP.Value, ringqp.Poly{Q: pq, P: pp})
					}
					ct := rlwe.NewCiphertext(params, 1, levelQ)
					ct.IsNTT = ctNTT
					for i := range ct.Value {
						jp := c02JunkPoly(r, N, levelQ)
						ct.Value[i].CopyLvl(levelQ, jp)
					}
					eval := evals[(flags+levelQ)%len(evals)]
					pan := c02Panics(func() { eval.ModDown(levelQ, levelP, ctQP, ct) })
					c.Count(fmt.Sprintf("evalmoddown:ci=%d,levelP=%d,qpNTT=%v,ctNTT=%v", ci, levelP, qpNTT, ctNTT))
					for i := 0; i < 2; i++ {
						line := fmt.Sprintf("evalmoddown %d %d %s %s %s %s %d %d %d %d %s %s", ci, N, Vec(ch.Q), Vec(gQ), Vec(ch.P), Vec(gP),
							levelQ, levelP+1, c02Bit(qpNTT), c02Bit(ctNTT), Mat(inQ[i]), Mat(inP[i]))
						if pan {
							if !po {
								c.Emit(line, "panic")
							}
							c.Probe("no_panic", line, "C02/Evaluator.ModDown/panic", "panicked")
							continue
						}
						out := c02RowsCopy(ct.Value[i], levelQ+1)
						afterQ := c02RowsCopy(ctQP.Value[i].Q, levelQ+1)
						var afterP [][]uint64
						if levelP >= 0 {
							afterP = c02RowsCopy(ctQP.Value[i].P, levelP+1)
						}
						if !po {
							c.Emit(line, Mat(out)+"|"+Mat(afterQ)+"|"+Mat(afterP))
						}
						// the value, in the coefficient domain
						ref := out
						if ctNTT {
							t := c02PolyFromRows(N, out)
							rq.INTT(t, t)
							ref = c02RowsCopy(t, levelQ+1)
						}
						if levelP >= 0 {
							c02ProbeModDown(c, "Evaluator.ModDown", mQ, mP, X[i], ref, line)
						} else {
							d := ""
							want := c02RowsOf(X[i], mQ)
							for a := range want {
								for b := range want[a] {
									if ref[a][b]%mQ[a] != want[a][b] {
										d = fmt.Sprintf("row %d coeff %d: got %d want %d (ct is not ctQP moved to the domain of ct)", a, b, ref[a][b], want[a][b])
									}
								}
							}
							c.Probe("evalmoddown_noP_value", line, "C02/Evaluator.ModDown/no-P/ct-not-written", d)
						}
						// ctQP intact?  (the NTT -> coefficient case with P transforms ctQP in place; accepted only if documented)
						d := ""
						if !c02RowsEq(afterQ, inQ[i]) || !c02RowsEq(afterP, inP[i]) {
							d = "ctQP differs after the call"
							if levelP >= 0 && qpNTT && !ctNTT && c02ModDownDocOverwrite {
								d = ""
								c.Count("evalmoddown:ctQP-used-as-buffer(documented)")
							}
						}
						c.Probe("evalmoddown_input_unchanged", line, "C02/Evaluator.ModDown/ctQP-rewritten", d)
					}
				}
			}
		}
	}
}
