package main

// C02 probes: the property's predicates evaluated on the real code against a math/big reference.

import (
	"fmt"
	"math/big"
	"math/bits"
	"strings"

	"github.com/tuneinsight/lattigo/v6/core/rlwe"
	"github.com/tuneinsight/lattigo/v6/ring"
	"github.com/tuneinsight/lattigo/v6/ring/ringqp"
)

// ---- Div ----------------------------------------------------------------------------------------

func c02ProbeDiv(c *Ctx, kind string, isNTT, isRound bool, ringQ *ring.Ring, level, nb int, X []*big.Int, in [][]uint64, p0, p1 ring.Poly, line string) {
	Q := ringQ.ModuliChain()
	outLevel := level - nb
	N := len(X)
	// reference quotient, step by step (last modulus first)
	Y := make([]*big.Int, N)
	for j := range X {
		y := new(big.Int).Set(X[j])
		for s := 0; s < nb; s++ {
			q := c02BigU(Q[level-s])
			if isRound {
				y.Add(y, new(big.Int).Rsh(new(big.Int).Sub(q, big.NewInt(1)), 1))
			}
			y.Div(y, q)
		}
		Y[j] = y
	}
	want := c02RowsOf(Y, Q[:outLevel+1])
	got := ring.NewPoly(N, outLevel)
	for i := 0; i <= outLevel; i++ {
		copy(got.Coeffs[i], p1.Coeffs[i])
	}
	if isNTT {
		ringQ.AtLevel(outLevel).INTT(got, got)
	}
	d := ""
	for i := 0; i <= outLevel && d == ""; i++ {
		for j := 0; j < N; j++ {
			if got.Coeffs[i][j] != want[i][j] {
				d = fmt.Sprintf("coeff %d x=%s mod q_%d: got %d want %d", j, X[j], i, got.Coeffs[i][j], want[i][j])
				break
			}
		}
	}
	what := "floored"
	if isRound {
		what = "rounded-half-up"
	}
	c.Probe("div_quotient_exact", line, "C02/Div/"+kind+"/not-the-"+what+"-quotient", d)
	// for odd moduli sequential rounding equals rounding by the product (theorem round_round_odd)
	if isRound && nb > 1 {
		D := c02ProdBig(Q[outLevel+1 : level+1])
		h := new(big.Int).Rsh(new(big.Int).Sub(D, big.NewInt(1)), 1)
		d2 := ""
		for j := range X {
			y := new(big.Int).Add(X[j], h)
			y.Div(y, D)
			if y.Cmp(Y[j]) != 0 {
				d2 = fmt.Sprintf("x=%s", X[j])
			}
		}
		c.Probe("div_round_many_is_round_by_product", fmt.Sprintf("%s %d %d", Vec(Q[:level+1]), nb, N), "C02/Div/sequential-rounding-differs-from-product-rounding", d2)
	}
	// input polynomial intact?
	d3 := ""
	if !c02RowsEq(c02RowsCopy(p0, level+1), in) {
		d3 = "p0 differs after the call"
	}
	key := "C02/Div/" + kind + "/input-p0-rewritten"
	if nb == 0 {
		return
	}
	c.Probe("div_input_unchanged", line, key, d3)
}

// ---- ModUp ----------------------------------------------------------------------------------------

// c02MatchDelta finds δ ∈ {0,-1,+1} with rows[i][j] ≡ base + δ·M (mod moduli[i]) for every i; ok=false if none.
func c02MatchDelta(rows [][]uint64, moduli []uint64, j int, base, M *big.Int) (delta int, ok bool) {
	t := new(big.Int)
	for _, dl := range []int{0, -1, 1} {
		v := new(big.Int).Add(base, new(big.Int).Mul(big.NewInt(int64(dl)), M))
		all := true
		for i, q := range moduli {
			qb := c02BigU(q)
			if t.Mod(v, qb).Cmp(new(big.Int).Mod(c02BigU(rows[i][j]), qb)) != 0 {
				all = false
				break
			}
		}
		if all {
			return dl, true
		}
	}
	return 0, false
}

func c02CenterBy(x, M *big.Int) *big.Int {
	half := new(big.Int).Rsh(M, 1)
	v := new(big.Int).Add(x, half)
	v.Mod(v, M)
	return v.Sub(v, half)
}

func c02ProbeModUp(c *Ctx, dir string, src, dst []uint64, X []*big.Int, in, inAfter, out [][]uint64, args string) {
	M := c02ProdBig(src)
	d := ""
	dq := ""
	for j := range X {
		xc := c02CenterBy(X[j], M)
		dl, ok := c02MatchDelta(out, dst, j, xc, M)
		if !ok {
			d = fmt.Sprintf("coeff %d x=%s: result is not x + δ·Q for δ in {-1,0,1}", j, xc)
			break
		}
		if dl != 0 {
			c.Count("modup:off-by-one-multiple")
			if new(big.Int).Lsh(new(big.Int).Abs(xc), 2).Cmp(M) < 0 {
				dq = fmt.Sprintf("coeff %d x=%s (|x|<Q/4) extended to x%+d·Q", j, xc, dl)
			}
		}
	}
	c.Probe("modup_congruent_within_one_multiple", args, "C02/ModUp/"+dir+"/off-by-more-than-one-multiple", d)
	c.Probe("modup_exact_below_quarter", args, "C02/ModUp/"+dir+"/inexact-below-Q-over-4", dq)
	d2 := ""
	if !c02RowsEq(in, inAfter) {
		d2 = "input rewritten"
	}
	c.Probe("modup_input_unchanged", args, "C02/ModUp/"+dir+"/input-rewritten", d2)
}

// ---- ModDown ----------------------------------------------------------------------------------------

func c02ProbeModDown(c *Ctx, kind string, mQ, mP []uint64, X []*big.Int, out [][]uint64, line string) {
	D, tgt := c02ProdBig(mP), mQ
	if kind == "qptop" {
		D, tgt = c02ProdBig(mQ), mP
	}
	half := new(big.Int).Rsh(D, 1)
	one := big.NewInt(1)
	d, dq := "", ""
	for j := range X {
		R := new(big.Int).Add(X[j], half)
		R.Div(R, D)
		dl, ok := c02MatchDelta(out, tgt, j, R, one)
		if !ok {
			d = fmt.Sprintf("coeff %d x=%s: result differs from round(x/D)=%s by more than 1", j, X[j], R)
			break
		}
		if dl != 0 {
			c.Count("moddown:" + kind + ":error=1")
			rc := c02CenterBy(new(big.Int).Mod(X[j], D), D)
			if new(big.Int).Lsh(new(big.Int).Abs(rc), 2).Cmp(D) < 0 {
				dq = fmt.Sprintf("coeff %d x=%s: [x]_D=%s (|.|<D/4) yet quotient off by %d", j, X[j], rc, dl)
			}
		} else {
			c.Count("moddown:" + kind + ":exact-rounded")
		}
		if kind == "qptop" {
			// documentation says "floored integer division": count how often the result is the floor
			F := new(big.Int).Div(X[j], D)
			if F.Cmp(R) != 0 {
				if _, isF := c02MatchDelta(out, tgt, j, F, new(big.Int)); isF {
					c.Count("moddown:qptop:equals-floor-not-round")
				} else {
					c.Count("moddown:qptop:equals-round-not-floor(doc says floored)")
				}
			}
		}
	}
	c.Probe("moddown_error_at_most_one", line, "C02/ModDown/"+kind+"/error-larger-than-1", d)
	c.Probe("moddown_exact_when_remainder_below_quarter", line, "C02/ModDown/"+kind+"/inexact-with-small-remainder", dq)
}

// ---- Decomposer ---------------------------------------------------------------------------------------

func c02ProbeDecomp(c *Ctx, mQ, mP []uint64, nbPi int, X []*big.Int, digitsQ, digitsP [][][]uint64, args string) {
	key := "C02/DecomposeAndSplit"
	for d := range digitsQ {
		if digitsQ[d] == nil {
			c.Probe("decomp_recombine", args, key+"/panic", fmt.Sprintf("digit %d panicked", d))
			return
		}
	}
	MQ := c02ProdBig(mQ)
	size := len(digitsQ)
	type grp struct {
		lo, hi int
		Qd, G  *big.Int
	}
	gs := make([]grp, size)
	for d := 0; d < size; d++ {
		lo := d * nbPi
		hi := lo + nbPi
		if hi > len(mQ) {
			hi = len(mQ)
		}
		Qd := c02ProdBig(mQ[lo:hi])
		co := new(big.Int).Div(MQ, Qd)
		inv := new(big.Int).ModInverse(new(big.Int).Mod(co, Qd), Qd)
		gs[d] = grp{lo, hi, Qd, co.Mul(co, inv)}
	}
	dcong, dbound, drec := "", "", ""
	for j := range X {
		acc := new(big.Int)
		for d := 0; d < size; d++ {
			g := gs[d]
			dc := c02CenterBy(new(big.Int).Mod(X[j], g.Qd), g.Qd)
			// rows that carry the digit: every Q row outside the digit's own moduli (all rows when the digit
			// modulus is a single prime: the copy branch writes them all), and every P row
			var rows [][]uint64
			var mods []uint64
			for i := range mQ {
				if (i < g.lo || i >= g.hi) || g.hi-g.lo == 1 {
					rows = append(rows, digitsQ[d][i])
					mods = append(mods, mQ[i])
				}
			}
			for i := range mP {
				rows = append(rows, digitsP[d][i])
				mods = append(mods, mP[i])
			}
			dv := new(big.Int).Set(dc)
			if len(rows) > 0 {
				dl, ok := c02MatchDelta(rows, mods, j, dc, g.Qd)
				if !ok {
					dcong = fmt.Sprintf("coeff %d x=%s digit %d: rows are not [x]_Qd + δ·Qd, |δ|≤1", j, X[j], d)
					break
				}
				if dl != 0 {
					c.Count("decomp:digit-off-by-one-multiple")
				}
				dv.Add(dv, new(big.Int).Mul(big.NewInt(int64(dl)), g.Qd))
			}
			if new(big.Int).Abs(dv).Cmp(g.Qd) > 0 {
				dbound = fmt.Sprintf("coeff %d digit %d = %s exceeds Q_d = %s", j, d, dv, g.Qd)
			}
			acc.Add(acc, dv.Mul(dv, g.G))
		}
		if dcong != "" {
			break
		}
		if acc.Mod(acc, MQ).Cmp(new(big.Int).Mod(X[j], MQ)) != 0 {
			drec = fmt.Sprintf("coeff %d x=%s: Σ d_i·(Q/Q_i)·[(Q/Q_i)^-1]_{Q_i} = %s (mod Q)", j, X[j], acc)
		}
	}
	c.Probe("decomp_digit_congruent", args, key+"/digit-not-congruent", dcong)
	c.Probe("decomp_digit_bound", args, key+"/digit-exceeds-digit-modulus", dbound)
	c.Probe("decomp_recombine", args, key+"/digits-do-not-recombine", drec)
}

// ---- small-norm extension -------------------------------------------------------------------------------

func c02Small(c *Ctx, po bool, N int, ringQ, ringP *ring.Ring, ch c02Chain) {
	r := c.rng
	q0 := ch.Q[0]
	rqp := ringqp.Ring{RingQ: ringQ, RingP: ringP}
	gP := c02PrimRoots(ringP)
	for levelP := 0; levelP < len(ch.P); levelP++ {
		minP := ch.P[0]
		for _, p := range ch.P[:levelP+1] {
			if p < minP {
				minP = p
			}
		}
		for _, cls := range []string{"tiny", "bound", "large"} {
			// centred coefficients
			B := uint64(4)
			switch cls {
			case "bound": // |x| up to min(q0/2, min p): the contract of "small norm"
				B = q0 >> 1
				if minP < B {
					B = minP
				}
			case "large": // |x| up to q0/2 even if that exceeds some p_i (uint64 wrap in the code)
				B = q0 >> 1
			}
			xs := make([]int64, N)
			row0 := make([]uint64, N)
			inContract := true
			for j := range xs {
				m := r.Below(B + 1)
				switch j {
				case 0:
					m = B
				case 1:
					m = 0
				}
				neg := r.Intn(2) == 0
				if j == 2 {
					m, neg = B, true
				}
				if m > q0>>1 || (neg && 2*m > q0-1) {
					m = q0 >> 1
					neg = false
				}
				xs[j] = int64(m)
				row0[j] = m
				if neg && m != 0 {
					xs[j] = -int64(m)
					row0[j] = q0 - m
				}
				if neg && m > minP {
					inContract = false
				}
			}
			pQ := ring.NewPoly(N, 0)
			copy(pQ.Coeffs[0], row0)
			pP := c02JunkPoly(r, N, levelP)
			if c02Panics(func() { rqp.ExtendBasisSmallNormAndCenter(pQ, levelP, pQ, pP) }) {
				c.Probe("no_panic", "extsmall", "C02/ExtendBasisSmallNormAndCenter/panic", "panicked")
				continue
			}
			out := c02RowsCopy(pP, levelP+1)
			args := fmt.Sprintf("%d %s %d %s", q0, Vec(ch.P), levelP, Vec(row0))
			if !po {
				c.Emit("extsmall "+args, Mat(out))
			}
			c.Count("extsmall:" + cls)
			// out-of-place form: polyInQ (all levels of Q) and polyOutQ distinct: polyOutQ must receive a copy of
			// polyInQ, polyInQ must stay intact, polyOutP must be what the in-place call wrote
			{
				lq := len(ch.Q) - 1
				inQ := c02JunkPoly(r, N, lq)
				for i := range inQ.Coeffs {
					for j := range inQ.Coeffs[i] {
						inQ.Coeffs[i][j] %= ch.Q[i]
					}
				}
				copy(inQ.Coeffs[0], row0)
				before := c02RowsCopy(inQ, lq+1)
				outQ := c02JunkPoly(r, N, lq)
				outP := c02JunkPoly(r, N, levelP)
				d := ""
				if c02Panics(func() { rqp.ExtendBasisSmallNormAndCenter(inQ, levelP, outQ, outP) }) {
					d = "panicked"
				} else if !c02RowsEq(c02RowsCopy(inQ, lq+1), before) {
					d = "polyInQ overwritten"
				} else if !c02RowsEq(c02RowsCopy(outQ, lq+1), before) {
					d = "polyOutQ is not a copy of polyInQ"
				} else if !c02RowsEq(c02RowsCopy(outP, levelP+1), out) {
					d = "polyOutP differs from the in-place call"
				}
				c.Probe("extsmall_out_of_place", args, "C02/ExtendBasisSmallNormAndCenter/out-of-place-wrong", d)
			}
			{
				// the P limbs must be the centred value modulo p_i — also when |x| exceeds p_i (since repair
				// C03-9 of /repo the code reduces |x| modulo p_i; before, p_i - |x| wrapped on uint64)
				d := ""
				for i, p := range ch.P[:levelP+1] {
					for j := range xs {
						want := new(big.Int).Mod(big.NewInt(xs[j]), c02BigU(p)).Uint64()
						if out[i][j]%p != want {
							d = fmt.Sprintf("coeff %d x=%d mod %d: got %d", j, xs[j], p, out[i][j])
						}
					}
				}
				if inContract {
					c.Probe("extsmall_same_integer", args, "C02/ExtendBasisSmallNormAndCenter/different-integer", d)
				} else {
					c.Count("extsmall:|x|>p_i")
					c.Probe("extsmall_large_centred_value", args, "C02/ExtendBasisSmallNormAndCenter/not-centred-value-mod-p", d)
				}
			}
			// NTT + Montgomery variant of core/rlwe/utils.go
			if cls != "large" {
				rQ0 := ringQ.AtLevel(0)
				pin := ring.NewPoly(N, 0)
				copy(pin.Coeffs[0], row0)
				rQ0.NTT(pin, pin)
				rQ0.MForm(pin, pin)
				inRow := append([]uint64(nil), pin.Coeffs[0]...)
				buff := c02JunkPoly(r, N, 0)
				pP2 := c02JunkPoly(r, N, levelP)
				if c02Panics(func() {
					rlwe.ExtendBasisSmallNormAndCenterNTTMontgomery(ringQ, ringP.AtLevel(levelP), pin, buff, pP2)
				}) {
					c.Probe("no_panic", "extsmallntt", "C02/ExtendBasisSmallNormAndCenterNTTMontgomery/panic", "panicked")
					continue
				}
				if !po {
					c.Emit(fmt.Sprintf("extsmallntt %d %d %d %s %s %d %s", N, q0, ringQ.SubRings[0].PrimitiveRoot, Vec(ch.P), Vec(gP), levelP, Vec(inRow)), Mat(c02RowsCopy(pP2, levelP+1)))
				}
				c.Count("extsmallntt")
				rP := ringP.AtLevel(levelP)
				rP.IMForm(pP2, pP2)
				rP.INTT(pP2, pP2)
				d := ""
				for i, p := range ch.P[:levelP+1] {
					for j := range xs {
						want := new(big.Int).Mod(big.NewInt(xs[j]), c02BigU(p)).Uint64()
						if pP2.Coeffs[i][j]%p != want {
							d = fmt.Sprintf("coeff %d x=%d mod %d: got %d", j, xs[j], p, pP2.Coeffs[i][j])
						}
					}
				}
				if inContract {
					c.Probe("extsmallntt_same_integer", args, "C02/ExtendBasisSmallNormAndCenterNTTMontgomery/different-integer", d)
				}
			}
		}
	}
}

// ---- the decomposition as the key-switch calls it when there is no P ------------------------------------

// c02KeySwitchNoP: rlwe.Evaluator.gadgetProductSinglePAndBitDecompLazy called (before fix 3f60e57)
// DecomposeAndSplit(levelQ, levelP, levelP+1, i, …); with no special modulus (levelP = -1) and no
// power-of-two decomposition this is nbPi = 0, so lvlQStart = i·0 = 0 for every digit i.
func c02KeySwitchNoP(c *Ctx) {
	pool := c02Pool([]int{36, 40, 45}, 4)
	Q := []uint64{pool[45][0], pool[40][0], pool[36][0]}
	N := 32
	ringQ, err := ring.NewRing(N, Q)
	if err != nil {
		return
	}
	dec := ring.NewDecomposer(ringQ, nil)
	for levelQ := 0; levelQ < len(Q); levelQ++ {
		mQ := Q[:levelQ+1]
		X := c02FamValues(c, N, c02ProdBig(mQ), nil)
		in := c02RowsOf(X, mQ)
		p0 := c02PolyFromRows(N, in)
		digitsQ := make([][][]uint64, levelQ+1)
		for d := 0; d <= levelQ; d++ {
			p1Q := ring.NewPoly(N, levelQ)
			prev := c02RowsCopy(p1Q, levelQ+1)
			line := fmt.Sprintf("decomp %s - 0 %d 0 0 %d %s %s", Vec(Q), levelQ, d, Mat(in), Mat(prev))
			out := Try(func() string {
				dec.DecomposeAndSplit(levelQ, -1, 0, d, p0, p1Q, ring.Poly{})
				digitsQ[d] = c02RowsCopy(p1Q, levelQ+1)
				return Mat(digitsQ[d]) + "|-"
			})
			if !probesOnly() {
				c.Emit(line, out)
			}
		}
		// (tie only: with nbPi = 0 every digit is [x]_{q_0}; the model reproduces it and
		// Props/C02.lean proves that these digits do not recombine; the property-level probe is the
		// end-to-end key switch below)
		c.Count("decomp:nbPi=0(as called by the key switch without P)")
	}
	// end to end: key switch with P = nil, BaseTwoDecomposition = 0 (and two controls)
	Pc := []uint64{pool[45][1]}
	type cfg struct {
		name string
		P    []uint64
		pw2  int
		key  string
	}
	for _, cf := range []cfg{
		{"keyswitch_noP_nopw2", nil, 0, "C02/KeySwitch/no-P-no-pow2/garbage"},
		{"keyswitch_control_noP_pw2", nil, 12, "C02/KeySwitch/control-no-P-pow2/garbage"},
		{"keyswitch_control_withP", Pc, 0, "C02/KeySwitch/control-with-P/garbage"},
	} {
		for _, nq := range []int{1, 2, 3} {
			params, err := rlwe.NewParametersFromLiteral(rlwe.ParametersLiteral{LogN: 5, Q: Q[:nq], P: cf.P, NTTFlag: true})
			if err != nil {
				c.Count("keyswitch:param-error")
				continue
			}
			pw2 := cf.pw2
			d := Try(func() string {
				kgen := rlwe.NewKeyGenerator(params)
				skIn, skOut := kgen.GenSecretKeyNew(), kgen.GenSecretKeyNew()
				evk := kgen.GenEvaluationKeyNew(skIn, skOut, rlwe.EvaluationKeyParameters{BaseTwoDecomposition: &pw2})
				ct := rlwe.NewEncryptor(params, skIn).EncryptZeroNew(params.MaxLevel())
				out := rlwe.NewCiphertext(params, 1, params.MaxLevel())
				if err := rlwe.NewEvaluator(params, nil).ApplyEvaluationKey(ct, evk, out); err != nil {
					return "error"
				}
				pt := rlwe.NewDecryptor(params, skOut).DecryptNew(out)
				rq := params.RingQ().AtLevel(out.Level())
				if pt.IsNTT {
					rq.INTT(pt.Value, pt.Value)
				}
				coeffs := make([]*big.Int, params.N())
				for i := range coeffs {
					coeffs[i] = new(big.Int)
				}
				rq.PolyToBigintCentered(pt.Value, 1, coeffs)
				mx := 0
				for _, v := range coeffs {
					if b := v.BitLen(); b > mx {
						mx = b
					}
				}
				logQ := rq.Modulus().BitLen()
				// a sound RNS key switch without P leaves noise ≈ N·σ·max q_i (≈ 2^55 here); garbage is ≈ Q
				if mx > 64 && mx > logQ-8 {
					return fmt.Sprintf("decryption of a key-switched encryption of 0 has %d-bit coefficients (log Q = %d)", mx, logQ)
				}
				return ""
			})
			c.Probe(cf.name, fmt.Sprintf("%s %s %d", Vec(Q[:nq]), Vec(cf.P), cf.pw2), cf.key, d)
		}
	}
}

// c02DigitCount: the hypothesis q ≤ 2^(w·n) of `pow2_digits_recombine`, evaluated on the digit count lattigo
// itself chooses (rlwe.Parameters.BaseTwoDecompositionVectorSize, from round(log2 q)).
func c02DigitCount(c *Ctx) {
	for _, b := range []int{30, 40, 45} {
		g := ring.NewNTTFriendlyPrimesGenerator(uint64(b), 64)
		up, err1 := g.NextUpstreamPrime()     // 2^b + δ : b+1 bits, round(log2) = b
		down, err2 := g.NextDownstreamPrime() // 2^b − δ : b bits
		if err1 != nil || err2 != nil {
			continue
		}
		for _, q := range []uint64{up, down} {
			params, err := rlwe.NewParametersFromLiteral(rlwe.ParametersLiteral{LogN: 5, Q: []uint64{q}, NTTFlag: true})
			if err != nil {
				continue
			}
			for _, w := range []int{5, 10, 15, 16} {
				n := params.BaseTwoDecompositionVectorSize(0, -1, w)[0]
				d := ""
				if bits.Len64(q) > w*n {
					d = fmt.Sprintf("q=%d has %d bits but %d digits of %d bits are used", q, bits.Len64(q), n, w)
				}
				c.Probe("digit_count_sufficient", fmt.Sprintf("%d %d %d", q, w, n), "C02/BaseTwoDecompositionVectorSize/too-few-digits", d)
			}
		}
	}
}

// c02DecompNTT: rlwe.Evaluator.DecomposeNTT (the hoisted decomposition), tie only: the digits are those of
// DecomposeAndSplit (probed there) moved to the NTT domain.
func c02DecompNTT(c *Ctx, po bool, ch c02Chain) {
	if po || len(ch.P) == 0 {
		return
	}
	r := c.rng
	// (rlwe.MinLogN = 4: DecomposeNTT is not reachable at N = 8)
	type cfg struct {
		logN int
		rt   ring.Type
	}
	for _, cf := range []cfg{{4, ring.Standard}, {5, ring.Standard}, {4, ring.ConjugateInvariant}} {
		logN := cf.logN
		op := "decompntt"
		if cf.rt == ring.ConjugateInvariant {
			op = "decompnttci"
		}
		params, err := rlwe.NewParametersFromLiteral(rlwe.ParametersLiteral{LogN: logN, Q: ch.Q, P: ch.P, NTTFlag: true, RingType: cf.rt})
		if err != nil {
			c.Count("decompntt:param-error")
			continue
		}
		N := params.N()
		ringQ, ringP := params.RingQ(), params.RingP()
		gQ, gP := c02PrimRoots(ringQ), c02PrimRoots(ringP)
		eval0 := rlwe.NewEvaluator(params, nil)
		evals := []*rlwe.Evaluator{eval0, eval0.ShallowCopy(), eval0.ShallowCopy().ShallowCopy()}
		for _, levelQ := range c02Levels(len(ch.Q)) {
			levelP := r.Intn(len(ch.P))
			nbPi := levelP + 1
			size := params.BaseRNSDecompositionVectorSize(levelQ, levelP)
			mQ := ch.Q[:levelQ+1]
			X := c02FamValues(c, N, c02ProdBig(mQ), nil)
			c2 := c02PolyFromRows(N, c02RowsOf(X, mQ))
			isNTT := r.Intn(2)
			if isNTT == 1 {
				ringQ.AtLevel(levelQ).NTT(c2, c2)
			}
			in := c02RowsCopy(c2, levelQ+1)
			rqp := ringqp.Ring{RingQ: ringQ, RingP: ringP}
			dq := make([]ringqp.Poly, size)
			for i := range dq {
				dq[i] = rqp.NewPoly()
			}
			out := Try(func() string {
				evals[levelQ%len(evals)].DecomposeNTT(levelQ, levelP, nbPi, c2, isNTT == 1, dq)
				parts := make([]string, size)
				for i := range dq {
					parts[i] = Mat(c02RowsCopy(dq[i].Q, levelQ+1)) + "|" + Mat(c02RowsCopy(dq[i].P, levelP+1))
				}
				return strings.Join(parts, "/")
			})
			c.Emit(fmt.Sprintf(op+" %d %s %s %s %s %d %d %d %d %d %s", N, Vec(ch.Q), Vec(gQ), Vec(ch.P), Vec(gP), levelQ, levelP, nbPi, size, isNTT, Mat(in)), out)
			c.Count(op)
		}
	}
}

var _ = strings.Contains
