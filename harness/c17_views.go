package main

// C17 probes on DERIVED samplers: every view obtained from a sampler (AtLevel(l) for every l, views
// of views, WithPRNG where it exists) must behave as a sampler CONSTRUCTED directly on the level-l
// ring with the same distribution parameters and the same Montgomery flag:
//
//   - the expected sample is replayed on a twin: a PLAIN (montgomery=false) sampler constructed with
//     NewSampler on ring.AtLevel(l), over a keyed PRNG with the same key, performing the same calls;
//   - representation: limb i of the view's sample must be v_i (plain) or v_i * 2^64 mod q_i
//     (Montgomery), for every i <= l; for the ternary / Gaussian samplers the plain limbs must be
//     the residues of ONE signed integer (checked on the twin's sample);
//   - Read leaves the rows above the level untouched, ReadNew returns l+1 rows, ReadAndAdd(a) is
//     a + sample;
//   - a second call (ReadNew) on the same view checks the state left by the first one.
//
// One probe key per sampler type and kind of view: C17/<sampler>.<view>/representation.

import (
	"fmt"
	"strings"

	"github.com/tuneinsight/lattigo/v6/ring"
	"github.com/tuneinsight/lattigo/v6/ring/ringqp"
)

type c17View struct {
	name   string // base, AtLevel, AtLevel.AtLevel, WithPRNG, AtLevel.WithPRNG
	levels []int  // successive AtLevel arguments; the last one is the effective level
	with   bool   // WithPRNG at the end (uniform only)
}

func c17SamplerName(k c17Kind) string {
	switch k.tag {
	case "u":
		return "Uniform"
	case "tp":
		return "TernaryP"
	case "th":
		return "TernaryH"
	default:
		if k.sigma > 0x20000000000000 {
			return "GaussianBig"
		}
		return "Gaussian"
	}
}

// expected rows of one call from the twin's plain sample
func c17Expect(r *ring.Ring, lvl int, mont bool, op byte, before [][]uint64, plain ring.Poly) [][]uint64 {
	rl := r.AtLevel(lvl)
	e := rl.NewPoly()
	for i := 0; i <= lvl; i++ {
		copy(e.Coeffs[i], plain.Coeffs[i])
	}
	if mont {
		rl.MForm(e, e) // v -> v * 2^64 mod q_i
	}
	switch op {
	case 'n':
		return c17CopyRows(e.Coeffs)
	case 'r':
		out := c17CopyRows(before)
		for i := 0; i <= lvl; i++ {
			copy(out[i], e.Coeffs[i])
		}
		return out
	default:
		out := c17CopyRows(before)
		a := ring.Poly{Coeffs: c17CopyRows(before[:lvl+1])}
		rl.Add(a, e, a)
		for i := 0; i <= lvl; i++ {
			copy(out[i], a.Coeffs[i])
		}
		return out
	}
}

func c17FirstDiff(got, want [][]uint64) string {
	if len(got) != len(want) {
		return fmt.Sprintf("%d rows, want %d", len(got), len(want))
	}
	for i := range got {
		if len(got[i]) != len(want[i]) {
			return fmt.Sprintf("row %d has %d coefficients, want %d", i, len(got[i]), len(want[i]))
		}
		n := 0
		first := -1
		for j := range got[i] {
			if got[i][j] != want[i][j] {
				if first < 0 {
					first = j
				}
				n++
			}
		}
		if n > 0 {
			return fmt.Sprintf("row %d: %d of %d limbs differ, first at %d: got %d want %d", i, n, len(got[i]), first, got[i][first], want[i][first])
		}
	}
	return ""
}

// one signed integer on every limb (ternary / Gaussian plain samples)
func c17OneInteger(chain []uint64, lvl int, plain ring.Poly, bound uint64) string {
	if lvl == 0 {
		return ""
	}
	for _, q := range chain[:lvl+1] {
		if q <= 2*bound {
			return "" // not decidable from the residues
		}
	}
	N := len(plain.Coeffs[0])
	for j := 0; j < N; j++ {
		limbs := make([]uint64, lvl+1)
		for i := range limbs {
			limbs[i] = plain.Coeffs[i][j]
		}
		if _, ok := c17Centre(chain[:lvl+1], limbs); !ok {
			return fmt.Sprintf("twin sample: limbs %v at coefficient %d are not residues of one integer", limbs, j)
		}
	}
	return ""
}

func c17ProbeViews(c *Ctx) {
	N := 16
	chain := []uint64{65537, 1073741953, 35184372088321}
	r := c17Ring(N, chain)
	kinds := []c17Kind{
		{tag: "u"},
		{tag: "tp", P: 2.0 / 3.0}, {tag: "tp", P: 2.0 / 3.0, mont: true},
		{tag: "tp", P: 0.5}, {tag: "tp", P: 0.5, mont: true},
		{tag: "th", H: 5}, {tag: "th", H: 5, mont: true},
		{tag: "g", sigma: 3.2, bound: 19.2}, {tag: "g", sigma: 3.2, bound: 19.2, mont: true},
		{tag: "g", sigma: c17SigmaBoundBig[0][0], bound: c17SigmaBoundBig[0][1]},
		{tag: "g", sigma: c17SigmaBoundBig[0][0], bound: c17SigmaBoundBig[0][1], mont: true},
	}
	var views []c17View
	views = append(views, c17View{name: "base", levels: nil})
	for l := 0; l < len(chain); l++ {
		views = append(views, c17View{name: "AtLevel", levels: []int{l}})
		for l2 := 0; l2 < len(chain); l2++ {
			views = append(views, c17View{name: "AtLevel.AtLevel", levels: []int{l, l2}})
		}
	}
	views = append(views, c17View{name: "AtLevel.AtLevel.AtLevel", levels: []int{0, 2, 1}})
	rounds := c.Scale(1, 6)
	for round := 0; round < rounds; round++ {
		for _, kd := range kinds {
			vs := views
			if kd.tag == "u" {
				vs = append(append([]c17View{}, views...), c17View{name: "WithPRNG", with: true})
				for l := 0; l < len(chain); l++ {
					vs = append(vs, c17View{name: "AtLevel.WithPRNG", levels: []int{l}, with: true})
				}
			}
			for _, v := range vs {
				for _, op := range []byte{'r', 'n', 'a'} {
					c17ProbeOneView(c, r, N, chain, kd, v, op)
				}
			}
		}
	}
	c17ProbeViewsQP(c)
	c17ProbeDeriveUniform(c, r, N, chain)
	c17ProbeDeriveQP(c)
	// shared state: a call on the base sampler, then a call on a view derived BEFORE or AFTER it,
	// continues the base sampler's stream (PRNG, random buffer, pointer)
	for round := 0; round < rounds; round++ {
		for _, kd := range kinds {
			for l := 0; l < len(chain); l++ {
				for _, early := range []bool{false, true} {
					for _, op := range []byte{'r', 'n', 'a'} {
						for _, pre := range []int{0, 1, 3} {
							c17ProbeSharedState(c, r, N, chain, kd, l, early, op, pre)
						}
					}
				}
			}
		}
	}
}

// base.ReadNew(); view.op(): the twin is ONE plain full-level sampler doing two full-level calls.
// The ternary and Gaussian samplers consume the same bytes at every level, so rows 0..l of the
// twin's second sample are the expected sample at level l; for the uniform sampler (consumption
// depends on the level) only views at the top level are compared.
func c17ProbeSharedState(c *Ctx, r *ring.Ring, N int, chain []uint64, kd c17Kind, l int, early bool, op byte, pre int) {
	top := len(chain) - 1
	if kd.tag == "u" && l != top {
		return
	}
	key := c.rng.Bytes(16)
	fk := "C17/" + c17SamplerName(kd) + ".AtLevel/shared-state"
	args := fmt.Sprintf("kind=%s level=%d readsBefore=%d derivedBeforeBaseCall=%v op=%c N=%d Q=%s key=%s", kd.String(), l, pre, early, op, N, Vec(chain), Hex(key))
	before := c17Regs(c, 1, N, chain, 0)[0]
	detail := Try(func() string {
		base, err := c17NewSampler(c17Keyed(key), r, kd)
		if err != nil {
			return "constructor: " + err.Error()
		}
		kp := kd
		kp.mont = false
		twin, _ := c17NewSampler(c17Keyed(key), r, kp)
		for k := 0; k < pre; k++ { // the receiver has been read (its buffer is partially consumed)
			if d := c17FirstDiff(base.ReadNew().Coeffs, c17Expect(r, top, kd.mont, 'n', nil, twin.ReadNew())); d != "" {
				return fmt.Sprintf("read %d before deriving: %s", k, d)
			}
		}
		var view ring.Sampler
		if early {
			view = base.AtLevel(top).AtLevel(l)
		}
		first := base.ReadNew()
		plain1 := twin.ReadNew()
		if d := c17FirstDiff(first.Coeffs, c17Expect(r, top, kd.mont, 'n', nil, plain1)); d != "" {
			return "base call: " + d
		}
		if !early {
			view = base.AtLevel(l)
		}
		pol := ring.Poly{Coeffs: c17CopyRows(before)}
		switch op {
		case 'r':
			view.Read(pol)
		case 'n':
			pol = view.ReadNew()
		default:
			view.ReadAndAdd(pol)
		}
		plain2 := twin.ReadNew()
		if d := c17FirstDiff(pol.Coeffs, c17Expect(r, l, kd.mont, op, before, plain2)); d != "" {
			return "view call after the base call: " + d
		}
		// and back on the base sampler
		third := base.ReadNew()
		plain3 := twin.ReadNew()
		if d := c17FirstDiff(third.Coeffs, c17Expect(r, top, kd.mont, 'n', nil, plain3)); d != "" {
			return "base call after the view call: " + d
		}
		return ""
	})
	if detail == "panic" {
		detail = "panic in the derived sampler"
	}
	c.Probe("view-shared-state", args, fk, detail)
}

func c17ProbeOneView(c *Ctx, r *ring.Ring, N int, chain []uint64, kd c17Kind, v c17View, op byte) {
	key := c.rng.Bytes(16)
	key2 := c.rng.Bytes(16)
	lvl := len(chain) - 1
	if len(v.levels) > 0 {
		lvl = v.levels[len(v.levels)-1]
	}
	fk := "C17/" + c17SamplerName(kd) + "." + v.name + "/representation"
	args := fmt.Sprintf("kind=%s view=%s%v op=%c N=%d Q=%s key=%s key2=%s", kd.String(), v.name, v.levels, op, N, Vec(chain), Hex(key), Hex(key2))
	before := c17Regs(c, 1, N, chain, 0)[0]
	detail := Try(func() string {
		// the derived sampler under test
		base, err := c17NewSampler(c17Keyed(key), r, kd)
		if err != nil {
			return "constructor: " + err.Error()
		}
		twinKey := key
		s := base
		for _, l := range v.levels {
			s = s.AtLevel(l)
		}
		if v.with {
			s = s.(*ring.UniformSampler).WithPRNG(c17Keyed(key2))
			twinKey = key2
		}
		// the twin: plain sampler constructed directly on the level-l ring
		kp := kd
		kp.mont = false
		twin, err := c17NewSampler(c17Keyed(twinKey), r.AtLevel(lvl), kp)
		if err != nil {
			return "twin constructor: " + err.Error()
		}
		pol := ring.Poly{Coeffs: c17CopyRows(before)}
		switch op {
		case 'r':
			s.Read(pol)
		case 'n':
			pol = s.ReadNew()
		default:
			s.ReadAndAdd(pol)
		}
		plain := twin.ReadNew()
		if d := c17FirstDiff(pol.Coeffs, c17Expect(r, lvl, kd.mont, op, before, plain)); d != "" {
			return "first call: " + d
		}
		if kd.tag != "u" {
			b := uint64(1)
			if kd.tag == "g" {
				b = 20
				if kd.sigma > 100 {
					b = 1 << 62 // big-number path: residues of a huge integer, only reduction is checked
				}
			}
			if d := c17OneInteger(chain, lvl, plain, b); d != "" {
				return d
			}
		}
		// second call on the same view: state left behind by the first one
		got2 := s.ReadNew()
		plain2 := twin.ReadNew()
		if d := c17FirstDiff(got2.Coeffs, c17Expect(r, lvl, kd.mont, 'n', nil, plain2)); d != "" {
			return "second call (ReadNew): " + d
		}
		return ""
	})
	if detail == "panic" {
		detail = "panic in the derived sampler"
	}
	c.Probe("view-representation", args, fk, detail)
}

// ringqp.UniformSampler: AtLevel(lq, lp), views of views, WithPRNG
func c17ProbeViewsQP(c *Ctx) {
	N := 16
	cQ, cP := []uint64{65537, 1073741953}, []uint64{7937, 35184372088321}
	rqp := ringqp.Ring{RingQ: c17Ring(N, cQ), RingP: c17Ring(N, cP)}
	type vq struct {
		name   string
		levels [][2]int
		with   bool
	}
	var vs []vq
	vs = append(vs, vq{name: "base"}, vq{name: "WithPRNG", with: true})
	for lq := -1; lq < len(cQ); lq++ {
		for lp := -1; lp < len(cP); lp++ {
			if lq < 0 && lp < 0 {
				continue
			}
			vs = append(vs, vq{name: "AtLevel", levels: [][2]int{{lq, lp}}})
			vs = append(vs, vq{name: "AtLevel.WithPRNG", levels: [][2]int{{lq, lp}}, with: true})
			if lq >= 0 && lp >= 0 {
				vs = append(vs, vq{name: "AtLevel.AtLevel", levels: [][2]int{{len(cQ) - 1, len(cP) - 1}, {lq, lp}}})
				vs = append(vs, vq{name: "AtLevel.AtLevel", levels: [][2]int{{lq, lp}, {0, 0}}})
				vs = append(vs, vq{name: "AtLevel.AtLevel", levels: [][2]int{{lq, lp}, {len(cQ) - 1, len(cP) - 1}}}) // back up
			}
		}
	}
	for _, v := range vs {
		for _, op := range []byte{'r', 'n'} {
			key, key2 := c.rng.Bytes(16), c.rng.Bytes(16)
			lq, lp := len(cQ)-1, len(cP)-1
			if len(v.levels) > 0 {
				lq, lp = v.levels[len(v.levels)-1][0], v.levels[len(v.levels)-1][1]
			}
			fk := "C17/ringqp.Uniform." + v.name + "/representation"
			args := fmt.Sprintf("view=%s%v op=%c N=%d Q=%s P=%s key=%s key2=%s", v.name, v.levels, op, N, Vec(cQ), Vec(cP), Hex(key), Hex(key2))
			detail := Try(func() string {
				s := ringqp.NewUniformSampler(c17Keyed(key), rqp)
				twinKey := key
				for _, l := range v.levels {
					s = s.AtLevel(l[0], l[1])
				}
				if v.with {
					s = s.WithPRNG(c17Keyed(key2))
					twinKey = key2
				}
				twin := ringqp.NewUniformSampler(c17Keyed(twinKey), rqp.AtLevel(lq, lp))
				for call := 0; call < 2; call++ {
					var got ringqp.Poly
					fill := uint64(7)
					if op == 'n' || call == 1 {
						got = s.ReadNew()
					} else {
						got = rqp.NewPoly()
						for _, m := range [][][]uint64{got.Q.Coeffs, got.P.Coeffs} {
							for _, row := range m {
								for j := range row {
									row[j] = fill
								}
							}
						}
						s.Read(got)
					}
					want := twin.ReadNew()
					for side, pr := range [][2]ring.Poly{{got.Q, want.Q}, {got.P, want.P}} {
						g, w := pr[0].Coeffs, pr[1].Coeffs
						lvl := lq
						ch := cQ
						if side == 1 {
							lvl, ch = lp, cP
						}
						for i := range g {
							for j := range g[i] {
								if i <= lvl {
									if g[i][j] != w[i][j] {
										return fmt.Sprintf("call %d side %d row %d coefficient %d: got %d want %d", call, side, i, j, g[i][j], w[i][j])
									}
									if g[i][j] >= ch[i] {
										return fmt.Sprintf("call %d side %d row %d: limb %d >= q", call, side, i, g[i][j])
									}
								} else if g[i][j] != fill {
									return fmt.Sprintf("call %d side %d: row %d above the level was written", call, side, i)
								}
							}
						}
						if (op == 'n' || call == 1) && len(g) != lvl+1 {
							return fmt.Sprintf("call %d side %d: ReadNew returned %d rows, want %d", call, side, len(g), lvl+1)
						}
					}
				}
				return ""
			})
			if detail == "panic" {
				detail = "panic in the derived sampler"
			}
			c.Probe("view-representation", args, fk, detail)
		}
	}
}

// ---- derivations of a sampler that HAS BEEN READ: the unbuffered word-stream specification ----

// c17Words is the specification of the uniform sampler (Lean: specRows, proved equal to the
// buffered sampler in uniform_consumes): big-endian 64-bit words of the generator's stream, taken
// one after the other, masked, rejected when >= q.
type c17Words struct {
	data []byte
	pos  int
}

func (w *c17Words) sample(chain []uint64, lvl, N int) ring.Poly {
	p := ring.NewPoly(N, lvl)
	for j := 0; j <= lvl; j++ {
		q := chain[j]
		mask := uint64(1)<<uint(bitsLen64(q-1)) - 1
		for i := 0; i < N; i++ {
			for {
				var v uint64
				for z := 0; z < 8; z++ {
					v = v<<8 | uint64(w.data[w.pos+z])
				}
				w.pos += 8
				if v &= mask; v < q {
					p.Coeffs[j][i] = v
					break
				}
			}
		}
	}
	return p
}

// every way of deriving a uniform sampler, after k reads of the receiver, then interleaved reads of
// the receiver and of the derived sampler: each PRNG's word stream must be consumed in order by the
// samplers attached to it and by nobody else.
func c17ProbeDeriveUniform(c *Ctx, r *ring.Ring, N int, chain []uint64) {
	top := len(chain) - 1
	derivs := []string{"AtLevel", "AtLevel.AtLevel", "WithPRNG", "AtLevel.WithPRNG", "WithPRNG.AtLevel", "WithPRNG.WithPRNG"}
	for round := 0; round < c.Scale(2, 12); round++ {
		for _, dv := range derivs {
			for _, pre := range []int{0, 1, 3} {
				k1, k2, k3 := c.rng.Bytes(16), c.rng.Bytes(16), c.rng.Bytes(16)
				l1, l2 := c.rng.Intn(len(chain)), c.rng.Intn(len(chain))
				fk := "C17/Uniform." + dv + "/inherits-receiver-buffer"
				if !strings.Contains(dv, "WithPRNG") {
					fk = "C17/Uniform." + dv + "/shared-state"
				}
				type step struct {
					who   int // 0 receiver, 1 derived
					level int
					op    byte
				}
				var steps []step
				for k := 0; k < 6; k++ {
					steps = append(steps, step{(k + 1) % 2, c.rng.Intn(len(chain)), "rna"[c.rng.Intn(3)]})
				}
				preLv := make([]int, pre)
				for k := range preLv {
					preLv[k] = c.rng.Intn(len(chain))
				}
				args := fmt.Sprintf("derive=%s l1=%d l2=%d readsBefore=%v steps=%v N=%d Q=%s key1=%s key2=%s key3=%s", dv, l1, l2, preLv, steps, N, Vec(chain), Hex(k1), Hex(k2), Hex(k3))
				args = strings.ReplaceAll(strings.ReplaceAll(args, "} {", "};{"), " ", ",")
				befores := c17Regs(c, len(steps), N, chain, 0)
				detail := Try(func() string {
					wA := &c17Words{data: c17XOF(k1, 1<<15)}
					wB := &c17Words{data: c17XOF(k2, 1<<15)}
					wC := &c17Words{data: c17XOF(k3, 1<<15)}
					recv := ring.NewUniformSampler(c17Keyed(k1), r)
					for k, lv := range preLv {
						got := recv.AtLevel(lv).ReadNew()
						if d := c17FirstDiff(got.Coeffs, wA.sample(chain, lv, N).Coeffs); d != "" {
							return fmt.Sprintf("receiver read %d before deriving: %s", k, d)
						}
					}
					// derive
					var der ring.Sampler
					wD := wA      // the word stream the derived sampler is attached to
					dLevel := top // its own level (before the per-step AtLevel)
					switch dv {
					case "AtLevel":
						der, dLevel = recv.AtLevel(l1), l1
					case "AtLevel.AtLevel":
						der, dLevel = recv.AtLevel(l1).AtLevel(l2), l2
					case "WithPRNG":
						der, wD = recv.WithPRNG(c17Keyed(k2)), wB
					case "AtLevel.WithPRNG":
						der, wD, dLevel = recv.AtLevel(l1).(*ring.UniformSampler).WithPRNG(c17Keyed(k2)), wB, l1
					case "WithPRNG.AtLevel":
						der, wD, dLevel = recv.WithPRNG(c17Keyed(k2)).AtLevel(l1), wB, l1
					default: // WithPRNG.WithPRNG: the intermediate sampler is read once, then re-derived
						mid := recv.WithPRNG(c17Keyed(k2))
						if d := c17FirstDiff(mid.ReadNew().Coeffs, wB.sample(chain, top, N).Coeffs); d != "" {
							return "intermediate WithPRNG sampler: " + d
						}
						der, wD = mid.WithPRNG(c17Keyed(k3)), wC
					}
					// the derived sampler itself (no further AtLevel) must sit at dLevel
					if got := der.ReadNew(); true {
						if d := c17FirstDiff(got.Coeffs, wD.sample(chain, dLevel, N).Coeffs); d != "" {
							return "first read of the derived sampler: " + d
						}
					}
					for i, st := range steps {
						s, w := ring.Sampler(recv), wA
						if st.who == 1 {
							s, w = der, wD
						}
						pol := ring.Poly{Coeffs: c17CopyRows(befores[i])}
						v := s.AtLevel(st.level)
						switch st.op {
						case 'r':
							v.Read(pol)
						case 'n':
							pol = v.ReadNew()
						default:
							v.ReadAndAdd(pol)
						}
						want := c17Expect(r, st.level, false, st.op, befores[i], w.sample(chain, st.level, N))
						if d := c17FirstDiff(pol.Coeffs, want); d != "" {
							return fmt.Sprintf("step %d (%s, level %d, %c): %s", i, []string{"receiver", "derived"}[st.who], st.level, st.op, d)
						}
					}
					return ""
				})
				if detail == "panic" {
					detail = "panic"
				}
				c.Probe("derive-after-reads", args, fk, detail)
			}
		}
	}
}

// ringqp.UniformSampler: WithPRNG / AtLevel.WithPRNG after k reads of the receiver; the derived
// sampler equals a fresh sampler on the new PRNG, the receiver equals its own uninterrupted twin.
func c17ProbeDeriveQP(c *Ctx) {
	N := 16
	cQ, cP := []uint64{65537, 1073741953}, []uint64{7937, 35184372088321}
	rqp := ringqp.Ring{RingQ: c17Ring(N, cQ), RingP: c17Ring(N, cP)}
	same := func(a, b ringqp.Poly) string {
		if d := c17FirstDiff(a.Q.Coeffs, b.Q.Coeffs); d != "" {
			return "Q: " + d
		}
		if d := c17FirstDiff(a.P.Coeffs, b.P.Coeffs); d != "" {
			return "P: " + d
		}
		return ""
	}
	for round := 0; round < c.Scale(2, 12); round++ {
		for _, dv := range []string{"WithPRNG", "AtLevel.WithPRNG", "AtLevel"} {
			for _, pre := range []int{0, 1, 3} {
				k1, k2 := c.rng.Bytes(16), c.rng.Bytes(16)
				lq, lp := c.rng.Intn(len(cQ)), c.rng.Intn(len(cP))
				fk := "C17/ringqp.Uniform." + dv + "/inherits-receiver-buffer"
				if dv == "AtLevel" {
					fk = "C17/ringqp.Uniform.AtLevel/shared-state"
					lq, lp = len(cQ)-1, len(cP)-1 // the twin is one full-level sampler
				}
				args := fmt.Sprintf("derive=%s lq=%d lp=%d readsBefore=%d N=%d Q=%s P=%s key1=%s key2=%s", dv, lq, lp, pre, N, Vec(cQ), Vec(cP), Hex(k1), Hex(k2))
				detail := Try(func() string {
					recv := ringqp.NewUniformSampler(c17Keyed(k1), rqp)
					twinR := ringqp.NewUniformSampler(c17Keyed(k1), rqp)
					for k := 0; k < pre; k++ {
						if d := same(recv.ReadNew(), twinR.ReadNew()); d != "" {
							return fmt.Sprintf("receiver read %d: %s", k, d)
						}
					}
					var der, twinD ringqp.UniformSampler
					switch dv {
					case "WithPRNG":
						der = recv.WithPRNG(c17Keyed(k2))
						twinD = ringqp.NewUniformSampler(c17Keyed(k2), rqp)
					case "AtLevel.WithPRNG":
						der = recv.AtLevel(lq, lp).WithPRNG(c17Keyed(k2))
						twinD = ringqp.NewUniformSampler(c17Keyed(k2), rqp.AtLevel(lq, lp))
					default:
						der = recv.AtLevel(lq, lp)
						twinD = twinR // continues the receiver's stream
					}
					for k := 0; k < 3; k++ {
						if d := same(der.ReadNew(), twinD.ReadNew()); d != "" {
							return fmt.Sprintf("derived read %d: %s", k, d)
						}
						if d := same(recv.ReadNew(), twinR.ReadNew()); d != "" {
							return fmt.Sprintf("receiver read %d after deriving: %s", k, d)
						}
					}
					return ""
				})
				if detail == "panic" {
					detail = "panic"
				}
				c.Probe("derive-after-reads", args, fk, detail)
			}
		}
	}
}

// ---- fixed weight: the sign of the i-th selected coefficient is the i-th bit of the sign bytes ----
//
// Concrete check on the real code (Lean: sparse_signs_are_stream_bits), for H up to N with N >= 1024,
// i.e. well past 256 selected coefficients.  The replay PRNG serves ceil(H/8) fresh sign bytes, then
// the 4-byte position draws; the order of the selected positions is known to the harness because it
// chooses the draws (always index 0, always the last index) or replays the index selection on the
// bytes it served (random draws).
func c17ProbeSparseSigns(c *Ctx) {
	chain := []uint64{12289, 65537} // = 1 mod 4096
	k := 0
	for _, N := range []int{1024, 2048} {
		r := c17Ring(N, chain)
		hs := []int{255, 256, 257, 300, 511, 512, 1000, N - 1, N}
		if c.Thorough() {
			hs = append(hs, 1, 8, 9, 264, 513, 768, 1023, 1024, 1025, N+5)
		}
		for _, H := range hs {
			for pat := 0; pat < 3; pat++ {
				k++
				hw := H
				if hw > N {
					hw = N
				}
				signs := c.rng.Bytes(((hw+7)/8 + 7) / 8 * 8)[:(hw+7)/8]
				if pat == 0 { // every bit i >= 256 differs from bit i mod 256
					for b := 32; b < len(signs); b++ {
						signs[b] = ^signs[b%32]
					}
				}
				st := (&c17Stream{}).Hex(signs)
				order := make([]int, 0, hw) // position selected at step i
				index := make([]int, N)
				for i := range index {
					index[i] = i
				}
				for i := 0; i < hw; i++ {
					n := N - i
					mask := uint32(1)<<uint(bitsLen64(uint64(n))) - 1
					var j int
					switch pat {
					case 0:
						j = 0
						st.Rep(0, 4)
					case 1:
						j = n - 1
						st.Hex([]byte{byte(j >> 24), byte(j >> 16), byte(j >> 8), byte(j)})
					default:
						for {
							b := c.rng.Bytes(8)[:4]
							st.Hex(b)
							v := (uint32(b[0])<<24 | uint32(b[1])<<16 | uint32(b[2])<<8 | uint32(b[3])) & mask
							if int(v) < n {
								j = int(v)
								break
							}
						}
					}
					order = append(order, index[j])
					index[j] = index[n-1]
					index = index[:n-1]
				}
				op := "rna"[k%3]
				mont := k%2 == 0
				lvl := k % len(chain)
				before := c17Regs(c, 1, N, chain, 0)[0]
				args := fmt.Sprintf("N=%d Q=%s H=%d mont=%v op=%c level=%d draws=%s signs=%s", N, Vec(chain), H, mont, op, lvl, []string{"first", "last", "random"}[pat], Hex(signs))
				detail := Try(func() string {
					prng := &c17Replay{data: st.data}
					s, err := ring.NewTernarySampler(prng, r, ring.Ternary{H: H}, mont)
					if err != nil {
						return "constructor: " + err.Error()
					}
					v := s.AtLevel(lvl)
					pol := ring.Poly{Coeffs: c17CopyRows(before)}
					switch op {
					case 'r':
						v.Read(pol)
					case 'n':
						pol = v.ReadNew()
					default:
						v.ReadAndAdd(pol)
					}
					if prng.pos != len(st.data) {
						return fmt.Sprintf("consumed %d bytes, want %d", prng.pos, len(st.data))
					}
					plain := ring.NewPoly(N, lvl)
					for i, p := range order {
						bit := (signs[i/8] >> uint(i%8)) & 1 // the i-th fresh bit of the stream
						for row := 0; row <= lvl; row++ {
							if bit == 0 {
								plain.Coeffs[row][p] = 1
							} else {
								plain.Coeffs[row][p] = chain[row] - 1
							}
						}
					}
					want := c17Expect(r, lvl, mont, op, before, plain)
					if d := c17FirstDiff(pol.Coeffs, want); d != "" {
						// which selected coefficient is the first wrong one?
						for i, p := range order {
							if pol.Coeffs[0][p] != want[0][p] {
								return fmt.Sprintf("%s; first wrong selected coefficient is number %d (position %d)", d, i, p)
							}
						}
						return d
					}
					return ""
				})
				if detail == "panic" {
					detail = "panic"
				}
				c.Probe("sparse-signs-are-stream-bits", args, "C17/TernaryH/sign-bits-are-stream-bits", detail)
			}
		}
	}
}
