package main

import (
	"fmt"
	"math/big"
	"math/bits"
	"regexp"
	"strconv"
	"strings"
	"time"

	"github.com/tuneinsight/lattigo/v6/core/rlwe"
	"github.com/tuneinsight/lattigo/v6/ring"
	"github.com/tuneinsight/lattigo/v6/schemes/bgv"
)

// ---------- canonical formatting ----------

func c19OptVec(v []uint64) string {
	if v == nil {
		return "nil"
	}
	return Vec(v)
}

func c19OptIVec(v []int) string {
	if v == nil {
		return "nil"
	}
	return IVec(v)
}

// c19Lit is the literal the harness manipulates (a superset of rlwe.ParametersLiteral's
// acceptance-relevant fields, printable on one line).
type c19Lit struct {
	LogN, Root, RT int
	Q, P           []uint64
	LogQ, LogP     []int
	XsH            int // -1: default (Ternary P=2/3); h>=0: Ternary{H:h}
	XeS            int // -1: default; s>=0: DiscreteGaussian{Sigma:s,Bound:6s}
}

func (l c19Lit) line() string {
	xs, xe := "def", "def"
	if l.XsH >= 0 {
		xs = "H:" + I(l.XsH)
	}
	if l.XeS >= 0 {
		xe = "G:" + I(l.XeS)
	}
	return fmt.Sprintf("logN=%d root=%d rt=%d Q=%s P=%s LogQ=%s LogP=%s xs=%s xe=%s",
		l.LogN, l.Root, l.RT, c19OptVec(l.Q), c19OptVec(l.P), c19OptIVec(l.LogQ), c19OptIVec(l.LogP), xs, xe)
}

func (l c19Lit) xs() ring.DistributionParameters {
	if l.XsH >= 0 {
		return ring.Ternary{H: l.XsH}
	}
	return nil
}

func (l c19Lit) xe() ring.DistributionParameters {
	if l.XeS >= 0 {
		return ring.DiscreteGaussian{Sigma: float64(l.XeS), Bound: 6 * float64(l.XeS)}
	}
	return nil
}

func (l c19Lit) rlwe() rlwe.ParametersLiteral {
	return rlwe.ParametersLiteral{LogN: l.LogN, LogNthRoot: l.Root, Q: l.Q, P: l.P, LogQ: l.LogQ, LogP: l.LogP,
		Xs: l.xs(), Xe: l.xe(), RingType: ring.Type(l.RT), NTTFlag: true}
}

// ---------- error classes ----------

var (
	reIdx    = regexp.MustCompile(`\(i=(\d+)\)`)
	reLogIdx = regexp.MustCompile(`log[QP]\[(\d+)\]`)
	reMod    = regexp.MustCompile(`invalid modulus: (\d+)`)
)

func c19RingClass(s string) string {
	switch {
	case strings.Contains(s, "invalid ring degree"):
		return "ringDegree"
	case strings.Contains(s, "must be a non-empty"):
		return "emptyChain"
	case strings.Contains(s, "not distinct"):
		return "notDistinct"
	case strings.Contains(s, "is not prime)"):
		return "notPrime:" + reMod.FindStringSubmatch(s)[1]
	case strings.Contains(s, "!= 1 mod NthRoot"):
		return "notNTT:" + reMod.FindStringSubmatch(s)[1]
	case strings.Contains(s, "invalid ring type"):
		return "ringType"
	case strings.Contains(s, "invalid t parameters (missing)"):
		return "missing"
	}
	return "?" + c19Sanitize(s)
}

func c19Sanitize(s string) string {
	s = strings.Map(func(r rune) rune {
		if r == ' ' || r == '\n' || r == '\t' {
			return '_'
		}
		return r
	}, s)
	if len(s) > 80 {
		s = s[:80]
	}
	return s
}

// c19Class maps an error of the rlwe/ckks/bgv constructors to its canonical class.
func c19Class(err error) string {
	s := err.Error()
	switch {
	case strings.Contains(s, "both Q and LogQ fields are empty"):
		return "err:noQ"
	case strings.Contains(s, "both Q and LogQ fields are set"):
		return "err:bothQ"
	case strings.Contains(s, "both P and LogP fields are set"):
		return "err:bothP"
	case strings.Contains(s, "unable to generate"):
		switch {
		case strings.Contains(s, "logQ[") && strings.Contains(s, "smaller than LogNthRoot"):
			return "err:gen:logQbelowRoot:" + reLogIdx.FindStringSubmatch(s)[1]
		case strings.Contains(s, "logP[") && strings.Contains(s, "smaller than LogNthRoot"):
			return "err:gen:logPbelowRoot:" + reLogIdx.FindStringSubmatch(s)[1]
		case strings.Contains(s, "logQ["):
			return "err:gen:logQsize:" + reLogIdx.FindStringSubmatch(s)[1]
		case strings.Contains(s, "logP["):
			return "err:gen:logPsize:" + reLogIdx.FindStringSubmatch(s)[1]
		case strings.Contains(s, "LogNthRoot=") && strings.Contains(s, "is not in"):
			return "err:gen:logNthRoot"
		case strings.Contains(s, "cannot GenModuli"):
			return "err:gen:genExhausted"
		case strings.Contains(s, "MaxLogN"):
			return "err:gen:logNmax"
		case strings.Contains(s, "MinLogN"):
			return "err:gen:logNmin"
		}
	case strings.Contains(s, "is larger than MaxLogN"):
		return "err:logNmax"
	case strings.Contains(s, "is smaller than MinLogN"):
		return "err:logNmin"
	case strings.Contains(s, "a Qi bit-size"):
		return "err:qBits:" + reIdx.FindStringSubmatch(s)[1]
	case strings.Contains(s, "a Qi (i="):
		return "err:qPrime:" + reIdx.FindStringSubmatch(s)[1]
	case strings.Contains(s, "a Pi bit-size"):
		return "err:pBits:" + reIdx.FindStringSubmatch(s)[1]
	case strings.Contains(s, "a Pi (i="):
		return "err:pPrime:" + reIdx.FindStringSubmatch(s)[1]
	case strings.Contains(s, "Q and P are not pairwise distinct"):
		return "err:qpNotDistinct"
	case strings.Contains(s, "initRings/ringQ:"):
		return "err:ringQ:" + c19RingClass(s)
	case strings.Contains(s, "initRings/ringP:"):
		return "err:ringP:" + c19RingClass(s)
	case strings.Contains(s, "HammingWeight is 0") && strings.Contains(s, "standard deviation 0"):
		return "err:warnXsXe"
	case strings.Contains(s, "HammingWeight is 0"):
		return "err:warnXs"
	case strings.Contains(s, "warning error standard deviation 0"):
		return "err:warnXe"
	case strings.Contains(s, "LogDefaultScale="):
		return "err:logDefaultScale"
	// bgv
	case strings.Contains(s, "invalid parameters: t = 0"):
		return "err:t0"
	case strings.Contains(s, "t|Q"):
		return "err:tInQ"
	case strings.Contains(s, "is larger than Q[0]"):
		return "err:tBig"
	case strings.Contains(s, "cyclotomic order < 16"):
		return "err:order"
	case strings.Contains(s, "provided plaintext modulus t is invalid"):
		return "err:ringT:" + c19RingClass(s)
	case strings.Contains(s, "cannot NextDownstreamPrime"):
		return "err:genExhausted"
	}
	if c := c19RingClass(s); !strings.HasPrefix(c, "?") {
		return "err:ringQMul:" + c
	}
	return "err:?" + c19Sanitize(s)
}

// ---------- running with panic / hang capture ----------

// c19Run runs f; a panic is "panic", no answer within d is "hang" (the goroutine is abandoned).
func c19Run(d time.Duration, f func() string) string {
	ch := make(chan string, 1)
	go func() { ch <- Try(f) }()
	select {
	case s := <-ch:
		return s
	case <-time.After(d):
		return "hang"
	}
}

// ---------- primes ----------

// c19PrimeWithBits returns a prime of exactly `b` bits, ≡ 1 mod m when one exists in a short
// search window starting at a random point (else any prime of b bits), 0 if none (b<2).
func c19PrimeWithBits(c *Ctx, b int, m uint64, avoid map[uint64]bool) uint64 {
	if b < 2 || b > 64 {
		return 0
	}
	lo := uint64(1) << uint(b-1)
	var hi uint64
	if b == 64 {
		hi = ^uint64(0)
	} else {
		hi = (uint64(1) << uint(b)) - 1
	}
	if m != 0 && m < hi-lo {
		start := lo + c.rng.Below(hi-lo)
		start = start - start%m + 1
		if start < lo {
			start += m
		}
		for x, n := start, 0; x <= hi && x >= lo && n < 200000; x, n = x+m, n+1 {
			if ring.IsPrime(x) && !avoid[x] {
				return x
			}
			if x > ^uint64(0)-m {
				break
			}
		}
		for x, n := lo-lo%m+1, 0; x <= hi && n < 200000; x, n = x+m, n+1 {
			if x >= lo && ring.IsPrime(x) && !avoid[x] {
				return x
			}
			if x > ^uint64(0)-m {
				break
			}
		}
	}
	start := lo + c.rng.Below(hi-lo+1)
	for x := start | 1; x <= hi && x >= lo; x += 2 {
		if ring.IsPrime(x) && !avoid[x] {
			return x
		}
		if x > ^uint64(0)-2 {
			break
		}
	}
	for x := lo | 1; x <= hi; x += 2 {
		if ring.IsPrime(x) && !avoid[x] {
			return x
		}
	}
	if b == 2 {
		return 3
	}
	return 0
}

// ---------- post-acceptance arithmetic (the C01 boundary vectors) ----------

// c19RingArithmetic runs boundary vectors through NTT/INTT and MulCoeffsMontgomery of an
// already constructed ring and compares with a big.Int reference. "" = all good.
func c19RingArithmetic(c *Ctx, r *ring.Ring) string {
	N := r.N()
	for _, s := range r.SubRings {
		q := s.Modulus
		vectors := [][]uint64{make([]uint64, N), make([]uint64, N), make([]uint64, N), make([]uint64, N)}
		for i := 0; i < N; i++ {
			vectors[0][i] = q - 1
			vectors[1][i] = q - 1 - uint64(i)%q
			if i%2 == 0 {
				vectors[2][i] = q - 1
			}
			vectors[3][i] = c.rng.Below(q)
		}
		for vi, v := range vectors {
			b := make([]uint64, N)
			copy(b, v)
			s.NTT(b, b)
			s.INTT(b, b)
			bad := 0
			for i := range v {
				if b[i] != v[i] {
					bad++
				}
			}
			if bad != 0 {
				return fmt.Sprintf("intt(ntt(a))!=a q=%d bits=%d vector=%d mismatches=%d/%d", q, bits.Len64(q), vi, bad, N)
			}
		}
		// coefficient-wise Montgomery product against big.Int
		x, y := vectors[1], vectors[3]
		xm := make([]uint64, N)
		out := make([]uint64, N)
		s.MForm(x, xm)
		s.MulCoeffsMontgomery(xm, y, out)
		bq := new(big.Int).SetUint64(q)
		for i := 0; i < N; i++ {
			want := new(big.Int).Mul(new(big.Int).SetUint64(x[i]), new(big.Int).SetUint64(y[i]))
			want.Mod(want, bq)
			if want.Uint64() != out[i] {
				return fmt.Sprintf("mulcoeffsmontgomery q=%d bits=%d i=%d got=%d want=%d", q, bits.Len64(q), i, out[i], want.Uint64())
			}
		}
		// negacyclic product through the NTT against schoolbook (N<=64 only)
		if N <= 64 && r.Type() == ring.Standard {
			xa, ya := make([]uint64, N), make([]uint64, N)
			copy(xa, x)
			copy(ya, y)
			s.NTT(xa, xa)
			s.NTT(ya, ya)
			s.MForm(xa, xa)
			s.MulCoeffsMontgomery(xa, ya, out)
			s.INTT(out, out)
			for k := 0; k < N; k++ {
				acc := new(big.Int)
				for i := 0; i < N; i++ {
					j := (k - i + N) % N
					t := new(big.Int).Mul(new(big.Int).SetUint64(x[i]), new(big.Int).SetUint64(y[j]))
					if i > k {
						acc.Sub(acc, t)
					} else {
						acc.Add(acc, t)
					}
				}
				acc.Mod(acc, bq)
				if acc.Uint64() != out[k] {
					return fmt.Sprintf("negacyclic-product q=%d bits=%d k=%d got=%d want=%d", q, bits.Len64(q), k, out[k], acc.Uint64())
				}
			}
		}
	}
	return ""
}

func c19ProdBits(v []uint64) (*big.Int, int) {
	p := big.NewInt(1)
	for _, x := range v {
		p.Mul(p, new(big.Int).SetUint64(x))
	}
	if len(v) == 0 {
		return p, 0
	}
	return p, p.BitLen()
}

func c19Atoi(s string) int {
	n, _ := strconv.Atoi(s)
	return n
}

// c19BgvArithmetic encrypts two vectors under freshly generated keys of an *accepted* bgv literal and
// checks Mul (scale-invariant or not), Relinearize and RotateColumns against the plaintext
// computation. "" = all correct.
func c19BgvArithmetic(lit bgv.ParametersLiteral, scaleInv bool) string {
	return Try(func() string {
		params, err := bgv.NewParametersFromLiteral(lit)
		if err != nil {
			return "rejected"
		}
		kgen := rlwe.NewKeyGenerator(params)
		sk := kgen.GenSecretKeyNew()
		evk := rlwe.NewMemEvaluationKeySet(kgen.GenRelinearizationKeyNew(sk), kgen.GenGaloisKeyNew(params.GaloisElementForColRotation(1), sk))
		ecd := bgv.NewEncoder(params)
		enc := rlwe.NewEncryptor(params, sk)
		dec := rlwe.NewDecryptor(params, sk)
		eval := bgv.NewEvaluator(params, evk, scaleInv)
		n := params.MaxSlots()
		t := params.PlaintextModulus()
		a, b, out := make([]uint64, n), make([]uint64, n), make([]uint64, n)
		for i := range a {
			a[i] = uint64(i*7+3) % t
			b[i] = uint64(i*13+5) % t
		}
		pa, pb := bgv.NewPlaintext(params, params.MaxLevel()), bgv.NewPlaintext(params, params.MaxLevel())
		if err = ecd.Encode(a, pa); err != nil {
			return "encode: " + c19Sanitize(err.Error())
		}
		_ = ecd.Encode(b, pb)
		ca, _ := enc.EncryptNew(pa)
		cb, _ := enc.EncryptNew(pb)
		_ = ecd.Decode(dec.DecryptNew(ca), out)
		for i := range out {
			if out[i] != a[i] {
				return fmt.Sprintf("decrypt(encrypt(a)) != a at slot %d", i)
			}
		}
		var cm *rlwe.Ciphertext
		if scaleInv {
			cm, err = eval.MulScaleInvariantNew(ca, cb)
		} else {
			cm, err = eval.MulNew(ca, cb)
		}
		if err != nil {
			return "mul: " + c19Sanitize(err.Error())
		}
		count := func(f func(i int) uint64, m int) int {
			bad := 0
			for i := 0; i < m; i++ {
				if out[i] != f(i) {
					bad++
				}
			}
			return bad
		}
		_ = ecd.Decode(dec.DecryptNew(cm), out)
		if bad := count(func(i int) uint64 { return a[i] * b[i] % t }, n); bad != 0 {
			return fmt.Sprintf("mul wrong in %d/%d slots", bad, n)
		}
		cr, err := eval.RelinearizeNew(cm)
		if err != nil {
			return "relin: " + c19Sanitize(err.Error())
		}
		_ = ecd.Decode(dec.DecryptNew(cr), out)
		if bad := count(func(i int) uint64 { return a[i] * b[i] % t }, n); bad != 0 {
			return fmt.Sprintf("relinearize wrong in %d/%d slots", bad, n)
		}
		rot, err := eval.RotateColumnsNew(ca, 1)
		if err != nil {
			return "rotate: " + c19Sanitize(err.Error())
		}
		_ = ecd.Decode(dec.DecryptNew(rot), out)
		h := n / 2
		if bad := count(func(i int) uint64 { return a[(i+1)%h] }, h); bad != 0 {
			return fmt.Sprintf("rotate wrong in %d/%d slots", bad, h)
		}
		return ""
	})
}
