package main

// C07 (integer half) — Encode/Decode round trips (a) through Encoder.ShallowCopy (scratch polynomials must live in the
// plaintext ring: matters for gap > 1) and (b) with plaintexts obtained from EVERY constructor — bgv.NewPlaintext,
// rlwe.NewPlaintext, rlwe.NewPlaintextAtLevelFromPoly, Decryptor.DecryptNew, CopyNew — whose LogDimensions metadata
// differ (the integer encoder must not depend on them), × output slices shorter / equal / longer than MaxSlots.
//
//	shallowcopy_roundtrip   Decode(Encode(v)) = v mod t with the copy encoding, the original decoding, and vice versa;
//	                        EncodeRingT of the copy equals EncodeRingT of the original
//	decode_constructors     every constructor × len(out) ∈ {1, n/2, n}: the first len(out) values are the input mod t;
//	                        len(out) = n+3 (longer than MaxSlots): an error or the first n values right — never a panic

import (
	"fmt"

	"github.com/tuneinsight/lattigo/v6/core/rlwe"
	"github.com/tuneinsight/lattigo/v6/schemes/bgv"
)

func (c *Ctx) c07Constructors(s *c05Set, reps int) {
	t := s.t
	rt := s.params.RingT()
	L := len(s.qs) - 1
	large := 2*(t-1) >= s.qs[0]
	for rep := 0; rep < reps; rep++ {
		// ---- (a) Encoder.ShallowCopy
		cp := s.ecd.ShallowCopy()
		for _, batched := range []bool{true, false} {
			for _, signed := range []bool{false, true} {
				level := L
				vals := c.c07Vector(s, signed, c.rng.Intn(2))
				scale := c.c05Scale(t)
				want := vals.residues(t)
				detail := ""
				for dir := 0; dir < 2 && detail == ""; dir++ {
					enc, dec := cp, s.ecd
					if dir == 1 {
						enc, dec = s.ecd, cp
					}
					pt := bgv.NewPlaintext(s.params, level)
					pt.Scale = s.params.NewScale(scale)
					pt.IsBatched = batched
					out := make([]uint64, s.n)
					st := Try(func() string {
						if err := enc.Encode(vals.arg(), pt); err != nil {
							return "err"
						}
						if err := dec.Decode(pt, out); err != nil {
							return "err"
						}
						return "ok"
					})
					if st != "ok" {
						detail = fmt.Sprintf("dir=%d %s", dir, st)
						break
					}
					for k := range out {
						w := uint64(0)
						if k < len(want) {
							w = want[k]
						}
						if out[k] != w {
							detail = fmt.Sprintf("dir=%d slot=%d got=%d want=%d", dir, k, out[k], w)
							break
						}
					}
				}
				if detail == "" {
					p1, p2 := rt.NewPoly(), rt.NewPoly()
					e1 := s.ecd.EncodeRingT(vals.arg(), s.params.NewScale(scale), p1)
					e2 := cp.EncodeRingT(vals.arg(), s.params.NewScale(scale), p2)
					if (e1 == nil) != (e2 == nil) || Vec(p1.Coeffs[0]) != Vec(p2.Coeffs[0]) {
						detail = "EncodeRingT of the copy differs from the original's"
					}
				}
				c.Probe("shallowcopy_roundtrip", fmt.Sprintf("%s gap=%d batched=%v kind=%s len=%d scale=%d", s.name, s.params.N()/rt.N(), batched, vals.kind(), vals.length(), scale), "C07-bgv-encoder-shallowcopy", detail)
			}
		}
		// ---- (b) constructors × output lengths
		for level := 0; level <= L; level++ {
			if large && level == 0 {
				continue
			}
			ctors := []string{"bgv.NewPlaintext", "rlwe.NewPlaintext", "rlwe.NewPlaintextAtLevelFromPoly", "DecryptNew", "CopyNew", "DecryptNew(generic)"}
			for _, ctor := range ctors {
				for _, batched := range []bool{true, false} {
					vals := c.c07Vector(s, false, 0)
					scale := c.c05Scale(t)
					want := vals.residues(t)
					var pt *rlwe.Plaintext
					mk := func() string {
						src := bgv.NewPlaintext(s.params, level)
						src.Scale = s.params.NewScale(scale)
						src.IsBatched = batched
						switch ctor {
						case "bgv.NewPlaintext":
							pt = src
						case "rlwe.NewPlaintext":
							pt = rlwe.NewPlaintext(s.params, level)
						case "rlwe.NewPlaintextAtLevelFromPoly":
							var err error
							if pt, err = rlwe.NewPlaintextAtLevelFromPoly(level, s.params.RingQ().AtLevel(level).NewPoly()); err != nil {
								return "err"
							}
							pt.IsNTT = true
						}
						if pt != nil && pt != src {
							pt.Scale = s.params.NewScale(scale)
							pt.IsBatched = batched
						}
						if pt != nil {
							if err := s.ecd.Encode(vals.arg(), pt); err != nil {
								return "err"
							}
							return "ok"
						}
						// derived plaintexts
						if ctor == "DecryptNew(generic)" {
							src = rlwe.NewPlaintext(s.params, level)
							src.Scale = s.params.NewScale(scale)
							src.IsBatched = batched
						}
						if err := s.ecd.Encode(vals.arg(), src); err != nil {
							return "err"
						}
						switch ctor {
						case "CopyNew":
							pt = src.CopyNew()
						default:
							if 2*s.lt+float64(s.logN)+10 > s.logQ[level] {
								return "skip"
							}
							ct, err := s.enc.EncryptNew(src)
							if err != nil {
								return "err"
							}
							pt = s.dec.DecryptNew(ct)
						}
						return "ok"
					}
					st := Try(mk)
					if st == "skip" {
						continue
					}
					for _, ol := range []int{1, s.n / 2, s.n, s.n + 3} {
						detail := ""
						if st != "ok" {
							detail = "constructing/encoding: " + st
						} else {
							out := make([]uint64, ol)
							ds := Try(func() string {
								if err := s.ecd.Decode(pt, out); err != nil {
									return "err"
								}
								return "ok"
							})
							switch {
							case ds == "panic":
								detail = "panic"
							case ds == "err" && ol <= s.n:
								detail = "err"
							case ds == "ok":
								// the same into a []int64 of that length: no panic, congruent values
								oi := make([]int64, ol)
								if di := Try(func() string {
									if err := s.ecd.Decode(pt, oi); err != nil {
										return "err"
									}
									return "ok"
								}); di == "panic" || di == "err" && ol <= s.n {
									detail = "[]int64 output: " + di
								} else if di == "ok" {
									for k := 0; k < ol && k < s.n && k < len(want); k++ {
										if uint64((oi[k]%int64(t)+int64(t))%int64(t)) != want[k] {
											detail = fmt.Sprintf("[]int64 slot=%d got=%d want=%d (mod t)", k, oi[k], want[k])
											break
										}
									}
								}
								for k := 0; k < ol && k < s.n && detail == ""; k++ {
									w := uint64(0)
									if k < len(want) {
										w = want[k]
									}
									if out[k] != w {
										detail = fmt.Sprintf("slot=%d got=%d want=%d", k, out[k], w)
										break
									}
								}
							}
						}
						key := "C07-bgv-decode-depends-on-plaintext-constructor"
						if detail == "panic" || detail == "[]int64 output: panic" {
							key = "C07-bgv-decode-output-length-panics"
						}
						c.Probe("decode_constructors", fmt.Sprintf("%s level=%d ctor=%s batched=%v outlen=%d (n=%d) scale=%d", s.name, level, ctor, batched, ol, s.n, scale), key, detail)
					}
				}
			}
		}
	}
}
