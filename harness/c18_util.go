package main

// C18 helpers: logging evaluation-key set, "which secret protects this key" decryption test,
// recovery of the ephemeral sparse secret from EvkSparseToDense, canonical formatting.

import (
	"fmt"
	"math/big"
	"sort"
	"strings"

	"github.com/tuneinsight/lattigo/v6/circuits/ckks/bootstrapping"
	"github.com/tuneinsight/lattigo/v6/core/rlwe"
	"github.com/tuneinsight/lattigo/v6/ring"
	"github.com/tuneinsight/lattigo/v6/ring/ringqp"
	"github.com/tuneinsight/lattigo/v6/schemes/ckks"
)

// c18LogKeys wraps an rlwe.EvaluationKeySet and records every request.
type c18LogKeys struct {
	inner   rlwe.EvaluationKeySet
	gal     map[uint64]int
	relin   int
	missing []uint64
}

func newC18LogKeys(inner rlwe.EvaluationKeySet) *c18LogKeys {
	return &c18LogKeys{inner: inner, gal: map[uint64]int{}}
}

func (l *c18LogKeys) GetGaloisKey(galEl uint64) (*rlwe.GaloisKey, error) {
	l.gal[galEl]++
	k, err := l.inner.GetGaloisKey(galEl)
	if err != nil {
		l.missing = append(l.missing, galEl)
	}
	return k, err
}
func (l *c18LogKeys) GetGaloisKeysList() []uint64 { return l.inner.GetGaloisKeysList() }
func (l *c18LogKeys) GetRelinearizationKey() (*rlwe.RelinearizationKey, error) {
	l.relin++
	return l.inner.GetRelinearizationKey()
}
func (l *c18LogKeys) ShallowCopy() rlwe.EvaluationKeySet { return l }

func (l *c18LogKeys) requested() []uint64 {
	out := make([]uint64, 0, len(l.gal))
	for g := range l.gal {
		out = append(out, g)
	}
	sort.Slice(out, func(i, j int) bool { return out[i] < out[j] })
	return out
}

func (l *c18LogKeys) reset() { l.gal = map[uint64]int{}; l.relin = 0; l.missing = nil }

func c18Sorted(v []uint64) []uint64 {
	w := append([]uint64{}, v...)
	sort.Slice(w, func(i, j int) bool { return w[i] < w[j] })
	// dedup
	out := w[:0]
	for i, x := range w {
		if i == 0 || x != w[i-1] {
			out = append(out, x)
		}
	}
	return out
}

// c18Cand is a candidate secret expressed in the bootstrapping ring: its level-0 Q part in
// NTT+Montgomery form (N2 coefficients).
type c18Cand struct {
	tag string // "r", "d", "s"
	q0  ring.Poly
}

// c18EmbedSecret maps a secret of `from` into the bootstrapping ring (level 0 of Q only).
func c18EmbedSecret(sk *rlwe.SecretKey, from, paramsN2 ckks.Parameters) ring.Poly {
	r0 := paramsN2.RingQ().AtLevel(0)
	out := r0.NewPoly()
	src := ring.Poly{Coeffs: sk.Value.Q.Coeffs[:1]}
	switch {
	case from.RingType() == ring.ConjugateInvariant:
		r0.UnfoldConjugateInvariantToStandard(src, out)
	case from.N() != paramsN2.N():
		ring.MapSmallDimensionToLargerDimensionNTT(src, out)
	default:
		copy(out.Coeffs[0], src.Coeffs[0])
	}
	return out
}

// c18Extend extends a level-0 NTT+Montgomery small polynomial to (levelQ, levelP) of paramsN2.
func c18Extend(paramsN2 ckks.Parameters, q0 ring.Poly, levelQ, levelP int) ringqp.Poly {
	rQ := paramsN2.RingQ()
	out := paramsN2.RingQP().AtLevel(levelQ, levelP).NewPoly()
	buff := rQ.AtLevel(0).NewPoly()
	in := rQ.AtLevel(0).NewPoly()
	copy(in.Coeffs[0], q0.Coeffs[0])
	rlwe.ExtendBasisSmallNormAndCenterNTTMontgomery(rQ, rQ.AtLevel(levelQ), in, buff, out.Q)
	if levelP >= 0 {
		copy(in.Coeffs[0], q0.Coeffs[0])
		rlwe.ExtendBasisSmallNormAndCenterNTTMontgomery(rQ, paramsN2.RingP().AtLevel(levelP), in, buff, out.P)
	}
	return out
}

// c18Phase returns b + a*s of row (0,0) of the gadget ciphertext, out of NTT and Montgomery form.
func c18Phase(paramsN2 ckks.Parameters, gct *rlwe.GadgetCiphertext, s ringqp.Poly) ringqp.Poly {
	levelQ, levelP := gct.LevelQ(), gct.LevelP()
	rqp := paramsN2.RingQP().AtLevel(levelQ, levelP)
	ph := rqp.NewPoly()
	row := gct.Value[0][0]
	rqp.MulCoeffsMontgomery(row[1], s, ph)
	rqp.Add(ph, row[0], ph)
	rqp.INTT(ph, ph)
	rqp.IMForm(ph, ph)
	return ph
}

// c18MaxAbsP is the largest centred coefficient of the P part (first prime) of a phase.
func c18MaxAbsP(paramsN2 ckks.Parameters, ph ringqp.Poly) uint64 {
	p0 := paramsN2.P()[0]
	var m uint64
	for _, c := range ph.P.Coeffs[0] {
		if c > p0>>1 {
			c = p0 - c
		}
		if c > m {
			m = c
		}
	}
	return m
}

const c18NoiseBound = 1 << 10 // |e| <= 6 sigma = 19.2 for the default error distribution

// c18ProtectedBy returns the tags of the candidates under which the key decrypts (P part of the
// phase of row (0,0) is the small error); "?" if the key has no P part.
//
// A Galois key for galEl is an encryption under pi_{galEl^-1}(sk) (GenGaloisKey: "we encrypt
// [-a * pi_{k^-1}(sk) + sk, a]"): pass galEl != 0 to test the candidates' images under that public
// automorphism (same secret up to a public permutation of its coefficients).
func c18ProtectedBy(paramsN2 ckks.Parameters, gct *rlwe.GadgetCiphertext, cands []c18Cand, galEl uint64) string {
	if gct.LevelP() < 0 {
		return "?"
	}
	var sb strings.Builder
	for _, cd := range cands {
		s := c18Extend(paramsN2, cd.q0, gct.LevelQ(), gct.LevelP())
		if galEl != 0 {
			rqp := paramsN2.RingQP().AtLevel(gct.LevelQ(), gct.LevelP())
			idx, err := ring.AutomorphismNTTIndex(paramsN2.N(), paramsN2.RingQ().NthRoot(), paramsN2.ModInvGaloisElement(galEl))
			must(err)
			t := rqp.NewPoly()
			rqp.AutomorphismNTTWithIndex(s, idx, t)
			s = t
		}
		if c18MaxAbsP(paramsN2, c18Phase(paramsN2, gct, s)) < c18NoiseBound {
			sb.WriteString(cd.tag)
		}
	}
	return sb.String()
}

// c18RecoverSparse recovers the plaintext secret of EvkSparseToDense (an encryption of
// P * skSparse under skN2): e is read from the P part of the phase, subtracted from the q0 part,
// the rest divided by P. Returns the level-0 NTT+Montgomery polynomial, the Hamming weight, and ok
// (= every coefficient is in {-1,0,1}).
func c18RecoverSparse(paramsN2 ckks.Parameters, evk *rlwe.EvaluationKey, skN2q0 ring.Poly) (ring.Poly, int, bool) {
	gct := &evk.GadgetCiphertext
	s := c18Extend(paramsN2, skN2q0, gct.LevelQ(), gct.LevelP())
	ph := c18Phase(paramsN2, gct, s)
	q0 := paramsN2.Q()[0]
	p0 := paramsN2.P()[0]
	bq := new(big.Int).SetUint64(q0)
	P := big.NewInt(1)
	for i := 0; i <= gct.LevelP(); i++ {
		P.Mul(P, new(big.Int).SetUint64(paramsN2.P()[i]))
	}
	Pinv := new(big.Int).ModInverse(new(big.Int).Mod(P, bq), bq)
	r0 := paramsN2.RingQ().AtLevel(0)
	out := r0.NewPoly()
	ok := true
	hw := 0
	for j := range out.Coeffs[0] {
		e := new(big.Int).SetUint64(ph.P.Coeffs[0][j])
		if ph.P.Coeffs[0][j] > p0>>1 {
			e.Sub(e, new(big.Int).SetUint64(p0))
		}
		x := new(big.Int).SetUint64(ph.Q.Coeffs[0][j])
		x.Sub(x, e)
		x.Mul(x, Pinv)
		x.Mod(x, bq)
		v := x.Uint64()
		switch v {
		case 0:
		case 1, q0 - 1:
			hw++
		default:
			ok = false
		}
		out.Coeffs[0][j] = v
	}
	r0.NTT(out, out)
	r0.MForm(out, out)
	return out, hw, ok
}

// c18KeyEntry formats one key of the bundle as name/prot/levelQ/levelP.
func c18KeyEntry(name string, paramsN2 ckks.Parameters, evk *rlwe.EvaluationKey, cands []c18Cand, galEl uint64) string {
	return fmt.Sprintf("%s/%s/%d/%d", name, c18ProtectedBy(paramsN2, &evk.GadgetCiphertext, cands, galEl), evk.LevelQ(), evk.LevelP())
}

// c18Inventory lists every key of the bundle in the model's order.
func c18Inventory(paramsN2 ckks.Parameters, evk *bootstrapping.EvaluationKeys, cands []c18Cand) (string, []string) {
	var es []string
	addG := func(name string, k *rlwe.EvaluationKey, galEl uint64) {
		if k != nil {
			es = append(es, c18KeyEntry(name, paramsN2, k, cands, galEl))
		}
	}
	add := func(name string, k *rlwe.EvaluationKey) { addG(name, k, 0) }
	add("EvkN1ToN2", evk.EvkN1ToN2)
	add("EvkN2ToN1", evk.EvkN2ToN1)
	add("EvkRealToCmplx", evk.EvkRealToCmplx)
	add("EvkCmplxToReal", evk.EvkCmplxToReal)
	add("EvkDenseToSparse", evk.EvkDenseToSparse)
	add("EvkSparseToDense", evk.EvkSparseToDense)
	if evk.MemEvaluationKeySet != nil {
		if evk.RelinearizationKey != nil {
			add("rlk", &evk.RelinearizationKey.EvaluationKey)
		}
		for _, g := range c18Sorted(evk.GetGaloisKeysList()) {
			k, err := evk.GetGaloisKey(g)
			if err == nil {
				addG("gk"+U(g), &k.EvaluationKey, g)
			}
		}
	}
	return strings.Join(es, ";"), es
}
