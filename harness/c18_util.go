package main

// C18 helpers: logging evaluation-key set, "which secret protects this key" decryption test,
// recovery of the ephemeral sparse secret from EvkSparseToDense, canonical formatting.

import (
	"fmt"
	"math/big"
	"reflect"
	"sort"
	"strings"

	"github.com/tuneinsight/lattigo/v6/circuits/ckks/bootstrapping"
	"github.com/tuneinsight/lattigo/v6/core/rlwe"
	"github.com/tuneinsight/lattigo/v6/ring"
	"github.com/tuneinsight/lattigo/v6/ring/ringqp"
	"github.com/tuneinsight/lattigo/v6/schemes/ckks"
)

// c18LogKeys wraps an rlwe.EvaluationKeySet and records every request.
type c18LogKeys struct {
	inner   rlwe.EvaluationKeySet
	gal     map[uint64]int
	relin   int
	missing []uint64
}

func newC18LogKeys(inner rlwe.EvaluationKeySet) *c18LogKeys {
	return &c18LogKeys{inner: inner, gal: map[uint64]int{}}
}

func (l *c18LogKeys) GetGaloisKey(galEl uint64) (*rlwe.GaloisKey, error) {
	l.gal[galEl]++
	k, err := l.inner.GetGaloisKey(galEl)
	if err != nil {
		l.missing = append(l.missing, galEl)
	}
	return k, err
}
func (l *c18LogKeys) GetGaloisKeysList() []uint64 { return l.inner.GetGaloisKeysList() }
func (l *c18LogKeys) GetRelinearizationKey() (*rlwe.RelinearizationKey, error) {
	l.relin++
	return l.inner.GetRelinearizationKey()
}
func (l *c18LogKeys) ShallowCopy() rlwe.EvaluationKeySet { return l }

func (l *c18LogKeys) requested() []uint64 {
	out := make([]uint64, 0, len(l.gal))
	for g := range l.gal {
		out = append(out, g)
	}
	sort.Slice(out, func(i, j int) bool { return out[i] < out[j] })
	return out
}

func (l *c18LogKeys) reset() { l.gal = map[uint64]int{}; l.relin = 0; l.missing = nil }

func c18Sorted(v []uint64) []uint64 {
	w := append([]uint64{}, v...)
	sort.Slice(w, func(i, j int) bool { return w[i] < w[j] })
	// dedup
	out := w[:0]
	for i, x := range w {
		if i == 0 || x != w[i-1] {
			out = append(out, x)
		}
	}
	return out
}

// c18Cand is a candidate secret expressed in the bootstrapping ring: its level-0 Q part in
// NTT+Montgomery form (N2 coefficients).
type c18Cand struct {
	tag string // "r", "d", "s"
	q0  ring.Poly
}

// c18EmbedSecret maps a secret of `from` into the bootstrapping ring (level 0 of Q only).
func c18EmbedSecret(sk *rlwe.SecretKey, from, paramsN2 ckks.Parameters) ring.Poly {
	r0 := paramsN2.RingQ().AtLevel(0)
	out := r0.NewPoly()
	src := ring.Poly{Coeffs: sk.Value.Q.Coeffs[:1]}
	switch {
	case from.RingType() == ring.ConjugateInvariant:
		r0.UnfoldConjugateInvariantToStandard(src, out)
	case from.N() != paramsN2.N():
		ring.MapSmallDimensionToLargerDimensionNTT(src, out)
	default:
		copy(out.Coeffs[0], src.Coeffs[0])
	}
	return out
}

// c18Extend extends a level-0 NTT+Montgomery small polynomial to (levelQ, levelP) of paramsN2.
func c18Extend(paramsN2 ckks.Parameters, q0 ring.Poly, levelQ, levelP int) ringqp.Poly {
	rQ := paramsN2.RingQ()
	out := paramsN2.RingQP().AtLevel(levelQ, levelP).NewPoly()
	buff := rQ.AtLevel(0).NewPoly()
	in := rQ.AtLevel(0).NewPoly()
	copy(in.Coeffs[0], q0.Coeffs[0])
	rlwe.ExtendBasisSmallNormAndCenterNTTMontgomery(rQ, rQ.AtLevel(levelQ), in, buff, out.Q)
	if levelP >= 0 {
		copy(in.Coeffs[0], q0.Coeffs[0])
		rlwe.ExtendBasisSmallNormAndCenterNTTMontgomery(rQ, paramsN2.RingP().AtLevel(levelP), in, buff, out.P)
	}
	return out
}

// c18Phase returns b + a*s of row (0,0) of the gadget ciphertext, out of NTT and Montgomery form.
func c18Phase(paramsN2 ckks.Parameters, gct *rlwe.GadgetCiphertext, s ringqp.Poly) ringqp.Poly {
	levelQ, levelP := gct.LevelQ(), gct.LevelP()
	rqp := paramsN2.RingQP().AtLevel(levelQ, levelP)
	ph := rqp.NewPoly()
	row := gct.Value[0][0]
	rqp.MulCoeffsMontgomery(row[1], s, ph)
	rqp.Add(ph, row[0], ph)
	rqp.INTT(ph, ph)
	rqp.IMForm(ph, ph)
	return ph
}

// c18MaxAbsP is the largest centred coefficient of the P part (first prime) of a phase.
func c18MaxAbsP(paramsN2 ckks.Parameters, ph ringqp.Poly) uint64 {
	p0 := paramsN2.P()[0]
	var m uint64
	for _, c := range ph.P.Coeffs[0] {
		if c > p0>>1 {
			c = p0 - c
		}
		if c > m {
			m = c
		}
	}
	return m
}

const c18NoiseBound = 1 << 10 // |e| <= 6 sigma = 19.2 for the default error distribution

// c18ProtectedBy returns the tags of the candidates under which the key decrypts (P part of the
// phase of row (0,0) is the small error); "?" if the key has no P part.
//
// A Galois key for galEl is an encryption under pi_{galEl^-1}(sk) (GenGaloisKey: "we encrypt
// [-a * pi_{k^-1}(sk) + sk, a]"): pass galEl != 0 to test the candidates' images under that public
// automorphism (same secret up to a public permutation of its coefficients).
func c18ProtectedBy(paramsN2 ckks.Parameters, gct *rlwe.GadgetCiphertext, cands []c18Cand, galEl uint64) string {
	if gct.LevelP() < 0 {
		return "?"
	}
	var sb strings.Builder
	for _, cd := range cands {
		s := c18Extend(paramsN2, cd.q0, gct.LevelQ(), gct.LevelP())
		if galEl != 0 {
			rqp := paramsN2.RingQP().AtLevel(gct.LevelQ(), gct.LevelP())
			idx, err := ring.AutomorphismNTTIndex(paramsN2.N(), paramsN2.RingQ().NthRoot(), paramsN2.ModInvGaloisElement(galEl))
			must(err)
			t := rqp.NewPoly()
			rqp.AutomorphismNTTWithIndex(s, idx, t)
			s = t
		}
		if c18MaxAbsP(paramsN2, c18Phase(paramsN2, gct, s)) < c18NoiseBound {
			sb.WriteString(cd.tag)
		}
	}
	return sb.String()
}

// c18RecoverSparse recovers the plaintext secret of EvkSparseToDense (an encryption of
// P * skSparse under skN2): e is read from the P part of the phase, subtracted from the q0 part,
// the rest divided by P. Returns the level-0 NTT+Montgomery polynomial, the Hamming weight, and ok
// (= every coefficient is in {-1,0,1}).
func c18RecoverSparse(paramsN2 ckks.Parameters, evk *rlwe.EvaluationKey, skN2q0 ring.Poly) (ring.Poly, int, bool) {
	gct := &evk.GadgetCiphertext
	s := c18Extend(paramsN2, skN2q0, gct.LevelQ(), gct.LevelP())
	ph := c18Phase(paramsN2, gct, s)
	q0 := paramsN2.Q()[0]
	p0 := paramsN2.P()[0]
	bq := new(big.Int).SetUint64(q0)
	P := big.NewInt(1)
	for i := 0; i <= gct.LevelP(); i++ {
		P.Mul(P, new(big.Int).SetUint64(paramsN2.P()[i]))
	}
	Pinv := new(big.Int).ModInverse(new(big.Int).Mod(P, bq), bq)
	r0 := paramsN2.RingQ().AtLevel(0)
	out := r0.NewPoly()
	ok := true
	hw := 0
	for j := range out.Coeffs[0] {
		e := new(big.Int).SetUint64(ph.P.Coeffs[0][j])
		if ph.P.Coeffs[0][j] > p0>>1 {
			e.Sub(e, new(big.Int).SetUint64(p0))
		}
		x := new(big.Int).SetUint64(ph.Q.Coeffs[0][j])
		x.Sub(x, e)
		x.Mul(x, Pinv)
		x.Mod(x, bq)
		v := x.Uint64()
		switch v {
		case 0:
		case 1, q0 - 1:
			hw++
		default:
			ok = false
		}
		out.Coeffs[0][j] = v
	}
	r0.NTT(out, out)
	r0.MForm(out, out)
	return out, hw, ok
}

// c18KeyEntry formats one key of the bundle as name/prot/levelQ/levelP.
func c18KeyEntry(name string, paramsN2 ckks.Parameters, evk *rlwe.EvaluationKey, cands []c18Cand, galEl uint64) string {
	return fmt.Sprintf("%s/%s/%d/%d", name, c18ProtectedBy(paramsN2, &evk.GadgetCiphertext, cands, galEl), evk.LevelQ(), evk.LevelP())
}

// c18Inventory lists every key of the bundle in the model's order.
func c18Inventory(paramsN2 ckks.Parameters, evk *bootstrapping.EvaluationKeys, cands []c18Cand) (string, []string) {
	var es []string
	addG := func(name string, k *rlwe.EvaluationKey, galEl uint64) {
		if k != nil {
			es = append(es, c18KeyEntry(name, paramsN2, k, cands, galEl))
		}
	}
	add := func(name string, k *rlwe.EvaluationKey) { addG(name, k, 0) }
	add("EvkN1ToN2", evk.EvkN1ToN2)
	add("EvkN2ToN1", evk.EvkN2ToN1)
	add("EvkRealToCmplx", evk.EvkRealToCmplx)
	add("EvkCmplxToReal", evk.EvkCmplxToReal)
	add("EvkDenseToSparse", evk.EvkDenseToSparse)
	add("EvkSparseToDense", evk.EvkSparseToDense)
	if evk.MemEvaluationKeySet != nil {
		if evk.RelinearizationKey != nil {
			add("rlk", &evk.RelinearizationKey.EvaluationKey)
		}
		for _, g := range c18Sorted(evk.GetGaloisKeysList()) {
			k, err := evk.GetGaloisKey(g)
			if err == nil {
				addG("gk"+U(g), &k.EvaluationKey, g)
			}
		}
	}
	return strings.Join(es, ";"), es
}

// ---------------------------------------------------------------- ShallowCopy wiring (reflection)

// c18Walker collects the data pointers of every slice reachable from a value, without descending
// into the types that are read-only and shared by design (parameters, rings, keys, plaintext
// matrices, polynomials).
type c18Walker struct {
	seen   map[uintptr]bool
	slices map[uintptr]string // data pointer of a non-empty slice -> first path reaching it
}

var c18ReadOnlyTypes = map[string]bool{
	"rlwe.Parameters": true, "ckks.Parameters": true, "bootstrapping.Parameters": true,
	"ring.Ring": true, "ringqp.Ring": true, "rlwe.SecretKey": true,
	"bootstrapping.EvaluationKeys": true, "rlwe.MemEvaluationKeySet": true, "main.c18LogKeys": true,
	"dft.Matrix": true, "mod1.Parameters": true, "rlwe.EvaluationKey": true, "bignum.Polynomial": true, "big.Int": true, "big.Float": true,
}

func (w *c18Walker) walk(v reflect.Value, path string, depth int) {
	if depth > 40 || !v.IsValid() {
		return
	}
	t := v.Type()
	name := t.String()
	if len(name) > 0 && name[0] == '*' {
		name = name[1:]
	}
	if c18ReadOnlyTypes[name] {
		return
	}
	switch v.Kind() {
	case reflect.Ptr:
		if v.IsNil() {
			return
		}
		p := v.Pointer()
		if w.seen[p] {
			return
		}
		w.seen[p] = true
		w.walk(v.Elem(), path, depth+1)
	case reflect.Interface:
		if !v.IsNil() {
			w.walk(v.Elem(), path, depth+1)
		}
	case reflect.Struct:
		for i := 0; i < v.NumField(); i++ {
			w.walk(v.Field(i), path+"."+t.Field(i).Name, depth+1)
		}
	case reflect.Slice:
		if v.IsNil() || v.Len() == 0 {
			return
		}
		p := v.Pointer()
		if _, ok := w.slices[p]; !ok {
			w.slices[p] = path
		}
		if w.seen[p] {
			return
		}
		w.seen[p] = true
		switch t.Elem().Kind() {
		case reflect.Struct, reflect.Ptr, reflect.Slice, reflect.Interface, reflect.Array, reflect.Map:
			for i := 0; i < v.Len(); i++ {
				w.walk(v.Index(i), path+"[]", depth+1)
			}
		}
	case reflect.Array:
		for i := 0; i < v.Len(); i++ {
			w.walk(v.Index(i), path+"[]", depth+1)
		}
	case reflect.Map:
		it := v.MapRange()
		for it.Next() {
			w.walk(it.Value(), path+"{}", depth+1)
		}
	}
}

func c18Slices(x interface{}) map[uintptr]string {
	w := &c18Walker{seen: map[uintptr]bool{}, slices: map[uintptr]string{}}
	w.walk(reflect.ValueOf(x), "", 0)
	return w.slices
}

// c18SharedScratch lists the paths (in a) of slices whose backing array is reachable from both a and b,
// minus the allow-listed read-only tables.
func c18SharedScratch(a, b interface{}, allow []string) []string {
	sa, sb := c18Slices(a), c18Slices(b)
	var out []string
	for p, path := range sa {
		if _, ok := sb[p]; !ok {
			continue
		}
		skip := false
		for _, al := range allow {
			if strings.Contains(path, al) {
				skip = true
			}
		}
		if !skip {
			out = append(out, path)
		}
	}
	sort.Strings(out)
	return out
}

// c18HashBuffers hashes the exported scratch buffers of an rlwe evaluator.
func c18HashBuffers(b *rlwe.EvaluatorBuffers) uint64 {
	h := uint64(1469598103934665603)
	mix := func(p ring.Poly) {
		for _, row := range p.Coeffs {
			for _, x := range row {
				h = (h ^ x) * 1099511628211
			}
		}
	}
	for _, p := range b.BuffCt.Value {
		mix(p)
	}
	for _, qp := range b.BuffQP {
		mix(qp.Q)
		mix(qp.P)
	}
	mix(b.BuffInvNTT)
	for _, qp := range b.BuffDecompQP {
		mix(qp.Q)
		mix(qp.P)
	}
	for _, x := range b.BuffBitDecomp {
		h = (h ^ x) * 1099511628211
	}
	return h
}

func c18CtEqual(a, b *rlwe.Ciphertext) bool {
	if a == nil || b == nil || a.Level() != b.Level() || len(a.Value) != len(b.Value) || !a.Scale.Equal(b.Scale) {
		return false
	}
	for i := range a.Value {
		if !a.Value[i].Equal(&b.Value[i]) {
			return false
		}
	}
	return true
}
