package main

// C16 — collective key switching, share conversion and refresh preserve the message
// (multiparty/keyswitch_{sk,pk}.go, refresh.go, mpbgv/*.go, mpckks/*.go).
//
// Tie lines (grammar in lean/Driver/C16.lean):
//   cks_share cks_agg cks_ks agg pcks_share pcks_ks
//   bgv_e2s bgv_get bgv_s2e bgv_fin     (c16_bgv.go)
//   ckks_e2s ckks_get ckks_s2e ckks_fin (c16_ckks.go)
// Probe lines:
//   agg_order_indep   all aggregation orders / trees, with and without serialization
//   cks_decrypts pcks_decrypts   switched ciphertext decrypts under the target key to the same
//                     plaintext, error ≤ explicit bound
//   e2s_sum refresh_roundtrip transform_applies_f   (BGV exact mod t; CKKS within precision, labelled)
//   smudging_present  pooled standard deviation of the smudging noise actually contained in the
//                     shares ≥ requested (statistical, labelled)
//   level_mismatch    shares of different levels are rejected by AggregateShares

import (
	"fmt"
	"math"
	"math/big"
	"strings"

	"github.com/tuneinsight/lattigo/v6/core/rlwe"
	"github.com/tuneinsight/lattigo/v6/multiparty"
	"github.com/tuneinsight/lattigo/v6/ring"
	"github.com/tuneinsight/lattigo/v6/utils/sampling"
)

func init() { register("C16", genC16) }

// pooled statistics of the smudging noise found in the shares (share − deterministic part)
type c16Stat struct {
	n      int
	sumSq  float64
	maxAbs int
}

var c16Smudge map[string]*c16Stat

func c16Record(key string, e []int) {
	st := c16Smudge[key]
	if st == nil {
		st = &c16Stat{}
		c16Smudge[key] = st
	}
	for _, x := range e {
		st.n++
		st.sumSq += float64(x) * float64(x)
		if x < 0 {
			x = -x
		}
		if x > st.maxAbs {
			st.maxAbs = x
		}
	}
}

func genC16(c *Ctx) {
	c16Smudge = map[string]*c16Stat{}
	ns := []int{1, 2, 3, 5}
	if c.Thorough() {
		ns = []int{1, 2, 3, 4, 5, 6, 7, 8}
	}
	for si, set := range c14Sets() {
		if set.params.RingType() != ring.Standard {
			continue // the conjugate-invariant sets are exercised by C14
		}
		for ni, n := range ns {
			for lvl := 0; lvl <= set.maxQ(); lvl++ {
				if !c.Thorough() && (lvl+ni+si)%2 == 1 {
					continue
				}
				for _, ntt := range []bool{true, false} {
					sigma := c16PickSigma(c, math.Inf(1))
					c14Guard(c, "C16-harness-panic", "c16CKS", func() { c16CKS(c, set, n, lvl, lvl, ntt, sigma) })
					c14Guard(c, "C16-harness-panic", "c16PCKS", func() { c16PCKS(c, set, n, lvl, lvl, ntt, sigma) })
				}
			}
		}
		// share allocated above / below the ciphertext level
		if set.maxQ() > 0 {
			c14Guard(c, "C16-harness-panic", "c16CKS", func() { c16CKS(c, set, 2, set.maxQ()-1, set.maxQ(), true, 3.2) })
			c14Guard(c, "C16-harness-panic", "c16CKS", func() { c16CKS(c, set, 2, set.maxQ(), set.maxQ()-1, true, 3.2) })
			c14Guard(c, "C16-harness-panic", "c16PCKS", func() { c16PCKS(c, set, 2, set.maxQ()-1, set.maxQ(), true, 3.2) })
		}
		c14Guard(c, "C16-harness-panic", "c16LevelMismatch", func() { c16LevelMismatch(c, set) })
		c14Guard(c, "C16-harness-panic", "c16ScratchRLWE", func() { c16ScratchRLWE(c, set) })
	}
	c16BGV(c, ns)
	c16CKKS(c, ns)
	c16SmudgeProbes(c)
	c16MaskDistributionProbe(c)
}

// c16PickSigma: the requested flooding σ — params.Xe()'s own 3.2, 2^12 or 2^20 (clearly different from Xe) — among those
// the noise budget of the run allows.
func c16PickSigma(c *Ctx, max float64) float64 {
	var ok []float64
	for _, s := range []float64{3.2, 1 << 12, 1 << 20} {
		if s <= max {
			ok = append(ok, s)
		}
	}
	return ok[c.rng.Intn(len(ok))]
}

func c16Noise(params rlwe.Parameters, sigma float64) ring.DiscreteGaussian {
	f := params.NoiseFreshSK()
	s := math.Sqrt(f*f + sigma*sigma)
	return ring.DiscreteGaussian{Sigma: s, Bound: 6 * s}
}

func c16QRows(params rlwe.Parameters, p ring.Poly, lvl int, ntt bool) [][]uint64 {
	q := ring.Poly{Coeffs: p.Coeffs[:lvl+1]}
	return Canon(params.RingQ().AtLevel(lvl), q, ntt, false)
}

func c16SampleSigned(params rlwe.Parameters, s ring.Sampler, lvl int, full bool) []int {
	r := params.RingQ()
	if !full {
		r = r.AtLevel(lvl)
		s = s.AtLevel(lvl)
	}
	e := r.NewPoly()
	s.Read(e)
	return c14Signed(r, e, false, false)
}

// c16Term is one product a·s of a public polynomial with a party's secret key.
type c16Term struct {
	a    ring.Poly
	sk   *rlwe.SecretKey
	sign int // +1: the share contains +a·s, -1: the share contains -a·s
}

// c16Residual extracts the noise actually contained in a share of the REAL protocol:
//
//	share − Σ sign_k·a_k·s_k − Σ plus_j + Σ minus_j      (centred coefficients, level lvl)
//
// a_k and share are in the NTT domain iff ntt; plus/minus are given in the NTT domain.
func c16Residual(params rlwe.Parameters, lvl int, ntt bool, share ring.Poly, terms []c16Term, plus, minus []ring.Poly) []int {
	r := params.RingQ().AtLevel(lvl)
	cut := func(p ring.Poly) ring.Poly { return ring.Poly{Coeffs: p.Coeffs[:lvl+1]} }
	x := r.NewPoly()
	x.CopyLvl(lvl, cut(share))
	if !ntt {
		r.NTT(x, x)
	}
	tmp := r.NewPoly()
	for _, t := range terms {
		a := r.NewPoly()
		a.CopyLvl(lvl, cut(t.a))
		if !ntt {
			r.NTT(a, a)
		}
		r.MulCoeffsMontgomery(a, cut(t.sk.Value.Q), tmp)
		if t.sign > 0 {
			r.Sub(x, tmp, x)
		} else {
			r.Add(x, tmp, x)
		}
	}
	for _, p := range plus {
		r.Sub(x, cut(p), x)
	}
	for _, p := range minus {
		r.Add(x, cut(p), x)
	}
	return c14Signed(r, x, true, false)
}

func c16Bound(d ring.DiscreteGaussian) int64 { return int64(math.Ceil(d.Bound)) + 1 }

// ---------------------------------------------------------------------------------------------
// KeySwitchProtocol

func c16CKS(c *Ctx, set c14Set, n, ctLvl, shareLvl int, ntt bool, sigma float64) {
	params := set.params
	in := c14GenKeys(set, n)
	out := c14GenKeys(set, n)
	flood := ring.DiscreteGaussian{Sigma: sigma, Bound: 6 * sigma}
	noise := c16Noise(params, sigma)

	ct := c14RandCt(c, params, 1, ctLvl)
	ct.IsNTT = ntt
	lvl := ctLvl
	if shareLvl < lvl {
		lvl = shareLvl
	}

	protos := make([]multiparty.KeySwitchProtocol, n)
	twins := make([]ring.Sampler, n)
	copied := make([]bool, n)
	for i := range protos {
		mark := RandMark()
		if i == 0 || c.rng.Intn(2) == 0 {
			var err error
			if protos[i], err = multiparty.NewKeySwitchProtocol(params, flood); err != nil {
				panic(err)
			}
		} else {
			protos[i] = protos[c.rng.Intn(i)].ShallowCopy()
			copied[i] = true
		}
		twins[i], _ = c14Twin(set, mark, noise)
	}
	qs := Vec(set.qs(lvl))
	c1 := Mat(c16QRows(params, ct.Value[1], lvl, ntt))
	shares := make([]multiparty.KeySwitchShare, n)
	rows := make([]string, n)
	for i := range shares {
		shares[i] = protos[i].AllocateShare(shareLvl)
		protos[i].GenShare(in.sk[i], out.sk[i], ct, &shares[i])
		e := c16SampleSigned(params, twins[i], lvl, false)
		// the noise found in the real share (= e when the tie holds), pooled separately for ShallowCopy'd protocols
		c16Record(fmt.Sprintf("cks_share ctor=%s sigma=%g", map[bool]string{false: "new", true: "copy"}[copied[i]], sigma),
			c16Residual(params, lvl, ntt, shares[i].Value, []c16Term{{ct.Value[1], in.sk[i], 1}, {ct.Value[1], out.sk[i], -1}}, nil, nil))
		if shares[i].Level() != lvl {
			c.Probe("run_completed", fmt.Sprintf("cks_share_level set=%s", set.name), "C16-harness", fmt.Sprintf("share_level=%d_want=%d", shares[i].Level(), lvl))
			return
		}
		rows[i] = Mat(c16QRows(params, shares[i].Value, lvl, ntt))
		c.Emit(fmt.Sprintf("cks_share %s %d %s %s %s %s", qs, set.n, c1, IVec(in.s[i]), IVec(out.s[i]), IVec(e)), rows[i])
		c.Count("cks_share")
	}

	add := func(x, y multiparty.KeySwitchShare) (multiparty.KeySwitchShare, error) {
		o := protos[0].AllocateShare(x.Level())
		err := protos[0].AggregateShares(x, y, &o)
		return o, err
	}
	rt := func(x multiparty.KeySwitchShare) (multiparty.KeySwitchShare, error) {
		b, err := x.MarshalBinary()
		if err != nil {
			return x, err
		}
		var y multiparty.KeySwitchShare
		err = y.UnmarshalBinary(b)
		return y, err
	}
	eq := func(x, y multiparty.KeySwitchShare) bool { return x.Value.Equal(&y.Value) }
	c14OrderProbeKey(c, "cks set="+set.name+fmt.Sprintf(" lvl=%d ntt=%t", lvl, ntt), "C16-agg-order", shares, add, rt, eq)
	if ol := c16OtherLevel(set.maxQ(), lvl); ol >= 0 {
		recv, _ := add(shares[0], shares[0])
		bad := protos[0].AllocateShare(ol)
		lab := fmt.Sprintf("set=%s lvl=%d other=%d", set.name, lvl, ol)
		snap := func() string { return c16PolySnap(recv.Value) }
		c14Refused(c, "C16:KeySwitchProtocol.AggregateShares", "level_share1", lab, snap, func() error { return protos[0].AggregateShares(bad, shares[0], &recv) })
		c14Refused(c, "C16:KeySwitchProtocol.AggregateShares", "level_share2", lab, snap, func() error { return protos[0].AggregateShares(shares[0], bad, &recv) })
		c14Refused(c, "C16:KeySwitchProtocol.AggregateShares", "level_receiver", lab, func() string { return c16PolySnap(bad.Value) }, func() error { return protos[0].AggregateShares(shares[0], shares[0], &bad) })
	}

	t := c14RandTree(c, c14RandPerm(c, n))
	agg, _ := c14Eval(t, shares, add)
	aggRows := Mat(c16QRows(params, agg.Value, lvl, ntt))
	c.Emit("agg "+qs+" "+t.String()+" "+I(n)+" "+strings.Join(rows, " "), aggRows)
	c.Count("agg_tie")

	// KeySwitch out of place, into receivers allocated at every level (below, at and above the input
	// level) and pre-filled with junk: the output must be AT THE INPUT'S LEVEL and the same whatever the receiver
	ksLine := func(recvLvl int) string {
		return fmt.Sprintf("cks_ks %s %d %s %s %d %s %d", Vec(set.qs(ctLvl)), ctLvl, Mat(c16QRows(params, ct.Value[0], ctLvl, ntt)),
			Mat(c16QRows(params, ct.Value[1], ctLvl, ntt)), agg.Level(), aggRows, recvLvl)
	}
	ksOut := func(o *rlwe.Ciphertext) string {
		l := o.Level()
		return I(l) + " " + Mat(Canon(params.RingQ().AtLevel(l), o.Value[0], ntt, false)) + "|" + Mat(Canon(params.RingQ().AtLevel(l), o.Value[1], ntt, false))
	}
	res := c14RandCt(c, params, 1, ctLvl)
	outTok := Try(func() string {
		protos[0].KeySwitch(ct, agg, res)
		return ksOut(res)
	})
	c.Emit(ksLine(ctLvl), outTok)
	c.Count("cks_ks")
	var others []*rlwe.Ciphertext
	if outTok != "panic" {
		for r := 0; r <= set.maxQ(); r++ {
			if r == ctLvl || (!c.Thorough() && r != 0 && r != set.maxQ()) {
				continue
			}
			o := c14RandCt(c, params, 1, r)
			c.Emit(ksLine(r), Try(func() string {
				protos[0].KeySwitch(ct, agg, o)
				return ksOut(o)
			}))
			c.Count("cks_ks_receiver_other_level")
			others = append(others, o)
		}
	}

	label := fmt.Sprintf("set=%s N=%d ctLvl=%d shareLvl=%d ntt=%t sigma=%g", set.name, n, ctLvl, shareLvl, ntt, sigma)
	if outTok == "panic" {
		if shareLvl < ctLvl {
			c.Count("cks_share_below_ct_level:KeySwitch_panics")
			return
		}
		c.Probe("cks_decrypts", label, "C16-cks", "KeySwitch_panicked")
		return
	}
	// phase(KeySwitch(ct), s_out) − phase(ct, s_in) = Σ e_i, |e_i| ≤ 6σ'
	bound := big.NewInt(int64(n) * c16Bound(noise))
	detail := Try(func() string {
		p1 := rlwe.NewPlaintext(params, ctLvl)
		p2 := rlwe.NewPlaintext(params, ctLvl)
		rlwe.NewDecryptor(params, in.ideal).Decrypt(ct, p1)
		rlwe.NewDecryptor(params, out.ideal).Decrypt(res, p2)
		if !res.MetaData.Equal(ct.MetaData) {
			return "metadata_not_propagated"
		}
		r := params.RingQ().AtLevel(ctLvl)
		r.Sub(p2.Value, p1.Value, p2.Value)
		if e := c14Norm(r, p2.Value, ntt); e.Cmp(bound) > 0 {
			return fmt.Sprintf("error=%s>bound=%s", e, bound)
		}
		// in place
		ct2 := ct.CopyNew()
		protos[0].KeySwitch(ct2, agg, ct2)
		if !ct2.Value[0].Equal(&res.Value[0]) || !ct2.Value[1].Equal(&res.Value[1]) {
			return "in_place_differs"
		}
		if d := c16SameCt(res, others, ctLvl); d != "" {
			return d
		}
		return ""
	})
	c.Probe("cks_decrypts", label+fmt.Sprintf(" receivers=%d", len(others)+2)+" bound="+bound.String(), "C16-cks", detail)
	ctB := c14RandCt(c, params, 1, ctLvl)
	ctB.IsNTT = ntt
	c16History(c, "KeySwitchProtocol.GenShare", label, func() string { return c16PolySnap(shares[0].Value) }, func() {
		o := protos[0].AllocateShare(shareLvl)
		protos[0].GenShare(in.sk[0], out.sk[0], ctB, &o)
	})
	c16History(c, "KeySwitchProtocol.KeySwitch", label, func() string { return c16CtSnap(res) }, func() {
		protos[0].KeySwitch(ctB, agg, c14RandCt(c, params, 1, ctLvl))
	})
}

// ---------------------------------------------------------------------------------------------
// PublicKeySwitchProtocol

func c16PCKS(c *Ctx, set c14Set, n, ctLvl, shareLvl int, ntt bool, sigma float64) {
	params := set.params
	in := c14GenKeys(set, n)
	kgen := rlwe.NewKeyGenerator(params)
	skOut, pkOut := kgen.GenKeyPairNew()
	flood := ring.DiscreteGaussian{Sigma: sigma, Bound: 6 * sigma}
	hasP := set.maxP() >= 0

	ct := c14RandCt(c, params, 1, ctLvl)
	ct.IsNTT = ntt
	lvl := ctLvl
	if shareLvl < lvl {
		lvl = shareLvl
	}

	type twin struct{ noise, xe, xs ring.Sampler }
	protos := make([]multiparty.PublicKeySwitchProtocol, n)
	twins := make([]twin, n)
	copied := make([]bool, n)
	for i := range protos {
		mark := RandMark()
		if i == 0 || c.rng.Intn(2) == 0 {
			var err error
			if protos[i], err = multiparty.NewPublicKeySwitchProtocol(params, flood); err != nil {
				panic(err)
			}
		} else {
			protos[i] = protos[c.rng.Intn(i)].ShallowCopy()
			copied[i] = true
		}
		// crypto/rand reads of the constructor: [0] noise PRNG; rlwe.NewEncryptor(params, nil) builds
		// two encryptors (the first is discarded): the last read is the live encryptor's PRNG.
		keys := RandKeysSince(mark)
		twins[i].noise, _ = c14Twin(set, mark, flood)
		eprng := TwinPRNG(mark, len(keys)-1)
		twins[i].xe, _ = ring.NewSampler(eprng, params.RingQ(), params.Xe(), false)
		twins[i].xs, _ = ring.NewSampler(eprng, params.RingQ(), params.Xs(), false)
	}
	// public key rows over Q[:shareLvl+1] (+ p0)
	p0 := "-"
	pkRows := func(k int) string {
		rows := Canon(params.RingQ().AtLevel(shareLvl), ring.Poly{Coeffs: pkOut.Value[k].Q.Coeffs[:shareLvl+1]}, true, true)
		if hasP {
			rows = append(rows, Canon(params.RingP().AtLevel(0), ring.Poly{Coeffs: pkOut.Value[k].P.Coeffs[:1]}, true, true)...)
		}
		return Mat(rows)
	}
	if hasP {
		p0 = U(set.p[0])
	}
	c1 := Mat(c16QRows(params, ct.Value[1], lvl, ntt))
	shares := make([]multiparty.PublicKeySwitchShare, n)
	rows := make([]string, n)
	for i := range shares {
		shares[i] = protos[i].AllocateShare(shareLvl)
		protos[i].GenShare(in.sk[i], pkOut, ct, &shares[i])
		// ring.TernarySampler.AtLevel keeps the parent's bound sampling closure: the draw is at the
		// parent's (full) level whatever the requested level; the encryptor passes a full-level buffer
		u := c16SampleSigned(params, twins[i].xs.AtLevel(shareLvl), shareLvl, true)
		e0 := c16SampleSigned(params, twins[i].xe, shareLvl, false)
		e1 := c16SampleSigned(params, twins[i].xe, shareLvl, false)
		e := c16SampleSigned(params, twins[i].noise, lvl, true)
		// phase(share, sk_out) − c1·s_i = smudging noise + the (small) noise of the encryption of zero
		c16Record(fmt.Sprintf("pcks_share ctor=%s sigma=%g", map[bool]string{false: "new", true: "copy"}[copied[i]], sigma),
			c16Residual(params, lvl, ntt, shares[i].Value[0], []c16Term{{shares[i].Value[1], skOut, -1}, {ct.Value[1], in.sk[i], 1}}, nil, nil))
		rows[i] = Mat(c16QRows(params, shares[i].Value[0], shareLvl, ntt)) + "|" + Mat(c16QRows(params, shares[i].Value[1], shareLvl, ntt))
		c.Emit(fmt.Sprintf("pcks_share %s %s %d %d %s %s %s %s %s %s %s %s", Vec(set.qs(shareLvl)), p0, set.n, lvl, pkRows(0), pkRows(1),
			IVec(u), IVec(e0), IVec(e1), c1, IVec(in.s[i]), IVec(e)), rows[i])
		c.Count("pcks_share")
	}

	add := func(x, y multiparty.PublicKeySwitchShare) (multiparty.PublicKeySwitchShare, error) {
		o := protos[0].AllocateShare(x.Level())
		err := protos[0].AggregateShares(x, y, &o)
		return o, err
	}
	rt := func(x multiparty.PublicKeySwitchShare) (multiparty.PublicKeySwitchShare, error) {
		b, err := x.MarshalBinary()
		if err != nil {
			return x, err
		}
		var y multiparty.PublicKeySwitchShare
		err = y.UnmarshalBinary(b)
		return y, err
	}
	eq := func(x, y multiparty.PublicKeySwitchShare) bool {
		return x.Value[0].Equal(&y.Value[0]) && x.Value[1].Equal(&y.Value[1])
	}
	c14OrderProbeKey(c, "pcks set="+set.name+fmt.Sprintf(" lvl=%d ntt=%t", lvl, ntt), "C16-agg-order", shares, add, rt, eq)
	if ol := c16OtherLevel(set.maxQ(), shareLvl); ol >= 0 {
		recv, _ := add(shares[0], shares[0])
		bad := protos[0].AllocateShare(ol)
		lab := fmt.Sprintf("set=%s lvl=%d other=%d", set.name, shareLvl, ol)
		snap := func() string { return c16PolySnap(recv.Value[0]) + " " + c16PolySnap(recv.Value[1]) }
		c14Refused(c, "C16:PublicKeySwitchProtocol.AggregateShares", "level_share1", lab, snap, func() error { return protos[0].AggregateShares(bad, shares[0], &recv) })
		c14Refused(c, "C16:PublicKeySwitchProtocol.AggregateShares", "level_share2", lab, snap, func() error { return protos[0].AggregateShares(shares[0], bad, &recv) })
	}

	t := c14RandTree(c, c14RandPerm(c, n))
	agg, _ := c14Eval(t, shares, add)
	flat := make([]string, n)
	for i := range rows {
		flat[i] = strings.Replace(rows[i], "|", ";", 1)
	}
	aggRows := Mat(c16QRows(params, agg.Value[0], shareLvl, ntt)) + ";" + Mat(c16QRows(params, agg.Value[1], shareLvl, ntt))
	c.Emit("agg "+Vec(set.qs(shareLvl))+" "+t.String()+" "+I(n)+" "+strings.Join(flat, " "), aggRows)
	c.Count("agg_tie")

	ksLine := func(recvLvl int) string {
		return fmt.Sprintf("pcks_ks %s %d %s %s %s %d", Vec(set.qs(ctLvl)), ctLvl, Mat(c16QRows(params, ct.Value[0], ctLvl, ntt)),
			Mat(c16QRows(params, agg.Value[0], ctLvl, ntt)), Mat(c16QRows(params, agg.Value[1], ctLvl, ntt)), recvLvl)
	}
	ksOut := func(o *rlwe.Ciphertext) string {
		l := o.Level()
		return I(l) + " " + Mat(Canon(params.RingQ().AtLevel(l), o.Value[0], ntt, false)) + "|" + Mat(Canon(params.RingQ().AtLevel(l), o.Value[1], ntt, false))
	}
	res := c14RandCt(c, params, 1, ctLvl)
	outTok := Try(func() string {
		protos[0].KeySwitch(ct, agg, res)
		return ksOut(res)
	})
	c.Emit(ksLine(ctLvl), outTok)
	c.Count("pcks_ks")
	var others []*rlwe.Ciphertext
	if outTok != "panic" {
		for r := 0; r <= set.maxQ(); r++ {
			if r == ctLvl || (!c.Thorough() && r != 0 && r != set.maxQ()) {
				continue
			}
			o := c14RandCt(c, params, 1, r)
			c.Emit(ksLine(r), Try(func() string {
				protos[0].KeySwitch(ct, agg, o)
				return ksOut(o)
			}))
			c.Count("pcks_ks_receiver_other_level")
			others = append(others, o)
		}
	}

	// phase(res, skOut) − phase(ct, Σ s_i) = Σ (e_i + phase(z_i, skOut)); |phase(z)| ≤ (d·B + B + d·B)/1 + 1 + d
	d, B := int64(set.n), c14B(params)
	h := d * c14Bs(params)
	bound := big.NewInt(int64(n) * (c16Bound(flood) + 2*h*B + B + h + 2))
	label := fmt.Sprintf("set=%s N=%d ctLvl=%d shareLvl=%d ntt=%t sigma=%g bound=%s", set.name, n, ctLvl, shareLvl, ntt, sigma, bound)
	detail := Try(func() string {
		if outTok == "panic" {
			return "KeySwitch_panicked"
		}
		p1 := rlwe.NewPlaintext(params, ctLvl)
		p2 := rlwe.NewPlaintext(params, ctLvl)
		rlwe.NewDecryptor(params, in.ideal).Decrypt(ct, p1)
		rlwe.NewDecryptor(params, skOut).Decrypt(res, p2)
		if !res.MetaData.Equal(ct.MetaData) {
			return "metadata_not_propagated"
		}
		r := params.RingQ().AtLevel(ctLvl)
		r.Sub(p2.Value, p1.Value, p2.Value)
		if e := c14Norm(r, p2.Value, ntt); e.Cmp(bound) > 0 {
			return fmt.Sprintf("error=%s>bound=%s", e, bound)
		}
		ct2 := ct.CopyNew()
		protos[0].KeySwitch(ct2, agg, ct2)
		if !ct2.Value[0].Equal(&res.Value[0]) || !ct2.Value[1].Equal(&res.Value[1]) {
			return "in_place_differs"
		}
		if d := c16SameCt(res, others, ctLvl); d != "" {
			return d
		}
		return ""
	})
	c.Probe("pcks_decrypts", label+fmt.Sprintf(" receivers=%d", len(others)+2), "C16-pcks", detail)
	ctB := c14RandCt(c, params, 1, ctLvl)
	ctB.IsNTT = ntt
	c16History(c, "PublicKeySwitchProtocol.GenShare", label, func() string { return c16PolySnap(shares[0].Value[0]) + c16PolySnap(shares[0].Value[1]) }, func() {
		o := protos[0].AllocateShare(shareLvl)
		protos[0].GenShare(in.sk[0], pkOut, ctB, &o)
	})
	c16History(c, "PublicKeySwitchProtocol.KeySwitch", label, func() string { return c16CtSnap(res) }, func() {
		protos[0].KeySwitch(ctB, agg, c14RandCt(c, params, 1, ctLvl))
	})
}

// ---------------------------------------------------------------------------------------------
// level mismatch

func c16LevelMismatch(c *Ctx, set c14Set) {
	if set.maxQ() == 0 {
		return
	}
	params := set.params
	flood := ring.DiscreteGaussian{Sigma: 3.2, Bound: 19.2}
	cks, _ := multiparty.NewKeySwitchProtocol(params, flood)
	pcks, _ := multiparty.NewPublicKeySwitchProtocol(params, flood)
	hi, lo := set.maxQ(), set.maxQ()-1
	verdict := func(f func() error) string {
		return Try(func() string {
			if err := f(); err != nil {
				return "err"
			}
			return "combined"
		})
	}
	report := func(kind, key, v string) {
		detail := ""
		if v != "err" {
			detail = "AggregateShares_" + v + "_instead_of_error"
		}
		c.Probe("level_mismatch", fmt.Sprintf("kind=%s set=%s", kind, set.name), key, detail)
	}
	for _, tc := range [][3]int{{hi, lo, hi}, {lo, hi, lo}, {hi, hi, lo}, {hi, hi, hi}} {
		a, b, o := cks.AllocateShare(tc[0]), cks.AllocateShare(tc[1]), cks.AllocateShare(tc[2])
		ring.NewUniformSampler(c16PRNG(c.rng.Bytes(32)), params.RingQ()).AtLevel(tc[0]).Read(a.Value)
		ring.NewUniformSampler(c16PRNG(c.rng.Bytes(32)), params.RingQ()).AtLevel(tc[1]).Read(b.Value)
		line := fmt.Sprintf("cks_agg %s %d %s %d %s %d %s", Vec(set.qs(hi)), tc[0], Mat(RawRows(a.Value)), tc[1], Mat(RawRows(b.Value)), tc[2], Mat(RawRows(o.Value)))
		v := verdict(func() error { return cks.AggregateShares(a, b, &o) })
		outTok := v
		if v == "combined" {
			outTok = Mat(RawRows(o.Value))
		}
		c.Emit(line, outTok)
		c.Count("cks_agg_tie")
		if tc[0] != tc[1] || tc[0] != tc[2] {
			report(fmt.Sprintf("cks_%d_%d_%d", tc[0], tc[1], tc[2]), "C16-cks-level-mismatch", v)
		}
	}
	// PublicKeySwitchProtocol.AggregateShares compares the two components of share1 with each other
	{
		a, b, o := pcks.AllocateShare(hi), pcks.AllocateShare(lo), pcks.AllocateShare(hi)
		report("pcks_hi_lo_hi", "C16-pcks-agg-selfcompare", verdict(func() error { return pcks.AggregateShares(a, b, &o) }))
		a, b, o = pcks.AllocateShare(lo), pcks.AllocateShare(hi), pcks.AllocateShare(lo)
		report("pcks_lo_hi_lo", "C16-pcks-agg-selfcompare", verdict(func() error { return pcks.AggregateShares(a, b, &o) }))
	}
}

// ---------------------------------------------------------------------------------------------
// smudging noise: pooled statistics

func c16SmudgeProbes(c *Ctx) {
	keys := make([]string, 0, len(c16Smudge))
	for k := range c16Smudge {
		keys = append(keys, k)
	}
	sortStrings(keys)
	for _, k := range keys {
		st := c16Smudge[k]
		var sigma float64
		fmt.Sscanf(k[strings.Index(k, "sigma=")+6:], "%g", &sigma)
		std := math.Sqrt(st.sumSq / float64(st.n))
		// statistical test (labelled): pooled sample std of n draws has relative deviation ~ 1/sqrt(2n);
		// accept std ≥ σ·(1 − 5/sqrt(2n)) (five standard errors)
		tol := 5 / math.Sqrt(2*float64(st.n))
		detail := ""
		if std < sigma*(1-tol) {
			detail = fmt.Sprintf("std=%.3f<requested=%.3f", std, sigma)
		}
		c.Probe("smudging_present", fmt.Sprintf("%s samples=%d std_milli=%d tol_ppm=%d statistical", strings.ReplaceAll(k, " ", "_"), st.n, int(std*1000), int(tol*1e6)), "C16-smudging", detail)
	}
}

// c16SameCt: every receiver ends at the expected level with the reference's polynomials and metadata.
func c16SameCt(ref *rlwe.Ciphertext, others []*rlwe.Ciphertext, lvl int) string {
	if ref.Level() != lvl {
		return fmt.Sprintf("output_level=%d_want=%d", ref.Level(), lvl)
	}
	for _, o := range others {
		if o.Level() != lvl {
			return fmt.Sprintf("receiver_kept_level=%d_want=%d", o.Level(), lvl)
		}
		if !o.Value[0].Equal(&ref.Value[0]) || !o.Value[1].Equal(&ref.Value[1]) {
			return "output_depends_on_the_receiver"
		}
		if !o.MetaData.Equal(ref.MetaData) {
			return "metadata_depends_on_the_receiver"
		}
	}
	return ""
}

// snapshots of receivers (stored words, levels, metadata)
func c16PolySnap(p ring.Poly) string { return I(p.Level()) + ":" + Mat(RawRows(p)) }

func c16CtSnap(ct *rlwe.Ciphertext) string {
	md, _ := ct.MetaData.MarshalBinary()
	out := I(ct.Degree()) + " " + Hex(md)
	for i := range ct.Value {
		out += " " + c16PolySnap(ct.Value[i])
	}
	return out
}

func c16RefreshSnap(sh *multiparty.RefreshShare) string {
	md, _ := sh.MetaData.MarshalBinary()
	return Hex(md) + " " + c16PolySnap(sh.EncToShareShare.Value) + " " + c16PolySnap(sh.ShareToEncShare.Value)
}

// c16OtherLevel: another level of the chain (-1 if the chain has one prime)
func c16OtherLevel(maxQ, lvl int) int {
	if lvl > 0 {
		return lvl - 1
	}
	if lvl < maxQ {
		return lvl + 1
	}
	return -1
}

// c16History: an output produced by an earlier call must not change (bit-exact, incl. the storage of big integers)
// when the same protocol instance is used again.
func c16History(c *Ctx, fn, label string, snap func() string, again func()) {
	before := snap()
	detail := Try(func() string {
		again()
		if snap() != before {
			return "earlier_output_changed_by_a_later_call_on_the_same_instance"
		}
		return ""
	})
	c.Probe("output_survives_next_call", fn+" "+label, "C16/"+fn+"/output-aliases-internal-state", detail)
}

// c16ScratchRLWE: ShallowCopy of the key-switching protocols shares no scratch buffer with the original
func c16ScratchRLWE(c *Ctx, set c14Set) {
	flood := ring.DiscreteGaussian{Sigma: 3.2, Bound: 19.2}
	cks, _ := multiparty.NewKeySwitchProtocol(set.params, flood)
	c14SharedScratch(c, "C16", "KeySwitchProtocol", cks, cks.ShallowCopy())
	pcks, _ := multiparty.NewPublicKeySwitchProtocol(set.params, flood)
	pc := pcks.ShallowCopy()
	c14SharedScratch(c, "C16", "PublicKeySwitchProtocol", pcks, pc)
	c14SharedScratch(c, "C16", "PublicKeySwitchProtocol(copy_of_copy)", pc, pc.ShallowCopy())
}

func c16PRNG(key []byte) *sampling.KeyedPRNG {
	p, err := sampling.NewKeyedPRNG(key)
	if err != nil {
		panic(err)
	}
	return p
}

func sortStrings(s []string) {
	for i := 1; i < len(s); i++ {
		for j := i; j > 0 && s[j] < s[j-1]; j-- {
			s[j], s[j-1] = s[j-1], s[j]
		}
	}
}
