package main

// C14 — collective keys are keys of the ideal secret, whatever the share order
// (multiparty/keygen_{cpk,evk,gal,relin}.go, crs.go).
//
// Tie lines (the Lean model reproduces the canonical rows exactly; grammar in lean/Driver/C14.lean):
//   cpk_share cpk_key agg evk_share evk_agg evk_aggtree evk_key gal_share gal_agg gal_key
//   rkg_r1 rkg_r2 rkg_key
// Probe lines (property predicates evaluated on the real code):
//   agg_order_indep       aggregate bit-identical for every permutation / tree, with and without
//                         a MarshalBinary/UnmarshalBinary round trip of each share
//   crs_determinism       same CRS key + same call sequence ⇒ identical reference polynomials
//   collective_key_works  final key used by the single-party Encryptor/Evaluator, decrypted with
//                         the ideal secret: error ≤ explicit bound (see c14_probe.go)
//   mismatch_rejected     Galois element / level / decomposition mismatch ⇒ error
//
// Sampled values are recovered by twin replay: every sampling.NewPRNG() inside lattigo performs one
// 64-byte read of crypto/rand.Reader (replaced by a deterministic stream), the twin sampler is
// rebuilt from the same key and performs the same sequence of Read calls.

import (
	"fmt"
	"strings"

	"github.com/tuneinsight/lattigo/v6/core/rlwe"
	"github.com/tuneinsight/lattigo/v6/multiparty"
	"github.com/tuneinsight/lattigo/v6/ring"
	"github.com/tuneinsight/lattigo/v6/ring/ringqp"
	"github.com/tuneinsight/lattigo/v6/utils"
	"github.com/tuneinsight/lattigo/v6/utils/sampling"
)

func init() { register("C14", genC14) }

// ---------------------------------------------------------------------------------------------
// parameter sets

// n is the number of coefficients of a polynomial on the protocol lines.  For the conjugate-invariant
// ring Z[X+X^-1]/(X^2N+1) (N coefficients a_i standing for a_0 + Σ a_i (X^i + X^-i)) the lines carry the
// element unfolded in the standard ring of degree 2N (c_i = a_i, c_{2N-i} = -a_i, c_N = 0), where
// products are negacyclic and automorphisms act modulo NthRoot = 4N: the model is the same, with n = 2N.
type c14Set struct {
	name   string
	params rlwe.Parameters
	n      int
	nRing  int
	q, p   []uint64
}

// c14Prime returns the (skip+1)-th prime ≡ 1 mod twoN below 2^bits.
func c14Prime(bits int, twoN uint64, skip int) uint64 {
	start := uint64(1) << uint(bits)
	c := start - (start % twoN) + 1 - twoN
	for {
		if ring.IsPrime(c) {
			if skip == 0 {
				return c
			}
			skip--
		}
		c -= twoN
	}
}

func c14NewSet(name string, logN int, qbits, pbits []int) c14Set {
	return c14NewSetRing(name, logN, qbits, pbits, ring.Standard)
}

func c14NewSetRing(name string, logN int, qbits, pbits []int, rt ring.Type) c14Set {
	return c14NewSetDist(name, logN, qbits, pbits, rt, nil, nil)
}

// c14NewSetDist: with declared secret / error distributions (nil = the library defaults Ternary{P:2/3}, σ = 3.2).
func c14NewSetDist(name string, logN int, qbits, pbits []int, rt ring.Type, xs, xe ring.DistributionParameters) c14Set {
	twoN := uint64(2) << uint(logN)
	if rt == ring.ConjugateInvariant {
		twoN <<= 1 // NthRoot = 4N
	}
	used := map[uint64]bool{}
	pick := func(bits int) uint64 {
		for k := 0; ; k++ {
			v := c14Prime(bits, twoN, k)
			if !used[v] {
				used[v] = true
				return v
			}
		}
	}
	var q, p []uint64
	for _, b := range qbits {
		q = append(q, pick(b))
	}
	for _, b := range pbits {
		p = append(p, pick(b))
	}
	params, err := rlwe.NewParametersFromLiteral(rlwe.ParametersLiteral{LogN: logN, Q: q, P: p, NTTFlag: true, RingType: rt, Xs: xs, Xe: xe})
	if err != nil {
		panic(fmt.Errorf("c14 params %s: %w", name, err))
	}
	n := 1 << logN
	if rt == ring.ConjugateInvariant {
		n <<= 1
	}
	return c14Set{name: name, params: params, n: n, nRing: 1 << logN, q: q, p: p}
}

var c14SetsCache []c14Set

func c14Sets() []c14Set {
	if c14SetsCache == nil {
		c14SetsCache = []c14Set{
			c14NewSet("q3", 4, []int{30, 40, 55}, nil),
			c14NewSet("q3p1", 4, []int{55, 30, 40}, []int{56}),
			c14NewSet("q2p1", 4, []int{30, 55}, []int{40}),
			c14NewSet("q3p2", 5, []int{40, 30, 55}, []int{45, 46}),
			// three / four auxiliary primes, #P does not divide #Q: RNS digits of LevelP+1 primes, the last one shorter
			c14NewSet("q4p3", 4, []int{30, 35, 40, 45}, []int{50, 51, 52}),
			c14NewSet("q5p4", 4, []int{30, 32, 34, 36, 38}, []int{50, 51, 52, 53}),
			// declared distributions other than the defaults: Gaussian / sparse / dense-ternary secrets, narrower and wider errors
			c14NewSetDist("gaussXs", 4, []int{40, 30, 55}, []int{56}, ring.Standard, ring.DiscreteGaussian{Sigma: 3.2, Bound: 19.2}, nil),
			c14NewSetDist("wideXsNarrowXe", 4, []int{45, 50}, []int{55, 56}, ring.Standard, ring.DiscreteGaussian{Sigma: 8, Bound: 48}, ring.DiscreteGaussian{Sigma: 1, Bound: 2}),
			c14NewSetDist("ternPwideXe", 4, []int{36, 44}, nil, ring.Standard, ring.Ternary{P: 0.5}, ring.DiscreteGaussian{Sigma: 8, Bound: 48}),
			c14NewSetDist("ternHnarrowXe", 4, []int{40, 50}, []int{51}, ring.Standard, ring.Ternary{H: 4}, ring.DiscreteGaussian{Sigma: 1, Bound: 2}),
			c14NewSetRing("ciq3p1", 4, []int{40, 30, 55}, []int{56}, ring.ConjugateInvariant),
			c14NewSetRing("ciq2", 4, []int{36, 50}, nil, ring.ConjugateInvariant),
		}
	}
	return c14SetsCache
}

func (s c14Set) qs(lq int) []uint64 { return s.q[:lq+1] }
func (s c14Set) ps(lp int) []uint64 {
	if lp < 0 {
		return nil
	}
	return s.p[:lp+1]
}
func (s c14Set) ringTok(lq, lp int) string {
	return Vec(s.qs(lq)) + " " + Vec(s.ps(lp)) + " " + I(s.n)
}
func (s c14Set) maxQ() int { return s.params.MaxLevelQ() }
func (s c14Set) maxP() int { return s.params.MaxLevelP() }

// ---------------------------------------------------------------------------------------------
// canonical forms

// c14Unfold maps the N coefficients of a conjugate-invariant element to the 2N coefficients of the same
// element in the standard ring of degree 2N.
func c14Unfold(row []uint64, q uint64) []uint64 {
	n := len(row)
	out := make([]uint64, 2*n)
	out[0] = row[0]
	for i := 1; i < n; i++ {
		out[i] = row[i]
		out[2*n-i] = (q - row[i]) % q
	}
	return out
}

func c14CanonRing(r *ring.Ring, p ring.Poly, ntt, mont bool) [][]uint64 {
	rows := Canon(r, p, ntt, mont)
	if r.Type() == ring.ConjugateInvariant {
		for i := range rows {
			rows[i] = c14Unfold(rows[i], r.SubRings[i].Modulus)
		}
	}
	return rows
}

func c14QPRows(params rlwe.Parameters, p ringqp.Poly, ntt, mont bool) [][]uint64 {
	var rows [][]uint64
	if p.Q.Level() >= 0 {
		rows = append(rows, c14CanonRing(params.RingQ().AtLevel(p.Q.Level()), p.Q, ntt, mont)...)
	}
	if p.P.Level() >= 0 && params.RingP() != nil {
		rows = append(rows, c14CanonRing(params.RingP().AtLevel(p.P.Level()), p.P, ntt, mont)...)
	}
	return rows
}

// c14Signed returns the centred coefficients read from the first row.
func c14Signed(r *ring.Ring, p ring.Poly, ntt, mont bool) []int {
	rows := Canon(r.AtLevel(0), ring.Poly{Coeffs: p.Coeffs[:1]}, ntt, mont)
	q := r.SubRings[0].Modulus
	out := make([]int, len(rows[0]))
	for i, x := range rows[0] {
		if x > q/2 {
			out[i] = -int(q - x)
		} else {
			out[i] = int(x)
		}
	}
	if r.Type() == ring.ConjugateInvariant {
		n := len(out)
		un := make([]int, 2*n)
		un[0] = out[0]
		for i := 1; i < n; i++ {
			un[i] = out[i]
			un[2*n-i] = -out[i]
		}
		return un
	}
	return out
}

func c14IMat(m [][]int) string {
	if len(m) == 0 {
		return "-"
	}
	parts := make([]string, len(m))
	for i := range m {
		parts[i] = IVec(m[i])
	}
	return strings.Join(parts, ";")
}

func c14Shape(sh []int) string { return IVec(sh) }

// gadget rows: all polynomials in order i, j, k
func c14GRows(params rlwe.Parameters, g *rlwe.GadgetCiphertext, ntt, mont bool) [][]uint64 {
	var rows [][]uint64
	for i := range g.Value {
		for j := range g.Value[i] {
			for k := range g.Value[i][j] {
				rows = append(rows, c14QPRows(params, g.Value[i][j][k], ntt, mont)...)
			}
		}
	}
	return rows
}

// c14G encodes a gadget ciphertext: levelQ levelP base2 shape degree+1 rows
func c14G(params rlwe.Parameters, g *rlwe.GadgetCiphertext, ntt, mont bool) string {
	return fmt.Sprintf("%d %d %d %s %d %s", g.LevelQ(), g.LevelP(), g.BaseTwoDecomposition,
		c14Shape(g.BaseTwoDecompositionVectorSize()), g.Degree()+1, Mat(c14GRows(params, g, ntt, mont)))
}

func c14CRPRows(params rlwe.Parameters, m [][]ringqp.Poly, mont bool) [][]uint64 {
	var rows [][]uint64
	for i := range m {
		for j := range m[i] {
			rows = append(rows, c14QPRows(params, m[i][j], true, mont)...)
		}
	}
	return rows
}

func c14CRPShape(m [][]ringqp.Poly) []int {
	sh := make([]int, len(m))
	for i := range m {
		sh[i] = len(m[i])
	}
	return sh
}

// ---------------------------------------------------------------------------------------------
// aggregation trees

type c14Tree struct {
	leaf int
	l, r *c14Tree
}

func (t *c14Tree) postfix(sb *[]string) {
	if t.l == nil {
		*sb = append(*sb, I(t.leaf))
		return
	}
	t.l.postfix(sb)
	t.r.postfix(sb)
	*sb = append(*sb, "+")
}

func (t *c14Tree) String() string {
	var sb []string
	t.postfix(&sb)
	return strings.Join(sb, ",")
}

func c14Comb(order []int) *c14Tree {
	t := &c14Tree{leaf: order[0]}
	for _, i := range order[1:] {
		t = &c14Tree{l: t, r: &c14Tree{leaf: i}}
	}
	return t
}

func c14RandTree(c *Ctx, order []int) *c14Tree {
	if len(order) == 1 {
		return &c14Tree{leaf: order[0]}
	}
	k := 1 + c.rng.Intn(len(order)-1)
	return &c14Tree{l: c14RandTree(c, order[:k]), r: c14RandTree(c, order[k:])}
}

func c14Eval[T any](t *c14Tree, sh []T, add func(a, b T) (T, error)) (T, error) {
	if t.l == nil {
		return sh[t.leaf], nil
	}
	x, err := c14Eval(t.l, sh, add)
	if err != nil {
		return x, err
	}
	y, err := c14Eval(t.r, sh, add)
	if err != nil {
		return y, err
	}
	return add(x, y)
}

func c14Perms(n int) [][]int {
	var out [][]int
	p := make([]int, n)
	for i := range p {
		p[i] = i
	}
	var rec func(k int)
	rec = func(k int) {
		if k == n {
			out = append(out, append([]int(nil), p...))
			return
		}
		for i := k; i < n; i++ {
			p[k], p[i] = p[i], p[k]
			rec(k + 1)
			p[k], p[i] = p[i], p[k]
		}
	}
	rec(0)
	return out
}

func c14RandPerm(c *Ctx, n int) []int {
	p := make([]int, n)
	for i := range p {
		p[i] = i
	}
	for i := n - 1; i > 0; i-- {
		j := c.rng.Intn(i + 1)
		p[i], p[j] = p[j], p[i]
	}
	return p
}

// c14Orders: all permutations for N ≤ 5 in the thorough tier (N ≤ 3 in the quick tier), a random
// sample otherwise.
func c14Orders(c *Ctx, n int) [][]int {
	lim := 3
	if c.Thorough() {
		lim = 5
	}
	if n <= lim {
		return c14Perms(n)
	}
	k := c.Scale(12, 60)
	out := make([][]int, k)
	for i := range out {
		out[i] = c14RandPerm(c, n)
	}
	return out
}

// c14OrderProbe evaluates the aggregate for every order in `orders`, as a left comb and as a
// random tree, on the shares as they are and on shares that went through serialization, and
// compares each result with the index-order aggregate.
func c14OrderProbe[T any](c *Ctx, label string, shares []T, add func(a, b T) (T, error), rt func(T) (T, error), eq func(a, b T) bool) {
	c14OrderProbeKey(c, label, "C14-agg-order", shares, add, rt, eq)
}

// c14OrderProbeKey: same with a caller-chosen finding key.
func c14OrderProbeKey[T any](c *Ctx, label, key string, shares []T, add func(a, b T) (T, error), rt func(T) (T, error), eq func(a, b T) bool) {
	n := len(shares)
	id := make([]int, n)
	for i := range id {
		id[i] = i
	}
	detail := ""
	cnt := 0
	ref, err := c14Eval(c14Comb(id), shares, add)
	if err != nil {
		detail = "reference aggregation failed: " + err.Error()
	}
	ser := make([]T, n)
	if detail == "" {
		for i := range shares {
			if ser[i], err = rt(shares[i]); err != nil {
				detail = "serialization round trip failed: " + err.Error()
				break
			}
		}
	}
	if detail == "" {
	outer:
		for _, ord := range c14Orders(c, n) {
			for _, t := range []*c14Tree{c14Comb(ord), c14RandTree(c, ord)} {
				for v, sh := range [][]T{shares, ser} {
					got, err := c14Eval(t, sh, add)
					cnt++
					if err != nil {
						detail = fmt.Sprintf("tree=%s ser=%d error %v", t, v, err)
						break outer
					}
					if !eq(got, ref) {
						detail = fmt.Sprintf("tree=%s ser=%d differs from index-order aggregate", t, v)
						break outer
					}
				}
			}
		}
	}
	c.Count("agg_orders_checked:" + strings.Fields(label)[0])
	c.Stats["agg_evaluations"] += cnt
	c.Probe("agg_order_indep", fmt.Sprintf("%s N=%d evals=%d", label, n, cnt), key, strings.ReplaceAll(detail, " ", "_"))
}

// c14RolesProbe: AggregateShares under every assignment of operands and receiver.  The reference values
// a+b and a+a are computed into fresh receivers from deep (serialization round trip) copies; then, on deep
// copies again, out = share1, out = share2 (the running aggregate as SECOND operand and receiver:
// AggregateShares(incoming, acc, &acc)), share1 = share2 with a fresh receiver, share1 = share2 = out, and
// the running chains acc = acc + s_i / acc = s_i + acc over all shares.  The operand that is not the
// receiver must come back unchanged.
func c14RolesProbe[T any](c *Ctx, fn, label string, shares []T, add func(a, b T) (T, error), call func(a, b T, out *T) error,
	rt func(T) (T, error), eq func(a, b T) bool) {
	n := len(shares)
	detail := ""
	fail := func(f string, a ...interface{}) {
		if detail == "" {
			detail = strings.ReplaceAll(fmt.Sprintf(f, a...), " ", "_")
		}
	}
	cp := func(x T) T {
		y, err := rt(x)
		if err != nil {
			fail("serialization round trip failed: %v", err)
			return x
		}
		return y
	}
	must := func(role string, err error) {
		if err != nil {
			fail("%s: error %v", role, err)
		}
	}
	a := shares[0]
	b := shares[n-1]
	if n > 1 {
		b = shares[1]
	}
	refAB, err := add(cp(a), cp(b))
	must("fresh_receiver a+b", err)
	refBA, err := add(cp(b), cp(a))
	must("fresh_receiver b+a", err)
	refAA, err := add(cp(a), cp(a))
	must("fresh_receiver a+copy(a)", err)
	if detail == "" && !eq(refAB, refBA) {
		fail("fresh receiver: a+b differs from b+a")
	}
	cases := 0
	if detail == "" {
		// out = share1
		x, y := cp(a), cp(b)
		must("out=share1", call(x, y, &x))
		if !eq(x, refAB) {
			fail("AggregateShares(a,b,&a) differs from a+b computed into a fresh receiver")
		}
		if !eq(y, b) {
			fail("AggregateShares(a,b,&a) modified b")
		}
		// out = share2: the running aggregate as second operand and receiver
		x, y = cp(a), cp(b)
		must("out=share2", call(x, y, &y))
		if !eq(y, refAB) {
			if eq(y, refAA) {
				fail("AggregateShares(incoming,acc,&acc) returns 2*incoming: acc overwritten before it is read")
			}
			fail("AggregateShares(incoming,acc,&acc) differs from incoming+acc computed into a fresh receiver")
		}
		if !eq(x, a) {
			fail("AggregateShares(incoming,acc,&acc) modified incoming")
		}
		// share1 = share2, fresh receiver (the same object twice)
		x = cp(a)
		got, err := add(x, x)
		must("share1=share2", err)
		if !eq(got, refAA) {
			fail("AggregateShares(a,a,&fresh) differs from a+copy(a)")
		}
		if !eq(x, a) {
			fail("AggregateShares(a,a,&fresh) modified a")
		}
		// share1 = share2 = out
		x = cp(a)
		must("share1=share2=out", call(x, x, &x))
		if !eq(x, refAA) {
			fail("AggregateShares(a,a,&a) differs from a+copy(a)")
		}
		// fresh receiver holding garbage (an earlier aggregate) is overwritten, not accumulated into
		x, y = cp(a), cp(b)
		o := cp(refAA)
		must("dirty receiver", call(x, y, &o))
		if !eq(o, refAB) {
			fail("AggregateShares(a,b,&dirty) depends on the previous content of the receiver")
		}
		cases = 5
	}
	if detail == "" && n > 1 {
		id := make([]int, n)
		for i := range id {
			id[i] = i
		}
		ref, err := c14Eval(c14Comb(id), shares, add)
		must("reference chain", err)
		for v := 0; v < 2 && detail == ""; v++ {
			acc := cp(shares[0])
			for i := 1; i < n && detail == ""; i++ {
				in := cp(shares[i])
				if v == 0 {
					must("chain acc=acc+s_i", call(acc, in, &acc))
				} else {
					must("chain acc=s_i+acc", call(in, acc, &acc))
				}
				if !eq(in, shares[i]) {
					fail("running aggregation modified the incoming share %d", i)
				}
			}
			if detail == "" && !eq(acc, ref) {
				fail("running aggregation %s over %d shares differs from the fresh-receiver aggregate", []string{"AggregateShares(acc,s_i,&acc)", "AggregateShares(s_i,acc,&acc)"}[v], n)
			}
			cases++
		}
	}
	c.Count("agg_roles_checked:" + strings.Fields(label)[0])
	c.Probe("agg_operand_roles", fmt.Sprintf("%s N=%d cases=%d", label, n, cases), "C14/"+fn+".AggregateShares/operand-aliasing", detail)
}

// ---------------------------------------------------------------------------------------------
// parties

type c14Keys struct {
	sk    []*rlwe.SecretKey
	ideal *rlwe.SecretKey
	s     [][]int
}

func c14GenKeys(set c14Set, n int) c14Keys {
	if c14KeyOverride != nil && len(c14KeyOverride.sk) == n {
		return *c14KeyOverride
	}
	kgen := rlwe.NewKeyGenerator(set.params)
	k := c14Keys{sk: make([]*rlwe.SecretKey, n), ideal: rlwe.NewSecretKey(set.params), s: make([][]int, n)}
	for i := range k.sk {
		k.sk[i] = kgen.GenSecretKeyNew()
		set.params.RingQP().Add(k.ideal.Value, k.sk[i].Value, k.ideal.Value)
		k.s[i] = c14Signed(set.params.RingQ(), k.sk[i].Value.Q, true, true)
	}
	return k
}

func c14CRS(c *Ctx) (key []byte, crs *sampling.KeyedPRNG) {
	key = c.rng.Bytes(32)
	crs, err := sampling.NewKeyedPRNG(key)
	if err != nil {
		panic(err)
	}
	return
}

func c14Twin(set c14Set, mark int, X ring.DistributionParameters) (ring.Sampler, *sampling.KeyedPRNG) {
	prng := TwinPRNG(mark, 0)
	s, err := ring.NewSampler(prng, set.params.RingQ(), X, false)
	if err != nil {
		panic(err)
	}
	return s, prng
}

func c14ReadSigned(set c14Set, s ring.Sampler, lq int) []int {
	r := set.params.RingQ().AtLevel(lq)
	e := r.NewPoly()
	s.AtLevel(lq).Read(e)
	return c14Signed(r, e, false, false)
}

// ---------------------------------------------------------------------------------------------
// evaluation-key parameterisations

type c14Evk struct{ lq, lp, b2 int }

func (e c14Evk) params() rlwe.EvaluationKeyParameters {
	return rlwe.EvaluationKeyParameters{LevelQ: utils.Pointy(e.lq), LevelP: utils.Pointy(e.lp), BaseTwoDecomposition: utils.Pointy(e.b2)}
}

func (e c14Evk) String() string { return fmt.Sprintf("lq=%d lp=%d b2=%d", e.lq, e.lp, e.b2) }

func c14EvkConfigs(set c14Set) []c14Evk {
	var out []c14Evk
	if set.maxP() >= 2 {
		// many auxiliary primes: the shapes that matter are the digit layouts (LevelP+1 primes per digit)
		for _, lq := range []int{set.maxQ(), set.maxQ() - 1, 1} {
			for _, lp := range []int{set.maxP(), set.maxP() - 1, 1} {
				out = append(out, c14Evk{lq, lp, 0})
			}
		}
		out = append(out, c14Evk{set.maxQ(), 0, 16}, c14Evk{set.maxQ(), -1, 8})
		return out
	}
	lqs := []int{0, set.maxQ()}
	if set.maxQ() > 1 {
		lqs = []int{0, 1, set.maxQ()}
	}
	lps := []int{-1}
	for lp := 0; lp <= set.maxP(); lp++ {
		lps = append(lps, lp)
	}
	for _, lq := range lqs {
		for _, lp := range lps {
			for _, b2 := range []int{0, 8, 16} {
				out = append(out, c14Evk{lq, lp, b2})
			}
		}
	}
	return out
}

// ---------------------------------------------------------------------------------------------
// generator

func genC14(c *Ctx) {
	defer c14CPKNoiseProbes(c)
	defer c14ConcurrentGalois(c)
	ns := []int{1, 2, 3, 5}
	if c.Thorough() {
		ns = []int{1, 2, 3, 4, 5, 6, 7, 8}
	}
	// the CRS rewound with Reset(): small rings and rejection-heavy primes
	for _, set := range c14CRSSets() {
		c14Guard(c, "C14-harness-panic", "c14CRSReset", func() { c14CRSReset(c, set) })
		c14Guard(c, "C14-harness-panic", "c14CRSDeterminism", func() { c14CRSDeterminism(c, set) })
		if set.nRing <= 32 || c.Thorough() {
			c14Guard(c, "C14-harness-panic", "c14CRSResetParties", func() { c14CRSResetParties(c, set, 2) })
		}
		if set.nRing <= 32 { // (the tie line carries the byte stream: small rings only)
			c14Guard(c, "C14-harness-panic", "c14CRSTie", func() { c14CRSTie(c, set) })
		}
	}
	for _, set := range c14Sets() {
		c14Guard(c, "C14-harness-panic", "c14CRSDeterminism", func() { c14CRSDeterminism(c, set) })
		for i := 0; i < c.Scale(2, 8); i++ {
			c14Guard(c, "C14-harness-panic", "c14CRSTie", func() { c14CRSTie(c, set) })
		}
		for _, n := range ns {
			c14Guard(c, "C14-harness-panic", "c14CPK", func() { c14CPK(c, set, n) })
		}
		cfgs := c14EvkConfigs(set)
		for ci, cfg := range cfgs {
			for _, n := range ns {
				// quick tier: every configuration once, party count rotating; thorough: everything
				if !c.Thorough() && ns[(ci+len(set.name))%len(ns)] != n {
					continue
				}
				c14Guard(c, "C14-harness-panic", "c14EVK", func() { c14EVK(c, set, n, cfg) })
				c14Guard(c, "C14-harness-panic", "c14GAL", func() { c14GAL(c, set, n, cfg) })
				c14Guard(c, "C14-harness-panic", "c14RKG", func() { c14RKG(c, set, n, cfg) })
			}
		}
		// multi-key sessions: the same parties (same secret-key objects) generate cpk, rlk, Galois keys and evks in sequence
		for _, scfg := range c14SessionCfgs(set) {
			for rep := 0; rep < c.Scale(1, 3); rep++ { // a fresh random order of the generations each time
				c14Guard(c, "C14-harness-panic", "c14Session", func() { c14Session(c, set, 2+c.rng.Intn(2), scfg) })
			}
		}
		// the CRS created with NewPRNG() by one party and shared through Key() / NewKeyedPRNG(key)
		for _, n := range []int{2, 3} {
			c14Guard(c, "C14-harness-panic", "c14CRSShared", func() { c14CRSShared(c, set, n) })
		}
		// every Galois element of the list (in the conjugate-invariant ring the inverse modulo NthRoot = 4N
		// of rotations by 1, 2, 3, 10 lies above 2N)
		gcfg := c14Evk{set.maxQ(), set.maxP(), 0}
		if set.maxP() < 0 {
			gcfg = c14Evk{set.maxQ(), -1, 16}
		}
		for _, g := range c14AllGalEls(set) {
			c14Guard(c, "C14-harness-panic", "c14GALEl", func() { c14GALEl(c, set, 2, gcfg, g) })
		}
		c14Guard(c, "C14-harness-panic", "c14CRSReset", func() { c14CRSReset(c, set) })
		c14Guard(c, "C14-harness-panic", "c14CRSResetParties", func() { c14CRSResetParties(c, set, 2+c.rng.Intn(2)) })
		c14Guard(c, "C14-harness-panic", "c14Mismatch", func() { c14Mismatch(c, set) })
		c14Guard(c, "C14-harness-panic", "c14ScratchAll", func() { c14ScratchAll(c, set) })
	}
}

// ---------------------------------------------------------------------------------------------
// inputs of a protocol function are left bit-for-bit unchanged

func c14RawQP(p ringqp.Poly) string { return Mat(RawRows(p.Q)) + "/" + Mat(RawRows(p.P)) }

func c14RawSks(keys ...c14Keys) string {
	var sb strings.Builder
	for _, k := range keys {
		for _, sk := range k.sk {
			sb.WriteString(c14RawQP(sk.Value))
			sb.WriteByte(' ')
		}
	}
	return sb.String()
}

func c14RawCRP(m [][]ringqp.Poly) string {
	var sb strings.Builder
	for i := range m {
		for j := range m[i] {
			sb.WriteString(c14RawQP(m[i][j]))
			sb.WriteByte(' ')
		}
	}
	return sb.String()
}

func c14RawGadget(g *rlwe.GadgetCiphertext) string {
	var sb strings.Builder
	fmt.Fprintf(&sb, "%d ", g.BaseTwoDecomposition)
	for i := range g.Value {
		for j := range g.Value[i] {
			for k := range g.Value[i][j] {
				sb.WriteString(c14RawQP(g.Value[i][j][k]))
				sb.WriteByte(' ')
			}
		}
	}
	return sb.String()
}

// c14Inputs snapshots the named arguments now; the returned function compares them after the calls and emits the probe.
func c14Inputs(c *Ctx, fn, label string, names []string, snaps []func() string) func() {
	before := make([]string, len(snaps))
	for i := range snaps {
		before[i] = snaps[i]()
	}
	return func() {
		detail := ""
		for i := range snaps {
			if snaps[i]() != before[i] {
				detail = "argument_" + names[i] + "_was_modified"
				break
			}
		}
		c.Probe("inputs_unchanged", fn+" "+strings.Join(names, ",")+" "+label, "C14/"+fn+"/input-modified", detail)
	}
}

func c14SessionCfgs(set c14Set) []c14Evk {
	out := []c14Evk{{set.maxQ(), -1, 16}, {set.maxQ(), -1, 8}, {set.maxQ(), set.maxP(), 0}}
	if set.maxP() >= 0 {
		out = append(out, c14Evk{set.maxQ(), 0, 16})
	}
	return out
}

// c14Session: one group of parties, ONE set of secret-key objects, a sequence of key generations (order drawn at
// random; all orders over the runs of the thorough tier).  Every generation runs its ties and probes, so a protocol
// call that damages a secret key (or any shared object) makes the LATER keys fail collective_key_works / the ties.
func c14Session(c *Ctx, set c14Set, n int, cfg c14Evk) {
	keys := c14GenKeys(set, n)
	c14KeyOverride = &keys
	defer func() { c14KeyOverride = nil }()
	els := c14AllGalEls(set)
	steps := []func(){
		func() { c14CPK(c, set, n) },
		func() { c14RKG(c, set, n, cfg) },
		func() { c14GALEl(c, set, n, cfg, els[0]) },
		func() { c14GALEl(c, set, n, cfg, els[1]) },
		func() { c14EVK(c, set, n, cfg) },
		func() { c14GALEl(c, set, n, cfg, els[len(els)-1]) },
		func() { c14RKG(c, set, n, cfg) },
	}
	for _, k := range c14RandPerm(c, len(steps)) {
		steps[k]()
	}
	chk := ""
	for i := range keys.sk {
		if IVec(c14Signed(set.params.RingQ(), keys.sk[i].Value.Q, true, true)) != IVec(keys.s[i]) {
			chk = fmt.Sprintf("secret_key_of_party_%d_changed_during_the_session", i)
			break
		}
	}
	c.Probe("session_keys_intact", fmt.Sprintf("set=%s %s N=%d steps=%d", set.name, cfg, n, len(steps)), "C14-session-sk-modified", chk)
	c.Count("multi_key_session")
}

// c14KeyOverride: when set, c14GenKeys returns these parties (the SAME secret-key objects) instead of fresh ones —
// multi-key sessions generate cpk, rlk, Galois keys and evks one after the other with the same keys.
var c14KeyOverride *c14Keys

// ---------------------------------------------------------------------------------------------
// the key must not alias the share / CRP it was generated from

func c14Clobber(c *Ctx, polys ...ring.Poly) {
	for _, p := range polys {
		for i := range p.Coeffs {
			for j := range p.Coeffs[i] {
				p.Coeffs[i][j] = c.rng.U64() >> 44
			}
		}
	}
}

func c14ClobberQP(c *Ctx, polys ...ringqp.Poly) {
	for _, p := range polys {
		c14Clobber(c, p.Q, p.P)
	}
}

func c14ClobberGadget(c *Ctx, g *rlwe.GadgetCiphertext) {
	for i := range g.Value {
		for j := range g.Value[i] {
			c14ClobberQP(c, g.Value[i][j]...)
		}
	}
}

func c14ClobberCRP(c *Ctx, m [][]ringqp.Poly) {
	for i := range m {
		c14ClobberQP(c, m[i]...)
	}
}

// c14SurvivesProbe: `before`/`after` are the key's limbs before and after the share and CRP objects were
// overwritten (as happens when they are reused for the next key).
func c14SurvivesProbe(c *Ctx, label, before, after string) {
	detail := ""
	if before != after {
		detail = "key_limbs_changed_when_the_share_and_CRP_objects_were_overwritten"
	}
	c.Probe("key_survives_share_reuse", label, "C14-key-aliases-share", detail)
}

// c14AltCfgs: parameterisations that differ from cfg in exactly one respect (and really produce another level
// or another number of digits).
func c14AltCfgs(set c14Set, cfg c14Evk) (names []string, alts []c14Evk) {
	if cfg.lq > 0 {
		names, alts = append(names, "levelQ"), append(alts, c14Evk{cfg.lq - 1, cfg.lp, cfg.b2})
	} else if cfg.lq < set.maxQ() {
		names, alts = append(names, "levelQ"), append(alts, c14Evk{cfg.lq + 1, cfg.lp, cfg.b2})
	}
	if cfg.lp >= 0 {
		names, alts = append(names, "levelP"), append(alts, c14Evk{cfg.lq, cfg.lp - 1, cfg.b2})
	} else if set.maxP() >= 0 {
		names, alts = append(names, "levelP"), append(alts, c14Evk{cfg.lq, 0, cfg.b2})
	}
	if cfg.lp <= 0 {
		b := 8
		if cfg.b2 == 8 {
			b = 16
		}
		names, alts = append(names, "decomposition"), append(alts, c14Evk{cfg.lq, cfg.lp, b})
	}
	return
}

// c14ProbeTag is appended to the labels of collective_key_works (re-check after share reuse).
var c14ProbeTag string

// ---------------------------------------------------------------------------------------------
// collective public key

func c14CPK(c *Ctx, set c14Set, n int) {
	params := set.params
	lq, lp := set.maxQ(), set.maxP()
	keys := c14GenKeys(set, n)
	_, crs := c14CRS(c)

	protos := make([]multiparty.PublicKeyGenProtocol, n)
	twins := make([]ring.Sampler, n)
	isCopy := make([]bool, n)
	for i := range protos {
		mark := RandMark()
		if i == 0 || c.rng.Intn(2) == 0 {
			protos[i] = multiparty.NewPublicKeyGenProtocol(params)
		} else {
			isCopy[i] = true
			protos[i] = protos[c.rng.Intn(i)].ShallowCopy() // a copy of the original or of an earlier copy
		}
		twins[i], _ = c14Twin(set, mark, params.Xe())
	}
	crp := protos[0].SampleCRP(crs)
	a := Mat(c14QPRows(params, crp.Value, true, true))
	inLab := fmt.Sprintf("set=%s N=%d", set.name, n)
	chk := c14Inputs(c, "PublicKeyGenProtocol.GenShare", inLab, []string{"sk", "crp"},
		[]func() string{func() string { return c14RawSks(keys) }, func() string { return c14RawQP(crp.Value) }})

	shares := make([]multiparty.PublicKeyGenShare, n)
	shareRows := make([]string, n)
	for i := range shares {
		shares[i] = protos[i].AllocateShare()
		protos[i].GenShare(keys.sk[i], crp, &shares[i])
		e := c14ReadSigned(set, twins[i], lq)
		shareRows[i] = Mat(c14QPRows(params, shares[i].Value, true, true))
		c.Emit("cpk_share "+set.ringTok(lq, lp)+" "+a+" "+IVec(keys.s[i])+" "+IVec(e), shareRows[i])
		c.Count("cpk_share")
	}

	chk()
	chk = c14Inputs(c, "PublicKeyGenProtocol.AggregateShares", inLab, []string{"shares"}, []func() string{func() string {
		o := ""
		for i := range shares {
			o += c14RawQP(shares[i].Value) + " "
		}
		return o
	}})
	add := func(x, y multiparty.PublicKeyGenShare) (multiparty.PublicKeyGenShare, error) {
		out := protos[0].AllocateShare()
		protos[0].AggregateShares(x, y, &out)
		return out, nil
	}
	rt := func(x multiparty.PublicKeyGenShare) (multiparty.PublicKeyGenShare, error) {
		b, err := x.MarshalBinary()
		if err != nil {
			return x, err
		}
		var y multiparty.PublicKeyGenShare
		err = y.UnmarshalBinary(b)
		return y, err
	}
	eq := func(x, y multiparty.PublicKeyGenShare) bool { return x.Value.Equal(&y.Value) }
	c14OrderProbe(c, "cpk set="+set.name, shares, add, rt, eq)
	c14RolesProbe(c, "PublicKeyGenProtocol", "cpk set="+set.name, shares, add,
		func(x, y multiparty.PublicKeyGenShare, o *multiparty.PublicKeyGenShare) error {
			protos[0].AggregateShares(x, y, o)
			return nil
		}, rt, eq)

	// tie: aggregation along two trees
	ord := c14RandPerm(c, n)
	var agg multiparty.PublicKeyGenShare
	for _, t := range []*c14Tree{c14Comb(ord), c14RandTree(c, c14RandPerm(c, n))} {
		agg, _ = c14Eval(t, shares, add)
		c.Emit("agg "+Vec(append(append([]uint64{}, set.qs(lq)...), set.ps(lp)...))+" "+t.String()+" "+I(n)+" "+strings.Join(shareRows, " "),
			Mat(c14QPRows(params, agg.Value, true, true)))
		c.Count("agg_tie")
	}

	chk()
	chk = c14Inputs(c, "PublicKeyGenProtocol.GenPublicKey", inLab, []string{"share", "crp", "sk"},
		[]func() string{func() string { return c14RawQP(agg.Value) }, func() string { return c14RawQP(crp.Value) }, func() string { return c14RawSks(keys) }})
	pk := rlwe.NewPublicKey(params)
	protos[0].GenPublicKey(agg, crp, pk)
	chk()
	c.Emit("cpk_key "+Mat(c14QPRows(params, agg.Value, true, true))+" "+a,
		Mat(c14QPRows(params, pk.Value[0], true, true))+"|"+Mat(c14QPRows(params, pk.Value[1], true, true)))
	c.Count("cpk_key")

	c14ProbePK(c, set, n, keys, pk)
	c14CPKNoise(c, set, n, keys, pk, shares, crp, isCopy)

	pkRows := func() string {
		return Mat(c14QPRows(params, pk.Value[0], true, true)) + "|" + Mat(c14QPRows(params, pk.Value[1], true, true))
	}
	before := pkRows()
	c14ClobberQP(c, agg.Value, crp.Value)
	for i := range shares {
		protos[i].GenShare(keys.sk[i], crp, &shares[i])
	}
	c14SurvivesProbe(c, fmt.Sprintf("cpk set=%s N=%d", set.name, n), before, pkRows())
	c14ProbeTag = " after_share_reuse"
	c14ProbePK(c, set, n, keys, pk)
	c14ProbeTag = ""
}

// ---------------------------------------------------------------------------------------------
// evaluation key

// c14ReadErrs replays the error draws of EvaluationKeyGenProtocol.GenShare / GenShareRoundOne:
// j outer, i inner, `per` draws per (i,j).
func c14ReadErrs(set c14Set, tw ring.Sampler, lq int, shape []int, per int) [][][]int {
	es := make([][][]int, per)
	for k := range es {
		es[k] = make([][]int, 0)
	}
	maxJ := 0
	for _, s := range shape {
		if s > maxJ {
			maxJ = s
		}
	}
	tmp := make([]map[[2]int][]int, per)
	for k := range tmp {
		tmp[k] = map[[2]int][]int{}
	}
	for j := 0; j < maxJ; j++ {
		for i := range shape {
			if j < shape[i] {
				for k := 0; k < per; k++ {
					tmp[k][[2]int{i, j}] = c14ReadSigned(set, tw, lq)
				}
			}
		}
	}
	for k := 0; k < per; k++ {
		for i := range shape {
			for j := 0; j < shape[i]; j++ {
				es[k] = append(es[k], tmp[k][[2]int{i, j}])
			}
		}
	}
	return es
}

func c14EvkShareEq(x, y multiparty.EvaluationKeyGenShare) bool {
	return x.GadgetCiphertext.Equal(&y.GadgetCiphertext)
}

func c14EVK(c *Ctx, set c14Set, n int, cfg c14Evk) {
	params := set.params
	lq, lp := cfg.lq, cfg.lp
	in := c14GenKeys(set, n)
	out := c14GenKeys(set, n)
	_, crs := c14CRS(c)
	ep := cfg.params()

	protos := make([]multiparty.EvaluationKeyGenProtocol, n)
	twins := make([]ring.Sampler, n)
	for i := range protos {
		mark := RandMark()
		if i == 0 || c.rng.Intn(2) == 0 {
			protos[i] = multiparty.NewEvaluationKeyGenProtocol(params)
		} else {
			protos[i] = protos[c.rng.Intn(i)].ShallowCopy() // a copy of the original or of an earlier copy
		}
		twins[i], _ = c14Twin(set, mark, params.Xe())
	}
	crp := protos[0].SampleCRP(crs, ep)
	crpShape := c14CRPShape(crp.Value)
	a := Mat(c14CRPRows(params, crp.Value, true))

	inLab := fmt.Sprintf("set=%s %s N=%d", set.name, cfg, n)
	chk := c14Inputs(c, "EvaluationKeyGenProtocol.GenShare", inLab, []string{"skIn", "skOut", "crp"},
		[]func() string{func() string { return c14RawSks(in) }, func() string { return c14RawSks(out) }, func() string { return c14RawCRP(crp.Value) }})
	shares := make([]multiparty.EvaluationKeyGenShare, n)
	gs := make([]string, n)
	for i := range shares {
		shares[i] = protos[i].AllocateShare(ep)
		alloc := fmt.Sprintf("%d %d %d %s", shares[i].LevelQ(), shares[i].LevelP(), shares[i].BaseTwoDecomposition, c14Shape(shares[i].BaseTwoDecompositionVectorSize()))
		outTok := Try(func() string {
			if err := protos[i].GenShare(in.sk[i], out.sk[i], crp, &shares[i]); err != nil {
				return "err"
			}
			return Mat(c14GRows(params, &shares[i].GadgetCiphertext, true, true))
		})
		es := c14ReadErrs(set, twins[i], lq, crpShape, 1)
		c.Emit(fmt.Sprintf("evk_share %s %d %d %d %d %s %s %s %s %s %s", set.ringTok(lq, lp), in.sk[i].LevelQ(), out.sk[i].LevelQ(),
			in.sk[i].LevelP(), out.sk[i].LevelP(), IVec(in.s[i]), IVec(out.s[i]), c14Shape(crpShape), a, c14IMat(es[0]), alloc), outTok)
		c.Count("evk_share")
		gs[i] = c14G(params, &shares[i].GadgetCiphertext, true, true)
	}

	chk()
	chk = c14Inputs(c, "EvaluationKeyGenProtocol.AggregateShares", inLab, []string{"shares"}, []func() string{func() string {
		o := ""
		for i := range shares {
			o += c14RawGadget(&shares[i].GadgetCiphertext)
		}
		return o
	}})
	add := func(x, y multiparty.EvaluationKeyGenShare) (multiparty.EvaluationKeyGenShare, error) {
		o := protos[0].AllocateShare(ep)
		err := protos[0].AggregateShares(x, y, &o)
		return o, err
	}
	rt := func(x multiparty.EvaluationKeyGenShare) (multiparty.EvaluationKeyGenShare, error) {
		b, err := x.MarshalBinary()
		if err != nil {
			return x, err
		}
		var y multiparty.EvaluationKeyGenShare
		err = y.UnmarshalBinary(b)
		return y, err
	}
	c14OrderProbe(c, "evk set="+set.name+" "+cfg.String(), shares, add, rt, c14EvkShareEq)
	c14RolesProbe(c, "EvaluationKeyGenProtocol", "evk set="+set.name+" "+cfg.String(), shares, add,
		func(x, y multiparty.EvaluationKeyGenShare, o *multiparty.EvaluationKeyGenShare) error {
			return protos[0].AggregateShares(x, y, o)
		}, rt, c14EvkShareEq)

	t := c14RandTree(c, c14RandPerm(c, n))
	agg, _ := c14Eval(t, shares, add)
	c.Emit("evk_aggtree "+set.ringTok(lq, lp)+" "+t.String()+" "+I(n)+" "+strings.Join(gs, " "),
		Mat(c14GRows(params, &agg.GadgetCiphertext, true, true)))
	c.Count("evk_aggtree")

	chk()
	chk = c14Inputs(c, "EvaluationKeyGenProtocol.GenEvaluationKey", inLab, []string{"share", "crp", "skIn", "skOut"},
		[]func() string{func() string { return c14RawGadget(&agg.GadgetCiphertext) }, func() string { return c14RawCRP(crp.Value) },
			func() string { return c14RawSks(in) }, func() string { return c14RawSks(out) }})
	evk := rlwe.NewEvaluationKey(params, ep)
	keyTok := c14G(params, &evk.GadgetCiphertext, true, true)
	res := Try(func() string {
		if err := protos[0].GenEvaluationKey(agg, crp, evk); err != nil {
			return "err"
		}
		return Mat(c14GRows(params, &evk.GadgetCiphertext, true, true))
	})
	c.Emit("evk_key "+set.ringTok(lq, lp)+" "+c14G(params, &agg.GadgetCiphertext, true, true)+" "+c14Shape(crpShape)+" "+a+" "+keyTok, res)
	c.Count("evk_key")

	chk()
	c14ProbeEVK(c, set, n, cfg, in, out, evk, res == "panic")

	// refused calls on receivers that hold a valid result: error AND receiver untouched AND key still works
	if res != "panic" && res != "err" {
		lab := fmt.Sprintf("set=%s %s N=%d", set.name, cfg, n)
		names, alts := c14AltCfgs(set, cfg)
		aggSnap := func() string { return c14GSnap(params, &agg.GadgetCiphertext) }
		keySnap := func() string { return c14GSnap(params, &evk.GadgetCiphertext) }
		shSnap := func() string { return c14GSnap(params, &shares[0].GadgetCiphertext) }
		for k, alt := range alts {
			bad := protos[0].AllocateShare(alt.params())
			c14Refused(c, "EvaluationKeyGenProtocol.AggregateShares", names[k]+"_share1", lab, aggSnap, func() error { return protos[0].AggregateShares(bad, shares[0], &agg) })
			c14Refused(c, "EvaluationKeyGenProtocol.AggregateShares", names[k]+"_share2", lab, aggSnap, func() error { return protos[0].AggregateShares(shares[0], bad, &agg) })
			c14Refused(c, "EvaluationKeyGenProtocol.GenEvaluationKey", names[k]+"_share", lab, keySnap, func() error { return protos[0].GenEvaluationKey(bad, crp, evk) })
			if names[k] == "decomposition" {
				crp2 := protos[0].SampleCRP(crs, alt.params())
				c14Refused(c, "EvaluationKeyGenProtocol.GenEvaluationKey", "decomposition_crp", lab, keySnap, func() error { return protos[0].GenEvaluationKey(agg, crp2, evk) })
				c14Refused(c, "EvaluationKeyGenProtocol.GenShare", "decomposition_crp", lab, shSnap, func() error { return protos[0].GenShare(in.sk[0], out.sk[0], crp2, &shares[0]) })
			}
		}
		if len(alts) > 0 {
			c14ProbeTag = " after_refused_calls"
			c14ProbeEVK(c, set, n, cfg, in, out, evk, false)
			c14ProbeTag = ""
		}
	}

	if res != "panic" && res != "err" {
		c14ClobberGadget(c, &agg.GadgetCiphertext)
		c14ClobberCRP(c, crp.Value)
		for i := range shares {
			_ = protos[i].GenShare(in.sk[i], out.sk[i], crp, &shares[i])
		}
		c14SurvivesProbe(c, fmt.Sprintf("evk set=%s %s N=%d", set.name, cfg, n), res, Mat(c14GRows(params, &evk.GadgetCiphertext, true, true)))
		c14ProbeTag = " after_share_reuse"
		c14ProbeEVK(c, set, n, cfg, in, out, evk, false)
		c14ProbeTag = ""
	}
}

// ---------------------------------------------------------------------------------------------
// Galois key

// c14AllGalEls: rotations by 1, 2, 3, 10, -1 and N/4, the order-two element (conjugation), and 3.
func c14AllGalEls(set c14Set) []uint64 {
	p := set.params
	els := []uint64{p.GaloisElement(1), p.GaloisElement(2), p.GaloisElement(3), p.GaloisElement(10),
		p.GaloisElement(set.nRing / 4)}
	if p.RingType() == ring.Standard {
		els = append(els, 3, p.GaloisElement(-1), p.GaloisElementOrderTwoOrthogonalSubgroup())
	} else {
		// the library refuses negative rotations and the order-two element in the conjugate-invariant ring, and its
		// NTT automorphism index only exists for elements = 1 mod 4 (the powers of 5): raw elements 2N+1 and 4N-3
		nth := uint64(4 * set.nRing)
		els = append(els, nth/2+1, nth-3)
	}
	var out []uint64
	seen := map[uint64]bool{1: true}
	for _, e := range els {
		if !seen[e] {
			seen[e] = true
			out = append(out, e)
		}
	}
	return out
}

func c14GalEls(c *Ctx, set c14Set) []uint64 {
	els := c14AllGalEls(set)
	return []uint64{els[c.rng.Intn(len(els))]}
}

func c14GalG(params rlwe.Parameters, s *multiparty.GaloisKeyGenShare) string {
	return U(s.GaloisElement) + " " + c14G(params, &s.GadgetCiphertext, true, true)
}

func c14GAL(c *Ctx, set c14Set, n int, cfg c14Evk) {
	c14Guard(c, "C14-harness-panic", "c14GALEl", func() { c14GALEl(c, set, n, cfg, c14GalEls(c, set)[0]) })
}

func c14GALEl(c *Ctx, set c14Set, n int, cfg c14Evk, galEl uint64) {
	params := set.params
	lq, lp := cfg.lq, cfg.lp
	keys := c14GenKeys(set, n)
	_, crs := c14CRS(c)
	ep := cfg.params()

	protos := make([]multiparty.GaloisKeyGenProtocol, n)
	twins := make([]ring.Sampler, n)
	for i := range protos {
		mark := RandMark()
		if i == 0 || c.rng.Intn(2) == 0 {
			protos[i] = multiparty.NewGaloisKeyGenProtocol(params)
		} else {
			protos[i] = protos[c.rng.Intn(i)].ShallowCopy() // a copy of the original or of an earlier copy
		}
		twins[i], _ = c14Twin(set, mark, params.Xe())
	}
	crp := protos[0].SampleCRP(crs, ep)
	crpShape := c14CRPShape(crp.Value)
	a := Mat(c14CRPRows(params, crp.Value, true))

	inLab := fmt.Sprintf("set=%s %s N=%d galEl=%d", set.name, cfg, n, galEl)
	chk := c14Inputs(c, "GaloisKeyGenProtocol.GenShare", inLab, []string{"sk", "crp"},
		[]func() string{func() string { return c14RawSks(keys) }, func() string { return c14RawCRP(crp.Value) }})
	shares := make([]multiparty.GaloisKeyGenShare, n)
	gs := make([]string, n)
	panicked := false
	for i := range shares {
		shares[i] = protos[i].AllocateShare(ep)
		alloc := fmt.Sprintf("%d %d %d %s", shares[i].LevelQ(), shares[i].LevelP(), shares[i].BaseTwoDecomposition, c14Shape(shares[i].BaseTwoDecompositionVectorSize()))
		outTok := Try(func() string {
			if err := protos[i].GenShare(keys.sk[i], galEl, crp, &shares[i]); err != nil {
				return "err"
			}
			return U(shares[i].GaloisElement) + " " + Mat(c14GRows(params, &shares[i].GadgetCiphertext, true, true))
		})
		var es [][][]int
		if outTok == "panic" {
			panicked = true
			es = [][][]int{make([][]int, 0)}
			for _, k := range crpShape {
				for j := 0; j < k; j++ {
					es[0] = append(es[0], make([]int, set.n))
				}
			}
		} else {
			es = c14ReadErrs(set, twins[i], lq, crpShape, 1)
		}
		// the automorphed key lives in the protocol's buffer, allocated at the maximum levels
		c.Emit(fmt.Sprintf("gal_share %s %d %d %d %d %s %d %s %s %s %s", set.ringTok(lq, lp), keys.sk[i].LevelQ(), set.maxQ(),
			keys.sk[i].LevelP(), set.maxP(), IVec(keys.s[i]), galEl, c14Shape(crpShape), a, c14IMat(es[0]), alloc), outTok)
		c.Count("gal_share")
		gs[i] = c14GalG(params, &shares[i])
	}
	if panicked {
		// (before fixes/C14-2: GaloisKeyGenProtocol.GenShare panicked when the key has no auxiliary modulus)
		if !c14Baseline(c, set, cfg) {
			c.Count("key_works_skipped(single-party key unusable too):gal")
			return
		}
		c.Probe("collective_key_works", fmt.Sprintf("gal set=%s %s N=%d galEl=%d", set.name, cfg, n, galEl), "C14-gal-no-P-panics",
			"GaloisKeyGenProtocol.GenShare_panics_for_LevelP=-1")
		return
	}

	chk()
	chk = c14Inputs(c, "GaloisKeyGenProtocol.AggregateShares", inLab, []string{"shares"}, []func() string{func() string {
		o := ""
		for i := range shares {
			o += U(shares[i].GaloisElement) + " " + c14RawGadget(&shares[i].GadgetCiphertext)
		}
		return o
	}})
	add := func(x, y multiparty.GaloisKeyGenShare) (multiparty.GaloisKeyGenShare, error) {
		o := protos[0].AllocateShare(ep)
		err := protos[0].AggregateShares(x, y, &o)
		return o, err
	}
	rt := func(x multiparty.GaloisKeyGenShare) (multiparty.GaloisKeyGenShare, error) {
		b, err := x.MarshalBinary()
		if err != nil {
			return x, err
		}
		var y multiparty.GaloisKeyGenShare
		err = y.UnmarshalBinary(b)
		return y, err
	}
	eq := func(x, y multiparty.GaloisKeyGenShare) bool {
		return x.GaloisElement == y.GaloisElement && c14EvkShareEq(x.EvaluationKeyGenShare, y.EvaluationKeyGenShare)
	}
	c14OrderProbe(c, "gal set="+set.name+" "+cfg.String(), shares, add, rt, eq)
	c14RolesProbe(c, "GaloisKeyGenProtocol", "gal set="+set.name+" "+cfg.String(), shares, add,
		func(x, y multiparty.GaloisKeyGenShare, o *multiparty.GaloisKeyGenShare) error {
			return protos[0].AggregateShares(x, y, o)
		}, rt, eq)

	t := c14RandTree(c, c14RandPerm(c, n))
	agg, _ := c14Eval(t, shares, add)
	c.Emit("gal_aggtree "+set.ringTok(lq, lp)+" "+t.String()+" "+I(n)+" "+strings.Join(gs, " "),
		U(agg.GaloisElement)+" "+Mat(c14GRows(params, &agg.GadgetCiphertext, true, true)))
	c.Count("gal_aggtree")

	chk()
	chk = c14Inputs(c, "GaloisKeyGenProtocol.GenGaloisKey", inLab, []string{"share", "crp", "sk"},
		[]func() string{func() string { return U(agg.GaloisElement) + " " + c14RawGadget(&agg.GadgetCiphertext) },
			func() string { return c14RawCRP(crp.Value) }, func() string { return c14RawSks(keys) }})
	gk := rlwe.NewGaloisKey(params, ep)
	keyTok := U(gk.GaloisElement) + " " + c14G(params, &gk.GadgetCiphertext, true, true)
	res := Try(func() string {
		if err := protos[0].GenGaloisKey(agg, crp, gk); err != nil {
			return "err"
		}
		return U(gk.GaloisElement) + " " + Mat(c14GRows(params, &gk.GadgetCiphertext, true, true))
	})
	c.Emit("gal_key "+set.ringTok(lq, lp)+" "+c14GalG(params, &agg)+" "+c14Shape(crpShape)+" "+a+" "+keyTok, res)
	c.Count("gal_key")

	chk()
	c14ProbeGAL(c, set, n, cfg, keys, galEl, gk, res == "panic")

	// refused calls on receivers that hold a valid result for element A (= galEl): error AND receiver untouched
	// (polynomials, levels, decomposition, GaloisElement, NthRoot) AND the key still works
	if res != "panic" && res != "err" {
		lab := fmt.Sprintf("set=%s %s N=%d galEl=%d", set.name, cfg, n, galEl)
		other := c14AllGalEls(set)[0]
		if other == galEl {
			other = c14AllGalEls(set)[1]
		}
		names, alts := c14AltCfgs(set, cfg)
		aggSnap := func() string { return c14GalG(params, &agg) }
		shSnap := func() string { return c14GalG(params, &shares[0]) }
		keySnap := func() string {
			return U(gk.GaloisElement) + " " + I(int(gk.NthRoot)) + " " + c14GSnap(params, &gk.GadgetCiphertext)
		}
		// (a failing call may have re-tagged its receiver: restore the tags so that every case is probed on its own)
		ref := func(fn, what, lab string, snap func() string, call func() error) {
			c14Refused(c, fn, what, lab, snap, call)
			agg.GaloisElement, shares[0].GaloisElement, gk.GaloisElement = galEl, galEl, galEl
		}
		// shares for another element B
		goodB := protos[0].AllocateShare(ep)
		goodB.GaloisElement = other
		ref("GaloisKeyGenProtocol.AggregateShares", "galois_element", lab, aggSnap, func() error { return protos[0].AggregateShares(shares[0], goodB, &agg) })
		for k, alt := range alts {
			badB := protos[0].AllocateShare(alt.params())
			badB.GaloisElement = other
			ref("GaloisKeyGenProtocol.AggregateShares", names[k]+"_other_element", lab, aggSnap, func() error { return protos[0].AggregateShares(goodB, badB, &agg) })
			ref("GaloisKeyGenProtocol.AggregateShares", names[k]+"_share1", lab, aggSnap, func() error { return protos[0].AggregateShares(badB, goodB, &agg) })
			ref("GaloisKeyGenProtocol.GenGaloisKey", names[k]+"_share_of_other_element", lab, keySnap, func() error { return protos[0].GenGaloisKey(badB, crp, gk) })
			if names[k] == "decomposition" {
				crp2 := protos[0].SampleCRP(crs, alt.params())
				ref("GaloisKeyGenProtocol.GenGaloisKey", "decomposition_crp", lab, keySnap, func() error {
					b := agg
					b.GaloisElement = other
					return protos[0].GenGaloisKey(b, crp2, gk)
				})
				ref("GaloisKeyGenProtocol.GenShare", "decomposition_crp_other_element", lab, shSnap, func() error { return protos[0].GenShare(keys.sk[0], other, crp2, &shares[0]) })
			}
		}
		c14ProbeTag = " after_refused_calls"
		c14ProbeGAL(c, set, n, cfg, keys, galEl, gk, false)
		c14ProbeTag = ""
	}

	if res != "panic" && res != "err" {
		// the share and CRP objects are reused for the next Galois element
		c14ClobberGadget(c, &agg.GadgetCiphertext)
		c14ClobberCRP(c, crp.Value)
		next := c14AllGalEls(set)[0]
		if next == galEl {
			next = c14AllGalEls(set)[1]
		}
		for i := range shares {
			_ = protos[i].GenShare(keys.sk[i], next, crp, &shares[i])
		}
		c14SurvivesProbe(c, fmt.Sprintf("gal set=%s %s N=%d galEl=%d", set.name, cfg, n, galEl), res,
			U(gk.GaloisElement)+" "+Mat(c14GRows(params, &gk.GadgetCiphertext, true, true)))
		c14ProbeTag = " after_share_reuse"
		c14ProbeGAL(c, set, n, cfg, keys, galEl, gk, false)
		c14ProbeTag = ""
	}
}

// ---------------------------------------------------------------------------------------------
// relinearisation key

func c14RKG(c *Ctx, set c14Set, n int, cfg c14Evk) {
	params := set.params
	lq, lp := cfg.lq, cfg.lp
	keys := c14GenKeys(set, n)
	_, crs := c14CRS(c)
	ep := cfg.params()

	protos := make([]multiparty.RelinearizationKeyGenProtocol, n)
	gauss := make([]ring.Sampler, n)
	tern := make([]ring.Sampler, n)
	for i := range protos {
		mark := RandMark()
		if i == 0 || c.rng.Intn(2) == 0 {
			protos[i] = multiparty.NewRelinearizationKeyGenProtocol(params)
		} else {
			protos[i] = protos[c.rng.Intn(i)].ShallowCopy() // a copy of the original or of an earlier copy
		}
		var prng *sampling.KeyedPRNG
		gauss[i], prng = c14Twin(set, mark, params.Xe())
		var err error
		if tern[i], err = ring.NewSampler(prng, params.RingQ(), params.Xs(), false); err != nil {
			panic(err)
		}
	}
	crp := protos[0].SampleCRP(crs, ep)
	crpShape := c14CRPShape(crp.Value)
	a := Mat(c14CRPRows(params, crp.Value, false))
	ms := Vec(append(append([]uint64{}, set.qs(lq)...), set.ps(lp)...))

	eph := make([]*rlwe.SecretKey, n)
	us := make([][]int, n)
	inLab := fmt.Sprintf("set=%s %s N=%d", set.name, cfg, n)
	chk := c14Inputs(c, "RelinearizationKeyGenProtocol.GenShareRoundOne", inLab, []string{"sk", "crp"},
		[]func() string{func() string { return c14RawSks(keys) }, func() string { return c14RawCRP(crp.Value) }})
	r1 := make([]multiparty.RelinearizationKeyGenShare, n)
	r2 := make([]multiparty.RelinearizationKeyGenShare, n)
	r1Rows := make([]string, n)
	for i := range protos {
		eph[i], r1[i], r2[i] = protos[i].AllocateShare(ep)
		protos[i].GenShareRoundOne(keys.sk[i], crp, eph[i], &r1[i])
		// twin: ephemeral secret first (full level), then (e0, e1) per (i,j), j outer
		u := params.RingQ().NewPoly()
		tern[i].Read(u)
		us[i] = c14Signed(params.RingQ(), u, false, false)
		if got := c14Signed(params.RingQ(), eph[i].Value.Q, true, true); IVec(got) != IVec(us[i]) {
			c.Probe("twin_replay", fmt.Sprintf("rkg ephemeral secret set=%s N=%d party=%d", set.name, n, i), "C14-twin-replay", "twin_ephemeral_secret_differs_from_the_protocol's")
			us[i] = got
		}
		es := c14ReadErrs(set, gauss[i], lq, crpShape, 2)
		r1Rows[i] = Mat(c14GRows(params, &r1[i].GadgetCiphertext, true, false))
		c.Emit(fmt.Sprintf("rkg_r1 %s %d %s %s %s %s %s %s", set.ringTok(lq, lp), cfg.b2, c14Shape(crpShape), a,
			IVec(keys.s[i]), IVec(us[i]), c14IMat(es[0]), c14IMat(es[1])), r1Rows[i])
		c.Count("rkg_r1")
	}

	chk()
	rawShares := func(sh []multiparty.RelinearizationKeyGenShare) func() string {
		return func() string {
			o := ""
			for i := range sh {
				o += c14RawGadget(&sh[i].GadgetCiphertext)
			}
			return o
		}
	}
	chk = c14Inputs(c, "RelinearizationKeyGenProtocol.AggregateShares", inLab, []string{"round1_shares"}, []func() string{rawShares(r1)})
	add := func(x, y multiparty.RelinearizationKeyGenShare) (multiparty.RelinearizationKeyGenShare, error) {
		var o multiparty.RelinearizationKeyGenShare
		if x.Degree() == 1 {
			_, o, _ = protos[0].AllocateShare(ep)
		} else {
			_, _, o = protos[0].AllocateShare(ep)
		}
		protos[0].AggregateShares(x, y, &o)
		return o, nil
	}
	rt := func(x multiparty.RelinearizationKeyGenShare) (multiparty.RelinearizationKeyGenShare, error) {
		b, err := x.MarshalBinary()
		if err != nil {
			return x, err
		}
		var y multiparty.RelinearizationKeyGenShare
		err = y.UnmarshalBinary(b)
		return y, err
	}
	eq := func(x, y multiparty.RelinearizationKeyGenShare) bool {
		return x.GadgetCiphertext.Equal(&y.GadgetCiphertext)
	}
	c14OrderProbe(c, "rkg1 set="+set.name+" "+cfg.String(), r1, add, rt, eq)
	c14RolesProbe(c, "RelinearizationKeyGenProtocol", "rkg1 set="+set.name+" "+cfg.String(), r1, add,
		func(x, y multiparty.RelinearizationKeyGenShare, o *multiparty.RelinearizationKeyGenShare) error {
			protos[0].AggregateShares(x, y, o)
			return nil
		}, rt, eq)

	t := c14RandTree(c, c14RandPerm(c, n))
	agg1, _ := c14Eval(t, r1, add)
	agg1Rows := Mat(c14GRows(params, &agg1.GadgetCiphertext, true, false))
	c.Emit("agg "+ms+" "+t.String()+" "+I(n)+" "+strings.Join(r1Rows, " "), agg1Rows)
	c.Count("agg_tie")

	r2Rows := make([]string, n)
	chk()
	chk = c14Inputs(c, "RelinearizationKeyGenProtocol.GenShareRoundTwo", inLab, []string{"ephSk", "sk", "round1"},
		[]func() string{func() string {
			o := ""
			for i := range eph {
				o += c14RawQP(eph[i].Value) + " "
			}
			return o
		}, func() string { return c14RawSks(keys) }, func() string { return c14RawGadget(&agg1.GadgetCiphertext) }})
	for i := range protos {
		protos[i].GenShareRoundTwo(eph[i], keys.sk[i], agg1, &r2[i])
		// twin: one error per (i,j), i outer
		var e2 [][]int
		for ii := range crpShape {
			for j := 0; j < crpShape[ii]; j++ {
				_ = j
				e2 = append(e2, c14ReadSigned(set, gauss[i], lq))
			}
		}
		r2Rows[i] = Mat(c14GRows(params, &r2[i].GadgetCiphertext, true, false))
		c.Emit(fmt.Sprintf("rkg_r2 %s %s %s %s %s %s", set.ringTok(lq, lp), c14Shape(crpShape), agg1Rows,
			IVec(keys.s[i]), IVec(us[i]), c14IMat(e2)), r2Rows[i])
		c.Count("rkg_r2")
	}
	c14OrderProbe(c, "rkg2 set="+set.name+" "+cfg.String(), r2, add, rt, eq)
	c14RolesProbe(c, "RelinearizationKeyGenProtocol", "rkg2 set="+set.name+" "+cfg.String(), r2, add,
		func(x, y multiparty.RelinearizationKeyGenShare, o *multiparty.RelinearizationKeyGenShare) error {
			protos[0].AggregateShares(x, y, o)
			return nil
		}, rt, eq)

	t2 := c14RandTree(c, c14RandPerm(c, n))
	agg2, _ := c14Eval(t2, r2, add)
	agg2Rows := Mat(c14GRows(params, &agg2.GadgetCiphertext, true, false))
	c.Emit("agg "+ms+" "+t2.String()+" "+I(n)+" "+strings.Join(r2Rows, " "), agg2Rows)
	c.Count("agg_tie")

	chk()
	chk = c14Inputs(c, "RelinearizationKeyGenProtocol.GenRelinearizationKey", inLab, []string{"round1", "round2", "round2_shares", "sk"},
		[]func() string{func() string { return c14RawGadget(&agg1.GadgetCiphertext) }, func() string { return c14RawGadget(&agg2.GadgetCiphertext) },
			rawShares(r2), func() string { return c14RawSks(keys) }})
	rlk := rlwe.NewRelinearizationKey(params, ep)
	protos[0].GenRelinearizationKey(agg1, agg2, rlk)
	chk()
	c.Emit(fmt.Sprintf("rkg_key %s %s %s %s", set.ringTok(lq, lp), c14Shape(crpShape), agg1Rows, agg2Rows),
		Mat(c14GRows(params, &rlk.GadgetCiphertext, true, true)))
	c.Count("rkg_key")

	c14ProbeRLK(c, set, n, cfg, keys, rlk)

	before := Mat(c14GRows(params, &rlk.GadgetCiphertext, true, true))
	c14ClobberGadget(c, &agg1.GadgetCiphertext)
	c14ClobberGadget(c, &agg2.GadgetCiphertext)
	c14ClobberCRP(c, crp.Value)
	c14SurvivesProbe(c, fmt.Sprintf("rlk set=%s %s N=%d", set.name, cfg, n), before, Mat(c14GRows(params, &rlk.GadgetCiphertext, true, true)))
	c14ProbeTag = " after_share_reuse"
	c14ProbeRLK(c, set, n, cfg, keys, rlk)
	c14ProbeTag = ""
}
