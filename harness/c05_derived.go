package main

// C05 — derived evaluators (Evaluator.WithKey, ShallowCopy and their compositions), both modes.
//
//	derived_config     derived.ScaleInvariant == original's; a scale-invariant product through the derived evaluator
//	                   records the scale s0·s1·(−Q mod t)^-1, a standard one s0·s1; Rescale is a no-op iff scale-invariant
//	derived_chain      a chain of 3 products (BFV: without rescaling; BGV: with) through the derived evaluator decrypts exactly
//	derived_vector     Add / Sub / Mul / MulThenAdd with []uint64 and []int64 operands through the derived evaluator
//	                   (its Encoder is a ShallowCopy: scratch polynomials must live in the plaintext ring — matters
//	                   when the plaintext ring is smaller than the ciphertext ring, gap > 1) decrypt exactly
//
// (besides: `c05Set.evaluator` hands out derived evaluators in rotation to every other program family)

import (
	"fmt"
	"math/big"

	"github.com/tuneinsight/lattigo/v6/core/rlwe"
)

func (c *Ctx) c05Derived(s *c05Set) {
	t := s.t
	L := len(s.qs) - 1
	lN := float64(s.logN)
	tB := new(big.Int).SetUint64(t)
	mul := func(a, b []uint64) []uint64 {
		w := make([]uint64, len(a))
		for i := range a {
			w[i] = c05MulMod(a[i], b[i], t)
		}
		return w
	}
	for mode := 0; mode < 5; mode++ {
		for _, si := range []bool{false, true} {
			ev := s.derivedEvaluator(si, true, mode)
			args := fmt.Sprintf("%s derivation=%s si=%v", s.name, c05Derivations[mode], si)
			// --- config + recorded scale of a product + Rescale
			detail := ""
			if ev.ScaleInvariant != si {
				detail = fmt.Sprintf("ScaleInvariant=%v, original %v", ev.ScaleInvariant, si)
			}
			s0, s1 := c.c05Scale(t), c.c05Scale(t)
			a, b := c.c05NewCt(s, L, s0), c.c05NewCt(s, L, s1)
			st := Try(func() string {
				r, err := ev.MulRelinNew(a.ct, b.ct)
				if err != nil {
					return "err"
				}
				wantScale := c05MulMod(s0, s1, t)
				if si {
					qm := new(big.Int).Mod(s.params.RingQ().ModulusAtLevel[L], tB).Uint64()
					wantScale = c05MulMod(wantScale, c05Inv(t-qm, t), t)
				}
				if r.Scale.Uint64() != wantScale {
					return fmt.Sprintf("product scale %d, want %d", r.Scale.Uint64(), wantScale)
				}
				if L > 0 {
					lvl := r.Level()
					if err := ev.Rescale(r, r); err != nil {
						return "err"
					}
					if si && r.Level() != lvl || !si && r.Level() != lvl-1 {
						return fmt.Sprintf("Rescale: level %d -> %d", lvl, r.Level())
					}
				}
				return "ok"
			})
			if detail == "" && st != "ok" {
				detail = st
			}
			c.Probe("derived_config", args, "C05/derived-evaluator-mode-differs", detail)

			// --- chain of three products
			detail = ""
			x := c.c05NewCt(s, L, 1)
			want := append([]uint64(nil), x.want...)
			cur := x.ct
			nb := lN + 7
			depth := 0
			for k := 0; k < 3 && detail == ""; k++ {
				var nnb float64
				lvl := cur.Level()
				if si {
					nnb = lN + s.lt + lmax(nb, lN+7) + 5
				} else {
					if lvl == 0 {
						break
					}
					nnb = lN + s.lt + nb + lN + 7 + 4
				}
				if nnb+s.lt+3 > s.logQ[lvl] {
					break
				}
				y := c.c05NewCt(s, lvl, 1)
				st := Try(func() string {
					r, err := ev.MulRelinNew(cur, y.ct)
					if err != nil {
						return "err"
					}
					if err := ev.Rescale(r, r); err != nil {
						return "err"
					}
					cur = r
					return "ok"
				})
				if st != "ok" {
					detail = st
					break
				}
				want = mul(want, y.want)
				nb = nnb
				if !si {
					nb = lmax(nnb-s.logQ[lvl]+s.logQ[lvl-1], lN+2) + 1
				}
				depth++
				if got := s.decodeCt(cur); Vec(got) != Vec(want) {
					detail = fmt.Sprintf("depth=%d slot0 got %d want %d (scale %d level %d)", depth, got[0], want[0], cur.Scale.Uint64(), cur.Level())
				}
			}
			c.Probe("derived_chain", args+fmt.Sprintf(" depth=%d", depth), "C05/derived-evaluator-product-chain", detail)

			// --- vector operands
			for _, op := range []string{"add", "sub", "mul", "mta"} {
				for _, kind := range []string{"vu", "vi"} {
					a := c.c05NewCt(s, L, c.c05Scale(t))
					bArg := c.c05Arg(s, kind)
					mb := s.argMsg(bArg, a)
					w := make([]uint64, s.n)
					o := c05Out{mode: "new"}
					var acc *c05Reg
					if op == "mta" {
						acc = c.c05NewCt(s, L, a.scale())
						o = c05Out{mode: "into", reg: acc}
					}
					for i := range w {
						switch op {
						case "add":
							w[i] = (a.want[i] + mb[i]) % t
						case "sub":
							w[i] = (a.want[i] + t - mb[i]) % t
						case "mul":
							w[i] = c05MulMod(a.want[i], mb[i], t)
						default:
							w[i] = (acc.want[i] + c05MulMod(a.want[i], mb[i], t)) % t
						}
					}
					if (op == "mul" || op == "mta") && lN+s.lt+lN+7+2+s.lt+3 > s.logQ[L] {
						continue
					}
					var res []*rlwe.Ciphertext
					detail := ""
					st := Try(func() string {
						r, err := c05Call(ev, op, a.ct, bArg, o)
						if err != nil {
							return "err"
						}
						res = r
						return "ok"
					})
					if st != "ok" {
						detail = st
					} else if got := s.decodeCt(res[0]); Vec(got) != Vec(w) {
						d := 0
						for i := range got {
							if got[i] != w[i] {
								d = i
								break
							}
						}
						detail = fmt.Sprintf("slot=%d got %d want %d", d, got[d], w[d])
					}
					c.Probe("derived_vector", args+" op="+op+" kind="+kind, "C05/derived-evaluator-vector-operand", detail)
				}
			}
		}
	}
}
