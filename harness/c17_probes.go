package main

// C17 probes: property predicates evaluated on the real code with the real keyed PRNG
// (BLAKE2b XOF).  A probe that fails is a property violation; its line is the replay.
// Statistical checks (mean, standard deviation, density, sign balance, adjacent-coefficient
// independence) are LABELLED TESTS with generous tolerances, not theorems; the measured values go
// into stats.json (scaled integers).

import (
	"fmt"
	"math"
	"math/big"

	"github.com/tuneinsight/lattigo/v6/ring"
	"github.com/tuneinsight/lattigo/v6/utils/sampling"
)

func c17Keyed(key []byte) *sampling.KeyedPRNG {
	p, err := sampling.NewKeyedPRNG(key)
	if err != nil {
		panic(err)
	}
	return p
}

// centred value of an RNS coefficient vector if all limbs agree on one small integer, else ok=false
func c17Centre(chain []uint64, limbs []uint64) (x *big.Int, ok bool) {
	q0 := chain[0]
	v := new(big.Int).SetUint64(limbs[0] % q0)
	if limbs[0]%q0 > q0/2 {
		v.Sub(v, new(big.Int).SetUint64(q0))
	}
	for i, q := range chain {
		m := new(big.Int).Mod(v, new(big.Int).SetUint64(q))
		if m.Uint64() != limbs[i]%q {
			return v, false
		}
	}
	return v, true
}

func c17Probes(c *Ctx) {
	safe := func(name string, f func(*Ctx)) { c17Safe(c, name, f) }
	safe("views", c17ProbeViews)
	c17ProbeConsumers(c)
	safe("sparse-signs", c17ProbeSparseSigns)
	safe("determinism", c17ProbeDeterminism)
	safe("uniform", c17ProbeUniform)
	safe("ternary", c17ProbeTernary)
	safe("gauss", c17ProbeGauss)
	safe("readandadd", c17ProbeReadAndAdd)
	safe("mont", c17ProbeMont)
	safe("stats", c17ProbeStats)
}

func c17RandKinds(c *Ctx, N int) []c17Kind {
	return []c17Kind{
		{tag: "u"},
		{tag: "tp", P: c17Ps[c.rng.Intn(len(c17Ps))], mont: c.rng.Intn(2) == 0},
		{tag: "tp", P: 0.5},
		{tag: "th", H: 1 + c.rng.Intn(N), mont: c.rng.Intn(2) == 0},
		{tag: "g", sigma: 3.2, bound: 19.2, mont: c.rng.Intn(2) == 0},
		{tag: "g", sigma: c17SigmaBoundBig[0][0], bound: c17SigmaBoundBig[0][1]},
	}
}

// run a call sequence on fresh samplers over prng; returns all results
func c17RunCalls(prng sampling.PRNG, r *ring.Ring, kinds []c17Kind, calls []c17Call, samplers []ring.Sampler) ([]ring.Sampler, [][][]uint64) {
	if samplers == nil {
		samplers = make([]ring.Sampler, len(kinds))
		for i, k := range kinds {
			s, err := c17NewSampler(prng, r, k)
			if err != nil {
				panic(err)
			}
			samplers[i] = s
		}
	}
	regs := make([]ring.Poly, 3)
	for i := range regs {
		regs[i] = r.NewPoly()
	}
	var outs [][][]uint64
	for _, cl := range calls {
		v := samplers[cl.s].AtLevel(cl.level)
		switch cl.op {
		case 'r':
			v.Read(regs[cl.reg])
		case 'n':
			outs = append(outs, c17CopyRows(v.ReadNew().Coeffs))
			continue
		case 'a':
			v.ReadAndAdd(regs[cl.reg])
		}
		outs = append(outs, c17CopyRows(regs[cl.reg].Coeffs))
	}
	return samplers, outs
}

func c17ProbeDeterminism(c *Ctx) {
	staleDiffers := 0
	for i := 0; i < c.Scale(60, 1200); i++ {
		N := c17PickN(c)
		chain := c17PickChain(c, 1+c.rng.Intn(3))
		r := c17Ring(N, chain)
		kinds := c17RandKinds(c, N)
		nc := 1 + c.rng.Intn(8)
		calls := make([]c17Call, nc)
		for k := range calls {
			calls[k] = c17Call{s: c.rng.Intn(len(kinds)), level: c.rng.Intn(len(chain)), op: "rna"[c.rng.Intn(3)], reg: c.rng.Intn(3)}
		}
		key := c.rng.Bytes(8 * c.rng.Intn(5))
		args := fmt.Sprintf("N=%d Q=%s key=%s calls=%v", N, Vec(chain), Hex(key), calls)
		p1, p2 := c17Keyed(key), c17Keyed(key)
		s1, o1 := c17RunCalls(p1, r, kinds, calls, nil)
		_, o2 := c17RunCalls(p2, r, kinds, calls, nil)
		detail := ""
		if fmt.Sprint(o1) != fmt.Sprint(o2) {
			detail = "two samplers over NewKeyedPRNG(sameKey) disagree"
		}
		c.Probe("determinism", args, "C17-determinism", detail)
		// Reset replays the stream: fresh samplers over the reset generator reproduce the outputs
		p1.Reset()
		_, o3 := c17RunCalls(p1, r, kinds, calls, nil)
		detail = ""
		if fmt.Sprint(o1) != fmt.Sprint(o3) {
			detail = "Reset() + fresh samplers does not replay"
		}
		c.Probe("reset-replays", args, "C17-reset", detail)
		// observation (not a predicate of the property): the OLD samplers keep their buffer and
		// pointer, so they do not replay after Reset()
		p1.Reset()
		_, o4 := c17RunCalls(p1, r, kinds, calls, s1)
		if fmt.Sprint(o1) != fmt.Sprint(o4) {
			staleDiffers++
		}
	}
	c.Stats["obs:reset-with-old-samplers-differs"] = staleDiffers
}

func c17ProbeUniform(c *Ctx) {
	for i := 0; i < c.Scale(60, 1200); i++ {
		N := c17PickN(c)
		chain := c17PickChain(c, 1+c.rng.Intn(3))
		r := c17Ring(N, chain)
		key := c.rng.Bytes(16)
		s := ring.NewUniformSampler(c17Keyed(key), r)
		detail := ""
		for k := 0; k < 4 && detail == ""; k++ {
			lvl := c.rng.Intn(len(chain))
			p := s.AtLevel(lvl).ReadNew()
			if len(p.Coeffs) != lvl+1 {
				detail = "wrong number of rows"
			}
			for j, row := range p.Coeffs {
				for _, x := range row {
					if x >= chain[j] {
						detail = fmt.Sprintf("coefficient %d >= q=%d", x, chain[j])
					}
				}
			}
		}
		c.Probe("uniform-range", fmt.Sprintf("N=%d Q=%s key=%s", N, Vec(chain), Hex(key)), "C17-uniform-range", detail)
	}
}

func c17ProbeTernary(c *Ctx) {
	for i := 0; i < c.Scale(100, 2000); i++ {
		N := c17PickN(c)
		chain := c17PickChain(c, 1+c.rng.Intn(3))
		r := c17Ring(N, chain)
		key := c.rng.Bytes(16)
		var X ring.Ternary
		wantH := -1
		if i%2 == 0 {
			// every H in 1..N is visited over the run (i/2 cycles), plus H > N (clipped)
			X = ring.Ternary{H: 1 + (i/2)%(N+3)}
			wantH = X.H
			if wantH > N {
				wantH = N
			}
		} else {
			X = ring.Ternary{P: c17Ps[c.rng.Intn(len(c17Ps))]}
		}
		s, err := ring.NewTernarySampler(c17Keyed(key), r, X, false)
		if err != nil {
			panic(err)
		}
		lvl := c.rng.Intn(len(chain))
		p := r.NewPoly()
		s.AtLevel(lvl).Read(p)
		detail := ""
		nz := 0
		for j := 0; j < N; j++ {
			limbs := make([]uint64, lvl+1)
			for k := range limbs {
				limbs[k] = p.Coeffs[k][j]
				if limbs[k] >= chain[k] {
					detail = "unreduced limb"
				}
			}
			x, ok := c17Centre(chain[:lvl+1], limbs)
			if !ok {
				detail = "limbs represent different integers"
			} else if x.CmpAbs(big.NewInt(1)) > 0 {
				detail = "coefficient outside {-1,0,1}"
			} else if x.Sign() != 0 {
				nz++
			}
		}
		if detail == "" && wantH >= 0 && nz != wantH {
			detail = fmt.Sprintf("Hamming weight %d, want %d", nz, wantH)
		}
		c.Probe("ternary-support-weight-rns", fmt.Sprintf("N=%d Q=%s key=%s P=%s H=%d level=%d", N, Vec(chain), Hex(key), c17F64(X.P), X.H, lvl), "C17-ternary-support", detail)
	}
	// AtLevel(l) on a ternary sampler: ReadNew gives l+1 rows, Read leaves the rows above l alone
	for i := 0; i < c.Scale(12, 100); i++ {
		N := c17PickN(c)
		chain := c17PickChain(c, 2+c.rng.Intn(2))
		r := c17Ring(N, chain)
		key := c.rng.Bytes(16)
		X := ring.Ternary{P: 2.0 / 3.0}
		if i%2 == 1 {
			X = ring.Ternary{H: 1 + c.rng.Intn(N)}
		}
		s, _ := ring.NewTernarySampler(c17Keyed(key), r, X, false)
		lvl := c.rng.Intn(len(chain) - 1)
		detail := Try(func() string {
			p := s.AtLevel(lvl).ReadNew()
			if len(p.Coeffs) != lvl+1 {
				return "wrong number of rows"
			}
			return ""
		})
		if detail == "panic" {
			detail = "AtLevel(l).ReadNew() panics for l < MaxLevel"
		}
		args := fmt.Sprintf("N=%d Q=%s key=%s P=%s H=%d level=%d", N, Vec(chain), Hex(key), c17F64(X.P), X.H, lvl)
		c.Probe("ternary-atlevel-readnew", args, "C17-ternary-atlevel-ignored", detail)
		p := r.NewPoly()
		for k := range p.Coeffs {
			for j := range p.Coeffs[k] {
				p.Coeffs[k][j] = 7
			}
		}
		s.AtLevel(lvl).Read(p)
		detail = ""
		for k := lvl + 1; k < len(chain); k++ {
			for j := range p.Coeffs[k] {
				if p.Coeffs[k][j] != 7 {
					detail = fmt.Sprintf("AtLevel(%d).Read wrote row %d", lvl, k)
				}
			}
		}
		c.Probe("ternary-atlevel-read", args, "C17-ternary-atlevel-ignored", detail)
	}
	// malformed distribution parameters are rejected by the constructor
	r := c17Ring(16, []uint64{257})
	for _, X := range []ring.Ternary{{H: -1}, {H: -9}, {P: -0.5}, {P: 1.5}, {P: 0.5, H: 3}, {}} {
		_, err := ring.NewTernarySampler(c17Keyed(nil), r, X, false)
		detail := ""
		if err == nil {
			detail = fmt.Sprintf("NewTernarySampler accepts %+v", X)
		}
		c.Probe("ternary-malformed-rejected", fmt.Sprintf("N=16 Q=257 P=%s H=%d", c17F64(X.P), X.H), "C17-ternary-negative-H", detail)
	}
}

// Gaussian: |x| <= round(bound), limbs reduced, one integer across moduli
func c17ProbeGauss(c *Ctx) {
	type cfg struct {
		sigma, bound float64
		chain        []uint64
		key          string
	}
	var cfgs []cfg
	for i := 0; i < c.Scale(40, 800); i++ {
		sb := c17SigmaBound[c.rng.Intn(len(c17SigmaBound))]
		cfgs = append(cfgs, cfg{sb[0], sb[1], c17PickChain(c, 1+c.rng.Intn(3)), "generic"})
	}
	// bound larger than a modulus: the limb arithmetic (qi - coeffInt) wraps
	for i := 0; i < c.Scale(6, 60); i++ {
		cfgs = append(cfgs, cfg{1048576, 6291456, []uint64{257, 65537, 1073741953}, "bound>q"})
	}
	// bound between two moduli of the chain, the larger modulus FIRST: only the later limbs need the reduction
	for i := 0; i < c.Scale(6, 60); i++ {
		ch := [][]uint64{{1073741953, 65537, 257}, {35184372088321, 257}, {1073741953, 1048193, 65537}}[i%3]
		cfgs = append(cfgs, cfg{1048576, 6291456, ch, "bound>q"})
	}
	// big-number path
	for i := 0; i < c.Scale(10, 100); i++ {
		sb := c17SigmaBoundBig[i%len(c17SigmaBoundBig)]
		cfgs = append(cfgs, cfg{sb[0], sb[1], c17PickChain(c, 2+c.rng.Intn(2)), "big"})
	}
	for _, g := range cfgs {
		N := c17PickN(c)
		r := c17Ring(N, g.chain)
		key := c.rng.Bytes(16)
		s := ring.NewGaussianSampler(c17Keyed(key), r, ring.DiscreteGaussian{Sigma: g.sigma, Bound: g.bound}, false)
		lvl := len(g.chain) - 1
		p := s.ReadNew()
		rb := new(big.Int)
		new(big.Float).SetFloat64(math.Floor(g.bound + 0.5)).Int(rb)
		var dRange, dRNS, dBound string
		Q := new(big.Int).SetInt64(1)
		for _, q := range g.chain {
			Q.Mul(Q, new(big.Int).SetUint64(q))
		}
		for j := 0; j < N; j++ {
			limbs := make([]uint64, lvl+1)
			for k := range limbs {
				limbs[k] = p.Coeffs[k][j]
				if limbs[k] >= g.chain[k] && dRange == "" {
					dRange = fmt.Sprintf("coeff[%d][%d]=%d >= q=%d", k, j, limbs[k], g.chain[k])
				}
			}
			// the represented integer: CRT-reconstruct centred mod Q, compare with the bound when Q > 2*bound
			x := c17CRT(g.chain, limbs)
			two := new(big.Int).Lsh(rb, 1)
			if Q.Cmp(two) > 0 {
				if x.CmpAbs(rb) > 0 && dBound == "" {
					dBound = fmt.Sprintf("|x|=%s > round(bound)=%s at j=%d", new(big.Int).Abs(x).String(), rb.String(), j)
				}
			}
			// consistency with a small integer is only meaningful when every q_i > 2*bound
			small := true
			for _, q := range g.chain {
				if new(big.Int).SetUint64(q).Cmp(two) <= 0 {
					small = false
				}
			}
			if small {
				if _, ok := c17Centre(g.chain, limbs); !ok && dRNS == "" {
					dRNS = fmt.Sprintf("limbs %v are not residues of one integer at j=%d", limbs, j)
				}
			}
		}
		args := fmt.Sprintf("class=%s N=%d Q=%s key=%s sigma=%s bound=%s", g.key, N, Vec(g.chain), Hex(key), c17F64(g.sigma), c17F64(g.bound))
		c.Probe("gauss-limbs-reduced", args, "C17-gauss-unreduced-limb", dRange)
		bk := "C17-gauss-bound"
		minq := g.chain[0]
		for _, q := range g.chain {
			if q < minq {
				minq = q
			}
		}
		if g.key == "bound>q" || (g.key == "generic" && rb.Cmp(new(big.Int).SetUint64(minq)) > 0) {
			bk = "C17-gauss-limb-wrap" // (qi - coeffInt) wraps mod 2^64 when coeffInt > qi: limbs no longer represent -coeffInt
		} else if g.key == "big" {
			bk = "C17-gauss-bigpath-negative-unbounded" // only normInt <= bound is tested: negative values are not truncated
		}
		c.Probe("gauss-bound", args, bk, dBound)
		c.Probe("gauss-rns-consistent", args, "C17-gauss-rns", dRNS)
	}
}

// centred CRT reconstruction (limbs reduced first)
func c17CRT(chain []uint64, limbs []uint64) *big.Int {
	Q := big.NewInt(1)
	for _, q := range chain {
		Q.Mul(Q, new(big.Int).SetUint64(q))
	}
	x := new(big.Int)
	for i, q := range chain {
		qi := new(big.Int).SetUint64(q)
		Qi := new(big.Int).Quo(Q, qi)
		inv := new(big.Int).ModInverse(new(big.Int).Mod(Qi, qi), qi)
		t := new(big.Int).SetUint64(limbs[i] % q)
		t.Mul(t, inv).Mod(t, qi).Mul(t, Qi)
		x.Add(x, t)
	}
	x.Mod(x, Q)
	half := new(big.Int).Rsh(Q, 1)
	if x.Cmp(half) > 0 {
		x.Sub(x, Q)
	}
	return x
}

// ReadAndAdd(pol) == pol + Read()  (same key, twin samplers)
func c17ProbeReadAndAdd(c *Ctx) {
	for i := 0; i < c.Scale(60, 1200); i++ {
		N := c17PickN(c)
		chain := c17PickChain(c, 1+c.rng.Intn(3))
		r := c17Ring(N, chain)
		kinds := c17RandKinds(c, N)
		kd := kinds[i%len(kinds)]
		key := c.rng.Bytes(16)
		s1, err := c17NewSampler(c17Keyed(key), r, kd)
		if err != nil {
			panic(err)
		}
		s2, _ := c17NewSampler(c17Keyed(key), r, kd)
		a := r.NewPoly()
		for k, q := range chain {
			for j := range a.Coeffs[k] {
				a.Coeffs[k][j] = c.rng.Below(q)
			}
		}
		want := s1.ReadNew()
		r.Reduce(want, want) // tolerate the unreduced -0 of the Gaussian sampler here
		r.Add(a, want, want)
		got := *a.CopyNew()
		s2.ReadAndAdd(got)
		detail := ""
		if !got.Equal(&want) {
			n := 0
			for k := range chain {
				for j := 0; j < N; j++ {
					if got.Coeffs[k][j] != want.Coeffs[k][j] {
						n++
					}
				}
			}
			detail = fmt.Sprintf("ReadAndAdd(a) != a + Read() on %d of %d limbs", n, N*len(chain))
		}
		fk := "C17-readandadd"
		if kd.tag == "th" {
			fk = "C17-sparse-readandadd-zeroes"
		} else if kd.tag == "g" && kd.mont {
			fk = "C17-gauss-mont-readandadd"
		}
		c.Probe("readandadd-eq-add-read", fmt.Sprintf("kind=%s N=%d Q=%s key=%s", kd.String(), N, Vec(chain), Hex(key)), fk, detail)
	}
}

// Montgomery output == MForm(plain output)
func c17ProbeMont(c *Ctx) {
	for i := 0; i < c.Scale(40, 800); i++ {
		N := c17PickN(c)
		chain := c17PickChain(c, 1+c.rng.Intn(3))
		r := c17Ring(N, chain)
		kinds := c17RandKinds(c, N)
		kd := kinds[1+i%(len(kinds)-1)]
		key := c.rng.Bytes(16)
		kp, km := kd, kd
		kp.mont, km.mont = false, true
		sp, _ := c17NewSampler(c17Keyed(key), r, kp)
		sm, _ := c17NewSampler(c17Keyed(key), r, km)
		want := sp.ReadNew()
		r.MForm(want, want)
		got := sm.ReadNew()
		detail := ""
		if !got.Equal(&want) {
			detail = "Montgomery output differs from MForm(plain output)"
		}
		c.Probe("mont-eq-mform-plain", fmt.Sprintf("kind=%s N=%d Q=%s key=%s", kd.String(), N, Vec(chain), Hex(key)), "C17-mont", detail)
	}
}

// LABELLED TESTS: empirical moments with generous tolerances
func c17ProbeStats(c *Ctx) {
	N := 64
	chain := []uint64{1152921504606844417}
	q := chain[0]
	r := c17Ring(N, chain)
	rounds := c.Scale(256, 4096) // N*rounds draws
	cen := func(x uint64) float64 {
		if x > q/2 {
			return -float64(q - x)
		}
		return float64(x)
	}
	// Gaussian
	for _, sb := range [][2]float64{{3.2, 19.2}, {1, 6}, {8, 48}, {100.5, 603}} {
		s := ring.NewGaussianSampler(c17Keyed(c.rng.Bytes(16)), r, ring.DiscreteGaussian{Sigma: sb[0], Bound: sb[1]}, false)
		var sum, sum2 float64
		pos, neg, n := 0, 0, 0
		for it := 0; it < rounds; it++ {
			p := s.ReadNew()
			for _, x := range p.Coeffs[0] {
				v := cen(x % q)
				sum += v
				sum2 += v * v
				if v > 0 {
					pos++
				} else if v < 0 {
					neg++
				}
				n++
			}
		}
		mean := sum / float64(n)
		std := math.Sqrt(sum2/float64(n) - mean*mean)
		// rounding adds 1/12 to the variance
		wantStd := math.Sqrt(sb[0]*sb[0] + 1.0/12)
		tol := 6 / math.Sqrt(float64(n))
		detail := ""
		if math.Abs(mean) > tol*sb[0] {
			detail = fmt.Sprintf("mean %.4f", mean)
		} else if math.Abs(std-wantStd) > (0.02+tol)*wantStd {
			detail = fmt.Sprintf("std %.4f want %.4f", std, wantStd)
		} else if math.Abs(float64(pos-neg)) > 6*math.Sqrt(float64(pos+neg)) {
			detail = fmt.Sprintf("sign balance %d/%d", pos, neg)
		}
		tag := fmt.Sprintf("gauss:sigma=%g", sb[0])
		c.Stats["stat:"+tag+":mean_x1e4"] = int(math.Round(mean * 1e4))
		c.Stats["stat:"+tag+":std_x1e4"] = int(math.Round(std * 1e4))
		c.Stats["stat:"+tag+":pos"] = pos
		c.Stats["stat:"+tag+":neg"] = neg
		c.Probe("TEST-gauss-moments", fmt.Sprintf("sigma=%s bound=%s draws=%d", c17F64(sb[0]), c17F64(sb[1]), n), "C17-stat-gauss", detail)
	}
	// Ternary density, sign balance, and independence of adjacent coefficients
	for _, P := range []float64{0.5, 2.0 / 3.0, 1.0 / 3.0, 0.25} {
		s, _ := ring.NewTernarySampler(c17Keyed(c.rng.Bytes(16)), r, ring.Ternary{P: P}, false)
		var cnt [3]int
		var pair [3][3]int
		n := 0
		for it := 0; it < rounds; it++ {
			p := s.ReadNew()
			prev := -1
			for _, x := range p.Coeffs[0] {
				k := 0
				if x == 1 {
					k = 1
				} else if x == q-1 {
					k = 2
				}
				cnt[k]++
				if prev >= 0 {
					pair[prev][k]++
				}
				prev = k
				n++
			}
		}
		dens := float64(cnt[1]+cnt[2]) / float64(n)
		tol := 6 / math.Sqrt(float64(n))
		detail := ""
		if math.Abs(dens-P) > tol {
			detail = fmt.Sprintf("density %.4f want %.4f", dens, P)
		} else if math.Abs(float64(cnt[1]-cnt[2])) > 6*math.Sqrt(float64(cnt[1]+cnt[2])) {
			detail = fmt.Sprintf("sign balance %d/%d", cnt[1], cnt[2])
		}
		tag := fmt.Sprintf("ternary:P=%.4f", P)
		c.Stats["stat:"+tag+":density_x1e4"] = int(math.Round(dens * 1e4))
		c.Stats["stat:"+tag+":plus"] = cnt[1]
		c.Stats["stat:"+tag+":minus"] = cnt[2]
		c.Probe("TEST-ternary-density-sign", fmt.Sprintf("P=%s draws=%d", c17F64(P), n), "C17-stat-ternary", detail)
		// independence: P(next = 0 | prev = -1) should equal P(next = 0 | prev = +1) = 1 - P
		a := float64(pair[2][0]) / float64(pair[2][0]+pair[2][1]+pair[2][2])
		b := float64(pair[1][0]) / float64(pair[1][0]+pair[1][1]+pair[1][2])
		detail = ""
		tolc := 8 / math.Sqrt(float64(cnt[2]))
		if math.Abs(a-(1-P)) > tolc || math.Abs(b-(1-P)) > tolc {
			detail = fmt.Sprintf("P(next=0|prev=-1)=%.3f P(next=0|prev=+1)=%.3f want %.3f (sign bit reused as first Knuth-Yao bit of the next coefficient)", a, b, 1-P)
		}
		c.Stats["stat:"+tag+":p_next0_given_minus_x1e4"] = int(math.Round(a * 1e4))
		c.Stats["stat:"+tag+":p_next0_given_plus_x1e4"] = int(math.Round(b * 1e4))
		c.Probe("TEST-ternary-adjacent-independence", fmt.Sprintf("P=%s draws=%d", c17F64(P), n), "C17/ternary-ky-sign-bit-reused", detail)
	}
	// fixed weight: sign balance
	for _, H := range []int{8, 32, 64} {
		s, _ := ring.NewTernarySampler(c17Keyed(c.rng.Bytes(16)), r, ring.Ternary{H: H}, false)
		plus, minus := 0, 0
		for it := 0; it < rounds; it++ {
			p := s.ReadNew()
			for _, x := range p.Coeffs[0] {
				if x == 1 {
					plus++
				} else if x == q-1 {
					minus++
				}
			}
		}
		detail := ""
		if plus+minus != H*rounds {
			detail = "weight"
		} else if math.Abs(float64(plus-minus)) > 6*math.Sqrt(float64(plus+minus)) {
			detail = fmt.Sprintf("sign balance %d/%d", plus, minus)
		}
		c.Stats[fmt.Sprintf("stat:ternary:H=%d:plus", H)] = plus
		c.Stats[fmt.Sprintf("stat:ternary:H=%d:minus", H)] = minus
		c.Probe("TEST-ternary-H-sign", fmt.Sprintf("H=%d rounds=%d", H, rounds), "C17-stat-ternaryH", detail)
	}
	// uniform: mean of x/q
	{
		s := ring.NewUniformSampler(c17Keyed(c.rng.Bytes(16)), r)
		var sum float64
		n := 0
		for it := 0; it < rounds; it++ {
			p := s.ReadNew()
			for _, x := range p.Coeffs[0] {
				sum += float64(x) / float64(q)
				n++
			}
		}
		mean := sum / float64(n)
		detail := ""
		if math.Abs(mean-0.5) > 6/math.Sqrt(12*float64(n)) {
			detail = fmt.Sprintf("mean of x/q %.4f", mean)
		}
		c.Stats["stat:uniform:mean_x1e4"] = int(math.Round(mean * 1e4))
		c.Probe("TEST-uniform-mean", fmt.Sprintf("draws=%d", n), "C17-stat-uniform", detail)
	}
}
